(** PKeyCodec: the key container codecs of MPacking.v ([pack_pk], [unpack_pk], [pack_sk], [unpack_sk])
    are the specification's pkEncode / pkDecode / skEncode / skDecode (FIPS 204, Algorithms 22-25),
    write exactly the standard number of bytes, leave the rest of the buffer alone, and the decoders
    invert the encoders (part of property C16).

    Contents
      1. list / [splice] toolkit: [ow] (overwrite), [splice_ow], [splice_fits], [ow_app]
      2. [splice_loop_concat]: a loop splicing piece i at [off + i*sz] splices the concatenation at [off]
      3. [slices] and [slice_loop_map]: a [for_idx] loop decoding [slice_from b (off + i*sz)] maps the
         decoder over the consecutive slices
      4. the polynomial codecs (t1, t0, eta) in one uniform shape [codec_ok]; the eta encoder is shown
         exact on the whole range the eta decoder can return, not only on [-eta, eta]
      5. specification: S_pkEncode, S_pkDecode, S_skEncode, S_skDecode
      6. pack_pk_spec, unpack_pk_spec, S_pkDecode_range, unpack_pk_pack_pk, pack_pk_unpack_pk
      7. pack_sk_spec(_wide), unpack_sk_spec, S_skDecode_range, unpack_sk_pack_sk, pack_sk_unpack_sk
      8. layout facts: pack_pk_layout, pack_sk_layout, pk_sk_same_rho, unpack_sk_layout; std_key_params

    Conventions: P with 0 <= pK P, 0 <= pL P, pETA P in {2,4}, 0 <= pTR P (all six parameter sets,
    [std_key_params]); a polynomial is [polyOK rng a]: 256 coefficients, all in [rng]. *)
From DV Require Import Base Gen MReduce MRounding MParams MKeccak MNtt MPoly MPolyvec MPacking PLift PPack PPack2 PTape.

Local Ltac Zify.zify_post_hook ::= Z.div_mod_to_equations.

(** * 1. Lists, [zlen], [splice] *)

Lemma zlen_app {A} (a b : list A) : zlen (a ++ b) = zlen a + zlen b.
Proof. unfold zlen. rewrite app_length. lia. Qed.

Lemma zlen_nonneg {A} (a : list A) : 0 <= zlen a.
Proof. unfold zlen. lia. Qed.

Lemma firstn_app_exact {A} (l r : list A) n : n = length l -> firstn n (l ++ r) = l.
Proof. intros ->. rewrite firstn_app, Nat.sub_diag, firstn_all. cbn [firstn]. apply app_nil_r. Qed.

Lemma skipn_app_exact {A} (l r : list A) n m : n = length l -> skipn (n + m) (l ++ r) = skipn m r.
Proof.
  intros ->. rewrite skipn_app. rewrite skipn_all2 by lia. cbn [app]. f_equal. lia.
Qed.

Lemma skipn_app_exact0 {A} (l r : list A) n : n = length l -> skipn n (l ++ r) = r.
Proof. intros H. rewrite <- (Nat.add_0_r n). rewrite skipn_app_exact by exact H. reflexivity. Qed.

Lemma firstn_add {A} a b (l : list A) : firstn (a + b) l = firstn a l ++ firstn b (skipn a l).
Proof.
  revert l; induction a as [|a IH]; intros l; [reflexivity|].
  destruct l as [|x l]; cbn [Nat.add firstn skipn app].
  - rewrite firstn_nil. reflexivity.
  - f_equal. apply IH.
Qed.

Lemma Forall_firstn {A} (Q : A -> Prop) n (l : list A) : Forall Q l -> Forall Q (firstn n l).
Proof.
  intros H. revert n. induction H as [|x l Hx Hl IH]; intros [|n]; cbn [firstn]; constructor; auto.
Qed.

Lemma Forall_skipn {A} (Q : A -> Prop) n (l : list A) : Forall Q l -> Forall Q (skipn n l).
Proof.
  intros H. revert n. induction H as [|x l Hx Hl IH]; intros [|n]; cbn [skipn]; auto.
Qed.

Lemma Forall_concat {A} (Q : A -> Prop) (ll : list (list A)) : Forall (Forall Q) ll -> Forall Q (concat ll).
Proof.
  induction 1 as [|l ll Hl Hll IH]; cbn [concat]; [constructor|]. apply Forall_app. split; assumption.
Qed.

Lemma Forall_map_in {A B} (Q : B -> Prop) (f : A -> B) l : (forall x, In x l -> Q (f x)) -> Forall Q (map f l).
Proof. intros H. apply Forall_forall. intros y Hy. apply in_map_iff in Hy as (x & <- & Hx). auto. Qed.

Lemma foldM_app {A S} (f : S -> A -> res S) l1 l2 s :
  foldM f (l1 ++ l2) s = (do s' <- foldM f l1 s; foldM f l2 s').
Proof.
  revert s; induction l1 as [|x l1 IH]; intros s; cbn [app foldM bind]; [reflexivity|].
  destruct (f s x); cbn [bind]; auto.
Qed.

(** the checked slicing operations when they succeed *)
Lemma slice_to_ok {A} (l : list A) n : 0 <= n <= zlen l -> slice_to l n = Ok (firstn (Z.to_nat n) l).
Proof.
  intros H. unfold slice_to.
  destruct (Z.leb_spec 0 n); [|lia]. destruct (Z.leb_spec n (zlen l)); [|lia]. reflexivity.
Qed.

Lemma slice_from_ok {A} (l : list A) n : 0 <= n <= zlen l -> slice_from l n = Ok (skipn (Z.to_nat n) l).
Proof.
  intros H. unfold slice_from.
  destruct (Z.leb_spec 0 n); [|lia]. destruct (Z.leb_spec n (zlen l)); [|lia]. reflexivity.
Qed.

Lemma slice_ok {A} (l : list A) a b : 0 <= a <= b -> b <= zlen l ->
  slice l a b = Ok (firstn (Z.to_nat (b - a)) (skipn (Z.to_nat a) l)).
Proof.
  intros H H'. unfold slice.
  destruct (Z.leb_spec 0 a); [|lia]. destruct (Z.leb_spec a b); [|lia].
  destruct (Z.leb_spec b (zlen l)); [|lia]. reflexivity.
Qed.

(** [ow b off x]: [b] with [x] written over positions [off ..  off + |x|) *)
Definition ow {A} (b : list A) (off : nat) (x : list A) : list A :=
  firstn off b ++ x ++ skipn (off + length x) b.

(** the requested closed form of [splice] *)
Lemma splice_ow {A} (b x : list A) off : 0 <= off -> off + zlen x <= zlen b ->
  splice b off x = Ok (ow b (Z.to_nat off) x).
Proof.
  intros H0 H1. unfold splice, ow.
  destruct (Z.leb_spec 0 off); [|lia]. destruct (Z.leb_spec (off + zlen x) (zlen b)); [|lia].
  cbn [andb]. unfold zlen. rewrite Z2Nat.inj_add, Nat2Z.id by lia. reflexivity.
Qed.

Lemma splice_fits {A} (b x : list A) off : 0 <= off -> off + zlen x <= zlen b ->
  splice b off x = Ok (firstn (Z.to_nat off) b ++ x ++ skipn (Z.to_nat (off + zlen x)) b).
Proof.
  intros H0 H1. unfold splice.
  destruct (Z.leb_spec 0 off); [|lia]. destruct (Z.leb_spec (off + zlen x) (zlen b)); [|lia]. reflexivity.
Qed.

Lemma ow_length {A} (b x : list A) off : (off + length x <= length b)%nat -> length (ow b off x) = length b.
Proof. intros H. unfold ow. rewrite !app_length, firstn_length, skipn_length. lia. Qed.

Lemma ow_zlen {A} (b x : list A) off : (off + length x <= length b)%nat -> zlen (ow b off x) = zlen b.
Proof. intros H. unfold zlen. rewrite ow_length by exact H. reflexivity. Qed.

Lemma ow_nil {A} (b : list A) off : ow b off [] = b.
Proof. unfold ow. cbn [length app]. rewrite Nat.add_0_r. apply firstn_skipn. Qed.

Lemma ow_0 {A} (b x : list A) : ow b 0 x = x ++ skipn (length x) b.
Proof. reflexivity. Qed.

Lemma ow_exact {A} (b x : list A) : length x = length b -> ow b 0 x = x.
Proof. intros H. rewrite ow_0, H, skipn_all. apply app_nil_r. Qed.

(** two adjacent writes are one write of the concatenation *)
Lemma ow_app {A} (b x y : list A) off : (off + length x + length y <= length b)%nat ->
  ow (ow b off x) (off + length x) y = ow b off (x ++ y).
Proof.
  intros H. unfold ow.
  assert (HF : (off + length x)%nat = length (firstn off b ++ x)).
  { rewrite app_length, firstn_length. lia. }
  rewrite (app_assoc (firstn off b) x).
  rewrite firstn_app_exact by exact HF.
  rewrite skipn_app_exact by exact HF.
  rewrite <- !app_assoc. do 3 f_equal.
  rewrite (PPack.skipn_add (length y) (off + length x) b), app_length. f_equal. lia.
Qed.

Lemma firstn_ow {A} (b x : list A) : (length x <= length b)%nat -> firstn (length x) (ow b 0 x) = x.
Proof. intros H. rewrite ow_0. apply firstn_app_exact. reflexivity. Qed.

Lemma skipn_ow {A} (b x : list A) : skipn (length x) (ow b 0 x) = skipn (length x) b.
Proof. rewrite ow_0. apply skipn_app_exact0. reflexivity. Qed.

(** * 2. The encoder loops: piece i spliced at [off + i*sz] *)

Lemma splice_loop_concat (f : list Z -> Z -> res (list Z)) (off sz : Z) (buf : list Z) : forall pcs,
  0 <= off -> 0 <= sz ->
  Forall (fun e => zlen e = sz) pcs ->
  off + zlen pcs * sz <= zlen buf ->
  (forall j e b, nth_error pcs j = Some e -> length b = length buf ->
                 f b (Z.of_nat j) = splice b (off + Z.of_nat j * sz) e) ->
  foldM f (zrange 0 (zlen pcs)) buf = Ok (ow buf (Z.to_nat off) (concat pcs)).
Proof.
  intros pcs Hoff Hsz. induction pcs as [|e pcs IH] using rev_ind; intros HF Hfit Hf.
  - cbn [concat]. rewrite ow_nil. reflexivity.
  - apply Forall_app in HF as [HF He]. apply Forall_inv in He.
    assert (Hn : zlen (pcs ++ [e]) = zlen pcs + 1) by (rewrite zlen_app; reflexivity).
    rewrite Hn in *. rewrite Z.mul_add_distr_r, Z.mul_1_l in Hfit.
    assert (Hc : zlen (concat pcs) = zlen pcs * sz) by (apply zlen_concat; exact HF).
    pose proof (zlen_nonneg pcs) as Hp.
    rewrite zrange0_seq. replace (Z.to_nat (zlen pcs + 1)) with (S (length pcs)) by (unfold zlen; lia).
    rewrite seq_S, map_app, foldM_app. cbn [Nat.add map].
    assert (Hzl : Z.to_nat (zlen pcs) = length pcs) by (unfold zlen; lia).
    rewrite zrange0_seq, Hzl in IH.
    rewrite IH; [| exact HF | lia |].
    + cbn [bind foldM].
      assert (Hlo : (Z.to_nat off + length (concat pcs) <= length buf)%nat) by (unfold zlen in *; lia).
      rewrite (Hf (length pcs) e).
      * fold (zlen pcs). rewrite splice_ow; [| lia | rewrite ow_zlen by exact Hlo; lia].
        cbn [bind]. f_equal.
        replace (Z.to_nat (off + zlen pcs * sz)) with (Z.to_nat off + length (concat pcs))%nat
          by (unfold zlen in *; lia).
        rewrite ow_app by (unfold zlen in *; lia).
        rewrite concat_app. cbn [concat]. rewrite app_nil_r. reflexivity.
      * rewrite nth_error_app2 by lia. rewrite Nat.sub_diag. reflexivity.
      * apply ow_length. exact Hlo.
    + intros j e' b Hj Hb. apply Hf; [|exact Hb].
      rewrite nth_error_app1; [exact Hj|]. apply nth_error_Some. congruence.
Qed.

(** * 3. The decoder loops: the consecutive [sz]-byte slices from offset [off] *)

Definition slices (b : list Z) (off sz n : Z) : list (list Z) :=
  map (fun i => firstn (Z.to_nat sz) (skipn (Z.to_nat (off + i * sz)) b)) (zrange 0 n).

(** recursive form, convenient for induction *)
Fixpoint chunks (sz n : nat) (l : list Z) : list (list Z) :=
  match n with
  | O => []
  | S n' => firstn sz l :: chunks sz n' (skipn sz l)
  end.

Lemma slices_seq b (o s : nat) m : forall k,
  map (fun j => firstn s (skipn (o + j * s) b)) (seq k m) = chunks s m (skipn (o + k * s) b).
Proof.
  induction m as [|m IH]; intros k; cbn [seq map chunks]; [reflexivity|].
  f_equal. rewrite IH, PPack.skipn_add. do 2 f_equal. lia.
Qed.

Lemma slices_chunks b off sz n : 0 <= off -> 0 <= sz ->
  slices b off sz n = chunks (Z.to_nat sz) (Z.to_nat n) (skipn (Z.to_nat off) b).
Proof.
  intros Ho Hs. unfold slices. rewrite zrange0_seq, map_map.
  pose proof (slices_seq b (Z.to_nat off) (Z.to_nat sz) (Z.to_nat n) 0) as H.
  cbn [Nat.mul] in H. rewrite Nat.add_0_r in H. rewrite <- H.
  apply map_ext. intros j. do 2 f_equal.
  assert (0 <= Z.of_nat j * sz) by (apply Z.mul_nonneg_nonneg; lia).
  rewrite Z2Nat.inj_add, Z2Nat.inj_mul, Nat2Z.id by lia. reflexivity.
Qed.

Lemma chunks_length sz n : forall l, length (chunks sz n l) = n.
Proof. induction n as [|n IH]; intros l; cbn [chunks length]; [reflexivity|]. rewrite IH. reflexivity. Qed.

Lemma chunks_concat sz n : forall l, concat (chunks sz n l) = firstn (n * sz) l.
Proof.
  induction n as [|n IH]; intros l; cbn [chunks concat Nat.mul]; [reflexivity|].
  rewrite IH, firstn_add. reflexivity.
Qed.

Lemma chunks_of_concat sz post : forall pcs, Forall (fun e => length e = sz) pcs ->
  chunks sz (length pcs) (concat pcs ++ post) = pcs.
Proof.
  induction 1 as [|e pcs He HF IH]; cbn [concat length chunks]; [reflexivity|].
  rewrite <- app_assoc. rewrite firstn_app_exact by (symmetry; exact He).
  rewrite skipn_app_exact0 by (symmetry; exact He). rewrite IH. reflexivity.
Qed.

Lemma chunks_shape (Q : Z -> Prop) sz n : forall l, Forall Q l -> (n * sz <= length l)%nat ->
  Forall (fun c => Forall Q c /\ length c = sz) (chunks sz n l).
Proof.
  induction n as [|n IH]; intros l HQ Hl; cbn [chunks]; constructor.
  - split; [apply Forall_firstn; exact HQ|]. apply firstn_length_le. lia.
  - apply IH; [apply Forall_skipn; exact HQ|]. rewrite skipn_length. lia.
Qed.

Lemma idx_bound i n sz : 0 <= i < n -> 0 <= sz -> 0 <= i * sz /\ i * sz + sz <= n * sz.
Proof. intros Hi Hs. split; nia. Qed.

Lemma slices_shape b off sz n : 0 <= off -> 0 <= sz -> 0 <= n -> Forall is_byte b -> off + n * sz <= zlen b ->
  Forall (fun c => Forall is_byte c /\ zlen c = sz) (slices b off sz n).
Proof.
  intros Ho Hs Hn Hb Hl. rewrite slices_chunks by assumption.
  assert (0 <= n * sz) by (apply Z.mul_nonneg_nonneg; lia).
  eapply Forall_impl; [|apply (chunks_shape is_byte); [apply Forall_skipn; exact Hb|]].
  - cbn beta. intros c [Hc Hlc]. split; [exact Hc|]. unfold zlen. lia.
  - rewrite skipn_length. unfold zlen in Hl. rewrite <- Z2Nat.inj_mul by lia. lia.
Qed.

Lemma slices_length b off sz n : length (slices b off sz n) = Z.to_nat n.
Proof. unfold slices. rewrite map_length, zrange_length. f_equal. lia. Qed.

(** the concatenation of the slices is the region they cover *)
Lemma slices_concat b off sz n : 0 <= off -> 0 <= sz -> 0 <= n ->
  concat (slices b off sz n) = firstn (Z.to_nat (n * sz)) (skipn (Z.to_nat off) b).
Proof.
  intros Ho Hs Hn. rewrite slices_chunks by assumption. rewrite chunks_concat.
  rewrite Z2Nat.inj_mul by lia. reflexivity.
Qed.

(** slicing a buffer that contains [concat pcs] at [off] gives back the pieces *)
Lemma slices_of_concat b pre post pcs off sz :
  b = pre ++ concat pcs ++ post -> 0 <= sz -> zlen pre = off -> Forall (fun e => zlen e = sz) pcs ->
  slices b off sz (zlen pcs) = pcs.
Proof.
  intros -> Hs Hp HF. pose proof (zlen_nonneg pre). rewrite slices_chunks by lia.
  rewrite skipn_app_exact0 by (unfold zlen in Hp; lia).
  unfold zlen at 1. rewrite Nat2Z.id. apply chunks_of_concat.
  eapply Forall_impl; [|exact HF]. cbn beta. intros e He. unfold zlen in He. lia.
Qed.

(** the decoding loop *)
Lemma slice_loop_map (dec : list Z -> res (list Z)) (D : list Z -> list Z) (off sz n : Z)
      (t : list (list Z)) (b : list Z) :
  0 <= off -> 0 <= sz -> length t = Z.to_nat n ->
  Forall is_byte b -> off + n * sz <= zlen b ->
  (forall s, Forall is_byte s -> sz <= zlen s -> dec s = Ok (D (firstn (Z.to_nat sz) s))) ->
  for_idx n (fun i _ => do s <- slice_from b (off + i * sz); dec s) t = Ok (map D (slices b off sz n)).
Proof.
  intros Ho Hs Hl Hb Hfit Hdec.
  etransitivity; [exact (for_idx_index (fun i => do s <- slice_from b (off + i * sz); dec s) n t Hl)|].
  unfold slices. rewrite map_map. apply mapM_ok. intros i Hi. apply zrange_In in Hi.
  destruct (idx_bound i n sz Hi Hs) as [B1 B2].
  rewrite slice_from_ok by lia. cbn [bind]. apply Hdec; [apply Forall_skipn; exact Hb|].
  unfold zlen in *. rewrite skipn_length. lia.
Qed.

(** * 4. One polynomial codec in uniform shape, and what follows for vectors *)

Lemma firstn_exact (sz : Z) (c : list Z) : zlen c = sz -> firstn (Z.to_nat sz) c = c.
Proof. intros H. apply firstn_all2. unfold zlen in H. lia. Qed.

(** [enc]/[dec] are the model's encoder and decoder of one polynomial, [E]/[D] the specification's,
    [good] the encoder's domain, [dgood] what the decoder guarantees, [sz] the encoded size *)
Record codec_ok (enc dec : list Z -> res (list Z)) (E D : list Z -> list Z) (good dgood : list Z -> Prop) (sz : Z)
  : Prop := {
  c_sz : 0 <= sz;
  c_enc : forall a, good a -> enc a = Ok (E a);
  c_len : forall a, good a -> zlen (E a) = sz;
  c_bytes : forall a, good a -> Forall is_byte (E a);
  c_dec : forall s, Forall is_byte s -> sz <= zlen s -> dec s = Ok (D (firstn (Z.to_nat sz) s));
  c_rt : forall a b, good a -> enc a = Ok b -> dec b = Ok a;
  c_tot : forall b, Forall is_byte b -> sz <= zlen b -> exists a, dec b = Ok a /\ dgood a
}.

Section Codec.
  Variables (enc dec : list Z -> res (list Z)) (E D : list Z -> list Z) (good dgood : list Z -> Prop) (sz : Z).
  Hypothesis C : codec_ok enc dec E D good dgood sz.

  Lemma codec_DE a : good a -> D (E a) = a.
  Proof.
    pose proof C as [sz_nonneg H_enc H_len H_bytes H_dec H_rt H_tot]. 
    intros Ha. pose proof (H_rt a (E a) Ha (H_enc a Ha)) as H1.
    rewrite H_dec in H1; [| apply H_bytes; exact Ha | rewrite H_len by exact Ha; lia].
    rewrite firstn_exact in H1 by (apply H_len; exact Ha). apply Ok_inj in H1. exact H1.
  Qed.

  Lemma codec_Dgood c : Forall is_byte c -> zlen c = sz -> dgood (D c).
  Proof.
    pose proof C as [sz_nonneg H_enc H_len H_bytes H_dec H_rt H_tot]. 
    intros Hb Hl. destruct (H_tot c Hb ltac:(lia)) as (a & Ha & Hg).
    rewrite H_dec in Ha by (auto; lia). rewrite firstn_exact in Ha by exact Hl.
    apply Ok_inj in Ha. subst a. exact Hg.
  Qed.

  Lemma vec_DE v : Forall good v -> map D (map E v) = v.
  Proof.
    pose proof C as [sz_nonneg H_enc H_len H_bytes H_dec H_rt H_tot]. 
    induction 1 as [|a v Ha Hv IH]; cbn [map]; [reflexivity|]. rewrite codec_DE by exact Ha. rewrite IH. reflexivity.
  Qed.

  Lemma vec_Dgood cs : Forall (fun c => Forall is_byte c /\ zlen c = sz) cs -> Forall dgood (map D cs).
  Proof.
    pose proof C as [sz_nonneg H_enc H_len H_bytes H_dec H_rt H_tot]. 
    induction 1 as [|c cs [Hb Hl] Hcs IH]; cbn [map]; constructor; [apply codec_Dgood; assumption | exact IH].
  Qed.

  Lemma vec_E_shape v : Forall good v -> Forall (fun e => zlen e = sz) (map E v).
  Proof. pose proof C as [sz_nonneg H_enc H_len H_bytes H_dec H_rt H_tot]. intros H. apply Forall_map_in. intros a Ha. apply H_len. rewrite Forall_forall in H. auto. Qed.

  Lemma vec_E_zlen v : Forall good v -> zlen (concat (map E v)) = zlen v * sz.
  Proof.
    pose proof C as [sz_nonneg H_enc H_len H_bytes H_dec H_rt H_tot]. 
    intros H. rewrite (zlen_concat sz) by (apply vec_E_shape; exact H). rewrite map_length. reflexivity.
  Qed.

  Lemma vec_E_bytes v : Forall good v -> Forall is_byte (concat (map E v)).
  Proof.
    pose proof C as [sz_nonneg H_enc H_len H_bytes H_dec H_rt H_tot]. 
    intros H. apply Forall_concat. apply Forall_map_in. intros a Ha. apply H_bytes. rewrite Forall_forall in H. auto.
  Qed.

  (** the encoding loop of a vector, in any buffer that is long enough *)
  Lemma pack_loop (f : list Z -> Z -> res (list Z)) (v : list (list Z)) (buf : list Z) (off n : Z) :
    0 <= off -> zlen v = n -> Forall good v -> off + n * sz <= zlen buf ->
    (forall b i, 0 <= i < n -> length b = length buf ->
                 f b i = (do a <- get v i; do x <- enc a; splice b (off + i * sz) x)) ->
    foldM f (zrange 0 n) buf = Ok (ow buf (Z.to_nat off) (concat (map E v))).
  Proof.
    pose proof C as [sz_nonneg H_enc H_len H_bytes H_dec H_rt H_tot]. 
    intros Ho Hn Hg Hfit Hf.
    assert (Hzl : zlen (map E v) = n) by (unfold zlen in *; rewrite map_length; exact Hn).
    rewrite <- Hzl. apply (splice_loop_concat f off sz buf); try assumption.
    - apply vec_E_shape. exact Hg.
    - rewrite Hzl. exact Hfit.
    - intros j e b Hj Hb. rewrite nth_error_map in Hj.
      destruct (nth_error v j) as [a|] eqn:Ea; [|discriminate]. cbn [option_map] in Hj.
      apply (f_equal (fun o => match o with Some x => x | None => e end)) in Hj. subst e.
      assert (Hjn : (j < length v)%nat) by (apply nth_error_Some; congruence).
      rewrite Hf; [| unfold zlen in Hn; lia | exact Hb].
      rewrite get_of_nat, Ea. cbn [bind].
      rewrite H_enc; [reflexivity|]. rewrite Forall_forall in Hg. apply Hg. eapply nth_error_In; eauto.
  Qed.

  (** the decoding loop of a vector *)
  Lemma unpack_loop (t : list (list Z)) (b : list Z) (off n : Z) :
    0 <= off -> length t = Z.to_nat n -> Forall is_byte b -> off + n * sz <= zlen b ->
    for_idx n (fun i _ => do s <- slice_from b (off + i * sz); dec s) t = Ok (map D (slices b off sz n)).
  Proof. pose proof C as [sz_nonneg H_enc H_len H_bytes H_dec H_rt H_tot]. intros. apply slice_loop_map; assumption. Qed.
End Codec.

(** a codec that is moreover onto its byte strings (t1, t0) *)
Section CodecBij.
  Variables (enc dec : list Z -> res (list Z)) (E D : list Z -> list Z) (good : list Z -> Prop) (sz : Z).
  Hypothesis C : codec_ok enc dec E D good good sz.
  Hypothesis H_inv : forall a b, Forall is_byte b -> zlen b = sz -> dec b = Ok a -> enc a = Ok b.

  Lemma codec_ED c : Forall is_byte c -> zlen c = sz -> E (D c) = c.
  Proof.
    pose proof C as [sz_nonneg H_enc H_len H_bytes H_dec H_rt H_tot].
    intros Hb Hl. destruct (H_tot c Hb ltac:(lia)) as (a & Ha & Hg).
    pose proof (H_inv a c Hb Hl Ha) as H1. rewrite H_enc in H1 by exact Hg.
    rewrite H_dec in Ha by (auto; lia). rewrite firstn_exact in Ha by exact Hl.
    apply Ok_inj in Ha. apply Ok_inj in H1. subst a. exact H1.
  Qed.

  Lemma vec_ED cs : Forall (fun c => Forall is_byte c /\ zlen c = sz) cs -> map E (map D cs) = cs.
  Proof.
    induction 1 as [|c cs [Hb Hl] Hcs IH]; cbn [map]; [reflexivity|]. rewrite codec_ED by assumption.
    rewrite IH. reflexivity.
  Qed.
End CodecBij.

(** ** the four polynomial codecs of the key formats *)

Definition polyOK (rng : Z -> Prop) (a : list Z) : Prop := length a = 256%nat /\ Forall rng a.

(** a decoder of [n] fields only reads the first [n*bits/8] bytes *)
Lemma S_bitunpack_prefix bits n k b : 0 <= bits -> Forall is_byte b ->
  Z.of_nat n * bits = 8 * Z.of_nat k -> (k <= length b)%nat ->
  S_bitunpack bits n b = S_bitunpack bits n (firstn k b).
Proof.
  intros Hb HB Hk Hl. rewrite <- (firstn_skipn k b) at 1. rewrite <- (Nat.add_0_r n) at 1.
  rewrite S_bitunpack_group;
    [| exact Hb | apply Forall_firstn; exact HB | unfold zlen; rewrite firstn_length_le by exact Hl; exact Hk].
  unfold S_bitunpack. cbn [unpack_int]. apply app_nil_r.
Qed.

(** from the per-codec theorems of PPack / PPack2 to the uniform shape *)
Lemma codec_from_specs (enc dec : list Z -> res (list Z)) (E D : list Z -> list Z) (rng drng : Z -> Prop)
      (bits : Z) (sh : Z -> Z) (k : nat) :
  0 <= bits -> Z.of_nat 256 * bits = 8 * Z.of_nat k ->
  (forall a, Forall rng a -> length a = 256%nat ->
             enc a = Ok (S_bitpack bits (map sh a)) /\ length (S_bitpack bits (map sh a)) = k) ->
  (forall a, Forall rng a -> length a = 256%nat -> enc a = Ok (E a)) ->
  (forall b, Forall is_byte b -> (k <= length b)%nat -> dec b = Ok (map sh (S_bitunpack bits 256 b))) ->
  (forall b, Forall is_byte b -> (k <= length b)%nat -> dec b = Ok (D b)) ->
  (forall a b, Forall rng a -> length a = 256%nat -> enc a = Ok b -> dec b = Ok a) ->
  (forall b, Forall is_byte b -> (k <= length b)%nat ->
             exists a, dec b = Ok a /\ length a = 256%nat /\ Forall drng a) ->
  codec_ok enc dec E D (polyOK rng) (polyOK drng) (Z.of_nat k).
Proof.
  intros Hbits Hk pack_spec pack_fips unpack_spec unpack_fips unpack_pack unpack_total.
  assert (HE : forall a, polyOK rng a -> E a = S_bitpack bits (map sh a) /\ length (E a) = k).
  { intros a [Hl Hr]. destruct (pack_spec a Hr Hl) as [H1 H2]. pose proof (pack_fips a Hr Hl) as H3.
    rewrite H1 in H3. apply Ok_inj in H3. rewrite <- H3. split; [reflexivity | exact H2]. }
  constructor.
  - lia.
  - intros a [Hl Hr]. apply pack_fips; assumption.
  - intros a Ha. destruct (HE a Ha) as [_ H]. unfold zlen. rewrite H. reflexivity.
  - intros a Ha. destruct (HE a Ha) as [H _]. rewrite H. apply S_bitpack_bytes.
  - intros s Hs Hl. unfold zlen in Hl. rewrite Nat2Z.id.
    assert (Hf : Forall is_byte (firstn k s)) by (apply Forall_firstn; exact Hs).
    assert (Hfl : (k <= length (firstn k s))%nat) by (rewrite firstn_length_le; lia).
    rewrite <- (unpack_fips (firstn k s) Hf Hfl).
    rewrite unpack_spec by (auto; lia). rewrite unpack_spec by assumption.
    rewrite (S_bitunpack_prefix bits 256 k s) by (auto; lia). reflexivity.
  - intros a b [Hl Hr]. apply unpack_pack; assumption.
  - intros b Hb Hl. unfold zlen in Hl. destruct (unpack_total b Hb ltac:(lia)) as (a & Ha & Hla & Hra).
    exists a. split; [exact Ha|]. split; assumption.
Qed.

(** t1: SimpleBitPack(t1, 2^10 - 1), 320 bytes *)
Definition E_t1 (a : list Z) : list Z := SimpleBitPack a (2 ^ 10 - 1).
Definition D_t1 (c : list Z) : list Z := SimpleBitUnpack c (2 ^ 10 - 1).

Lemma t1_codec : codec_ok t1_pack_bytes t1_unpack E_t1 D_t1 (polyOK t1_rng) (polyOK t1_rng) POLYT1.
Proof.
  apply (codec_from_specs t1_pack_bytes t1_unpack E_t1 D_t1 t1_rng t1_rng 10 (fun c => c) 320).
  - lia.
  - reflexivity.
  - intros a Hr Hl. rewrite map_id. apply t1_pack_spec; assumption.
  - exact t1_pack_fips.
  - exact t1_unpack_spec'.
  - exact t1_unpack_fips.
  - exact t1_unpack_pack.
  - exact t1_unpack_total.
Qed.

Lemma t1_codec_inv a b : Forall is_byte b -> zlen b = POLYT1 -> t1_unpack b = Ok a -> t1_pack_bytes a = Ok b.
Proof. intros Hb Hl. apply t1_pack_unpack; [exact Hb|]. unfold zlen, POLYT1 in Hl. lia. Qed.

(** t0: BitPack(t0, 2^12 - 1, 2^12), 416 bytes *)
Definition E_t0 (a : list Z) : list Z := BitPack a (2 ^ 12 - 1) (2 ^ 12).
Definition D_t0 (c : list Z) : list Z := BitUnpack c (2 ^ 12 - 1) (2 ^ 12).

Lemma t0_codec : codec_ok t0_pack_bytes t0_unpack E_t0 D_t0 (polyOK t0_rng) (polyOK t0_rng) POLYT0.
Proof.
  apply (codec_from_specs t0_pack_bytes t0_unpack E_t0 D_t0 t0_rng t0_rng 13 (bp_shift 4096) 416).
  - lia.
  - reflexivity.
  - exact t0_pack_spec.
  - exact t0_pack_fips.
  - exact t0_unpack_spec.
  - exact t0_unpack_fips.
  - exact t0_unpack_pack.
  - exact t0_unpack_total.
Qed.

Lemma t0_codec_inv a b : Forall is_byte b -> zlen b = POLYT0 -> t0_unpack b = Ok a -> t0_pack_bytes a = Ok b.
Proof. intros Hb Hl. apply t0_pack_unpack; [exact Hb|]. unfold zlen, POLYT0 in Hl. lia. Qed.

(** s1, s2: BitPack(s, eta, eta), 32 * bitlen(2 eta) bytes.
    PPack proves the encoder correct on the standard's domain [-eta, eta]. The model's encoder performs
    no range check, and it is in fact exact on the whole range the decoder can return,
    [eta - (2^bitlen(2 eta) - 1), eta]: that wider statement is proved here first and makes the eta codec
    a bijection between byte strings and polynomials over the wide range. *)
Definition eta_rng (eta c : Z) : Prop := - eta <= c <= eta.
(** what the decoder can return: eta - v for a field value v of bitlen(2 eta) bits *)
Definition eta_drng (eta c : Z) : Prop := (if eta =? 2 then -5 else -11) <= c <= eta.
Definition E_eta (eta : Z) (a : list Z) : list Z := BitPack a eta eta.
Definition D_eta (eta : Z) (c : list Z) : list Z := BitUnpack c eta eta.
Definition eta_bytes (eta : Z) : Z := if eta =? 2 then 96 else 128.

Lemma eta_rng_sub eta c : eta = 2 \/ eta = 4 -> eta_rng eta c -> eta_drng eta c.
Proof. intros [-> | ->]; unfold eta_rng, eta_drng; cbn; lia. Qed.

Lemma polyOK_eta_sub eta a : eta = 2 \/ eta = 4 -> polyOK (eta_rng eta) a -> polyOK (eta_drng eta) a.
Proof.
  intros He [Hl Hr]. split; [exact Hl|]. eapply Forall_impl; [|exact Hr]. intros c. apply eta_rng_sub. exact He.
Qed.

Lemma vec_eta_sub eta v : eta = 2 \/ eta = 4 -> Forall (polyOK (eta_rng eta)) v -> Forall (polyOK (eta_drng eta)) v.
Proof. intros He. apply Forall_impl. intros a. apply polyOK_eta_sub. exact He. Qed.

(** eta = 4, wide range *)
Lemma eta4_pack_group_w t0 t1 : 0 <= t0 < 16 -> 0 <= t1 < 16 ->
  [Z.lor (u8 t0) (shl8 (u8 t1) 4)] = bytes_of_int 1 (pack_int 4 [t0; t1]).
Proof.
  intros. rewrite !u8_mod, shl8_mul by lia. rewrite lor_mod_add by (pow_norm; lia).
  cbn [bytes_of_int pack_int]. pow_norm. list_eq lia.
Qed.

Lemma eta4_pack_spec_gen_w n a : Forall eta4_drng a -> length a = (2 * n)%nat ->
  eta_pack_bytes 4 a = Ok (S_bitpack 4 (map (bp_shift 4) a)).
Proof.
  revert a; induction n as [|n IH]; intros a Hr Hl.
  - destruct a; [reflexivity | discriminate].
  - destruct a as [|c0 [|c1 rest]]; cbn [length] in Hl; try lia.
    inv_forall. unfold eta4_drng in *. rewrite eta4_pack_eq. rewrite !i32_sub_ok by lia. cbn [bind].
    rewrite IH by (auto; lia). cbn [bind map].
    change (bp_shift 4 c0 :: bp_shift 4 c1 :: map (bp_shift 4) rest)
      with ([4 - c0; 4 - c1] ++ map (bp_shift 4) rest).
    rewrite (S_bitpack_group 4 1); [| lia | unfold in_bits; pow_norm; fa_by lia | reflexivity].
    rewrite <- eta4_pack_group_w by lia. reflexivity.
Qed.

Lemma eta4_enc_rng_w c : eta4_drng c -> in_bits 4 (bp_shift 4 c).
Proof. unfold eta4_drng, in_bits, bp_shift. pow_norm. lia. Qed.
Lemma eta4_dec_rng_w v : in_bits 4 v -> eta4_drng (bp_shift 4 v).
Proof. unfold eta4_drng, in_bits, bp_shift. pow_norm. lia. Qed.

Theorem eta4_pack_spec_w a : Forall eta4_drng a -> length a = 256%nat ->
  eta_pack_bytes 4 a = Ok (S_bitpack 4 (map (bp_shift 4) a)) /\
  length (S_bitpack 4 (map (bp_shift 4) a)) = 128%nat.
Proof.
  intros Hr Hl. split; [apply (eta4_pack_spec_gen_w 128); assumption|].
  apply (gen_pack_length 4 256); [reflexivity|]. rewrite map_length. exact Hl.
Qed.

Theorem eta4_pack_fips_w a : Forall eta4_drng a -> length a = 256%nat ->
  eta_pack_bytes 4 a = Ok (BitPack a 4 4).
Proof.
  intros Hr Hl. rewrite BitPack_eq; [apply eta4_pack_spec_w; assumption | | rewrite Hl; reflexivity].
  apply (Forall_map_intro eta4_drng); [|exact Hr]. exact eta4_enc_rng_w.
Qed.

Theorem eta4_unpack_pack_w a b : Forall eta4_drng a -> length a = 256%nat ->
  eta_pack_bytes 4 a = Ok b -> eta_unpack 4 b = Ok a.
Proof.
  apply gen_unpack_pack with (bits := 4) (ncoef := 256%nat) (kbytes := 128%nat) (enc := bp_shift 4) (dec := bp_shift 4);
    try (intros; apply eta4_pack_spec_w; assumption); try exact eta4_unpack_spec;
    try apply bp_shift_invol; try exact eta4_enc_rng_w; lia.
Qed.

Theorem eta4_pack_unpack a b : Forall is_byte b -> length b = 128%nat ->
  eta_unpack 4 b = Ok a -> eta_pack_bytes 4 a = Ok b.
Proof.
  apply gen_pack_unpack with (bits := 4) (ncoef := 256%nat) (kbytes := 128%nat) (enc := bp_shift 4) (dec := bp_shift 4)
                             (rng := eta4_drng);
    try (intros; apply eta4_pack_spec_w; assumption); try exact eta4_unpack_spec;
    try apply bp_shift_invol; try exact eta4_dec_rng_w; lia.
Qed.

(** eta = 2, wide range *)
Lemma eta2_pack_group_w t0 t1 t2 t3 t4 t5 t6 t7 :
  0 <= t0 < 8 -> 0 <= t1 < 8 -> 0 <= t2 < 8 -> 0 <= t3 < 8 ->
  0 <= t4 < 8 -> 0 <= t5 < 8 -> 0 <= t6 < 8 -> 0 <= t7 < 8 ->
  [Z.lor (Z.lor (sar (u8 t0) 0) (shl8 (u8 t1) 3)) (shl8 (u8 t2) 6);
   Z.lor (Z.lor (Z.lor (sar (u8 t2) 2) (shl8 (u8 t3) 1)) (shl8 (u8 t4) 4)) (shl8 (u8 t5) 7);
   Z.lor (Z.lor (sar (u8 t5) 1) (shl8 (u8 t6) 2)) (shl8 (u8 t7) 5)]
  = bytes_of_int 3 (pack_int 3 [t0; t1; t2; t3; t4; t5; t6; t7]).
Proof.
  intros. rewrite !u8_mod. rewrite !Z.mod_small by lia.
  rewrite !sar_div, !shl8_mul by lia. lor_norm.
  cbn [bytes_of_int pack_int]. pow_norm. list_eq lia.
Qed.

Lemma eta2_pack_spec_gen_w n a : Forall eta2_drng a -> length a = (8 * n)%nat ->
  eta_pack_bytes 2 a = Ok (S_bitpack 3 (map (bp_shift 2) a)).
Proof.
  revert a; induction n as [|n IH]; intros a Hr Hl.
  - destruct a; [reflexivity | discriminate].
  - destruct a as [|c0 [|c1 [|c2 [|c3 [|c4 [|c5 [|c6 [|c7 rest]]]]]]]]; cbn [length] in Hl; try lia.
    inv_forall. unfold eta2_drng in *. rewrite eta2_pack_eq. rewrite !i32_sub_ok by lia. cbn [bind].
    rewrite IH by (auto; lia). cbn [bind map].
    match goal with |- context [S_bitpack 3 (?x0 :: ?x1 :: ?x2 :: ?x3 :: ?x4 :: ?x5 :: ?x6 :: ?x7 :: ?r)] =>
      change (x0 :: x1 :: x2 :: x3 :: x4 :: x5 :: x6 :: x7 :: r)
        with ([2 - c0; 2 - c1; 2 - c2; 2 - c3; 2 - c4; 2 - c5; 2 - c6; 2 - c7] ++ r) end.
    rewrite (S_bitpack_group 3 3); [| lia | unfold in_bits; pow_norm; fa_by lia | reflexivity].
    rewrite <- eta2_pack_group_w by lia. reflexivity.
Qed.

Lemma eta2_enc_rng_w c : eta2_drng c -> in_bits 3 (bp_shift 2 c).
Proof. unfold eta2_drng, in_bits, bp_shift. pow_norm. lia. Qed.
Lemma eta2_dec_rng_w v : in_bits 3 v -> eta2_drng (bp_shift 2 v).
Proof. unfold eta2_drng, in_bits, bp_shift. pow_norm. lia. Qed.

Theorem eta2_pack_spec_w a : Forall eta2_drng a -> length a = 256%nat ->
  eta_pack_bytes 2 a = Ok (S_bitpack 3 (map (bp_shift 2) a)) /\
  length (S_bitpack 3 (map (bp_shift 2) a)) = 96%nat.
Proof.
  intros Hr Hl. split; [apply (eta2_pack_spec_gen_w 32); assumption|].
  apply (gen_pack_length 3 256); [reflexivity|]. rewrite map_length. exact Hl.
Qed.

Theorem eta2_pack_fips_w a : Forall eta2_drng a -> length a = 256%nat ->
  eta_pack_bytes 2 a = Ok (BitPack a 2 2).
Proof.
  intros Hr Hl. rewrite BitPack_eq; [apply eta2_pack_spec_w; assumption | | rewrite Hl; reflexivity].
  apply (Forall_map_intro eta2_drng); [|exact Hr]. exact eta2_enc_rng_w.
Qed.

Theorem eta2_unpack_pack_w a b : Forall eta2_drng a -> length a = 256%nat ->
  eta_pack_bytes 2 a = Ok b -> eta_unpack 2 b = Ok a.
Proof.
  apply gen_unpack_pack with (bits := 3) (ncoef := 256%nat) (kbytes := 96%nat) (enc := bp_shift 2) (dec := bp_shift 2);
    try (intros; apply eta2_pack_spec_w; assumption); try exact eta2_unpack_spec;
    try apply bp_shift_invol; try exact eta2_enc_rng_w; lia.
Qed.

Theorem eta2_pack_unpack a b : Forall is_byte b -> length b = 96%nat ->
  eta_unpack 2 b = Ok a -> eta_pack_bytes 2 a = Ok b.
Proof.
  apply gen_pack_unpack with (bits := 3) (ncoef := 256%nat) (kbytes := 96%nat) (enc := bp_shift 2) (dec := bp_shift 2)
                             (rng := eta2_drng);
    try (intros; apply eta2_pack_spec_w; assumption); try exact eta2_unpack_spec;
    try apply bp_shift_invol; try exact eta2_dec_rng_w; lia.
Qed.

Lemma eta_codec eta : eta = 2 \/ eta = 4 ->
  codec_ok (eta_pack_bytes eta) (eta_unpack eta) (E_eta eta) (D_eta eta)
           (polyOK (eta_drng eta)) (polyOK (eta_drng eta)) (eta_bytes eta).
Proof.
  intros [-> | ->].
  - apply (codec_from_specs (eta_pack_bytes 2) (eta_unpack 2) (E_eta 2) (D_eta 2) eta2_drng eta2_drng 3 (bp_shift 2) 96).
    + lia.
    + reflexivity.
    + exact eta2_pack_spec_w.
    + exact eta2_pack_fips_w.
    + exact eta2_unpack_spec.
    + exact eta2_unpack_fips.
    + exact eta2_unpack_pack_w.
    + exact eta2_unpack_total.
  - apply (codec_from_specs (eta_pack_bytes 4) (eta_unpack 4) (E_eta 4) (D_eta 4) eta4_drng eta4_drng 4 (bp_shift 4) 128).
    + lia.
    + reflexivity.
    + exact eta4_pack_spec_w.
    + exact eta4_pack_fips_w.
    + exact eta4_unpack_spec.
    + exact eta4_unpack_fips.
    + exact eta4_unpack_pack_w.
    + exact eta4_unpack_total.
Qed.

Lemma eta_codec_inv eta a b : eta = 2 \/ eta = 4 ->
  Forall is_byte b -> zlen b = eta_bytes eta -> eta_unpack eta b = Ok a -> eta_pack_bytes eta a = Ok b.
Proof.
  intros [-> | ->] Hb Hl.
  - apply eta2_pack_unpack; [exact Hb|]. unfold zlen in Hl. cbn in Hl. lia.
  - apply eta4_pack_unpack; [exact Hb|]. unfold zlen in Hl. cbn in Hl. lia.
Qed.

Lemma polyeta_eq P : pPOLYETA P = eta_bytes (pETA P).
Proof. reflexivity. Qed.

(** * 5. Specification: FIPS 204 Algorithms 22 (pkEncode), 23 (pkDecode), 24 (skEncode), 25 (skDecode) *)

Definition S_pkEncode (rho : list Z) (t1 : list (list Z)) : list Z :=
  rho ++ concat (map (fun t => SimpleBitPack t (2 ^ 10 - 1)) t1).

(** returns (rho, t1); [K] polynomials of 32 * bitlen(q-1 >> d) = 320 bytes after the 32-byte seed *)
Definition S_pkDecode (K : Z) (pk : list Z) : list Z * list (list Z) :=
  (firstn 32 pk, map (fun z => SimpleBitUnpack z (2 ^ 10 - 1)) (slices pk 32 320 K)).

Definition S_skEncode (eta : Z) (rho key tr : list Z) (s1 s2 t0 : list (list Z)) : list Z :=
  rho ++ key ++ tr ++ concat (map (fun s => BitPack s eta eta) s1)
      ++ concat (map (fun s => BitPack s eta eta) s2)
      ++ concat (map (fun t => BitPack t (2 ^ 12 - 1) (2 ^ 12)) t0).

(** returns (rho, key, tr, s1, s2, t0); [trb] is the byte length of tr (64 in FIPS 204, 32 in round-3
    Dilithium), [eta_bytes eta] = 32 * bitlen(2 eta) *)
Definition S_skDecode (eta K L trb : Z) (sk : list Z)
  : list Z * list Z * list Z * list (list Z) * list (list Z) * list (list Z) :=
  let pe := eta_bytes eta in
  let o1 := 64 + trb in
  let o2 := o1 + L * pe in
  let o3 := o2 + K * pe in
  (firstn 32 sk, firstn 32 (skipn 32 sk), firstn (Z.to_nat trb) (skipn 64 sk),
   map (fun y => BitUnpack y eta eta) (slices sk o1 pe L),
   map (fun z => BitUnpack z eta eta) (slices sk o2 pe K),
   map (fun w => BitUnpack w (2 ^ 12 - 1) (2 ^ 12)) (slices sk o3 416 K)).

(** * 6. pack_pk / unpack_pk *)

Lemma ow_extend {A} (b X y : list A) n : n = length X -> (length X + length y <= length b)%nat ->
  ow (ow b 0 X) n y = ow b 0 (X ++ y).
Proof. intros -> H. apply (ow_app b X y 0). exact H. Qed.

Lemma ow0_eq {A} (b X : list A) n : length X = n -> ow b 0 X = X ++ skipn n b.
Proof. intros <-. reflexivity. Qed.

Lemma zlen_firstn_le {A} (l : list A) n : 0 <= n <= zlen l -> zlen (firstn (Z.to_nat n) l) = n.
Proof. intros H. unfold zlen in *. rewrite firstn_length_le by lia. lia. Qed.

Lemma S_pkEncode_zlen rho t1 : Forall (polyOK t1_rng) t1 ->
  zlen (S_pkEncode rho t1) = zlen rho + zlen t1 * 320.
Proof.
  intros Hg. unfold S_pkEncode. rewrite zlen_app. f_equal.
  exact (vec_E_zlen _ _ _ _ _ _ _ t1_codec t1 Hg).
Qed.

Lemma S_pkEncode_bytes rho t1 : Forall is_byte rho -> Forall (polyOK t1_rng) t1 -> Forall is_byte (S_pkEncode rho t1).
Proof.
  intros Hr Hg. unfold S_pkEncode. apply Forall_app. split; [exact Hr|].
  exact (vec_E_bytes _ _ _ _ _ _ _ t1_codec t1 Hg).
Qed.

(** 1. pack_pk is pkEncode: whatever the buffer held, its first pPK bytes become the encoding of
    (rho[0..32], t1) and the bytes beyond are untouched *)
Theorem pack_pk_spec P pk rho t1 :
  0 <= pK P -> pPK P <= zlen pk -> 32 <= zlen rho -> zlen t1 = pK P -> Forall (polyOK t1_rng) t1 ->
  pack_pk P pk rho t1 = Ok (S_pkEncode (firstn 32 rho) t1 ++ skipn (Z.to_nat (pPK P)) pk)
  /\ zlen (S_pkEncode (firstn 32 rho) t1) = pPK P.
Proof.
  intros HK Hpk Hrho Ht1 Hg. unfold pPK, SEEDBYTES, POLYT1 in *.
  assert (HKm : 0 <= pK P * 320) by (apply Z.mul_nonneg_nonneg; lia).
  assert (Hr : zlen (firstn 32 rho) = 32) by (apply (zlen_firstn_le rho 32); lia).
  assert (HL : zlen (S_pkEncode (firstn 32 rho) t1) = 32 + pK P * 320).
  { rewrite S_pkEncode_zlen by exact Hg. rewrite Hr, Ht1. reflexivity. }
  split; [|exact HL].
  unfold pack_pk, SEEDBYTES, POLYT1. rewrite slice_to_ok by lia. cbn [bind].
  change (Z.to_nat 32) with 32%nat.
  rewrite splice_ow by lia. cbn [bind]. change (Z.to_nat 0) with 0%nat.
  assert (Hlb : length (ow pk 0 (firstn 32 rho)) = length pk) by (apply ow_length; unfold zlen in *; lia).
  rewrite (pack_loop _ _ _ _ _ _ _ t1_codec _ t1 (ow pk 0 (firstn 32 rho)) 32 (pK P)).
  - f_equal. rewrite ow_extend.
    + apply ow0_eq. change (length (S_pkEncode (firstn 32 rho) t1) = Z.to_nat (32 + pK P * 320)).
      unfold zlen in HL. lia.
    + unfold zlen in Hr. lia.
    + change (length (firstn 32 rho) + length (concat (map E_t1 t1)) <= length pk)%nat.
      rewrite <- app_length. change (length (S_pkEncode (firstn 32 rho) t1) <= length pk)%nat.
      unfold zlen in *. lia.
  - lia.
  - exact Ht1.
  - exact Hg.
  - unfold zlen in *. rewrite Hlb. exact Hpk.
  - intros b i Hi Hb. destruct (idx_bound i (pK P) 320 Hi ltac:(lia)) as [B1 B2].
    destruct (get t1 i) as [a| |]; cbn [bind]; try reflexivity.
    destruct (MPoly.t1_pack_bytes a) as [x| |]; cbn [bind]; try reflexivity.
    rewrite slice_from_ok; [reflexivity|]. unfold zlen in *. rewrite Hb, Hlb. lia.
Qed.

Corollary pack_pk_exact P pk rho t1 :
  0 <= pK P -> zlen pk = pPK P -> zlen rho = 32 -> zlen t1 = pK P -> Forall (polyOK t1_rng) t1 ->
  pack_pk P pk rho t1 = Ok (S_pkEncode rho t1).
Proof.
  intros HK Hpk Hrho Ht1 Hg. destruct (pack_pk_spec P pk rho t1) as [H _]; try assumption; try lia.
  rewrite H. rewrite skipn_all2 by (unfold zlen in Hpk; lia). rewrite app_nil_r.
  rewrite firstn_all2 by (unfold zlen in Hrho; lia). reflexivity.
Qed.

(** the result is a byte string when rho is and the incoming buffer was *)
Theorem pack_pk_bytes P pk rho t1 pk' :
  0 <= pK P -> pPK P <= zlen pk -> 32 <= zlen rho -> zlen t1 = pK P -> Forall (polyOK t1_rng) t1 ->
  Forall is_byte rho -> Forall is_byte pk ->
  pack_pk P pk rho t1 = Ok pk' -> Forall is_byte pk' /\ zlen pk' = zlen pk.
Proof.
  intros HK Hpk Hrho Ht1 Hg Hbr Hbp H. destruct (pack_pk_spec P pk rho t1) as [H1 H2]; try assumption.
  rewrite H1 in H. apply Ok_inj in H. subst pk'. split.
  - apply Forall_app. split; [|apply Forall_skipn; exact Hbp].
    apply S_pkEncode_bytes; [apply Forall_firstn; exact Hbr | exact Hg].
  - rewrite zlen_app, H2. unfold zlen in *. rewrite skipn_length.
    assert (0 <= pPK P) by (unfold pPK, SEEDBYTES, POLYT1; nia). lia.
Qed.

(** 2. unpack_pk is pkDecode, total on byte strings of at least the standard length *)
Theorem unpack_pk_spec P rho0 t1_0 pk :
  0 <= pK P -> Forall is_byte pk -> pPK P <= zlen pk -> zlen rho0 = 32 -> zlen t1_0 = pK P ->
  unpack_pk P rho0 t1_0 pk = Ok (S_pkDecode (pK P) pk).
Proof.
  intros HK Hb Hpk Hrho Ht1. unfold pPK, SEEDBYTES, POLYT1 in *.
  assert (HKm : 0 <= pK P * 320) by (apply Z.mul_nonneg_nonneg; lia).
  unfold unpack_pk, SEEDBYTES. rewrite slice_to_ok by lia. cbn [bind].
  change (Z.to_nat 32) with 32%nat.
  assert (Hr : zlen (firstn 32 pk) = 32) by (apply (zlen_firstn_le pk 32); lia).
  rewrite splice_ow by lia. cbn [bind]. change (Z.to_nat 0) with 0%nat.
  rewrite ow_exact by (unfold zlen in *; lia).
  rewrite (unpack_loop _ _ _ _ _ _ _ t1_codec t1_0 pk 32 (pK P)); unfold POLYT1; try assumption; try lia.
  - reflexivity.
  - unfold zlen in Ht1. lia.
Qed.

(** the decoded values are in range: 32 seed bytes and K polynomials with coefficients in [0, 2^10) *)
Theorem S_pkDecode_range K pk rho t1 :
  0 <= K -> Forall is_byte pk -> 32 + K * 320 <= zlen pk -> S_pkDecode K pk = (rho, t1) ->
  zlen rho = 32 /\ Forall is_byte rho /\ zlen t1 = K /\ Forall (polyOK t1_rng) t1.
Proof.
  intros HK Hb Hl H. unfold S_pkDecode in H. apply pair_equal_spec in H as [E1 E2]. subst rho t1.
  assert (HKm : 0 <= K * 320) by (apply Z.mul_nonneg_nonneg; lia).
  split; [apply (zlen_firstn_le pk 32); lia|]. split; [apply Forall_firstn; exact Hb|]. split.
  - unfold zlen. rewrite map_length, slices_length. lia.
  - apply (vec_Dgood _ _ _ _ _ _ _ t1_codec). apply slices_shape; try assumption; lia.
Qed.

(** spec-level round trips *)
Lemma S_pkDecode_Encode K rho t1 tail :
  zlen rho = 32 -> zlen t1 = K -> Forall (polyOK t1_rng) t1 ->
  S_pkDecode K (S_pkEncode rho t1 ++ tail) = (rho, t1).
Proof.
  intros Hr Ht Hg. unfold S_pkDecode, S_pkEncode. fold E_t1. fold D_t1.
  rewrite <- !app_assoc. f_equal.
  - apply firstn_app_exact. unfold zlen in Hr. lia.
  - rewrite <- Ht. unfold zlen at 1. rewrite <- (map_length E_t1 t1). fold (zlen (map E_t1 t1)).
    rewrite (slices_of_concat _ rho tail (map E_t1 t1) 32 320 eq_refl); try assumption; try lia.
    + apply (vec_DE _ _ _ _ _ _ _ t1_codec). exact Hg.
    + apply (vec_E_shape _ _ _ _ _ _ _ t1_codec). exact Hg.
Qed.

Lemma S_pkEncode_Decode K pk rho t1 :
  0 <= K -> Forall is_byte pk -> 32 + K * 320 <= zlen pk -> S_pkDecode K pk = (rho, t1) ->
  S_pkEncode rho t1 = firstn (Z.to_nat (32 + K * 320)) pk.
Proof.
  intros HK Hb Hl H. unfold S_pkDecode in H. apply pair_equal_spec in H as [E1 E2]. subst rho t1.
  assert (HKm : 0 <= K * 320) by (apply Z.mul_nonneg_nonneg; lia).
  unfold S_pkEncode. fold E_t1. fold D_t1.
  rewrite (vec_ED _ _ _ _ _ _ t1_codec t1_codec_inv) by (apply slices_shape; try assumption; lia).
  rewrite slices_concat by lia. rewrite Z2Nat.inj_add by lia. rewrite firstn_add. reflexivity.
Qed.

(** decoding what pack_pk wrote returns the original (rho, t1) *)
Theorem unpack_pk_pack_pk P pk rho t1 pk' rho0 t1_0 :
  0 <= pK P -> pPK P <= zlen pk -> Forall is_byte pk ->
  zlen rho = 32 -> Forall is_byte rho -> zlen t1 = pK P -> Forall (polyOK t1_rng) t1 ->
  zlen rho0 = 32 -> zlen t1_0 = pK P ->
  pack_pk P pk rho t1 = Ok pk' ->
  unpack_pk P rho0 t1_0 pk' = Ok (rho, t1).
Proof.
  intros HK Hpk Hbp Hrho Hbr Ht1 Hg Hrho0 Ht10 H.
  destruct (pack_pk_bytes P pk rho t1 pk') as [Hb' Hl']; try assumption; try lia.
  destruct (pack_pk_spec P pk rho t1) as [H1 _]; try assumption; try lia.
  rewrite H1 in H. apply Ok_inj in H.
  rewrite unpack_pk_spec; try assumption; try lia. f_equal. rewrite <- H.
  rewrite firstn_all2 by (unfold zlen in Hrho; lia).
  apply S_pkDecode_Encode; assumption.
Qed.

(** re-encoding what unpack_pk read returns the original bytes (the t1 codec is a bijection) *)
Theorem pack_pk_unpack_pk P pk rho t1 rho0 t1_0 buf :
  0 <= pK P -> zlen pk = pPK P -> Forall is_byte pk -> zlen rho0 = 32 -> zlen t1_0 = pK P ->
  zlen buf = pPK P ->
  unpack_pk P rho0 t1_0 pk = Ok (rho, t1) ->
  pack_pk P buf rho t1 = Ok pk.
Proof.
  intros HK Hpk Hb Hrho0 Ht10 Hbuf H.
  rewrite unpack_pk_spec in H; try assumption; try lia. apply Ok_inj in H.
  assert (Hfit : 32 + pK P * 320 <= zlen pk) by (rewrite Hpk; unfold pPK, SEEDBYTES, POLYT1; lia).
  destruct (S_pkDecode_range (pK P) pk rho t1 HK Hb Hfit H) as (R1 & R2 & R3 & R4).
  rewrite pack_pk_exact; try assumption. f_equal.
  rewrite (S_pkEncode_Decode (pK P) pk rho t1 HK Hb Hfit H).
  apply firstn_all2. unfold pPK, SEEDBYTES, POLYT1, zlen in *. lia.
Qed.

(** * 7. pack_sk / unpack_sk *)

Definition eta_okP (P : params) : Prop := pETA P = 2 \/ pETA P = 4.

Lemma eta_codec_P P : eta_okP P ->
  codec_ok (eta_pack_bytes (pETA P)) (eta_unpack (pETA P)) (E_eta (pETA P)) (D_eta (pETA P))
           (polyOK (eta_drng (pETA P))) (polyOK (eta_drng (pETA P))) (pPOLYETA P).
Proof. intros H. exact (eta_codec (pETA P) H). Qed.

Lemma polyeta_nonneg P : 0 <= pPOLYETA P.
Proof. unfold pPOLYETA. destruct (pETA P =? 2); lia. Qed.

Lemma bind_rw {A B} (m : res A) (a : A) (f : A -> res B) (r : res B) : m = Ok a -> f a = r -> bind m f = r.
Proof. intros -> <-. reflexivity. Qed.

Lemma splice_extend {A} (b X y : list A) off : off = zlen X -> zlen X + zlen y <= zlen b ->
  splice (ow b 0 X) off y = Ok (ow b 0 (X ++ y)).
Proof.
  intros -> H. pose proof (zlen_nonneg X).
  rewrite splice_ow; [| lia | rewrite ow_zlen by (unfold zlen in *; lia); lia].
  f_equal. apply ow_extend; unfold zlen in *; lia.
Qed.

Lemma splice_first {A} (b y : list A) : zlen y <= zlen b -> splice b 0 y = Ok (ow b 0 y).
Proof. intros H. rewrite splice_ow by lia. reflexivity. Qed.

Lemma pack_loop_extend (enc dec : list Z -> res (list Z)) (E D : list Z -> list Z) (good dgood : list Z -> Prop)
      (sz : Z) (C : codec_ok enc dec E D good dgood sz) (v : list (list Z)) (b X : list Z) (off n : Z) :
  off = zlen X -> zlen v = n -> Forall good v -> zlen X + n * sz <= zlen b ->
  foldM (fun b' i => do a <- get v i; do x <- enc a; splice b' (off + i * sz) x) (zrange 0 n) (ow b 0 X)
  = Ok (ow b 0 (X ++ concat (map E v))).
Proof.
  intros -> Hn Hg Hfit. pose proof (zlen_nonneg X). pose proof (zlen_nonneg v).
  pose proof (c_sz _ _ _ _ _ _ _ C) as Hsz.
  assert (0 <= n * sz) by (apply Z.mul_nonneg_nonneg; lia).
  pose proof (vec_E_zlen _ _ _ _ _ _ _ C v Hg) as Hc. rewrite Hn in Hc.
  assert (Hlb : length (ow b 0 X) = length b) by (apply ow_length; unfold zlen in *; lia).
  rewrite (pack_loop _ _ _ _ _ _ _ C _ v (ow b 0 X) (zlen X) n); try assumption; try lia.
  - f_equal. apply ow_extend; unfold zlen in *; lia.
  - unfold zlen in *. rewrite Hlb. lia.
  - intros. reflexivity.
Qed.

Lemma S_skEncode_zlen eta rho key tr s1 s2 t0 : eta = 2 \/ eta = 4 ->
  Forall (polyOK (eta_drng eta)) s1 -> Forall (polyOK (eta_drng eta)) s2 -> Forall (polyOK t0_rng) t0 ->
  zlen (S_skEncode eta rho key tr s1 s2 t0)
  = zlen rho + zlen key + zlen tr + zlen s1 * eta_bytes eta + zlen s2 * eta_bytes eta + zlen t0 * 416.
Proof.
  intros He H1 H2 H0. unfold S_skEncode.
  change (fun s : list Z => BitPack s eta eta) with (E_eta eta).
  change (fun t : list Z => BitPack t (2 ^ 12 - 1) (2 ^ 12)) with E_t0.
  rewrite !zlen_app.
  rewrite (vec_E_zlen _ _ _ _ _ _ _ (eta_codec eta He) s1 H1).
  rewrite (vec_E_zlen _ _ _ _ _ _ _ (eta_codec eta He) s2 H2).
  rewrite (vec_E_zlen _ _ _ _ _ _ _ t0_codec t0 H0). unfold POLYT0. lia.
Qed.

Lemma S_skEncode_bytes eta rho key tr s1 s2 t0 : eta = 2 \/ eta = 4 ->
  Forall is_byte rho -> Forall is_byte key -> Forall is_byte tr ->
  Forall (polyOK (eta_drng eta)) s1 -> Forall (polyOK (eta_drng eta)) s2 -> Forall (polyOK t0_rng) t0 ->
  Forall is_byte (S_skEncode eta rho key tr s1 s2 t0).
Proof.
  intros He Hr Hk Ht H1 H2 H0. unfold S_skEncode.
  repeat (apply Forall_app; split); try assumption.
  - exact (vec_E_bytes _ _ _ _ _ _ _ (eta_codec eta He) s1 H1).
  - exact (vec_E_bytes _ _ _ _ _ _ _ (eta_codec eta He) s2 H2).
  - exact (vec_E_bytes _ _ _ _ _ _ _ t0_codec t0 H0).
Qed.

(** 3. pack_sk is skEncode. Stated first for s1, s2 over the wide range [eta_drng] on which the model's
    encoder is still exact; [pack_sk_spec] below is the instance for the standard's range [-eta, eta]. *)
Theorem pack_sk_spec_wide P sk rho tr key t0 s1 s2 :
  0 <= pK P -> 0 <= pL P -> eta_okP P -> 0 <= pTR P ->
  pSK P <= zlen sk -> 32 <= zlen rho -> 32 <= zlen key -> pTR P <= zlen tr ->
  zlen s1 = pL P -> zlen s2 = pK P -> zlen t0 = pK P ->
  Forall (polyOK (eta_drng (pETA P))) s1 -> Forall (polyOK (eta_drng (pETA P))) s2 -> Forall (polyOK t0_rng) t0 ->
  pack_sk P sk rho tr key t0 s1 s2
  = Ok (S_skEncode (pETA P) (firstn 32 rho) (firstn 32 key) (firstn (Z.to_nat (pTR P)) tr) s1 s2 t0
        ++ skipn (Z.to_nat (pSK P)) sk)
  /\ zlen (S_skEncode (pETA P) (firstn 32 rho) (firstn 32 key) (firstn (Z.to_nat (pTR P)) tr) s1 s2 t0) = pSK P.
Proof.
  intros HK HL He HT Hsk Hrho Hkey Htr Hs1 Hs2 Ht0 G1 G2 G0.
  pose proof (polyeta_nonneg P) as HPE.
  assert (HLm : 0 <= pL P * pPOLYETA P) by (apply Z.mul_nonneg_nonneg; lia).
  assert (HKm : 0 <= pK P * pPOLYETA P) by (apply Z.mul_nonneg_nonneg; lia).
  assert (HK0 : 0 <= pK P * 416) by (apply Z.mul_nonneg_nonneg; lia).
  assert (HSK : pSK P = 32 + 32 + pTR P + pL P * pPOLYETA P + pK P * pPOLYETA P + pK P * 416).
  { unfold pSK, SEEDBYTES, POLYT0. ring. }
  assert (Hr : zlen (firstn 32 rho) = 32) by (apply (zlen_firstn_le rho 32); lia).
  assert (Hk : zlen (firstn 32 key) = 32) by (apply (zlen_firstn_le key 32); lia).
  assert (Ht : zlen (firstn (Z.to_nat (pTR P)) tr) = pTR P) by (apply zlen_firstn_le; lia).
  pose proof (vec_E_zlen _ _ _ _ _ _ _ (eta_codec_P P He) s1 G1) as HC1. rewrite Hs1 in HC1.
  pose proof (vec_E_zlen _ _ _ _ _ _ _ (eta_codec_P P He) s2 G2) as HC2. rewrite Hs2 in HC2.
  pose proof (vec_E_zlen _ _ _ _ _ _ _ t0_codec t0 G0) as HC3. rewrite Ht0 in HC3. unfold POLYT0 in HC3.
  assert (HLen : zlen (S_skEncode (pETA P) (firstn 32 rho) (firstn 32 key) (firstn (Z.to_nat (pTR P)) tr) s1 s2 t0)
                 = pSK P).
  { rewrite S_skEncode_zlen by assumption. rewrite Hr, Hk, Ht, Hs1, Hs2, Ht0, HSK.
    change (eta_bytes (pETA P)) with (pPOLYETA P). reflexivity. }
  split; [|exact HLen].
  unfold pack_sk, SEEDBYTES.
  eapply bind_rw; [apply slice_to_ok; lia|]. change (Z.to_nat 32) with 32%nat.
  eapply bind_rw; [apply splice_first; lia|].
  eapply bind_rw; [apply slice_to_ok; lia|]. change (Z.to_nat 32) with 32%nat.
  eapply bind_rw; [apply splice_extend; lia|].
  eapply bind_rw; [apply slice_to_ok; lia|].
  eapply bind_rw; [apply splice_extend; [rewrite zlen_app; lia | rewrite !zlen_app; lia]|].
  eapply bind_rw.
  { apply (pack_loop_extend _ _ _ _ _ _ _ (eta_codec_P P He) s1 sk); try assumption; rewrite !zlen_app; lia. }
  eapply bind_rw.
  { apply (pack_loop_extend _ _ _ _ _ _ _ (eta_codec_P P He) s2 sk); try assumption; rewrite !zlen_app; lia. }
  etransitivity.
  { apply (pack_loop_extend _ _ _ _ _ _ _ t0_codec t0 sk); try assumption; rewrite !zlen_app; unfold POLYT0; lia. }
  f_equal.
  match goal with |- ow sk 0 ?X = _ =>
    assert (EQ : X = S_skEncode (pETA P) (firstn 32 rho) (firstn 32 key) (firstn (Z.to_nat (pTR P)) tr) s1 s2 t0)
      by (unfold S_skEncode; rewrite <- !app_assoc; reflexivity)
  end.
  rewrite EQ. apply ow0_eq. unfold zlen in HLen. lia.
Qed.

Theorem pack_sk_spec P sk rho tr key t0 s1 s2 :
  0 <= pK P -> 0 <= pL P -> eta_okP P -> 0 <= pTR P ->
  pSK P <= zlen sk -> 32 <= zlen rho -> 32 <= zlen key -> pTR P <= zlen tr ->
  zlen s1 = pL P -> zlen s2 = pK P -> zlen t0 = pK P ->
  Forall (polyOK (eta_rng (pETA P))) s1 -> Forall (polyOK (eta_rng (pETA P))) s2 -> Forall (polyOK t0_rng) t0 ->
  pack_sk P sk rho tr key t0 s1 s2
  = Ok (S_skEncode (pETA P) (firstn 32 rho) (firstn 32 key) (firstn (Z.to_nat (pTR P)) tr) s1 s2 t0
        ++ skipn (Z.to_nat (pSK P)) sk)
  /\ zlen (S_skEncode (pETA P) (firstn 32 rho) (firstn 32 key) (firstn (Z.to_nat (pTR P)) tr) s1 s2 t0) = pSK P.
Proof.
  intros HK HL He HT Hsk Hrho Hkey Htr Hs1 Hs2 Ht0 G1 G2 G0.
  apply pack_sk_spec_wide; try assumption; apply vec_eta_sub; assumption.
Qed.

Corollary pack_sk_exact P sk rho tr key t0 s1 s2 :
  0 <= pK P -> 0 <= pL P -> eta_okP P -> 0 <= pTR P ->
  zlen sk = pSK P -> zlen rho = 32 -> zlen key = 32 -> zlen tr = pTR P ->
  zlen s1 = pL P -> zlen s2 = pK P -> zlen t0 = pK P ->
  Forall (polyOK (eta_drng (pETA P))) s1 -> Forall (polyOK (eta_drng (pETA P))) s2 -> Forall (polyOK t0_rng) t0 ->
  pack_sk P sk rho tr key t0 s1 s2 = Ok (S_skEncode (pETA P) rho key tr s1 s2 t0).
Proof.
  intros HK HL He HT Hsk Hrho Hkey Htr Hs1 Hs2 Ht0 G1 G2 G0.
  destruct (pack_sk_spec_wide P sk rho tr key t0 s1 s2) as [H _]; try assumption; try lia.
  rewrite H. rewrite skipn_all2 by (unfold zlen in Hsk; lia). rewrite app_nil_r.
  rewrite !firstn_all2 by (unfold zlen in *; lia). reflexivity.
Qed.

Theorem pack_sk_bytes P sk rho tr key t0 s1 s2 sk' :
  0 <= pK P -> 0 <= pL P -> eta_okP P -> 0 <= pTR P ->
  pSK P <= zlen sk -> 32 <= zlen rho -> 32 <= zlen key -> pTR P <= zlen tr ->
  zlen s1 = pL P -> zlen s2 = pK P -> zlen t0 = pK P ->
  Forall (polyOK (eta_drng (pETA P))) s1 -> Forall (polyOK (eta_drng (pETA P))) s2 -> Forall (polyOK t0_rng) t0 ->
  Forall is_byte rho -> Forall is_byte key -> Forall is_byte tr -> Forall is_byte sk ->
  pack_sk P sk rho tr key t0 s1 s2 = Ok sk' -> Forall is_byte sk' /\ zlen sk' = zlen sk.
Proof.
  intros HK HL He HT Hsk Hrho Hkey Htr Hs1 Hs2 Ht0 G1 G2 G0 Br Bk Bt Bs H.
  destruct (pack_sk_spec_wide P sk rho tr key t0 s1 s2) as [H1 H2]; try assumption.
  rewrite H1 in H. apply Ok_inj in H. subst sk'. split.
  - apply Forall_app. split; [|apply Forall_skipn; exact Bs].
    apply S_skEncode_bytes; try assumption; apply Forall_firstn; assumption.
  - rewrite zlen_app, H2. unfold zlen in *. rewrite skipn_length.
    pose proof (zlen_nonneg (S_skEncode (pETA P) (firstn 32 rho) (firstn 32 key) (firstn (Z.to_nat (pTR P)) tr) s1 s2 t0)).
    unfold zlen in *. lia.
Qed.

(** 4. unpack_sk is skDecode, total on byte strings of at least the standard length *)
Lemma slice_len_ok {A} (l : list A) a n : 0 <= a -> 0 <= n -> a + n <= zlen l ->
  slice l a (a + n) = Ok (firstn (Z.to_nat n) (skipn (Z.to_nat a) l)).
Proof. intros. rewrite slice_ok by lia. do 3 f_equal. lia. Qed.

Lemma splice_exact {A} (b y : list A) : zlen y = zlen b -> splice b 0 y = Ok y.
Proof. intros H. rewrite splice_first by lia. rewrite ow_exact by (unfold zlen in H; lia). reflexivity. Qed.

Theorem unpack_sk_spec P rho0 tr0 key0 t0_0 s1_0 s2_0 sk :
  0 <= pK P -> 0 <= pL P -> eta_okP P -> 0 <= pTR P ->
  Forall is_byte sk -> pSK P <= zlen sk ->
  zlen rho0 = 32 -> zlen key0 = 32 -> zlen tr0 = pTR P ->
  zlen t0_0 = pK P -> zlen s1_0 = pL P -> zlen s2_0 = pK P ->
  unpack_sk P rho0 tr0 key0 t0_0 s1_0 s2_0 sk
  = Ok (let '(rho, key, tr, s1, s2, t0) := S_skDecode (pETA P) (pK P) (pL P) (pTR P) sk in
        (rho, tr, key, t0, s1, s2)).
Proof.
  intros HK HL He HT Hb Hsk Hrho Hkey Htr Ht0 Hs1 Hs2.
  pose proof (polyeta_nonneg P) as HPE.
  assert (HLm : 0 <= pL P * pPOLYETA P) by (apply Z.mul_nonneg_nonneg; lia).
  assert (HKm : 0 <= pK P * pPOLYETA P) by (apply Z.mul_nonneg_nonneg; lia).
  assert (HK0 : 0 <= pK P * 416) by (apply Z.mul_nonneg_nonneg; lia).
  assert (HSK : pSK P = 32 + 32 + pTR P + pL P * pPOLYETA P + pK P * pPOLYETA P + pK P * 416).
  { unfold pSK, SEEDBYTES, POLYT0. ring. }
  unfold unpack_sk, SEEDBYTES.
  eapply bind_rw; [apply slice_to_ok; lia|].
  eapply bind_rw; [apply splice_exact; rewrite zlen_firstn_le by lia; lia|].
  eapply bind_rw; [apply (slice_len_ok sk 32 32); lia|].
  eapply bind_rw.
  { apply splice_exact. rewrite zlen_firstn_le; [lia|]. unfold zlen in *. rewrite skipn_length. lia. }
  eapply bind_rw; [apply (slice_len_ok sk (32 + 32) (pTR P)); lia|].
  eapply bind_rw.
  { apply splice_exact. rewrite zlen_firstn_le; [lia|]. unfold zlen in *. rewrite skipn_length. lia. }
  eapply bind_rw.
  { apply (unpack_loop _ _ _ _ _ _ _ (eta_codec_P P He) s1_0 sk (32 + 32 + pTR P) (pL P));
      try assumption; try lia. unfold zlen in Hs1. lia. }
  eapply bind_rw.
  { apply (unpack_loop _ _ _ _ _ _ _ (eta_codec_P P He) s2_0 sk (32 + 32 + pTR P + pL P * pPOLYETA P) (pK P));
      try assumption; try lia. unfold zlen in Hs2. lia. }
  eapply bind_rw.
  { apply (unpack_loop _ _ _ _ _ _ _ t0_codec t0_0 sk
             (32 + 32 + pTR P + pL P * pPOLYETA P + pK P * pPOLYETA P) (pK P));
      try assumption; unfold POLYT0; try lia. unfold zlen in Ht0. lia. }
  reflexivity.
Qed.

(** the decoded fields: lengths and coefficient ranges.  s1, s2 land in [eta_drng] = [eta - 7, eta] for
    eta = 2 and [eta - 15, eta] for eta = 4 (no range check in the decoder), t0 in (-2^12, 2^12] *)
Theorem S_skDecode_range eta K L trb sk rho key tr s1 s2 t0 :
  eta = 2 \/ eta = 4 -> 0 <= K -> 0 <= L -> 0 <= trb -> Forall is_byte sk ->
  64 + trb + L * eta_bytes eta + K * eta_bytes eta + K * 416 <= zlen sk ->
  S_skDecode eta K L trb sk = (rho, key, tr, s1, s2, t0) ->
  (zlen rho = 32 /\ zlen key = 32 /\ zlen tr = trb) /\
  (Forall is_byte rho /\ Forall is_byte key /\ Forall is_byte tr) /\
  (zlen s1 = L /\ zlen s2 = K /\ zlen t0 = K) /\
  Forall (polyOK (eta_drng eta)) s1 /\ Forall (polyOK (eta_drng eta)) s2 /\ Forall (polyOK t0_rng) t0.
Proof.
  intros He HK HL HT Hb Hl H.
  pose proof (c_sz _ _ _ _ _ _ _ (eta_codec eta He)) as HPE.
  assert (HLm : 0 <= L * eta_bytes eta) by (apply Z.mul_nonneg_nonneg; lia).
  assert (HKm : 0 <= K * eta_bytes eta) by (apply Z.mul_nonneg_nonneg; lia).
  assert (HK0 : 0 <= K * 416) by (apply Z.mul_nonneg_nonneg; lia).
  unfold S_skDecode in H. cbv zeta in H.
  repeat (apply pair_equal_spec in H; destruct H as [H ?]). subst.
  assert (S32 : zlen (skipn 32 sk) = zlen sk - 32) by (unfold zlen in *; rewrite skipn_length; lia).
  assert (S64 : zlen (skipn 64 sk) = zlen sk - 64) by (unfold zlen in *; rewrite skipn_length; lia).
  split; [|split; [|split; [|split; [|split]]]].
  - split; [apply (zlen_firstn_le sk 32); lia|]. split; [apply (zlen_firstn_le _ 32); lia|].
    apply zlen_firstn_le. lia.
  - split; [apply Forall_firstn; exact Hb|]. split; apply Forall_firstn, Forall_skipn; exact Hb.
  - unfold zlen. rewrite !map_length, !slices_length. lia.
  - apply (vec_Dgood _ _ _ _ _ _ _ (eta_codec eta He)). apply slices_shape; try assumption; lia.
  - apply (vec_Dgood _ _ _ _ _ _ _ (eta_codec eta He)). apply slices_shape; try assumption; lia.
  - apply (vec_Dgood _ _ _ _ _ _ _ t0_codec). apply slices_shape; try assumption; unfold POLYT0; lia.
Qed.

(** spec-level round trips *)
Lemma decode_region (enc dec : list Z -> res (list Z)) (E D : list Z -> list Z) (good dgood : list Z -> Prop)
      (sz : Z) (C : codec_ok enc dec E D good dgood sz) (b pre post : list Z) (v : list (list Z)) (off n : Z) :
  b = pre ++ concat (map E v) ++ post -> zlen pre = off -> zlen v = n -> Forall good v ->
  map D (slices b off sz n) = v.
Proof.
  intros Eb Hp Hn Hg.
  assert (Hm : zlen (map E v) = n) by (unfold zlen in *; rewrite map_length; exact Hn).
  rewrite <- Hm.
  rewrite (slices_of_concat b pre post (map E v) off sz Eb (c_sz _ _ _ _ _ _ _ C) Hp
             (vec_E_shape _ _ _ _ _ _ _ C v Hg)).
  apply (vec_DE _ _ _ _ _ _ _ C). exact Hg.
Qed.

Theorem S_skDecode_Encode eta K L trb rho key tr s1 s2 t0 tail :
  eta = 2 \/ eta = 4 ->
  zlen rho = 32 -> zlen key = 32 -> zlen tr = trb -> zlen s1 = L -> zlen s2 = K -> zlen t0 = K ->
  Forall (polyOK (eta_drng eta)) s1 -> Forall (polyOK (eta_drng eta)) s2 -> Forall (polyOK t0_rng) t0 ->
  S_skDecode eta K L trb (S_skEncode eta rho key tr s1 s2 t0 ++ tail) = (rho, key, tr, s1, s2, t0).
Proof.
  intros He Hr Hk Ht H1 H2 H0 G1 G2 G0.
  pose proof (vec_E_zlen _ _ _ _ _ _ _ (eta_codec eta He) s1 G1) as HC1. rewrite H1 in HC1.
  pose proof (vec_E_zlen _ _ _ _ _ _ _ (eta_codec eta He) s2 G2) as HC2. rewrite H2 in HC2.
  unfold S_skDecode, S_skEncode. cbv zeta.
  change (fun s : list Z => BitPack s eta eta) with (E_eta eta).
  change (fun t : list Z => BitPack t (2 ^ 12 - 1) (2 ^ 12)) with E_t0.
  change (fun y : list Z => BitUnpack y eta eta) with (D_eta eta).
  change (fun w : list Z => BitUnpack w (2 ^ 12 - 1) (2 ^ 12)) with D_t0.
  rewrite <- !app_assoc.
  set (C1 := concat (map (E_eta eta) s1)) in *. set (C2 := concat (map (E_eta eta) s2)) in *.
  set (C3 := concat (map E_t0 t0)).
  repeat (apply pair_equal_spec; split).
  - apply firstn_app_exact. unfold zlen in Hr. lia.
  - rewrite skipn_app_exact0 by (unfold zlen in Hr; lia). apply firstn_app_exact. unfold zlen in Hk. lia.
  - rewrite (app_assoc rho key). rewrite skipn_app_exact0 by (rewrite app_length; unfold zlen in *; lia).
    apply firstn_app_exact. unfold zlen in Ht. lia.
  - apply (decode_region _ _ _ _ _ _ _ (eta_codec eta He) _ (rho ++ key ++ tr) (C2 ++ C3 ++ tail)); try assumption.
    + rewrite <- !app_assoc. reflexivity.
    + rewrite !zlen_app. lia.
  - apply (decode_region _ _ _ _ _ _ _ (eta_codec eta He) _ (rho ++ key ++ tr ++ C1) (C3 ++ tail)); try assumption.
    + rewrite <- !app_assoc. reflexivity.
    + rewrite !zlen_app. lia.
  - apply (decode_region _ _ _ _ _ _ _ t0_codec _ (rho ++ key ++ tr ++ C1 ++ C2) tail); try assumption.
    + rewrite <- !app_assoc. reflexivity.
    + rewrite !zlen_app. lia.
Qed.

Lemma firstn_addZ {A} (l : list A) a b : 0 <= a -> 0 <= b ->
  firstn (Z.to_nat (a + b)) l = firstn (Z.to_nat a) l ++ firstn (Z.to_nat b) (skipn (Z.to_nat a) l).
Proof. intros. rewrite Z2Nat.inj_add by lia. apply firstn_add. Qed.

(** re-encoding the decoded fields gives back the bytes: all three codecs are bijections between byte
    strings and (wide-range) polynomials *)
Theorem S_skEncode_Decode eta K L trb sk rho key tr s1 s2 t0 :
  eta = 2 \/ eta = 4 -> 0 <= K -> 0 <= L -> 0 <= trb -> Forall is_byte sk ->
  64 + trb + L * eta_bytes eta + K * eta_bytes eta + K * 416 <= zlen sk ->
  S_skDecode eta K L trb sk = (rho, key, tr, s1, s2, t0) ->
  S_skEncode eta rho key tr s1 s2 t0
  = firstn (Z.to_nat (64 + trb + L * eta_bytes eta + K * eta_bytes eta + K * 416)) sk.
Proof.
  intros He HK HL HT Hb Hl H.
  pose proof (c_sz _ _ _ _ _ _ _ (eta_codec eta He)) as HPE.
  assert (HLm : 0 <= L * eta_bytes eta) by (apply Z.mul_nonneg_nonneg; lia).
  assert (HKm : 0 <= K * eta_bytes eta) by (apply Z.mul_nonneg_nonneg; lia).
  assert (HK0 : 0 <= K * 416) by (apply Z.mul_nonneg_nonneg; lia).
  unfold S_skDecode in H. cbv zeta in H.
  repeat (apply pair_equal_spec in H; destruct H as [H ?]). subst.
  unfold S_skEncode.
  change (fun s : list Z => BitPack s eta eta) with (E_eta eta).
  change (fun t : list Z => BitPack t (2 ^ 12 - 1) (2 ^ 12)) with E_t0.
  change (fun y : list Z => BitUnpack y eta eta) with (D_eta eta).
  change (fun z : list Z => BitUnpack z eta eta) with (D_eta eta).
  change (fun w : list Z => BitUnpack w (2 ^ 12 - 1) (2 ^ 12)) with D_t0.
  rewrite !(vec_ED _ _ _ _ _ _ (eta_codec eta He) (fun a b => eta_codec_inv eta a b He))
    by (apply slices_shape; try assumption; lia).
  rewrite (vec_ED _ _ _ _ _ _ t0_codec t0_codec_inv) by (apply slices_shape; try assumption; unfold POLYT0; lia).
  rewrite !slices_concat by lia.
  rewrite !firstn_addZ by lia. change (Z.to_nat 64) with (32 + 32)%nat. rewrite (firstn_add 32 32).
  rewrite <- !app_assoc. reflexivity.
Qed.

(** decoding what pack_sk wrote returns the original fields (for the standard's ranges and beyond) *)
Theorem unpack_sk_pack_sk P sk rho tr key t0 s1 s2 sk' rho0 tr0 key0 t0_0 s1_0 s2_0 :
  0 <= pK P -> 0 <= pL P -> eta_okP P -> 0 <= pTR P ->
  pSK P <= zlen sk -> Forall is_byte sk ->
  zlen rho = 32 -> zlen key = 32 -> zlen tr = pTR P ->
  Forall is_byte rho -> Forall is_byte key -> Forall is_byte tr ->
  zlen s1 = pL P -> zlen s2 = pK P -> zlen t0 = pK P ->
  Forall (polyOK (eta_drng (pETA P))) s1 -> Forall (polyOK (eta_drng (pETA P))) s2 -> Forall (polyOK t0_rng) t0 ->
  zlen rho0 = 32 -> zlen key0 = 32 -> zlen tr0 = pTR P ->
  zlen t0_0 = pK P -> zlen s1_0 = pL P -> zlen s2_0 = pK P ->
  pack_sk P sk rho tr key t0 s1 s2 = Ok sk' ->
  unpack_sk P rho0 tr0 key0 t0_0 s1_0 s2_0 sk' = Ok (rho, tr, key, t0, s1, s2).
Proof.
  intros HK HL He HT Hsk Bs Hrho Hkey Htr Br Bk Bt Hs1 Hs2 Ht0 G1 G2 G0 Hrho0 Hkey0 Htr0 Ht00 Hs10 Hs20 H.
  destruct (pack_sk_bytes P sk rho tr key t0 s1 s2 sk') as [Hb' Hl']; try assumption; try lia.
  destruct (pack_sk_spec_wide P sk rho tr key t0 s1 s2) as [H1 _]; try assumption; try lia.
  rewrite H1 in H. apply Ok_inj in H.
  rewrite unpack_sk_spec; try assumption; try lia. rewrite <- H.
  rewrite !firstn_all2 by (unfold zlen in *; lia).
  rewrite (S_skDecode_Encode (pETA P) (pK P) (pL P) (pTR P) rho key tr s1 s2 t0); try assumption.
  reflexivity.
Qed.

Corollary unpack_sk_pack_sk_fips_range P sk rho tr key t0 s1 s2 sk' rho0 tr0 key0 t0_0 s1_0 s2_0 :
  0 <= pK P -> 0 <= pL P -> eta_okP P -> 0 <= pTR P ->
  pSK P <= zlen sk -> Forall is_byte sk ->
  zlen rho = 32 -> zlen key = 32 -> zlen tr = pTR P ->
  Forall is_byte rho -> Forall is_byte key -> Forall is_byte tr ->
  zlen s1 = pL P -> zlen s2 = pK P -> zlen t0 = pK P ->
  Forall (polyOK (eta_rng (pETA P))) s1 -> Forall (polyOK (eta_rng (pETA P))) s2 -> Forall (polyOK t0_rng) t0 ->
  zlen rho0 = 32 -> zlen key0 = 32 -> zlen tr0 = pTR P ->
  zlen t0_0 = pK P -> zlen s1_0 = pL P -> zlen s2_0 = pK P ->
  pack_sk P sk rho tr key t0 s1 s2 = Ok sk' ->
  unpack_sk P rho0 tr0 key0 t0_0 s1_0 s2_0 sk' = Ok (rho, tr, key, t0, s1, s2).
Proof.
  intros HK HL He HT Hsk Bs Hrho Hkey Htr Br Bk Bt Hs1 Hs2 Ht0 G1 G2 G0.
  apply unpack_sk_pack_sk; try assumption; apply vec_eta_sub; assumption.
Qed.

(** re-encoding what unpack_sk read returns the original bytes.  (This holds although the eta decoder can
    return coefficients outside [-eta, eta]: the model's encoder maps them back to the same bit fields.) *)
Theorem pack_sk_unpack_sk P sk rho tr key t0 s1 s2 rho0 tr0 key0 t0_0 s1_0 s2_0 buf :
  0 <= pK P -> 0 <= pL P -> eta_okP P -> 0 <= pTR P ->
  zlen sk = pSK P -> Forall is_byte sk ->
  zlen rho0 = 32 -> zlen key0 = 32 -> zlen tr0 = pTR P ->
  zlen t0_0 = pK P -> zlen s1_0 = pL P -> zlen s2_0 = pK P ->
  zlen buf = pSK P ->
  unpack_sk P rho0 tr0 key0 t0_0 s1_0 s2_0 sk = Ok (rho, tr, key, t0, s1, s2) ->
  pack_sk P buf rho tr key t0 s1 s2 = Ok sk.
Proof.
  intros HK HL He HT Hsk Hb Hrho0 Hkey0 Htr0 Ht00 Hs10 Hs20 Hbuf H.
  rewrite unpack_sk_spec in H; try assumption; try lia. apply Ok_inj in H.
  destruct (S_skDecode (pETA P) (pK P) (pL P) (pTR P) sk) as [[[[[rho' key'] tr'] s1'] s2'] t0'] eqn:ED.
  assert (rho' = rho /\ tr' = tr /\ key' = key /\ t0' = t0 /\ s1' = s1 /\ s2' = s2) as (-> & -> & -> & -> & -> & ->).
  { repeat (apply pair_equal_spec in H; destruct H as [H ?]). subst. repeat split; reflexivity. }
  assert (HSK : 64 + pTR P + pL P * eta_bytes (pETA P) + pK P * eta_bytes (pETA P) + pK P * 416 = pSK P).
  { change (eta_bytes (pETA P)) with (pPOLYETA P). unfold pSK, SEEDBYTES, POLYT0. ring. }
  destruct (S_skDecode_range (pETA P) (pK P) (pL P) (pTR P) sk rho key tr s1 s2 t0)
    as ((R1 & R2 & R3) & _ & (R4 & R5 & R6) & G1 & G2 & G0); try assumption; try lia.
  rewrite pack_sk_exact; try assumption. f_equal.
  rewrite (S_skEncode_Decode (pETA P) (pK P) (pL P) (pTR P) sk rho key tr s1 s2 t0); try assumption; try lia.
  rewrite HSK. apply firstn_all2. unfold zlen in Hsk. lia.
Qed.

(** the eta decoder does not validate: a byte 0xFF decodes to eta - 7 = -5 (eta = 2), resp. eta - 15 = -11
    (eta = 4), outside the standard's [-eta, eta]; unpack_sk hands such coefficients on unchecked *)
Example eta2_decodes_out_of_range : eta_unpack 2 (repeatZ 255 96) = Ok (repeatZ (-5) 256).
Proof. vm_compute. reflexivity. Qed.
Example eta4_decodes_out_of_range : eta_unpack 4 (repeatZ 255 128) = Ok (repeatZ (-11) 256).
Proof. vm_compute. reflexivity. Qed.
(** ... and the encoder, which does not validate either, maps them back *)
Example eta2_reencodes : eta_pack_bytes 2 (repeatZ (-5) 256) = Ok (repeatZ 255 96).
Proof. vm_compute. reflexivity. Qed.

(** * 8. Layout facts *)

(** what a successful pack_pk / pack_sk leaves at the head of the buffer *)
Theorem pack_pk_layout P pk rho t1 pk' :
  0 <= pK P -> pPK P <= zlen pk -> 32 <= zlen rho -> zlen t1 = pK P -> Forall (polyOK t1_rng) t1 ->
  pack_pk P pk rho t1 = Ok pk' ->
  firstn 32 pk' = firstn 32 rho /\ skipn (Z.to_nat (pPK P)) pk' = skipn (Z.to_nat (pPK P)) pk.
Proof.
  intros HK Hpk Hrho Ht1 Hg H. destruct (pack_pk_spec P pk rho t1) as [H1 H2]; try assumption.
  rewrite H1 in H. apply Ok_inj in H. subst pk'. split.
  - unfold S_pkEncode. rewrite <- app_assoc. apply firstn_app_exact.
    rewrite firstn_length_le; [reflexivity|]. unfold zlen in Hrho. lia.
  - apply skipn_app_exact0. unfold zlen in H2. lia.
Qed.

Theorem pack_sk_layout P sk rho tr key t0 s1 s2 sk' :
  0 <= pK P -> 0 <= pL P -> eta_okP P -> 0 <= pTR P ->
  pSK P <= zlen sk -> 32 <= zlen rho -> 32 <= zlen key -> pTR P <= zlen tr ->
  zlen s1 = pL P -> zlen s2 = pK P -> zlen t0 = pK P ->
  Forall (polyOK (eta_drng (pETA P))) s1 -> Forall (polyOK (eta_drng (pETA P))) s2 -> Forall (polyOK t0_rng) t0 ->
  pack_sk P sk rho tr key t0 s1 s2 = Ok sk' ->
  firstn 32 sk' = firstn 32 rho /\
  firstn 32 (skipn 32 sk') = firstn 32 key /\
  firstn (Z.to_nat (pTR P)) (skipn 64 sk') = firstn (Z.to_nat (pTR P)) tr /\
  skipn (Z.to_nat (pSK P)) sk' = skipn (Z.to_nat (pSK P)) sk.
Proof.
  intros HK HL He HT Hsk Hrho Hkey Htr Hs1 Hs2 Ht0 G1 G2 G0 H.
  destruct (pack_sk_spec_wide P sk rho tr key t0 s1 s2) as [H1 H2]; try assumption.
  rewrite H1 in H. apply Ok_inj in H. subst sk'.
  assert (Lr : length (firstn 32 rho) = 32%nat) by (apply firstn_length_le; unfold zlen in Hrho; lia).
  assert (Lk : length (firstn 32 key) = 32%nat) by (apply firstn_length_le; unfold zlen in Hkey; lia).
  assert (Lt : length (firstn (Z.to_nat (pTR P)) tr) = Z.to_nat (pTR P))
    by (apply firstn_length_le; unfold zlen in Htr; lia).
  split; [|split; [|split]].
  - unfold S_skEncode. rewrite <- !app_assoc. apply firstn_app_exact. symmetry. exact Lr.
  - unfold S_skEncode. rewrite <- !app_assoc. rewrite skipn_app_exact0 by (symmetry; exact Lr).
    apply firstn_app_exact. symmetry. exact Lk.
  - unfold S_skEncode. rewrite <- !app_assoc. rewrite (app_assoc (firstn 32 rho)).
    rewrite skipn_app_exact0 by (rewrite app_length, Lr, Lk; reflexivity).
    apply firstn_app_exact. symmetry. exact Lt.
  - apply skipn_app_exact0. unfold zlen in H2. lia.
Qed.

(** a public and a secret key packed from the same rho start with the same 32 bytes *)
Corollary pk_sk_same_rho P pk sk rho tr key t0 t1 s1 s2 pk' sk' :
  0 <= pK P -> 0 <= pL P -> eta_okP P -> 0 <= pTR P ->
  pPK P <= zlen pk -> pSK P <= zlen sk -> 32 <= zlen rho -> 32 <= zlen key -> pTR P <= zlen tr ->
  zlen t1 = pK P -> zlen s1 = pL P -> zlen s2 = pK P -> zlen t0 = pK P ->
  Forall (polyOK t1_rng) t1 ->
  Forall (polyOK (eta_drng (pETA P))) s1 -> Forall (polyOK (eta_drng (pETA P))) s2 -> Forall (polyOK t0_rng) t0 ->
  pack_pk P pk rho t1 = Ok pk' -> pack_sk P sk rho tr key t0 s1 s2 = Ok sk' ->
  firstn 32 pk' = firstn 32 sk'.
Proof.
  intros HK HL He HT Hpk Hsk Hrho Hkey Htr Ht1 Hs1 Hs2 Ht0 G G1 G2 G0 Hp Hs.
  destruct (pack_pk_layout P pk rho t1 pk') as [E1 _]; try assumption.
  destruct (pack_sk_layout P sk rho tr key t0 s1 s2 sk') as [E2 _]; try assumption.
  rewrite E1, E2. reflexivity.
Qed.

(** the fields unpack_sk / unpack_pk return are the corresponding byte ranges of the key *)
Corollary unpack_sk_layout P rho0 tr0 key0 t0_0 s1_0 s2_0 sk rho tr key t0 s1 s2 :
  0 <= pK P -> 0 <= pL P -> eta_okP P -> 0 <= pTR P ->
  Forall is_byte sk -> pSK P <= zlen sk ->
  zlen rho0 = 32 -> zlen key0 = 32 -> zlen tr0 = pTR P ->
  zlen t0_0 = pK P -> zlen s1_0 = pL P -> zlen s2_0 = pK P ->
  unpack_sk P rho0 tr0 key0 t0_0 s1_0 s2_0 sk = Ok (rho, tr, key, t0, s1, s2) ->
  rho = firstn 32 sk /\ key = firstn 32 (skipn 32 sk) /\ tr = firstn (Z.to_nat (pTR P)) (skipn 64 sk).
Proof.
  intros HK HL He HT Hb Hsk Hrho0 Hkey0 Htr0 Ht00 Hs10 Hs20 H.
  rewrite unpack_sk_spec in H; try assumption. apply Ok_inj in H.
  unfold S_skDecode in H. cbv zeta in H.
  repeat (apply pair_equal_spec in H; destruct H as [H ?]). subst. repeat split; reflexivity.
Qed.

(** the six parameter sets satisfy the side conditions *)
Lemma std_key_params P : std P -> 0 <= pK P /\ 0 <= pL P /\ eta_okP P /\ 0 <= pTR P.
Proof. unfold eta_okP. intros [H|[H|[H|[H|[H|H]]]]]; subst P; cbn; lia. Qed.

Print Assumptions splice_loop_concat.
Print Assumptions slice_loop_map.
Print Assumptions pack_pk_spec.
Print Assumptions pack_pk_bytes.
Print Assumptions unpack_pk_spec.
Print Assumptions S_pkDecode_range.
Print Assumptions unpack_pk_pack_pk.
Print Assumptions pack_pk_unpack_pk.
Print Assumptions pack_sk_spec_wide.
Print Assumptions pack_sk_spec.
Print Assumptions pack_sk_bytes.
Print Assumptions unpack_sk_spec.
Print Assumptions S_skDecode_range.
Print Assumptions S_skDecode_Encode.
Print Assumptions S_skEncode_Decode.
Print Assumptions unpack_sk_pack_sk.
Print Assumptions unpack_sk_pack_sk_fips_range.
Print Assumptions pack_sk_unpack_sk.
Print Assumptions pack_pk_layout.
Print Assumptions pack_sk_layout.
Print Assumptions pk_sk_same_rho.
Print Assumptions unpack_sk_layout.
Print Assumptions std_key_params.
