(** L0 model of src/sign/{lvl2,lvl3,lvl5,ml_dsa_44,ml_dsa_65,ml_dsa_87}.rs.
    Randomness is an explicit tape; functions return the unread rest of it. *)
From DV Require Import Base Gen MReduce MRounding MParams MKeccak MNtt MPoly MPolyvec MPacking.

Definition zpoly : list Z := repeatZ 0 256.
Definition zvec (n : Z) : list (list Z) := repeatZ zpoly n.
Definition zmat (k l : Z) : list (list (list Z)) := repeatZ (zvec l) k.

(** random_bytes(bytes, n): take n bytes from the tape ([Panic] if the tape is too short: the model of a
    scripted tap running dry; the real RNG never does) *)
Definition draw (tape : list Z) (n : Z) : res (list Z * list Z) :=
  if zlen tape <? n then Panic else Ok (firstn (Z.to_nat n) tape, skipn (Z.to_nat n) tape).

Section Sign.
  Variable P : params.
  Let K := pK P.
  Let L := pL P.

  (** pub fn keypair(pk, sk, seed: Option<&[u8]>) *)
  Definition keypair (pk sk : list Z) (seed : option (list Z)) (tape : list Z)
    : res (list Z * list Z * list Z) :=
    do '(xi, tape') <- match seed with
                       | Some x => if zlen x =? SEEDBYTES then Ok (x, tape) else Panic   (* copy_from_slice *)
                       | None => draw tape SEEDBYTES
                       end;
    let init_seed := if pMLDSA P then xi ++ [u8 K; u8 L] else xi in
    do seedbuf <- shake256 (repeatZ 0 128) 128 init_seed (zlen init_seed);
    do rho <- slice seedbuf 0 32;
    do rhoprime <- slice seedbuf 32 96;
    do key <- slice_from seedbuf 96;
    do mat <- matrix_expand P (zmat K L) rho;
    do s1 <- l_uniform_eta P (zvec L) rhoprime 0;
    do s2 <- k_uniform_eta P (zvec K) rhoprime L;
    do s1hat <- l_ntt P s1;
    do t1 <- matrix_pointwise_montgomery P (zvec K) mat s1hat;
    do t1 <- k_reduce P t1;
    do t1 <- k_invntt_tomont P t1;
    do t1 <- k_add P t1 s2;
    do t1 <- k_caddq P t1;
    do '(t1, t0) <- k_power2round P t1 (zvec K);
    do pk' <- pack_pk P pk rho t1;
    do pkb <- slice_to pk' (pPK P);
    do tr <- shake256 (repeatZ 0 (pTR P)) (pTR P) pk' (pPK P);
    do sk' <- pack_sk P sk rho tr key t0 s1 s2;
    Ok (pk', sk', tape').

  (** one iteration of the signer's loop: [inl sig] = return, [inr (sig', state)] = continue *)
  Inductive attempt := Done (sig : list Z) | Retry (cause : Z) (sig : list Z).

  Definition sign_attempt (sig : list Z) (mu rhoprime : list Z) (mat : list (list (list Z)))
             (s1 s2 t0 : list (list Z)) (nonce : Z) : res attempt :=
    do y <- l_uniform_gamma1 P (zvec L) rhoprime nonce;
    do z <- l_ntt P y;
    do w1 <- matrix_pointwise_montgomery P (zvec K) mat z;
    do w1 <- k_reduce P w1;
    do w1 <- k_invntt_tomont P w1;
    do w1 <- k_caddq P w1;
    do '(w1, w0) <- k_decompose P w1 (zvec K);
    do sig <- k_pack_w1 P sig w1;
    do w1b <- slice_to sig (K * pPOLYW1 P);
    do st <- shake256_absorb kinit mu CRHBYTES;
    do st <- shake256_absorb st sig (K * pPOLYW1 P);
    do st <- shake256_finalize st;
    do '(sig, _) <- shake256_squeeze sig (pCT P) st;
    do cp <- poly_challenge (pTAU P) (pCT P) sig;
    do cp <- poly_ntt cp;
    do z <- l_pointwise_poly_montgomery P z cp s1;
    do z <- l_invntt_tomont P z;
    do z <- l_add P z y;
    do z <- l_reduce P z;
    do c1 <- l_chknorm P z (pGAMMA1 P - pBETA P);
    if 0 <? c1 then Ok (Retry 1 sig) else
    do h <- k_pointwise_poly_montgomery P (zvec K) cp s2;
    do h <- k_invntt_tomont P h;
    do w0 <- k_sub P w0 h;
    do w0 <- k_reduce P w0;
    do c2 <- k_chknorm P w0 (pGAMMA2 P - pBETA P);
    if 0 <? c2 then Ok (Retry 2 sig) else
    do h <- k_pointwise_poly_montgomery P h cp t0;
    do h <- k_invntt_tomont P h;
    do h <- k_reduce P h;
    do c3 <- k_chknorm P h (pGAMMA2 P);
    if 0 <? c3 then Ok (Retry 3 sig) else
    do w0 <- k_add P w0 h;
    do '(h, n) <- k_make_hint P h w0 w1;
    if pOMEGA P <? n then Ok (Retry 4 sig) else
    do sig <- pack_sig P sig None z h;
    Ok (Done sig).

  (** the [loop]: nonce: u16 += 1 (checked) after sampling y; fuel bounds the number of attempts.
      Returns the signature and the list of rejection causes (the trace). *)
  Fixpoint sign_loop (fuel : nat) (sig mu rhoprime : list Z) (mat : list (list (list Z)))
           (s1 s2 t0 : list (list Z)) (nonce : Z) (trace : list Z) : res (list Z * list Z) :=
    match fuel with
    | O => OutOfFuel
    | S f =>
      do a <- sign_attempt sig mu rhoprime mat s1 s2 t0 nonce;
      match a with
      | Done s => Ok (s, trace)
      | Retry cause sig' =>
        do nonce' <- u16_add nonce 1;
        sign_loop f sig' mu rhoprime mat s1 s2 t0 nonce' (trace ++ [cause])
      end
    end.

  (** pub fn signature(sig, msg, sk, randomized/hedged) *)
  Definition signature_trace (fuel : nat) (sig msg sk : list Z) (rand : bool) (tape : list Z)
    : res (list Z * list Z * list Z) :=
    do '(rho, tr, key, t0, s1, s2) <-
       unpack_sk P (repeatZ 0 32) (repeatZ 0 (pTR P)) (repeatZ 0 32) (zvec K) (zvec L) (zvec K) sk;
    do mu <- shake256_hash [firstn (Z.to_nat (pTR P)) tr; msg] CRHBYTES;
    do '(rhoprime, tape') <-
       (if pMLDSA P then
          do '(rnd, tape') <- (if rand then draw tape SEEDBYTES else Ok (repeatZ 0 32, tape));
          do r <- shake256_hash [key; rnd; mu] CRHBYTES;
          Ok (r, tape')
        else if rand then draw tape CRHBYTES
        else do r <- shake256 (repeatZ 0 64) CRHBYTES (key ++ mu) (SEEDBYTES + CRHBYTES); Ok (r, tape));
    do mat <- matrix_expand P (zmat K L) rho;
    do s1 <- l_ntt P s1;
    do s2 <- k_ntt P s2;
    do t0 <- k_ntt P t0;
    do '(s, trace) <- sign_loop fuel sig mu rhoprime mat s1 s2 t0 0 [];
    Ok (s, trace, tape').

  Definition SIGN_FUEL : nat := 1000.
  Definition signature (sig msg sk : list Z) (rand : bool) (tape : list Z) : res (list Z * list Z) :=
    do '(s, _, tape') <- signature_trace SIGN_FUEL sig msg sk rand tape; Ok (s, tape').

  (** pub fn verify(sig, m, pk) -> bool *)
  Definition verify (sig m pk : list Z) : res bool :=
    if negb (zlen sig =? pSIG P) then Ok false else
    do '(rho, t1) <- unpack_pk P (repeatZ 0 32) (zvec K) pk;
    do '(c, z, h, ok) <- unpack_sig P (repeatZ 0 (pCT P)) (zvec L) (zvec K) sig;
    if negb ok then Ok false else
    do cn <- l_chknorm P z (pGAMMA1 P - pBETA P);
    if 0 <? cn then Ok false else
    do tr <- shake256 (repeatZ 0 64) (pTR P) pk (pPK P);
    do mu <- shake256_hash [firstn (Z.to_nat (pTR P)) tr; m] CRHBYTES;
    do cp <- poly_challenge (pTAU P) (pCT P) c;
    do mat <- matrix_expand P (zmat K L) rho;
    do z <- l_ntt P z;
    do w1 <- matrix_pointwise_montgomery P (zvec K) mat z;
    do cp <- poly_ntt cp;
    do t1 <- k_shiftl P t1;
    do t1 <- k_ntt P t1;
    do t1 <- k_pointwise_poly_montgomery P t1 cp t1;
    do w1 <- k_sub P w1 t1;
    do w1 <- k_reduce P w1;
    do w1 <- k_invntt_tomont P w1;
    do w1 <- k_caddq P w1;
    do w1 <- k_use_hint P w1 h;
    do buf <- k_pack_w1 P (repeatZ 0 (K * pPOLYW1 P)) w1;
    do c2 <- shake256_hash [mu; buf] (pCT P);
    Ok (if list_eq_dec Z.eq_dec c c2 then true else false).
End Sign.
