(** L0 model of src/packing/{lvl2,lvl3,lvl5,ml_dsa_44,ml_dsa_65,ml_dsa_87}.rs. *)
From DV Require Import Base Gen MReduce MRounding MParams MKeccak MNtt MPoly MPolyvec.

Section Packing.
  Variable P : params.
  Let K := pK P.
  Let L := pL P.

  (** pack_pk(pk, rho, t1) *)
  Definition pack_pk (pk rho : list Z) (t1 : list (list Z)) : res (list Z) :=
    do r <- slice_to rho SEEDBYTES;
    do pk <- splice pk 0 r;
    foldM (fun pk i => do a <- get t1 i; do b <- t1_pack_bytes a;
                       do _ <- slice_from pk (SEEDBYTES + i * POLYT1);
                       splice pk (SEEDBYTES + i * POLYT1) b) (zrange 0 K) pk.

  (** unpack_pk(rho, t1, pk): returns (rho', t1') *)
  Definition unpack_pk (rho : list Z) (t1 : list (list Z)) (pk : list Z) : res (list Z * list (list Z)) :=
    do r <- slice_to pk SEEDBYTES;
    do rho' <- splice rho 0 r;
    do t1' <- for_idx K (fun i _ => do s <- slice_from pk (SEEDBYTES + i * POLYT1); t1_unpack s) t1;
    Ok (rho', t1').

  (** pack_sk(sk, rho, tr, key, t0, s1, s2) *)
  Definition pack_sk (sk rho tr key : list Z) (t0 s1 s2 : list (list Z)) : res (list Z) :=
    do r <- slice_to rho SEEDBYTES; do sk <- splice sk 0 r;
    let idx := SEEDBYTES in
    do k <- slice_to key SEEDBYTES; do sk <- splice sk idx k;
    let idx := idx + SEEDBYTES in
    do t <- slice_to tr (pTR P); do sk <- splice sk idx t;
    let idx := idx + pTR P in
    do sk <- foldM (fun sk i => do a <- get s1 i; do b <- eta_pack_bytes (pETA P) a;
                                splice sk (idx + i * pPOLYETA P) b) (zrange 0 L) sk;
    let idx := idx + L * pPOLYETA P in
    do sk <- foldM (fun sk i => do a <- get s2 i; do b <- eta_pack_bytes (pETA P) a;
                                splice sk (idx + i * pPOLYETA P) b) (zrange 0 K) sk;
    let idx := idx + K * pPOLYETA P in
    foldM (fun sk i => do a <- get t0 i; do b <- t0_pack_bytes a;
                       splice sk (idx + i * POLYT0) b) (zrange 0 K) sk.

  (** unpack_sk(rho, tr, key, t0, s1, s2, sk): returns (rho', tr', key', t0', s1', s2') *)
  Definition unpack_sk (rho tr key : list Z) (t0 s1 s2 : list (list Z)) (sk : list Z)
    : res (list Z * list Z * list Z * list (list Z) * list (list Z) * list (list Z)) :=
    do r <- slice_to sk SEEDBYTES; do rho' <- splice rho 0 r;
    let idx := SEEDBYTES in
    do k <- slice sk idx (idx + SEEDBYTES); do key' <- splice key 0 k;
    let idx := idx + SEEDBYTES in
    do t <- slice sk idx (idx + pTR P); do tr' <- splice tr 0 t;
    let idx := idx + pTR P in
    do s1' <- for_idx L (fun i _ => do s <- slice_from sk (idx + i * pPOLYETA P); eta_unpack (pETA P) s) s1;
    let idx := idx + L * pPOLYETA P in
    do s2' <- for_idx K (fun i _ => do s <- slice_from sk (idx + i * pPOLYETA P); eta_unpack (pETA P) s) s2;
    let idx := idx + K * pPOLYETA P in
    do t0' <- for_idx K (fun i _ => do s <- slice_from sk (idx + i * POLYT0); t0_unpack s) t0;
    Ok (rho', tr', key', t0', s1', s2').

  (** the hint loop of pack_sig: for each polynomial, the indices j with h[j] != 0 are written at
      sig[idx + k] (k running), then the running count at sig[idx + OMEGA + i] as u8 *)
  Fixpoint hint_indices (h : list Z) (j : Z) : list Z :=
    match h with
    | [] => []
    | x :: r => if x =? 0 then hint_indices r (j + 1) else j :: hint_indices r (j + 1)
    end.

  Definition pack_sig (sig : list Z) (c : option (list Z)) (z h : list (list Z)) : res (list Z) :=
    do sig <- match c with
              | Some ch => do cc <- slice_to ch (pCT P); splice sig 0 cc
              | None => Ok sig
              end;
    let idx := pCT P in
    do sig <- foldM (fun sig i => do a <- get z i; do b <- z_pack_bytes (pGAMMA1 P) a;
                                 splice sig (idx + i * pPOLYZ P) b) (zrange 0 L) sig;
    let idx := idx + L * pPOLYZ P in
    do sig <- splice sig idx (repeatZ 0 (pOMEGA P + K));
    do '(sig, _) <- foldM (fun '(sig, k) i =>
                       do hi <- get h i;
                       do '(sig, k) <- foldM (fun '(sig, k) j => do s <- set sig (idx + k) (u8 j); Ok (s, k + 1))
                                             (hint_indices hi 0) (sig, k);
                       do sig <- set sig (idx + pOMEGA P + i) (u8 k);
                       Ok (sig, k)) (zrange 0 K) (sig, 0);
    Ok sig.

  (** the hint-decoding loops of unpack_sig; [hs] is the byte section sig[idx..] *)
  Fixpoint unpack_hint_row (hs : list Z) (hrow : list Z) (js : list Z) (k : Z) : res (list Z * bool) :=
    match js with
    | [] => Ok (hrow, true)
    | j :: r =>
      do cur <- get hs j;
      do bad <- (if k <? j then (do i1 <- usize_sub j 1; do prev <- get hs i1; Ok (cur <=? prev)) else Ok false);
      if bad then Ok (hrow, false) else
      do hrow' <- set hrow cur 1;
      unpack_hint_row hs hrow' r k
    end.

  Fixpoint unpack_hint_loop (hs : list Z) (h : list (list Z)) (is : list Z) (k : Z)
    : res (list (list Z) * Z * bool) :=
    match is with
    | [] => Ok (h, k, true)
    | i :: r =>
      do cnt <- get hs (pOMEGA P + i);
      if (cnt <? u8 k) || (pOMEGA P <? cnt) then Ok (h, k, false) else
      do hrow <- get h i;
      do '(hrow', ok) <- unpack_hint_row hs hrow (zrange k cnt) k;
      do h' <- set h i hrow';
      if ok then unpack_hint_loop hs h' r cnt else Ok (h', k, false)
    end.

  Fixpoint all_zero_from (hs : list Z) (js : list Z) : res bool :=
    match js with
    | [] => Ok true
    | j :: r => do b <- get hs j; if 0 <? b then Ok false else all_zero_from hs r
    end.

  (** unpack_sig(c, z, h, sig) -> bool: returns (c', z', h', ok). On an early [return false] the
      outputs written so far are kept, exactly as in the code. *)
  Definition unpack_sig (c : list Z) (z h : list (list Z)) (sig : list Z)
    : res (list Z * list (list Z) * list (list Z) * bool) :=
    do cc <- slice_to sig (pCT P);
    do c' <- splice c 0 cc;
    let idx := pCT P in
    do z' <- for_idx L (fun i _ => do s <- slice_from sig (idx + i * pPOLYZ P); z_unpack (pGAMMA1 P) s) z;
    let idx := idx + L * pPOLYZ P in
    do hs <- slice_from sig idx;
    do '(h', k, ok) <- unpack_hint_loop hs h (zrange 0 K) 0;
    if negb ok then Ok (c', z', h', false) else
    do ok2 <- all_zero_from hs (zrange k (pOMEGA P));
    Ok (c', z', h', ok2).
End Packing.
