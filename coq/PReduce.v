(** Proofs for C14: reduction kernels on their whole documented domain. *)
From DV Require Import Base MReduce.

Local Ltac Zify.zify_post_hook ::= Z.div_mod_to_equations.

Lemma qinv_ok : (Q * QINV) mod 2 ^ 32 = 1.
Proof. reflexivity. Qed.

Definition cong (m a b : Z) : Prop := a mod m = b mod m.

Lemma cong_intro m a b k : m <> 0 -> a = b + k * m -> cong m a b.
Proof. intros Hm ->. unfold cong. rewrite Z.mod_add by exact Hm. reflexivity. Qed.

Lemma two63 : 2 ^ (64 - 1) = 9223372036854775808. Proof. reflexivity. Qed.
Lemma two31 : 2 ^ (32 - 1) = 2147483648. Proof. reflexivity. Qed.

(** Exact description of the value computed by [montgomery_reduce] on its documented domain. *)
Lemma mont_exact a :
  - 2 ^ 31 * Q <= a < 2 ^ 31 * Q ->
  exists r t, montgomery_reduce a = Ok r /\ - 2 ^ 31 <= t < 2 ^ 31 /\ r * 2 ^ 32 = a - t * Q /\ - Q < r < Q.
Proof.
  intros Ha. unfold montgomery_reduce, i32_wrapping_mul, i64_wrapping_mul, i64_sub.
  destruct (wrap_spec 32 a) as (k1 & E1 & B1); [lia|].
  destruct (wrap_spec 32 (wrap 32 a * QINV)) as (k2 & E2 & B2); [lia|].
  set (t := wrap 32 (wrap 32 a * QINV)) in *.
  rewrite two31 in B1, B2. change (2 ^ 32) with 4294967296 in E1, E2.
  change (2 ^ 31) with 2147483648 in Ha. unfold Q in Ha.
  assert (W1 : wrap 64 t = t) by (apply wrap_id; [lia| rewrite two63; lia]).
  rewrite W1.
  assert (W2 : wrap 64 (t * Q) = t * Q) by (apply wrap_id; [lia| rewrite two63; unfold Q; lia]).
  rewrite W2.
  rewrite chk_s_ok by (rewrite two63; unfold Q; lia).
  cbn [bind]. rewrite shr_ok by lia. cbn [bind].
  assert (Hmul : exists r, a - t * Q = r * 4294967296).
  { exists ((a - t * Q) / 4294967296).
    assert (Hz : (a - t * Q) mod 4294967296 = 0).
    { rewrite E2, E1.
      replace (a - ((a + k1 * 4294967296) * QINV + k2 * 4294967296) * Q)
        with (a * (1 - QINV * Q) + (- (k1 * QINV * Q) - k2 * Q) * 4294967296) by ring.
      rewrite Z.mod_add by lia.
      replace (1 - QINV * Q) with (-114592 * 4294967296) by reflexivity.
      rewrite Z.mul_assoc. apply Z.mod_mul. lia. }
    revert Hz. generalize (a - t * Q). intros x Hx.
    pose proof (Z.div_mod x 4294967296 ltac:(lia)). lia. }
  destruct Hmul as (r & Hr).
  change (2 ^ 32) with 4294967296.
  rewrite Hr, Z.div_mul by lia.
  assert (Br : - Q < r < Q) by (unfold Q in *; lia).
  exists r, t. rewrite wrap_id by (rewrite ?two31; unfold Q in Br; lia).
  change (2 ^ 31) with 2147483648.
  repeat split; try lia.
Qed.

Theorem mont_ok a :
  - 2 ^ 31 * Q <= a < 2 ^ 31 * Q ->
  exists r, montgomery_reduce a = Ok r /\ cong Q (r * 2 ^ 32) a /\ - Q < r < Q.
Proof.
  intros Ha. destruct (mont_exact a Ha) as (r & t & E & _ & Hr & B).
  exists r. repeat split; try apply B; auto.
  apply (cong_intro Q _ _ (- t)); [unfold Q; lia|]. lia.
Qed.

(** Sharper bound used by key generation (DESIGN appendix D). *)
Theorem mont_half_bound a :
  - 2 ^ 31 * Q <= a < 2 ^ 31 * Q ->
  exists r, montgomery_reduce a = Ok r /\ Z.abs r <= Q / 2 + Z.abs a / 2 ^ 32 + 1.
Proof.
  intros Ha. destruct (mont_exact a Ha) as (r & t & E & Bt & Hr & B).
  exists r. split; [exact E|].
  change (2 ^ 32) with 4294967296 in *. change (2 ^ 31) with 2147483648 in *. unfold Q in *.
  lia.
Qed.

Theorem reduce32_ok a :
  - 2 ^ 31 <= a <= 2 ^ 31 - 2 ^ 22 - 1 ->
  exists r, reduce32 a = Ok r /\ cong Q r a /\ -6283009 <= r <= 6283008.
Proof.
  intros Ha. unfold reduce32, i32_add, i32_sub, i32_wrapping_mul.
  change (2 ^ 31) with 2147483648 in Ha. change (2 ^ 22) with 4194304 in Ha.
  rewrite chk_s_ok by (rewrite two31; lia). cbn [bind].
  rewrite shr_ok by lia. cbn [bind].
  change (2 ^ 23) with 8388608.
  set (t := (a + 4194304) / 8388608).
  assert (Bt : -256 <= t <= 255) by (unfold t; lia).
  rewrite (wrap_id 32 (t * Q)) by (try lia; rewrite two31; unfold Q; lia).
  assert (Br : -6283009 <= a - t * Q <= 6283008) by (unfold t, Q; lia).
  rewrite chk_s_ok by (rewrite two31; lia).
  exists (a - t * Q). repeat split; try lia.
  apply (cong_intro Q _ _ (- t)); [unfold Q; lia | ring].
Qed.

(** The domain edge is real: one past the documented bound the checked build panics. *)
Theorem reduce32_panics a :
  2 ^ 31 - 2 ^ 22 <= a < 2 ^ 31 -> reduce32 a = Panic.
Proof.
  intros Ha. unfold reduce32, i32_add.
  change (2 ^ 31) with 2147483648 in Ha. change (2 ^ 22) with 4194304 in Ha.
  rewrite chk_s_panic by (rewrite two31; lia). reflexivity.
Qed.

Theorem caddq_ok a : - Q < a < Q -> caddq a = Ok (a mod Q).
Proof.
  intros Ha. unfold caddq, i32_add. rewrite shr_ok by lia. cbn [bind].
  change (2 ^ 31) with 2147483648. unfold Q in *.
  destruct (Z.ltb_spec a 0) as [Hn|Hp].
  - replace (a / 2147483648) with (-1) by lia.
    change (Z.land (-1) 8380417) with 8380417.
    rewrite chk_s_ok by (rewrite two31; lia). f_equal. lia.
  - replace (a / 2147483648) with 0 by lia.
    change (Z.land 0 8380417) with 0.
    rewrite chk_s_ok by (rewrite two31; lia). f_equal. lia.
Qed.
