(** C01 — Every signature the library produces verifies (all sets, all modes), with the advertised length.
    Only property theorems here, closed by [exact] of lemmas proved in PSignVerify.v (which composes PKeygen, PSignStruct,
    PSignTotal, PVerifySpec, PRing, PRounding, PHint, PPack2, PKeyCodec, PBridge, PKeccak).
    PROVED for the six parameter sets, every 32-byte seed (or 32 drawn bytes), every message, every context of at most 255
    bytes, both pre-hash functions, deterministic and hedged/randomized mode: whenever signing returns a signature, that
    signature has exactly the advertised length and verification under the matching public key, message, context and mode
    returns true. The argument: in the NTT domain A z - c t1 2^d = (w - c s2) + c t0 = w1*alpha + a0 with |a0| < 2*gamma2 - beta
    for the accepted attempt, the hint rule (C15) gives UseHint = w1, the codecs round-trip (C16), both sides hash the same
    mu and frame the same M' (C07).
    NOT provable by any technique: that signing always terminates (rejection sampling on hash output) — it is the
    hypothesis [signature .. = Ok ..]; the check runs the crate under a watchdog and ~10^5 sign/verify round trips per run. *)
From DV Require Import Base MParams MSign MApi PTape PSignTotal PKeygen PSignVerify.

Theorem C01_sign_then_verify :
  forall (P : params) (xi pk0 sk0 tp pk sk tp' sig0 m : list Z) (rand : bool) (tape sig tape' : list Z),
  std P -> Forall is_byte xi -> zlen xi = 32 -> Forall is_byte m ->
  zlen pk0 = pPK P -> zlen sk0 = pSK P -> zlen sig0 = pSIG P -> tape_ok P rand tape ->
  keypair P pk0 sk0 (Some xi) tp = Ok (pk, sk, tp') ->
  signature P sig0 m sk rand tape = Ok (sig, tape') ->
  zlen sig = pSIG P /\ verify P sig m pk = Ok true.
Proof. exact sign_then_verify. Qed.
Print Assumptions C01_sign_then_verify.

Theorem C01_sign_then_verify_unseeded_key :
  forall (P : params) (pk0 sk0 tp pk sk tp' sig0 m : list Z) (rand : bool) (tape sig tape' : list Z),
  std P -> Forall is_byte (firstn 32 tp) -> Forall is_byte m ->
  zlen pk0 = pPK P -> zlen sk0 = pSK P -> zlen sig0 = pSIG P -> tape_ok P rand tape ->
  keypair P pk0 sk0 None tp = Ok (pk, sk, tp') ->
  signature P sig0 m sk rand tape = Ok (sig, tape') ->
  zlen sig = pSIG P /\ verify P sig m pk = Ok true.
Proof. exact sign_then_verify_unseeded. Qed.
Print Assumptions C01_sign_then_verify_unseeded_key.

(** through the API, for any key pair the specification's KeyGen defines (C04: that is what key generation returns) *)
Theorem C01_dilithium_api : forall (P : params) (xi pk sk msg s : list Z),
  std P -> S_keygen P xi pk sk -> zlen pk = pPK P -> zlen sk = pSK P -> Forall is_byte msg ->
  dil_sign P sk msg = Ok s -> zlen s = pSIG P /\ dil_verify P pk msg s = Ok true.
Proof. exact dil_sign_then_verify. Qed.
Print Assumptions C01_dilithium_api.

Theorem C01_mldsa_api :
  forall (P : params) (xi pk sk msg : list Z) (ctx : option (list Z)) (hedged : bool) (tape s tape' : list Z),
  std P -> S_keygen P xi pk sk -> zlen pk = pPK P -> zlen sk = pSK P -> Forall is_byte msg ->
  PTotal.ctx_is_bytes ctx -> tape_ok P hedged tape ->
  ml_sign P sk msg ctx hedged tape = Ok (Some s, tape') ->
  zlen s = pSIG P /\ ml_verify P pk msg s ctx = Ok true.
Proof. exact ml_sign_then_verify. Qed.
Print Assumptions C01_mldsa_api.

Theorem C01_mldsa_prehash_api :
  forall (P : params) (xi pk sk msg : list Z) (ctx : option (list Z)) (hedged ph : bool) (tape s tape' : list Z),
  std P -> S_keygen P xi pk sk -> zlen pk = pPK P -> zlen sk = pSK P ->
  PTotal.ctx_is_bytes ctx -> tape_ok P hedged tape ->
  ml_prehash_sign P sk msg ctx hedged ph tape = Ok (Some s, tape') ->
  zlen s = pSIG P /\ ml_prehash_verify P pk msg s ctx ph = Ok true.
Proof. exact ml_prehash_sign_then_verify. Qed.
Print Assumptions C01_mldsa_prehash_api.
