(** C01 — Every signature the library produces verifies (all sets, all modes), with the advertised length.
    Only property theorems here, closed by [exact] of lemmas proved elsewhere. The full statement
        keypair seed = (pk, sk) -> signature sk M' = sig -> verify sig M' pk = true /\ |sig| = SIGNBYTES
    needs the ring identity A z - c t1 2^d = (w - c s2) + c t0 through the NTT-domain computation and is NOT yet a
    Coq theorem; termination of signing is not provable by any technique (rejection sampling on hash output).
    PROVED, and exactly the ingredients the argument consists of (each for all inputs):
      (1) the hint rule: for every high part w1 and every low-part sum |a0| < 2*gamma2 the signer's hint makes the
          verifier's UseHint on the perturbed value return w1 (C15);
      (2) whatever the signer emits passed its four tests, so the emitted z satisfies the verifier's norm gate, the
          hint vector has weight <= omega (C06);
      (3) the hint section written by the signer is decoded by the verifier's strict decoder to the same hint vector,
          and z decodes to the same z (C16);
      (4) signer and verifier frame the message identically (C07) and compare the whole challenge (C03).
    The remaining link is decided by execution: the crate verifies ~10^5 of its own signatures per run (all sets, modes,
    reused buffers), an independent verifier accepts them, and the model replays sign/verify chains (see evidence). *)
From DV Require Import Base MReduce MRounding MParams MPoly MPolyvec MPacking MSign MApi PRounding PPack2 PHint PSignStruct PFrame.

Theorem C01_hint_rule_partial : forall g88 w1 a0, 0 <= w1 < MM g88 -> - ALPHA g88 < a0 < ALPHA g88 ->
  exists hb, make_hint g88 a0 w1 = Ok hb /\ (hb = 0 \/ hb = 1) /\
             use_hint g88 ((w1 * ALPHA g88 + a0) mod Q) hb = Ok w1.
Proof. exact hint_roundtrip. Qed.
Print Assumptions C01_hint_rule_partial.

Theorem C01_emitted_response_passes_the_verifiers_gate_partial :
  forall (P : params) (fuel : nat) (sig msg sk : list Z) (rand : bool) (tape s trace tape' : list Z),
  signature_trace P fuel sig msg sk rand tape = Ok (s, trace, tape') ->
  exists (sigc : list Z) (z h : list (list Z)),
    pack_sig P sigc None z h = Ok s /\ length z = Z.to_nat (pL P) /\ length h = Z.to_nat (pK P) /\
    (forall a, In a z -> forall x, In x a -> Z.abs x < pGAMMA1 P - pBETA P) /\
    hint_bits h /\ 0 <= hint_weight h <= pOMEGA P.
Proof. exact signature_respects_bounds. Qed.
Print Assumptions C01_emitted_response_passes_the_verifiers_gate_partial.

Theorem C01_hints_survive_the_codec_partial : forall (P : params) (h : list (list Z)), 0 <= pOMEGA P <= 255 ->
  hint_wf (pK P) h -> hweight h <= pOMEGA P ->
  hint_decode P (S_hint_pack (pOMEGA P) h) (zero_h (pK P)) = Ok (h, true).
Proof. exact hint_decode_pack. Qed.
Print Assumptions C01_hints_survive_the_codec_partial.

Theorem C01_response_survives_the_codec_partial : forall a b : list Z, length a = 256%nat ->
  (Forall z17_rng a -> z_pack_bytes G17 a = Ok b -> z_unpack G17 b = Ok a) /\
  (Forall z19_rng a -> z_pack_bytes G19 a = Ok b -> z_unpack G19 b = Ok a).
Proof. intros a b Hl; split; intros H E; [apply (z17_unpack_pack a b H Hl E) | apply (z19_unpack_pack a b H Hl E)]. Qed.
Print Assumptions C01_response_survives_the_codec_partial.

Theorem C01_same_framing_on_both_sides_partial :
  forall (P : params) (sk pk msg sig : list Z) (ctx : option (list Z)) (hedged : bool) (tape : list Z),
  let framed := frame_pure ctx msg in
  ml_sign P sk msg ctx hedged tape =
    (if ctx_too_long ctx then Ok (None, tape)
     else do '(s, tape') <- signature P (repeatZ 0 (pSIG P)) framed sk hedged tape; Ok (Some s, tape')) /\
  ml_verify P pk msg sig ctx =
    (if ctx_too_long ctx then Ok false
     else if negb (zlen sig =? pSIG P) then Ok false else verify P sig framed pk).
Proof. exact sign_verify_same_frame. Qed.
Print Assumptions C01_same_framing_on_both_sides_partial.
