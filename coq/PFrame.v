(** C07 — ML-DSA context and mode framing gives domain separation (about MApi.v). *)
From DV Require Import Base Gen MReduce MRounding MParams MKeccak MNtt MPoly MPolyvec MPacking MSign MSha2 MApi.

Local Ltac Zify.zify_post_hook ::= Z.div_mod_to_equations.

(** * Small list facts *)
Lemma app_inj_len {A} (a b x y : list A) :
  length a = length b -> a ++ x = b ++ y -> a = b /\ x = y.
Proof.
  revert b; induction a as [|u a IH]; intros [|v b] Hl H; simpl in *; try discriminate.
  - auto.
  - inversion H; subst. destruct (IH b) as [-> ->]; auto.
Qed.

Lemma zlen_eq_length {A} (a b : list A) : zlen a = zlen b -> length a = length b.
Proof. unfold zlen; lia. Qed.

Lemma u8_small x : 0 <= x <= 255 -> u8 x = x.
Proof.
  intros H. unfold u8. change 255 with (Z.ones 8). rewrite Z.land_ones by lia.
  change (2 ^ 8) with 256. apply Z.mod_small. lia.
Qed.

Lemma u8_zlen {A} (l : list A) : zlen l <= 255 -> u8 (zlen l) = zlen l.
Proof. intros H. apply u8_small. unfold zlen in *. lia. Qed.

(** * Shape of the frames *)
Lemma ctx_ok_len ctx : ctx_too_long ctx = false -> zlen (ctx_bytes ctx) <= 255.
Proof.
  destruct ctx as [x|]; simpl; intros H.
  - apply Z.ltb_ge in H. exact H.
  - unfold zlen; simpl; lia.
Qed.

Lemma ctx_len_ok ctx : zlen (ctx_bytes ctx) <= 255 -> ctx_too_long ctx = false.
Proof.
  destruct ctx as [x|]; simpl; intros H; [|reflexivity]. apply Z.ltb_ge. exact H.
Qed.

Lemma ctx_too_long_spec ctx :
  ctx_too_long ctx = true <-> exists x, ctx = Some x /\ 255 < zlen x.
Proof.
  destruct ctx as [x|]; simpl; split.
  - intros H. exists x. split; auto. apply Z.ltb_lt. exact H.
  - intros (y & E & H). inversion E; subst. apply Z.ltb_lt. exact H.
  - discriminate.
  - intros (y & E & _). discriminate.
Qed.

Theorem frame_pure_shape ctx msg :
  zlen (ctx_bytes ctx) <= 255 ->
  frame_pure ctx msg = [0; zlen (ctx_bytes ctx)] ++ ctx_bytes ctx ++ msg.
Proof. intros H. unfold frame_pure. rewrite u8_zlen by exact H. reflexivity. Qed.

Theorem frame_hash_shape_sha256 ctx msg :
  zlen (ctx_bytes ctx) <= 255 ->
  frame_hash false ctx msg = [1; zlen (ctx_bytes ctx)] ++ ctx_bytes ctx ++ OID_SHA256 ++ sha256 msg.
Proof. intros H. unfold frame_hash. rewrite u8_zlen by exact H. reflexivity. Qed.

Theorem frame_hash_shape_sha512 ctx msg :
  zlen (ctx_bytes ctx) <= 255 ->
  frame_hash true ctx msg = [1; zlen (ctx_bytes ctx)] ++ ctx_bytes ctx ++ OID_SHA512 ++ sha512 msg.
Proof. intros H. unfold frame_hash. rewrite u8_zlen by exact H. reflexivity. Qed.

(** the pre-hash digest selected by [ph] and its DER object identifier *)
Definition ph_oid (ph : bool) : list Z := if ph then OID_SHA512 else OID_SHA256.
Definition ph_digest (ph : bool) (msg : list Z) : list Z := if ph then sha512 msg else sha256 msg.

Theorem frame_hash_shape ph ctx msg :
  zlen (ctx_bytes ctx) <= 255 ->
  frame_hash ph ctx msg = [1; zlen (ctx_bytes ctx)] ++ ctx_bytes ctx ++ ph_oid ph ++ ph_digest ph msg.
Proof. destruct ph; [apply frame_hash_shape_sha512 | apply frame_hash_shape_sha256]. Qed.

(** absent context = empty context *)
Theorem frame_pure_none msg : frame_pure None msg = frame_pure (Some []) msg.
Proof. reflexivity. Qed.
Theorem frame_hash_none ph msg : frame_hash ph None msg = frame_hash ph (Some []) msg.
Proof. reflexivity. Qed.
Theorem frame_pure_ctx_bytes c1 c2 msg : ctx_bytes c1 = ctx_bytes c2 -> frame_pure c1 msg = frame_pure c2 msg.
Proof. unfold frame_pure. intros ->. reflexivity. Qed.
Theorem frame_hash_ctx_bytes ph c1 c2 msg :
  ctx_bytes c1 = ctx_bytes c2 -> frame_hash ph c1 msg = frame_hash ph c2 msg.
Proof. unfold frame_hash. intros ->. reflexivity. Qed.

(** * SHA-2 output lengths (from the definition of [digest]) *)
Section ShaLen.
  Variables (w S0a S0b S0c S1a S1b S1c s0a s0b s0c s1a s1b s1c : Z) (Kc : list Z).

  Lemma round_length st kw : length (round w S0a S0b S0c S1a S1b S1c st kw) = length st.
  Proof.
    unfold round.
    destruct st as [|a [|b [|c [|d [|e [|f [|g [|h [|i t]]]]]]]]]; reflexivity.
  Qed.

  Lemma fold_round_length l st :
    length (fold_left (round w S0a S0b S0c S1a S1b S1c) l st) = length st.
  Proof.
    revert st; induction l as [|x l IH]; intros st; simpl; [reflexivity|].
    rewrite IH. apply round_length.
  Qed.

  Lemma compress_length st block :
    length (compress w S0a S0b S0c S1a S1b S1c s0a s0b s0c s1a s1b s1c Kc st block) = length st.
  Proof.
    unfold compress. rewrite map_length, combine_length, fold_round_length. apply Nat.min_id.
  Qed.

  Lemma blocks_length n bsz st msg :
    length (blocks w S0a S0b S0c S1a S1b S1c s0a s0b s0c s1a s1b s1c Kc n bsz st msg) = length st.
  Proof.
    revert st msg; induction n as [|n IH]; intros st msg; simpl; [reflexivity|].
    rewrite IH. apply compress_length.
  Qed.

  Lemma be_bytes_length n x : length (be_bytes n x) = n.
  Proof.
    revert x; induction n as [|n IH]; intros x; simpl; [reflexivity|].
    rewrite app_length, IH. simpl. lia.
  Qed.

  Lemma flat_map_be_bytes_length n l : length (flat_map (be_bytes n) l) = (n * length l)%nat.
  Proof.
    induction l as [|x l IH]; simpl; [lia|].
    rewrite app_length, be_bytes_length, IH. lia.
  Qed.

  Lemma digest_length iv outwords msg :
    (outwords <= length iv)%nat ->
    length (digest w S0a S0b S0c S1a S1b S1c s0a s0b s0c s1a s1b s1c Kc iv outwords msg)
    = (Z.to_nat (w / 8) * outwords)%nat.
  Proof.
    intros H. unfold digest. rewrite flat_map_be_bytes_length, firstn_length, blocks_length.
    rewrite Nat.min_l by exact H. reflexivity.
  Qed.
End ShaLen.

Theorem sha256_length m : length (sha256 m) = 32%nat.
Proof. unfold sha256. rewrite digest_length by (simpl; lia). reflexivity. Qed.

Theorem sha512_length m : length (sha512 m) = 64%nat.
Proof. unfold sha512. rewrite digest_length by (simpl; lia). reflexivity. Qed.

Lemma ph_digest_length ph m : length (ph_digest ph m) = if ph then 64%nat else 32%nat.
Proof. destruct ph; [apply sha512_length | apply sha256_length]. Qed.

(** total length of the frames *)
Theorem frame_pure_length ctx msg : zlen (frame_pure ctx msg) = 2 + zlen (ctx_bytes ctx) + zlen msg.
Proof. unfold frame_pure, zlen. rewrite !app_length. cbn [length]. lia. Qed.

Theorem frame_hash_length ph ctx msg :
  zlen (frame_hash ph ctx msg) = 2 + zlen (ctx_bytes ctx) + 11 + (if ph then 64 else 32).
Proof.
  unfold frame_hash, zlen. rewrite !app_length.
  destruct ph; rewrite app_length; [rewrite sha512_length | rewrite sha256_length];
    unfold OID_SHA512, OID_SHA256; cbn [length]; lia.
Qed.

(** * Domain separation: the framing is injective (contexts of at most 255 bytes) *)
Theorem frame_pure_inj c1 m1 c2 m2 :
  zlen (ctx_bytes c1) <= 255 -> zlen (ctx_bytes c2) <= 255 ->
  frame_pure c1 m1 = frame_pure c2 m2 -> ctx_bytes c1 = ctx_bytes c2 /\ m1 = m2.
Proof.
  intros H1 H2 E. rewrite !frame_pure_shape in E by assumption.
  simpl in E. inversion E as [[El Er]].
  apply app_inj_len in Er; [exact Er | apply zlen_eq_length; exact El].
Qed.

(** in particular: the same concatenation ctx ++ msg split differently gives different frames *)
Corollary frame_pure_split_sensitive c1 m1 c2 m2 :
  zlen c1 <= 255 -> zlen c2 <= 255 -> c1 ++ m1 = c2 ++ m2 -> c1 <> c2 ->
  frame_pure (Some c1) m1 <> frame_pure (Some c2) m2.
Proof.
  intros H1 H2 _ Hne E. apply frame_pure_inj in E; simpl; auto. destruct E as [E _]. auto.
Qed.

Theorem frame_pure_hash_disjoint ph c1 m1 c2 m2 : frame_pure c1 m1 <> frame_hash ph c2 m2.
Proof. unfold frame_pure, frame_hash. simpl. intros E. inversion E. Qed.

Lemma oid_neq m1 m2 : OID_SHA512 ++ m1 <> OID_SHA256 ++ m2.
Proof. unfold OID_SHA512, OID_SHA256. simpl. intros E. inversion E. Qed.

Theorem frame_hash_inj ph1 c1 m1 ph2 c2 m2 :
  zlen (ctx_bytes c1) <= 255 -> zlen (ctx_bytes c2) <= 255 ->
  frame_hash ph1 c1 m1 = frame_hash ph2 c2 m2 ->
  ctx_bytes c1 = ctx_bytes c2 /\ ph1 = ph2 /\ ph_digest ph1 m1 = ph_digest ph2 m2.
Proof.
  intros H1 H2 E. rewrite !frame_hash_shape in E by assumption.
  simpl in E. inversion E as [[El Er]].
  apply app_inj_len in Er; [| apply zlen_eq_length; exact El].
  destruct Er as [Ec Er]. split; [exact Ec|].
  destruct ph1, ph2; unfold ph_oid, ph_digest in *.
  - split; [reflexivity|]. apply app_inj_len in Er; [apply Er | reflexivity].
  - exfalso. exact (oid_neq _ _ Er).
  - exfalso. symmetry in Er. exact (oid_neq _ _ Er).
  - split; [reflexivity|]. apply app_inj_len in Er; [apply Er | reflexivity].
Qed.

(** all three together: one signed byte string determines (mode, hash, context, message-or-digest) *)
Corollary frame_domain_separation :
  (forall c1 m1 c2 m2, zlen (ctx_bytes c1) <= 255 -> zlen (ctx_bytes c2) <= 255 ->
     frame_pure c1 m1 = frame_pure c2 m2 -> ctx_bytes c1 = ctx_bytes c2 /\ m1 = m2) /\
  (forall ph c1 m1 c2 m2, frame_pure c1 m1 <> frame_hash ph c2 m2) /\
  (forall ph1 c1 m1 ph2 c2 m2, zlen (ctx_bytes c1) <= 255 -> zlen (ctx_bytes c2) <= 255 ->
     frame_hash ph1 c1 m1 = frame_hash ph2 c2 m2 ->
     ctx_bytes c1 = ctx_bytes c2 /\ ph1 = ph2 /\ ph_digest ph1 m1 = ph_digest ph2 m2).
Proof.
  split; [exact frame_pure_inj|]. split; [exact frame_pure_hash_disjoint | exact frame_hash_inj].
Qed.

(** * Length gate *)
Section Gate.
  Variable P : params.

  (** a context of more than 255 bytes: no signature, the tape is returned untouched; verification false *)
  Theorem ctx_gate_reject sk pk msg sig ctx hedged ph tape :
    ctx_too_long ctx = true ->
    ml_sign P sk msg ctx hedged tape = Ok (None, tape) /\
    ml_prehash_sign P sk msg ctx hedged ph tape = Ok (None, tape) /\
    ml_verify P pk msg sig ctx = Ok false /\
    ml_prehash_verify P pk msg sig ctx ph = Ok false.
  Proof.
    intros H. unfold ml_sign, ml_prehash_sign, ml_verify, ml_prehash_verify. rewrite H.
    repeat split; destruct (negb (zlen sig =? pSIG P)); reflexivity.
  Qed.

  (** a context of at most 255 bytes: the wrappers sign exactly the framed message *)
  Theorem ml_sign_frames sk msg ctx hedged tape :
    zlen (ctx_bytes ctx) <= 255 ->
    ml_sign P sk msg ctx hedged tape =
    (do '(s, tape') <- signature P (repeatZ 0 (pSIG P)) (frame_pure ctx msg) sk hedged tape;
     Ok (Some s, tape')).
  Proof. intros H. unfold ml_sign. rewrite (ctx_len_ok _ H). reflexivity. Qed.

  Theorem ml_prehash_sign_frames sk msg ctx hedged ph tape :
    zlen (ctx_bytes ctx) <= 255 ->
    ml_prehash_sign P sk msg ctx hedged ph tape =
    (do '(s, tape') <- signature P (repeatZ 0 (pSIG P)) (frame_hash ph ctx msg) sk hedged tape;
     Ok (Some s, tape')).
  Proof. intros H. unfold ml_prehash_sign. rewrite (ctx_len_ok _ H). reflexivity. Qed.

  (** result-level reading: [Some s] exactly when the core signer returns [s] on the framed message *)
  Corollary ml_sign_frames_ok sk msg ctx hedged tape s tape' :
    zlen (ctx_bytes ctx) <= 255 ->
    (ml_sign P sk msg ctx hedged tape = Ok (Some s, tape') <->
     signature P (repeatZ 0 (pSIG P)) (frame_pure ctx msg) sk hedged tape = Ok (s, tape')).
  Proof.
    intros H. rewrite ml_sign_frames by exact H.
    destruct (signature P (repeatZ 0 (pSIG P)) (frame_pure ctx msg) sk hedged tape) as [[s0 t0]| |];
      simpl; split; intros E; try discriminate; inversion E; reflexivity.
  Qed.

  (** verification: both gates (signature length, context length) give [false]; otherwise the core
      verifier runs on the same frame *)
  Theorem ml_verify_frames pk msg sig ctx :
    ml_verify P pk msg sig ctx =
    if negb (zlen sig =? pSIG P) || ctx_too_long ctx then Ok false
    else verify P sig (frame_pure ctx msg) pk.
  Proof.
    unfold ml_verify. destruct (negb (zlen sig =? pSIG P)); simpl; [reflexivity|].
    destruct (ctx_too_long ctx); reflexivity.
  Qed.

  Theorem ml_prehash_verify_frames pk msg sig ctx ph :
    ml_prehash_verify P pk msg sig ctx ph =
    if negb (zlen sig =? pSIG P) || ctx_too_long ctx then Ok false
    else verify P sig (frame_hash ph ctx msg) pk.
  Proof.
    unfold ml_prehash_verify. destruct (negb (zlen sig =? pSIG P)); simpl; [reflexivity|].
    destruct (ctx_too_long ctx); reflexivity.
  Qed.

  (** the order of the two gates is immaterial *)
  Theorem ml_verify_gate_order pk msg sig ctx :
    ml_verify P pk msg sig ctx =
    if ctx_too_long ctx then Ok false else
    if negb (zlen sig =? pSIG P) then Ok false else verify P sig (frame_pure ctx msg) pk.
  Proof.
    unfold ml_verify. destruct (negb (zlen sig =? pSIG P)), (ctx_too_long ctx); reflexivity.
  Qed.

  (** signer and verifier frame identically: the two equations share the term [frame_pure ctx msg]
      (resp. [frame_hash ph ctx msg]) *)
  Theorem sign_verify_same_frame sk pk msg sig ctx hedged tape :
    let framed := frame_pure ctx msg in
    ml_sign P sk msg ctx hedged tape =
      (if ctx_too_long ctx then Ok (None, tape) else
       do '(s, tape') <- signature P (repeatZ 0 (pSIG P)) framed sk hedged tape; Ok (Some s, tape')) /\
    ml_verify P pk msg sig ctx =
      (if ctx_too_long ctx then Ok false else
       if negb (zlen sig =? pSIG P) then Ok false else verify P sig framed pk).
  Proof. intros framed. split; [reflexivity | apply ml_verify_gate_order]. Qed.

  Theorem prehash_sign_verify_same_frame sk pk msg sig ctx hedged ph tape :
    let framed := frame_hash ph ctx msg in
    ml_prehash_sign P sk msg ctx hedged ph tape =
      (if ctx_too_long ctx then Ok (None, tape) else
       do '(s, tape') <- signature P (repeatZ 0 (pSIG P)) framed sk hedged tape; Ok (Some s, tape')) /\
    ml_prehash_verify P pk msg sig ctx ph =
      (if ctx_too_long ctx then Ok false else
       if negb (zlen sig =? pSIG P) then Ok false else verify P sig framed pk).
  Proof.
    intros framed. split; [reflexivity|].
    unfold ml_prehash_verify. destruct (negb (zlen sig =? pSIG P)), (ctx_too_long ctx); reflexivity.
  Qed.

  (** consequence of injectivity: a verifier called with (ctx2, msg2) runs the core verifier on the
      signer's byte string only if context and message agree *)
  Corollary verify_input_determines_ctx_msg c1 m1 c2 m2 :
    ctx_too_long c1 = false -> ctx_too_long c2 = false ->
    frame_pure c1 m1 = frame_pure c2 m2 -> ctx_bytes c1 = ctx_bytes c2 /\ m1 = m2.
  Proof. intros H1 H2. apply frame_pure_inj; apply ctx_ok_len; assumption. Qed.
End Gate.

Print Assumptions frame_pure_shape.
Print Assumptions frame_hash_shape.
Print Assumptions sha256_length.
Print Assumptions sha512_length.
Print Assumptions frame_domain_separation.
Print Assumptions ctx_gate_reject.
Print Assumptions ml_sign_frames.
Print Assumptions ml_verify_frames.
Print Assumptions sign_verify_same_frame.
Print Assumptions prehash_sign_verify_same_frame.
