(** PBridge: the polynomial samplers with the REAL SHAKE sponge are the FIPS 204 sampling functions of
    the SHAKE output stream of (seed, nonce).

    PSample.v proves the samplers (generic in the squeezer) correct over a finite tape ([tape_sq rate]);
    PKeccak.v proves that the real sponge returns consecutive blocks of [S_shake rate m].  This file
    connects the two:
      1. the samplers are parametric in the squeezer (two squeezers related by a block-budgeted
         simulation give EQUAL results, including the kind of failure);
      2. the real sponge at a block boundary simulates the tape [skipn j (S_shake rate m N)];
      3. per-sampler theorems for [poly_uniform], [poly_uniform_eta], [poly_uniform_gamma1],
         [poly_challenge]; no-Panic lemmas;
      4. vector level: ExpandA, ExpandS, ExpandMask. *)
From DV Require Import Base Gen MReduce MRounding MParams MKeccak MNtt MPoly MPolyvec MSign
                       SKeccak PKeccak PSample PPack PPack2 PLift.
From Coq Require Import Arith.

Local Ltac Zify.zify_post_hook ::= Z.div_mod_to_equations.

(** * 1. Parametricity of the samplers in the squeezer *)

(** [R b s1 s2]: the states are related and at least [b] more blocks can be squeezed on both sides. *)
Section Param.
  Context {S1 S2 : Type}.
  Variable sqA : Z -> S1 -> res (list Z * S1).
  Variable sqB : Z -> S2 -> res (list Z * S2).
  Variable R : nat -> S1 -> S2 -> Prop.
  Hypothesis Rmono : forall b b' s1 s2, R b s1 s2 -> (b' <= b)%nat -> R b' s1 s2.
  Hypothesis Rstep : forall b n s1 s2, R b s1 s2 -> (n <= b)%nat ->
    exists blk s1' s2', sqA (Z.of_nat n) s1 = Ok (blk, s1') /\ sqB (Z.of_nat n) s2 = Ok (blk, s2')
                        /\ R (b - n) s1' s2'.

  Ltac same_bind :=
    repeat match goal with
    | |- bind ?m _ = bind ?m _ => destruct m as [?| |]; cbn [bind]; [|reflexivity|reflexivity]
    | |- (let (_, _) := ?x in _) = _ => is_var x; destruct x
    end.

  Lemma uniform_loop_param : forall fuel b s1 s2 a ctr buf buflen,
    R b s1 s2 -> (fuel <= b)%nat ->
    uniform_loop sqA fuel s1 a ctr buf buflen = uniform_loop sqB fuel s2 a ctr buf buflen.
  Proof using Rmono Rstep.
    induction fuel as [|f IH]; intros b s1 s2 a ctr buf buflen HR Hb; cbn [uniform_loop].
    - reflexivity.
    - destruct (ctr <? 256); [|reflexivity].
      same_bind.
      destruct (Rstep b 1%nat s1 s2 HR ltac:(lia)) as (blk & s1' & s2' & HA & HB & HR').
      change (Z.of_nat 1) with 1 in HA, HB. rewrite HA, HB. cbn [bind].
      same_bind.
      apply (IH (b - 1)%nat); [exact HR' | lia].
  Qed.

  Theorem uniform_from_param fuel b s1 s2 a :
    R b s1 s2 -> (5 + fuel <= b)%nat ->
    uniform_from sqA fuel s1 a = uniform_from sqB fuel s2 a.
  Proof using Rmono Rstep.
    intros HR Hb. unfold uniform_from.
    destruct (Rstep b 5%nat s1 s2 HR ltac:(lia)) as (blk & s1' & s2' & HA & HB & HR').
    change (Z.of_nat 5) with 5 in HA, HB. rewrite HA, HB. cbn [bind].
    same_bind.
    apply (uniform_loop_param fuel (b - 5)%nat); [exact HR' | lia].
  Qed.

  Lemma uniform_eta_loop_param eta : forall fuel b s1 s2 a ctr,
    R b s1 s2 -> (fuel <= b)%nat ->
    uniform_eta_loop sqA eta fuel s1 a ctr = uniform_eta_loop sqB eta fuel s2 a ctr.
  Proof using Rmono Rstep.
    induction fuel as [|f IH]; intros b s1 s2 a ctr HR Hb; cbn [uniform_eta_loop].
    - reflexivity.
    - destruct (ctr <? 256); [|reflexivity].
      destruct (Rstep b 1%nat s1 s2 HR ltac:(lia)) as (blk & s1' & s2' & HA & HB & HR').
      change (Z.of_nat 1) with 1 in HA, HB. rewrite HA, HB. cbn [bind].
      same_bind.
      apply (IH (b - 1)%nat); [exact HR' | lia].
  Qed.

  Theorem uniform_eta_from_param eta fuel b s1 s2 a :
    R b s1 s2 -> (1 + fuel <= b)%nat ->
    uniform_eta_from sqA eta fuel s1 a = uniform_eta_from sqB eta fuel s2 a.
  Proof using Rmono Rstep.
    intros HR Hb. unfold uniform_eta_from.
    destruct (Rstep b 1%nat s1 s2 HR ltac:(lia)) as (blk & s1' & s2' & HA & HB & HR').
    change (Z.of_nat 1) with 1 in HA, HB. rewrite HA, HB. cbn [bind].
    same_bind.
    apply (uniform_eta_loop_param eta fuel (b - 1)%nat); [exact HR' | lia].
  Qed.

  Theorem uniform_gamma1_from_param g1 b s1 s2 :
    R b s1 s2 -> (5 <= b)%nat ->
    uniform_gamma1_from sqA g1 s1 = uniform_gamma1_from sqB g1 s2.
  Proof using Rmono Rstep.
    intros HR Hb. unfold uniform_gamma1_from.
    destruct (Rstep b 5%nat s1 s2 HR ltac:(lia)) as (blk & s1' & s2' & HA & HB & HR').
    change (Z.of_nat 5) with 5 in HA, HB. rewrite HA, HB. cbn [bind]. reflexivity.
  Qed.

  (** the inner loop of challenge returns its state: equal visible results, related states *)
  Definition next_rel (b : nat) (x : res (Z * S1 * list Z * Z)) (y : res (Z * S2 * list Z * Z)) : Prop :=
    match x, y with
    | Ok (v1, s1', buf1, pos1), Ok (v2, s2', buf2, pos2) =>
        v1 = v2 /\ buf1 = buf2 /\ pos1 = pos2 /\ R b s1' s2'
    | Panic, Panic => True
    | OutOfFuel, OutOfFuel => True
    | _, _ => False
    end.

  Lemma challenge_next_param : forall fuel b s1 s2 buf pos i,
    R b s1 s2 -> (fuel <= b)%nat ->
    next_rel (b - fuel) (challenge_next sqA fuel s1 buf pos i) (challenge_next sqB fuel s2 buf pos i).
  Proof using Rmono Rstep.
    induction fuel as [|f IH]; intros b s1 s2 buf pos i HR Hb; cbn [challenge_next].
    - exact I.
    - destruct (136 <=? pos).
      + destruct (Rstep b 1%nat s1 s2 HR ltac:(lia)) as (blk & s1' & s2' & HA & HB & HR').
        change (Z.of_nat 1) with 1 in HA, HB. rewrite HA, HB. cbn [bind].
        destruct (get blk 0) as [v| |]; cbn [bind]; try exact I.
        destruct (v <=? i).
        * cbn [next_rel]. repeat split. apply (Rmono (b - 1)%nat); [exact HR' | lia].
        * replace (b - S f)%nat with (b - 1 - f)%nat by lia. apply IH; [exact HR' | lia].
      + cbn [bind].
        destruct (get buf pos) as [v| |]; cbn [bind]; try exact I.
        destruct (v <=? i).
        * cbn [next_rel]. repeat split. apply (Rmono b); [exact HR | lia].
        * replace (b - S f)%nat with (b - 1 - f)%nat by lia. apply IH; [|lia].
          apply (Rmono b); [exact HR | lia].
  Qed.

  Lemma challenge_loop_param fuel : forall is b s1 s2 buf pos signs c,
    R b s1 s2 -> (length is * fuel <= b)%nat ->
    challenge_loop sqA fuel is s1 buf pos signs c = challenge_loop sqB fuel is s2 buf pos signs c.
  Proof using Rmono Rstep.
    induction is as [|i is IH]; intros b s1 s2 buf pos signs c HR Hb; cbn [challenge_loop].
    - reflexivity.
    - cbn [length] in Hb.
      pose proof (challenge_next_param fuel b s1 s2 buf pos i HR ltac:(lia)) as H.
      destruct (challenge_next sqA fuel s1 buf pos i) as [[[[v1 s1'] buf1] pos1]| |];
        destruct (challenge_next sqB fuel s2 buf pos i) as [[[[v2 s2'] buf2] pos2]| |];
        cbn [next_rel] in H; try contradiction; cbn [bind]; try reflexivity.
      destruct H as (-> & -> & -> & HR').
      same_bind.
      apply (IH (b - fuel)%nat); [exact HR' | lia].
  Qed.

  Theorem challenge_from_param tau fuel b s1 s2 :
    R b s1 s2 -> (1 + Z.to_nat tau * fuel <= b)%nat ->
    challenge_from sqA tau fuel s1 = challenge_from sqB tau fuel s2.
  Proof using Rmono Rstep.
    intros HR Hb. unfold challenge_from.
    destruct (Rstep b 1%nat s1 s2 HR ltac:(lia)) as (blk & s1' & s2' & HA & HB & HR').
    change (Z.of_nat 1) with 1 in HA, HB. rewrite HA, HB. cbn [bind].
    apply (challenge_loop_param fuel _ (b - 1)%nat); [exact HR'|].
    rewrite zrange_length. replace (256 - (256 - tau)) with tau by lia. lia.
  Qed.
End Param.

(** * 2. The real sponge at a block boundary simulates a tape of SHAKE output *)

Lemma skipn_seq' n : forall s len, skipn n (seq s len) = seq (s + n) (len - n).
Proof.
  induction n as [|n IH]; intros s len.
  - cbn [skipn]. rewrite Nat.add_0_r, Nat.sub_0_r. reflexivity.
  - destruct len as [|len]; [reflexivity|]. cbn [seq skipn]. rewrite IH. f_equal. lia.
Qed.

Lemma firstn_seq' n : forall s len, (n <= len)%nat -> firstn n (seq s len) = seq s n.
Proof.
  induction n as [|n IH]; intros s len H; [reflexivity|].
  destruct len as [|len]; [lia|]. cbn [seq firstn]. rewrite IH by lia. reflexivity.
Qed.

Lemma rate_ok_bounds rate : rate_ok rate -> (0 < rate <= 200)%nat.
Proof. intros [H _]. exact H. Qed.

(** prefixes and segments of the SHAKE stream do not depend on the requested length *)
Lemma S_shake_firstn rate m n N : (0 < rate <= 200)%nat -> (n <= N)%nat ->
  firstn n (S_shake rate m N) = S_shake rate m n.
Proof.
  intros Hr Hn. rewrite !S_shake_map by exact Hr. rewrite firstn_map, firstn_seq' by exact Hn. reflexivity.
Qed.

Lemma S_shake_skipn rate m j N : (0 < rate <= 200)%nat ->
  skipn j (S_shake rate m N) = map (shake_byte rate m) (seq j (N - j)).
Proof.
  intros Hr. rewrite S_shake_map by exact Hr. rewrite skipn_map, skipn_seq'. reflexivity.
Qed.

Lemma S_shake_seg rate m j n N : (0 < rate <= 200)%nat -> (j + n <= N)%nat ->
  firstn n (skipn j (S_shake rate m N)) = map (shake_byte rate m) (seq j n).
Proof.
  intros Hr Hn. rewrite S_shake_skipn by exact Hr. rewrite firstn_map, firstn_seq' by lia. reflexivity.
Qed.

Lemma S_shake_length rate m d : (0 < rate <= 200)%nat -> length (S_shake rate m d) = d.
Proof. intros Hr. apply (S_shake_length_bytes rate m d Hr). Qed.
Lemma S_shake_bytes rate m d : (0 < rate <= 200)%nat -> Forall is_byte (S_shake rate m d).
Proof. intros Hr. apply (S_shake_length_bytes rate m d Hr). Qed.

(** the real squeezer, generic in the rate *)
Definition gsq (rate : nat) (n : Z) (st : kstate) : res (list Z * kstate) :=
  keccak_squeezeblocks (repeatZ 0 (n * Z.of_nat rate)) n st (Z.of_nat rate).

Lemma real_sq128_gsq : real_sq128 = gsq 168.
Proof. reflexivity. Qed.
Lemma real_sq256_gsq : real_sq256 = gsq 136.
Proof. reflexivity. Qed.

(** [sim rate m N b st tape]: [st] is the sponge after squeezing j bytes (a whole number of blocks) of
    SHAKE(m), [tape] is the rest of the first N bytes of that stream, and b more blocks fit. *)
Definition sim (rate : nat) (m : list Z) (N : nat) (b : nat) (st : kstate) (tape : list Z) : Prop :=
  exists j, sq_inv rate st m j /\ (j mod rate = 0)%nat /\ (j + b * rate <= N)%nat
            /\ tape = skipn j (S_shake rate m N).

Lemma sim_mono rate m N b b' st tape : sim rate m N b st tape -> (b' <= b)%nat -> sim rate m N b' st tape.
Proof.
  intros (j & Hi & Hj & Hb & Ht) Hle. exists j. repeat split; try assumption. nia.
Qed.

Lemma sim_step rate m N b n st tape : rate_ok rate ->
  sim rate m N b st tape -> (n <= b)%nat ->
  exists blk st' tape',
    gsq rate (Z.of_nat n) st = Ok (blk, st')
    /\ tape_sq (Z.of_nat rate) (Z.of_nat n) tape = Ok (blk, tape')
    /\ sim rate m N (b - n) st' tape'.
Proof.
  intros Hr (j & Hi & Hj & Hb & Ht) Hn.
  pose proof (rate_ok_bounds rate Hr) as Hr'.
  assert (Hlen : (j + n * rate <= N)%nat) by nia.
  assert (Hout : zlen (repeatZ 0 (Z.of_nat n * Z.of_nat rate)) = Z.of_nat n * Z.of_nat rate).
  { unfold zlen, repeatZ. rewrite repeat_length. lia. }
  destruct (squeezeblocks_inv rate st m j (repeatZ 0 (Z.of_nat n * Z.of_nat rate)) (Z.of_nat n)
              Hr Hi Hj ltac:(lia) ltac:(lia)) as (st' & Hsq & Hi').
  rewrite Nat2Z.id in Hsq, Hi'.
  exists (map (shake_byte rate m) (seq j (n * rate))), st', (skipn (j + n * rate) (S_shake rate m N)).
  split; [|split].
  - unfold gsq. rewrite Hsq. f_equal. f_equal.
    rewrite S_shake_segment by exact Hr'.
    rewrite skipn_all2; [apply app_nil_r|].
    unfold repeatZ. rewrite repeat_length. lia.
  - unfold tape_sq. subst tape.
    assert (Hz : zlen (skipn j (S_shake rate m N)) = Z.of_nat (N - j)).
    { unfold zlen. rewrite skipn_length, S_shake_length by exact Hr'. reflexivity. }
    rewrite Hz.
    destruct (Z.ltb_spec (Z.of_nat (N - j)) (Z.of_nat n * Z.of_nat rate)) as [Hlt|_]; [nia|].
    replace (Z.to_nat (Z.of_nat n * Z.of_nat rate)) with (n * rate)%nat by nia.
    rewrite S_shake_seg by assumption. rewrite skipn_skipn'. reflexivity.
  - exists (j + n * rate)%nat. split; [exact Hi'|]. split; [|split; [|reflexivity]].
    + rewrite Nat.mod_add by lia. exact Hj.
    + nia.
Qed.

(** the start of a stream: nothing squeezed yet, the tape is the first N bytes *)
Lemma sim_start rate m N b st : sq_inv rate st m 0 -> (b * rate <= N)%nat ->
  sim rate m N b st (S_shake rate m N).
Proof.
  intros Hi Hb. exists 0%nat. split; [exact Hi|]. split; [|split; [lia | reflexivity]].
  destruct rate; [reflexivity | apply Nat.mod_0_l; lia].
Qed.

(** ** the four sampler bodies: real sponge = tape of the first N bytes of the stream *)
Section Bridge.
  Variables (m : list Z) (N : nat) (st : kstate).

  Theorem uniform_from_real fuel a :
    sq_inv 168 st m 0 -> ((5 + fuel) * 168 <= N)%nat ->
    uniform_from real_sq128 fuel st a = uniform_from (tape_sq 168) fuel (S_shake 168 m N) a.
  Proof.
    intros Hi HN. rewrite real_sq128_gsq.
    apply (uniform_from_param (gsq 168) (tape_sq 168) (sim 168 m N)) with (b := (5 + fuel)%nat).
    - intros b b' s1 s2 H Hle. exact (sim_mono 168 m N b b' s1 s2 H Hle).
    - intros b n s1 s2 H Hn. exact (sim_step 168 m N b n s1 s2 rate_ok_168 H Hn).
    - apply sim_start; assumption.
    - lia.
  Qed.

  Theorem uniform_eta_from_real eta fuel a :
    sq_inv 136 st m 0 -> ((1 + fuel) * 136 <= N)%nat ->
    uniform_eta_from real_sq256 eta fuel st a = uniform_eta_from (tape_sq 136) eta fuel (S_shake 136 m N) a.
  Proof.
    intros Hi HN. rewrite real_sq256_gsq.
    apply (uniform_eta_from_param (gsq 136) (tape_sq 136) (sim 136 m N)) with (b := (1 + fuel)%nat).
    - intros b b' s1 s2 H Hle. exact (sim_mono 136 m N b b' s1 s2 H Hle).
    - intros b n s1 s2 H Hn. exact (sim_step 136 m N b n s1 s2 rate_ok_136 H Hn).
    - apply sim_start; assumption.
    - lia.
  Qed.

  Theorem uniform_gamma1_from_real g1 :
    sq_inv 136 st m 0 -> (680 <= N)%nat ->
    uniform_gamma1_from real_sq256 g1 st = uniform_gamma1_from (tape_sq 136) g1 (S_shake 136 m N).
  Proof.
    intros Hi HN. rewrite real_sq256_gsq.
    apply (uniform_gamma1_from_param (gsq 136) (tape_sq 136) (sim 136 m N)) with (b := 5%nat).
    - intros b b' s1 s2 H Hle. exact (sim_mono 136 m N b b' s1 s2 H Hle).
    - intros b n s1 s2 H Hn. exact (sim_step 136 m N b n s1 s2 rate_ok_136 H Hn).
    - apply sim_start; [assumption | lia].
    - lia.
  Qed.

  Theorem challenge_from_real tau fuel :
    sq_inv 136 st m 0 -> ((1 + Z.to_nat tau * fuel) * 136 <= N)%nat ->
    challenge_from real_sq256 tau fuel st = challenge_from (tape_sq 136) tau fuel (S_shake 136 m N).
  Proof.
    intros Hi HN. rewrite real_sq256_gsq.
    apply (challenge_from_param (gsq 136) (tape_sq 136) (sim 136 m N))
      with (b := (1 + Z.to_nat tau * fuel)%nat).
    - intros b b' s1 s2 H Hle. exact (sim_mono 136 m N b b' s1 s2 H Hle).
    - intros b n s1 s2 H Hn. exact (sim_step 136 m N b n s1 s2 rate_ok_136 H Hn).
    - apply sim_start; assumption.
    - lia.
  Qed.
End Bridge.

(** * 3. The samplers as functions of (seed, nonce) *)

(** the XOF input of the stream functions: seed prefix followed by the two nonce bytes (little endian) *)
Definition xof_in (slen : nat) (seed : list Z) (nonce : Z) : list Z :=
  firstn slen seed ++ [nonce mod 256; (nonce / 256) mod 256].

(** enough bytes of stream for every block a sampler can request with its fuel *)
Definition N_UNIFORM : nat := ((5 + SAMPLER_FUEL) * 168)%nat.
Definition N_ETA : nat := ((1 + SAMPLER_FUEL) * 136)%nat.
Definition N_CHALLENGE (tau : Z) : nat := ((1 + Z.to_nat tau * SAMPLER_FUEL) * 136)%nat.

(** ** the samplers of the model are the tape samplers on a prefix of the real SHAKE stream *)
Lemma poly_uniform_tape a seed nonce N :
  32 <= zlen seed -> Forall is_byte (firstn 32 seed) -> (N_UNIFORM <= N)%nat ->
  poly_uniform a seed nonce
  = uniform_from (tape_sq 168) SAMPLER_FUEL (S_shake 168 (xof_in 32 seed nonce) N) a.
Proof.
  intros Hs Hb HN. unfold poly_uniform.
  destruct (shake128_stream_init_ok seed nonce Hs Hb) as (st & E & Hi). rewrite E. cbn [bind].
  exact (uniform_from_real (xof_in 32 seed nonce) N st SAMPLER_FUEL a Hi HN).
Qed.

Lemma poly_uniform_eta_tape eta a seed nonce N :
  64 <= zlen seed -> Forall is_byte (firstn 64 seed) -> (N_ETA <= N)%nat ->
  poly_uniform_eta eta a seed nonce
  = uniform_eta_from (tape_sq 136) eta SAMPLER_FUEL (S_shake 136 (xof_in 64 seed nonce) N) a.
Proof.
  intros Hs Hb HN. unfold poly_uniform_eta.
  destruct (shake256_stream_init_ok seed nonce Hs Hb) as (st & E & Hi). rewrite E. cbn [bind].
  exact (uniform_eta_from_real (xof_in 64 seed nonce) N st eta SAMPLER_FUEL a Hi HN).
Qed.

Lemma poly_uniform_gamma1_tape g1 seed nonce N :
  64 <= zlen seed -> Forall is_byte (firstn 64 seed) -> (680 <= N)%nat ->
  poly_uniform_gamma1 g1 seed nonce
  = uniform_gamma1_from (tape_sq 136) g1 (S_shake 136 (xof_in 64 seed nonce) N).
Proof.
  intros Hs Hb HN. unfold poly_uniform_gamma1.
  destruct (shake256_stream_init_ok seed nonce Hs Hb) as (st & E & Hi). rewrite E. cbn [bind].
  exact (uniform_gamma1_from_real (xof_in 64 seed nonce) N st g1 Hi HN).
Qed.

Lemma challenge_init_ok ct seed :
  0 <= ct <= zlen seed -> Forall is_byte (firstn (Z.to_nat ct) seed) ->
  exists st, (do st <- shake256_absorb kinit seed ct; shake256_finalize st) = Ok st
             /\ sq_inv 136 st (firstn (Z.to_nat ct) seed) 0.
Proof.
  intros Hc Hb.
  destruct (absorb_inv_gen 136 kinit [] seed ct rate_ok_136 (init_inv 136 ltac:(lia)) Hc Hb)
    as (st1 & E1 & I1).
  cbn [app] in I1.
  destruct (finalize_inv 136 st1 _ rate_ok_136 I1) as (st2 & E2 & I2).
  exists st2. split; [|exact I2].
  unfold shake256_absorb, shake256_finalize. change SHAKE256_RATE with (Z.of_nat 136).
  rewrite E1. cbn [bind]. exact E2.
Qed.

Lemma poly_challenge_tape tau ct seed N :
  0 <= ct <= zlen seed -> Forall is_byte (firstn (Z.to_nat ct) seed) -> (N_CHALLENGE tau <= N)%nat ->
  poly_challenge tau ct seed
  = challenge_from (tape_sq 136) tau SAMPLER_FUEL (S_shake 136 (firstn (Z.to_nat ct) seed) N).
Proof.
  intros Hc Hb HN. unfold poly_challenge.
  destruct (challenge_init_ok ct seed Hc Hb) as (st & E & Hi).
  destruct (shake256_absorb kinit seed ct) as [st1| |]; cbn [bind] in E |- *; try discriminate E.
  rewrite E. cbn [bind].
  exact (challenge_from_real (firstn (Z.to_nat ct) seed) N st tau SAMPLER_FUEL Hi HN).
Qed.

(** ** 3.1 poly_uniform = RejNTTPoly of the SHAKE128 stream *)

(** [p] is the first 256 accepted values of the stream [H], which are found within the first k blocks,
    k >= 5 least (the implementation always squeezes 5 blocks first) *)
Definition rej_stream_poly (smp : list Z -> list Z) (H : nat -> list Z) (rate k0 kmax : nat) (p : list Z) : Prop :=
  exists k, (k0 <= k <= kmax)%nat /\
    p = firstn 256 (smp (H (k * rate)%nat)) /\
    (256 <= length (smp (H (k * rate)%nat)))%nat /\
    (forall k', (k0 <= k' < k)%nat -> (length (smp (H (k' * rate)%nat)) < 256)%nat).

Theorem poly_uniform_ok a0 seed nonce p :
  length a0 = 256%nat -> 32 <= zlen seed -> Forall is_byte (firstn 32 seed) ->
  poly_uniform a0 seed nonce = Ok p ->
  rej_stream_poly S_rej_ntt_stream (S_shake 168 (xof_in 32 seed nonce)) 168 5 (5 + SAMPLER_FUEL) p
  /\ length p = 256%nat /\ Forall (fun x => 0 <= x < Q) p.
Proof.
  intros Ha Hs Hb H.
  rewrite (poly_uniform_tape a0 seed nonce N_UNIFORM Hs Hb (le_n _)) in H.
  pose proof (S_shake_bytes 168 (xof_in 32 seed nonce) N_UNIFORM ltac:(lia)) as Hbytes.
  pose proof (S_shake_length 168 (xof_in 32 seed nonce) N_UNIFORM ltac:(lia)) as Hlen.
  destruct (uniform_tape_ok _ _ _ _ Hbytes Ha H) as (k & K1 & K2 & K3 & K4 & K5 & K6 & K7 & K8).
  rewrite Hlen in K2.
  rewrite S_shake_firstn in K3, K6 by (try exact K2; lia).
  split; [|split; assumption].
  exists k. split; [lia|]. split; [exact K3|]. split; [exact K6|].
  intros k' Hk'. specialize (K7 k' Hk'). rewrite S_shake_firstn in K7 by (try nia; lia). exact K7.
Qed.

Theorem poly_uniform_complete a0 seed nonce p :
  length a0 = 256%nat -> 32 <= zlen seed -> Forall is_byte (firstn 32 seed) ->
  rej_stream_poly S_rej_ntt_stream (S_shake 168 (xof_in 32 seed nonce)) 168 5 (5 + SAMPLER_FUEL) p ->
  poly_uniform a0 seed nonce = Ok p.
Proof.
  intros Ha Hs Hb (k & K1 & -> & K3 & K4).
  rewrite (poly_uniform_tape a0 seed nonce N_UNIFORM Hs Hb (le_n _)).
  pose proof (S_shake_bytes 168 (xof_in 32 seed nonce) N_UNIFORM ltac:(lia)) as Hbytes.
  pose proof (S_shake_length 168 (xof_in 32 seed nonce) N_UNIFORM ltac:(lia)) as Hlen.
  assert (K2 : (k * 168 <= N_UNIFORM)%nat) by (unfold N_UNIFORM; nia).
  set (tape := S_shake 168 (xof_in 32 seed nonce) N_UNIFORM) in *.
  assert (E : forall k', (k' <= k)%nat ->
            S_shake 168 (xof_in 32 seed nonce) (k' * 168) = firstn (k' * 168) tape).
  { intros k' Hk'. symmetry. apply S_shake_firstn; [lia | nia]. }
  rewrite (E k (le_n _)) in K3 |- *.
  apply (uniform_tape_complete tape SAMPLER_FUEL a0 k Hbytes Ha); try lia; try exact K3.
  intros k' Hk'. rewrite <- (E k') by lia. apply K4. exact Hk'.
Qed.

(** the same polynomial, without mentioning the block count: the first 256 accepted values of ANY
    prefix of the stream that is at least as long as what the fuel allows to read *)
Lemma rej_stream_poly_prefix smp (H : nat -> list Z) rate k0 kmax p :
  (forall j l1 l2, length l1 = (j * rate)%nat -> smp (l1 ++ l2) = smp l1 ++ smp l2) ->
  (forall n N, (n <= N)%nat -> firstn n (H N) = H n) ->
  (forall n, length (H n) = n) ->
  rej_stream_poly smp H rate k0 kmax p ->
  forall N, (kmax * rate <= N)%nat -> p = firstn 256 (smp (H N)).
Proof.
  intros Happ Hpre Hlen (k & K1 & -> & K3 & _) N HN.
  assert (Hk : (k * rate <= N)%nat) by nia.
  rewrite <- (firstn_skipn (k * rate) (H N)). rewrite (Hpre _ _ Hk).
  rewrite (Happ k) by apply Hlen.
  rewrite firstn_app. replace (256 - length (smp (H (k * rate)%nat)))%nat with 0%nat by lia.
  cbn [firstn]. rewrite app_nil_r. reflexivity.
Qed.

Corollary poly_uniform_stream a0 seed nonce p N :
  length a0 = 256%nat -> 32 <= zlen seed -> Forall is_byte (firstn 32 seed) ->
  poly_uniform a0 seed nonce = Ok p -> (N_UNIFORM <= N)%nat ->
  p = firstn 256 (S_rej_ntt_stream (S_shake 168 (xof_in 32 seed nonce) N)).
Proof.
  intros Ha Hs Hb H HN.
  destruct (poly_uniform_ok a0 seed nonce p Ha Hs Hb H) as (Hp & _).
  apply (rej_stream_poly_prefix S_rej_ntt_stream (S_shake 168 (xof_in 32 seed nonce)) 168 5 (5 + SAMPLER_FUEL) p);
    try assumption.
  - exact S_rej_ntt_app168.
  - intros n N' Hn. apply S_shake_firstn; [lia | exact Hn].
  - intros n. apply S_shake_length. lia.
Qed.

(** ** 3.2 poly_uniform_eta = RejBoundedPoly of the SHAKE256 stream *)
Theorem poly_uniform_eta_ok eta a0 seed nonce p :
  eta = 2 \/ eta = 4 ->
  length a0 = 256%nat -> 64 <= zlen seed -> Forall is_byte (firstn 64 seed) ->
  poly_uniform_eta eta a0 seed nonce = Ok p ->
  rej_stream_poly (S_rej_bounded_stream eta) (S_shake 136 (xof_in 64 seed nonce)) 136 1 (1 + SAMPLER_FUEL) p
  /\ length p = 256%nat /\ Forall (fun x => - eta <= x <= eta) p.
Proof.
  intros He Ha Hs Hb H.
  rewrite (poly_uniform_eta_tape eta a0 seed nonce N_ETA Hs Hb (le_n _)) in H.
  pose proof (S_shake_bytes 136 (xof_in 64 seed nonce) N_ETA ltac:(lia)) as Hbytes.
  pose proof (S_shake_length 136 (xof_in 64 seed nonce) N_ETA ltac:(lia)) as Hlen.
  destruct (uniform_eta_tape_ok _ _ _ _ _ He Hbytes Ha H) as (k & K1 & K2 & K3 & K4 & K5 & K6 & K7 & K8).
  rewrite Hlen in K2.
  rewrite S_shake_firstn in K3, K6 by (try exact K2; lia).
  split; [|split; assumption].
  exists k. split; [lia|]. split; [exact K3|]. split; [exact K6|].
  intros k' Hk'. specialize (K7 k' Hk'). rewrite S_shake_firstn in K7 by (try nia; lia). exact K7.
Qed.

Theorem poly_uniform_eta_complete eta a0 seed nonce p :
  eta = 2 \/ eta = 4 ->
  length a0 = 256%nat -> 64 <= zlen seed -> Forall is_byte (firstn 64 seed) ->
  rej_stream_poly (S_rej_bounded_stream eta) (S_shake 136 (xof_in 64 seed nonce)) 136 1 (1 + SAMPLER_FUEL) p ->
  poly_uniform_eta eta a0 seed nonce = Ok p.
Proof.
  intros He Ha Hs Hb (k & K1 & -> & K3 & K4).
  rewrite (poly_uniform_eta_tape eta a0 seed nonce N_ETA Hs Hb (le_n _)).
  pose proof (S_shake_bytes 136 (xof_in 64 seed nonce) N_ETA ltac:(lia)) as Hbytes.
  pose proof (S_shake_length 136 (xof_in 64 seed nonce) N_ETA ltac:(lia)) as Hlen.
  assert (K2 : (k * 136 <= N_ETA)%nat) by (unfold N_ETA; nia).
  set (tape := S_shake 136 (xof_in 64 seed nonce) N_ETA) in *.
  assert (E : forall k', (k' <= k)%nat ->
            S_shake 136 (xof_in 64 seed nonce) (k' * 136) = firstn (k' * 136) tape).
  { intros k' Hk'. symmetry. apply S_shake_firstn; [lia | nia]. }
  rewrite (E k (le_n _)) in K3 |- *.
  apply (uniform_eta_tape_complete eta tape SAMPLER_FUEL a0 k He Hbytes Ha); try lia; try exact K3.
  intros k' Hk'. rewrite <- (E k') by lia. apply K4. exact Hk'.
Qed.

Corollary poly_uniform_eta_stream eta a0 seed nonce p N :
  eta = 2 \/ eta = 4 ->
  length a0 = 256%nat -> 64 <= zlen seed -> Forall is_byte (firstn 64 seed) ->
  poly_uniform_eta eta a0 seed nonce = Ok p -> (N_ETA <= N)%nat ->
  p = firstn 256 (S_rej_bounded_stream eta (S_shake 136 (xof_in 64 seed nonce) N)).
Proof.
  intros He Ha Hs Hb H HN.
  destruct (poly_uniform_eta_ok eta a0 seed nonce p He Ha Hs Hb H) as (Hp & _).
  apply (rej_stream_poly_prefix (S_rej_bounded_stream eta) (S_shake 136 (xof_in 64 seed nonce)) 136 1
           (1 + SAMPLER_FUEL) p); try assumption.
  - exact (S_rej_bounded_app136 eta).
  - intros n N' Hn. apply S_shake_firstn; [lia | exact Hn].
  - intros n. apply S_shake_length. lia.
Qed.

(** ** 3.3 poly_uniform_gamma1 = BitUnpack of the first 5 blocks of the SHAKE256 stream; no rejection *)
Lemma uniform_gamma1_tape_eq g1 tape : length tape = 680%nat ->
  uniform_gamma1_from (tape_sq 136) g1 tape = z_unpack g1 tape.
Proof.
  intros Hl. unfold uniform_gamma1_from, tape_sq. change (5 * 136) with 680.
  unfold zlen. rewrite Hl. change (Z.of_nat 680 <? 680) with false. cbv iota. cbn [bind].
  change (Z.to_nat 680) with 680%nat. rewrite firstn_all2 by lia. reflexivity.
Qed.

Theorem poly_uniform_gamma1_ok g1 seed nonce :
  g1 = 131072 \/ g1 = 524288 -> 64 <= zlen seed -> Forall is_byte (firstn 64 seed) ->
  let y := BitUnpack (S_shake 136 (xof_in 64 seed nonce) 680) (g1 - 1) g1 in
  poly_uniform_gamma1 g1 seed nonce = Ok y
  /\ length y = 256%nat /\ Forall (fun x => - g1 < x <= g1) y.
Proof.
  intros Hg Hs Hb y.
  pose proof (S_shake_bytes 136 (xof_in 64 seed nonce) 680 ltac:(lia)) as Hbytes.
  pose proof (S_shake_length 136 (xof_in 64 seed nonce) 680 ltac:(lia)) as Hlen.
  assert (E : poly_uniform_gamma1 g1 seed nonce = Ok y).
  { rewrite (poly_uniform_gamma1_tape g1 seed nonce 680 Hs Hb (le_n _)).
    rewrite uniform_gamma1_tape_eq by exact Hlen. subst y.
    destruct Hg as [-> | ->].
    - apply (z17_unpack_fips _ Hbytes). rewrite Hlen. lia.
    - apply (z19_unpack_fips _ Hbytes). rewrite Hlen. lia. }
  split; [exact E|].
  destruct (uniform_gamma1_range g1 _ Hg Hbytes ltac:(unfold zlen; rewrite Hlen; lia)) as (p & E' & L & Rg).
  rewrite <- (poly_uniform_gamma1_tape g1 seed nonce 680 Hs Hb (le_n _)) in E'.
  rewrite E in E'. injection E' as <-. split; assumption.
Qed.

(** ** 3.4 poly_challenge = SampleInBall of the SHAKE256 stream of the first ct seed bytes *)
Theorem poly_challenge_ok tau ct seed c :
  0 <= tau <= 256 -> 0 <= ct <= zlen seed -> Forall is_byte (firstn (Z.to_nat ct) seed) ->
  poly_challenge tau ct seed = Ok c ->
  let s := S_shake 136 (firstn (Z.to_nat ct) seed) (N_CHALLENGE tau) in
  length c = 256%nat /\ ternary c /\ weight c = tau /\
  S_sample_in_ball tau (firstn 8 s) (skipn 8 s) = Some c.
Proof.
  intros Ht Hc Hb H s.
  rewrite (poly_challenge_tape tau ct seed (N_CHALLENGE tau) Hc Hb (le_n _)) in H.
  apply (challenge_tape_ok s tau SAMPLER_FUEL c); try assumption.
  apply S_shake_bytes. lia.
Qed.

(** more stream does not change SampleInBall once it has succeeded *)
Lemma S_next_le_ext i ext : forall bs j bs',
  S_next_le i bs = Some (j, bs') -> S_next_le i (bs ++ ext) = Some (j, bs' ++ ext).
Proof.
  induction bs as [|b r IH]; intros j bs' H; cbn [S_next_le app] in *; [discriminate|].
  destruct (b <=? i); [injection H as <- <-; reflexivity | apply IH; exact H].
Qed.

Lemma S_ball_loop_ext tau h ext : forall is bs c c',
  S_ball_loop is tau h bs c = Some c' -> S_ball_loop is tau h (bs ++ ext) c = Some c'.
Proof.
  induction is as [|i is IH]; intros bs c c' H; cbn [S_ball_loop] in *; [exact H|].
  destruct (S_next_le i bs) as [[j bs']|] eqn:E; [|discriminate].
  rewrite (S_next_le_ext i ext bs j bs' E). apply IH. exact H.
Qed.

Corollary poly_challenge_stream tau ct seed c N :
  0 <= tau <= 256 -> 0 <= ct <= zlen seed -> Forall is_byte (firstn (Z.to_nat ct) seed) ->
  poly_challenge tau ct seed = Ok c -> (N_CHALLENGE tau <= N)%nat ->
  let s := S_shake 136 (firstn (Z.to_nat ct) seed) N in
  S_sample_in_ball tau (firstn 8 s) (skipn 8 s) = Some c.
Proof.
  intros Ht Hc Hb H HN s.
  destruct (poly_challenge_ok tau ct seed c Ht Hc Hb H) as (_ & _ & _ & E).
  set (m := firstn (Z.to_nat ct) seed) in *.
  assert (H8 : (8 <= N_CHALLENGE tau)%nat) by (unfold N_CHALLENGE; lia).
  assert (Hs : s = S_shake 136 m (N_CHALLENGE tau) ++ skipn (N_CHALLENGE tau) s).
  { rewrite <- (firstn_skipn (N_CHALLENGE tau) s) at 1. f_equal. apply S_shake_firstn; [lia | exact HN]. }
  assert (Hl : length (S_shake 136 m (N_CHALLENGE tau)) = N_CHALLENGE tau) by (apply S_shake_length; lia).
  rewrite Hs.
  rewrite firstn_app, skipn_app, Hl.
  replace (8 - N_CHALLENGE tau)%nat with 0%nat by lia. cbn [firstn skipn]. rewrite app_nil_r.
  unfold S_sample_in_ball in *. apply S_ball_loop_ext. exact E.
Qed.

(** * 4. No Panic: with byte seeds of sufficient length the samplers return [Ok] or [OutOfFuel] *)

Lemma gen_loop_no_panic rate smp : forall fuel st acc,
  (fuel * rate <= length st)%nat -> gen_loop rate smp fuel st acc <> Panic.
Proof.
  induction fuel as [|f IH]; intros st acc Hl; cbn [gen_loop].
  - destruct (length acc <? 256)%nat; discriminate.
  - destruct (length acc <? 256)%nat; [|discriminate].
    destruct (Nat.ltb_spec (length st) rate) as [Hlt|Hge]; [nia|].
    apply IH. rewrite skipn_length. nia.
Qed.

Theorem poly_uniform_no_panic a0 seed nonce :
  length a0 = 256%nat -> 32 <= zlen seed -> Forall is_byte (firstn 32 seed) ->
  poly_uniform a0 seed nonce <> Panic.
Proof.
  intros Ha Hs Hb.
  rewrite (poly_uniform_tape a0 seed nonce N_UNIFORM Hs Hb (le_n _)).
  pose proof (S_shake_bytes 168 (xof_in 32 seed nonce) N_UNIFORM ltac:(lia)) as Hbytes.
  pose proof (S_shake_length 168 (xof_in 32 seed nonce) N_UNIFORM ltac:(lia)) as Hlen.
  rewrite uniform_from_gen; [| exact Hbytes | exact Ha | unfold zlen; rewrite Hlen; unfold N_UNIFORM; lia].
  apply gen_loop_no_panic. rewrite skipn_length, Hlen. unfold N_UNIFORM. lia.
Qed.

Theorem poly_uniform_eta_no_panic eta a0 seed nonce :
  eta = 2 \/ eta = 4 ->
  length a0 = 256%nat -> 64 <= zlen seed -> Forall is_byte (firstn 64 seed) ->
  poly_uniform_eta eta a0 seed nonce <> Panic.
Proof.
  intros He Ha Hs Hb.
  rewrite (poly_uniform_eta_tape eta a0 seed nonce N_ETA Hs Hb (le_n _)).
  pose proof (S_shake_bytes 136 (xof_in 64 seed nonce) N_ETA ltac:(lia)) as Hbytes.
  pose proof (S_shake_length 136 (xof_in 64 seed nonce) N_ETA ltac:(lia)) as Hlen.
  rewrite uniform_eta_from_gen; [| exact He | exact Hbytes | exact Ha | unfold zlen; rewrite Hlen; unfold N_ETA; lia].
  apply gen_loop_no_panic. rewrite skipn_length, Hlen. unfold N_ETA. lia.
Qed.

Theorem poly_uniform_gamma1_no_panic g1 seed nonce :
  g1 = 131072 \/ g1 = 524288 -> 64 <= zlen seed -> Forall is_byte (firstn 64 seed) ->
  poly_uniform_gamma1 g1 seed nonce <> Panic.
Proof.
  intros Hg Hs Hb. destruct (poly_uniform_gamma1_ok g1 seed nonce Hg Hs Hb) as (E & _).
  rewrite E. discriminate.
Qed.

(** challenge over a tape that is long enough for the fuel *)
Lemma tape_sq_1 st : (136 <= length st)%nat -> tape_sq 136 1 st = Ok (firstn 136 st, skipn 136 st).
Proof.
  intros H. unfold tape_sq. change (1 * 136) with 136.
  destruct (Z.ltb_spec (zlen st) 136) as [Hlt|_]; [unfold zlen in Hlt; lia|]. reflexivity.
Qed.

Lemma challenge_next_np : forall fuel st buf pos i,
  length buf = 136%nat -> 0 <= pos <= 136 -> (fuel * 136 <= length st)%nat ->
  match challenge_next (tape_sq 136) fuel st buf pos i with
  | Ok (_, st1, _, _) => (length st <= length st1 + fuel * 136)%nat
  | Panic => False
  | OutOfFuel => True
  end.
Proof.
  induction fuel as [|f IH]; intros st buf pos i Hbuf Hpos Hl; cbn [challenge_next]; [exact I|].
  destruct (Z.leb_spec 136 pos) as [Hp|Hp].
  - rewrite tape_sq_1 by lia. cbn [bind].
    assert (Hf : length (firstn 136 st) = 136%nat) by (rewrite firstn_length; lia).
    rewrite PSample.get_ok by (unfold zlen; rewrite Hf; lia). cbn [bind].
    destruct (S_at (firstn 136 st) 0 <=? i).
    + rewrite skipn_length. lia.
    + pose proof (IH (skipn 136 st) (firstn 136 st) (0 + 1) i Hf ltac:(lia)
                    ltac:(rewrite skipn_length; lia)) as H.
      destruct (challenge_next (tape_sq 136) f (skipn 136 st) (firstn 136 st) (0 + 1) i)
        as [[[[b st1] buf1] pos1]| |]; try exact H.
      rewrite skipn_length in H. lia.
  - cbn [bind]. rewrite PSample.get_ok by (unfold zlen; rewrite Hbuf; lia). cbn [bind].
    destruct (S_at buf pos <=? i); [lia|].
    pose proof (IH st buf (pos + 1) i Hbuf ltac:(lia) ltac:(lia)) as H.
    destruct (challenge_next (tape_sq 136) f st buf (pos + 1) i) as [[[[b st1] buf1] pos1]| |]; try exact H.
    lia.
Qed.

Lemma challenge_loop_np fuel : forall is st buf pos signs c,
  Forall is_byte st -> Forall is_byte buf -> length buf = 136%nat -> 0 <= pos <= 136 ->
  Forall (fun i => 0 <= i < 256) is -> length c = 256%nat ->
  (length is * fuel * 136 <= length st)%nat ->
  challenge_loop (tape_sq 136) fuel is st buf pos signs c <> Panic.
Proof.
  induction is as [|i is IH]; intros st buf pos signs c Hst Hbb Hbuf Hpos His Hc Hl; cbn [challenge_loop];
    [discriminate|].
  cbn [length] in Hl. inversion His as [|? ? Hi His']; subst.
  pose proof (challenge_next_np fuel st buf pos i Hbuf Hpos ltac:(nia)) as Hnp.
  destruct (challenge_next (tape_sq 136) fuel st buf pos i) as [[[[b st1] buf1] pos1]| |] eqn:E;
    cbn [bind]; [|contradiction|discriminate].
  destruct (challenge_next_ok fuel st buf pos i b st1 buf1 pos1 Hst Hbb Hbuf Hpos E)
    as (N1 & N2 & N3 & N4 & N5 & _).
  rewrite PSample.get_ok by (unfold zlen; rewrite Hc; lia). cbn [bind].
  rewrite PSample.set_ok by (unfold zlen; rewrite Hc; lia). cbn [bind].
  assert (Hs1 : 0 <= Z.land signs 1 < 2).
  { change (Z.land signs 1) with (Z.land signs (Z.ones 1)). apply land_ones_range. lia. }
  unfold i32_mul. rewrite chk_s_ok by (change (2 ^ (32 - 1)) with 2147483648; lia). cbn [bind].
  rewrite i32_sub_ok by lia. cbn [bind].
  rewrite PSample.set_ok by (unfold zlen, S_upd; rewrite upd_nat_length, Hc; lia). cbn [bind].
  apply IH; try assumption.
  - unfold S_upd. rewrite !upd_nat_length. exact Hc.
  - nia.
Qed.

Lemma challenge_tape_no_panic tau fuel tape :
  Forall is_byte tape -> 0 <= tau <= 256 -> ((1 + Z.to_nat tau * fuel) * 136 <= length tape)%nat ->
  challenge_from (tape_sq 136) tau fuel tape <> Panic.
Proof.
  intros Hb Ht Hl. unfold challenge_from. rewrite tape_sq_1 by lia. cbn [bind].
  apply challenge_loop_np.
  - apply Forall_skipn'. exact Hb.
  - apply Forall_firstn'. exact Hb.
  - rewrite firstn_length. lia.
  - lia.
  - apply Forall_forall. intros i Hi. apply zrange_In in Hi. lia.
  - unfold repeatZ. rewrite repeat_length. reflexivity.
  - rewrite zrange_length, skipn_length. replace (256 - (256 - tau)) with tau by lia. lia.
Qed.

Theorem poly_challenge_no_panic tau ct seed :
  0 <= tau <= 256 -> 0 <= ct <= zlen seed -> Forall is_byte (firstn (Z.to_nat ct) seed) ->
  poly_challenge tau ct seed <> Panic.
Proof.
  intros Ht Hc Hb.
  rewrite (poly_challenge_tape tau ct seed (N_CHALLENGE tau) Hc Hb (le_n _)).
  apply challenge_tape_no_panic.
  - apply S_shake_bytes. lia.
  - exact Ht.
  - rewrite S_shake_length by lia. apply le_n.
Qed.

(** * 5. Vector level: ExpandA, ExpandS, ExpandMask *)

Lemma imapM_nth {A B} (f : Z -> A -> res B) l : forall k r j y,
  imapM f k l = Ok r -> nth_error r j = Some y ->
  exists x, nth_error l j = Some x /\ f (k + Z.of_nat j) x = Ok y.
Proof.
  induction l as [|x xs IH]; intros k r j y H Hj; cbn [imapM] in H.
  - injection H as <-. destruct j; discriminate Hj.
  - apply bind_ok in H as (y0 & E0 & H). apply bind_ok in H as (ys & Eys & H). injection H as <-.
    destruct j as [|j]; cbn [nth_error] in *.
    + injection Hj as <-. exists x. split; [reflexivity|]. rewrite Z.add_0_r. exact E0.
    + destruct (IH (k + 1) ys j y Eys Hj) as (x' & Hx' & E'). exists x'. split; [exact Hx'|].
      replace (k + Z.of_nat (S j)) with (k + 1 + Z.of_nat j) by lia. exact E'.
Qed.

Lemma imapM_no_panic {A B} (f : Z -> A -> res B) l : forall k,
  (forall j x, nth_error l j = Some x -> f (k + Z.of_nat j) x <> Panic) -> imapM f k l <> Panic.
Proof.
  induction l as [|x xs IH]; intros k H; cbn [imapM]; [discriminate|].
  pose proof (H 0%nat x eq_refl) as H0. rewrite Z.add_0_r in H0.
  destruct (f k x) as [y| |]; cbn [bind]; [|contradiction|discriminate].
  assert (H1 : imapM f (k + 1) xs <> Panic).
  { apply IH. intros j x' Hj. replace (k + 1 + Z.of_nat j) with (k + Z.of_nat (S j)) by lia.
    apply H. exact Hj. }
  destruct (imapM f (k + 1) xs) as [ys| |]; cbn [bind]; [discriminate|contradiction|discriminate].
Qed.

Lemma nth_error_repeat {A} (x y : A) n j : nth_error (repeat x n) j = Some y -> y = x /\ (j < n)%nat.
Proof.
  intros H. split.
  - apply nth_error_In in H. apply repeat_spec in H. exact H.
  - rewrite <- (repeat_length x n). apply nth_error_Some. congruence.
Qed.

Lemma zpoly_length : length zpoly = 256%nat.
Proof. unfold zpoly, repeatZ. rewrite repeat_length. reflexivity. Qed.

(** ** ExpandA: entry (i, j) is RejNTTPoly(rho || j || i) *)
Lemma xof_in_expandA rho i j : 0 <= i < 256 -> 0 <= j < 256 ->
  xof_in 32 rho (256 * i + j) = firstn 32 rho ++ [j; i].
Proof.
  intros Hi Hj. unfold xof_in. do 3 f_equal; [lia|]. f_equal. lia.
Qed.

Theorem matrix_expand_entries P mat0 rho mat :
  0 <= pK P <= 256 -> 0 <= pL P <= 256 ->
  length mat0 = Z.to_nat (pK P) -> (forall row, In row mat0 -> length row = Z.to_nat (pL P)) ->
  (forall row a, In row mat0 -> In a row -> length a = 256%nat) ->
  32 <= zlen rho -> Forall is_byte (firstn 32 rho) ->
  matrix_expand P mat0 rho = Ok mat ->
  length mat = Z.to_nat (pK P) /\
  forall i row, nth_error mat i = Some row ->
    length row = Z.to_nat (pL P) /\
    forall j p, nth_error row j = Some p ->
      rej_stream_poly S_rej_ntt_stream (S_shake 168 (firstn 32 rho ++ [Z.of_nat j; Z.of_nat i])) 168 5
                      (5 + SAMPLER_FUEL) p
      /\ length p = 256%nat /\ Forall (fun x => 0 <= x < Q) p.
Proof.
  intros HK HL Hm Hrows Hpolys Hs Hb H.
  rewrite matrix_expand_lift in H by assumption.
  split; [rewrite (imapM_length _ _ _ _ H); exact Hm|].
  intros i row Hrow.
  destruct (imapM_nth _ _ _ _ _ _ H Hrow) as (row0 & Hrow0 & Erow). rewrite Z.add_0_l in Erow.
  assert (Hin0 : In row0 mat0) by (eapply nth_error_In; exact Hrow0).
  assert (Hi : (i < Z.to_nat (pK P))%nat) by (rewrite <- Hm; apply nth_error_Some; congruence).
  split; [rewrite (imapM_length _ _ _ _ Erow); apply Hrows; exact Hin0|].
  intros j p Hp.
  destruct (imapM_nth _ _ _ _ _ _ Erow Hp) as (a0 & Ha0 & Ep). rewrite Z.add_0_l in Ep.
  assert (Hj : (j < Z.to_nat (pL P))%nat).
  { rewrite <- (Hrows row0 Hin0). apply nth_error_Some. congruence. }
  assert (Ha : length a0 = 256%nat) by (apply (Hpolys row0 a0 Hin0); eapply nth_error_In; exact Ha0).
  pose proof (poly_uniform_ok a0 rho (256 * Z.of_nat i + Z.of_nat j) p Ha Hs Hb Ep) as Hok.
  rewrite xof_in_expandA in Hok by lia. exact Hok.
Qed.

Lemma zmat_shape k l :
  length (zmat k l) = Z.to_nat k /\ (forall row, In row (zmat k l) -> length row = Z.to_nat l)
  /\ (forall row a, In row (zmat k l) -> In a row -> length a = 256%nat).
Proof.
  unfold zmat, zvec, repeatZ. split; [apply repeat_length|]. split.
  - intros row H. apply repeat_spec in H. subst row. apply repeat_length.
  - intros row a H Ha. apply repeat_spec in H. subst row. apply repeat_spec in Ha. subst a. exact zpoly_length.
Qed.

(** the call in keypair / sign / verify: [matrix_expand P (zmat K L) rho] *)
Corollary expandA_ok P rho mat :
  0 <= pK P <= 256 -> 0 <= pL P <= 256 -> 32 <= zlen rho -> Forall is_byte (firstn 32 rho) ->
  matrix_expand P (zmat (pK P) (pL P)) rho = Ok mat ->
  length mat = Z.to_nat (pK P) /\
  forall i row, nth_error mat i = Some row ->
    length row = Z.to_nat (pL P) /\
    forall j p, nth_error row j = Some p ->
      rej_stream_poly S_rej_ntt_stream (S_shake 168 (firstn 32 rho ++ [Z.of_nat j; Z.of_nat i])) 168 5
                      (5 + SAMPLER_FUEL) p
      /\ length p = 256%nat /\ Forall (fun x => 0 <= x < Q) p.
Proof.
  intros HK HL Hs Hb H. destruct (zmat_shape (pK P) (pL P)) as (S1 & S2 & S3).
  exact (matrix_expand_entries P _ rho mat HK HL S1 S2 S3 Hs Hb H).
Qed.

Theorem matrix_expand_no_panic P rho :
  0 <= pK P <= 256 -> 0 <= pL P <= 256 -> 32 <= zlen rho -> Forall is_byte (firstn 32 rho) ->
  matrix_expand P (zmat (pK P) (pL P)) rho <> Panic.
Proof.
  intros HK HL Hs Hb. destruct (zmat_shape (pK P) (pL P)) as (S1 & S2 & S3).
  rewrite matrix_expand_lift by assumption.
  apply imapM_no_panic. intros i row Hrow. apply imapM_no_panic. intros j a Ha.
  apply poly_uniform_no_panic; try assumption.
  apply (S3 row a); eapply nth_error_In; eassumption.
Qed.

(** ** ExpandS: component i of the vector sampled from nonce n is RejBoundedPoly(rho' || n + i) *)
Theorem vec_uniform_eta_entries P n v0 seed nonce v :
  pETA P = 2 \/ pETA P = 4 ->
  length v0 = Z.to_nat n -> Forall (fun a => length a = 256%nat) v0 ->
  0 <= n -> 0 <= nonce -> nonce + n <= 65535 ->
  64 <= zlen seed -> Forall is_byte (firstn 64 seed) ->
  vec_uniform_eta P n v0 seed nonce = Ok v ->
  length v = Z.to_nat n /\
  forall i p, nth_error v i = Some p ->
    rej_stream_poly (S_rej_bounded_stream (pETA P)) (S_shake 136 (xof_in 64 seed (nonce + Z.of_nat i))) 136 1
                    (1 + SAMPLER_FUEL) p
    /\ length p = 256%nat /\ Forall (fun x => - pETA P <= x <= pETA P) p.
Proof.
  intros He Hl H256 Hn Hc Hbd Hs Hb H.
  rewrite vec_uniform_eta_lift in H by assumption.
  split; [rewrite (imapM_length _ _ _ _ H); exact Hl|].
  intros i p Hp.
  destruct (imapM_nth _ _ _ _ _ _ H Hp) as (a0 & Ha0 & Ep). rewrite Z.add_0_l in Ep.
  assert (Ha : length a0 = 256%nat).
  { rewrite Forall_forall in H256. apply H256. eapply nth_error_In; exact Ha0. }
  exact (poly_uniform_eta_ok (pETA P) a0 seed (nonce + Z.of_nat i) p He Ha Hs Hb Ep).
Qed.

Lemma zvec_shape n : length (zvec n) = Z.to_nat n /\ Forall (fun a => length a = 256%nat) (zvec n).
Proof.
  unfold zvec, repeatZ. split; [apply repeat_length|].
  apply Forall_forall. intros a Ha. apply repeat_spec in Ha. subst a. exact zpoly_length.
Qed.

Corollary l_uniform_eta_ok P seed nonce v :
  pETA P = 2 \/ pETA P = 4 -> 0 <= pL P -> 0 <= nonce -> nonce + pL P <= 65535 ->
  64 <= zlen seed -> Forall is_byte (firstn 64 seed) ->
  l_uniform_eta P (zvec (pL P)) seed nonce = Ok v ->
  length v = Z.to_nat (pL P) /\
  forall i p, nth_error v i = Some p ->
    rej_stream_poly (S_rej_bounded_stream (pETA P)) (S_shake 136 (xof_in 64 seed (nonce + Z.of_nat i))) 136 1
                    (1 + SAMPLER_FUEL) p
    /\ length p = 256%nat /\ Forall (fun x => - pETA P <= x <= pETA P) p.
Proof.
  intros He Hn Hc Hbd Hs Hb H. destruct (zvec_shape (pL P)) as (S1 & S2).
  exact (vec_uniform_eta_entries P (pL P) _ seed nonce v He S1 S2 Hn Hc Hbd Hs Hb H).
Qed.

Corollary k_uniform_eta_ok P seed nonce v :
  pETA P = 2 \/ pETA P = 4 -> 0 <= pK P -> 0 <= nonce -> nonce + pK P <= 65535 ->
  64 <= zlen seed -> Forall is_byte (firstn 64 seed) ->
  k_uniform_eta P (zvec (pK P)) seed nonce = Ok v ->
  length v = Z.to_nat (pK P) /\
  forall i p, nth_error v i = Some p ->
    rej_stream_poly (S_rej_bounded_stream (pETA P)) (S_shake 136 (xof_in 64 seed (nonce + Z.of_nat i))) 136 1
                    (1 + SAMPLER_FUEL) p
    /\ length p = 256%nat /\ Forall (fun x => - pETA P <= x <= pETA P) p.
Proof.
  intros He Hn Hc Hbd Hs Hb H. destruct (zvec_shape (pK P)) as (S1 & S2).
  exact (vec_uniform_eta_entries P (pK P) _ seed nonce v He S1 S2 Hn Hc Hbd Hs Hb H).
Qed.

Theorem vec_uniform_eta_no_panic P n seed nonce :
  pETA P = 2 \/ pETA P = 4 -> 0 <= n -> 0 <= nonce -> nonce + n <= 65535 ->
  64 <= zlen seed -> Forall is_byte (firstn 64 seed) ->
  vec_uniform_eta P n (zvec n) seed nonce <> Panic.
Proof.
  intros He Hn Hc Hbd Hs Hb. destruct (zvec_shape n) as (S1 & S2).
  rewrite vec_uniform_eta_lift by assumption.
  apply imapM_no_panic. intros j a Ha. apply poly_uniform_eta_no_panic; try assumption.
  rewrite Forall_forall in S2. apply S2. eapply nth_error_In; exact Ha.
Qed.

(** ** ExpandMask: component i is BitUnpack(H(rho'' || L*kappa + i, 5 blocks), gamma1 - 1, gamma1); always Ok *)
Theorem l_uniform_gamma1_ok' P v seed kappa :
  pGAMMA1 P = 131072 \/ pGAMMA1 P = 524288 ->
  length v = Z.to_nat (pL P) -> 0 <= pL P -> 0 <= kappa -> pL P * kappa + pL P <= 65536 ->
  64 <= zlen seed -> Forall is_byte (firstn 64 seed) ->
  l_uniform_gamma1 P v seed kappa
  = Ok (map (fun i => BitUnpack (S_shake 136 (xof_in 64 seed (pL P * kappa + i)) 680)
                                (pGAMMA1 P - 1) (pGAMMA1 P))
            (zrange 0 (pL P))).
Proof.
  intros Hg Hl HL Hk Hbd Hs Hb.
  apply (l_uniform_gamma1_ok P v seed kappa
           (fun i => BitUnpack (S_shake 136 (xof_in 64 seed (pL P * kappa + i)) 680)
                               (pGAMMA1 P - 1) (pGAMMA1 P))); try assumption.
  intros i Hi. apply (poly_uniform_gamma1_ok (pGAMMA1 P) seed (pL P * kappa + i) Hg Hs Hb).
Qed.

Corollary l_uniform_gamma1_range P v seed kappa y :
  pGAMMA1 P = 131072 \/ pGAMMA1 P = 524288 ->
  length v = Z.to_nat (pL P) -> 0 <= pL P -> 0 <= kappa -> pL P * kappa + pL P <= 65536 ->
  64 <= zlen seed -> Forall is_byte (firstn 64 seed) ->
  l_uniform_gamma1 P v seed kappa = Ok y ->
  length y = Z.to_nat (pL P) /\
  Forall (fun p => length p = 256%nat /\ Forall (fun x => - pGAMMA1 P < x <= pGAMMA1 P) p) y.
Proof.
  intros Hg Hl HL Hk Hbd Hs Hb H.
  rewrite (l_uniform_gamma1_ok' P v seed kappa Hg Hl HL Hk Hbd Hs Hb) in H. injection H as <-.
  split; [rewrite map_length, zrange_length; f_equal; lia|].
  apply Forall_forall. intros p Hp. apply in_map_iff in Hp as (i & <- & _).
  apply (poly_uniform_gamma1_ok (pGAMMA1 P) seed (pL P * kappa + i) Hg Hs Hb).
Qed.

(** * 6. ExpandMask reads only the first 32*c bytes (c = 18 or 20 bits per coefficient) *)
Lemma BytesToBits_app v w : BytesToBits (v ++ w) = BytesToBits v ++ BytesToBits w.
Proof. unfold BytesToBits. rewrite map_app, concat_app. reflexivity. Qed.

Lemma BytesToBits_length v : length (BytesToBits v) = (8 * length v)%nat.
Proof.
  unfold BytesToBits. induction v as [|b v IH]; [reflexivity|].
  cbn [map concat]. rewrite app_length, IntegerToBits_length, IH. cbn [length]. lia.
Qed.

Lemma BitUnpack_n_prefix n v w a b :
  (n * bitlen (a + b) <= 8 * length v)%nat -> BitUnpack_n n (v ++ w) a b = BitUnpack_n n v a b.
Proof.
  intros H. unfold BitUnpack_n. apply map_ext_in. intros i Hi. apply in_seq in Hi.
  f_equal. unfold BitsToInteger. f_equal.
  rewrite BytesToBits_app. set (c := bitlen (a + b)) in *.
  assert (Hc : (i * c + c <= length (BytesToBits v))%nat) by (rewrite BytesToBits_length; nia).
  rewrite skipn_app, firstn_app, skipn_length.
  replace (c - (length (BytesToBits v) - i * c))%nat with 0%nat by lia.
  cbn [firstn]. apply app_nil_r.
Qed.

Definition polyz_bytes (g1 : Z) : nat := if g1 =? 131072 then 576%nat else 640%nat.

Theorem poly_uniform_gamma1_polyz g1 seed nonce :
  g1 = 131072 \/ g1 = 524288 -> 64 <= zlen seed -> Forall is_byte (firstn 64 seed) ->
  poly_uniform_gamma1 g1 seed nonce
  = Ok (BitUnpack (S_shake 136 (xof_in 64 seed nonce) (polyz_bytes g1)) (g1 - 1) g1).
Proof.
  intros Hg Hs Hb. destruct (poly_uniform_gamma1_ok g1 seed nonce Hg Hs Hb) as (E & _).
  rewrite E. f_equal.
  assert (Hn : (polyz_bytes g1 <= 680)%nat) by (destruct Hg as [-> | ->]; vm_compute; lia).
  rewrite <- (firstn_skipn (polyz_bytes g1) (S_shake 136 (xof_in 64 seed nonce) 680)).
  rewrite S_shake_firstn by (try exact Hn; lia).
  unfold BitUnpack. apply BitUnpack_n_prefix.
  rewrite S_shake_length by lia.
  destruct Hg as [-> | ->].
  - change (bitlen (131072 - 1 + 131072)) with 18%nat. change (polyz_bytes 131072) with 576%nat. lia.
  - change (bitlen (524288 - 1 + 524288)) with 20%nat. change (polyz_bytes 524288) with 640%nat. lia.
Qed.

(** * Assumptions *)
Print Assumptions uniform_from_param.
Print Assumptions challenge_from_param.
Print Assumptions sim_step.
Print Assumptions uniform_from_real.
Print Assumptions uniform_eta_from_real.
Print Assumptions uniform_gamma1_from_real.
Print Assumptions challenge_from_real.
Print Assumptions poly_uniform_ok.
Print Assumptions poly_uniform_complete.
Print Assumptions poly_uniform_stream.
Print Assumptions poly_uniform_eta_ok.
Print Assumptions poly_uniform_eta_complete.
Print Assumptions poly_uniform_eta_stream.
Print Assumptions poly_uniform_gamma1_ok.
Print Assumptions poly_uniform_gamma1_polyz.
Print Assumptions poly_challenge_ok.
Print Assumptions poly_challenge_stream.
Print Assumptions poly_uniform_no_panic.
Print Assumptions poly_uniform_eta_no_panic.
Print Assumptions poly_uniform_gamma1_no_panic.
Print Assumptions poly_challenge_no_panic.
Print Assumptions expandA_ok.
Print Assumptions matrix_expand_no_panic.
Print Assumptions l_uniform_eta_ok.
Print Assumptions k_uniform_eta_ok.
Print Assumptions vec_uniform_eta_no_panic.
Print Assumptions l_uniform_gamma1_ok'.
Print Assumptions l_uniform_gamma1_range.
