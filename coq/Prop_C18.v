(** C18 — Infinity-norm check is exact on reduced coefficients.
    Only property theorems here, closed by [exact] of lemmas proved in PNorm.v. 1047552 = (q-1)/8;
    the coefficient domain [-2^30, 2^30) contains the range [-6283009, 6283009] of the 32-bit reduction. *)
From DV Require Import Base MReduce MParams MPoly MPolyvec PLift PNorm.

Theorem C18_chknorm_exact : forall (a : list Z) (b : Z),
  Forall (fun x => -1073741824 <= x <= 1073741823) a -> b <= 1047552 ->
  chknorm a b = Ok (if existsb (fun x => b <=? Z.abs x) a then 1 else 0).
Proof. exact chknorm_exact. Qed.
Print Assumptions C18_chknorm_exact.

Theorem C18_chknorm_big : forall (a : list Z) (b : Z), 1047552 < b -> chknorm a b = Ok 1.
Proof. exact chknorm_big. Qed.
Print Assumptions C18_chknorm_big.

Theorem C18_l_chknorm_exact : forall (P : params) (v : list (list Z)) (b : Z),
  (forall a, In a v -> Forall (fun x => -1073741824 <= x <= 1073741823) a) ->
  b <= 1047552 -> length v = Z.to_nat (pL P) -> 0 <= pL P ->
  l_chknorm P v b = Ok (if existsb (fun a => existsb (fun x => b <=? Z.abs x) a) v then 1 else 0).
Proof. exact l_chknorm_exact. Qed.
Print Assumptions C18_l_chknorm_exact.

Theorem C18_k_chknorm_exact : forall (P : params) (v : list (list Z)) (b : Z),
  (forall a, In a v -> Forall (fun x => -1073741824 <= x <= 1073741823) a) ->
  b <= 1047552 -> length v = Z.to_nat (pK P) -> 0 <= pK P ->
  k_chknorm P v b = Ok (if existsb (fun a => existsb (fun x => b <=? Z.abs x) a) v then 1 else 0).
Proof. exact k_chknorm_exact. Qed.
Print Assumptions C18_k_chknorm_exact.

Theorem C18_vec_chknorm_big : forall (P : params) (v : list (list Z)) (b : Z), 1047552 < b ->
  (length v = Z.to_nat (pL P) -> 1 <= pL P -> l_chknorm P v b = Ok 1) /\
  (length v = Z.to_nat (pK P) -> 1 <= pK P -> k_chknorm P v b = Ok 1).
Proof. intros P v b H; split; intros; [apply l_chknorm_big | apply k_chknorm_big]; assumption. Qed.
Print Assumptions C18_vec_chknorm_big.

(** the signer's three rejection bounds and the verifier's acceptance bound are instances (all <= (q-1)/8) *)
Theorem C18_bounds_are_instances :
  norm_bounds_ok P_lvl2 /\ norm_bounds_ok P_lvl3 /\ norm_bounds_ok P_lvl5 /\
  norm_bounds_ok P_ml44 /\ norm_bounds_ok P_ml65 /\ norm_bounds_ok P_ml87.
Proof. exact norm_bounds_instances. Qed.
Print Assumptions C18_bounds_are_instances.

Example C18_nonvacuous :
  chknorm (repeat 0 255 ++ [-130994]) 130994 = Ok 1 /\ chknorm (repeat 0 255 ++ [130993]) 130994 = Ok 0 /\
  chknorm [6283009; -6283009] 1047552 = Ok 1 /\ chknorm [0] 1047553 = Ok 1 /\ chknorm [1073741824] 5 = Panic.
Proof. vm_compute. repeat split. Qed.
