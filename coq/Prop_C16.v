(** C16 — Bit-packing is the specification's encoding and is lossless.
    Only property theorems here, closed by [exact]/[apply] of lemmas proved in PPack.v / PPack2.v.
    SimpleBitPack / BitPack / SimpleBitUnpack / BitUnpack are FIPS 204 Alg. 16-19 defined on bit lists
    (IntegerToBits, BitsToBytes, BytesToBits, BitsToInteger) in PPack.v. Ranges: t1 in [0,2^10), t0 in (-2^12,2^12],
    eta in [-eta,eta], z in (-gamma1,gamma1], w1 in [0,64) resp. [0,16). *)
From DV Require Import Base MReduce MParams MPoly MPolyvec MPacking MSign PPack PPack2 PHint PKeyCodec.

Theorem C16_encoders_are_fips204 : forall a : list Z, length a = 256%nat ->
  (Forall t1_rng a -> t1_pack_bytes a = Ok (SimpleBitPack a (2 ^ 10 - 1))) /\
  (Forall t0_rng a -> t0_pack_bytes a = Ok (BitPack a (2 ^ 12 - 1) (2 ^ 12))) /\
  (Forall eta2_rng a -> eta_pack_bytes 2 a = Ok (BitPack a 2 2)) /\
  (Forall eta4_rng a -> eta_pack_bytes 4 a = Ok (BitPack a 4 4)) /\
  (Forall z17_rng a -> z_pack_bytes G17 a = Ok (BitPack a (G17 - 1) G17)) /\
  (Forall z19_rng a -> z_pack_bytes G19 a = Ok (BitPack a (G19 - 1) G19)) /\
  (Forall w16_rng a -> w1_pack_bytes true a = Ok (SimpleBitPack a 43)) /\
  (Forall w14_rng a -> w1_pack_bytes false a = Ok (SimpleBitPack a 15)).
Proof.
  intros a Hl; repeat split; intros H;
    first [ apply t1_pack_fips | apply t0_pack_fips | apply eta2_pack_fips | apply eta4_pack_fips
          | apply z17_pack_fips | apply z19_pack_fips | apply w16_pack_fips | apply w14_pack_fips ]; assumption.
Qed.
Print Assumptions C16_encoders_are_fips204.

Theorem C16_encoder_lengths : forall a : list Z, length a = 256%nat ->
  (Forall t1_rng a -> exists b, t1_pack_bytes a = Ok b /\ length b = 320%nat) /\
  (Forall t0_rng a -> exists b, t0_pack_bytes a = Ok b /\ length b = 416%nat) /\
  (Forall eta2_rng a -> exists b, eta_pack_bytes 2 a = Ok b /\ length b = 96%nat) /\
  (Forall eta4_rng a -> exists b, eta_pack_bytes 4 a = Ok b /\ length b = 128%nat) /\
  (Forall z17_rng a -> exists b, z_pack_bytes G17 a = Ok b /\ length b = 576%nat) /\
  (Forall z19_rng a -> exists b, z_pack_bytes G19 a = Ok b /\ length b = 640%nat) /\
  (Forall w16_rng a -> exists b, w1_pack_bytes true a = Ok b /\ length b = 192%nat) /\
  (Forall w14_rng a -> exists b, w1_pack_bytes false a = Ok b /\ length b = 128%nat).
Proof.
  intros a Hl; repeat split; intros H; eexists; 
    first [ apply (t1_pack_spec a H Hl) | apply (t0_pack_spec a H Hl) | apply (eta2_pack_spec a H Hl)
          | apply (eta4_pack_spec a H Hl) | apply (z17_pack_spec a H Hl) | apply (z19_pack_spec a H Hl)
          | apply (w16_pack_spec a H Hl) | apply (w14_pack_spec a H Hl) ].
Qed.
Print Assumptions C16_encoder_lengths.

(** the matching decoder returns the original values *)
Theorem C16_decode_encode : forall a b : list Z, length a = 256%nat ->
  (Forall t1_rng a -> t1_pack_bytes a = Ok b -> t1_unpack b = Ok a) /\
  (Forall t0_rng a -> t0_pack_bytes a = Ok b -> t0_unpack b = Ok a) /\
  (Forall eta2_rng a -> eta_pack_bytes 2 a = Ok b -> eta_unpack 2 b = Ok a) /\
  (Forall eta4_rng a -> eta_pack_bytes 4 a = Ok b -> eta_unpack 4 b = Ok a) /\
  (Forall z17_rng a -> z_pack_bytes G17 a = Ok b -> z_unpack G17 b = Ok a) /\
  (Forall z19_rng a -> z_pack_bytes G19 a = Ok b -> z_unpack G19 b = Ok a).
Proof.
  intros a b Hl; repeat split; intros H E;
    first [ apply (t1_unpack_pack a b H Hl E) | apply (t0_unpack_pack a b H Hl E) | apply (eta2_unpack_pack a b H Hl E)
          | apply (eta4_unpack_pack a b H Hl E) | apply (z17_unpack_pack a b H Hl E) | apply (z19_unpack_pack a b H Hl E) ].
Qed.
Print Assumptions C16_decode_encode.

(** decoders are total on bytes, equal the specification's unpacking, and stay in the decoded range *)
Theorem C16_decoders_are_fips204 : forall b : list Z, Forall is_byte b ->
  ((320 <= length b)%nat -> t1_unpack b = Ok (SimpleBitUnpack b (2 ^ 10 - 1))) /\
  ((416 <= length b)%nat -> t0_unpack b = Ok (BitUnpack b (2 ^ 12 - 1) (2 ^ 12))) /\
  ((576 <= length b)%nat -> z_unpack G17 b = Ok (BitUnpack b (G17 - 1) G17)) /\
  ((640 <= length b)%nat -> z_unpack G19 b = Ok (BitUnpack b (G19 - 1) G19)).
Proof.
  intros b Hb; repeat split; intros Hl;
    first [ apply t1_unpack_fips | apply t0_unpack_fips | apply z17_unpack_fips | apply z19_unpack_fips ]; assumption.
Qed.
Print Assumptions C16_decoders_are_fips204.

Theorem C16_decoder_ranges : forall b : list Z, Forall is_byte b ->
  ((320 <= length b)%nat -> exists a, t1_unpack b = Ok a /\ length a = 256%nat /\ Forall t1_rng a) /\
  ((416 <= length b)%nat -> exists a, t0_unpack b = Ok a /\ length a = 256%nat /\ Forall t0_rng a) /\
  ((576 <= length b)%nat -> exists a, z_unpack G17 b = Ok a /\ length a = 256%nat /\ Forall z17_rng a) /\
  ((640 <= length b)%nat -> exists a, z_unpack G19 b = Ok a /\ length a = 256%nat /\ Forall z19_rng a).
Proof.
  intros b Hb; repeat split; intros Hl;
    first [ apply t1_unpack_total | apply t0_unpack_total | apply z17_unpack_total | apply z19_unpack_total ]; assumption.
Qed.
Print Assumptions C16_decoder_ranges.

(** the bijective codecs: encode after decode is the identity on byte strings of the exact length *)
Theorem C16_encode_decode : forall a b : list Z, Forall is_byte b ->
  (length b = 320%nat -> t1_unpack b = Ok a -> t1_pack_bytes a = Ok b) /\
  (length b = 416%nat -> t0_unpack b = Ok a -> t0_pack_bytes a = Ok b) /\
  (length b = 576%nat -> z_unpack G17 b = Ok a -> z_pack_bytes G17 a = Ok b) /\
  (length b = 640%nat -> z_unpack G19 b = Ok a -> z_pack_bytes G19 a = Ok b).
Proof.
  intros a b Hb; repeat split; intros Hl E;
    first [ apply (t1_pack_unpack a b Hb Hl E) | apply (t0_pack_unpack a b Hb Hl E)
          | apply (z17_pack_unpack a b Hb Hl E) | apply (z19_pack_unpack a b Hb Hl E) ].
Qed.
Print Assumptions C16_encode_decode.

(** writing into a longer buffer leaves everything beyond the encoding untouched *)
Theorem C16_pack_touches_only_its_bytes : forall r a : list Z,
  Forall t1_rng a -> length a = 256%nat -> (320 <= length r)%nat ->
  exists r', t1_pack r a = Ok r' /\ length r' = length r /\ firstn 320 r' = S_bitpack 10 a /\
             (forall i : nat, (320 <= i)%nat -> nth_error r' i = nth_error r i).
Proof. exact t1_pack_splice. Qed.
Print Assumptions C16_pack_touches_only_its_bytes.

(** signature container, hint part: HintBitPack / HintBitUnpack of FIPS 204 (S_hint_pack / S_hint_unpack in PHint.v) *)
Theorem C16_hint_section_is_HintBitPack :
  forall (P : params) (sig : list Z) (c : option (list Z)) (z h : list (list Z)) (sig0 sig1 : list Z),
  match c with Some ch => do cc <- slice_to ch (pCT P); splice sig 0 cc | None => Ok sig end = Ok sig0 ->
  foldM (fun sig2 i => do a <- get z i; do b <- z_pack_bytes (pGAMMA1 P) a; splice sig2 (pCT P + i * pPOLYZ P) b)
        (zrange 0 (pL P)) sig0 = Ok sig1 ->
  0 <= pOMEGA P <= 255 -> 0 <= hint_off P -> zlen h = pK P -> Forall (fun r => length r = 256%nat) h ->
  hweight h <= pOMEGA P -> hint_off P + pOMEGA P + pK P <= zlen sig1 ->
  pack_sig P sig c z h =
  Ok (firstn (Z.to_nat (hint_off P)) sig1 ++ S_hint_pack (pOMEGA P) h ++
      skipn (Z.to_nat (hint_off P + pOMEGA P + pK P)) sig1).
Proof. exact pack_sig_hint_spec_full. Qed.
Print Assumptions C16_hint_section_is_HintBitPack.

(** the decoder accepts exactly the canonical encodings and returns the encoded hint vector *)
Theorem C16_hint_decoder_strict : forall P : params, 0 <= pOMEGA P <= 255 -> 0 <= pK P ->
  forall (hs : list Z) (h' : list (list Z)), pOMEGA P + pK P <= zlen hs -> bytes hs ->
  (hint_decode P hs (zero_h (pK P)) = Ok (h', true) <-> S_hint_unpack (pOMEGA P) (pK P) hs = Some h').
Proof. exact unpack_hint_strict. Qed.
Print Assumptions C16_hint_decoder_strict.

Theorem C16_hint_roundtrip : forall (P : params) (h : list (list Z)), 0 <= pOMEGA P <= 255 ->
  hint_wf (pK P) h -> hweight h <= pOMEGA P ->
  hint_decode P (S_hint_pack (pOMEGA P) h) (zero_h (pK P)) = Ok (h, true).
Proof. exact hint_decode_pack. Qed.
Print Assumptions C16_hint_roundtrip.

Theorem C16_accepted_signature_hints_are_canonical :
  forall (P : params) (c : list Z) (z : list (list Z)) (sig c' : list Z) (z' h' : list (list Z)),
  0 <= pOMEGA P <= 255 -> 0 <= pK P -> 0 <= hint_off P -> zlen sig = hint_off P + pOMEGA P + pK P -> bytes sig ->
  unpack_sig P c z (zvec (pK P)) sig = Ok (c', z', h', true) ->
  let hs := skipn (Z.to_nat (hint_off P)) sig in
  S_hint_unpack (pOMEGA P) (pK P) hs = Some h' /\ S_hint_pack (pOMEGA P) h' = hs /\ hweight h' <= pOMEGA P /\ hint_wf (pK P) h'.
Proof. exact unpack_sig_hint_canonical. Qed.
Print Assumptions C16_accepted_signature_hints_are_canonical.

(** key containers: pkEncode / skEncode of FIPS 204 (S_pkEncode / S_skEncode in PKeyCodec.v), and their decoders *)
Theorem C16_public_key_container : forall (P : params) (pk rho : list Z) (t1 : list (list Z)),
  0 <= pK P -> pPK P <= zlen pk -> 32 <= zlen rho -> zlen t1 = pK P -> Forall (polyOK t1_rng) t1 ->
  pack_pk P pk rho t1 = Ok (S_pkEncode (firstn 32 rho) t1 ++ skipn (Z.to_nat (pPK P)) pk) /\
  zlen (S_pkEncode (firstn 32 rho) t1) = pPK P.
Proof. exact pack_pk_spec. Qed.
Print Assumptions C16_public_key_container.

Theorem C16_public_key_roundtrips :
  (forall (P : params) (pk rho : list Z) (t1 : list (list Z)) (pk' rho0 : list Z) (t1_0 : list (list Z)),
     0 <= pK P -> pPK P <= zlen pk -> Forall is_byte pk -> zlen rho = 32 -> Forall is_byte rho -> zlen t1 = pK P ->
     Forall (polyOK t1_rng) t1 -> zlen rho0 = 32 -> zlen t1_0 = pK P ->
     pack_pk P pk rho t1 = Ok pk' -> unpack_pk P rho0 t1_0 pk' = Ok (rho, t1)) /\
  (forall (P : params) (pk rho : list Z) (t1 : list (list Z)) (rho0 : list Z) (t1_0 : list (list Z)) (buf : list Z),
     0 <= pK P -> zlen pk = pPK P -> Forall is_byte pk -> zlen rho0 = 32 -> zlen t1_0 = pK P -> zlen buf = pPK P ->
     unpack_pk P rho0 t1_0 pk = Ok (rho, t1) -> pack_pk P buf rho t1 = Ok pk).
Proof. split; [exact unpack_pk_pack_pk | exact pack_pk_unpack_pk]. Qed.
Print Assumptions C16_public_key_roundtrips.

Theorem C16_secret_key_container :
  forall (P : params) (sk rho tr key : list Z) (t0 s1 s2 : list (list Z)),
  0 <= pK P -> 0 <= pL P -> eta_okP P -> 0 <= pTR P -> pSK P <= zlen sk -> 32 <= zlen rho -> 32 <= zlen key ->
  pTR P <= zlen tr -> zlen s1 = pL P -> zlen s2 = pK P -> zlen t0 = pK P ->
  Forall (polyOK (eta_rng (pETA P))) s1 -> Forall (polyOK (eta_rng (pETA P))) s2 -> Forall (polyOK t0_rng) t0 ->
  pack_sk P sk rho tr key t0 s1 s2 =
  Ok (S_skEncode (pETA P) (firstn 32 rho) (firstn 32 key) (firstn (Z.to_nat (pTR P)) tr) s1 s2 t0 ++ skipn (Z.to_nat (pSK P)) sk) /\
  zlen (S_skEncode (pETA P) (firstn 32 rho) (firstn 32 key) (firstn (Z.to_nat (pTR P)) tr) s1 s2 t0) = pSK P.
Proof. exact pack_sk_spec. Qed.
Print Assumptions C16_secret_key_container.

Theorem C16_secret_key_roundtrip :
  forall (P : params) (sk rho tr key : list Z) (t0 s1 s2 : list (list Z)) (sk' rho0 tr0 key0 : list Z) (t0_0 s1_0 s2_0 : list (list Z)),
  0 <= pK P -> 0 <= pL P -> eta_okP P -> 0 <= pTR P -> pSK P <= zlen sk -> Forall is_byte sk ->
  zlen rho = 32 -> zlen key = 32 -> zlen tr = pTR P -> Forall is_byte rho -> Forall is_byte key -> Forall is_byte tr ->
  zlen s1 = pL P -> zlen s2 = pK P -> zlen t0 = pK P ->
  Forall (polyOK (eta_rng (pETA P))) s1 -> Forall (polyOK (eta_rng (pETA P))) s2 -> Forall (polyOK t0_rng) t0 ->
  zlen rho0 = 32 -> zlen key0 = 32 -> zlen tr0 = pTR P -> zlen t0_0 = pK P -> zlen s1_0 = pL P -> zlen s2_0 = pK P ->
  pack_sk P sk rho tr key t0 s1 s2 = Ok sk' ->
  unpack_sk P rho0 tr0 key0 t0_0 s1_0 s2_0 sk' = Ok (rho, tr, key, t0, s1, s2).
Proof. exact unpack_sk_pack_sk_fips_range. Qed.
Print Assumptions C16_secret_key_roundtrip.

Example C16_nonvacuous :
  t1_pack_bytes [1023; 0; 1; 512] = Ok [255; 3; 16; 0; 128] /\
  eta_pack_bytes 2 [2; -2; 0; 1; -1; 2; -2; 0] = Ok [160; 50; 80] /\
  t1_unpack_list 1 [255; 3; 16; 0; 128] = Ok [1023; 0; 1; 512].
Proof. vm_compute. repeat split. Qed.
