(** C05 — Signing is the specification's function of key, message and randomness.
    Only property theorems here, closed by [exact] of lemmas proved in PSignSpec.v (and PTape/PSignStruct/PBridge/PFrame).
    [S_sign P sk M' rnd sig] (PSignSpec.v) transcribes Dilithium 3.1 Sign / FIPS 204 Sign_internal (Alg. 7): skDecode;
    A^ = ExpandA(rho); mu = H(tr || M'); rho'' = H(K || rnd || mu) (ML-DSA; rnd = 32 zero bytes when deterministic) resp.
    H(K || mu) or the 64 random bytes themselves (Dilithium); for kappa = 0, 1, 2, ...: y = ExpandMask(rho'', kappa);
    w = NTT^-1(A^ o NTT(y)); w1 = HighBits(w); ctilde = H(mu || w1Encode(w1)); c = SampleInBall(ctilde); z = y + c s1;
    r0 = LowBits(w - c s2); reject if ||z|| >= gamma1 - beta or ||r0|| >= gamma2 - beta; reject if ||c t0|| >= gamma2 or more than
    omega hints in h = MakeHint(-c t0, w - c s2 + c t0); the FIRST attempt not rejected outputs sigEncode(ctilde, z mod+- q, h).
    Products c s are characterised in the NTT domain (evaluation at the roots; injective mod q), samplers relational.
    PROVED for the six sets, every key whose decoded s2 is within +-eta (every key from key generation, C04), every message,
    every mode: whenever signing returns, it returns exactly the specification's signature for the bytes drawn (none /
    32 as rnd / 64 as rho'), and the specification's signature is unique. The proof includes the equivalence of the code's
    test on w0 - c s2 with the specification's test on LowBits(w - c s2) (needs ||c s2|| <= beta, proved from the
    challenge weight), the centred-norm reading of the norm check on 32-bit-reduced values, and MakeHint. *)
From DV Require Import Base MReduce MParams MPoly MPolyvec MPacking MSign MApi PSample PBridge PTape PSignStruct PFrame PSignTotal PKeygen PSignSpec PBuffers.

Theorem C05_signing_is_the_specification :
  forall (P : params) (xi pk sk sig0 m : list Z) (rand : bool) (tape sig tape' : list Z),
  std P -> S_keygen P xi pk sk -> zlen sk = pSK P -> Forall is_byte m -> zlen sig0 = pSIG P -> tape_ok P rand tape ->
  signature P sig0 m sk rand tape = Ok (sig, tape') ->
  S_sign P sk m (if rand then Some (firstn (Z.to_nat (rand_bytes P)) tape) else None) sig.
Proof. exact sign_spec_keygen. Qed.
Print Assumptions C05_signing_is_the_specification.

Theorem C05_specification_defines_one_signature : forall (P : params) (sk m : list Z) (rnd : option (list Z)) (sig sig' : list Z),
  S_sign P sk m rnd sig -> S_sign P sk m rnd sig' -> sig = sig'.
Proof. exact S_sign_functional. Qed.
Print Assumptions C05_specification_defines_one_signature.

Theorem C05_deterministic : forall (P : params) (sk sig0 m tape sig tape' : list Z),
  std P -> sk_ok P sk -> Forall is_byte m -> zlen sig0 = pSIG P ->
  signature P sig0 m sk false tape = Ok (sig, tape') -> S_sign P sk m None sig /\ tape' = tape.
Proof. exact sign_spec_deterministic. Qed.
Print Assumptions C05_deterministic.

Theorem C05_hedged_or_randomized : forall (P : params) (sk sig0 m tape sig tape' : list Z),
  std P -> sk_ok P sk -> Forall is_byte m -> zlen sig0 = pSIG P ->
  Forall is_byte (firstn (Z.to_nat (rand_bytes P)) tape) ->
  signature P sig0 m sk true tape = Ok (sig, tape') ->
  let drawn := firstn (Z.to_nat (rand_bytes P)) tape in
  S_sign P sk m (Some drawn) sig /\ zlen drawn = rand_bytes P /\ tape' = skipn (Z.to_nat (rand_bytes P)) tape.
Proof. exact sign_spec_randomized. Qed.
Print Assumptions C05_hedged_or_randomized.

Theorem C05_api :
  (forall (P : params) (sk msg s : list Z), std P -> sk_ok P sk -> Forall is_byte msg ->
     dil_sign P sk msg = Ok s -> S_sign P sk msg None s) /\
  (forall (P : params) (sk msg : list Z) (ctx : option (list Z)) (hedged : bool) (tape s tape' : list Z),
     std P -> sk_ok P sk -> Forall is_byte msg -> PTotal.ctx_is_bytes ctx -> tape_ok P hedged tape ->
     ml_sign P sk msg ctx hedged tape = Ok (Some s, tape') ->
     S_sign P sk (frame_pure ctx msg) (if hedged then Some (firstn (Z.to_nat (rand_bytes P)) tape) else None) s).
Proof. split; [exact dil_sign_spec | exact ml_sign_spec]. Qed.
Print Assumptions C05_api.

Theorem C05_deterministic_is_function_of_key_and_message : forall (P : params) (sig msg sk tape : list Z),
  signature P sig msg sk false tape = (do s <- signature_with P sig msg sk None; Ok (s, tape)).
Proof. exact signature_deterministic_eq. Qed.
Print Assumptions C05_deterministic_is_function_of_key_and_message.

Theorem C05_randomness_enters_only_as_drawn_bytes : forall (P : params) (sig msg sk tape : list Z),
  signature P sig msg sk true tape =
  (do '(r, tape') <- draw tape (rand_bytes P); do s <- signature_with P sig msg sk (Some r); Ok (s, tape')).
Proof. exact signature_random_draw. Qed.
Print Assumptions C05_randomness_enters_only_as_drawn_bytes.

Theorem C05_rho_second_derivation : forall (P : params) (key mu r : list Z),
  (pMLDSA P = true -> PTape.sign_rhoprime P key mu (Some r) = MKeccak.shake256_hash [key; r; mu] CRHBYTES) /\
  (pMLDSA P = false -> PTape.sign_rhoprime P key mu (Some r) = Ok r).
Proof. intros; split; intros; [apply sign_rhoprime_mldsa | apply sign_rhoprime_dilithium]; assumption. Qed.
Print Assumptions C05_rho_second_derivation.

Theorem C05_output_buffer_irrelevant :
  forall (P : params) (sig1 sig2 msg sk : list Z) (rand : bool) (tape : list Z),
  std P -> zlen sig1 = pSIG P -> zlen sig2 = pSIG P ->
  signature P sig1 msg sk rand tape = signature P sig2 msg sk rand tape.
Proof. exact signature_buffer_irrelevant_std. Qed.
Print Assumptions C05_output_buffer_irrelevant.

Theorem C05_api_signs_the_framed_message :
  forall (P : params) (sk msg : list Z) (ctx : option (list Z)) (hedged : bool) (tape : list Z),
  zlen (ctx_bytes ctx) <= 255 ->
  ml_sign P sk msg ctx hedged tape =
  (do '(s, tape') <- signature P (repeatZ 0 (pSIG P)) (frame_pure ctx msg) sk hedged tape; Ok (Some s, tape')).
Proof. exact ml_sign_frames. Qed.
Print Assumptions C05_api_signs_the_framed_message.

(** mask schedule: attempt kappa samples y_i = BitUnpack(SHAKE256(rho'' || L*kappa + i)) *)
Theorem C05_mask_is_ExpandMask : forall (P : params) (v : list (list Z)) (seed : list Z) (kappa : Z),
  pGAMMA1 P = 131072 \/ pGAMMA1 P = 524288 -> length v = Z.to_nat (pL P) -> 0 <= pL P -> 0 <= kappa ->
  pL P * kappa + pL P <= 65536 -> 64 <= zlen seed -> Forall is_byte (firstn 64 seed) ->
  l_uniform_gamma1 P v seed kappa =
  Ok (map (fun i => PPack.BitUnpack (SKeccak.S_shake 136 (xof_in 64 seed (pL P * kappa + i)) 680) (pGAMMA1 P - 1) (pGAMMA1 P))
          (zrange 0 (pL P))).
Proof. exact l_uniform_gamma1_ok'. Qed.
Print Assumptions C05_mask_is_ExpandMask.

(** loop structure: attempts 0, 1, 2, ... in order; the first accepted one is returned *)
Theorem C05_first_accepted_attempt_is_returned :
  forall (P : params) (mu rhoprime : list Z) (mat : list (list (list Z))) (s1 s2 t0 : list (list Z))
         (fuel : nat) (sig : list Z) (nonce : Z) (trace s trace' : list Z),
  sign_loop P fuel sig mu rhoprime mat s1 s2 t0 nonce trace = Ok (s, trace') ->
  exists (n : nat) (causes sig_n : list Z),
    trace' = trace ++ causes /\ length causes = n /\ Forall (fun c => 1 <= c <= 4) causes /\
    sign_attempt P sig_n mu rhoprime mat s1 s2 t0 (nonce + Z.of_nat n) = Ok (Done s) /\ (n < fuel)%nat /\
    (n = 0%nat \/ 0 <= nonce + 1 /\ nonce + Z.of_nat n <= 65535) /\
    (forall (k : nat) (c : Z), nth_error causes k = Some c ->
       exists sig_k sig_k', sign_attempt P sig_k mu rhoprime mat s1 s2 t0 (nonce + Z.of_nat k) = Ok (Retry c sig_k')).
Proof. exact sign_loop_last. Qed.
Print Assumptions C05_first_accepted_attempt_is_returned.

(** rejection conditions and their order: z-norm, low bits, c*t0, hint count *)
Theorem C05_rejection_order :
  forall (P : params) (sig mu rhoprime : list Z) (mat : list (list (list Z))) (s1 s2 t0 : list (list Z)) (nonce cause : Z) (sig' : list Z),
  sign_attempt P sig mu rhoprime mat s1 s2 t0 nonce = Ok (Retry cause sig') ->
  exists M, sig' = am_sigc M /\ attempt_rejects P sig mu rhoprime mat s1 s2 t0 nonce M cause.
Proof. exact sign_attempt_retry. Qed.
Print Assumptions C05_rejection_order.

(** ... and for a caller buffer LONGER than SIGNBYTES: the same signature in the first SIGNBYTES bytes, the excess untouched *)
Theorem C05_overlong_buffer :
  forall (P : params) (sig msg sk : list Z) (rand : bool) (tape : list Z),
  std P -> pSIG P <= zlen sig ->
  signature P sig msg sk rand tape =
  (do '(s, t) <- signature P (firstn (Z.to_nat (pSIG P)) sig) msg sk rand tape;
   Ok (s ++ skipn (Z.to_nat (pSIG P)) sig, t)).
Proof. exact signature_long_buffer. Qed.
Print Assumptions C05_overlong_buffer.
