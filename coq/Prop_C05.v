(** C05 — Signing is the specification's function of key, message and randomness.
    Only property theorems here, closed by [exact] of lemmas proved in PTape.v / PSignStruct.v / PBridge.v / PFrame.v.
    PROVED so far: randomness enters only as the specification's input — deterministic signing draws nothing; hedged
    ML-DSA signing is a function of the 32 drawn bytes used as rnd in rho'' = H(K || rnd || mu); randomized Dilithium
    signing uses its 64 drawn bytes directly as rho'; the result does not depend on the output buffer; the API wrappers
    sign the framed representative M'; attempt k of the rejection loop uses counter k and the mask is ExpandMask(rho'',
    L*k + i); an attempt is returned iff it passes the four tests in the specification's order, otherwise the loop
    continues. NOT yet a Coq theorem: the identification of the NTT-domain intermediates (w, c s1, c s2, c t0) with the
    ring expressions of Sign_internal, hence byte equality with the specification's signature; that is decided by executing
    model, crate and an independent Sign_internal on the message/context/mode grid and crafted keys (see evidence). *)
From DV Require Import Base MReduce MParams MPoly MPolyvec MPacking MSign MApi PSample PBridge PTape PSignStruct PFrame.

Theorem C05_deterministic_is_function_of_key_and_message : forall (P : params) (sig msg sk tape : list Z),
  signature P sig msg sk false tape = (do s <- signature_with P sig msg sk None; Ok (s, tape)).
Proof. exact signature_deterministic_eq. Qed.
Print Assumptions C05_deterministic_is_function_of_key_and_message.

Theorem C05_randomness_enters_only_as_drawn_bytes : forall (P : params) (sig msg sk tape : list Z),
  signature P sig msg sk true tape =
  (do '(r, tape') <- draw tape (rand_bytes P); do s <- signature_with P sig msg sk (Some r); Ok (s, tape')).
Proof. exact signature_random_draw. Qed.
Print Assumptions C05_randomness_enters_only_as_drawn_bytes.

Theorem C05_rho_second_derivation : forall (P : params) (key mu r : list Z),
  (pMLDSA P = true -> PTape.sign_rhoprime P key mu (Some r) = MKeccak.shake256_hash [key; r; mu] CRHBYTES) /\
  (pMLDSA P = false -> PTape.sign_rhoprime P key mu (Some r) = Ok r).
Proof. intros; split; intros; [apply sign_rhoprime_mldsa | apply sign_rhoprime_dilithium]; assumption. Qed.
Print Assumptions C05_rho_second_derivation.

Theorem C05_output_buffer_irrelevant :
  forall (P : params) (sig1 sig2 msg sk : list Z) (rand : bool) (tape : list Z),
  std P -> zlen sig1 = pSIG P -> zlen sig2 = pSIG P ->
  signature P sig1 msg sk rand tape = signature P sig2 msg sk rand tape.
Proof. exact signature_buffer_irrelevant_std. Qed.
Print Assumptions C05_output_buffer_irrelevant.

Theorem C05_api_signs_the_framed_message :
  forall (P : params) (sk msg : list Z) (ctx : option (list Z)) (hedged : bool) (tape : list Z),
  zlen (ctx_bytes ctx) <= 255 ->
  ml_sign P sk msg ctx hedged tape =
  (do '(s, tape') <- signature P (repeatZ 0 (pSIG P)) (frame_pure ctx msg) sk hedged tape; Ok (Some s, tape')).
Proof. exact ml_sign_frames. Qed.
Print Assumptions C05_api_signs_the_framed_message.

(** mask schedule: attempt kappa samples y_i = BitUnpack(SHAKE256(rho'' || L*kappa + i)) *)
Theorem C05_mask_is_ExpandMask : forall (P : params) (v : list (list Z)) (seed : list Z) (kappa : Z),
  pGAMMA1 P = 131072 \/ pGAMMA1 P = 524288 -> length v = Z.to_nat (pL P) -> 0 <= pL P -> 0 <= kappa ->
  pL P * kappa + pL P <= 65536 -> 64 <= zlen seed -> Forall is_byte (firstn 64 seed) ->
  l_uniform_gamma1 P v seed kappa =
  Ok (map (fun i => PPack.BitUnpack (SKeccak.S_shake 136 (xof_in 64 seed (pL P * kappa + i)) 680) (pGAMMA1 P - 1) (pGAMMA1 P))
          (zrange 0 (pL P))).
Proof. exact l_uniform_gamma1_ok'. Qed.
Print Assumptions C05_mask_is_ExpandMask.

(** loop structure: attempts 0, 1, 2, ... in order; the first accepted one is returned *)
Theorem C05_first_accepted_attempt_is_returned_partial :
  forall (P : params) (mu rhoprime : list Z) (mat : list (list (list Z))) (s1 s2 t0 : list (list Z))
         (fuel : nat) (sig : list Z) (nonce : Z) (trace s trace' : list Z),
  sign_loop P fuel sig mu rhoprime mat s1 s2 t0 nonce trace = Ok (s, trace') ->
  exists (n : nat) (causes sig_n : list Z),
    trace' = trace ++ causes /\ length causes = n /\ Forall (fun c => 1 <= c <= 4) causes /\
    sign_attempt P sig_n mu rhoprime mat s1 s2 t0 (nonce + Z.of_nat n) = Ok (Done s) /\ (n < fuel)%nat /\
    (n = 0%nat \/ 0 <= nonce + 1 /\ nonce + Z.of_nat n <= 65535) /\
    (forall (k : nat) (c : Z), nth_error causes k = Some c ->
       exists sig_k sig_k', sign_attempt P sig_k mu rhoprime mat s1 s2 t0 (nonce + Z.of_nat k) = Ok (Retry c sig_k')).
Proof. exact sign_loop_last. Qed.
Print Assumptions C05_first_accepted_attempt_is_returned_partial.

(** rejection conditions and their order: z-norm, low bits, c*t0, hint count *)
Theorem C05_rejection_order :
  forall (P : params) (sig mu rhoprime : list Z) (mat : list (list (list Z))) (s1 s2 t0 : list (list Z)) (nonce cause : Z) (sig' : list Z),
  sign_attempt P sig mu rhoprime mat s1 s2 t0 nonce = Ok (Retry cause sig') ->
  exists M, sig' = am_sigc M /\ attempt_rejects P sig mu rhoprime mat s1 s2 t0 nonce M cause.
Proof. exact sign_attempt_retry. Qed.
Print Assumptions C05_rejection_order.
