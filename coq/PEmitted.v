(** C06 at specification level: what the signer emits is an attempt of the specification that passes the
    specification's own four tests (a corollary of PSignSpec.sign_spec_keygen; the definition of S_attempt makes
    an output possible only on the accepting branch). *)
From DV Require Import Base MReduce MParams MSign PTape PSignTotal PKeygen PKeyCodec PRounding PVerifySpec PSignStruct PSignVerify PSignSpec.

Definition spec_accepting_attempt (P : params) (A : list (list (list Z))) (s1 s2 t0 : list (list Z))
           (mu rpp : list Z) (kappa : Z) (sig : list Z) : Prop :=
  let g := pG88 P in
  let y := S_ExpandMask P rpp kappa in
  exists (w : list (list Z)) (c : list Z) (cs1 cs2 ct0 : list (list Z)),
    S_w A y w /\
    let w1 := vmap (S_highbits g) w in
    let ctilde := SKeccak.S_shake 136 (mu ++ S_w1Encode g w1) (Z.to_nat (pCT P)) in
    S_SampleInBall (pTAU P) ctilde c /\ S_cmul c s1 cs1 /\ S_cmul c s2 cs2 /\ S_cmul c t0 ct0 /\
    let z := vzip (fun a b => cmod (a + b) Q) y cs1 in
    let r := vzip Z.sub w cs2 in
    let r0 := vmap (S_lowbits g) r in
    let h := vzip (fun t x => S_make_hint g (- t) (x + t)) ct0 r in
    S_norm_lt z (pGAMMA1 P - pBETA P) = true /\
    S_norm_lt r0 (pGAMMA2 P - pBETA P) = true /\
    S_norm_lt (vmap (fun x => cmod x Q) ct0) (pGAMMA2 P) = true /\
    hint_weight h <= pOMEGA P /\
    sig = S_sigEncode P ctilde z h.

Lemma attempt_output_accepts P A s1 s2 t0 mu rpp kappa sig :
  S_attempt P A s1 s2 t0 mu rpp kappa (S_output sig) -> spec_accepting_attempt P A s1 s2 t0 mu rpp kappa sig.
Proof.
  unfold S_attempt, spec_accepting_attempt.
  intros (w & c & cs1 & cs2 & ct0 & Hw & Hc & H1 & H2 & H3 & Ho).
  exists w, c, cs1, cs2, ct0. split; [exact Hw|]. split; [exact Hc|]. split; [exact H1|]. split; [exact H2|]. split; [exact H3|].
  cbv zeta in Ho.
  match type of Ho with
  | _ = (if ?b1 && ?b2 then (if ?b3 && ?b4 then _ else _) else _) =>
      destruct b1 eqn:E1; destruct b2 eqn:E2; cbn [andb] in Ho; try discriminate Ho;
      destruct b3 eqn:E3; destruct b4 eqn:E4; cbn [andb] in Ho; try discriminate Ho
  end.
  repeat split; try reflexivity.
  - apply Z.leb_le. exact E4.
  - injection Ho as Ho. exact Ho.
Qed.

Theorem emitted_signature_is_accepting_spec_attempt :
  forall (P : params) (xi pk sk sig0 m : list Z) (rand : bool) (tape sig tape' : list Z)
         (rho K tr : list Z) (s1 s2 t0 : list (list Z)),
  std P -> S_keygen P xi pk sk -> zlen sk = pSK P -> Forall is_byte m -> zlen sig0 = pSIG P -> tape_ok P rand tape ->
  S_skDecode (pETA P) (pK P) (pL P) (pTR P) sk = (rho, K, tr, s1, s2, t0) ->
  signature P sig0 m sk rand tape = Ok (sig, tape') ->
  exists (A : list (list (list Z))) (n : nat),
    S_expandA P rho A /\
    let mu := SKeccak.S_shake 136 (tr ++ m) 64 in
    let rpp := S_rhopp P K (if rand then Some (firstn (Z.to_nat (rand_bytes P)) tape) else None) mu in
    spec_accepting_attempt P A s1 s2 t0 mu rpp (Z.of_nat n) sig.
Proof.
  intros P xi pk sk sig0 m rand tape sig tape' rho K tr s1 s2 t0 HP Hk Hl Hm Hs Ht Hd Hsig.
  pose proof (sign_spec_keygen P xi pk sk sig0 m rand tape sig tape' HP Hk Hl Hm Hs Ht Hsig) as HS.
  unfold S_sign in HS. rewrite Hd in HS.
  destruct HS as (A & HA & n & _ & Hn).
  exists A, n. split; [exact HA|].
  cbv zeta. apply attempt_output_accepts. exact Hn.
Qed.
Print Assumptions emitted_signature_is_accepting_spec_attempt.
