(** C08: verification is total on untrusted bytes.

    For a public key of the right length, any message and ANY byte string offered as a signature,
    [verify] returns a boolean: no arithmetic overflow, no out-of-bounds access, no failed length check
    ([Panic]) anywhere.  ([OutOfFuel] can only come from the two rejection samplers.)

    Layout:
      1. generic "total with a range" combinators for mapM / map2M
      2. the arithmetic pipeline, coefficient ranges at every step   (verify_arith_ok)
      3. checked access, total versions
      4. decoding the public key                                     (unpack_pk_total)
      5. decoding the signature: z part, hint part                   (unpack_hints_total, unpack_sig_total)
      6. hashing                                                     (shake256_short_ok, tr_hash_total, hash_total)
      7. assembly, generic in the parameter set                      (verify_total_gen)
      8. shapes of the sampled objects, for ANY XOF                  (challenge_shape_holds, expand_shape_holds)
      9. main theorems     (verify_no_panic_modulo_samplers, verify_bool_or_fuel, verify_w1_ok, verify_w1_no_panic)
     10. the API wrappers  (dil_verify_no_panic, ml_verify_no_panic, ml_prehash_verify_no_panic)

    The only premises left are [challenge_no_panic P] and [expand_no_panic P]: the two rejection samplers,
    which run the real SHAKE, do not panic on byte seeds of sufficient length.  They are hypotheses of the
    theorems, not axioms.  PTotalClosed.v discharges them with PBridge.v ([poly_challenge_no_panic],
    [matrix_expand_no_panic]) and states the unconditional [verify_no_panic]. *)
From DV Require Import Base Gen MReduce MRounding MParams MKeccak MNtt MPoly MPolyvec MPacking MSign MSha2 MApi
                       PReduce PNtt PRounding PNorm PLift PPack PPack2 PSample SKeccak PKeccak PSignStruct PTape.

Local Ltac Zify.zify_post_hook ::= Z.div_mod_to_equations.

(** * 1. Combinators *)

Lemma mapM_total {A B} (f : A -> res B) (Pa : A -> Prop) (Pb : B -> Prop) l :
  (forall a, Pa a -> exists y, f a = Ok y /\ Pb y) -> Forall Pa l ->
  exists r, mapM f l = Ok r /\ length r = length l /\ Forall Pb r.
Proof.
  intros Hf. induction 1 as [|a l Ha Hl IH].
  - exists []. cbn [mapM length]. auto.
  - destruct (Hf a Ha) as (y & Ey & Py). destruct IH as (r & Er & Lr & Pr).
    exists (y :: r). cbn [mapM]. rewrite Ey; cbn [bind]. rewrite Er; cbn [bind].
    split; [reflexivity|]. split; [cbn [length]; lia | constructor; assumption].
Qed.

Lemma map2M_total {A B C} (f : A -> B -> res C) (Pa : A -> Prop) (Pb : B -> Prop) (Pc : C -> Prop) :
  (forall a b, Pa a -> Pb b -> exists y, f a b = Ok y /\ Pc y) ->
  forall l1 l2, length l1 = length l2 -> Forall Pa l1 -> Forall Pb l2 ->
  exists r, map2M f l1 l2 = Ok r /\ length r = length l1 /\ Forall Pc r.
Proof.
  intros Hf. induction l1 as [|a l1 IH]; intros [|b l2] Hl H1 H2; cbn [length] in Hl; try discriminate.
  - exists []. cbn [map2M length]. auto.
  - inversion H1 as [|? ? Ha H1']; subst. inversion H2 as [|? ? Hb H2']; subst.
    destruct (Hf a b Ha Hb) as (y & Ey & Py).
    destruct (IH l2 ltac:(lia) H1' H2') as (r & Er & Lr & Pr).
    exists (y :: r). cbn [map2M]. rewrite Ey; cbn [bind]. rewrite Er; cbn [bind].
    split; [reflexivity|]. split; [cbn [length]; lia | constructor; assumption].
Qed.

Lemma Forall_combine {A B} (Pa : A -> Prop) (Pb : B -> Prop) : forall l1 l2,
  Forall Pa l1 -> Forall Pb l2 -> Forall (fun p => Pa (fst p) /\ Pb (snd p)) (combine l1 l2).
Proof.
  induction l1 as [|a l1 IH]; intros [|b l2] H1 H2; cbn [combine]; try constructor.
  - inversion H1; inversion H2; subst. cbn [fst snd]. auto.
  - inversion H1; inversion H2; subst. apply IH; assumption.
Qed.

Lemma Forall_repeat {A} (Pa : A -> Prop) x n : Pa x -> Forall Pa (repeat x n).
Proof. intros H. induction n; cbn [repeat]; constructor; assumption. Qed.

(** * 2. The arithmetic pipeline *)

(** a polynomial (256 coefficients) with all coefficients strictly inside (-B, B) *)
Definition bnd (B : Z) (a : list Z) : Prop := length a = 256%nat /\ Forall (fun x => - B < x < B) a.
(** a polynomial with coefficients in [lo, hi) *)
Definition rng (lo hi : Z) (a : list Z) : Prop := length a = 256%nat /\ Forall (fun x => lo <= x < hi) a.

Lemma bnd_weaken B B' a : B <= B' -> bnd B a -> bnd B' a.
Proof.
  intros HB (Hl & HF). split; [exact Hl|]. eapply Forall_impl; [|exact HF]. cbv beta. intros x Hx. lia.
Qed.

Lemma rng_bnd lo hi B a : - B < lo -> hi <= B -> rng lo hi a -> bnd B a.
Proof.
  intros H1 H2 (Hl & HF). split; [exact Hl|]. eapply Forall_impl; [|exact HF]. cbv beta. intros x Hx. lia.
Qed.

Lemma two63' : 2 ^ (64 - 1) = 9223372036854775808. Proof. reflexivity. Qed.
Lemma two31Q : 2 ^ 31 * Q = 17996808470921216. Proof. reflexivity. Qed.

(** one product of [poly_pointwise_montgomery]: the i64 multiplication does not overflow and the product is in
    the domain of the Montgomery reduction *)
Lemma pw_coeff A B x y : 0 <= A -> 0 <= B -> A * B < 2 ^ 31 * Q -> - A < x < A -> - B < y < B ->
  exists r, (do p <- i64_mul x y; montgomery_reduce p) = Ok r /\ - Q < r < Q.
Proof.
  intros HA HB HAB Hx Hy.
  pose proof (mul_bound x y A B ltac:(lia) ltac:(lia)) as Hp. rewrite two31Q in HAB.
  unfold i64_mul. rewrite chk_s_ok by (rewrite two63'; lia). cbn [bind].
  destruct (mont_ok (x * y)) as (r & Er & _ & Rr); [rewrite Z.mul_opp_l, two31Q; lia|].
  exists r. auto.
Qed.

Lemma poly_pw_total A B a b : 0 <= A -> 0 <= B -> A * B < 2 ^ 31 * Q -> bnd A a -> bnd B b ->
  exists r, poly_pointwise_montgomery a b = Ok r /\ bnd Q r.
Proof.
  intros HA HB HAB (La & Fa) (Lb & Fb). unfold poly_pointwise_montgomery.
  destruct (map2M_total (fun x y => do p <- i64_mul x y; montgomery_reduce p)
              (fun x => - A < x < A) (fun y => - B < y < B) (fun r => - Q < r < Q)
              (fun x y Hx Hy => pw_coeff A B x y HA HB HAB Hx Hy) a b ltac:(lia) Fa Fb) as (r & Er & Lr & Fr).
  exists r. split; [exact Er|]. split; [lia | exact Fr].
Qed.

Lemma poly_add_total W T w t : W + T <= 2 ^ 31 -> bnd W w -> bnd T t ->
  exists r, poly_add w t = Ok r /\ bnd (W + T) r.
Proof.
  intros HB (Lw & Fw) (Lt & Ft). unfold poly_add. change (2 ^ 31) with 2147483648 in HB.
  destruct (map2M_total i32_add (fun x => - W < x < W) (fun y => - T < y < T) (fun r => - (W + T) < r < W + T))
    with (l1 := w) (l2 := t) as (r & Er & Lr & Fr); try assumption; try lia.
  - intros x y Hx Hy. exists (x + y). split; [|lia]. unfold i32_add. apply chk_s_ok. rewrite two31. lia.
  - exists r. split; [exact Er|]. split; [lia | exact Fr].
Qed.

Lemma poly_sub_total W T w t : W + T <= 2 ^ 31 -> bnd W w -> bnd T t ->
  exists r, poly_sub w t = Ok r /\ bnd (W + T) r.
Proof.
  intros HB (Lw & Fw) (Lt & Ft). unfold poly_sub. change (2 ^ 31) with 2147483648 in HB.
  destruct (map2M_total i32_sub (fun x => - W < x < W) (fun y => - T < y < T) (fun r => - (W + T) < r < W + T))
    with (l1 := w) (l2 := t) as (r & Er & Lr & Fr); try assumption; try lia.
  - intros x y Hx Hy. exists (x - y). split; [|lia]. unfold i32_sub. apply chk_s_ok. rewrite two31. lia.
  - exists r. split; [exact Er|]. split; [lia | exact Fr].
Qed.

(** accumulating [n] Montgomery products on top of a polynomial bounded by W: bound W + n*Q, no overflow as
    long as that stays below 2^31 *)
Lemma acc_ref_total A B : 0 <= A -> 0 <= B -> A * B < 2 ^ 31 * Q -> forall rest W w,
  bnd W w -> W + Z.of_nat (length rest) * Q <= 2 ^ 31 ->
  Forall (fun p => bnd A (fst p) /\ bnd B (snd p)) rest ->
  exists r, acc_ref w rest = Ok r /\ bnd (W + Z.of_nat (length rest) * Q) r.
Proof.
  intros HA HB HAB. induction rest as [|[a b] rest IH]; intros W w Hw HW HF.
  - exists w. cbn [acc_ref length]. split; [reflexivity|]. eapply bnd_weaken; [|exact Hw]. lia.
  - inversion HF as [|? ? (Ha & Hb) HF']; subst. cbn [fst snd] in Ha, Hb. cbn [acc_ref].
    destruct (poly_pw_total A B a b HA HB HAB Ha Hb) as (t & Et & Ht). rewrite Et; cbn [bind].
    assert (HQ : 0 < Q) by (unfold Q; lia).
    cbn [length] in HW. rewrite Nat2Z.inj_succ in HW.
    destruct (poly_add_total W Q w t ltac:(lia) Hw Ht) as (w' & Ew & Hw'). rewrite Ew; cbn [bind].
    destruct (IH (W + Q) w' Hw' ltac:(lia) HF') as (r & Er & Hr).
    exists r. split; [exact Er|]. cbn [length]. rewrite Nat2Z.inj_succ.
    eapply bnd_weaken; [|exact Hr]. lia.
Qed.

(** one row of the matrix-vector product: L products, accumulated; bound L*Q *)
Lemma row_ref_total A B row v : 0 <= A -> 0 <= B -> A * B < 2 ^ 31 * Q ->
  length row = length v -> (1 <= length row)%nat -> Z.of_nat (length row) * Q <= 2 ^ 31 ->
  Forall (bnd A) row -> Forall (bnd B) v ->
  exists r, row_ref row v = Ok r /\ bnd (Z.of_nat (length row) * Q) r.
Proof.
  intros HA HB HAB Hl H1 HL Hr Hv. unfold row_ref.
  destruct row as [|a row]; [cbn [length] in H1; lia|]. destruct v as [|b v]; [discriminate|].
  cbn [combine]. inversion Hr as [|? ? Ha Hr']; subst. inversion Hv as [|? ? Hb Hv']; subst.
  destruct (poly_pw_total A B a b HA HB HAB Ha Hb) as (w & Ew & Hw). rewrite Ew; cbn [bind].
  cbn [length] in *. rewrite Nat2Z.inj_succ in *.
  assert (Lc : length (combine row v) = length row) by (rewrite combine_length; lia).
  destruct (acc_ref_total A B HA HB HAB (combine row v) Q w Hw) as (r & Er & Hr2).
  - rewrite Lc. lia.
  - apply Forall_combine; assumption.
  - exists r. split; [exact Er|]. rewrite Lc in Hr2. eapply bnd_weaken; [|exact Hr2]. lia.
Qed.

Lemma ntt_total B a : B + 8 * Q <= 2 ^ 31 -> bnd B a -> exists r, poly_ntt a = Ok r /\ bnd (B + 8 * Q) r.
Proof.
  intros HB (La & Fa). destruct (ntt_ok_gen a B La HB Fa) as (r & Er & Lr & Fr & _).
  exists r. split; [exact Er|]. split; assumption.
Qed.

Lemma invntt_total a : bnd Q a -> exists r, poly_invntt_tomont a = Ok r /\ bnd Q r.
Proof.
  intros (La & Fa). destruct (invntt_ok a La Fa) as (r & Er & Lr & Fr & _).
  exists r. split; [exact Er|]. split; assumption.
Qed.

Lemma poly_reduce_total B a : B <= 2 ^ 31 - 2 ^ 22 -> bnd B a -> exists r, poly_reduce a = Ok r /\ bnd Q r.
Proof.
  intros HB (La & Fa). unfold poly_reduce. change (2 ^ 31 - 2 ^ 22) with 2143289344 in HB.
  destruct (mapM_total reduce32 (fun x => - B < x < B) (fun y => - Q < y < Q) a) as (r & Er & Lr & Fr).
  - intros x Hx. destruct (reduce32_ok x) as (y & Ey & _ & Ry).
    + change (2 ^ 31) with 2147483648. change (2 ^ 22) with 4194304. lia.
    + exists y. split; [exact Ey|]. unfold Q. lia.
  - exact Fa.
  - exists r. split; [exact Er|]. split; [lia | exact Fr].
Qed.

Lemma poly_caddq_total a : bnd Q a -> exists r, poly_caddq a = Ok r /\ rng 0 Q r.
Proof.
  intros (La & Fa). unfold poly_caddq.
  destruct (mapM_total caddq (fun x => - Q < x < Q) (fun y => 0 <= y < Q) a) as (r & Er & Lr & Fr).
  - intros x Hx. exists (x mod Q). split; [apply caddq_ok; exact Hx|]. apply Z.mod_pos_bound. unfold Q. lia.
  - exact Fa.
  - exists r. split; [exact Er|]. split; [lia | exact Fr].
Qed.

(** [<< D] on a decoded t1 coefficient (10 bits): 23 bits, nothing is shifted out *)
Lemma poly_shiftl_total a : rng 0 1024 a -> exists r, poly_shiftl a = Ok r /\ bnd 8388608 r.
Proof.
  intros (La & Fa). unfold poly_shiftl.
  destruct (mapM_total (fun c => shl_s 32 c DD) (fun x => 0 <= x < 1024) (fun y => - 8388608 < y < 8388608) a)
    as (r & Er & Lr & Fr).
  - intros x Hx. exists (x * 8192). unfold DD. rewrite shl_s_ok by lia. change (2 ^ 13) with 8192.
    rewrite wrap_id by (try lia; rewrite two31; lia). split; [reflexivity | lia].
  - exact Fa.
  - exists r. split; [exact Er|]. split; [lia | exact Fr].
Qed.

Lemma poly_use_hint_total g88 a h : rng 0 Q a -> rng 0 2 h ->
  exists r, poly_use_hint g88 a h = Ok r /\ rng 0 (MM g88) r.
Proof.
  intros (La & Fa) (Lh & Fh). unfold poly_use_hint.
  destruct (map2M_total (use_hint g88) (fun x => 0 <= x < Q) (fun y => 0 <= y < 2) (fun r => 0 <= r < MM g88))
    with (l1 := a) (l2 := h) as (r & Er & Lr & Fr); try assumption; try lia.
  - intros x y Hx Hy. destruct (use_hint_ok g88 x y Hx ltac:(lia)) as (E & R). eauto.
  - exists r. split; [exact Er|]. split; [lia | exact Fr].
Qed.

Lemma w1_pack_bytes_total g88 a : rng 0 (MM g88) a ->
  exists e, w1_pack_bytes g88 a = Ok e /\ zlen e = (if g88 then 192 else 128) /\ Forall is_byte e.
Proof.
  intros (La & Fa). destruct g88; cbn [MM] in Fa.
  - destruct (w16_pack_spec a) as (E & L); [|exact La|].
    + eapply Forall_impl; [|exact Fa]. cbv beta. unfold w16_rng. intros x Hx. lia.
    + eexists. split; [exact E|]. split; [unfold zlen; rewrite L; reflexivity | apply S_bitpack_bytes].
  - destruct (w14_pack_spec a) as (E & L); [|exact La|].
    + eapply Forall_impl; [|exact Fa]. cbv beta. unfold w14_rng. intros x Hx. lia.
    + eexists. split; [exact E|]. split; [unfold zlen; rewrite L; reflexivity | apply S_bitpack_bytes].
Qed.

Lemma Forall_concat {A} (Pa : A -> Prop) (ll : list (list A)) : Forall (Forall Pa) ll -> Forall Pa (concat ll).
Proof.
  induction 1 as [|l ll Hl _ IH]; cbn [concat]; [constructor|]. apply Forall_app. auto.
Qed.

Lemma k_pack_w1_total P w : 0 <= pK P -> length w = Z.to_nat (pK P) -> Forall (rng 0 (MM (pG88 P))) w ->
  exists buf, k_pack_w1 P (repeatZ 0 (pK P * pPOLYW1 P)) w = Ok buf /\ Forall is_byte buf.
Proof.
  intros HK Lw Fw.
  destruct (mapM_total (w1_pack_bytes (pG88 P)) (rng 0 (MM (pG88 P)))
              (fun e => zlen e = pPOLYW1 P /\ Forall is_byte e) w) as (encs & Ee & Le & Fe).
  - intros a Ha. destruct (w1_pack_bytes_total _ a Ha) as (e & E & L & B). exists e.
    split; [exact E|]. split; [|exact B]. unfold pPOLYW1. exact L.
  - exact Fw.
  - assert (HW : 0 <= pPOLYW1 P) by (unfold pPOLYW1; destruct (pG88 P); lia).
    assert (Lr : zlen (repeatZ 0 (pK P * pPOLYW1 P)) = pK P * pPOLYW1 P).
    { unfold zlen, repeatZ. rewrite repeat_length. nia. }
    destruct (k_pack_w1_ok P (repeatZ 0 (pK P * pPOLYW1 P)) w encs HK Lw Ee) as (E & _ & _).
    + eapply Forall_impl; [|exact Fe]. cbv beta. tauto.
    + rewrite Lr. lia.
    + eexists. split; [exact E|]. apply Forall_app. split.
      * apply Forall_concat. eapply Forall_impl; [|exact Fe]. cbv beta. tauto.
      * apply Forall_skipn'. unfold repeatZ. apply Forall_repeat. unfold is_byte. lia.
Qed.

(** vectors: K (or L) polynomials, each satisfying a predicate *)
Definition vec {A} (n : Z) (Pp : A -> Prop) (v : list A) : Prop := length v = Z.to_nat n /\ Forall Pp v.

Lemma vec_weaken {A} n (Pp Pq : A -> Prop) v : (forall a, Pp a -> Pq a) -> vec n Pp v -> vec n Pq v.
Proof. intros H (L & F). split; [exact L|]. eapply Forall_impl; [exact H | exact F]. Qed.

Lemma vec_mapM_total {A B} n (f : A -> res B) (Pa : A -> Prop) (Pb : B -> Prop) v :
  (forall a, Pa a -> exists y, f a = Ok y /\ Pb y) -> vec n Pa v ->
  exists r, mapM f v = Ok r /\ vec n Pb r.
Proof.
  intros Hf (L & F). destruct (mapM_total f Pa Pb v Hf F) as (r & Er & Lr & Fr).
  exists r. split; [exact Er|]. split; [lia | exact Fr].
Qed.

Lemma vec_map2M_total n (f : list Z -> list Z -> res (list Z)) (Pa Pb Pc : list Z -> Prop) v w :
  (forall a b, Pa a -> Pb b -> exists y, f a b = Ok y /\ Pc y) -> vec n Pa v -> vec n Pb w ->
  exists r, map2M f v w = Ok r /\ vec n Pc r.
Proof.
  intros Hf (L & F) (L' & F').
  destruct (map2M_total f Pa Pb Pc Hf v w ltac:(lia) F F') as (r & Er & Lr & Fr).
  exists r. split; [exact Er|]. split; [lia | exact Fr].
Qed.

(** numeric side conditions on a parameter set used by the arithmetic chain *)
Definition dims_ok (P : params) : Prop := 1 <= pK P /\ 1 <= pL P <= 7.

Section Chain.
  Variable P : params.
  Hypothesis HD : dims_ok P.

  (** matrix entries: L uniform polynomials per row *)
  Definition mat_ok (mat : list (list (list Z))) : Prop :=
    length mat = Z.to_nat (pK P) /\ Forall (vec (pL P) (rng 0 Q)) mat.

  (** the part of [verify_w1] after the two samplers.  Inputs: matrix entries in [0,Q), challenge ternary,
      |z| < Q, t1 on 10 bits, hint bits.  Every intermediate range is the one in the comments. *)
  Definition verify_arith (mat : list (list (list Z))) (cp : list Z) (t1 z h : list (list Z)) : res (list Z) :=
    do zhat <- l_ntt P z;
    do w1 <- matrix_pointwise_montgomery P (zvec (pK P)) mat zhat;
    do chat <- poly_ntt cp;
    do t1s <- k_shiftl P t1;
    do t1h <- k_ntt P t1s;
    do ct1 <- k_pointwise_poly_montgomery P t1h chat t1h;
    do w1 <- k_sub P w1 ct1;
    do w1 <- k_reduce P w1;
    do w1 <- k_invntt_tomont P w1;
    do w1 <- k_caddq P w1;
    do w1 <- k_use_hint P w1 h;
    k_pack_w1 P (repeatZ 0 (pK P * pPOLYW1 P)) w1.

  Theorem verify_arith_ok mat cp t1 z h :
    mat_ok mat -> bnd 2 cp -> vec (pK P) (rng 0 1024) t1 -> vec (pL P) (bnd Q) z -> vec (pK P) (rng 0 2) h ->
    exists buf, verify_arith mat cp t1 z h = Ok buf /\ Forall is_byte buf.
  Proof.
    destruct HD as (HK & HL1 & HL7).
    intros (Lmat & Fmat) Hcp Ht1 Hz Hh. unfold verify_arith.
    assert (Q9 : 9 * Q = Q + 8 * Q) by lia.
    (* zhat = NTT(z): |.| < 9Q *)
    destruct (vec_mapM_total (pL P) poly_ntt (bnd Q) (bnd (9 * Q)) z) as (zhat & Ezh & Hzh); [|exact Hz|].
    { intros a Ha. rewrite Q9. apply ntt_total; [unfold Q; lia | exact Ha]. }
    rewrite l_ntt_lift by (apply Hz). rewrite Ezh; cbn [bind].
    (* w1 = A o zhat: each product < 9Q^2 < 2^31 Q; L <= 7 accumulated terms: |.| < 7Q *)
    assert (Ew1 : exists w1, matrix_pointwise_montgomery P (zvec (pK P)) mat zhat = Ok w1 /\ vec (pK P) (bnd (7 * Q)) w1).
    { rewrite matrix_pointwise_montgomery_lift; try lia.
      - apply (vec_mapM_total (pK P) (fun row => row_ref row zhat) (vec (pL P) (rng 0 Q))); [|split; assumption].
        intros row (Lrow & Frow). destruct Hzh as (Lzh & Fzh).
        destruct (row_ref_total Q (9 * Q) row zhat) as (r & Er & Hr); try (unfold Q; lia).
        + eapply Forall_impl; [|exact Frow]. intros a. apply rng_bnd; unfold Q; lia.
        + exact Fzh.
        + exists r. split; [exact Er|]. eapply bnd_weaken; [|exact Hr]. unfold Q. lia.
      - rewrite zvec_length. reflexivity.
      - intros row Hrow. rewrite Forall_forall in Fmat. apply (Fmat row Hrow).
      - apply Hzh. }
    destruct Ew1 as (w1 & Ew1 & Hw1). rewrite Ew1; cbn [bind].
    (* chat = NTT(c): |c| <= 1, |chat| < 9Q *)
    destruct (ntt_total Q cp) as (chat & Ech & Hch); [unfold Q; lia | eapply bnd_weaken; [|exact Hcp]; unfold Q; lia |].
    rewrite Ech; cbn [bind]. rewrite <- Q9 in Hch.
    (* t1 << 13 < 2^23 *)
    destruct (vec_mapM_total (pK P) poly_shiftl (rng 0 1024) (bnd 8388608) t1 poly_shiftl_total Ht1) as (t1s & Et1s & Ht1s).
    rewrite k_shiftl_lift by (apply Ht1). rewrite Et1s; cbn [bind].
    (* NTT of that: 2^23 + 8Q <= 2^31 *)
    destruct (vec_mapM_total (pK P) poly_ntt (bnd 8388608) (bnd (8388608 + 8 * Q)) t1s) as (t1h & Et1h & Ht1h); [|exact Ht1s|].
    { intros a Ha. apply ntt_total; [unfold Q; lia | exact Ha]. }
    rewrite k_ntt_lift by (apply Ht1s). rewrite Et1h; cbn [bind].
    (* chat o t1hat: 9Q (2^23 + 8Q) < 2^31 Q *)
    destruct (vec_mapM_total (pK P) (poly_pointwise_montgomery chat) (bnd (8388608 + 8 * Q)) (bnd Q) t1h) as (ct1 & Ect1 & Hct1);
      [|exact Ht1h|].
    { intros b Hb. apply (poly_pw_total (9 * Q) (8388608 + 8 * Q)); try assumption; unfold Q; lia. }
    rewrite k_pointwise_poly_montgomery_lift by (apply Ht1h). rewrite Ect1; cbn [bind].
    (* w1 - c t1: < 7Q + Q *)
    destruct (vec_map2M_total (pK P) poly_sub (bnd (7 * Q)) (bnd Q) (bnd (8 * Q)) w1 ct1) as (w1a & Ea & Ha); try assumption.
    { intros a b Ha Hb. replace (8 * Q) with (7 * Q + Q) by lia. apply poly_sub_total; try assumption. unfold Q. lia. }
    rewrite k_sub_lift by (apply Hw1 || apply Hct1). rewrite Ea; cbn [bind].
    (* reduce32: 8Q is inside its domain *)
    destruct (vec_mapM_total (pK P) poly_reduce (bnd (8 * Q)) (bnd Q) w1a) as (w1b & Eb & Hb); [|exact Ha|].
    { intros a Haa. apply (poly_reduce_total (8 * Q)); [unfold Q; lia | exact Haa]. }
    rewrite k_reduce_lift by (apply Ha). rewrite Eb; cbn [bind].
    destruct (vec_mapM_total (pK P) poly_invntt_tomont (bnd Q) (bnd Q) w1b invntt_total Hb) as (w1c & Ec & Hc).
    rewrite k_invntt_tomont_lift by (apply Hb). rewrite Ec; cbn [bind].
    destruct (vec_mapM_total (pK P) poly_caddq (bnd Q) (rng 0 Q) w1c poly_caddq_total Hc) as (w1d & Ed & Hd).
    rewrite k_caddq_lift by (apply Hc). rewrite Ed; cbn [bind].
    destruct (vec_map2M_total (pK P) (poly_use_hint (pG88 P)) (rng 0 Q) (rng 0 2) (rng 0 (MM (pG88 P))) w1d h
                (poly_use_hint_total (pG88 P)) Hd Hh) as (w1e & Ee & He).
    rewrite k_use_hint_lift by (apply Hd || apply Hh). rewrite Ee; cbn [bind].
    apply k_pack_w1_total; [lia | apply He | apply He].
  Qed.
End Chain.

(** * 3. Checked access: total versions *)

Lemma get_total {A} (Pa : A -> Prop) (l : list A) i :
  Forall Pa l -> 0 <= i < zlen l -> exists x, get l i = Ok x /\ Pa x.
Proof.
  intros HF Hi. unfold get. destruct (Z.ltb_spec i 0); [lia|].
  destruct (nth_error l (Z.to_nat i)) eqn:E.
  - exists a. split; [reflexivity|]. apply nth_error_In in E. rewrite Forall_forall in HF. auto.
  - apply nth_error_None in E. unfold zlen in Hi. lia.
Qed.

Lemma set_nat_total {A} (Pa : A -> Prop) v : Pa v -> forall (l : list A) i, Forall Pa l -> (i < length l)%nat ->
  exists r, set_nat l i v = Ok r /\ length r = length l /\ Forall Pa r.
Proof.
  intros Hv. induction l as [|x l IH]; intros i HF Hi; cbn [length] in Hi; [lia|].
  inversion HF as [|? ? Hx HF']; subst. destruct i as [|i]; cbn [set_nat].
  - exists (v :: l). split; [reflexivity|]. split; [reflexivity | constructor; assumption].
  - destruct (IH i HF' ltac:(lia)) as (r & Er & Lr & Fr). rewrite Er; cbn [bind].
    exists (x :: r). split; [reflexivity|]. split; [cbn [length]; lia | constructor; assumption].
Qed.

Lemma set_total {A} (Pa : A -> Prop) (l : list A) i v : Pa v -> Forall Pa l -> 0 <= i < zlen l ->
  exists r, set l i v = Ok r /\ length r = length l /\ Forall Pa r.
Proof.
  intros Hv HF Hi. unfold set. destruct (Z.ltb_spec i 0); [lia|].
  apply set_nat_total; try assumption. unfold zlen in Hi. lia.
Qed.

Lemma Forall_zrange (Pz : Z -> Prop) a b : (forall i, a <= i < b -> Pz i) -> Forall Pz (zrange a b).
Proof. intros H. apply Forall_forall. intros i Hi. apply H. apply zrange_In. exact Hi. Qed.

Lemma slice_to_ok {A} (l : list A) b : 0 <= b <= zlen l -> slice_to l b = Ok (firstn (Z.to_nat b) l).
Proof. intros. unfold slice_to. rewrite andb_leb by lia. reflexivity. Qed.

Lemma zlen_skipn {A} (l : list A) n : 0 <= n <= zlen l -> zlen (skipn (Z.to_nat n) l) = zlen l - n.
Proof. intros H. unfold zlen in *. rewrite skipn_length. lia. Qed.

Lemma zlen_repeatZ {A} (x : A) n : 0 <= n -> zlen (repeatZ x n) = n.
Proof. intros. unfold zlen, repeatZ. rewrite repeat_length. lia. Qed.

(** writing a full-length source over a zero buffer *)
Lemma splice_full n src : 0 <= n -> zlen src = n -> splice (repeatZ 0 n) 0 src = Ok src.
Proof.
  intros Hn Hs. rewrite splice0 by (rewrite zlen_repeatZ; lia). f_equal.
  rewrite skipn_all2; [apply app_nil_r|]. unfold repeatZ. rewrite repeat_length. unfold zlen in Hs. lia.
Qed.

(** * 4. Decoding the public key *)

Lemma unpack_pk_total P pk : 0 <= pK P -> Forall is_byte pk -> zlen pk = pPK P ->
  exists rho t1, unpack_pk P (repeatZ 0 32) (zvec (pK P)) pk = Ok (rho, t1) /\
    Forall is_byte rho /\ zlen rho = 32 /\ vec (pK P) (rng 0 1024) t1.
Proof.
  intros HK Hb Hl. unfold pPK, SEEDBYTES, POLYT1 in Hl. unfold unpack_pk. cbv zeta. unfold SEEDBYTES, POLYT1.
  rewrite slice_to_ok by lia. cbn [bind].
  assert (L32 : zlen (firstn (Z.to_nat 32) pk) = 32) by (apply zlen_firstn; lia).
  rewrite splice_full by (exact L32 || lia). cbn [bind].
  rewrite for_idx_index by apply zvec_length.
  destruct (mapM_total (fun i => do s <- slice_from pk (32 + i * 320); t1_unpack s)
              (fun i => 0 <= i < pK P) (rng 0 1024) (zrange 0 (pK P))) as (t1 & E1 & L1 & F1).
  - intros i Hi. rewrite slice_from_ok by nia. cbn [bind].
    destruct (t1_unpack_total (skipn (Z.to_nat (32 + i * 320)) pk)) as (a & Ea & La & Fa).
    + apply Forall_skipn'. exact Hb.
    + pose proof (zlen_skipn pk (32 + i * 320) ltac:(nia)) as Z1. unfold zlen in *. lia.
    + exists a. split; [exact Ea|]. split; [exact La | exact Fa].
  - apply Forall_zrange. auto.
  - rewrite E1. cbn [bind]. eexists _, t1. split; [reflexivity|].
    split; [apply Forall_firstn'; exact Hb|]. split; [exact L32|].
    split; [|exact F1]. rewrite L1, zrange_length. f_equal. lia.
Qed.

(** * 5. Decoding the signature *)

(** ** the z part *)
Definition zrng (g1 : Z) (a : list Z) : Prop := length a = 256%nat /\ Forall (fun x => - g1 < x <= g1) a.

Lemma z_unpack_total g1 b :
  g1 = 131072 \/ g1 = 524288 -> Forall is_byte b -> (if g1 =? 131072 then 576 else 640) <= zlen b ->
  exists a, z_unpack g1 b = Ok a /\ zrng g1 a.
Proof.
  intros [-> | ->] Hb Hl; cbn [Z.eqb Pos.eqb] in Hl; unfold zlen in Hl.
  - destruct (z17_unpack_total b Hb ltac:(lia)) as (a & E & L & F). exists a. split; [exact E|]. split; assumption.
  - destruct (z19_unpack_total b Hb ltac:(lia)) as (a & E & L & F). exists a. split; [exact E|]. split; assumption.
Qed.

(** ** the hint part: [hs] is the hint section of the signature, OMEGA + K bytes *)

(** one row: positions k..cnt-1 of [hs] are read (and position j-1 >= k for the ordering test); each value is a
    byte, hence a valid index into the 256-entry row; only 1 is ever written *)
Lemma unpack_hint_row_total hs W : Forall is_byte hs -> W <= zlen hs -> W <= 256 -> forall js hrow k,
  0 <= k -> (forall j, In j js -> k <= j < W) -> rng 0 2 hrow ->
  exists hrow' ok, unpack_hint_row hs hrow js k = Ok (hrow', ok) /\ rng 0 2 hrow'.
Proof.
  intros Hb HW HW8. induction js as [|j js IH]; intros hrow k Hk Hjs Hr; cbn [unpack_hint_row].
  - exists hrow, true. auto.
  - assert (Hj : k <= j < W) by (apply Hjs; left; reflexivity).
    destruct (get_total is_byte hs j Hb ltac:(lia)) as (cur & Ecur & Bcur). rewrite Ecur; cbn [bind].
    assert (Ebad : exists bad, (if k <? j then do i1 <- usize_sub j 1; do prev <- get hs i1; Ok (cur <=? prev) else Ok false)
                               = Ok bad).
    { destruct (Z.ltb_spec k j) as [Hlt|_]; [|eauto].
      rewrite PSample.usize_sub_ok by lia. cbn [bind].
      destruct (get_total is_byte hs (j - 1) Hb ltac:(lia)) as (prev & Eprev & _). rewrite Eprev; cbn [bind]. eauto. }
    destruct Ebad as (bad & Ebad). rewrite Ebad; cbn [bind].
    destruct bad; [exists hrow, false; auto|].
    destruct Hr as (Lr & Fr).
    destruct (set_total (fun x => 0 <= x < 2) hrow cur 1 ltac:(cbv beta; lia) Fr) as (hrow' & Es & Ls & Fs).
    { unfold zlen. rewrite Lr. unfold is_byte in Bcur. lia. }
    rewrite Es; cbn [bind]. apply IH; [exact Hk | | split; [lia | exact Fs]].
    intros j' Hj'. apply Hjs. right. exact Hj'.
Qed.

Lemma u8_small k : 0 <= k < 256 -> u8 k = k.
Proof. intros H. unfold u8. change 255 with (Z.ones 8). rewrite Z.land_ones by lia. apply Z.mod_small. exact H. Qed.

(** all rows: the per-row counter is checked against the previous one and against OMEGA before it is used as a
    loop bound; the running counter is therefore a byte that is at most OMEGA *)
Lemma unpack_hint_loop_total P hs : Forall is_byte hs -> pOMEGA P + pK P <= zlen hs -> 0 <= pOMEGA P ->
  forall is h k,
  (forall i, In i is -> 0 <= i < pK P) -> 0 <= k <= pOMEGA P -> k < 256 -> vec (pK P) (rng 0 2) h ->
  exists h' k' ok, unpack_hint_loop P hs h is k = Ok (h', k', ok) /\ vec (pK P) (rng 0 2) h' /\ 0 <= k' <= pOMEGA P.
Proof.
  intros Hb Hl HO. induction is as [|i is IH]; intros h k His Hk Hk8 Hh; cbn [unpack_hint_loop].
  - exists h, k, true. auto.
  - assert (Hi : 0 <= i < pK P) by (apply His; left; reflexivity).
    destruct (get_total is_byte hs (pOMEGA P + i) Hb ltac:(lia)) as (cnt & Ecnt & Bcnt). rewrite Ecnt; cbn [bind].
    rewrite u8_small by lia.
    destruct (Z.ltb_spec cnt k) as [_|Hck]; cbn [orb]; [exists h, k, false; auto|].
    destruct (Z.ltb_spec (pOMEGA P) cnt) as [_|Hco]; [exists h, k, false; auto|].
    destruct Hh as (Lh & Fh).
    destruct (get_total (rng 0 2) h i Fh) as (hrow & Erow & Hrow); [unfold zlen; lia|]. rewrite Erow; cbn [bind].
    destruct (unpack_hint_row_total hs cnt Hb ltac:(lia) ltac:(unfold is_byte in Bcnt; lia) (zrange k cnt) hrow k ltac:(lia))
      as (hrow' & ok & Er & Hr').
    { intros j Hj. apply zrange_In in Hj. lia. }
    { exact Hrow. }
    rewrite Er; cbn [bind].
    destruct (set_total (rng 0 2) h i hrow' Hr' Fh) as (h' & Es & Ls & Fs); [unfold zlen; lia|].
    rewrite Es; cbn [bind].
    destruct ok.
    + apply IH; [intros i' Hi'; apply His; right; exact Hi' | lia | unfold is_byte in Bcnt; lia | split; [lia | exact Fs]].
    + exists h', k, false. split; [reflexivity|]. split; [split; [lia | exact Fs] | lia].
Qed.

Lemma all_zero_from_total hs : forall js, (forall j, In j js -> 0 <= j < zlen hs) ->
  exists b, all_zero_from hs js = Ok b.
Proof.
  induction js as [|j js IH]; intros Hjs; cbn [all_zero_from]; [eauto|].
  destruct (get_total (fun _ => True) hs j) as (b & Eb & _).
  { apply Forall_forall. auto. } { apply Hjs. left. reflexivity. }
  rewrite Eb; cbn [bind]. destruct (0 <? b); [eauto|]. apply IH. intros j' Hj'. apply Hjs. right. exact Hj'.
Qed.

Lemma zvec_hint_ok n : vec n (rng 0 2) (zvec n).
Proof.
  split; [apply zvec_length|]. unfold zvec, repeatZ. apply Forall_repeat.
  split; [unfold zpoly, repeatZ; apply repeat_length|]. unfold zpoly, repeatZ. apply Forall_repeat. lia.
Qed.

(** the hint decoder never panics on OMEGA + K bytes, and returns K rows of 256 bits *)
Theorem unpack_hints_total P hs : Forall is_byte hs -> pOMEGA P + pK P <= zlen hs -> 0 <= pOMEGA P -> 0 <= pK P ->
  exists h k ok, unpack_hint_loop P hs (zvec (pK P)) (zrange 0 (pK P)) 0 = Ok (h, k, ok) /\
    vec (pK P) (rng 0 2) h /\ 0 <= k <= pOMEGA P /\
    exists ok2, all_zero_from hs (zrange k (pOMEGA P)) = Ok ok2.
Proof.
  intros Hb Hl HO HK.
  destruct (unpack_hint_loop_total P hs Hb Hl HO (zrange 0 (pK P)) (zvec (pK P)) 0) as (h & k & ok & E & Hh & Hk);
    try lia.
  - intros i Hi. apply zrange_In in Hi. exact Hi.
  - apply zvec_hint_ok.
  - exists h, k, ok. split; [exact E|]. split; [exact Hh|]. split; [exact Hk|].
    apply all_zero_from_total. intros j Hj. apply zrange_In in Hj. lia.
Qed.

(** ** the whole signature *)
Definition gamma1_ok (P : params) : Prop := pGAMMA1 P = 131072 \/ pGAMMA1 P = 524288.

Theorem unpack_sig_total P sig :
  gamma1_ok P -> 0 <= pK P -> 0 <= pL P -> 0 <= pCT P -> 0 <= pOMEGA P ->
  Forall is_byte sig -> zlen sig = pSIG P ->
  exists c z h ok, unpack_sig P (repeatZ 0 (pCT P)) (zvec (pL P)) (zvec (pK P)) sig = Ok (c, z, h, ok) /\
    Forall is_byte c /\ zlen c = pCT P /\ vec (pL P) (zrng (pGAMMA1 P)) z /\ vec (pK P) (rng 0 2) h.
Proof.
  intros Hg HK HL HC HO Hb Hl. unfold pSIG in Hl. unfold unpack_sig. cbv zeta.
  assert (HZ : 0 <= pPOLYZ P) by (unfold pPOLYZ; destruct (pGAMMA1 P =? 131072); lia).
  rewrite slice_to_ok by nia. cbn [bind].
  assert (LC : zlen (firstn (Z.to_nat (pCT P)) sig) = pCT P) by (apply zlen_firstn; nia).
  rewrite splice_full by (exact LC || lia). cbn [bind].
  rewrite for_idx_index by apply zvec_length.
  destruct (mapM_total (fun i => do s <- slice_from sig (pCT P + i * pPOLYZ P); z_unpack (pGAMMA1 P) s)
              (fun i => 0 <= i < pL P) (zrng (pGAMMA1 P)) (zrange 0 (pL P))) as (z & Ez & Lz & Fz).
  - intros i Hi. rewrite slice_from_ok by nia. cbn [bind].
    apply z_unpack_total; [exact Hg | apply Forall_skipn'; exact Hb |].
    rewrite zlen_skipn by nia. fold (pPOLYZ P). nia.
  - apply Forall_zrange. auto.
  - rewrite Ez. cbn [bind]. rewrite slice_from_ok by nia. cbn [bind].
    set (hs := skipn (Z.to_nat (pCT P + pL P * pPOLYZ P)) sig).
    assert (Lhs : zlen hs = pOMEGA P + pK P) by (unfold hs; rewrite zlen_skipn by nia; lia).
    destruct (unpack_hints_total P hs) as (h & k & ok & Eh & Hh & Hk & ok2 & E2); try lia.
    { apply Forall_skipn'. exact Hb. }
    rewrite Eh; cbn [bind].
    assert (Hz : vec (pL P) (zrng (pGAMMA1 P)) z).
    { split; [|exact Fz]. rewrite Lz, zrange_length. f_equal. lia. }
    destruct ok; cbn [negb].
    + rewrite E2; cbn [bind]. eexists _, z, h, ok2. split; [reflexivity|].
      split; [apply Forall_firstn'; exact Hb|]. auto.
    + eexists _, z, h, false. split; [reflexivity|].
      split; [apply Forall_firstn'; exact Hb|]. auto.
Qed.

(** * 6. Hashing *)

(** [shake256] with a short output (no full block) written at the front of a longer buffer: the case of
    tr (32 bytes into a 64-byte array) in the Dilithium sets *)
Lemma shake256_short_ok out n inp : Forall is_byte inp -> 0 <= n < 136 -> n <= zlen out ->
  shake256 out n inp (zlen inp) = Ok (S_shake 136 inp (Z.to_nat n) ++ skipn (Z.to_nat n) out).
Proof.
  intros Hb Hn Ho. unfold shake256, shake256_absorb_once, shake256_squeezeblocks, shake256_squeeze.
  change SHAKE256_RATE with (Z.of_nat 136).
  rewrite absorb_once_state by (exact rate_ok_136 || exact Hb). cbn [bind].
  pose proof (sq_inv_fin 136 inp rate_ok_136) as Hi.
  set (st := {| ks := fin_state 136 inp; kpos := Z.of_nat 136 |}) in *.
  rewrite (Z.div_small n (Z.of_nat 136)) by lia.
  destruct (squeezeblocks_inv 136 st inp 0 out 0 rate_ok_136 Hi) as (st1 & E1 & Hi1); try reflexivity; try lia.
  cbv zeta in E1, Hi1. change (Z.to_nat 0 * 136)%nat with 0%nat in *. cbn [firstn skipn app Nat.add] in E1, Hi1.
  rewrite E1. cbn [bind]. change (0 * Z.of_nat 136) with 0.
  rewrite PSample.usize_sub_ok by lia. cbn [bind]. rewrite Z.sub_0_r.
  rewrite slice_from_ok by (unfold zlen; lia). cbn [bind]. change (Z.to_nat 0) with 0%nat. cbn [skipn].
  destruct (squeeze_inv_gen 136 st1 inp 0 out n rate_ok_136 Hi1) as (st2 & E2 & _);
    [change (2 ^ 64) with 18446744073709551616; lia | exact Ho |].
  cbn [Nat.add skipn] in E2. rewrite E2. cbn [bind].
  rewrite firstn_all2 by (rewrite (proj1 (S_shake_length_bytes 136 inp (Z.to_nat n) ltac:(lia))); lia).
  set (T := S_shake 136 inp (Z.to_nat n)).
  assert (LT : length T = Z.to_nat n) by (apply S_shake_length_bytes; lia).
  rewrite splice0 by (unfold zlen in *; rewrite app_length, skipn_length; lia).
  f_equal. set (R := T ++ skipn (Z.to_nat n) out).
  assert (LR : (length out <= length R)%nat) by (unfold R; rewrite app_length, skipn_length; unfold zlen in Ho; lia).
  rewrite (skipn_all2 out LR). apply app_nil_r.
Qed.

Lemma S_shake_bytes m d : Forall is_byte (S_shake 136 m d).
Proof. apply S_shake_length_bytes. lia. Qed.

(** tr = H(pk) for both conventions (TR = 32 into 64 bytes, or TR = 64) *)
Lemma tr_hash_total n inp : Forall is_byte inp -> n = 32 \/ n = 64 ->
  exists tr, shake256 (repeatZ 0 64) n inp (zlen inp) = Ok tr /\ Forall is_byte tr.
Proof.
  intros Hb Hn. rewrite shake256_short_ok; [| exact Hb | lia | rewrite zlen_repeatZ; lia].
  eexists. split; [reflexivity|]. apply Forall_app. split; [apply S_shake_bytes|].
  apply Forall_skipn'. unfold repeatZ. apply Forall_repeat. unfold is_byte. lia.
Qed.

Lemma hash_total chunks n : Forall (Forall is_byte) chunks -> 0 <= n < 2 ^ 64 ->
  exists o, shake256_hash chunks n = Ok o /\ Forall is_byte o /\ zlen o = n.
Proof.
  intros Hc Hn. rewrite shake256_hash_ok by assumption. eexists. split; [reflexivity|].
  split; [apply S_shake_bytes|]. unfold zlen. rewrite (proj1 (S_shake_length_bytes 136 _ _ ltac:(lia))). lia.
Qed.

(** * 7. Assembly *)

(** numeric side conditions on a parameter set *)
Definition pset_ok (P : params) : Prop :=
  dims_ok P /\ gamma1_ok P /\ 0 <= pCT P < 2 ^ 64 /\ 0 <= pOMEGA P /\
  0 < pGAMMA1 P - pBETA P <= 1047552 /\ (pTR P = 32 \/ pTR P = 64).

Lemma std_pset_ok P : std P -> pset_ok P.
Proof.
  intros [H|[H|[H|[H|[H|H]]]]]; subst P; unfold pset_ok, dims_ok, gamma1_ok; cbn;
    change (2 ^ 64) with 18446744073709551616; lia.
Qed.

(** what is assumed about the two rejection samplers (they run the real SHAKE) *)
Definition challenge_no_panic (P : params) : Prop :=
  forall seed, Forall is_byte seed -> zlen seed >= pCT P -> poly_challenge (pTAU P) (pCT P) seed <> Panic.
Definition expand_no_panic (P : params) : Prop :=
  forall rho, Forall is_byte rho -> zlen rho >= 32 -> matrix_expand P (zmat (pK P) (pL P)) rho <> Panic.
(** shapes of what they return (proved below for any XOF, see [challenge_shape_holds], [expand_shape_holds]) *)
Definition challenge_shape (P : params) : Prop :=
  forall seed cp, poly_challenge (pTAU P) (pCT P) seed = Ok cp -> bnd 2 cp.
Definition expand_shape (P : params) : Prop :=
  forall rho mat, matrix_expand P (zmat (pK P) (pL P)) rho = Ok mat -> mat_ok P mat.

Ltac bind_inv H x Hx := apply bind_ok in H as (x & Hx & H).

Theorem verify_total_gen P sig m pk :
  pset_ok P -> challenge_no_panic P -> challenge_shape P -> expand_no_panic P -> expand_shape P ->
  Forall is_byte sig -> Forall is_byte m -> Forall is_byte pk -> zlen pk = pPK P ->
  verify P sig m pk <> Panic.
Proof.
  intros (HD & Hg & HC & HO & HB & HTR) HCn HCs HMn HMs Bsig Bm Bpk Lpk.
  pose proof HD as (HK & HL1 & HL7).
  unfold verify.
  (* a. the length gate *)
  destruct (Z.eqb_spec (zlen sig) (pSIG P)) as [El|El]; cbn [negb]; [|discriminate].
  (* b. public key *)
  destruct (unpack_pk_total P pk ltac:(lia) Bpk Lpk) as (rho & t1 & Epk & Brho & Lrho & Ht1).
  rewrite Epk; cbn [bind].
  (* c. signature *)
  destruct (unpack_sig_total P sig Hg ltac:(lia) ltac:(lia) ltac:(lia) HO Bsig El)
    as (c & z & h & ok & Esig & Bc & Lc & Hz & Hh).
  rewrite Esig; cbn [bind].
  destruct ok; cbn [negb]; [|discriminate].
  (* d. the norm check on z *)
  assert (Hsm : forall a, In a z -> Forall (fun x => -1073741824 <= x <= 1073741823) a).
  { intros a Ha. destruct Hz as (_ & Fz). rewrite Forall_forall in Fz. destruct (Fz a Ha) as (_ & Fa).
    eapply Forall_impl; [|exact Fa]. cbv beta. intros x Hx. destruct Hg as [E|E]; rewrite E in Hx; lia. }
  pose proof (l_chknorm_exact P z (pGAMMA1 P - pBETA P) Hsm ltac:(lia) (proj1 Hz) ltac:(lia)) as Ecn.
  rewrite Ecn; cbn [bind].
  set (cn := if existsb (fun a => existsb (fun x => pGAMMA1 P - pBETA P <=? Z.abs x) a) z then 1 else 0) in *.
  destruct (Z.ltb_spec 0 cn) as [_|Hcn]; [discriminate|].
  assert (Hz' : vec (pL P) (bnd Q) z).
  { split; [apply Hz|]. apply Forall_forall. intros a Ha.
    destruct Hz as (Lz & Fz). rewrite Forall_forall in Fz. destruct (Fz a Ha) as (La & _).
    split; [exact La|]. apply Forall_forall. intros x Hx.
    pose proof (vec_chknorm_pass z (pGAMMA1 P - pBETA P) (pL P) cn Hsm Lz Ecn Hcn a Ha x Hx) as Hax.
    destruct Hg as [E|E]; rewrite E in *; unfold Q; lia. }
  (* e. the two hashes *)
  rewrite <- Lpk.
  destruct (tr_hash_total (pTR P) pk Bpk HTR) as (tr & Etr & Btr). rewrite Etr; cbn [bind].
  destruct (hash_total [firstn (Z.to_nat (pTR P)) tr; m] CRHBYTES) as (mu & Emu & Bmu & _).
  { repeat constructor; [apply Forall_firstn'; exact Btr | exact Bm]. }
  { unfold CRHBYTES. change (2 ^ 64) with 18446744073709551616. lia. }
  rewrite Emu; cbn [bind].
  (* f. the samplers *)
  destruct (poly_challenge (pTAU P) (pCT P) c) as [cp| |] eqn:Ecp; cbn [bind];
    [| exfalso; exact (HCn c Bc ltac:(lia) Ecp) | discriminate].
  destruct (matrix_expand P (zmat (pK P) (pL P)) rho) as [mat| |] eqn:Emat; cbn [bind];
    [| exfalso; exact (HMn rho Brho ltac:(lia) Emat) | discriminate].
  (* g. the arithmetic *)
  destruct (verify_arith_ok P HD mat cp t1 z h (HMs rho mat Emat) (HCs c cp Ecp) Ht1 Hz' Hh) as (buf & Ebuf & Bbuf).
  unfold verify_arith in Ebuf.
  bind_inv Ebuf zhat Hzhat. bind_inv Ebuf w1 Hw1. bind_inv Ebuf chat Hchat. bind_inv Ebuf t1s Ht1s.
  bind_inv Ebuf t1h Ht1h. bind_inv Ebuf ct1 Hct1. bind_inv Ebuf w1a Hw1a. bind_inv Ebuf w1b Hw1b.
  bind_inv Ebuf w1c Hw1c. bind_inv Ebuf w1d Hw1d. bind_inv Ebuf w1e Hw1e.
  rewrite Hzhat; cbn [bind]. rewrite Hw1; cbn [bind]. rewrite Hchat; cbn [bind]. rewrite Ht1s; cbn [bind].
  rewrite Ht1h; cbn [bind]. rewrite Hct1; cbn [bind]. rewrite Hw1a; cbn [bind]. rewrite Hw1b; cbn [bind].
  rewrite Hw1c; cbn [bind]. rewrite Hw1d; cbn [bind]. rewrite Hw1e; cbn [bind]. rewrite Ebuf; cbn [bind].
  (* h. the final hash *)
  destruct (hash_total [mu; buf] (pCT P)) as (c2 & Ec2 & _); [repeat constructor; assumption | exact HC |].
  rewrite Ec2; cbn [bind]. discriminate.
Qed.

(** * 8. Shapes of the sampled objects, for ANY XOF

    Neither fact depends on what the XOF returns: the challenge sampler only ever writes +1/-1 and moves
    existing entries around in a 256-entry array; the uniform sampler only ever writes accepted 23-bit
    candidates (< Q) over a 256-entry array. *)

Lemma get_In {A} (l : list A) i x : get l i = Ok x -> In x l.
Proof. intros H. apply get_ok_inv in H as (_ & H). exact (nth_error_In _ _ H). Qed.

Lemma set_nat_Forall {A} (Pa : A -> Prop) v : Pa v -> forall (l : list A) i r,
  Forall Pa l -> set_nat l i v = Ok r -> Forall Pa r.
Proof.
  intros Hv. induction l as [|x l IH]; intros i r HF H; [discriminate|].
  inversion HF as [|? ? Hx HF']; subst. destruct i as [|i]; cbn [set_nat] in H.
  - inversion H; subst. constructor; assumption.
  - bind_inv H r' Hr'. inversion H; subst. constructor; [exact Hx|]. exact (IH _ _ HF' Hr').
Qed.

Lemma set_Forall {A} (Pa : A -> Prop) (l : list A) i v r :
  Forall Pa l -> Pa v -> set l i v = Ok r -> Forall Pa r /\ length r = length l.
Proof.
  intros HF Hv H. split; [|exact (set_length _ _ _ _ H)].
  unfold set in H. destruct (i <? 0); [discriminate|]. exact (set_nat_Forall Pa v Hv _ _ _ HF H).
Qed.

Lemma land1_cases s : Z.land s 1 = 0 \/ Z.land s 1 = 1.
Proof.
  assert (E : Z.land s 1 = s mod 2) by (change 1 with (Z.ones 1); rewrite Z.land_ones by lia; reflexivity).
  rewrite E. lia.
Qed.

Section AnyXof.
  Context {St : Type}.
  Variable sq : Z -> St -> res (list Z * St).

  Lemma challenge_loop_shape fuel : forall is st buf pos signs c r,
    length c = 256%nat -> ternary c ->
    challenge_loop sq fuel is st buf pos signs c = Ok r -> length r = 256%nat /\ ternary r.
  Proof.
    induction is as [|i is IH]; intros st buf pos signs c r Lc Tc H; cbn [challenge_loop] in H.
    - inversion H; subst. auto.
    - bind_inv H x Hx. destruct x as [[[b st1] buf1] pos1].
      bind_inv H cb Hcb. bind_inv H c1 Hc1. bind_inv H v Hv. bind_inv H v' Hv'. bind_inv H c2 Hc2.
      apply get_In in Hcb. unfold ternary in Tc. pose proof Tc as Tc'. rewrite Forall_forall in Tc'.
      destruct (set_Forall _ _ _ _ _ Tc (Tc' cb Hcb) Hc1) as (T1 & L1).
      apply chk_s_inv in Hv as (-> & _). apply chk_s_inv in Hv' as (-> & _).
      assert (Hs : 1 - 2 * Z.land signs 1 = 0 \/ 1 - 2 * Z.land signs 1 = 1 \/ 1 - 2 * Z.land signs 1 = -1)
        by (destruct (land1_cases signs) as [E|E]; rewrite E; lia).
      destruct (set_Forall _ _ _ _ _ T1 Hs Hc2) as (T2 & L2).
      apply IH in H; [exact H | lia | exact T2].
  Qed.

  Lemma challenge_from_shape tau fuel st c : challenge_from sq tau fuel st = Ok c -> bnd 2 c.
  Proof.
    unfold challenge_from. intros H. bind_inv H x Hx. destruct x as [buf st1].
    apply challenge_loop_shape in H.
    - destruct H as (L & T). split; [exact L|]. eapply Forall_impl; [|exact T]. cbv beta. intros y Hy. lia.
    - unfold repeatZ. apply repeat_length.
    - unfold repeatZ. apply ternary_repeat0.
  Qed.

  Lemma rej_uniform_vals_range : forall buf want, Forall (fun x => 0 <= x < Q) (rej_uniform_vals want buf).
  Proof.
    induction buf as [| a | a b | a b c l IH] using list_ind3; intros want; try (destruct want; constructor).
    destruct want as [|w]; cbn [rej_uniform_vals]; [constructor|].
    set (t := Z.land (Z.lor (Z.lor a (Z.shiftl b 8)) (Z.shiftl c 16)) 8388607).
    destruct (Z.ltb_spec t Q) as [Hlt|_]; [|apply IH].
    constructor; [|apply IH]. split; [|exact Hlt]. unfold t. apply Z.land_nonneg. right. lia.
  Qed.

  Lemma splice_inv {A} (l : list A) off src r : splice l off src = Ok r ->
    r = firstn (Z.to_nat off) l ++ src ++ skipn (Z.to_nat (off + zlen src)) l.
  Proof. unfold splice. destruct ((0 <=? off) && (off + zlen src <=? zlen l)); intros H; inversion H. reflexivity. Qed.

  Lemma splice_Forall {A} (Pa : A -> Prop) (l : list A) off src r :
    Forall Pa l -> Forall Pa src -> splice l off src = Ok r -> Forall Pa r /\ length r = length l.
  Proof.
    intros Hl Hs H. split; [|exact (splice_length _ _ _ _ H)]. apply splice_inv in H. subst r.
    apply Forall_app. split; [apply Forall_firstn'; exact Hl|].
    apply Forall_app. split; [exact Hs | apply Forall_skipn'; exact Hl].
  Qed.

  Lemma rej_uniform_shape a alen buf buflen a' got :
    Forall (fun x => 0 <= x < Q) a -> rej_uniform a alen buf buflen = Ok (a', got) ->
    Forall (fun x => 0 <= x < Q) a' /\ length a' = length a.
  Proof.
    intros Ha H. unfold rej_uniform in H.
    destruct ((alen <? 0) || (buflen <? 0) || (zlen buf <? buflen)); [discriminate|].
    bind_inv H a1 Ha1. inversion H; subst.
    exact (splice_Forall _ _ _ _ _ Ha (rej_uniform_vals_range _ _) Ha1).
  Qed.

  Lemma uniform_loop_shape : forall fuel st a ctr buf buflen r,
    rng 0 Q a -> uniform_loop sq fuel st a ctr buf buflen = Ok r -> rng 0 Q r.
  Proof.
    induction fuel as [|f IH]; intros st a ctr buf buflen r Ha H; cbn [uniform_loop] in H;
      destruct (ctr <? 256); try discriminate; try (inversion H; subst; exact Ha).
    bind_inv H lft Hlft. bind_inv H buf1 Hbuf1. bind_inv H x Hx. destruct x as [blk st'].
    bind_inv H buf2 Hbuf2. bind_inv H asub Hasub. bind_inv H n Hn. bind_inv H y Hy. destruct y as [asub' got].
    bind_inv H a' Ha'. destruct Ha as (La & Fa).
    apply slice_from_inv in Hasub. subst asub.
    destruct (rej_uniform_shape _ _ _ _ _ _ (Forall_skipn' _ _ _ Fa) Hy) as (Fs & _).
    destruct (splice_Forall _ _ _ _ _ Fa Fs Ha') as (Fa' & La').
    apply IH in H; [exact H|]. split; [lia | exact Fa'].
  Qed.

  Lemma uniform_from_shape fuel st a r : rng 0 Q a -> uniform_from sq fuel st a = Ok r -> rng 0 Q r.
  Proof.
    intros (La & Fa) H. unfold uniform_from in H. bind_inv H x Hx. destruct x as [blk st1].
    bind_inv H buf Hbuf. bind_inv H y Hy. destruct y as [a1 ctr].
    destruct (rej_uniform_shape _ _ _ _ _ _ Fa Hy) as (F1 & L1).
    apply uniform_loop_shape in H; [exact H|]. split; [lia | exact F1].
  Qed.
End AnyXof.

Lemma for_idx_Forall {A} (Pa : A -> Prop) n (f : Z -> A -> res A) v r :
  (forall i x y, Pa x -> f i x = Ok y -> Pa y) -> Forall Pa v -> for_idx n f v = Ok r ->
  Forall Pa r /\ length r = length v.
Proof.
  intros Hf Hv H. unfold for_idx in H.
  apply (foldM_invariant (fun w => Forall Pa w /\ length w = length v)) in H; [exact H | | auto].
  intros s i s' (Fs & Ls) Hs. bind_inv Hs x Hx. bind_inv Hs y Hy.
  apply get_In in Hx. rewrite Forall_forall in Fs. pose proof (Hf i x y (Fs x Hx) Hy) as Py.
  rewrite <- Forall_forall in Fs. destruct (set_Forall _ _ _ _ _ Fs Py Hs) as (F' & L'). split; [exact F' | lia].
Qed.

Theorem challenge_shape_holds P : challenge_shape P.
Proof.
  intros seed cp H. unfold poly_challenge in H. bind_inv H st0 H0. bind_inv H st1 H1.
  exact (challenge_from_shape _ _ _ _ _ H).
Qed.

Theorem expand_shape_holds P : expand_shape P.
Proof.
  intros rho mat H. unfold matrix_expand in H. cbv zeta in H.
  assert (Hz : rng 0 Q zpoly).
  { split; [unfold zpoly, repeatZ; apply repeat_length|]. unfold zpoly, repeatZ. apply Forall_repeat. unfold Q. lia. }
  apply (for_idx_Forall (vec (pL P) (rng 0 Q))) in H.
  - destruct H as (F & L). split; [|exact F]. rewrite L. unfold zmat, repeatZ. apply repeat_length.
  - intros i row row' (Lrow & Frow) Hrow.
    apply (for_idx_Forall (rng 0 Q)) in Hrow; [| | exact Frow].
    + destruct Hrow as (F & L). split; [lia | exact F].
    + intros j a a' Ha Hu. unfold poly_uniform in Hu. bind_inv Hu st Hst.
      exact (uniform_from_shape _ _ _ _ _ Ha Hu).
  - unfold zmat, repeatZ. apply Forall_repeat. split; [apply zvec_length|].
    unfold zvec, repeatZ. apply Forall_repeat. exact Hz.
Qed.

(** * 9. The main theorems *)

(** C08 modulo the two facts about the rejection samplers that are proved elsewhere (PBridge.v):
    on byte inputs of sufficient length they never [Panic] (they may run out of fuel). *)
Theorem verify_no_panic_modulo_samplers P sig m pk :
  std P ->
  challenge_no_panic P -> expand_no_panic P ->
  Forall is_byte sig -> Forall is_byte m -> Forall is_byte pk -> zlen pk = pPK P ->
  verify P sig m pk <> Panic.
Proof.
  intros HP HCn HMn. apply verify_total_gen; try assumption.
  - apply std_pset_ok. exact HP.
  - apply challenge_shape_holds.
  - apply expand_shape_holds.
Qed.

(** equivalent reading: a boolean, or the samplers ran out of fuel *)
Corollary verify_bool_or_fuel P sig m pk :
  std P -> challenge_no_panic P -> expand_no_panic P ->
  Forall is_byte sig -> Forall is_byte m -> Forall is_byte pk -> zlen pk = pPK P ->
  (exists b, verify P sig m pk = Ok b) \/ verify P sig m pk = OutOfFuel.
Proof.
  intros HP HCn HMn Bs Bm Bp Lp.
  pose proof (verify_no_panic_modulo_samplers P sig m pk HP HCn HMn Bs Bm Bp Lp) as H.
  destruct (verify P sig m pk); [left; eauto | contradiction | right; reflexivity].
Qed.

(** the arithmetic core on its own, in terms of [verify_w1] of PSignStruct.v: under the decoders' ranges
    no intermediate of the w1' recomputation overflows or indexes out of bounds *)
Theorem verify_w1_ok P rho t1 c z h cp mat :
  dims_ok P ->
  poly_challenge (pTAU P) (pCT P) c = Ok cp -> matrix_expand P (zmat (pK P) (pL P)) rho = Ok mat ->
  vec (pK P) (rng 0 1024) t1 -> vec (pL P) (bnd Q) z -> vec (pK P) (rng 0 2) h ->
  exists buf, verify_w1 P rho t1 c z h = Ok buf /\ Forall is_byte buf.
Proof.
  intros HD Ecp Emat Ht1 Hz Hh. unfold verify_w1. rewrite Ecp; cbn [bind]. rewrite Emat; cbn [bind].
  exact (verify_arith_ok P HD mat cp t1 z h (expand_shape_holds P rho mat Emat) (challenge_shape_holds P c cp Ecp) Ht1 Hz Hh).
Qed.

Theorem verify_w1_no_panic P rho t1 c z h :
  dims_ok P ->
  poly_challenge (pTAU P) (pCT P) c <> Panic -> matrix_expand P (zmat (pK P) (pL P)) rho <> Panic ->
  vec (pK P) (rng 0 1024) t1 -> vec (pL P) (bnd Q) z -> vec (pK P) (rng 0 2) h ->
  verify_w1 P rho t1 c z h <> Panic.
Proof.
  intros HD Hc Hm Ht1 Hz Hh.
  destruct (poly_challenge (pTAU P) (pCT P) c) as [cp| |] eqn:Ecp;
    [| contradiction | unfold verify_w1; rewrite Ecp; cbn [bind]; discriminate].
  destruct (matrix_expand P (zmat (pK P) (pL P)) rho) as [mat| |] eqn:Emat;
    [| contradiction | unfold verify_w1; rewrite Ecp; cbn [bind]; rewrite Emat; cbn [bind]; discriminate].
  destruct (verify_w1_ok P rho t1 c z h cp mat HD Ecp Emat Ht1 Hz Hh) as (buf & E & _). rewrite E. discriminate.
Qed.

(** * 10. The API wrappers: they add a length gate, a context-length gate and the message framing *)

Lemma u8_byte x : is_byte (u8 x).
Proof. unfold u8, is_byte. change 255 with (Z.ones 8). pose proof (land_ones_range x 8 ltac:(lia)) as H. change (2 ^ 8) with 256 in H. exact H. Qed.

Lemma be_bytes_bytes n : forall x, Forall is_byte (be_bytes n x).
Proof.
  induction n as [|n IH]; intros x; cbn [be_bytes]; [constructor|].
  apply Forall_app. split; [apply IH|]. constructor; [apply (u8_byte x) | constructor].
Qed.

(** every output byte of the SHA-2 model is produced by [be_bytes] *)
Lemma digest_bytes w a b c d e f g h i j k l Kc iv ow msg :
  Forall is_byte (digest w a b c d e f g h i j k l Kc iv ow msg).
Proof.
  unfold digest. cbv zeta. rewrite flat_map_concat_map. apply Forall_concat. apply Forall_forall.
  intros bs Hbs. apply in_map_iff in Hbs as (x & <- & _). apply be_bytes_bytes.
Qed.

Lemma sha256_bytes msg : Forall is_byte (sha256 msg).
Proof. apply digest_bytes. Qed.
Lemma sha512_bytes msg : Forall is_byte (sha512 msg).
Proof. apply digest_bytes. Qed.

Definition ctx_is_bytes (ctx : option (list Z)) : Prop := Forall is_byte (ctx_bytes ctx).

Lemma frame_pure_bytes ctx msg : ctx_is_bytes ctx -> Forall is_byte msg -> Forall is_byte (frame_pure ctx msg).
Proof.
  intros Hc Hm. unfold frame_pure. apply Forall_app. split.
  - constructor; [unfold is_byte; lia|]. constructor; [apply u8_byte | constructor].
  - apply Forall_app. split; assumption.
Qed.

Lemma frame_hash_bytes ph ctx msg : ctx_is_bytes ctx -> Forall is_byte (frame_hash ph ctx msg).
Proof.
  intros Hc. unfold frame_hash. apply Forall_app. split.
  - constructor; [unfold is_byte; lia|]. constructor; [apply u8_byte | constructor].
  - apply Forall_app. split; [exact Hc|]. destruct ph; apply Forall_app; split;
      try apply sha512_bytes; try apply sha256_bytes;
      unfold OID_SHA512, OID_SHA256; repeat constructor; unfold is_byte; lia.
Qed.

Section ApiTotal.
  Variable P : params.
  Hypothesis HP : std P.
  Hypothesis HCn : challenge_no_panic P.
  Hypothesis HMn : expand_no_panic P.
  Variables pk msg sig : list Z.
  Hypothesis Bsig : Forall is_byte sig.
  Hypothesis Bpk : Forall is_byte pk.
  Hypothesis Lpk : zlen pk = pPK P.

  Theorem dil_verify_no_panic : Forall is_byte msg -> dil_verify P pk msg sig <> Panic.
  Proof.
    intros Bm. unfold dil_verify. destruct (negb (zlen sig =? pSIG P)); [discriminate|].
    apply verify_no_panic_modulo_samplers; assumption.
  Qed.

  Theorem ml_verify_no_panic ctx : Forall is_byte msg -> ctx_is_bytes ctx -> ml_verify P pk msg sig ctx <> Panic.
  Proof.
    intros Bm Bc. unfold ml_verify. destruct (negb (zlen sig =? pSIG P)); [discriminate|].
    destruct (ctx_too_long ctx); [discriminate|].
    apply verify_no_panic_modulo_samplers; try assumption. apply frame_pure_bytes; assumption.
  Qed.

  (** the pre-hash variants: the message need not even be bytes, only its digest enters the framing *)
  Theorem ml_prehash_verify_no_panic ctx ph : ctx_is_bytes ctx -> ml_prehash_verify P pk msg sig ctx ph <> Panic.
  Proof.
    intros Bc. unfold ml_prehash_verify. destruct (negb (zlen sig =? pSIG P)); [discriminate|].
    destruct (ctx_too_long ctx); [discriminate|].
    apply verify_no_panic_modulo_samplers; try assumption. apply frame_hash_bytes; assumption.
  Qed.
End ApiTotal.

Print Assumptions verify_arith_ok.
Print Assumptions unpack_hints_total.
Print Assumptions unpack_sig_total.
Print Assumptions unpack_pk_total.
Print Assumptions challenge_shape_holds.
Print Assumptions expand_shape_holds.
Print Assumptions verify_total_gen.
Print Assumptions verify_no_panic_modulo_samplers.
Print Assumptions verify_bool_or_fuel.
Print Assumptions verify_w1_ok.
Print Assumptions verify_w1_no_panic.
Print Assumptions dil_verify_no_panic.
Print Assumptions ml_verify_no_panic.
Print Assumptions ml_prehash_verify_no_panic.
