(** C06 — Emitted signatures respect the rejection bounds that protect the secret key.
    Only property theorems here, closed by [exact] of lemmas proved in PEmitted.v / PSignSpec.v / PSignStruct.v.
    PROVED for the six parameter sets, every key from key generation, every message and mode: whatever the signer returns is
    sigEncode(ctilde, z, h) of an attempt of the SPECIFICATION (y = ExpandMask(rho'', kappa), w = A y, c = SampleInBall(ctilde),
    ctilde = H(mu || w1Encode(HighBits(w)))) with z = y + c s1 (centred), ||z|| < gamma1 - beta, ||LowBits(w - c s2)|| < gamma2 - beta,
    ||c t0|| < gamma2 and h = MakeHint(-c t0, w - c s2 + c t0) of weight <= omega — i.e. exactly the conditions under which a
    signature is independent of the secret key; and, at the level of the signer's own intermediates, every emitted (z, h) passed
    the four tests and every rejected attempt was rejected for a stated reason. *)
From DV Require Import Base MReduce MParams MPoly MPolyvec MPacking MSign PNorm PSignStruct PTape PSignTotal PKeygen PKeyCodec PSignSpec PEmitted.

Theorem C06_emitted_signature_is_an_accepting_attempt_of_the_specification :
  forall (P : params) (xi pk sk sig0 m : list Z) (rand : bool) (tape sig tape' : list Z)
         (rho K tr : list Z) (s1 s2 t0 : list (list Z)),
  std P -> S_keygen P xi pk sk -> zlen sk = pSK P -> Forall is_byte m -> zlen sig0 = pSIG P -> tape_ok P rand tape ->
  S_skDecode (pETA P) (pK P) (pL P) (pTR P) sk = (rho, K, tr, s1, s2, t0) ->
  signature P sig0 m sk rand tape = Ok (sig, tape') ->
  exists (A : list (list (list Z))) (n : nat),
    S_expandA P rho A /\
    let mu := SKeccak.S_shake 136 (tr ++ m) 64 in
    let rpp := S_rhopp P K (if rand then Some (firstn (Z.to_nat (rand_bytes P)) tape) else None) mu in
    spec_accepting_attempt P A s1 s2 t0 mu rpp (Z.of_nat n) sig.
Proof. exact emitted_signature_is_accepting_spec_attempt. Qed.
Print Assumptions C06_emitted_signature_is_an_accepting_attempt_of_the_specification.

Theorem C06_emitted_signature_bounds :
  forall (P : params) (fuel : nat) (sig msg sk : list Z) (rand : bool) (tape s trace tape' : list Z),
  signature_trace P fuel sig msg sk rand tape = Ok (s, trace, tape') ->
  exists (sigc : list Z) (z h : list (list Z)),
    pack_sig P sigc None z h = Ok s /\
    length z = Z.to_nat (pL P) /\ length h = Z.to_nat (pK P) /\
    (forall a, In a z -> forall x, In x a -> Z.abs x < pGAMMA1 P - pBETA P) /\
    hint_bits h /\ 0 <= hint_weight h <= pOMEGA P.
Proof. exact signature_respects_bounds. Qed.
Print Assumptions C06_emitted_signature_bounds.

(** the accepted attempt passed all four tests, in the code's order, on the signer's intermediates *)
Theorem C06_accepted_attempt_bounds :
  forall (P : params) (sig mu rhoprime : list Z) (mat : list (list (list Z))) (s1 s2 t0 : list (list Z))
         (nonce : Z) (M : attempt_mid) (s : list Z),
  attempt_accepts P sig mu rhoprime mat s1 s2 t0 nonce M s ->
  (forall a, In a (am_z M) -> forall x, In x a -> Z.abs x < pGAMMA1 P - pBETA P) /\
  (forall a, In a (am_w0r M) -> forall x, In x a -> Z.abs x < pGAMMA2 P - pBETA P) /\
  (forall a, In a (am_ct0 M) -> forall x, In x a -> Z.abs x < pGAMMA2 P) /\
  length (am_z M) = Z.to_nat (pL P) /\ length (am_h M) = Z.to_nat (pK P) /\
  hint_bits (am_h M) /\ hint_weight (am_h M) = am_n M /\ 0 <= hint_weight (am_h M) <= pOMEGA P.
Proof. exact emitted_bounds. Qed.
Print Assumptions C06_accepted_attempt_bounds.

Theorem C06_done_iff_all_tests_pass :
  forall (P : params) (sig mu rhoprime : list Z) (mat : list (list (list Z))) (s1 s2 t0 : list (list Z)) (nonce : Z) (s : list Z),
  sign_attempt P sig mu rhoprime mat s1 s2 t0 nonce = Ok (Done s) <->
  exists M, attempt_accepts P sig mu rhoprime mat s1 s2 t0 nonce M s.
Proof. exact sign_attempt_done_iff. Qed.
Print Assumptions C06_done_iff_all_tests_pass.

(** a rejected attempt was rejected for a reason: some coefficient at or above the bound, or too many hints *)
Theorem C06_rejections_have_reasons :
  forall (P : params) (sig mu rhoprime : list Z) (mat : list (list (list Z))) (s1 s2 t0 : list (list Z))
         (nonce : Z) (M : attempt_mid) (cause : Z),
  norm_bounds_ok P -> attempt_rejects P sig mu rhoprime mat s1 s2 t0 nonce M cause ->
  cause = 1 /\ (exists a x, In a (am_z M) /\ In x a /\ pGAMMA1 P - pBETA P <= Z.abs x) \/
  cause = 2 /\ (exists a x, In a (am_w0r M) /\ In x a /\ pGAMMA2 P - pBETA P <= Z.abs x) \/
  cause = 3 /\ (exists a x, In a (am_ct0 M) /\ In x a /\ pGAMMA2 P <= Z.abs x) \/
  cause = 4 /\ pOMEGA P < hint_weight (am_h M).
Proof. exact rejected_reason. Qed.
Print Assumptions C06_rejections_have_reasons.

(** the loop: the k-th attempt uses nonce k; all earlier attempts were rejections with a cause in 1..4 *)
Theorem C06_loop_structure :
  forall (P : params) (mu rhoprime : list Z) (mat : list (list (list Z))) (s1 s2 t0 : list (list Z))
         (fuel : nat) (sig : list Z) (nonce : Z) (trace s trace' : list Z),
  sign_loop P fuel sig mu rhoprime mat s1 s2 t0 nonce trace = Ok (s, trace') ->
  exists (n : nat) (causes sig_n : list Z),
    trace' = trace ++ causes /\ length causes = n /\ Forall (fun c => 1 <= c <= 4) causes /\
    sign_attempt P sig_n mu rhoprime mat s1 s2 t0 (nonce + Z.of_nat n) = Ok (Done s) /\ (n < fuel)%nat /\
    (n = 0%nat \/ 0 <= nonce + 1 /\ nonce + Z.of_nat n <= 65535) /\
    (forall (k : nat) (c : Z), nth_error causes k = Some c ->
       exists sig_k sig_k', sign_attempt P sig_k mu rhoprime mat s1 s2 t0 (nonce + Z.of_nat k) = Ok (Retry c sig_k')).
Proof. exact sign_loop_last. Qed.
Print Assumptions C06_loop_structure.
