(** C03 — Verification decides exactly as the specification (strict decoding, bounds).
    Only property theorems here, closed by [exact] of lemmas proved in PVerifySpec.v / PSignStruct.v.
    [S_verify P pk m sig b] (PVerifySpec.v) transcribes Dilithium 3.1 Verify / FIPS 204 Verify_internal (Alg. 8):
    pkDecode; sigDecode (ctilde, z by BitUnpack, h by HintBitUnpack, bottom when malformed); wrong length or h = bottom or
    ||z|| >= gamma1 - beta -> false; A^ = ExpandA(rho); mu = H(H(pk) || M'); c = SampleInBall(ctilde);
    w' in [0,q)^256 with NTT(w') = A^ o NTT(z) - NTT(c) o NTT(t1 2^d); w1' = UseHint(h, w'); accept iff
    ctilde = H(mu || w1Encode(w1')). NTT is evaluation at the roots (injective mod q); the two samplers are relational
    (termination unprovable). PROVED for the six parameter sets and ANY bytes offered as signature, message, key of the
    right length: whenever verification returns, it returns the specification's decision, and that decision is unique. *)
From DV Require Import Base MReduce MParams MPoly MPolyvec MPacking MSign MApi PNorm PSignStruct PTape PVerifySpec.

Theorem C03_verify_is_the_specification : forall (P : params) (sig m pk : list Z) (b : bool),
  std P -> Forall is_byte sig -> Forall is_byte m -> Forall is_byte pk -> zlen pk = pPK P ->
  verify P sig m pk = Ok b -> S_verify P pk m sig b.
Proof. exact verify_spec. Qed.
Print Assumptions C03_verify_is_the_specification.

Theorem C03_specification_prescribes_one_decision : forall (P : params) (pk m sig : list Z) (b b' : bool),
  S_verify P pk m sig b -> S_verify P pk m sig b' -> b = b'.
Proof. exact S_verify_functional. Qed.
Print Assumptions C03_specification_prescribes_one_decision.

(** total form: out of sampler fuel, or exactly the specification's (unique) decision *)
Theorem C03_decision : forall (P : params) (sig m pk : list Z),
  std P -> Forall is_byte sig -> Forall is_byte m -> Forall is_byte pk -> zlen pk = pPK P ->
  verify P sig m pk = OutOfFuel \/
  exists b, verify P sig m pk = Ok b /\ S_verify P pk m sig b /\ forall b', S_verify P pk m sig b' -> b' = b.
Proof. exact verify_decision. Qed.
Print Assumptions C03_decision.

(** it accepts every specification-valid signature (boundary cases, other conforming signers included) *)
Theorem C03_accepts_every_spec_valid_signature : forall (P : params) (sig m pk : list Z) (b : bool),
  std P -> Forall is_byte sig -> Forall is_byte m -> Forall is_byte pk -> zlen pk = pPK P ->
  S_verify P pk m sig true -> verify P sig m pk = Ok b -> b = true.
Proof. exact verify_accepts_spec_valid. Qed.
Print Assumptions C03_accepts_every_spec_valid_signature.

(** the API entry points decide as the specification on the framed message *)
Theorem C03_api_is_the_specification :
  (forall (P : params) (pk msg sig : list Z) (b : bool),
     std P -> Forall is_byte sig -> Forall is_byte msg -> Forall is_byte pk -> zlen pk = pPK P ->
     dil_verify P pk msg sig = Ok b -> S_verify P pk msg sig b) /\
  (forall (P : params) (pk msg sig : list Z) (ctx : option (list Z)) (b : bool),
     std P -> Forall is_byte sig -> Forall is_byte msg -> Forall is_byte pk -> zlen pk = pPK P -> PTotal.ctx_is_bytes ctx ->
     ml_verify P pk msg sig ctx = Ok b ->
     if ctx_too_long ctx then b = false else S_verify P pk (frame_pure ctx msg) sig b).
Proof. split; [exact dil_verify_spec | exact ml_verify_spec]. Qed.
Print Assumptions C03_api_is_the_specification.

Theorem C03_accept_implies_strict :
  forall (P : params) (sig m pk : list Z),
  pGAMMA1 P = 131072 \/ pGAMMA1 P = 524288 -> Forall is_byte sig ->
  verify P sig m pk = Ok true ->
  zlen sig = pSIG P /\
  exists rho t1 c z h c2,
    unpack_pk P (repeatZ 0 32) (zvec (pK P)) pk = Ok (rho, t1) /\
    unpack_sig P (repeatZ 0 (pCT P)) (zvec (pL P)) (zvec (pK P)) sig = Ok (c, z, h, true) /\
    length z = Z.to_nat (pL P) /\
    (forall a, In a z -> forall x, In x a -> Z.abs x < pGAMMA1 P - pBETA P) /\
    verify_tail P m pk rho t1 c z h c2 /\
    c = firstn (Z.to_nat (pCT P)) sig /\ zlen c = pCT P /\ c = c2.
Proof. exact verify_true_strict. Qed.
Print Assumptions C03_accept_implies_strict.

Theorem C03_rejects_wrong_length : forall (P : params) (sig m pk : list Z),
  zlen sig <> pSIG P -> verify P sig m pk = Ok false.
Proof. exact verify_length_gate. Qed.
Print Assumptions C03_rejects_wrong_length.

Theorem C03_rejects_noncanonical_hints :
  forall (P : params) (sig m pk rho : list Z) (t1 : list (list Z)) (c : list Z) (z h : list (list Z)),
  unpack_pk P (repeatZ 0 32) (zvec (pK P)) pk = Ok (rho, t1) ->
  unpack_sig P (repeatZ 0 (pCT P)) (zvec (pL P)) (zvec (pK P)) sig = Ok (c, z, h, false) ->
  verify P sig m pk = Ok false.
Proof. exact verify_rejects_bad_hints. Qed.
Print Assumptions C03_rejects_noncanonical_hints.

(** ... even when the signature is otherwise consistent with the challenge hash: the gate comes first *)
Theorem C03_rejects_large_response :
  forall (P : params) (sig m pk rho : list Z) (t1 : list (list Z)) (c : list Z) (z h : list (list Z)) (ok : bool) (a : list Z) (x : Z),
  pGAMMA1 P = 131072 \/ pGAMMA1 P = 524288 -> Forall is_byte sig ->
  pGAMMA1 P - pBETA P <= 1047552 -> 0 <= pL P ->
  unpack_pk P (repeatZ 0 32) (zvec (pK P)) pk = Ok (rho, t1) ->
  unpack_sig P (repeatZ 0 (pCT P)) (zvec (pL P)) (zvec (pK P)) sig = Ok (c, z, h, ok) ->
  In a z -> In x a -> pGAMMA1 P - pBETA P <= Z.abs x -> verify P sig m pk = Ok false.
Proof. exact verify_rejects_big_coeff_bytes. Qed.
Print Assumptions C03_rejects_large_response.

Theorem C03_rejects_challenge_mismatch :
  forall (P : params) (sig m pk rho : list Z) (t1 : list (list Z)) (c : list Z) (z h : list (list Z)) (ok : bool) (c2 : list Z),
  unpack_pk P (repeatZ 0 32) (zvec (pK P)) pk = Ok (rho, t1) ->
  unpack_sig P (repeatZ 0 (pCT P)) (zvec (pL P)) (zvec (pK P)) sig = Ok (c, z, h, ok) ->
  verify_tail P m pk rho t1 c z h c2 -> c <> c2 ->
  forall b, verify P sig m pk = Ok b -> b = false.
Proof. exact verify_rejects_challenge_mismatch. Qed.
Print Assumptions C03_rejects_challenge_mismatch.

(** the API wrappers decide as the core verifier on the framed message *)
Theorem C03_api_is_core : forall (P : params) (pk msg sig : list Z),
  dil_verify P pk msg sig = verify P sig msg pk /\
  forall ctx, ctx_too_long ctx = false -> ml_verify P pk msg sig ctx = verify P sig (frame_pure ctx msg) pk.
Proof. intros; split; [apply dil_verify_eq | intros; apply ml_verify_eq; assumption]. Qed.
Print Assumptions C03_api_is_core.
