(** C03 — Verification decides exactly as the specification (strict decoding, bounds).
    Only property theorems here, closed by [exact] of lemmas proved in PSignStruct.v.
    PROVED (for every parameter record with gamma1 in {2^17, 2^19}, every byte string offered as a signature, every
    message and key): acceptance implies the exact length, a hint section accepted by the strict decoder, a decoded
    response with ||z||_inf < gamma1 - beta, and equality of the received challenge with the recomputed one over ALL
    its bytes; conversely a malformed hint section, a too large z coefficient or any challenge mismatch forces
    rejection. NOT a Coq theorem: that the recomputed challenge (the model's NTT-domain pipeline [verify_w1]) equals
    FIPS 204's ring expression UseHint(h, Az - c t1 2^d) — that identification is checked by executing model, crate and
    an independent implementation of Verify_internal on generated and crafted signatures (see evidence). *)
From DV Require Import Base MReduce MParams MPoly MPolyvec MPacking MSign MApi PNorm PSignStruct.

Theorem C03_accept_implies_strict :
  forall (P : params) (sig m pk : list Z),
  pGAMMA1 P = 131072 \/ pGAMMA1 P = 524288 -> Forall is_byte sig ->
  verify P sig m pk = Ok true ->
  zlen sig = pSIG P /\
  exists rho t1 c z h c2,
    unpack_pk P (repeatZ 0 32) (zvec (pK P)) pk = Ok (rho, t1) /\
    unpack_sig P (repeatZ 0 (pCT P)) (zvec (pL P)) (zvec (pK P)) sig = Ok (c, z, h, true) /\
    length z = Z.to_nat (pL P) /\
    (forall a, In a z -> forall x, In x a -> Z.abs x < pGAMMA1 P - pBETA P) /\
    verify_tail P m pk rho t1 c z h c2 /\
    c = firstn (Z.to_nat (pCT P)) sig /\ zlen c = pCT P /\ c = c2.
Proof. exact verify_true_strict. Qed.
Print Assumptions C03_accept_implies_strict.

Theorem C03_rejects_wrong_length : forall (P : params) (sig m pk : list Z),
  zlen sig <> pSIG P -> verify P sig m pk = Ok false.
Proof. exact verify_length_gate. Qed.
Print Assumptions C03_rejects_wrong_length.

Theorem C03_rejects_noncanonical_hints :
  forall (P : params) (sig m pk rho : list Z) (t1 : list (list Z)) (c : list Z) (z h : list (list Z)),
  unpack_pk P (repeatZ 0 32) (zvec (pK P)) pk = Ok (rho, t1) ->
  unpack_sig P (repeatZ 0 (pCT P)) (zvec (pL P)) (zvec (pK P)) sig = Ok (c, z, h, false) ->
  verify P sig m pk = Ok false.
Proof. exact verify_rejects_bad_hints. Qed.
Print Assumptions C03_rejects_noncanonical_hints.

(** ... even when the signature is otherwise consistent with the challenge hash: the gate comes first *)
Theorem C03_rejects_large_response :
  forall (P : params) (sig m pk rho : list Z) (t1 : list (list Z)) (c : list Z) (z h : list (list Z)) (ok : bool) (a : list Z) (x : Z),
  pGAMMA1 P = 131072 \/ pGAMMA1 P = 524288 -> Forall is_byte sig ->
  pGAMMA1 P - pBETA P <= 1047552 -> 0 <= pL P ->
  unpack_pk P (repeatZ 0 32) (zvec (pK P)) pk = Ok (rho, t1) ->
  unpack_sig P (repeatZ 0 (pCT P)) (zvec (pL P)) (zvec (pK P)) sig = Ok (c, z, h, ok) ->
  In a z -> In x a -> pGAMMA1 P - pBETA P <= Z.abs x -> verify P sig m pk = Ok false.
Proof. exact verify_rejects_big_coeff_bytes. Qed.
Print Assumptions C03_rejects_large_response.

Theorem C03_rejects_challenge_mismatch :
  forall (P : params) (sig m pk rho : list Z) (t1 : list (list Z)) (c : list Z) (z h : list (list Z)) (ok : bool) (c2 : list Z),
  unpack_pk P (repeatZ 0 32) (zvec (pK P)) pk = Ok (rho, t1) ->
  unpack_sig P (repeatZ 0 (pCT P)) (zvec (pL P)) (zvec (pK P)) sig = Ok (c, z, h, ok) ->
  verify_tail P m pk rho t1 c z h c2 -> c <> c2 ->
  forall b, verify P sig m pk = Ok b -> b = false.
Proof. exact verify_rejects_challenge_mismatch. Qed.
Print Assumptions C03_rejects_challenge_mismatch.

(** the API wrappers decide as the core verifier on the framed message *)
Theorem C03_api_is_core : forall (P : params) (pk msg sig : list Z),
  dil_verify P pk msg sig = verify P sig msg pk /\
  forall ctx, ctx_too_long ctx = false -> ml_verify P pk msg sig ctx = verify P sig (frame_pure ctx msg) pk.
Proof. intros; split; [apply dil_verify_eq | intros; apply ml_verify_eq; assumption]. Qed.
Print Assumptions C03_api_is_core.
