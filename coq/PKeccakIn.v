(** The one-shot SHAKE-256 and the incremental absorb read exactly [inlen] bytes of the caller's input slice:
    bytes beyond [inlen] are irrelevant (the Rust functions take the slice AND an explicit length). *)
From DV Require Import Base Gen MKeccak SKeccak PKeccak PTape.

Lemma slice_to_app_exact {A} (l x : list A) : slice_to (l ++ x) (zlen l) = slice_to l (zlen l).
Proof.
  unfold slice_to, zlen. rewrite app_length.
  replace (Z.of_nat (length l) <=? Z.of_nat (length l + length x)) with true by (symmetry; apply Z.leb_le; lia).
  replace (Z.of_nat (length l) <=? Z.of_nat (length l)) with true by (symmetry; apply Z.leb_le; lia).
  rewrite Nat2Z.id. rewrite firstn_app, Nat.sub_diag, firstn_all. cbn [firstn]. rewrite app_nil_r.
  reflexivity.
Qed.

Theorem shake256_reads_only_inlen : forall (inp x : list Z) (n : Z), Forall is_byte inp -> 0 <= n < 2 ^ 64 ->
  shake256 (repeatZ 0 n) n (inp ++ x) (zlen inp) = Ok (S_shake 136 inp (Z.to_nat n)).
Proof.
  intros inp x n Hb Hn.
  rewrite (shake256_prefix (repeatZ 0 n) n (inp ++ x) inp (zlen inp) (slice_to_app_exact inp x)).
  apply shake256_ok; assumption.
Qed.

Theorem absorb_reads_only_inlen : forall st r (inp x : list Z),
  keccak_absorb st r (inp ++ x) (zlen inp) = keccak_absorb st r inp (zlen inp).
Proof. intros. apply keccak_absorb_prefix, slice_to_app_exact. Qed.

Print Assumptions shake256_reads_only_inlen.
Print Assumptions absorb_reads_only_inlen.
