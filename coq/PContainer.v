(** C11 — Key containers serialize and deserialize losslessly (about MApi.v).
    In the model a container IS its byte list (SecretKey/PublicKey wrap a fixed-size array), so the
    statements are about the length gates and about the Keypair concatenation. *)
From DV Require Import Base Gen MReduce MRounding MParams MKeccak MNtt MPoly MPolyvec MPacking MSign MSha2 MApi.

(** * List plumbing *)
Lemma zlen_app {A} (a b : list A) : zlen (a ++ b) = zlen a + zlen b.
Proof. unfold zlen. rewrite app_length. lia. Qed.
Lemma zlen_nonneg {A} (a : list A) : 0 <= zlen a.
Proof. unfold zlen. lia. Qed.
Lemma zlen_repeatZ {A} (x : A) n : 0 <= n -> zlen (repeatZ x n) = n.
Proof. intros H. unfold zlen, repeatZ. rewrite repeat_length. lia. Qed.
Lemma to_nat_zlen {A} (a : list A) : Z.to_nat (zlen a) = length a.
Proof. unfold zlen. lia. Qed.
Lemma zlen_firstn {A} (l : list A) n : 0 <= n <= zlen l -> zlen (firstn (Z.to_nat n) l) = n.
Proof. intros H. unfold zlen in *. rewrite firstn_length. lia. Qed.
Lemma zlen_skipn {A} (l : list A) n : 0 <= n <= zlen l -> zlen (skipn (Z.to_nat n) l) = zlen l - n.
Proof. intros H. unfold zlen in *. rewrite skipn_length. lia. Qed.

Section Container.
  Variable P : params.

  (** ** single keys: exact length or refusal (never truncated, never padded) *)
  Theorem sk_from_bytes_spec b : sk_from_bytes P b = if zlen b =? pSK P then Ok b else Panic.
  Proof. reflexivity. Qed.
  Theorem pk_from_bytes_spec b : pk_from_bytes P b = if zlen b =? pPK P then Ok b else Panic.
  Proof. reflexivity. Qed.

  Theorem sk_from_bytes_ok_iff b r : sk_from_bytes P b = Ok r <-> zlen b = pSK P /\ r = b.
  Proof.
    unfold sk_from_bytes. destruct (Z.eqb_spec (zlen b) (pSK P)); split.
    - intros E; inversion E; subst; split; auto.
    - intros [_ ->]; reflexivity.
    - discriminate.
    - intros [E _]; contradiction.
  Qed.
  Theorem pk_from_bytes_ok_iff b r : pk_from_bytes P b = Ok r <-> zlen b = pPK P /\ r = b.
  Proof.
    unfold pk_from_bytes. destruct (Z.eqb_spec (zlen b) (pPK P)); split.
    - intros E; inversion E; subst; split; auto.
    - intros [_ ->]; reflexivity.
    - discriminate.
    - intros [E _]; contradiction.
  Qed.
  Theorem sk_from_bytes_wrong_len b : zlen b <> pSK P -> sk_from_bytes P b = Panic.
  Proof. intros H. unfold sk_from_bytes. destruct (Z.eqb_spec (zlen b) (pSK P)); [contradiction | reflexivity]. Qed.
  Theorem pk_from_bytes_wrong_len b : zlen b <> pPK P -> pk_from_bytes P b = Panic.
  Proof. intros H. unfold pk_from_bytes. destruct (Z.eqb_spec (zlen b) (pPK P)); [contradiction | reflexivity]. Qed.
  (** never OutOfFuel either: the result is [Ok b] or [Panic] *)
  Theorem sk_from_bytes_total b : sk_from_bytes P b = Ok b \/ sk_from_bytes P b = Panic.
  Proof. unfold sk_from_bytes. destruct (zlen b =? pSK P); auto. Qed.
  Theorem pk_from_bytes_total b : pk_from_bytes P b = Ok b \/ pk_from_bytes P b = Panic.
  Proof. unfold pk_from_bytes. destruct (zlen b =? pPK P); auto. Qed.

  (** ** Keypair::to_bytes = sk || pk *)
  Theorem kp_to_bytes_spec sk pk :
    zlen sk = pSK P -> zlen pk = pPK P -> kp_to_bytes P sk pk = Ok (sk ++ pk).
  Proof.
    intros Hs Hp. pose proof (zlen_nonneg sk). pose proof (zlen_nonneg pk).
    unfold kp_to_bytes, splice.
    rewrite zlen_repeatZ by lia.
    replace ((0 <=? 0) && (0 + zlen sk <=? pSK P + pPK P)) with true
      by (symmetry; apply andb_true_intro; split; apply Z.leb_le; lia).
    cbn [bind].
    change (firstn (Z.to_nat 0) (repeatZ 0 (pSK P + pPK P))) with (@nil Z). cbn [app].
    assert (E1 : skipn (Z.to_nat (0 + zlen sk)) (repeatZ 0 (pSK P + pPK P)) = repeatZ 0 (pPK P)).
    { unfold repeatZ. replace (Z.to_nat (pSK P + pPK P)) with (Z.to_nat (0 + zlen sk) + Z.to_nat (pPK P))%nat by lia.
      rewrite repeat_app. rewrite skipn_app, skipn_all2 by (rewrite repeat_length; lia).
      rewrite repeat_length, Nat.sub_diag. reflexivity. }
    rewrite E1.
    rewrite zlen_app, zlen_repeatZ by lia.
    replace ((0 <=? pSK P) && (pSK P + zlen pk <=? zlen sk + pPK P)) with true
      by (symmetry; apply andb_true_intro; split; apply Z.leb_le; lia).
    f_equal.
    rewrite <- Hs at 1. rewrite to_nat_zlen, firstn_app, firstn_all, Nat.sub_diag. cbn [firstn].
    rewrite app_nil_r. f_equal.
    rewrite skipn_all2; [apply app_nil_r|].
    rewrite app_length. unfold repeatZ. rewrite repeat_length. unfold zlen in *. lia.
  Qed.

  (** ** Keypair::from_bytes: accepts exactly inputs of length SK + PK and splits them *)
  Theorem kp_from_bytes_spec b :
    0 <= pSK P -> 0 <= pPK P ->
    kp_from_bytes P b =
    if zlen b =? pSK P + pPK P
    then Ok (firstn (Z.to_nat (pSK P)) b, skipn (Z.to_nat (pSK P)) b) else Panic.
  Proof.
    intros H0 HP.
    unfold kp_from_bytes, slice_to, slice_from, sk_from_bytes, pk_from_bytes.
    destruct (Z.leb_spec 0 (pSK P)) as [_|?]; cbn [andb]; [|lia].
    destruct (Z.leb_spec (pSK P) (zlen b)) as [H1|H1]; cbn [bind].
    - rewrite zlen_firstn by lia. rewrite Z.eqb_refl. cbn [bind].
      rewrite zlen_skipn by lia.
      destruct (Z.eqb_spec (zlen b - pSK P) (pPK P)); destruct (Z.eqb_spec (zlen b) (pSK P + pPK P));
        try lia; reflexivity.
    - pose proof (zlen_nonneg b).
      destruct (Z.eqb_spec (zlen b) (pSK P + pPK P)); [lia|reflexivity].
  Qed.

  Theorem kp_from_bytes_ok_iff b s p :
    0 <= pSK P -> 0 <= pPK P ->
    (kp_from_bytes P b = Ok (s, p) <->
     zlen b = pSK P + pPK P /\ s = firstn (Z.to_nat (pSK P)) b /\ p = skipn (Z.to_nat (pSK P)) b).
  Proof.
    intros H0 HP. rewrite kp_from_bytes_spec by assumption.
    destruct (Z.eqb_spec (zlen b) (pSK P + pPK P)); split.
    - intros E; inversion E; subst; split; auto.
    - intros (_ & -> & ->); reflexivity.
    - discriminate.
    - intros (E & _); contradiction.
  Qed.

  (** shorter and longer inputs are refused (a Rust panic), nothing is truncated or padded *)
  Theorem kp_from_bytes_short b :
    0 <= pSK P -> 0 <= pPK P -> zlen b < pSK P + pPK P -> kp_from_bytes P b = Panic.
  Proof.
    intros H0 HP H. rewrite kp_from_bytes_spec by assumption.
    destruct (Z.eqb_spec (zlen b) (pSK P + pPK P)); [lia|]. reflexivity.
  Qed.
  Theorem kp_from_bytes_long b :
    0 <= pSK P -> 0 <= pPK P -> pSK P + pPK P < zlen b -> kp_from_bytes P b = Panic.
  Proof.
    intros H0 HP H. rewrite kp_from_bytes_spec by assumption.
    destruct (Z.eqb_spec (zlen b) (pSK P + pPK P)); [lia|]. reflexivity.
  Qed.
  (** where exactly the refusal happens *)
  Theorem kp_from_bytes_short_sk (b : list Z) : zlen b < pSK P -> slice_to b (pSK P) = Panic.
  Proof.
    intros H. unfold slice_to. destruct (Z.leb_spec (pSK P) (zlen b)); [lia|]. rewrite andb_false_r. reflexivity.
  Qed.
  Theorem kp_from_bytes_bad_pk b :
    0 <= pSK P <= zlen b -> zlen b <> pSK P + pPK P ->
    (do s <- slice_to b (pSK P); sk_from_bytes P s) = Ok (firstn (Z.to_nat (pSK P)) b) /\
    (do p <- slice_from b (pSK P); pk_from_bytes P p) = Panic.
  Proof.
    intros H Hne. unfold slice_to, slice_from, sk_from_bytes, pk_from_bytes.
    destruct (Z.leb_spec 0 (pSK P)); [|lia]. destruct (Z.leb_spec (pSK P) (zlen b)); [|lia].
    cbn [andb bind]. rewrite zlen_firstn by lia. rewrite Z.eqb_refl.
    rewrite zlen_skipn by lia. split; [reflexivity|].
    destruct (Z.eqb_spec (zlen b - pSK P) (pPK P)); [lia | reflexivity].
  Qed.

  (** ** round trips *)
  Theorem kp_from_to_bytes sk pk b :
    zlen sk = pSK P -> zlen pk = pPK P ->
    kp_to_bytes P sk pk = Ok b -> kp_from_bytes P b = Ok (sk, pk).
  Proof.
    intros Hs Hp E. rewrite kp_to_bytes_spec in E by assumption. inversion E; subst b. clear E.
    pose proof (zlen_nonneg sk). pose proof (zlen_nonneg pk).
    rewrite kp_from_bytes_spec by lia. rewrite zlen_app, Hs, Hp, Z.eqb_refl.
    rewrite <- Hs, to_nat_zlen.
    rewrite firstn_app, firstn_all, Nat.sub_diag. cbn [firstn]. rewrite app_nil_r.
    rewrite skipn_app, skipn_all, Nat.sub_diag. reflexivity.
  Qed.

  Theorem kp_to_from_bytes b sk pk :
    0 <= pSK P -> 0 <= pPK P -> kp_from_bytes P b = Ok (sk, pk) ->
    zlen sk = pSK P /\ zlen pk = pPK P /\ kp_to_bytes P sk pk = Ok b.
  Proof.
    intros H0 HP E. apply kp_from_bytes_ok_iff in E; [|exact H0|exact HP]. destruct E as (Hl & -> & ->).
    pose proof (zlen_nonneg (skipn (Z.to_nat (pSK P)) b)) as Hn.
    assert (L1 : zlen (firstn (Z.to_nat (pSK P)) b) = pSK P).
    { apply zlen_firstn. pose proof (zlen_nonneg b). unfold zlen in *. rewrite skipn_length in Hn. lia. }
    assert (L2 : zlen (skipn (Z.to_nat (pSK P)) b) = pPK P).
    { rewrite zlen_skipn; [lia|]. unfold zlen in *. rewrite skipn_length in Hn. lia. }
    split; [exact L1|]. split; [exact L2|].
    rewrite kp_to_bytes_spec by assumption. rewrite firstn_skipn. reflexivity.
  Qed.

  (** composed form of both round trips *)
  Corollary kp_roundtrip_from_to sk pk :
    zlen sk = pSK P -> zlen pk = pPK P ->
    (do b <- kp_to_bytes P sk pk; kp_from_bytes P b) = Ok (sk, pk).
  Proof.
    intros Hs Hp. rewrite kp_to_bytes_spec by assumption. cbn [bind].
    apply (kp_from_to_bytes sk pk); auto. apply kp_to_bytes_spec; assumption.
  Qed.
  Corollary kp_roundtrip_to_from b :
    0 <= pSK P -> 0 <= pPK P -> zlen b = pSK P + pPK P ->
    (do '(sk, pk) <- kp_from_bytes P b; kp_to_bytes P sk pk) = Ok b.
  Proof.
    intros H0 HP Hl. destruct (kp_from_bytes P b) as [[sk pk]| |] eqn:E.
    - cbn [bind]. apply kp_to_from_bytes in E; [apply E | exact H0 | exact HP].
    - rewrite kp_from_bytes_spec, Hl, Z.eqb_refl in E by assumption. discriminate.
    - rewrite kp_from_bytes_spec in E by assumption.
      destruct (zlen b =? pSK P + pPK P); discriminate.
  Qed.

  (** ** behaviour through a re-serialised container: containers are their bytes, so a key that went
      through from_bytes is the same argument to the same function *)
  Lemma dil_sign_reserialised sk sk' msg :
    sk_from_bytes P sk = Ok sk' -> dil_sign P sk' msg = dil_sign P sk msg.
  Proof. intros E. apply sk_from_bytes_ok_iff in E. destruct E as [_ ->]. reflexivity. Qed.
  Lemma dil_verify_reserialised pk pk' msg sig :
    pk_from_bytes P pk = Ok pk' -> dil_verify P pk' msg sig = dil_verify P pk msg sig.
  Proof. intros E. apply pk_from_bytes_ok_iff in E. destruct E as [_ ->]. reflexivity. Qed.
  Lemma ml_sign_reserialised sk sk' msg ctx hedged tape :
    sk_from_bytes P sk = Ok sk' -> ml_sign P sk' msg ctx hedged tape = ml_sign P sk msg ctx hedged tape.
  Proof. intros E. apply sk_from_bytes_ok_iff in E. destruct E as [_ ->]. reflexivity. Qed.
  Lemma ml_verify_reserialised pk pk' msg sig ctx :
    pk_from_bytes P pk = Ok pk' -> ml_verify P pk' msg sig ctx = ml_verify P pk msg sig ctx.
  Proof. intros E. apply pk_from_bytes_ok_iff in E. destruct E as [_ ->]. reflexivity. Qed.
  (** a key pair that went through to_bytes/from_bytes signs and verifies identically *)
  Lemma kp_reserialised_same_keys sk pk b sk' pk' :
    zlen sk = pSK P -> zlen pk = pPK P ->
    kp_to_bytes P sk pk = Ok b -> kp_from_bytes P b = Ok (sk', pk') -> sk' = sk /\ pk' = pk.
  Proof.
    intros Hs Hp E1 E2. rewrite (kp_from_to_bytes sk pk b Hs Hp E1) in E2. inversion E2; auto.
  Qed.
End Container.

(** ** the six size triples (SECRETKEYBYTES, PUBLICKEYBYTES, SIGNBYTES) *)
Theorem container_sizes :
  (pSK P_lvl2, pPK P_lvl2, pSIG P_lvl2) = (2528, 1312, 2420) /\
  (pSK P_lvl3, pPK P_lvl3, pSIG P_lvl3) = (4000, 1952, 3293) /\
  (pSK P_lvl5, pPK P_lvl5, pSIG P_lvl5) = (4864, 2592, 4595) /\
  (pSK P_ml44, pPK P_ml44, pSIG P_ml44) = (2560, 1312, 2420) /\
  (pSK P_ml65, pPK P_ml65, pSIG P_ml65) = (4032, 1952, 3309) /\
  (pSK P_ml87, pPK P_ml87, pSIG P_ml87) = (4896, 2592, 4627).
Proof. vm_compute. repeat split. Qed.

Definition all_params : list params := [P_lvl2; P_lvl3; P_lvl5; P_ml44; P_ml65; P_ml87].
Lemma all_params_sk_nonneg P : In P all_params -> 0 <= pSK P /\ 0 <= pPK P.
Proof.
  intros H. repeat (destruct H as [<-|H]; [vm_compute; split; discriminate|]). destruct H.
Qed.

(** Keypair containers have length SK + PK *)
Theorem keypair_sizes :
  map (fun P => pSK P + pPK P) all_params = [3840; 5952; 7456; 3872; 5984; 7488].
Proof. vm_compute. reflexivity. Qed.

Print Assumptions sk_from_bytes_ok_iff.
Print Assumptions pk_from_bytes_ok_iff.
Print Assumptions kp_to_bytes_spec.
Print Assumptions kp_from_bytes_spec.
Print Assumptions kp_from_to_bytes.
Print Assumptions kp_to_from_bytes.
Print Assumptions dil_sign_reserialised.
Print Assumptions container_sizes.
