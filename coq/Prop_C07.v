(** C07 — ML-DSA context and mode framing gives domain separation.
    Only property theorems here, closed by [exact] of lemmas proved in PFrame.v. PROVED: the representative is
    0 || len(ctx) || ctx || M (pure) resp. 1 || len(ctx) || ctx || OID(H) || H(M) (pre-hash, H = SHA-256 / SHA-512 as
    defined by FIPS 180-4 in MSha2.v), an absent context is the empty context, signer and verifier frame identically,
    contexts above 255 bytes are refused everywhere, and the framing is injective (domain separation: different
    (mode, hash, ctx, message) with ctx <= 255 bytes give different representatives, except for equal digests).
    NOT a Coq theorem: that a signature on one representative never verifies for another (collision resistance /
    unforgeability); the check evaluates all ordered pairs of distinct descriptors on the crate (see evidence). *)
From DV Require Import Base MParams MSign MApi MSha2 PFrame.

Theorem C07_representatives : forall (ph : bool) (ctx : option (list Z)) (msg : list Z),
  zlen (ctx_bytes ctx) <= 255 ->
  frame_pure ctx msg = [0; zlen (ctx_bytes ctx)] ++ ctx_bytes ctx ++ msg /\
  frame_hash ph ctx msg = [1; zlen (ctx_bytes ctx)] ++ ctx_bytes ctx ++ ph_oid ph ++ ph_digest ph msg.
Proof. intros; split; [apply frame_pure_shape | apply frame_hash_shape]; assumption. Qed.
Print Assumptions C07_representatives.

Theorem C07_absent_context_is_empty : forall (ph : bool) (msg : list Z),
  frame_pure None msg = frame_pure (Some []) msg /\ frame_hash ph None msg = frame_hash ph (Some []) msg.
Proof. intros; split; [apply frame_pure_none | apply frame_hash_none]. Qed.
Print Assumptions C07_absent_context_is_empty.

Theorem C07_long_context_refused :
  forall (P : params) (sk pk msg sig : list Z) (ctx : option (list Z)) (hedged ph : bool) (tape : list Z),
  ctx_too_long ctx = true ->
  ml_sign P sk msg ctx hedged tape = Ok (None, tape) /\
  ml_prehash_sign P sk msg ctx hedged ph tape = Ok (None, tape) /\
  ml_verify P pk msg sig ctx = Ok false /\
  ml_prehash_verify P pk msg sig ctx ph = Ok false.
Proof. exact ctx_gate_reject. Qed.
Print Assumptions C07_long_context_refused.

Theorem C07_sign_and_verify_use_the_same_representative :
  forall (P : params) (sk pk msg sig : list Z) (ctx : option (list Z)) (hedged : bool) (tape : list Z),
  let framed := frame_pure ctx msg in
  ml_sign P sk msg ctx hedged tape =
    (if ctx_too_long ctx then Ok (None, tape)
     else do '(s, tape') <- signature P (repeatZ 0 (pSIG P)) framed sk hedged tape; Ok (Some s, tape')) /\
  ml_verify P pk msg sig ctx =
    (if ctx_too_long ctx then Ok false
     else if negb (zlen sig =? pSIG P) then Ok false else verify P sig framed pk).
Proof. exact sign_verify_same_frame. Qed.
Print Assumptions C07_sign_and_verify_use_the_same_representative.

Theorem C07_prehash_sign_and_verify_use_the_same_representative :
  forall (P : params) (sk pk msg sig : list Z) (ctx : option (list Z)) (hedged ph : bool) (tape : list Z),
  let framed := frame_hash ph ctx msg in
  ml_prehash_sign P sk msg ctx hedged ph tape =
    (if ctx_too_long ctx then Ok (None, tape)
     else do '(s, tape') <- signature P (repeatZ 0 (pSIG P)) framed sk hedged tape; Ok (Some s, tape')) /\
  ml_prehash_verify P pk msg sig ctx ph =
    (if ctx_too_long ctx then Ok false
     else if negb (zlen sig =? pSIG P) then Ok false else verify P sig framed pk).
Proof. exact prehash_sign_verify_same_frame. Qed.
Print Assumptions C07_prehash_sign_and_verify_use_the_same_representative.

Theorem C07_domain_separation :
  (forall c1 m1 c2 m2, zlen (ctx_bytes c1) <= 255 -> zlen (ctx_bytes c2) <= 255 ->
     frame_pure c1 m1 = frame_pure c2 m2 -> ctx_bytes c1 = ctx_bytes c2 /\ m1 = m2) /\
  (forall ph c1 m1 c2 m2, frame_pure c1 m1 <> frame_hash ph c2 m2) /\
  (forall ph1 c1 m1 ph2 c2 m2, zlen (ctx_bytes c1) <= 255 -> zlen (ctx_bytes c2) <= 255 ->
     frame_hash ph1 c1 m1 = frame_hash ph2 c2 m2 ->
     ctx_bytes c1 = ctx_bytes c2 /\ ph1 = ph2 /\ ph_digest ph1 m1 = ph_digest ph2 m2).
Proof. exact frame_domain_separation. Qed.
Print Assumptions C07_domain_separation.

(** the hash functions of the model on the published FIPS 180-4 vectors *)
Example C07_sha2_vectors :
  firstn 4 (sha256 [97; 98; 99]) = [186; 120; 22; 191] /\ firstn 4 (sha512 [97; 98; 99]) = [221; 175; 53; 161] /\
  firstn 4 (sha256 []) = [227; 176; 196; 66] /\ firstn 4 (sha512 []) = [207; 131; 225; 53] /\
  frame_pure (Some [7; 8]) [9] = [0; 2; 7; 8; 9].
Proof. vm_compute. repeat split. Qed.
