(** C17: the samplers are the specification's functions of their byte streams and stay in range.
    Specification side: FIPS 204 Alg 14 (CoeffFromThreeBytes), Alg 15 (CoeffFromHalfByte), Alg 30/31
    (RejNTTPoly / RejBoundedPoly as functions of the XOF output stream), Alg 29 (SampleInBall).
    Model side: [rej_uniform], [rej_eta], [uniform_from], [uniform_eta_from], [uniform_gamma1_from],
    [challenge_from] of MPoly.v, the polynomial samplers instantiated with a finite tape of XOF output
    ([tape_sq 168] / [tape_sq 136]). *)
From DV Require Import Base MReduce MParams MPoly.
From Coq Require Import Arith.

Local Ltac Zify.zify_post_hook ::= Z.div_mod_to_equations.

(** * Specification *)

(** Alg 14 *)
Definition S_coeff_from_three_bytes (b0 b1 b2 : Z) : option Z :=
  let z := b0 + 256 * b1 + 65536 * (b2 mod 128) in if z <? Q then Some z else None.

Definition opt_cons (o : option Z) (l : list Z) : list Z :=
  match o with Some z => z :: l | None => l end.

(** accepted values of the successive byte triples of [bs] (an incomplete trailing triple is ignored) *)
Fixpoint S_rej_ntt_stream (bs : list Z) : list Z :=
  match bs with
  | b0 :: b1 :: b2 :: rest => opt_cons (S_coeff_from_three_bytes b0 b1 b2) (S_rej_ntt_stream rest)
  | _ => []
  end.

(** Alg 15 *)
Definition S_coeff_from_half_byte (eta b : Z) : option Z :=
  if eta =? 2 then (if b <? 15 then Some (2 - b mod 5) else None)
  else (if b <? 9 then Some (4 - b) else None).

(** accepted values of the nibbles of [bs], low nibble then high nibble of each byte *)
Fixpoint S_rej_bounded_stream (eta : Z) (bs : list Z) : list Z :=
  match bs with
  | [] => []
  | b :: rest =>
    opt_cons (S_coeff_from_half_byte eta (b mod 16))
      (opt_cons (S_coeff_from_half_byte eta (b / 16)) (S_rej_bounded_stream eta rest))
  end.

(** Alg 29. [S_le_int] is the little-endian integer of a byte string; [S_next_le i bs] is the first
    stream byte [j <= i] and the rest of the stream ([None]: stream exhausted). *)
Definition S_le_int (bs : list Z) : Z := fold_right (fun b acc => b + 256 * acc) 0 bs.

Fixpoint S_next_le (i : Z) (bs : list Z) : option (Z * list Z) :=
  match bs with
  | [] => None
  | b :: r => if b <=? i then Some (b, r) else S_next_le i r
  end.

Fixpoint upd_nat (l : list Z) (n : nat) (v : Z) : list Z :=
  match l, n with
  | [], _ => []
  | _ :: xs, O => v :: xs
  | x :: xs, S n' => x :: upd_nat xs n' v
  end.
Definition S_upd (l : list Z) (i : Z) (v : Z) : list Z := upd_nat l (Z.to_nat i) v.
Definition S_at (l : list Z) (i : Z) : Z := nth (Z.to_nat i) l 0.

Fixpoint S_ball_loop (is : list Z) (tau h : Z) (bs : list Z) (c : list Z) : option (list Z) :=
  match is with
  | [] => Some c
  | i :: is' =>
    match S_next_le i bs with
    | None => None
    | Some (j, bs') =>
      let c1 := S_upd c i (S_at c j) in
      let c2 := S_upd c1 j (if Z.testbit h (i + tau - 256) then -1 else 1) in
      S_ball_loop is' tau h bs' c2
    end
  end.

(** [None] iff the (finite) stream [bs] runs out before tau positions have been drawn *)
Definition S_sample_in_ball (tau : Z) (signbytes bs : list Z) : option (list Z) :=
  S_ball_loop (zrange (256 - tau) 256) tau (S_le_int signbytes) bs (repeatZ 0 256).

Definition ternary (c : list Z) : Prop := Forall (fun x => x = 0 \/ x = 1 \/ x = -1) c.
(** number of nonzero entries *)
Fixpoint weight (c : list Z) : Z :=
  match c with [] => 0 | x :: r => (if x =? 0 then 0 else 1) + weight r end.

(** * List helpers *)
Lemma list_ind3 (P : list Z -> Prop) :
  P [] -> (forall a, P [a]) -> (forall a b, P [a; b]) ->
  (forall a b c l, P l -> P (a :: b :: c :: l)) -> forall l, P l.
Proof. intros H0 H1 H2 H3. fix IH 1. intros [|a [|b [|c l]]]; [exact H0 | apply H1 | apply H2 | apply H3; apply IH]. Qed.

Lemma Forall_firstn' {A} (P : A -> Prop) n l : Forall P l -> Forall P (firstn n l).
Proof.
  revert l; induction n as [|n IH]; intros [|x l] H; cbn [firstn]; auto.
  inversion H; subst. constructor; auto.
Qed.

Lemma Forall_skipn' {A} (P : A -> Prop) n l : Forall P l -> Forall P (skipn n l).
Proof.
  revert l; induction n as [|n IH]; intros [|x l] H; cbn [skipn]; auto.
  inversion H; subst. auto.
Qed.

Lemma skipn_skipn' {A} (x y : nat) (l : list A) : skipn x (skipn y l) = skipn (y + x) l.
Proof.
  revert l; induction y as [|y IH]; intros l; [reflexivity|].
  destruct l as [|a l]; cbn [skipn Nat.add]; [apply skipn_nil | apply IH].
Qed.

Lemma firstn_add {A} (a b : nat) (l : list A) : firstn (a + b) l = firstn a l ++ firstn b (skipn a l).
Proof.
  revert l; induction a as [|a IH]; intros l; [reflexivity|].
  destruct l as [|x l]; cbn [firstn skipn Nat.add app]; [now rewrite firstn_nil | now rewrite IH].
Qed.

Lemma zlen_nat {A} (l : list A) : Z.to_nat (zlen l) = length l.
Proof. unfold zlen. apply Nat2Z.id. Qed.

Lemma zlen_app {A} (l1 l2 : list A) : zlen (l1 ++ l2) = zlen l1 + zlen l2.
Proof. unfold zlen. rewrite app_length. lia. Qed.

Lemma splice0 {A} (l src : list A) :
  zlen src <= zlen l -> splice l 0 src = Ok (src ++ skipn (length src) l).
Proof.
  intros H. unfold splice.
  destruct (Z.leb_spec 0 0); [|lia]. destruct (Z.leb_spec (0 + zlen src) (zlen l)); [|lia].
  cbn [andb]. change (Z.to_nat 0) with O. cbn [firstn app].
  rewrite Z.add_0_l, zlen_nat. reflexivity.
Qed.

(** * 1. rej_uniform *)

Lemma land_disjoint x y k : 0 <= k -> 0 <= x < 2 ^ k -> Z.land x (Z.shiftl y k) = 0.
Proof.
  intros Hk Hx. apply Z.bits_inj'. intros n Hn. rewrite Z.land_spec, Z.bits_0.
  destruct (Z.lt_ge_cases n k) as [L|G].
  - rewrite (Z.shiftl_spec_low y k n L). apply andb_false_r.
  - rewrite <- (Z.mod_small x (2 ^ k)) by lia. rewrite Z.mod_pow2_bits_high by lia. reflexivity.
Qed.

Lemma lor_add x y k : 0 <= k -> 0 <= x < 2 ^ k -> Z.lor x (Z.shiftl y k) = x + y * 2 ^ k.
Proof.
  intros Hk Hx. pose proof (land_disjoint x y k Hk Hx) as H0.
  rewrite <- Z.lxor_lor by exact H0. rewrite <- Z.add_nocarry_lxor by exact H0.
  rewrite Z.shiftl_mul_pow2 by lia. reflexivity.
Qed.

(** the bit twiddling of the code is CoeffFromThreeBytes's integer *)
Lemma three_bytes_bits b0 b1 b2 : is_byte b0 -> is_byte b1 -> is_byte b2 ->
  Z.land (Z.lor (Z.lor b0 (Z.shiftl b1 8)) (Z.shiftl b2 16)) 8388607 = b0 + 256 * b1 + 65536 * (b2 mod 128).
Proof.
  unfold is_byte. intros H0 H1 H2.
  rewrite (lor_add b0 b1 8) by (change (2 ^ 8) with 256; lia).
  change (2 ^ 8) with 256.
  rewrite (lor_add (b0 + b1 * 256) b2 16) by (change (2 ^ 16) with 65536; lia).
  change (2 ^ 16) with 65536.
  change 8388607 with (Z.ones 23). rewrite Z.land_ones by lia. change (2 ^ 23) with 8388608.
  lia.
Qed.

Theorem rej_uniform_vals_spec want buf :
  Forall is_byte buf -> rej_uniform_vals want buf = firstn want (S_rej_ntt_stream buf).
Proof.
  revert want. induction buf as [| a | a b | a b c l IH] using list_ind3; intros want Hb;
    try (destruct want; reflexivity).
  inversion Hb as [|? ? Ha Hb1]; subst. inversion Hb1 as [|? ? Hbb Hb2]; subst.
  inversion Hb2 as [|? ? Hc Hl]; subst.
  cbn [rej_uniform_vals S_rej_ntt_stream].
  destruct want as [|w]; [reflexivity|].
  rewrite three_bytes_bits by assumption. unfold S_coeff_from_three_bytes.
  destruct (a + 256 * b + 65536 * (c mod 128) <? Q); cbn [opt_cons firstn].
  - f_equal. apply IH; assumption.
  - apply IH; assumption.
Qed.

Lemma S_rej_ntt_range bs : Forall is_byte bs -> Forall (fun x => 0 <= x < Q) (S_rej_ntt_stream bs).
Proof.
  induction bs as [| a | a b | a b c l IH] using list_ind3; intros Hb; try (constructor; fail).
  inversion Hb as [|? ? Ha Hb1]; subst. inversion Hb1 as [|? ? Hbb Hb2]; subst.
  inversion Hb2 as [|? ? Hc Hl]; subst.
  cbn [S_rej_ntt_stream]. unfold S_coeff_from_three_bytes.
  destruct (Z.ltb_spec (a + 256 * b + 65536 * (c mod 128)) Q) as [L|G]; cbn [opt_cons]; auto.
  constructor; auto. unfold is_byte in *. lia.
Qed.

Theorem rej_uniform_ok a alen buf buflen :
  Forall is_byte buf -> 0 <= alen -> 0 <= buflen <= zlen buf -> alen <= zlen a ->
  exists vals,
    vals = firstn (Z.to_nat alen) (S_rej_ntt_stream (firstn (Z.to_nat buflen) buf)) /\
    rej_uniform a alen buf buflen = Ok (vals ++ skipn (length vals) a, zlen vals) /\
    Forall (fun x => 0 <= x < Q) vals.
Proof.
  intros Hb Ha Hbl Hal. eexists. split; [reflexivity|].
  unfold rej_uniform.
  destruct (Z.ltb_spec alen 0); [lia|]. destruct (Z.ltb_spec buflen 0); [lia|].
  destruct (Z.ltb_spec (zlen buf) buflen); [lia|]. cbn [orb].
  rewrite rej_uniform_vals_spec by (apply Forall_firstn'; exact Hb).
  set (vals := firstn (Z.to_nat alen) _).
  assert (Hlen : zlen vals <= zlen a).
  { pose proof (firstn_le_length (Z.to_nat alen) (S_rej_ntt_stream (firstn (Z.to_nat buflen) buf))).
    unfold zlen in *. fold vals in H2. lia. }
  rewrite splice0 by exact Hlen. cbn [bind]. split; [reflexivity|].
  apply Forall_firstn'. apply S_rej_ntt_range. apply Forall_firstn'; exact Hb.
Qed.

(** * 2. rej_eta *)

Theorem eta_value_mod5 t : 0 <= t < 15 -> eta_value 2 t = 2 - t mod 5.
Proof.
  intros H. unfold eta_value. change (2 =? 2) with true. cbv iota.
  rewrite Z.shiftr_div_pow2 by lia. change (2 ^ 10) with 1024. lia.
Qed.

Lemma half_byte_model eta t : eta = 2 \/ eta = 4 -> 0 <= t < 16 ->
  S_coeff_from_half_byte eta t = if eta_accept eta t then Some (eta_value eta t) else None.
Proof.
  intros [-> | ->] Ht; unfold S_coeff_from_half_byte, eta_accept.
  - change (2 =? 2) with true. cbv iota.
    destruct (Z.ltb_spec t 15); [|reflexivity]. rewrite eta_value_mod5 by lia. reflexivity.
  - change (4 =? 2) with false. cbv iota. unfold eta_value. change (4 =? 2) with false. reflexivity.
Qed.

Lemma nibbles b : is_byte b ->
  Z.land b 15 = b mod 16 /\ Z.shiftr b 4 = b / 16 /\ 0 <= b mod 16 < 16 /\ 0 <= b / 16 < 16.
Proof.
  unfold is_byte. intros H. change 15 with (Z.ones 4). rewrite Z.land_ones by lia.
  rewrite Z.shiftr_div_pow2 by lia. change (2 ^ 4) with 16. lia.
Qed.

Theorem rej_eta_vals_spec eta want buf :
  eta = 2 \/ eta = 4 -> Forall is_byte buf ->
  rej_eta_vals eta want buf = firstn want (S_rej_bounded_stream eta buf).
Proof.
  intros He. revert want. induction buf as [|b l IH]; intros want Hb.
  - destruct want; reflexivity.
  - inversion Hb as [|? ? Hbb Hl]; subst.
    destruct (nibbles b Hbb) as (E0 & E1 & R0 & R1).
    cbn [rej_eta_vals S_rej_bounded_stream].
    destruct want as [|w]; [reflexivity|].
    rewrite E0, E1.
    rewrite (half_byte_model eta (b mod 16) He R0), (half_byte_model eta (b / 16) He R1).
    destruct (eta_accept eta (b mod 16)); destruct (eta_accept eta (b / 16)); cbn [opt_cons firstn].
    + destruct w as [|w']; cbn [firstn]; [reflexivity|]. rewrite IH by exact Hl. reflexivity.
    + destruct w as [|w']; cbn [firstn]; [reflexivity|].
      rewrite IH by exact Hl. reflexivity.
    + rewrite IH by exact Hl. reflexivity.
    + apply IH; exact Hl.
Qed.

Lemma half_byte_range eta t v : eta = 2 \/ eta = 4 -> 0 <= t ->
  S_coeff_from_half_byte eta t = Some v -> - eta <= v <= eta.
Proof.
  intros [-> | ->] Ht; unfold S_coeff_from_half_byte.
  - change (2 =? 2) with true. cbv iota. destruct (Z.ltb_spec t 15); intros E; [assert (Hv : v = 2 - t mod 5) by congruence; lia | discriminate].
  - change (4 =? 2) with false. cbv iota. destruct (Z.ltb_spec t 9); intros E; [assert (Hv : v = 4 - t) by congruence; lia | discriminate].
Qed.

Lemma S_rej_bounded_range eta bs : eta = 2 \/ eta = 4 -> Forall is_byte bs ->
  Forall (fun x => - eta <= x <= eta) (S_rej_bounded_stream eta bs).
Proof.
  intros He. induction bs as [|b l IH]; intros Hb; [constructor|].
  inversion Hb as [|? ? Hbb Hl]; subst.
  destruct (nibbles b Hbb) as (_ & _ & R0 & R1).
  cbn [S_rej_bounded_stream].
  destruct (S_coeff_from_half_byte eta (b mod 16)) as [v0|] eqn:E0;
    destruct (S_coeff_from_half_byte eta (b / 16)) as [v1|] eqn:E1; cbn [opt_cons]; auto;
    repeat (constructor; auto);
    try (apply (half_byte_range eta (b mod 16)); auto; lia);
    try (apply (half_byte_range eta (b / 16)); auto; lia).
Qed.

Theorem rej_eta_ok eta a alen buf buflen :
  eta = 2 \/ eta = 4 ->
  Forall is_byte buf -> 0 <= alen -> 0 <= buflen <= zlen buf -> alen <= zlen a ->
  exists vals,
    vals = firstn (Z.to_nat alen) (S_rej_bounded_stream eta (firstn (Z.to_nat buflen) buf)) /\
    rej_eta eta a alen buf buflen = Ok (vals ++ skipn (length vals) a, zlen vals) /\
    Forall (fun x => - eta <= x <= eta) vals.
Proof.
  intros He Hb Ha Hbl Hal. eexists. split; [reflexivity|].
  unfold rej_eta.
  destruct (Z.ltb_spec alen 0); [lia|]. destruct (Z.ltb_spec buflen 0); [lia|].
  destruct (Z.ltb_spec (zlen buf) buflen); [lia|]. cbn [orb].
  rewrite rej_eta_vals_spec by (auto; apply Forall_firstn'; exact Hb).
  set (vals := firstn (Z.to_nat alen) _).
  assert (Hlen : zlen vals <= zlen a).
  { pose proof (firstn_le_length (Z.to_nat alen)
                  (S_rej_bounded_stream eta (firstn (Z.to_nat buflen) buf))) as HH.
    unfold zlen in *. fold vals in HH. lia. }
  rewrite splice0 by exact Hlen. cbn [bind]. split; [reflexivity|].
  apply Forall_firstn'. apply S_rej_bounded_range; auto. apply Forall_firstn'; exact Hb.
Qed.

(** * 3a. uniform_gamma1: decoded range of z_unpack *)

Lemma land_ones_range x k : 0 <= k -> 0 <= Z.land x (Z.ones k) < 2 ^ k.
Proof. intros Hk. rewrite Z.land_ones by lia. apply Z.mod_pos_bound. apply pow2_pos; lia. Qed.

Lemma i32_sub_ok a b : - 2147483648 <= a - b < 2147483648 -> i32_sub a b = Ok (a - b).
Proof. intros H. unfold i32_sub. apply chk_s_ok. change (2 ^ (32 - 1)) with 2147483648. lia. Qed.

Lemma z_unpack18 n : forall l, Forall is_byte l -> (9 * n <= length l)%nat ->
  exists p, z_unpack_list 131072 n l = Ok p /\ length p = (4 * n)%nat /\
            Forall (fun x => - 131072 < x <= 131072) p.
Proof.
  induction n as [|n IH]; intros l Hb Hl.
  - exists []. repeat split; constructor.
  - destruct l as [|b0 [|b1 [|b2 [|b3 [|b4 [|b5 [|b6 [|b7 [|b8 rest]]]]]]]]]; cbn [length] in Hl; try lia.
    assert (Hr : Forall is_byte rest) by (apply (Forall_skipn' _ 9 _ Hb)).
    destruct (IH rest Hr ltac:(lia)) as (p & E & L & R).
    cbn [z_unpack_list]. change (131072 =? 131072) with true. cbv iota.
    repeat match goal with
    | |- context [i32_sub 131072 (Z.land ?x 262143)] =>
      let H := fresh "B" in
      pose proof (land_ones_range x 18 ltac:(lia)) as H;
      change (Z.ones 18) with 262143 in H; change (2 ^ 18) with 262144 in H;
      rewrite (i32_sub_ok 131072 (Z.land x 262143)) by lia; cbn [bind]
    end.
    rewrite E. cbn [bind]. eexists. split; [reflexivity|]. split; [cbn [length]; lia|].
    repeat (constructor; [lia|]). exact R.
Qed.

Lemma z_unpack20 n : forall l, Forall is_byte l -> (5 * n <= length l)%nat ->
  exists p, z_unpack_list 524288 n l = Ok p /\ length p = (2 * n)%nat /\
            Forall (fun x => - 524288 < x <= 524288) p.
Proof.
  induction n as [|n IH]; intros l Hb Hl.
  - exists []. repeat split; constructor.
  - destruct l as [|b0 [|b1 [|b2 [|b3 [|b4 rest]]]]]; cbn [length] in Hl; try lia.
    assert (Hr : Forall is_byte rest) by (apply (Forall_skipn' _ 5 _ Hb)).
    destruct (IH rest Hr ltac:(lia)) as (p & E & L & R).
    inversion Hb as [|? ? H0 Hb1]; subst. inversion Hb1 as [|? ? H1 Hb2]; subst.
    inversion Hb2 as [|? ? H2 Hb3]; subst. inversion Hb3 as [|? ? H3 Hb4]; subst.
    inversion Hb4 as [|? ? H4 _]; subst. unfold is_byte in H2, H3, H4.
    cbn [z_unpack_list]. change (524288 =? 131072) with false. cbv iota.
    match goal with
    | |- context [i32_sub 524288 (Z.land ?x 1048575)] =>
      pose proof (land_ones_range x 20 ltac:(lia)) as B0;
      change (Z.ones 20) with 1048575 in B0; change (2 ^ 20) with 1048576 in B0;
      rewrite (i32_sub_ok 524288 (Z.land x 1048575)) by lia; cbn [bind]
    end.
    unfold sar. rewrite Z.shiftr_div_pow2 by lia. change (2 ^ 4) with 16.
    rewrite (lor_add (b2 / 16) b3 4) by (change (2 ^ 4) with 16; lia). change (2 ^ 4) with 16.
    rewrite (lor_add (b2 / 16 + b3 * 16) b4 12) by (change (2 ^ 12) with 4096; lia).
    change (2 ^ 12) with 4096.
    rewrite i32_sub_ok by lia. cbn [bind].
    rewrite E. cbn [bind]. eexists. split; [reflexivity|]. split; [cbn [length]; lia|].
    repeat (constructor; [lia|]). exact R.
Qed.

Theorem uniform_gamma1_range g1 tape :
  g1 = 131072 \/ g1 = 524288 -> Forall is_byte tape -> zlen tape >= 680 ->
  exists p, uniform_gamma1_from (tape_sq 136) g1 tape = Ok p /\ length p = 256%nat /\
            Forall (fun x => - g1 < x <= g1) p.
Proof.
  intros Hg Hb Hl. unfold uniform_gamma1_from, tape_sq.
  change (5 * 136) with 680. destruct (Z.ltb_spec (zlen tape) 680); [lia|]. cbn [bind].
  assert (Hf : Forall is_byte (firstn (Z.to_nat 680) tape)) by (apply Forall_firstn'; exact Hb).
  assert (Hlen : length (firstn (Z.to_nat 680) tape) = 680%nat).
  { rewrite firstn_length. unfold zlen in *. lia. }
  unfold z_unpack. destruct Hg as [-> | ->].
  - change (131072 =? 131072) with true. cbv iota.
    destruct (z_unpack18 64 _ Hf ltac:(lia)) as (p & E & L & R). exists p. auto.
  - change (524288 =? 131072) with false. cbv iota.
    destruct (z_unpack20 128 _ Hf ltac:(lia)) as (p & E & L & R). exists p. auto.
Qed.

(** * 3b. challenge (SampleInBall) *)

Definition ind (x : Z) : Z := if x =? 0 then 0 else 1.

Lemma weight_filter c : weight c = zlen (filter (fun x => negb (x =? 0)) c).
Proof.
  induction c as [|x r IH]; [reflexivity|]. cbn [weight filter]. rewrite IH.
  destruct (x =? 0); cbn [negb]; unfold zlen; cbn [length]; lia.
Qed.

Lemma get_ok_inv {A} (l : list A) i x :
  get l i = Ok x -> 0 <= i < zlen l /\ nth_error l (Z.to_nat i) = Some x.
Proof.
  unfold get. destruct (Z.ltb_spec i 0); [discriminate|].
  destruct (nth_error l (Z.to_nat i)) as [y|] eqn:E; [|discriminate].
  intros Hx. assert (y = x) by congruence. subst y. split; [|reflexivity].
  assert (Hlt : (Z.to_nat i < length l)%nat) by (apply nth_error_Some; congruence).
  unfold zlen. lia.
Qed.

Lemma get_ok (l : list Z) i : 0 <= i < zlen l -> get l i = Ok (S_at l i).
Proof.
  intros H. unfold get, S_at. destruct (Z.ltb_spec i 0); [lia|].
  rewrite (nth_error_nth' l 0) by (unfold zlen in H; lia). reflexivity.
Qed.

Lemma nth_error_skipn {A} (l : list A) n x : nth_error l n = Some x -> skipn n l = x :: skipn (S n) l.
Proof.
  revert l; induction n as [|n IH]; intros [|y l] H; try discriminate.
  - cbn in H. assert (y = x) by congruence. subst. reflexivity.
  - cbn [nth_error] in H. change (skipn (S n) (y :: l)) with (skipn n l). rewrite (IH l H). reflexivity.
Qed.

Lemma set_nat_ok l n v : (n < length l)%nat -> set_nat l n v = Ok (upd_nat l n v).
Proof.
  revert n; induction l as [|x l IH]; intros n H; cbn [length] in H; [lia|].
  destruct n as [|n]; cbn [set_nat upd_nat]; [reflexivity|].
  rewrite IH by lia. reflexivity.
Qed.

Lemma set_ok l i v : 0 <= i < zlen l -> set l i v = Ok (S_upd l i v).
Proof.
  intros H. unfold set, S_upd. destruct (Z.ltb_spec i 0); [lia|].
  apply set_nat_ok. unfold zlen in H. lia.
Qed.

Lemma upd_nat_length l n v : length (upd_nat l n v) = length l.
Proof.
  revert n; induction l as [|x l IH]; intros n; [reflexivity|].
  destruct n; cbn [upd_nat length]; [reflexivity|]. now rewrite IH.
Qed.

Lemma nth_upd_nat l n v m : (n < length l)%nat ->
  nth m (upd_nat l n v) 0 = if Nat.eqb m n then v else nth m l 0.
Proof.
  revert n m; induction l as [|x l IH]; intros n m H; cbn [length] in H; [lia|].
  destruct n as [|n]; destruct m as [|m]; cbn [upd_nat nth Nat.eqb]; try reflexivity.
  apply IH. lia.
Qed.

Lemma weight_upd_nat l n v : (n < length l)%nat ->
  weight (upd_nat l n v) = weight l - ind (nth n l 0) + ind v.
Proof.
  revert n; induction l as [|x l IH]; intros n H; cbn [length] in H; [lia|].
  destruct n as [|n]; cbn [upd_nat weight nth]; fold (ind x); fold (ind v); [lia|].
  rewrite IH by lia. lia.
Qed.

Lemma ternary_upd_nat l n v : ternary l -> (v = 0 \/ v = 1 \/ v = -1) -> ternary (upd_nat l n v).
Proof.
  unfold ternary. revert n; induction l as [|x l IH]; intros n H Hv; [constructor|].
  inversion H; subst. destruct n; cbn [upd_nat]; constructor; auto.
Qed.

Lemma ternary_nth l n : ternary l -> nth n l 0 = 0 \/ nth n l 0 = 1 \/ nth n l 0 = -1.
Proof.
  unfold ternary. revert n; induction l as [|x l IH]; intros n H.
  - destruct n; auto.
  - inversion H; subst. destruct n; cbn [nth]; auto.
Qed.

Lemma weight_repeat0 n : weight (repeat 0 n) = 0.
Proof. induction n as [|n IH]; [reflexivity|]. cbn [repeat weight]. rewrite IH. reflexivity. Qed.

Lemma ternary_repeat0 n : ternary (repeat 0 n).
Proof. induction n; cbn [repeat]; constructor; auto. Qed.

Lemma land1_bit h s : 0 <= s -> Z.land (Z.shiftr h s) 1 = if Z.testbit h s then 1 else 0.
Proof.
  intros Hs. change 1 with (Z.ones 1) at 1. rewrite Z.land_ones by lia. change (2 ^ 1) with 2.
  rewrite <- Z.bit0_mod. rewrite Z.shiftr_spec by lia. rewrite Z.add_0_l.
  destruct (Z.testbit h s); reflexivity.
Qed.

(** the inner loop finds the spec's next admissible byte of the contiguous stream
    (unread part of the buffer followed by the unread tape) *)
Lemma challenge_next_ok fuel : forall st buf pos i b st1 buf1 pos1,
  Forall is_byte st -> Forall is_byte buf -> length buf = 136%nat -> 0 <= pos <= 136 ->
  challenge_next (tape_sq 136) fuel st buf pos i = Ok (b, st1, buf1, pos1) ->
  Forall is_byte st1 /\ Forall is_byte buf1 /\ length buf1 = 136%nat /\ 0 <= pos1 <= 136 /\ 0 <= b <= i /\
  S_next_le i (skipn (Z.to_nat pos) buf ++ st) = Some (b, skipn (Z.to_nat pos1) buf1 ++ st1).
Proof.
  induction fuel as [|f IH]; intros st buf pos i b st1 buf1 pos1 Hst Hbuf Hlen Hpos H; [discriminate|].
  cbn [challenge_next] in H.
  match type of H with bind ?R _ = _ => destruct R as [[[buf' st'] pos']| |] eqn:ER; try discriminate end.
  cbn [bind] in H.
  assert (HR : Forall is_byte st' /\ Forall is_byte buf' /\ length buf' = 136%nat /\ 0 <= pos' <= 136 /\
               skipn (Z.to_nat pos') buf' ++ st' = skipn (Z.to_nat pos) buf ++ st).
  { destruct (Z.leb_spec 136 pos) as [Hge|Hlt].
    - unfold tape_sq in ER. change (1 * 136) with 136 in ER.
      destruct (Z.ltb_spec (zlen st) 136) as [|Hz]; [discriminate|]. cbn [bind] in ER.
      assert (E1 : buf' = firstn (Z.to_nat 136) st) by congruence.
      assert (E2 : st' = skipn (Z.to_nat 136) st) by congruence.
      assert (E3 : pos' = 0) by congruence. subst buf' st' pos'.
      split; [apply Forall_skipn'; exact Hst|]. split; [apply Forall_firstn'; exact Hst|].
      split; [rewrite firstn_length; unfold zlen in Hz; lia|]. split; [lia|].
      change (Z.to_nat 0) with O. cbn [skipn]. rewrite firstn_skipn.
      rewrite skipn_all2 by lia. reflexivity.
    - assert (E1 : buf' = buf) by congruence. assert (E2 : st' = st) by congruence.
      assert (E3 : pos' = pos) by congruence. subst. repeat split; auto; lia. }
  destruct HR as (Hst' & Hbuf' & Hlen' & Hpos' & Hcat). clear ER.
  destruct (get buf' pos') as [b0| |] eqn:EG; try discriminate. cbn [bind] in H.
  destruct (get_ok_inv _ _ _ EG) as (Hr & Hn).
  assert (Hb0 : is_byte b0).
  { apply nth_error_In in Hn. rewrite Forall_forall in Hbuf'. apply Hbuf'. exact Hn. }
  rewrite <- Hcat. rewrite (nth_error_skipn _ _ _ Hn). cbn [app S_next_le].
  assert (Hs : S (Z.to_nat pos') = Z.to_nat (pos' + 1)) by lia. rewrite Hs.
  assert (Hp1 : 0 <= pos' + 1 <= 136) by (unfold zlen in Hr; lia).
  destruct (Z.leb_spec b0 i) as [Hle|Hgt].
  - assert (b = b0) by congruence. assert (st1 = st') by congruence.
    assert (buf1 = buf') by congruence. assert (pos1 = pos' + 1) by congruence. subst.
    unfold is_byte in Hb0. repeat split; auto; lia.
  - destruct (IH _ _ _ _ _ _ _ _ Hst' Hbuf' Hlen' Hp1 H) as (A1 & A2 & A3 & A4 & A5 & A6).
    repeat split; auto; lia.
Qed.

Lemma challenge_loop_ok tau h fuel : 0 <= tau <= 256 ->
  forall n s st buf pos c cfin,
  Forall is_byte st -> Forall is_byte buf -> length buf = 136%nat -> 0 <= pos <= 136 ->
  Z.of_nat s + Z.of_nat n <= tau ->
  length c = 256%nat -> ternary c ->
  (forall k, (Z.to_nat (256 - tau + Z.of_nat s) <= k)%nat -> nth k c 0 = 0) ->
  weight c = Z.of_nat s ->
  challenge_loop (tape_sq 136) fuel (map (fun k => 256 - tau + Z.of_nat k) (seq s n)) st buf pos
                 (Z.shiftr h (Z.of_nat s)) c = Ok cfin ->
  length cfin = 256%nat /\ ternary cfin /\ weight cfin = Z.of_nat s + Z.of_nat n /\
  S_ball_loop (map (fun k => 256 - tau + Z.of_nat k) (seq s n)) tau h
              (skipn (Z.to_nat pos) buf ++ st) c = Some cfin.
Proof.
  intros Htau. induction n as [|n IH]; intros s st buf pos c cfin Hst Hbuf Hlen Hpos Hsn Hc Ht Hz Hw H.
  - cbn [seq map challenge_loop S_ball_loop] in *. assert (cfin = c) by congruence. subst.
    repeat split; auto. lia.
  - cbn [seq map challenge_loop S_ball_loop] in *.
    set (i := 256 - tau + Z.of_nat s) in *.
    assert (Hi : 0 <= i < 256) by (unfold i; lia).
    destruct (challenge_next (tape_sq 136) fuel st buf pos i) as [[[[b st1] buf1] pos1]| |] eqn:EN;
      try discriminate.
    cbn [bind] in H.
    destruct (challenge_next_ok _ _ _ _ _ _ _ _ _ Hst Hbuf Hlen Hpos EN) as (A1 & A2 & A3 & A4 & A5 & A6).
    rewrite A6.
    assert (Hzl : zlen c = 256) by (unfold zlen; lia).
    rewrite get_ok in H by lia. cbn [bind] in H.
    rewrite set_ok in H by lia. cbn [bind] in H.
    rewrite land1_bit in H by lia.
    replace (i + tau - 256) with (Z.of_nat s) by (unfold i; lia).
    set (c1 := S_upd c i (S_at c b)) in *.
    assert (Hc1 : length c1 = 256%nat) by (unfold c1, S_upd; rewrite upd_nat_length; exact Hc).
    set (v := if Z.testbit h (Z.of_nat s) then -1 else 1).
    assert (Hv : (do v0 <- i32_mul 2 (if Z.testbit h (Z.of_nat s) then 1 else 0); i32_sub 1 v0) = Ok v).
    { unfold v, i32_mul. destruct (Z.testbit h (Z.of_nat s)).
      - rewrite chk_s_ok by (change (2 ^ (32 - 1)) with 2147483648; lia). cbn [bind].
        rewrite i32_sub_ok by lia. reflexivity.
      - rewrite chk_s_ok by (change (2 ^ (32 - 1)) with 2147483648; lia). cbn [bind].
        rewrite i32_sub_ok by lia. reflexivity. }
    destruct (i32_mul 2 (if Z.testbit h (Z.of_nat s) then 1 else 0)) as [v0| |]; try discriminate.
    cbn [bind] in H, Hv. rewrite Hv in H. cbn [bind] in H.
    rewrite set_ok in H by (unfold zlen; lia). cbn [bind] in H.
    rewrite Z.shiftr_shiftr in H by lia.
    replace (Z.of_nat s + 1) with (Z.of_nat (S s)) in H by lia.
    set (c2 := S_upd c1 b v) in *.
    assert (Hvt : v = 0 \/ v = 1 \/ v = -1) by (unfold v; destruct (Z.testbit h (Z.of_nat s)); auto).
    assert (Hvi : ind v = 1) by (unfold v; destruct (Z.testbit h (Z.of_nat s)); reflexivity).
    assert (Hci : nth (Z.to_nat i) c 0 = 0) by (apply Hz; unfold i; lia).
    assert (Hc1b : nth (Z.to_nat b) c1 0 = S_at c b).
    { unfold c1, S_upd. rewrite nth_upd_nat by lia. destruct (Nat.eqb (Z.to_nat b) (Z.to_nat i)); reflexivity. }
    destruct (IH (S s) st1 buf1 pos1 c2 cfin) as (B1 & B2 & B3 & B4); auto.
    + lia.
    + unfold c2, S_upd. rewrite upd_nat_length. exact Hc1.
    + unfold c2, c1, S_upd. apply ternary_upd_nat; [|exact Hvt]. apply ternary_upd_nat; [exact Ht|].
      apply ternary_nth. exact Ht.
    + intros k Hk. unfold c2, S_upd. rewrite nth_upd_nat by lia.
      destruct (Nat.eqb_spec k (Z.to_nat b)) as [->|_]; [lia|].
      unfold c1, S_upd. rewrite nth_upd_nat by lia.
      destruct (Nat.eqb_spec k (Z.to_nat i)) as [->|_]; [unfold i in Hk; lia|].
      apply Hz. lia.
    + unfold c2, S_upd. rewrite weight_upd_nat by lia. rewrite Hc1b, Hvi.
      unfold c1, S_upd. rewrite weight_upd_nat by lia. rewrite Hci. unfold S_at. change (ind 0) with 0. lia.
    + repeat split; auto. lia.
Qed.

(** the challenge polynomial: 256 coefficients, exactly tau of them +-1 and the others 0, and it is
    SampleInBall of (first 8 tape bytes, tape from byte 8 on) — successive blocks are contiguous *)
Theorem challenge_tape_ok tape tau fuel c :
  Forall is_byte tape -> 0 <= tau <= 256 ->
  challenge_from (tape_sq 136) tau fuel tape = Ok c ->
  length c = 256%nat /\ ternary c /\ weight c = tau /\
  S_sample_in_ball tau (firstn 8 tape) (skipn 8 tape) = Some c.
Proof.
  intros Hb Htau H. unfold challenge_from, tape_sq in H. change (1 * 136) with 136 in H.
  destruct (Z.ltb_spec (zlen tape) 136) as [|Hz]; [discriminate|]. cbn [bind] in H.
  rewrite firstn_firstn in H. change (Nat.min 8 (Z.to_nat 136)) with 8%nat in H.
  fold (S_le_int (firstn 8 tape)) in H.
  unfold zrange in H. replace (256 - (256 - tau)) with tau in H by lia.
  unfold S_sample_in_ball, zrange. replace (256 - (256 - tau)) with tau by lia.
  assert (F1 : Forall is_byte (skipn (Z.to_nat 136) tape)) by (apply Forall_skipn'; exact Hb).
  assert (F2 : Forall is_byte (firstn (Z.to_nat 136) tape)) by (apply Forall_firstn'; exact Hb).
  assert (F3 : length (firstn (Z.to_nat 136) tape) = 136%nat)
    by (rewrite firstn_length; unfold zlen in Hz; lia).
  assert (F4 : 0 <= 8 <= 136) by lia.
  assert (F5 : Z.of_nat 0 + Z.of_nat (Z.to_nat tau) <= tau) by lia.
  assert (F6 : length (repeatZ 0 256) = 256%nat) by (unfold repeatZ; rewrite repeat_length; reflexivity).
  assert (F7 : ternary (repeatZ 0 256)) by apply ternary_repeat0.
  assert (F8 : forall k, (Z.to_nat (256 - tau + Z.of_nat 0) <= k)%nat -> nth k (repeatZ 0 256) 0 = 0)
    by (intros k _; unfold repeatZ; apply nth_repeat).
  assert (F9 : weight (repeatZ 0 256) = Z.of_nat 0) by (unfold repeatZ; apply weight_repeat0).
  rewrite <- (Z.shiftr_0_r (S_le_int (firstn 8 tape))) in H. change 0 with (Z.of_nat 0) in H at 1.
  destruct (challenge_loop_ok tau (S_le_int (firstn 8 tape)) fuel Htau (Z.to_nat tau) O
              _ _ _ _ c F1 F2 F3 F4 F5 F6 F7 F8 F9 H) as (B1 & B2 & B3 & B4).
  repeat split; auto; [lia|].
  rewrite <- B4. f_equal. change (Z.to_nat 8) with 8%nat.
  rewrite <- (firstn_skipn (Z.to_nat 136) tape) at 1.
  rewrite skipn_app. rewrite firstn_length.
  replace (8 - Nat.min (Z.to_nat 136) (length tape))%nat with O by (unfold zlen in Hz; lia).
  reflexivity.
Qed.

(** * 3c. refill loops over a tape: a common normal form *)

(** [gen_loop rate smp fuel st acc]: while fewer than 256 values have been accepted, take the next
    [rate] bytes of the tape and append (at most the missing number of) their accepted values. *)
Lemma firstn_exact {A} (l1 l2 : list A) n : length l1 = n -> firstn n (l1 ++ l2) = l1.
Proof.
  intros <-. rewrite firstn_app, Nat.sub_diag, firstn_all2 by lia. cbn [firstn]. apply app_nil_r.
Qed.

Section GenLoop.
  Variable rate : nat.
  Variable smp : list Z -> list Z.
  Hypothesis smp_app : forall j l1 l2, length l1 = (j * rate)%nat -> smp (l1 ++ l2) = smp l1 ++ smp l2.

  Fixpoint gen_loop (fuel : nat) (st acc : list Z) : res (list Z) :=
    if (length acc <? 256)%nat then
      match fuel with
      | O => OutOfFuel
      | S f =>
        if (length st <? rate)%nat then Panic
        else gen_loop f (skipn rate st) (acc ++ firstn (256 - length acc) (smp (firstn rate st)))
      end
    else Ok acc.

  Lemma gen_loop_done fuel st acc : (256 <= length acc)%nat -> gen_loop fuel st acc = Ok acc.
  Proof.
    intros H. destruct fuel; cbn [gen_loop]; destruct (Nat.ltb_spec (length acc) 256); auto; lia.
  Qed.

  (** one step of the accumulator is one more block of the contiguous stream *)
  Lemma acc_step pre blk :
    (length (firstn 256 (smp pre)) < 256)%nat ->
    firstn 256 (smp pre) ++ firstn (256 - length (firstn 256 (smp pre))) (smp blk)
    = firstn 256 (smp pre ++ smp blk) /\ (length (smp pre) < 256)%nat.
  Proof.
    intros H. rewrite firstn_length in H.
    assert (Hl : (length (smp pre) < 256)%nat) by lia. split; [|exact Hl].
    rewrite (firstn_all2 (n := 256) (smp pre)) by lia.
    rewrite firstn_app. rewrite (firstn_all2 (n := 256) (smp pre)) by lia. reflexivity.
  Qed.

  Lemma gen_loop_sound tape : forall fuel j pre st p,
    tape = pre ++ st -> length pre = (j * rate)%nat ->
    gen_loop fuel st (firstn 256 (smp pre)) = Ok p ->
    exists k, (j <= k)%nat /\ (k * rate <= length tape)%nat /\
      p = firstn 256 (smp (firstn (k * rate) tape)) /\ length p = 256%nat /\
      (forall k', (j <= k' < k)%nat -> (length (smp (firstn (k' * rate) tape)) < 256)%nat) /\
      (k - j <= fuel)%nat.
  Proof.
    induction fuel as [|f IH]; intros j pre st p Ht Hp H.
    - cbn [gen_loop] in H. destruct (Nat.ltb_spec (length (firstn 256 (smp pre))) 256) as [L|G];
        [discriminate|].
      assert (p = firstn 256 (smp pre)) by congruence. subst p.
      exists j. rewrite Ht, (firstn_exact pre st _ Hp). rewrite app_length.
      pose proof (firstn_le_length 256 (smp pre)).
      repeat split; try lia.
    - cbn [gen_loop] in H. destruct (Nat.ltb_spec (length (firstn 256 (smp pre))) 256) as [L|G].
      + destruct (Nat.ltb_spec (length st) rate) as [|Hst]; [discriminate|].
        destruct (acc_step pre (firstn rate st) L) as (E & Hl). rewrite E in H.
        rewrite <- (smp_app j) in H by exact Hp.
        assert (Hlen : length (pre ++ firstn rate st) = (S j * rate)%nat).
        { rewrite app_length, firstn_length. lia. }
        assert (Ht' : tape = (pre ++ firstn rate st) ++ skipn rate st).
        { rewrite <- app_assoc, firstn_skipn. exact Ht. }
        destruct (IH (S j) _ _ p Ht' Hlen H) as (k & K1 & K2 & K3 & K4 & K5 & K6).
        exists k. repeat split; auto; try lia.
        intros k' Hk'. destruct (Nat.eq_dec k' j) as [->|Hne].
        * rewrite Ht, (firstn_exact pre st _ Hp). exact Hl.
        * apply K5. lia.
      + assert (p = firstn 256 (smp pre)) by congruence. subst p.
        exists j. rewrite Ht, (firstn_exact pre st _ Hp). rewrite app_length.
        pose proof (firstn_le_length 256 (smp pre)).
        repeat split; try lia.
  Qed.

  Lemma gen_loop_complete tape : forall d fuel j pre st k,
    tape = pre ++ st -> length pre = (j * rate)%nat -> k = (j + d)%nat ->
    (k * rate <= length tape)%nat ->
    (256 <= length (smp (firstn (k * rate) tape)))%nat ->
    (forall k', (j <= k' < k)%nat -> (length (smp (firstn (k' * rate) tape)) < 256)%nat) ->
    (d <= fuel)%nat ->
    gen_loop fuel st (firstn 256 (smp pre)) = Ok (firstn 256 (smp (firstn (k * rate) tape))).
  Proof.
    induction d as [|d IH]; intros fuel j pre st k Ht Hp Hk Hlen Hacc Hmin Hfuel.
    - assert (Hkj : k = j) by lia. clear Hk. subst k. subst tape. rewrite (firstn_exact pre st _ Hp) in Hacc |- *.
      apply gen_loop_done. rewrite firstn_length. lia.
    - assert (Hl : (length (smp pre) < 256)%nat).
      { specialize (Hmin j ltac:(lia)). rewrite Ht, (firstn_exact pre st _ Hp) in Hmin. exact Hmin. }
      destruct fuel as [|f]; [lia|]. cbn [gen_loop].
      assert (L : (length (firstn 256 (smp pre)) < 256)%nat) by (rewrite firstn_length; lia).
      destruct (Nat.ltb_spec (length (firstn 256 (smp pre))) 256) as [_|G]; [|lia].
      assert (Hst : (rate <= length st)%nat).
      { rewrite Ht, app_length in Hlen. subst k. nia. }
      destruct (Nat.ltb_spec (length st) rate) as [|_]; [lia|].
      destruct (acc_step pre (firstn rate st) L) as (E & _). rewrite E.
      rewrite <- (smp_app j) by exact Hp.
      apply (IH f (S j)); auto; try lia.
      + rewrite <- app_assoc, firstn_skipn. exact Ht.
      + rewrite app_length, firstn_length. lia.
      + intros k' Hk'. apply Hmin. lia.
  Qed.
End GenLoop.

(** ** helpers for the monadic plumbing *)
Lemma slice_empty {A} (l : list A) b : 0 <= b <= zlen l -> slice l b b = Ok [].
Proof.
  intros H. unfold slice.
  destruct (Z.leb_spec 0 b); [|lia]. destruct (Z.leb_spec b b); [|lia].
  destruct (Z.leb_spec b (zlen l)); [|lia]. cbn [andb]. rewrite Z.sub_diag. reflexivity.
Qed.

Lemma slice_from_ok {A} (l : list A) a : 0 <= a <= zlen l -> slice_from l a = Ok (skipn (Z.to_nat a) l).
Proof.
  intros H. unfold slice_from.
  destruct (Z.leb_spec 0 a); [|lia]. destruct (Z.leb_spec a (zlen l)); [|lia]. reflexivity.
Qed.

Lemma usize_sub_ok a b : 0 <= a - b < 18446744073709551616 -> usize_sub a b = Ok (a - b).
Proof. intros H. unfold usize_sub. apply chk_u_ok. change (2 ^ 64) with 18446744073709551616. lia. Qed.

Lemma splice_ok {A} (l src : list A) off : 0 <= off -> off + zlen src <= zlen l ->
  splice l off src = Ok (firstn (Z.to_nat off) l ++ src ++ skipn (Z.to_nat (off + zlen src)) l).
Proof.
  intros H1 H2. unfold splice.
  destruct (Z.leb_spec 0 off); [|lia]. destruct (Z.leb_spec (off + zlen src) (zlen l)); [|lia]. reflexivity.
Qed.

Lemma writeback (a vals : list Z) (c m : nat) :
  length a = 256%nat -> (c <= 256)%nat -> (length vals <= 256 - c)%nat -> (256 <= m)%nat ->
  length (firstn c a ++ (vals ++ skipn (length vals) (skipn c a)) ++ skipn m a) = 256%nat /\
  firstn (c + length vals) (firstn c a ++ (vals ++ skipn (length vals) (skipn c a)) ++ skipn m a)
  = firstn c a ++ vals.
Proof.
  intros Ha Hc Hv Hm. rewrite (skipn_all2 (n := m) a) by lia. rewrite app_nil_r.
  assert (Hf : length (firstn c a) = c) by (rewrite firstn_length; lia).
  split.
  - rewrite !app_length, Hf, !skipn_length. lia.
  - rewrite <- Hf at 1. rewrite firstn_app_2. f_equal. apply firstn_exact. reflexivity.
Qed.

(** versions of [rej_uniform_ok] / [rej_eta_ok] that only look at the first [buflen] bytes *)
Lemma rej_uniform_ok' a alen buf buflen :
  Forall is_byte (firstn (Z.to_nat buflen) buf) -> 0 <= alen -> 0 <= buflen <= zlen buf -> alen <= zlen a ->
  let vals := firstn (Z.to_nat alen) (S_rej_ntt_stream (firstn (Z.to_nat buflen) buf)) in
  rej_uniform a alen buf buflen = Ok (vals ++ skipn (length vals) a, zlen vals).
Proof.
  intros Hb Ha Hbl Hal vals. unfold rej_uniform.
  destruct (Z.ltb_spec alen 0); [lia|]. destruct (Z.ltb_spec buflen 0); [lia|].
  destruct (Z.ltb_spec (zlen buf) buflen); [lia|]. cbn [orb].
  rewrite rej_uniform_vals_spec by exact Hb. fold vals.
  assert (Hlen : zlen vals <= zlen a).
  { pose proof (firstn_le_length (Z.to_nat alen) (S_rej_ntt_stream (firstn (Z.to_nat buflen) buf))) as HH.
    fold vals in HH. unfold zlen in *. lia. }
  rewrite splice0 by exact Hlen. reflexivity.
Qed.

Lemma S_rej_ntt_app l1 : forall l2 m, length l1 = (3 * m)%nat ->
  S_rej_ntt_stream (l1 ++ l2) = S_rej_ntt_stream l1 ++ S_rej_ntt_stream l2.
Proof.
  induction l1 as [| a | a b | a b c l IH] using list_ind3; intros l2 m H; cbn [length] in H; try lia.
  - reflexivity.
  - cbn [app S_rej_ntt_stream]. rewrite (IH l2 (m - 1)%nat) by lia.
    destruct (S_coeff_from_three_bytes a b c); reflexivity.
Qed.

Lemma S_rej_ntt_app168 j l1 l2 : length l1 = (j * 168)%nat ->
  S_rej_ntt_stream (l1 ++ l2) = S_rej_ntt_stream l1 ++ S_rej_ntt_stream l2.
Proof. intros H. apply (S_rej_ntt_app l1 l2 (j * 56)%nat). lia. Qed.

Lemma S_rej_bounded_app eta l1 l2 :
  S_rej_bounded_stream eta (l1 ++ l2) = S_rej_bounded_stream eta l1 ++ S_rej_bounded_stream eta l2.
Proof.
  induction l1 as [|b l IH]; [reflexivity|]. cbn [app S_rej_bounded_stream]. rewrite IH.
  destruct (S_coeff_from_half_byte eta (b mod 16)); destruct (S_coeff_from_half_byte eta (b / 16)); reflexivity.
Qed.

(** ** poly::uniform: the refill loop keeps [buflen mod 3] bytes; [buflen] is 840 and then always 168,
    so nothing is ever kept and each refill samples exactly the next 168-byte block *)
Lemma leftover_zero : 840 mod 3 = 0 /\ (168 + 0) mod 3 = 0.
Proof. split; reflexivity. Qed.

Lemma uniform_loop_gen : forall fuel st a ctr buf buflen,
  Forall is_byte st -> length a = 256%nat -> 0 <= ctr <= 256 ->
  buflen mod 3 = 0 -> 0 <= buflen <= zlen buf -> 168 <= zlen buf ->
  uniform_loop (tape_sq 168) fuel st a ctr buf buflen
  = gen_loop 168 S_rej_ntt_stream fuel st (firstn (Z.to_nat ctr) a).
Proof.
  induction fuel as [|f IH]; intros st a ctr buf buflen Hst Ha Hctr Hmod Hbl Hbuf.
  - cbn [uniform_loop gen_loop]. rewrite firstn_length, Ha.
    destruct (Z.ltb_spec ctr 256); destruct (Nat.ltb_spec (Nat.min (Z.to_nat ctr) 256) 256); try lia; auto.
    rewrite firstn_all2 by lia. reflexivity.
  - cbn [uniform_loop gen_loop]. rewrite firstn_length, Ha.
    destruct (Z.ltb_spec ctr 256) as [Hlt|Hge];
      destruct (Nat.ltb_spec (Nat.min (Z.to_nat ctr) 256) 256) as [Hlt'|Hge']; try lia.
    2: { rewrite firstn_all2 by lia. reflexivity. }
    rewrite Hmod, Z.sub_0_r. rewrite slice_empty by lia. cbn [bind].
    rewrite splice0 by (unfold zlen; cbn [length]; lia). cbn [bind].
    change ((@nil Z) ++ skipn (length (@nil Z)) buf) with buf.
    unfold tape_sq. change (1 * 168) with 168.
    destruct (Z.ltb_spec (zlen st) 168) as [Hs|Hs]; destruct (Nat.ltb_spec (length st) 168) as [Hs'|Hs'];
      try (unfold zlen in Hs; lia); [reflexivity|].
    cbn [bind]. change (Z.to_nat 168) with 168%nat.
    set (blk := firstn 168 st).
    assert (Hblk : length blk = 168%nat) by (unfold blk; rewrite firstn_length; lia).
    rewrite splice0 by (unfold zlen in *; lia). cbn [bind]. rewrite Hblk.
    set (buf2 := blk ++ skipn 168 buf).
    assert (Hbuf2 : zlen buf2 = zlen buf).
    { unfold buf2, zlen. rewrite app_length, skipn_length, Hblk. unfold zlen in Hbuf. lia. }
    rewrite slice_from_ok by (unfold zlen; lia). cbn [bind].
    rewrite usize_sub_ok by lia. cbn [bind].
    assert (Hf : firstn (Z.to_nat (168 + 0)) buf2 = blk).
    { change (Z.to_nat (168 + 0)) with 168%nat. unfold buf2. apply firstn_exact. exact Hblk. }
    assert (Hbb : Forall is_byte blk) by (unfold blk; apply Forall_firstn'; exact Hst).
    rewrite rej_uniform_ok'; try lia.
    2: { rewrite Hf. exact Hbb. }
    2: { unfold zlen. rewrite skipn_length. lia. }
    rewrite Hf. cbn [bind].
    set (vals := firstn (Z.to_nat (256 - ctr)) (S_rej_ntt_stream blk)).
    assert (Hv : (length vals <= 256 - Z.to_nat ctr)%nat).
    { pose proof (firstn_le_length (Z.to_nat (256 - ctr)) (S_rej_ntt_stream blk)) as HH. fold vals in HH. lia. }
    set (asub' := vals ++ skipn (length vals) (skipn (Z.to_nat ctr) a)).
    assert (Hasub : zlen asub' = 256 - ctr).
    { unfold asub', zlen. rewrite app_length, !skipn_length. lia. }
    rewrite splice_ok by (unfold zlen in *; lia). cbn [bind].
    destruct (writeback a vals (Z.to_nat ctr) (Z.to_nat (ctr + zlen asub')) Ha ltac:(lia) Hv ltac:(lia))
      as (W1 & W2).
    fold asub' in W1, W2.
    rewrite IH; try lia.
    + replace (Z.to_nat (ctr + zlen vals)) with (Z.to_nat ctr + length vals)%nat by (unfold zlen; lia).
      rewrite W2. replace (256 - Nat.min (Z.to_nat ctr) 256)%nat with (Z.to_nat (256 - ctr)) by lia.
      reflexivity.
    + apply Forall_skipn'. exact Hst.
    + unfold zlen. lia.
Qed.

Definition in_q (x : Z) : Prop := 0 <= x < Q.

Lemma uniform_from_gen tape fuel a0 :
  Forall is_byte tape -> length a0 = 256%nat -> 840 <= zlen tape ->
  uniform_from (tape_sq 168) fuel tape a0
  = gen_loop 168 S_rej_ntt_stream fuel (skipn 840 tape) (firstn 256 (S_rej_ntt_stream (firstn 840 tape))).
Proof.
  intros Hb Ha Hl. unfold uniform_from, tape_sq. change (5 * 168) with 840.
  destruct (Z.ltb_spec (zlen tape) 840); [lia|]. cbn [bind]. change (Z.to_nat 840) with 840%nat.
  set (blk := firstn 840 tape).
  assert (Hblk : length blk = 840%nat) by (unfold blk; rewrite firstn_length; unfold zlen in Hl; lia).
  assert (Hz : zlen (repeatZ 0 842) = 842) by (unfold zlen, repeatZ; rewrite repeat_length; lia).
  rewrite splice0 by (rewrite Hz; unfold zlen; lia). cbn [bind]. rewrite Hblk.
  set (buf := blk ++ skipn 840 (repeatZ 0 842)).
  assert (Hbuf : zlen buf = 842).
  { unfold buf. rewrite zlen_app. unfold zlen in *. rewrite skipn_length, Hblk. lia. }
  assert (Hf : firstn (Z.to_nat 840) buf = blk).
  { change (Z.to_nat 840) with 840%nat. unfold buf. apply firstn_exact. exact Hblk. }
  assert (Hbb : Forall is_byte blk) by (unfold blk; apply Forall_firstn'; exact Hb).
  rewrite rej_uniform_ok'; try lia.
  2: { rewrite Hf. exact Hbb. }
  2: { unfold zlen. lia. }
  rewrite Hf. cbn [bind]. change (Z.to_nat 256) with 256%nat.
  set (vals := firstn 256 (S_rej_ntt_stream blk)).
  assert (Hv : (length vals <= 256)%nat) by apply firstn_le_length.
  rewrite uniform_loop_gen; try lia.
  - rewrite zlen_nat. rewrite firstn_exact by reflexivity. reflexivity.
  - apply Forall_skipn'. exact Hb.
  - rewrite app_length, skipn_length. lia.
  - unfold zlen. lia.
Qed.

(** poly::uniform over a tape: the result is the first 256 accepted values of the contiguous stream
    formed by the first k blocks, k >= 5 being the least block count that yields 256 acceptances *)
Theorem uniform_tape_ok tape fuel a0 p :
  Forall is_byte tape -> length a0 = 256%nat ->
  uniform_from (tape_sq 168) fuel tape a0 = Ok p ->
  exists k, (5 <= k)%nat /\ (k * 168 <= length tape)%nat /\
    p = firstn 256 (S_rej_ntt_stream (firstn (k * 168) tape)) /\
    length p = 256%nat /\ Forall (fun x => 0 <= x < Q) p /\
    (256 <= length (S_rej_ntt_stream (firstn (k * 168) tape)))%nat /\
    (forall k', (5 <= k' < k)%nat -> (length (S_rej_ntt_stream (firstn (k' * 168) tape)) < 256)%nat) /\
    (k - 5 <= fuel)%nat.
Proof.
  intros Hb Ha H.
  assert (Hl : 840 <= zlen tape).
  { unfold uniform_from, tape_sq in H. change (5 * 168) with 840 in H.
    destruct (Z.ltb_spec (zlen tape) 840); [discriminate|lia]. }
  rewrite uniform_from_gen in H by assumption.
  destruct (gen_loop_sound 168 S_rej_ntt_stream S_rej_ntt_app168 tape fuel 5 (firstn 840 tape) (skipn 840 tape) p)
    as (k & K1 & K2 & K3 & K4 & K5 & K6); auto.
  - symmetry. apply firstn_skipn.
  - rewrite firstn_length. unfold zlen in Hl. lia.
  - exists k. repeat split; auto.
    + rewrite K3. apply Forall_firstn'. apply S_rej_ntt_range. apply Forall_firstn'. exact Hb.
    + rewrite K3, firstn_length in K4. lia.
Qed.

(** success direction: enough tape and fuel for the least sufficient block count k >= 5 *)
Theorem uniform_tape_complete tape fuel a0 k :
  Forall is_byte tape -> length a0 = 256%nat ->
  (5 <= k)%nat -> (k * 168 <= length tape)%nat ->
  (256 <= length (S_rej_ntt_stream (firstn (k * 168) tape)))%nat ->
  (forall k', (5 <= k' < k)%nat -> (length (S_rej_ntt_stream (firstn (k' * 168) tape)) < 256)%nat) ->
  (k - 5 <= fuel)%nat ->
  uniform_from (tape_sq 168) fuel tape a0 = Ok (firstn 256 (S_rej_ntt_stream (firstn (k * 168) tape))).
Proof.
  intros Hb Ha Hk Hlen Hacc Hmin Hfuel.
  assert (Hl : 840 <= zlen tape) by (unfold zlen; lia).
  rewrite uniform_from_gen by assumption.
  apply (gen_loop_complete 168 S_rej_ntt_stream S_rej_ntt_app168 tape (k - 5) fuel 5); auto; try lia.
  - symmetry. apply firstn_skipn.
  - rewrite firstn_length. unfold zlen in Hl. lia.
Qed.

(** ** poly::uniform_eta: each 136-byte block is sampled on its own, nibble by nibble; a block boundary
    never splits a byte, so the blocks again form one contiguous stream *)
Lemma uniform_eta_loop_gen eta : eta = 2 \/ eta = 4 -> forall fuel st a ctr,
  Forall is_byte st -> length a = 256%nat -> 0 <= ctr <= 256 ->
  uniform_eta_loop (tape_sq 136) eta fuel st a ctr
  = gen_loop 136 (S_rej_bounded_stream eta) fuel st (firstn (Z.to_nat ctr) a).
Proof.
  intros He. induction fuel as [|f IH]; intros st a ctr Hst Ha Hctr.
  - cbn [uniform_eta_loop gen_loop]. rewrite firstn_length, Ha.
    destruct (Z.ltb_spec ctr 256); destruct (Nat.ltb_spec (Nat.min (Z.to_nat ctr) 256) 256); try lia; auto.
    rewrite firstn_all2 by lia. reflexivity.
  - cbn [uniform_eta_loop gen_loop]. rewrite firstn_length, Ha.
    destruct (Z.ltb_spec ctr 256) as [Hlt|Hge];
      destruct (Nat.ltb_spec (Nat.min (Z.to_nat ctr) 256) 256) as [Hlt'|Hge']; try lia.
    2: { rewrite firstn_all2 by lia. reflexivity. }
    unfold tape_sq. change (1 * 136) with 136.
    destruct (Z.ltb_spec (zlen st) 136) as [Hs|Hs]; destruct (Nat.ltb_spec (length st) 136) as [Hs'|Hs'];
      try (unfold zlen in Hs; lia); [reflexivity|].
    cbn [bind]. change (Z.to_nat 136) with 136%nat.
    set (blk := firstn 136 st).
    assert (Hblk : length blk = 136%nat) by (unfold blk; rewrite firstn_length; lia).
    assert (Hbb : Forall is_byte blk) by (unfold blk; apply Forall_firstn'; exact Hst).
    rewrite slice_from_ok by (unfold zlen; lia). cbn [bind].
    rewrite usize_sub_ok by lia. cbn [bind].
    destruct (rej_eta_ok eta (skipn (Z.to_nat ctr) a) (256 - ctr) blk 136 He Hbb)
      as (vals & Ev & Er & _); try (unfold zlen; rewrite ?skipn_length; lia).
    rewrite Er. cbn [bind].
    change (Z.to_nat 136) with 136%nat in Ev. rewrite (firstn_all2 (n := 136) blk) in Ev by lia.
    assert (Hv : (length vals <= 256 - Z.to_nat ctr)%nat).
    { pose proof (firstn_le_length (Z.to_nat (256 - ctr)) (S_rej_bounded_stream eta blk)) as HH.
      rewrite <- Ev in HH. lia. }
    set (asub' := vals ++ skipn (length vals) (skipn (Z.to_nat ctr) a)).
    assert (Hasub : zlen asub' = 256 - ctr).
    { unfold asub', zlen. rewrite app_length, !skipn_length. lia. }
    rewrite splice_ok by (unfold zlen in *; lia). cbn [bind].
    destruct (writeback a vals (Z.to_nat ctr) (Z.to_nat (ctr + zlen asub')) Ha ltac:(lia) Hv ltac:(lia))
      as (W1 & W2).
    fold asub' in W1, W2.
    rewrite IH; try lia.
    + replace (Z.to_nat (ctr + zlen vals)) with (Z.to_nat ctr + length vals)%nat by (unfold zlen; lia).
      rewrite W2. replace (256 - Nat.min (Z.to_nat ctr) 256)%nat with (Z.to_nat (256 - ctr)) by lia.
      rewrite Ev. reflexivity.
    + apply Forall_skipn'. exact Hst.
    + unfold zlen. lia.
Qed.

Lemma uniform_eta_from_gen eta tape fuel a0 :
  eta = 2 \/ eta = 4 -> Forall is_byte tape -> length a0 = 256%nat -> 136 <= zlen tape ->
  uniform_eta_from (tape_sq 136) eta fuel tape a0
  = gen_loop 136 (S_rej_bounded_stream eta) fuel (skipn 136 tape)
      (firstn 256 (S_rej_bounded_stream eta (firstn 136 tape))).
Proof.
  intros He Hb Ha Hl. unfold uniform_eta_from, tape_sq. change (1 * 136) with 136.
  destruct (Z.ltb_spec (zlen tape) 136); [lia|]. cbn [bind]. change (Z.to_nat 136) with 136%nat.
  set (blk := firstn 136 tape).
  assert (Hblk : length blk = 136%nat) by (unfold blk; rewrite firstn_length; unfold zlen in Hl; lia).
  assert (Hbb : Forall is_byte blk) by (unfold blk; apply Forall_firstn'; exact Hb).
  destruct (rej_eta_ok eta a0 256 blk 136 He Hbb) as (vals & Ev & Er & _); try (unfold zlen; lia).
  rewrite Er. cbn [bind].
  change (Z.to_nat 136) with 136%nat in Ev. rewrite (firstn_all2 (n := 136) blk) in Ev by lia.
  change (Z.to_nat 256) with 256%nat in Ev.
  assert (Hv : (length vals <= 256)%nat) by (rewrite Ev; apply firstn_le_length).
  rewrite uniform_eta_loop_gen; auto; try lia.
  - rewrite zlen_nat. rewrite firstn_exact by reflexivity. rewrite Ev. reflexivity.
  - apply Forall_skipn'. exact Hb.
  - rewrite app_length, skipn_length. lia.
  - unfold zlen. lia.
Qed.

Lemma S_rej_bounded_app136 eta j l1 l2 : length l1 = (j * 136)%nat ->
  S_rej_bounded_stream eta (l1 ++ l2) = S_rej_bounded_stream eta l1 ++ S_rej_bounded_stream eta l2.
Proof. intros _. apply S_rej_bounded_app. Qed.

Theorem uniform_eta_tape_ok eta tape fuel a0 p :
  eta = 2 \/ eta = 4 -> Forall is_byte tape -> length a0 = 256%nat ->
  uniform_eta_from (tape_sq 136) eta fuel tape a0 = Ok p ->
  exists k, (1 <= k)%nat /\ (k * 136 <= length tape)%nat /\
    p = firstn 256 (S_rej_bounded_stream eta (firstn (k * 136) tape)) /\
    length p = 256%nat /\ Forall (fun x => - eta <= x <= eta) p /\
    (256 <= length (S_rej_bounded_stream eta (firstn (k * 136) tape)))%nat /\
    (forall k', (1 <= k' < k)%nat -> (length (S_rej_bounded_stream eta (firstn (k' * 136) tape)) < 256)%nat) /\
    (k - 1 <= fuel)%nat.
Proof.
  intros He Hb Ha H.
  assert (Hl : 136 <= zlen tape).
  { unfold uniform_eta_from, tape_sq in H. change (1 * 136) with 136 in H.
    destruct (Z.ltb_spec (zlen tape) 136); [discriminate|lia]. }
  rewrite uniform_eta_from_gen in H by assumption.
  destruct (gen_loop_sound 136 (S_rej_bounded_stream eta) (S_rej_bounded_app136 eta) tape fuel 1
              (firstn 136 tape) (skipn 136 tape) p) as (k & K1 & K2 & K3 & K4 & K5 & K6); auto.
  - symmetry. apply firstn_skipn.
  - rewrite firstn_length. unfold zlen in Hl. lia.
  - exists k. repeat split; auto.
    + rewrite K3. apply Forall_firstn'. apply S_rej_bounded_range; auto. apply Forall_firstn'. exact Hb.
    + rewrite K3, firstn_length in K4. lia.
Qed.

Theorem uniform_eta_tape_complete eta tape fuel a0 k :
  eta = 2 \/ eta = 4 -> Forall is_byte tape -> length a0 = 256%nat ->
  (1 <= k)%nat -> (k * 136 <= length tape)%nat ->
  (256 <= length (S_rej_bounded_stream eta (firstn (k * 136) tape)))%nat ->
  (forall k', (1 <= k' < k)%nat -> (length (S_rej_bounded_stream eta (firstn (k' * 136) tape)) < 256)%nat) ->
  (k - 1 <= fuel)%nat ->
  uniform_eta_from (tape_sq 136) eta fuel tape a0
  = Ok (firstn 256 (S_rej_bounded_stream eta (firstn (k * 136) tape))).
Proof.
  intros He Hb Ha Hk Hlen Hacc Hmin Hfuel.
  assert (Hl : 136 <= zlen tape) by (unfold zlen; lia).
  rewrite uniform_eta_from_gen by assumption.
  apply (gen_loop_complete 136 (S_rej_bounded_stream eta) (S_rej_bounded_app136 eta) tape (k - 1) fuel 1);
    auto; try lia.
  - symmetry. apply firstn_skipn.
  - rewrite firstn_length. unfold zlen in Hl. lia.
Qed.

(** * 4. Examples: the interesting branches, by computation *)

(** 0x7FE000 = Q-1 accepted; 0x7FE001 = Q rejected; top bit of the third byte masked (0xFFE000 -> Q-1) *)
Example ex_uniform_edges :
  rej_uniform [9; 9; 9] 3 [0; 224; 127;  1; 224; 127;  0; 224; 255] 9 = Ok ([8380416; 8380416; 9], 2).
Proof. vm_compute. reflexivity. Qed.

Example ex_uniform_spec_edges :
  S_coeff_from_three_bytes 0 224 127 = Some (Q - 1) /\ S_coeff_from_three_bytes 1 224 127 = None /\
  S_coeff_from_three_bytes 0 224 255 = Some (Q - 1).
Proof. vm_compute. auto. Qed.

(** buflen 0, 1, 2: nothing sampled; buffer ending mid-sample (buflen 5): one sample *)
Example ex_uniform_buflen0 : rej_uniform [9] 1 [5; 6; 7] 0 = Ok ([9], 0).
Proof. vm_compute. reflexivity. Qed.
Example ex_uniform_buflen1 : rej_uniform [9] 1 [5; 6; 7] 1 = Ok ([9], 0).
Proof. vm_compute. reflexivity. Qed.
Example ex_uniform_buflen2 : rej_uniform [9] 1 [5; 6; 7] 2 = Ok ([9], 0).
Proof. vm_compute. reflexivity. Qed.
Example ex_uniform_midsample : rej_uniform [9; 9] 2 [1; 0; 0; 2; 0; 0] 5 = Ok ([1; 9], 1).
Proof. vm_compute. reflexivity. Qed.
(** output full before the buffer is used up; output longer than what the buffer yields *)
Example ex_uniform_full : rej_uniform [9; 9] 1 [1; 0; 0; 2; 0; 0] 6 = Ok ([1; 9], 1).
Proof. vm_compute. reflexivity. Qed.
(** contract violations panic *)
Example ex_uniform_panic : rej_uniform [9] 2 [1; 0; 0; 2; 0; 0] 6 = Panic /\ rej_uniform [9] 1 [1; 0; 0] 4 = Panic.
Proof. vm_compute. auto. Qed.

(** eta = 2: nibble 14 accepted (value 2 - 14 mod 5 = -2), nibble 15 rejected; low nibble first *)
Example ex_eta2_edges :
  rej_eta 2 [9; 9; 9] 3 [254; 239; 16] 3 = Ok ([-2; -2; 2], 3) /\
  rej_eta 2 [9] 1 [255] 1 = Ok ([9], 0).
Proof. vm_compute. auto. Qed.
(** eta = 4: nibble 8 accepted (value -4), nibble 9 rejected *)
Example ex_eta4_edges :
  rej_eta 4 [9; 9; 9] 3 [152; 137; 16] 3 = Ok ([-4; -4; 4], 3) /\
  rej_eta 4 [9] 1 [153] 1 = Ok ([9], 0).
Proof. vm_compute. auto. Qed.
(** alen odd: the high nibble of the last byte used is refused *)
Example ex_eta_odd :
  rej_eta 2 [9; 9; 9] 3 [16; 50] 2 = Ok ([2; 1; 0], 3) /\ rej_eta 4 [7; 7] 1 [0] 1 = Ok ([4; 7], 1).
Proof. vm_compute. auto. Qed.
Example ex_eta_buflen0 : rej_eta 2 [9] 1 [0] 0 = Ok ([9], 0).
Proof. vm_compute. reflexivity. Qed.
Example ex_eta_value_table :
  map (eta_value 2) (zrange 0 15) = [2; 1; 0; -1; -2; 2; 1; 0; -1; -2; 2; 1; 0; -1; -2].
Proof. vm_compute. reflexivity. Qed.

(** poly::uniform over a tape: first five blocks all rejected (0x7FFFFF >= Q), then 56 acceptances per
    block: exactly 5 refills; one block of tape less panics; one unit of fuel less runs out of fuel *)
Example ex_uniform_tape :
  uniform_from (tape_sq 168) 5 (repeat 255 840 ++ repeat 0 840) (repeat 7 256) = Ok (repeat 0 256) /\
  uniform_from (tape_sq 168) 5 (repeat 255 840 ++ repeat 0 839) (repeat 7 256) = Panic /\
  uniform_from (tape_sq 168) 4 (repeat 255 840 ++ repeat 0 840) (repeat 7 256) = OutOfFuel /\
  uniform_from (tape_sq 168) 0 (repeat 0 840) (repeat 7 256) = Ok (repeat 0 256).
Proof. vm_compute. auto. Qed.

Example ex_uniform_eta_tape :
  uniform_eta_from (tape_sq 136) 2 1 (repeat 255 136 ++ repeat 16 136) (repeat 7 256)
  = Ok (firstn 256 (S_rej_bounded_stream 2 (repeat 255 136 ++ repeat 16 136))).
Proof. vm_compute. reflexivity. Qed.

(** challenge, tau = 2, sign bytes 01 00..: i = 254 skips 255 and takes j = 3 (sign bit 0 = 1 -> -1);
    i = 255 takes j = 254 (sign bit 1 = 0 -> +1) *)
Example ex_challenge :
  challenge_from (tape_sq 136) 2 5 ([1; 0; 0; 0; 0; 0; 0; 0] ++ [255; 3; 254] ++ repeat 0 125)
  = Ok (S_upd (S_upd (repeatZ 0 256) 3 (-1)) 254 1).
Proof. vm_compute. reflexivity. Qed.
(** the search for j crosses a block boundary (128 rejected bytes, then the next block: 255 rejected, j = 7);
    i = 255 draws j = 7 again, so c[255] := c[7] = -1 moves a nonzero entry *)
Example ex_challenge_refill :
  let tape := [3; 0; 0; 0; 0; 0; 0; 0] ++ repeat 255 128 ++ [255; 7; 7] ++ repeat 0 133 in
  challenge_from (tape_sq 136) 2 200 tape = Ok (S_upd (S_upd (repeatZ 0 256) 255 (-1)) 7 (-1))
  /\ S_sample_in_ball 2 (firstn 8 tape) (skipn 8 tape) = Some (S_upd (S_upd (repeatZ 0 256) 255 (-1)) 7 (-1)).
Proof. vm_compute. auto. Qed.

(** * Assumptions *)
Print Assumptions rej_uniform_vals_spec.
Print Assumptions rej_uniform_ok.
Print Assumptions eta_value_mod5.
Print Assumptions rej_eta_vals_spec.
Print Assumptions rej_eta_ok.
Print Assumptions uniform_gamma1_range.
Print Assumptions challenge_tape_ok.
Print Assumptions uniform_tape_ok.
Print Assumptions uniform_tape_complete.
Print Assumptions uniform_eta_tape_ok.
Print Assumptions uniform_eta_tape_complete.
