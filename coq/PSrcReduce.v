(** C14 stated about the translator's reading of /repo/src/reduce.rs (GenK.v, regenerated on every run). Kept apart from
    PReduce.v so that only C14 depends on the textual tie; the other properties rest on the model and its correspondence. *)
From DV Require Import Base MReduce GenK GenKReduce PReduce.

(** ---- the same statements about the translator's reading of /repo/src/reduce.rs (GenK.v) ---- *)
Lemma src_mont_ok : forall a : Z, - 2 ^ 31 * Q <= a < 2 ^ 31 * Q ->
  exists r, src_montgomery_reduce a = Ok r /\ (r * 2 ^ 32) mod Q = a mod Q /\ - Q < r < Q.
Proof. intros a H. rewrite src_montgomery_reduce_ok. exact (mont_ok a H). Qed.
Lemma src_reduce32_spec : forall a : Z, - 2 ^ 31 <= a <= 2 ^ 31 - 2 ^ 22 - 1 ->
  exists r, src_reduce32 a = Ok r /\ r mod Q = a mod Q /\ -6283009 <= r <= 6283008.
Proof. intros a H. rewrite src_reduce32_ok. exact (reduce32_ok a H). Qed.
Lemma src_caddq_spec : forall a : Z, - Q < a < Q -> src_caddq a = Ok (a mod Q).
Proof. intros a H. rewrite src_caddq_ok. exact (caddq_ok a H). Qed.
