(** C10 — Operations are pure: results independent of call history (and, in the model, of scratch contents).
    Only property theorems here, closed by [exact] of lemmas proved in PTape.v. PROVED about the model: the only
    state threaded between operations is the randomness tape; deterministic operations (seeded key generation,
    deterministic signing, verification) return the same result after ANY history; results do not depend on the
    incoming contents of output/scratch buffers (which the signer reuses across rejected attempts). NOT expressible in
    a Gallina model: data races and scheduler effects in the real code — the check observes the crate under
    randomized interleavings on 1..16 threads and scans the source for shared state. *)
From DV Require Import Base MParams MSign MApi PTape PBuffers.

Theorem C10_history_independent : forall (o : op) (h : list op) (t1 t2 : list Z) (outs : list output) (t1' : list Z),
  deterministic o = true -> run t1 h = Ok (outs, t1') ->
  forget_tape (step t1' o) = forget_tape (step t2 o) /\
  (forall x t', step t1' o = Ok (x, t') -> t' = t1').
Proof. exact deterministic_history_independent. Qed.
Print Assumptions C10_history_independent.

Theorem C10_keygen_ignores_buffer_contents :
  forall (P : params) (pk1 pk2 sk1 sk2 : list Z) (seed : option (list Z)) (tape : list Z),
  std P -> zlen pk1 = pPK P -> zlen pk2 = pPK P -> zlen sk1 = pSK P -> zlen sk2 = pSK P ->
  keypair P pk1 sk1 seed tape = keypair P pk2 sk2 seed tape.
Proof. exact keypair_buffers_irrelevant_std. Qed.
Print Assumptions C10_keygen_ignores_buffer_contents.

Theorem C10_signing_ignores_buffer_contents :
  forall (P : params) (sig1 sig2 msg sk : list Z) (rand : bool) (tape : list Z),
  std P -> zlen sig1 = pSIG P -> zlen sig2 = pSIG P ->
  signature P sig1 msg sk rand tape = signature P sig2 msg sk rand tape.
Proof. exact signature_buffer_irrelevant_std. Qed.
Print Assumptions C10_signing_ignores_buffer_contents.

Theorem C10_seeded_results_ignore_tape :
  (forall (P : params) (pk sk xi t1 t2 a b t1' : list Z),
     keypair P pk sk (Some xi) t1 = Ok (a, b, t1') -> keypair P pk sk (Some xi) t2 = Ok (a, b, t2)) /\
  (forall (P : params) (sig msg sk t1 t2 s t1' : list Z),
     signature P sig msg sk false t1 = Ok (s, t1') -> signature P sig msg sk false t2 = Ok (s, t2)).
Proof. split; [exact keypair_seeded_tape_irrelevant | exact signature_deterministic_tape_irrelevant]. Qed.
Print Assumptions C10_seeded_results_ignore_tape.

(** caller buffers LONGER than the standard sizes (the slice API asks for "at least"): the call equals the exact-size call on
    the standard-size prefix with the excess bytes appended unchanged - same key pair / signature, same panics, same tape *)
Theorem C10_keygen_overlong_buffers :
  forall (P : params) (pk sk : list Z) (seed : option (list Z)) (tape : list Z),
  std P -> pPK P <= zlen pk -> pSK P <= zlen sk ->
  keypair P pk sk seed tape =
  (do '(pk', sk', t) <- keypair P (firstn (Z.to_nat (pPK P)) pk) (firstn (Z.to_nat (pSK P)) sk) seed tape;
   Ok (pk' ++ skipn (Z.to_nat (pPK P)) pk, sk' ++ skipn (Z.to_nat (pSK P)) sk, t)).
Proof. exact keypair_long_buffers. Qed.
Print Assumptions C10_keygen_overlong_buffers.

Theorem C10_signing_overlong_buffer :
  forall (P : params) (sig msg sk : list Z) (rand : bool) (tape : list Z),
  std P -> pSIG P <= zlen sig ->
  signature P sig msg sk rand tape =
  (do '(s, t) <- signature P (firstn (Z.to_nat (pSIG P)) sig) msg sk rand tape;
   Ok (s ++ skipn (Z.to_nat (pSIG P)) sig, t)).
Proof. exact signature_long_buffer. Qed.
Print Assumptions C10_signing_overlong_buffer.

(** the one place where an incoming value matters: the hint decoder only SETS entries, so the verifier must (and does)
    pass a zero vector — witnessed on a concrete Dilithium2 signature *)
Theorem C10_unpack_sig_needs_zero_hints :
  zlen sig_ex = pSIG P_lvl2 /\ hint_probe (zvec 4) = Ok (1, 0, true) /\
  hint_probe (repeatZ (repeatZ 1 256) 4) = Ok (1, 1, true).
Proof. exact unpack_sig_depends_on_h. Qed.
Print Assumptions C10_unpack_sig_needs_zero_hints.
