(** C12 — SHAKE-128/256 equal FIPS 202 for every input and every call pattern.
    Only property theorems here, closed by [exact] of lemmas proved in PKeccak.v. The specification
    (SKeccak.v) transcribes FIPS 202: theta/rho/pi/chi/iota on 5x5 lanes, the round constants from the LFSR
    of Alg. 5, pad10*1 with the SHAKE suffix, the sponge; [S_shake rate M d] is the first d bytes of
    SHAKE(M) for rate 136 (SHAKE256) or 168 (SHAKE128). [src_keccak_round2] and [src_RC] are the translator's
    reading of the current source (Gen.v). *)
From DV Require Import Base Gen MKeccak SKeccak PKeccak PKeccakIn.

(** the source's unrolled two-round body is two FIPS 202 rounds, for all lane values and any lane algebra *)
Theorem C12_round_body_is_fips202 :
  forall (W : Type) (xor and : W -> W -> W) (not : W -> W) (rol : W -> Z -> W) (dflt rc0 rc1 : W) (st : list W),
  length st = 25%nat ->
  src_keccak_round2 xor and not rol rc0 rc1 st =
  Some (round xor and not rol dflt rc1 (round xor and not rol dflt rc0 st)).
Proof. intros W. exact (@round2_spec W). Qed.
Print Assumptions C12_round_body_is_fips202.

Theorem C12_round_constants_are_fips202 : map S_RC (seq 0 24) = src_RC.
Proof. exact S_RC_is_src_RC. Qed.
Print Assumptions C12_round_constants_are_fips202.

Theorem C12_keccakf : forall st : list Z, length st = 25%nat -> keccakf st = Ok (S_keccak_f st).
Proof. exact keccakf_ok. Qed.
Print Assumptions C12_keccakf.

(** any split of the input across absorb calls, any split of the output across squeeze calls
    (including single requests longer than a block), both rates *)
Theorem C12_history : forall (rate : nat) (chunks : list (list Z)) (ns : list Z),
  rate_ok rate -> Forall (Forall is_byte) chunks -> Forall (fun n => 0 <= n < 2 ^ 64) ns ->
  exists stA stF stE,
    foldM (fun st c => keccak_absorb st (Z.of_nat rate) c (zlen c)) chunks kinit = Ok stA /\
    keccak_finalize stA (Z.of_nat rate) = Ok stF /\
    squeeze_many (Z.of_nat rate) stF ns = Ok (S_shake rate (concat chunks) (Z.to_nat (sumZ ns)), stE).
Proof. exact shake_history. Qed.
Print Assumptions C12_history.

(** squeeze-blocks at a block boundary (its documented precondition) continues the same stream *)
Theorem C12_squeezeblocks : forall (rate : nat) (st : kstate) (m : list Z) (j : nat) (out : list Z) (nb : Z),
  rate_ok rate -> sq_inv rate st m j -> (j mod rate)%nat = 0%nat -> 0 <= nb -> nb * Z.of_nat rate <= zlen out ->
  let len := (Z.to_nat nb * rate)%nat in
  exists st', keccak_squeezeblocks out nb st (Z.of_nat rate) =
              Ok (firstn len (skipn j (S_shake rate m (j + len))) ++ skipn len out, st') /\
              sq_inv rate st' m (j + len).
Proof. exact squeezeblocks_inv. Qed.
Print Assumptions C12_squeezeblocks.

(** one-shot and incremental interfaces agree with the specification *)
Theorem C12_oneshot : forall (inp : list Z) (n : Z), Forall is_byte inp -> 0 <= n < 2 ^ 64 ->
  shake256 (repeatZ 0 n) n inp (zlen inp) = Ok (S_shake 136 inp (Z.to_nat n)).
Proof. exact shake256_ok. Qed.
Print Assumptions C12_oneshot.

(** ... and they read exactly [inlen] bytes of the caller's input slice, whatever follows them *)
Theorem C12_oneshot_reads_only_inlen : forall (inp x : list Z) (n : Z), Forall is_byte inp -> 0 <= n < 2 ^ 64 ->
  shake256 (repeatZ 0 n) n (inp ++ x) (zlen inp) = Ok (S_shake 136 inp (Z.to_nat n)).
Proof. exact shake256_reads_only_inlen. Qed.
Print Assumptions C12_oneshot_reads_only_inlen.

Theorem C12_absorb_reads_only_inlen : forall (st : kstate) (r : Z) (inp x : list Z),
  keccak_absorb st r (inp ++ x) (zlen inp) = keccak_absorb st r inp (zlen inp).
Proof. exact absorb_reads_only_inlen. Qed.
Print Assumptions C12_absorb_reads_only_inlen.

Theorem C12_absorb_once : forall (rate : nat) (inp : list Z), rate_ok rate -> Forall is_byte inp ->
  keccak_absorb_once (Z.of_nat rate) inp (zlen inp) =
  (do st <- keccak_absorb kinit (Z.of_nat rate) inp (zlen inp); keccak_finalize st (Z.of_nat rate)).
Proof. exact absorb_once_eq. Qed.
Print Assumptions C12_absorb_once.

Theorem C12_stream_init : forall (seed : list Z) (nonce : Z),
  (32 <= zlen seed -> Forall is_byte (firstn 32 seed) ->
     exists st, shake128_stream_init seed nonce = Ok st /\
                sq_inv 168 st (firstn 32 seed ++ [nonce mod 256; (nonce / 256) mod 256]) 0) /\
  (64 <= zlen seed -> Forall is_byte (firstn 64 seed) ->
     exists st, shake256_stream_init seed nonce = Ok st /\
                sq_inv 136 st (firstn 64 seed ++ [nonce mod 256; (nonce / 256) mod 256]) 0).
Proof. intros; split; intros; [apply shake128_stream_init_ok | apply shake256_stream_init_ok]; assumption. Qed.
Print Assumptions C12_stream_init.

(** Non-vacuity: published vectors through the SPECIFICATION, and a squeeze crossing a block through the MODEL *)
Example C12_nonvacuous :
  firstn 8 (S_shake 136 [] 8) = [70; 185; 221; 43; 11; 168; 141; 19] /\
  firstn 8 (S_shake 168 [] 8) = [127; 156; 43; 164; 232; 143; 130; 125] /\
  (do st <- keccak_finalize kinit 136; do '(o, _) <- keccak_squeeze (repeatZ 0 200) 200 st 136; Ok (firstn 4 o, firstn 4 (skipn 136 o)))
    = Ok ([70; 185; 221; 43], firstn 4 (skipn 136 (S_shake 136 [] 200))).
Proof. vm_compute. repeat split. Qed.
