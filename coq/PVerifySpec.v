(** PVerifySpec: property C03 -- verification returns exactly the decision that the specification prescribes
    (CRYSTALS-Dilithium 3.1 Fig. 4 Verify for P_lvl2/3/5; FIPS 204 Algorithm 8 ML-DSA.Verify_internal for
    P_ml44/65/87), for ARBITRARY byte strings offered as a signature.

    1. the specification [S_verify P pk m sig : bool -> Prop] (a relation only because of the two rejection
       samplers ExpandA and SampleInBall; everything else is a function) and [S_verify_functional];
    2. the arithmetic core [verify_w1_sem]: the model's pipeline
         l_ntt z; matrix_pointwise_montgomery; poly_ntt c; k_shiftl t1; k_ntt; k_pointwise_poly_montgomery;
         k_sub; k_reduce; k_invntt_tomont; k_caddq; k_use_hint; k_pack_w1
       returns w1Encode(UseHint(h, w'_approx)) where w'_approx is THE vector with coefficients in [0,Q) such that
         NTT(w'_approx_r) = sum_j A^[r,j] o NTT(z_j) - NTT(c) o NTT(t1_r * 2^d);
    3. the decoders: [unpack_sig_spec] (sigDecode) on top of PHint / PPack2, [unpack_pk_spec] (PKeyCodec);
    4. the main theorems [verify_cases] (OutOfFuel, or the specification's decision), [verify_spec],
       [verify_spec_unique], [verify_accepts_spec_valid], [verify_rejects_spec_invalid], [verify_decision];
       [S_verify_alg8]: whenever the samplers produce A^ and c, [S_verify] is literally the last line of Alg. 8,
       [ ||z||_inf < gamma1 - beta ] and [ c~ = c~' ];
    5. the API level: [dil_verify_spec], [ml_verify_spec], [ml_prehash_verify_spec] (S_verify on the framed
       message M'), [dil_verify_decision], [ml_verify_decision].

    Montgomery bookkeeping: both pointwise products carry 2^-32 ([montgomery_reduce]), their difference is
    reduced by [reduce32] and [invntt_tomont] multiplies by 2^32.  [caddq] on (-Q, Q) gives the representative
    in [0, Q).  t1 * 2^13 <= 1023 * 8192 = Q - 1, so the shifted t1 is already a canonical representative. *)
From Coq Require Import Setoid Morphisms.
From DV Require Import Base Gen MReduce MRounding MParams MKeccak MNtt MPoly MPolyvec MPacking MSign MSha2 MApi
                       SKeccak PKeccak PSample PPack PPack2 PReduce PNtt PNtt2 PRounding PNorm PLift PTape PBridge
                       PSignStruct PFrame PHint PKeyCodec PTotal PRing PKeygen PTotalClosed.
Local Ltac Zify.zify_post_hook ::= Z.div_mod_to_equations.

(** * 1. Specification *)

(** ** sigDecode (FIPS 204 Alg. 27): c~ = the first lambda/4 bytes, z_i = BitUnpack(i-th slice, gamma1 - 1, gamma1),
       h = HintBitUnpack(the last omega + k bytes), or bottom *)
Definition S_sigDecode (P : params) (sig : list Z) : option (list Z * list (list Z) * list (list Z)) :=
  let ctilde := firstn (Z.to_nat (pCT P)) sig in
  let z := map (fun y => BitUnpack y (pGAMMA1 P - 1) (pGAMMA1 P)) (slices sig (pCT P) (pPOLYZ P) (pL P)) in
  match S_hint_unpack (pOMEGA P) (pK P) (skipn (Z.to_nat (pCT P + pL P * pPOLYZ P)) sig) with
  | Some h => Some (ctilde, z, h)
  | None => None
  end.

(** ** SampleInBall (Alg. 29) of the SHAKE256 stream of c~: a relation, because the loop of the standard is unbounded
       ([N] bytes of the stream suffice; more stream does not change the result, see [S_SampleInBall_unique]) *)
Definition S_SampleInBall (tau : Z) (ctilde c : list Z) : Prop :=
  exists N, (8 <= N)%nat /\
    let s := S_shake 136 ctilde N in S_sample_in_ball tau (firstn 8 s) (skipn 8 s) = Some c.

(** ** ||z||_inf < bound *)
Definition S_norm_lt (z : list (list Z)) (bound : Z) : bool :=
  forallb (fun a => forallb (fun x => Z.abs x <? bound) a) z.

(** ** w'_approx = NTT^-1(A^ o NTT(z) - NTT(c) o NTT(t1 * 2^d)), coefficients in [0, Q), characterised in the
       NTT domain: for every row r and every root i,
         w_r(root i) = sum_j A^[r,j][i] * z_j(root i) - c(root i) * (2^13 * t1_r)(root i)   (mod Q) *)
Definition S_wapprox (A : list (list (list Z))) (c : list Z) (z t1 w : list (list Z)) : Prop :=
  length w = length A /\
  forall r row tr wr, nth_error A r = Some row -> nth_error t1 r = Some tr -> nth_error w r = Some wr ->
    prng 0 Q wr /\
    forall i, (i < 256)%nat ->
      eqm (eval wr (root i)) (matrow_ntt row z i - eval c (root i) * eval (map (Z.mul (2 ^ 13)) tr) (root i)).

(** ** UseHint (Alg. 40) coefficient-wise, w1Encode (Alg. 28) = SimpleBitPack(w1_r, (q-1)/(2 gamma2) - 1) *)
Definition S_UseHint_poly (g88 : bool) (h w : list Z) : list Z :=
  map (fun p => S_use_hint g88 (snd p) (fst p)) (combine w h).
Definition S_UseHint (g88 : bool) (h w : list (list Z)) : list (list Z) :=
  map (fun p => S_UseHint_poly g88 (snd p) (fst p)) (combine w h).
Definition S_w1Encode (g88 : bool) (w1 : list (list Z)) : list Z :=
  concat (map (fun a => SimpleBitPack a (MM g88 - 1)) w1).

(** ** Verify.  [m] is the formatted message M' (for Dilithium 3.1 the message itself).
       The norm check comes first here: when it fails the decision is [false] whatever the samplers do, which is
       the value of Alg. 8's final conjunction. *)
Definition S_verify (P : params) (pk m sig : list Z) (b : bool) : Prop :=
  let rho := fst (S_pkDecode (pK P) pk) in
  let t1 := snd (S_pkDecode (pK P) pk) in
  match (if zlen sig =? pSIG P then S_sigDecode P sig else None) with
  | None => b = false                                              (* wrong length, or h = bottom *)
  | Some (ctilde, z, h) =>
    if negb (S_norm_lt z (pGAMMA1 P - pBETA P)) then b = false
    else
      exists A c w,
        S_expandA P rho A /\                                       (* A^ = ExpandA(rho) *)
        S_SampleInBall (pTAU P) ctilde c /\                        (* c = SampleInBall(c~) *)
        S_wapprox A c z t1 w /\                                    (* w'_approx *)
        let tr := S_shake 136 pk (Z.to_nat (pTR P)) in             (* tr = H(pk, |tr|) *)
        let mu := S_shake 136 (tr ++ m) 64 in                      (* mu = H(tr || M', 64) *)
        let w1 := S_UseHint (pG88 P) h w in                        (* w1' = UseHint(h, w'_approx) *)
        let ctilde' := S_shake 136 (mu ++ S_w1Encode (pG88 P) w1) (Z.to_nat (pCT P)) in
        (b = true <-> ctilde = ctilde')
  end.

(** * 2. The arithmetic core *)

Lemma eval_congr w : forall a b, length a = length b ->
  (forall i, eqm (nth i a 0) (nth i b 0)) -> eqm (eval a w) (eval b w).
Proof.
  induction a as [|x a IH]; intros [|y b] L H; cbn [length] in L; try lia.
  - reflexivity.
  - rewrite !eval_cons. rewrite (H 0%nat : eqm x y). rewrite (IH b ltac:(lia) (fun i => H (S i))). reflexivity.
Qed.

Lemma poly_sub_nth A B : A + B <= 2 ^ 31 -> forall a b, length a = length b ->
  Forall (fun x => - A < x < A) a -> Forall (fun x => - B < x < B) b ->
  exists r, poly_sub a b = Ok r /\ length r = length a /\
    Forall (fun x => - (A + B) < x < A + B) r /\
    forall i, nth i r 0 = nth i a 0 - nth i b 0.
Proof.
  intros HAB. change (2 ^ 31) with 2147483648 in HAB. unfold poly_sub.
  induction a as [|x a IH]; intros [|y b] L Ha Hb; cbn [length] in L; try lia.
  - exists []. cbn [map2M]. repeat split; auto. intros [|i]; reflexivity.
  - inversion Ha as [|? ? Hx Ha']; inversion Hb as [|? ? Hy Hb']; subst.
    destruct (IH b ltac:(lia) Ha' Hb') as (r & E & Lr & Br & Cr).
    cbn [map2M]. unfold i32_sub at 1. rewrite chk_s_ok by (rewrite PReduce.two31; lia). cbn [bind].
    rewrite E. cbn [bind]. exists ((x - y) :: r). split; [reflexivity|].
    split; [cbn [length]; lia|]. split; [constructor; [lia|exact Br]|].
    intros [|i]; cbn [nth]; [reflexivity|apply Cr].
Qed.

(** reduce32 on a whole polynomial: exact value, range, congruence *)
Lemma reduce_row B a : B <= 2 ^ 31 - 2 ^ 22 -> pbnd B a ->
  poly_reduce a = Ok (map reduce32_val a) /\ pbnd Q (map reduce32_val a) /\
  forall i, (i < 256)%nat -> eqm (nth i (map reduce32_val a) 0) (nth i a 0).
Proof.
  intros HB [L F].
  assert (R1 : forall c, In c a -> - 2 ^ 31 <= c <= 2 ^ 31 - 2 ^ 22 - 1).
  { intros c Hc. rewrite Forall_forall in F. specialize (F c Hc).
    change (2 ^ 31) with 2147483648 in *. change (2 ^ 22) with 4194304 in *. lia. }
  split; [exact (poly_reduce_exact a R1)|]. split; [split|].
  - rewrite map_length. exact L.
  - apply Forall_forall. intros x Hx. apply in_map_iff in Hx as (c & <- & Hc).
    destruct (reduce32_val_spec c (R1 c Hc)) as [_ Hr]. unfold Q. lia.
  - intros i Hi. rewrite <- reduce32_val_0 at 1. rewrite (map_nth reduce32_val).
    assert (Hc : In (nth i a 0) a) by (apply nth_In; lia).
    destruct (reduce32_val_spec _ (R1 _ Hc)) as [Hcg _]. exact Hcg.
Qed.

(** t1 * 2^d: exact value, and it is still below Q *)
Lemma shiftl_row tr : prng 0 1024 tr ->
  poly_shiftl tr = Ok (map (Z.mul (2 ^ 13)) tr) /\ pbnd Q (map (Z.mul (2 ^ 13)) tr).
Proof.
  intros [L F]. split; [|split].
  - unfold poly_shiftl. apply mapM_ok. intros c Hc. rewrite Forall_forall in F. specialize (F c Hc).
    unfold DD. rewrite shl_s_ok by lia. change (2 ^ 13) with 8192.
    rewrite wrap_id by (try lia; rewrite PReduce.two31; lia). f_equal. lia.
  - rewrite map_length. exact L.
  - apply Forall_forall. intros x Hx. apply in_map_iff in Hx as (c & <- & Hc).
    rewrite Forall_forall in F. specialize (F c Hc). change (2 ^ 13) with 8192. unfold Q. lia.
Qed.

Definition hint_row (hr : list Z) : Prop := length hr = 256%nat /\ Forall (fun x => x = 0 \/ x = 1) hr.

Lemma S_UseHint_poly_length g88 hr w : length w = 256%nat -> length hr = 256%nat ->
  length (S_UseHint_poly g88 hr w) = 256%nat.
Proof. intros Lw Lh. unfold S_UseHint_poly. rewrite map_length, combine_length, Lw, Lh. reflexivity. Qed.

(** UseHint and w1Encode of one polynomial *)
Lemma use_hint_row P w hr : prng 0 Q w -> hint_row hr ->
  poly_use_hint (pG88 P) w hr = Ok (S_UseHint_poly (pG88 P) hr w) /\
  w1_pack_bytes (pG88 P) (S_UseHint_poly (pG88 P) hr w) = Ok (SimpleBitPack (S_UseHint_poly (pG88 P) hr w) (MM (pG88 P) - 1)) /\
  zlen (SimpleBitPack (S_UseHint_poly (pG88 P) hr w) (MM (pG88 P) - 1)) = pPOLYW1 P /\
  Forall is_byte (SimpleBitPack (S_UseHint_poly (pG88 P) hr w) (MM (pG88 P) - 1)).
Proof.
  intros [Lw Fw] [Lh Fh].
  assert (HU : forall x y, In (x, y) (combine w hr) ->
               use_hint (pG88 P) x y = Ok (S_use_hint (pG88 P) y x) /\ 0 <= S_use_hint (pG88 P) y x < MM (pG88 P)).
  { intros x y Hxy. rewrite Forall_forall in Fw, Fh.
    apply use_hint_ok; [apply Fw; eapply in_combine_l; exact Hxy | apply Fh; eapply in_combine_r; exact Hxy]. }
  assert (E1 : poly_use_hint (pG88 P) w hr = Ok (S_UseHint_poly (pG88 P) hr w)).
  { unfold poly_use_hint, S_UseHint_poly.
    apply (map2M_ok (use_hint (pG88 P)) (fun x y => S_use_hint (pG88 P) y x)); [congruence|].
    intros x y Hxy. apply HU. exact Hxy. }
  assert (LU : length (S_UseHint_poly (pG88 P) hr w) = 256%nat) by (apply S_UseHint_poly_length; assumption).
  assert (RU : Forall (fun c => 0 <= c < MM (pG88 P)) (S_UseHint_poly (pG88 P) hr w)).
  { unfold S_UseHint_poly. apply Forall_forall. intros c Hc. apply in_map_iff in Hc as ([x y] & <- & Hxy).
    cbn [fst snd]. apply HU. exact Hxy. }
  assert (E2 : w1_pack_bytes (pG88 P) (S_UseHint_poly (pG88 P) hr w)
               = Ok (SimpleBitPack (S_UseHint_poly (pG88 P) hr w) (MM (pG88 P) - 1))).
  { destruct (pG88 P).
    - change (MM true - 1) with 43. apply w16_pack_fips; [|exact LU].
      eapply Forall_impl; [|exact RU]. cbn beta. intros c Hc. apply w16_rng_44. exact Hc.
    - change (MM false - 1) with 15. apply w14_pack_fips; [|exact LU].
      eapply Forall_impl; [|exact RU]. cbn beta. intros c Hc. exact Hc. }
  split; [exact E1|]. split; [exact E2|].
  destruct (w1_pack_bytes_total (pG88 P) _ (conj LU RU)) as (e & Ee & Ze & Be).
  rewrite E2 in Ee. apply Ok_inj in Ee. subst e. split; [exact Ze | exact Be].
Qed.

(** what one row of the pipeline computes *)
Definition wrow_spec (z : list (list Z)) (cp : list Z) (row : list (list Z)) (tr wr : list Z) : Prop :=
  prng 0 Q wr /\
  forall i, (i < 256)%nat ->
    eqm (eval wr (root i)) (matrow_ntt row z i - eval cp (root i) * eval (map (Z.mul (2 ^ 13)) tr) (root i)).

Lemma winv32 x : eqm (2 ^ 32 * (WINV * x)) x.
Proof.
  assert (E : eqm (WINV * 2 ^ 32) 1) by reflexivity.
  replace (2 ^ 32 * (WINV * x)) with ((WINV * 2 ^ 32) * x) by ring. rewrite E. apply eqm_eq; ring.
Qed.

(** one row: product, c t1 2^d, difference, reduction, inverse transform, canonical representative *)
Lemma verify_row_sem row zhat z chat cp tr :
  length row = length z -> (1 <= length row <= 7)%nat -> Forall (prng 0 Q) row ->
  Forall2 is_ntt_of zhat z -> is_ntt_of chat cp -> prng 0 1024 tr ->
  exists a1 t1h ct a2 a4,
    row_ref row zhat = Ok a1 /\
    poly_shiftl tr = Ok (map (Z.mul (2 ^ 13)) tr) /\
    poly_ntt (map (Z.mul (2 ^ 13)) tr) = Ok t1h /\
    poly_pointwise_montgomery chat t1h = Ok ct /\
    poly_sub a1 ct = Ok a2 /\
    poly_reduce a2 = Ok (map reduce32_val a2) /\
    poly_invntt_tomont (map reduce32_val a2) = Ok a4 /\
    poly_caddq a4 = Ok (map (fun x => x mod Q) a4) /\
    wrow_spec z cp row tr (map (fun x => x mod Q) a4).
Proof.
  intros L L7 Hrow Hv [Bch Cch] Htr.
  assert (Lvh : length zhat = length z) by exact (F2_length _ _ _ Hv).
  assert (Hvh : Forall (pbnd (9 * Q)) zhat).
  { eapply F2_Forall_l; [|exact Hv]. cbn beta. intros x y [H _]. exact H. }
  assert (Hrow9 : Forall (pbnd (9 * Q)) row).
  { eapply Forall_impl; [|exact Hrow]. intros a. apply prng_pbnd; unfold Q; lia. }
  (* A^ o zhat *)
  destruct (row_ref_sem row zhat ltac:(congruence) ltac:(lia)
              ltac:(unfold Q; change (2 ^ 31) with 2147483648; lia) Hrow9 Hvh) as (a1 & E1 & [L1 B1] & C1).
  (* t1 2^d and its transform *)
  destruct (shiftl_row tr Htr) as [E2 B2].
  destruct (poly_ntt_sem _ B2) as (t1h & E3 & [[L3 B3] C3]).
  (* chat o t1hat *)
  destruct Bch as [Lch Bch].
  destruct (pointwise_ok chat t1h ltac:(congruence) Bch B3) as (ct & E4 & L4 & B4 & C4).
  (* difference *)
  destruct (poly_sub_nth (Z.of_nat (length row) * Q) Q
              ltac:(unfold Q; change (2 ^ 31) with 2147483648; lia) a1 ct ltac:(congruence) B1 B4)
    as (a2 & E5 & L5 & B5 & C5).
  (* reduce32 *)
  destruct (reduce_row (Z.of_nat (length row) * Q + Q) a2
              ltac:(unfold Q; change (2 ^ 31) with 2147483648; change (2 ^ 22) with 4194304; lia)
              ltac:(split; [congruence | exact B5])) as (E6 & [L6 B6] & C6).
  (* inverse transform *)
  destruct (invntt_fwd _ L6 B6) as (a4 & E7 & L7' & B7 & C7).
  assert (B7' : pbnd Q a4).
  { split; [exact L7'|]. eapply Forall_impl; [|exact B7]. cbn beta. unfold SHARP, Q. intros; lia. }
  destruct (caddq_row a4 B7') as (E8 & R8 & C8).
  exists a1, t1h, ct, a2, a4.
  split; [exact E1|]. split; [exact E2|]. split; [exact E3|]. split; [exact E4|]. split; [exact E5|].
  split; [exact E6|]. split; [exact E7|]. split; [exact E8|]. split; [exact R8|].
  intros i Hi.
  rewrite (eval_congr (root i) (map (fun x => x mod Q) a4) a4 ltac:(rewrite map_length; reflexivity) C8).
  rewrite (C7 i Hi), (C6 i Hi), C5, (C1 i Hi), (C4 i ltac:(lia)).
  rewrite (pwsum_matrow i row zhat z L Hv Hi), (Cch i Hi), (C3 i Hi).
  replace (WINV * matrow_ntt row z i
           - eval cp (root i) * eval (map (Z.mul (2 ^ 13)) tr) (root i) * WINV)
    with (WINV * (matrow_ntt row z i - eval cp (root i) * eval (map (Z.mul (2 ^ 13)) tr) (root i))) by ring.
  apply winv32.
Qed.

(** all K rows at once: every vector-level loop of the pipeline, in the order of the code *)
Lemma verify_rows_sem P zhat z chat cp :
  (1 <= length z <= 7)%nat -> Forall2 is_ntt_of zhat z -> is_ntt_of chat cp ->
  forall mat t1 h, length t1 = length mat -> length h = length mat ->
  (forall row, In row mat -> length row = length z /\ Forall (prng 0 Q) row) ->
  Forall (prng 0 1024) t1 -> Forall hint_row h ->
  exists w1 t1h ct1 w1a w1c w,
    mapM (fun row => row_ref row zhat) mat = Ok w1 /\
    mapM poly_shiftl t1 = Ok (map (map (Z.mul (2 ^ 13))) t1) /\
    mapM poly_ntt (map (map (Z.mul (2 ^ 13))) t1) = Ok t1h /\
    mapM (poly_pointwise_montgomery chat) t1h = Ok ct1 /\
    map2M poly_sub w1 ct1 = Ok w1a /\
    mapM poly_reduce w1a = Ok (map (map reduce32_val) w1a) /\
    mapM poly_invntt_tomont (map (map reduce32_val) w1a) = Ok w1c /\
    mapM poly_caddq w1c = Ok w /\
    map2M (poly_use_hint (pG88 P)) w h = Ok (S_UseHint (pG88 P) h w) /\
    mapM (w1_pack_bytes (pG88 P)) (S_UseHint (pG88 P) h w)
      = Ok (map (fun a => SimpleBitPack a (MM (pG88 P) - 1)) (S_UseHint (pG88 P) h w)) /\
    Forall (fun e => zlen e = pPOLYW1 P /\ Forall is_byte e)
           (map (fun a => SimpleBitPack a (MM (pG88 P) - 1)) (S_UseHint (pG88 P) h w)) /\
    S_wapprox mat cp z t1 w.
Proof.
  intros Lz Hv Hch.
  induction mat as [|row mat IH]; intros [|tr t1] [|hr h] Lt Lh Hm Ht Hh; cbn [length] in Lt, Lh; try lia.
  - exists [], [], [], [], [], []. cbn [mapM map2M map combine S_UseHint].
    repeat (split; [reflexivity|]). split; [constructor|].
    split; [reflexivity|]. intros [|r] ? ? ? Hr; discriminate.
  - inversion Ht as [|? ? Htr Ht']; inversion Hh as [|? ? Hhr Hh']; subst.
    destruct (Hm row (or_introl eq_refl)) as [Lrow Frow].
    destruct (verify_row_sem row zhat z chat cp tr Lrow ltac:(lia) Frow Hv Hch Htr)
      as (a1 & t1h0 & ct0 & a2 & a4 & E1 & E2 & E3 & E4 & E5 & E6 & E7 & E8 & HW).
    destruct (IH t1 h ltac:(lia) ltac:(lia) (fun r Hr => Hm r (or_intror Hr)) Ht' Hh')
      as (w1 & t1h & ct1 & w1a & w1c & w & F1 & F2 & F3 & F4 & F5 & F6 & F7 & F8 & F9 & F10 & F11 & HS).
    destruct (use_hint_row P (map (fun x => x mod Q) a4) hr (proj1 HW) Hhr) as (U1 & U2 & U3 & U4).
    exists (a1 :: w1), (t1h0 :: t1h), (ct0 :: ct1), (a2 :: w1a), (a4 :: w1c), (map (fun x => x mod Q) a4 :: w).
    cbn [mapM map2M map combine S_UseHint fst snd].
    rewrite E1, F1. cbn [bind]. split; [reflexivity|].
    rewrite E2, F2. cbn [bind]. split; [reflexivity|].
    rewrite E3, F3. cbn [bind]. split; [reflexivity|].
    rewrite E4, F4. cbn [bind]. split; [reflexivity|].
    rewrite E5, F5. cbn [bind]. split; [reflexivity|].
    rewrite E6, F6. cbn [bind]. split; [reflexivity|].
    rewrite E7, F7. cbn [bind]. split; [reflexivity|].
    rewrite E8, F8. cbn [bind]. split; [reflexivity|].
    rewrite U1. cbn [bind]. fold (S_UseHint (pG88 P) h w). rewrite F9. cbn [bind]. split; [reflexivity|].
    rewrite U2. cbn [bind]. rewrite F10. cbn [bind]. split; [reflexivity|].
    split; [constructor; [split; [exact U3 | exact U4] | exact F11]|].
    destruct HS as [LS HS]. split; [cbn [length]; congruence|].
    intros [|r] row' tr' wr' Hr1 Hr2 Hr3; cbn [nth_error] in Hr1, Hr2, Hr3.
    + injection Hr1 as <-. injection Hr2 as <-. injection Hr3 as <-. exact HW.
    + exact (HS r row' tr' wr' Hr1 Hr2 Hr3).
Qed.

(** ** The arithmetic core of verification, with its meaning.
    Under the decoded ranges (A^ in [0,Q), c with |c_i| < Q -- ternary in fact --, t1 on 10 bits, |z| < Q --
    below gamma1 - beta after the gate --, h in {0,1}) the twelve steps of the model succeed and return
    w1Encode(UseHint(h, w'_approx)) for the w'_approx characterised by [S_wapprox]. *)
Theorem verify_w1_sem P mat cp t1 z h :
  0 <= pK P -> 1 <= pL P <= 7 ->
  length mat = Z.to_nat (pK P) ->
  (forall row, In row mat -> length row = Z.to_nat (pL P) /\ Forall (prng 0 Q) row) ->
  pbnd Q cp ->
  length t1 = Z.to_nat (pK P) -> Forall (prng 0 1024) t1 ->
  length z = Z.to_nat (pL P) -> Forall (pbnd Q) z ->
  length h = Z.to_nat (pK P) -> Forall hint_row h ->
  exists w, S_wapprox mat cp z t1 w /\ Forall (prng 0 Q) w /\
    verify_arith P mat cp t1 z h = Ok (S_w1Encode (pG88 P) (S_UseHint (pG88 P) h w)) /\
    Forall is_byte (S_w1Encode (pG88 P) (S_UseHint (pG88 P) h w)).
Proof.
  intros HK HL Lm Hm Hcp Lt Ht Lz Hz Lh Hh.
  (* NTT(z) *)
  destruct (mapM_exists poly_ntt (fun v vh => is_ntt_of vh v) z) as (zhat & Ez & Hv).
  { intros a Ha. rewrite Forall_forall in Hz. destruct (poly_ntt_sem a (Hz a Ha)) as (vh & E & H). eauto. }
  assert (Hv' : Forall2 is_ntt_of zhat z).
  { clear - Hv. induction Hv; constructor; auto. }
  clear Hv. assert (Lzh : length zhat = Z.to_nat (pL P)) by (rewrite (F2_length _ _ _ Hv'); exact Lz).
  (* NTT(c) *)
  destruct (poly_ntt_sem cp Hcp) as (chat & Ec & Hch).
  destruct (verify_rows_sem P zhat z chat cp ltac:(lia) Hv' Hch mat t1 h ltac:(congruence) ltac:(congruence)
              ltac:(intros row Hr; rewrite Lz; apply Hm; exact Hr) Ht Hh)
    as (w1 & t1h & ct1 & w1a & w1c & w & F1 & F2 & F3 & F4 & F5 & F6 & F7 & F8 & F9 & F10 & F11 & HS).
  exists w. split; [exact HS|].
  (* lengths *)
  pose proof (mapM_length _ _ _ F1) as L1. pose proof (mapM_length _ _ _ F3) as L3. rewrite map_length in L3.
  pose proof (mapM_length _ _ _ F4) as L4. destruct (map2M_length _ _ _ _ F5) as [_ L5].
  pose proof (mapM_length _ _ _ F7) as L7. rewrite map_length in L7.
  pose proof (mapM_length _ _ _ F8) as L8.
  assert (LU : length (S_UseHint (pG88 P) h w) = Z.to_nat (pK P)).
  { destruct (map2M_length _ _ _ _ F9) as [_ L9]. congruence. }
  split.
  { apply Forall_forall. intros wr Hwr. apply In_nth_error in Hwr as (r & Hr).
    destruct HS as [LS HS].
    assert (Hlt : (r < length mat)%nat) by (rewrite <- LS; apply nth_error_Some; congruence).
    destruct (nth_error_some_lt mat r Hlt) as (row & Hrow).
    destruct (nth_error_some_lt t1 r ltac:(lia)) as (tr & Htr).
    exact (proj1 (HS r row tr wr Hrow Htr Hr)). }
  split.
  2:{ unfold S_w1Encode. apply PTotal.Forall_concat. eapply Forall_impl; [|exact F11]. cbn beta. tauto. }
  assert (F11' : Forall (fun e => zlen e = pPOLYW1 P)
                   (map (fun a => SimpleBitPack a (MM (pG88 P) - 1)) (S_UseHint (pG88 P) h w))).
  { eapply Forall_impl; [|exact F11]. cbn beta. tauto. }
  unfold verify_arith.
  rewrite l_ntt_lift by exact Lz. rewrite Ez. cbn [bind].
  rewrite (matrix_pointwise_montgomery_lift P (zvec (pK P)) mat zhat)
    by (try assumption; try lia; try apply zvec_length; intros row Hr; apply Hm; exact Hr).
  rewrite F1. cbn [bind]. unfold poly_ntt in Ec |- *. rewrite Ec. cbn [bind]. fold poly_ntt.
  rewrite k_shiftl_lift by exact Lt. rewrite F2. cbn [bind].
  rewrite k_ntt_lift by (rewrite map_length; exact Lt). rewrite F3. cbn [bind].
  rewrite k_pointwise_poly_montgomery_lift by congruence. rewrite F4. cbn [bind].
  rewrite k_sub_lift by congruence. rewrite F5. cbn [bind].
  rewrite k_reduce_lift by congruence. rewrite F6. cbn [bind].
  rewrite k_invntt_tomont_lift by (rewrite map_length; congruence). rewrite F7. cbn [bind].
  rewrite k_caddq_lift by congruence. rewrite F8. cbn [bind].
  rewrite k_use_hint_lift by congruence. rewrite F9. cbn [bind].
  assert (HW : 0 <= pPOLYW1 P) by (unfold pPOLYW1; destruct (pG88 P); lia).
  destruct (k_pack_w1_ok P (repeatZ 0 (pK P * pPOLYW1 P)) _ _ HK LU F10 F11') as (E & _ & _).
  { rewrite PTotal.zlen_repeatZ by nia. lia. }
  rewrite E. f_equal. unfold S_w1Encode.
  rewrite skipn_all2; [apply app_nil_r|]. unfold repeatZ. rewrite repeat_length. lia.
Qed.
Print Assumptions verify_w1_sem.

(** * 3. Decoding *)

(** ** the norm check is [S_norm_lt] *)
Lemma existsb_norm b : forall v,
  existsb (fun a => existsb (fun x => b <=? Z.abs x) a) v = negb (S_norm_lt v b).
Proof.
  assert (H1 : forall a, existsb (fun x => b <=? Z.abs x) a = negb (forallb (fun x => Z.abs x <? b) a)).
  { induction a as [|x a IH]; [reflexivity|]. cbn [existsb forallb]. rewrite IH, negb_andb, Z.ltb_antisym, negb_involutive.
    reflexivity. }
  unfold S_norm_lt. induction v as [|a v IH]; [reflexivity|].
  cbn [existsb forallb]. rewrite IH, H1, negb_andb. reflexivity.
Qed.

Lemma S_norm_lt_true v b : S_norm_lt v b = true -> forall a, In a v -> forall x, In x a -> Z.abs x < b.
Proof.
  unfold S_norm_lt. intros H a Ha x Hx. rewrite forallb_forall in H. specialize (H a Ha).
  rewrite forallb_forall in H. apply Z.ltb_lt. exact (H x Hx).
Qed.

(** ** one z polynomial: the model's decoder is BitUnpack of the first POLYZ bytes *)
Lemma z_unpack_prefix g1 s : g1 = 131072 \/ g1 = 524288 -> Forall is_byte s ->
  (if g1 =? 131072 then 576 else 640) <= zlen s ->
  z_unpack g1 s = Ok (BitUnpack (firstn (Z.to_nat (if g1 =? 131072 then 576 else 640)) s) (g1 - 1) g1).
Proof.
  intros [-> | ->] Hb Hl; cbn [Z.eqb Pos.eqb] in Hl |- *; unfold zlen in Hl.
  - change (Z.to_nat 576) with 576%nat.
    rewrite (z17_unpack_fips s Hb ltac:(lia) : z_unpack 131072 s = Ok (BitUnpack s (131072 - 1) 131072)).
    f_equal. rewrite <- (firstn_skipn 576 s) at 1. unfold BitUnpack. apply BitUnpack_n_prefix.
    change (bitlen (131072 - 1 + 131072)) with 18%nat. rewrite firstn_length_le by lia. lia.
  - change (Z.to_nat 640) with 640%nat.
    rewrite (z19_unpack_fips s Hb ltac:(lia) : z_unpack 524288 s = Ok (BitUnpack s (524288 - 1) 524288)).
    f_equal. rewrite <- (firstn_skipn 640 s) at 1. unfold BitUnpack. apply BitUnpack_n_prefix.
    change (bitlen (524288 - 1 + 524288)) with 20%nat. rewrite firstn_length_le by lia. lia.
Qed.

Definition S_hint_section (P : params) (sig : list Z) : list Z := skipn (Z.to_nat (pCT P + pL P * pPOLYZ P)) sig.

(** ** unpack_sig is sigDecode: same c~, same z, and the flag is [true] exactly when HintBitUnpack succeeds,
       with the same hint vector *)
Theorem unpack_sig_spec P sig :
  gamma1_ok P -> 0 <= pK P -> 0 <= pL P -> 0 <= pCT P -> 0 <= pOMEGA P <= 255 ->
  Forall is_byte sig -> zlen sig = pSIG P ->
  exists h ok,
    unpack_sig P (repeatZ 0 (pCT P)) (zvec (pL P)) (zvec (pK P)) sig
    = Ok (firstn (Z.to_nat (pCT P)) sig,
          map (fun y => BitUnpack y (pGAMMA1 P - 1) (pGAMMA1 P)) (slices sig (pCT P) (pPOLYZ P) (pL P)), h, ok) /\
    (if ok then S_hint_unpack (pOMEGA P) (pK P) (S_hint_section P sig) = Some h
     else S_hint_unpack (pOMEGA P) (pK P) (S_hint_section P sig) = None).
Proof.
  intros Hg HK HL HC HO Hb Hl. unfold pSIG in Hl.
  assert (HZ : 0 <= pPOLYZ P) by (unfold pPOLYZ; destruct (pGAMMA1 P =? 131072); lia).
  rewrite unpack_sig_hint_decode.
  rewrite PTotal.slice_to_ok by nia. cbn [bind].
  assert (LC : zlen (firstn (Z.to_nat (pCT P)) sig) = pCT P) by (apply zlen_firstn_le; nia).
  rewrite splice_full by (exact LC || lia). cbn [bind].
  rewrite (slice_loop_map (z_unpack (pGAMMA1 P)) (fun y => BitUnpack y (pGAMMA1 P - 1) (pGAMMA1 P))
             (pCT P) (pPOLYZ P) (pL P) (zvec (pL P)) sig HC HZ (PSignStruct.zvec_length _) Hb ltac:(nia)).
  2:{ intros s Hs Hls. unfold pPOLYZ in *. apply z_unpack_prefix; assumption. }
  cbn [bind].
  rewrite PKeccak.slice_from_ok by nia. cbn [bind]. fold (S_hint_section P sig).
  set (hs := S_hint_section P sig).
  assert (Lhs : zlen hs = pOMEGA P + pK P).
  { unfold hs, S_hint_section. rewrite zlen_skipn by nia. lia. }
  assert (Bhs : bytes hs) by (unfold hs, S_hint_section; apply Forall_skipn; exact Hb).
  rewrite <- zero_h_zvec.
  destruct (zero_h_shape P HK) as [Z1 Z2].
  destruct (hint_decode_total P HO hs (zero_h (pK P)) ltac:(lia) Bhs Z1 Z2) as (h & ok & E).
  rewrite E. cbn [bind]. exists h, ok. split; [reflexivity|].
  destruct ok.
  - apply (unpack_hint_strict P HO HK hs h ltac:(lia) Bhs). exact E.
  - apply (unpack_hint_reject P HO HK hs ltac:(lia) Bhs). exists h. exact E.
Qed.

(** what sigDecode returns is in range: z on gamma1 bits, h a 0/1 vector of K polynomials *)
Lemma S_sig_z_shape P sig :
  gamma1_ok P -> 0 <= pL P -> 0 <= pCT P -> Forall is_byte sig -> pCT P + pL P * pPOLYZ P <= zlen sig ->
  let z := map (fun y => BitUnpack y (pGAMMA1 P - 1) (pGAMMA1 P)) (slices sig (pCT P) (pPOLYZ P) (pL P)) in
  length z = Z.to_nat (pL P) /\
  forall a, In a z -> length a = 256%nat /\ Forall (fun x => - pGAMMA1 P < x <= pGAMMA1 P) a.
Proof.
  intros Hg HL HC Hb Hl z.
  assert (HZ : 0 <= pPOLYZ P) by (unfold pPOLYZ; destruct (pGAMMA1 P =? 131072); lia).
  split; [unfold z; rewrite map_length, slices_length; reflexivity|].
  intros a Ha. unfold z in Ha. apply in_map_iff in Ha as (y & <- & Hy).
  pose proof (slices_shape sig (pCT P) (pPOLYZ P) (pL P) HC HZ HL Hb Hl) as HS.
  rewrite Forall_forall in HS. destruct (HS y Hy) as [By Ly].
  assert (E : z_unpack (pGAMMA1 P) y = Ok (BitUnpack y (pGAMMA1 P - 1) (pGAMMA1 P))).
  { rewrite (z_unpack_prefix (pGAMMA1 P) y Hg By) by (fold (pPOLYZ P); lia).
    fold (pPOLYZ P). rewrite firstn_exact by exact Ly. reflexivity. }
  destruct (z_unpack_total (pGAMMA1 P) y Hg By ltac:(fold (pPOLYZ P); lia)) as (a & Ea & La & Fa).
  rewrite E in Ea. apply Ok_inj in Ea. subst a. split; assumption.
Qed.

(** * 4. The specification prescribes one decision *)

(** more of the SHAKE stream does not change SampleInBall once it has succeeded *)
Lemma S_ball_mono tau seed N N' c : (8 <= N <= N')%nat ->
  (let s := S_shake 136 seed N in S_sample_in_ball tau (firstn 8 s) (skipn 8 s) = Some c) ->
  (let s := S_shake 136 seed N' in S_sample_in_ball tau (firstn 8 s) (skipn 8 s) = Some c).
Proof.
  intros HN E. cbv zeta in *.
  set (s := S_shake 136 seed N') in *.
  assert (Hs : s = S_shake 136 seed N ++ skipn N s).
  { rewrite <- (firstn_skipn N s) at 1. f_equal. unfold s. apply S_shake_firstn; lia. }
  assert (Hl : length (S_shake 136 seed N) = N) by (apply PBridge.S_shake_length; lia).
  rewrite Hs. rewrite firstn_app, skipn_app, Hl.
  replace (8 - N)%nat with 0%nat by lia. cbn [firstn skipn]. rewrite app_nil_r.
  unfold S_sample_in_ball in *. apply S_ball_loop_ext. exact E.
Qed.

Lemma S_SampleInBall_unique tau seed c c' : S_SampleInBall tau seed c -> S_SampleInBall tau seed c' -> c = c'.
Proof.
  intros (N & HN & E) (N' & HN' & E').
  destruct (Nat.le_ge_cases N N') as [H|H].
  - pose proof (S_ball_mono tau seed N N' c ltac:(lia) E) as E2. cbv zeta in E', E2. congruence.
  - pose proof (S_ball_mono tau seed N' N c' ltac:(lia) E') as E2. cbv zeta in E, E2. congruence.
Qed.

Lemma S_wapprox_unique A c z t1 w w' : length t1 = length A ->
  S_wapprox A c z t1 w -> S_wapprox A c z t1 w' -> w = w'.
Proof.
  intros Lt [L H] [L' H']. apply list_eq_nth_error; [congruence|].
  intros r wr wr' Hr Hr'.
  assert (Hlt : (r < length A)%nat) by (rewrite <- L; apply nth_error_Some; congruence).
  destruct (nth_error_some_lt A r Hlt) as (row & Hrow).
  destruct (nth_error_some_lt t1 r ltac:(lia)) as (tr & Htr).
  destruct (H r row tr wr Hrow Htr Hr) as [[Lw Rw] Cw].
  destruct (H' r row tr wr' Hrow Htr Hr') as [[Lw' Rw'] Cw'].
  apply canon_eq; try assumption.
  apply ntt_inj; try assumption.
  intros i Hi. rewrite (Cw i Hi), (Cw' i Hi). reflexivity.
Qed.

Lemma S_pkDecode_t1_length K pk : length (snd (S_pkDecode K pk)) = Z.to_nat K.
Proof. unfold S_pkDecode. cbn [snd]. rewrite map_length, slices_length. reflexivity. Qed.

Theorem S_verify_functional P pk m sig b b' : S_verify P pk m sig b -> S_verify P pk m sig b' -> b = b'.
Proof.
  unfold S_verify. cbv zeta.
  destruct (if zlen sig =? pSIG P then S_sigDecode P sig else None) as [[[ctilde z] h]|]; [|congruence].
  destruct (negb (S_norm_lt z (pGAMMA1 P - pBETA P))); [congruence|].
  intros (A & c & w & HA & Hc & Hw & Hb) (A' & c' & w' & HA' & Hc' & Hw' & Hb').
  pose proof (S_expandA_unique _ _ _ _ HA HA') as <-.
  pose proof (S_SampleInBall_unique _ _ _ _ Hc Hc') as <-.
  assert (Lt : length (snd (S_pkDecode (pK P) pk)) = length A).
  { rewrite S_pkDecode_t1_length. destruct HA as [LA _]. congruence. }
  pose proof (S_wapprox_unique _ _ _ _ _ _ Lt Hw Hw') as <-.
  destruct b, b'; try reflexivity.
  - symmetry. apply Hb'. apply Hb. reflexivity.
  - apply Hb. apply Hb'. reflexivity.
Qed.

(** ** the four ways of establishing [S_verify] *)
Lemma S_verify_bad_length P pk m sig : zlen sig <> pSIG P -> S_verify P pk m sig false.
Proof. intros H. unfold S_verify. cbv zeta. apply Z.eqb_neq in H. rewrite H. reflexivity. Qed.

Lemma S_verify_bad_hint P pk m sig :
  S_hint_unpack (pOMEGA P) (pK P) (S_hint_section P sig) = None -> S_verify P pk m sig false.
Proof.
  intros H. unfold S_verify. cbv zeta. destruct (zlen sig =? pSIG P); [|reflexivity].
  unfold S_sigDecode. cbv zeta. fold (S_hint_section P sig). rewrite H. reflexivity.
Qed.

Lemma S_verify_big_z P pk m sig h :
  zlen sig = pSIG P -> S_hint_unpack (pOMEGA P) (pK P) (S_hint_section P sig) = Some h ->
  S_norm_lt (map (fun y => BitUnpack y (pGAMMA1 P - 1) (pGAMMA1 P)) (slices sig (pCT P) (pPOLYZ P) (pL P)))
            (pGAMMA1 P - pBETA P) = false ->
  S_verify P pk m sig false.
Proof.
  intros El H Hn. unfold S_verify. cbv zeta. apply Z.eqb_eq in El. rewrite El.
  unfold S_sigDecode. cbv zeta. fold (S_hint_section P sig). rewrite H. rewrite Hn. reflexivity.
Qed.

Lemma S_verify_main P pk m sig h A c w b :
  zlen sig = pSIG P -> S_hint_unpack (pOMEGA P) (pK P) (S_hint_section P sig) = Some h ->
  let z := map (fun y => BitUnpack y (pGAMMA1 P - 1) (pGAMMA1 P)) (slices sig (pCT P) (pPOLYZ P) (pL P)) in
  S_norm_lt z (pGAMMA1 P - pBETA P) = true ->
  S_expandA P (fst (S_pkDecode (pK P) pk)) A ->
  S_SampleInBall (pTAU P) (firstn (Z.to_nat (pCT P)) sig) c ->
  S_wapprox A c z (snd (S_pkDecode (pK P) pk)) w ->
  (b = true <->
   firstn (Z.to_nat (pCT P)) sig =
   S_shake 136 (S_shake 136 (S_shake 136 pk (Z.to_nat (pTR P)) ++ m) 64
                ++ S_w1Encode (pG88 P) (S_UseHint (pG88 P) h w)) (Z.to_nat (pCT P))) ->
  S_verify P pk m sig b.
Proof.
  intros El H z Hn HA Hc Hw Hb. unfold S_verify. cbv zeta. apply Z.eqb_eq in El. rewrite El.
  unfold S_sigDecode. cbv zeta. fold (S_hint_section P sig). rewrite H. fold z. rewrite Hn. cbn [negb].
  exists A, c, w. auto.
Qed.
Print Assumptions S_verify_functional.

(** an accepted hint section decodes to K polynomials with coefficients in {0,1} (and weight <= omega) *)
Lemma unpack_hint_wf P sig h :
  0 <= pOMEGA P <= 255 -> 0 <= pK P -> 0 <= pL P -> 0 <= pCT P -> Forall is_byte sig -> zlen sig = pSIG P ->
  S_hint_unpack (pOMEGA P) (pK P) (S_hint_section P sig) = Some h ->
  length h = Z.to_nat (pK P) /\ Forall hint_row h /\ hweight h <= pOMEGA P.
Proof.
  intros HO HK HL HC Hb Hl H. unfold pSIG in Hl.
  assert (HZ : 0 <= pPOLYZ P) by (unfold pPOLYZ; destruct (pGAMMA1 P =? 131072); lia).
  assert (Lhs : zlen (S_hint_section P sig) = pOMEGA P + pK P).
  { unfold S_hint_section. rewrite zlen_skipn by nia. lia. }
  assert (Bhs : bytes (S_hint_section P sig)) by (unfold S_hint_section; apply Forall_skipn; exact Hb).
  destruct (S_unpack_canonical (pOMEGA P) (pK P) (S_hint_section P sig) h ltac:(lia) HK ltac:(lia) Bhs H) as (_ & Hw & [Lh Fh]).
  split; [unfold zlen in Lh; lia|]. split; [exact Fh | exact Hw].
Qed.

(** * 5. Main theorems *)
Lemma std_vf P : std P ->
  1 <= pK P <= 8 /\ 1 <= pL P <= 7 /\ gamma1_ok P /\ 0 <= pCT P < 136 /\ 0 <= pOMEGA P <= 255 /\
  0 < pGAMMA1 P - pBETA P <= 1047552 /\ (pTR P = 32 \/ pTR P = 64) /\ 0 <= pTAU P <= 256.
Proof.
  unfold gamma1_ok.
  intros [H|[H|[H|[H|[H|H]]]]]; subst P;
    cbn [pK pL pGAMMA1 pBETA pCT pOMEGA pTR pTAU P_lvl2 P_lvl3 P_lvl5 P_ml44 P_ml65 P_ml87];
    repeat split; try lia; auto.
Qed.

Lemma ternary_pbnd c : length c = 256%nat -> ternary c -> pbnd Q c.
Proof.
  intros L T. split; [exact L|]. eapply Forall_impl; [|exact T]. cbn beta. unfold Q. intros x Hx. lia.
Qed.

(** Verification either runs out of sampler fuel, or returns the decision the specification prescribes. *)
Theorem verify_cases P sig m pk :
  std P -> Forall is_byte sig -> Forall is_byte m -> Forall is_byte pk -> zlen pk = pPK P ->
  verify P sig m pk = OutOfFuel \/
  exists b, verify P sig m pk = Ok b /\ S_verify P pk m sig b.
Proof.
  intros HP Bsig Bm Bpk Lpk.
  destruct (std_vf P HP) as (HK & HL & Hg & HC & HO & HB & HTR & HT).
  unfold verify.
  (* length gate *)
  destruct (Z.eqb_spec (zlen sig) (pSIG P)) as [El|El]; cbn [negb].
  2:{ right. exists false. split; [reflexivity | apply S_verify_bad_length; exact El]. }
  (* pkDecode *)
  rewrite (unpack_pk_spec P (repeatZ 0 32) (zvec (pK P)) pk ltac:(lia) Bpk ltac:(lia)
             ltac:(apply PTotal.zlen_repeatZ; lia)
             ltac:(apply zlen_of_length; [lia | apply PSignStruct.zvec_length])).
  cbn [bind].
  destruct (S_pkDecode (pK P) pk) as [rho t1] eqn:Epk.
  destruct (S_pkDecode_range (pK P) pk rho t1 ltac:(lia) Bpk ltac:(unfold pPK, SEEDBYTES, POLYT1 in Lpk; lia) Epk)
    as (Lrho & Brho & Lt1 & Ht1).
  (* sigDecode *)
  destruct (unpack_sig_spec P sig Hg ltac:(lia) ltac:(lia) ltac:(lia) HO Bsig El) as (h & ok & Esig & Hh).
  rewrite Esig. cbn [bind].
  destruct ok; cbn [negb].
  2:{ right. exists false. split; [reflexivity | apply S_verify_bad_hint; exact Hh]. }
  set (z := map (fun y => BitUnpack y (pGAMMA1 P - 1) (pGAMMA1 P)) (slices sig (pCT P) (pPOLYZ P) (pL P))) in *.
  assert (HZ : 0 <= pPOLYZ P) by (unfold pPOLYZ; destruct (pGAMMA1 P =? 131072); lia).
  destruct (S_sig_z_shape P sig Hg ltac:(lia) ltac:(lia) Bsig ltac:(unfold pSIG in El; lia)) as [Lz Fz].
  fold z in Lz, Fz.
  (* norm gate *)
  assert (Hsm : forall a, In a z -> Forall (fun x => -1073741824 <= x <= 1073741823) a).
  { intros a Ha. destruct (Fz a Ha) as [_ Fa]. eapply Forall_impl; [|exact Fa]. cbn beta. intros x Hx.
    destruct Hg as [E|E]; rewrite E in Hx; lia. }
  rewrite (l_chknorm_exact P z (pGAMMA1 P - pBETA P) Hsm ltac:(lia) Lz ltac:(lia)). cbn [bind].
  rewrite existsb_norm.
  destruct (S_norm_lt z (pGAMMA1 P - pBETA P)) eqn:En; cbn [negb].
  2:{ change (0 <? 1) with true. cbv iota. right. exists false. split; [reflexivity|].
      exact (S_verify_big_z P pk m sig h El Hh En). }
  change (0 <? 0) with false. cbv iota.
  (* tr = H(pk), mu = H(tr || M') *)
  rewrite <- Lpk.
  rewrite (shake256_short_ok (repeatZ 0 64) (pTR P) pk Bpk ltac:(lia) ltac:(rewrite PTotal.zlen_repeatZ; lia)).
  cbn [bind].
  rewrite (firstn_app_exact (S_shake 136 pk (Z.to_nat (pTR P))) _ (Z.to_nat (pTR P)))
    by (symmetry; apply PBridge.S_shake_length; lia).
  set (tr := S_shake 136 pk (Z.to_nat (pTR P))).
  pose proof (shake256_hash_ok [tr; m] CRHBYTES
                ltac:(repeat constructor; [apply PTotal.S_shake_bytes | exact Bm])
                ltac:(unfold CRHBYTES; change (2 ^ 64) with 18446744073709551616; lia)) as Emu.
  cbn [concat] in Emu. rewrite app_nil_r in Emu. change (Z.to_nat CRHBYTES) with 64%nat in Emu.
  rewrite Emu. cbn [bind].
  set (mu := S_shake 136 (tr ++ m) 64).
  (* the two samplers *)
  set (ctilde := firstn (Z.to_nat (pCT P)) sig).
  assert (Lct : zlen ctilde = pCT P) by (apply zlen_firstn_le; unfold pSIG in El; nia).
  assert (Fct : firstn (Z.to_nat (pCT P)) ctilde = ctilde) by (apply firstn_exact; exact Lct).
  assert (Bct : Forall is_byte ctilde) by (apply Forall_firstn; exact Bsig).
  destruct (poly_challenge (pTAU P) (pCT P) ctilde) as [cp| |] eqn:Ecp; cbn [bind]; [| | left; reflexivity].
  2:{ exfalso. revert Ecp. apply poly_challenge_no_panic; [lia | lia | rewrite Fct; exact Bct]. }
  destruct (poly_challenge_ok (pTAU P) (pCT P) ctilde cp HT ltac:(lia) ltac:(rewrite Fct; exact Bct) Ecp)
    as (Lcp & Tcp & _ & Ecp').
  rewrite Fct in Ecp'.
  assert (Frho : firstn 32 rho = rho) by (apply (firstn_exact 32); exact Lrho).
  destruct (matrix_expand P (zmat (pK P) (pL P)) rho) as [mat| |] eqn:EA; cbn [bind]; [| | left; reflexivity].
  2:{ exfalso. revert EA. apply matrix_expand_no_panic; try lia. rewrite Frho. exact Brho. }
  destruct (expandA_ok P rho mat ltac:(lia) ltac:(lia) ltac:(lia) ltac:(rewrite Frho; exact Brho) EA) as [Lm Hmat].
  rewrite Frho in Hmat.
  assert (Hm : forall row, In row mat -> length row = Z.to_nat (pL P) /\ Forall (prng 0 Q) row).
  { intros row Hr. apply In_nth_error in Hr as (r & Hr). destruct (Hmat r row Hr) as [Lr Hp].
    split; [exact Lr|]. apply Forall_forall. intros p Hp'. apply In_nth_error in Hp' as (s & Hs).
    destruct (Hp s p Hs) as (_ & Lp & Fp). split; assumption. }
  (* the arithmetic *)
  assert (Hzq : Forall (pbnd Q) z).
  { apply Forall_forall. intros a Ha. split; [apply (Fz a Ha)|]. apply Forall_forall. intros x Hx.
    pose proof (S_norm_lt_true z _ En a Ha x Hx) as Hax. destruct Hg as [E|E]; rewrite E in *; unfold Q; lia. }
  destruct (unpack_hint_wf P sig h HO ltac:(lia) ltac:(lia) ltac:(lia) Bsig El Hh) as (Lh & Fh & _).
  destruct (verify_w1_sem P mat cp t1 z h ltac:(lia) HL Lm Hm (ternary_pbnd cp Lcp Tcp)
              ltac:(unfold zlen in Lt1; lia) Ht1 Lz Hzq Lh Fh) as (w & HS & Fw & Ebuf & Bbuf).
  unfold verify_arith in Ebuf.
  bind_inv Ebuf zhat Hzhat. bind_inv Ebuf w1 Hw1. bind_inv Ebuf chat Hchat. bind_inv Ebuf t1s Ht1s.
  bind_inv Ebuf t1h Ht1h. bind_inv Ebuf ct1 Hct1. bind_inv Ebuf w1a Hw1a. bind_inv Ebuf w1b Hw1b.
  bind_inv Ebuf w1c Hw1c. bind_inv Ebuf w1d Hw1d. bind_inv Ebuf w1e Hw1e.
  rewrite Hzhat; cbn [bind]. rewrite Hw1; cbn [bind]. rewrite Hchat; cbn [bind]. rewrite Ht1s; cbn [bind].
  rewrite Ht1h; cbn [bind]. rewrite Hct1; cbn [bind]. rewrite Hw1a; cbn [bind]. rewrite Hw1b; cbn [bind].
  rewrite Hw1c; cbn [bind]. rewrite Hw1d; cbn [bind]. rewrite Hw1e; cbn [bind]. rewrite Ebuf; cbn [bind].
  (* the final hash *)
  set (buf := S_w1Encode (pG88 P) (S_UseHint (pG88 P) h w)) in *.
  pose proof (shake256_hash_ok [mu; buf] (pCT P)
                ltac:(repeat constructor; [apply PTotal.S_shake_bytes | exact Bbuf])
                ltac:(change (2 ^ 64) with 18446744073709551616; lia)) as Ec2.
  cbn [concat] in Ec2. rewrite app_nil_r in Ec2. rewrite Ec2. cbn [bind].
  right. eexists. split; [reflexivity|].
  apply (S_verify_main P pk m sig h mat cp w _ El Hh En).
  - rewrite Epk. cbn [fst]. split; [exact Lm|]. intros r row Hr. destruct (Hmat r row Hr) as [Lr Hp].
    split; [exact Lr|]. intros s p Hs. apply (Hp s p Hs).
  - exists (N_CHALLENGE (pTAU P)). split; [unfold N_CHALLENGE; lia | exact Ecp'].
  - rewrite Epk. cbn [snd]. exact HS.
  - fold ctilde tr mu buf.
    destruct (list_eq_dec Z.eq_dec ctilde (S_shake 136 (mu ++ buf) (Z.to_nat (pCT P)))) as [E|E];
      split; intros H; [exact E | reflexivity | discriminate | contradiction].
Qed.
Print Assumptions verify_cases.

(** ** C03: whatever bytes are offered as a signature, the boolean returned is the specification's decision *)
Theorem verify_spec P sig m pk b :
  std P -> Forall is_byte sig -> Forall is_byte m -> Forall is_byte pk -> zlen pk = pPK P ->
  verify P sig m pk = Ok b -> S_verify P pk m sig b.
Proof.
  intros HP Bs Bm Bp Lp H.
  destruct (verify_cases P sig m pk HP Bs Bm Bp Lp) as [E | (b' & E & HS)]; rewrite E in H; [discriminate|].
  apply Ok_inj in H. subst b'. exact HS.
Qed.

(** the decision is the only one the specification allows *)
Corollary verify_spec_unique P sig m pk b b' :
  std P -> Forall is_byte sig -> Forall is_byte m -> Forall is_byte pk -> zlen pk = pPK P ->
  verify P sig m pk = Ok b -> S_verify P pk m sig b' -> b = b'.
Proof.
  intros HP Bs Bm Bp Lp H HS.
  exact (S_verify_functional P pk m sig b b' (verify_spec P sig m pk b HP Bs Bm Bp Lp H) HS).
Qed.

(** a signature that the specification accepts is never rejected *)
Corollary verify_accepts_spec_valid P sig m pk b :
  std P -> Forall is_byte sig -> Forall is_byte m -> Forall is_byte pk -> zlen pk = pPK P ->
  S_verify P pk m sig true -> verify P sig m pk = Ok b -> b = true.
Proof. intros HP Bs Bm Bp Lp HS H. exact (verify_spec_unique P sig m pk b true HP Bs Bm Bp Lp H HS). Qed.

(** a signature that the specification rejects is never accepted *)
Corollary verify_rejects_spec_invalid P sig m pk b :
  std P -> Forall is_byte sig -> Forall is_byte m -> Forall is_byte pk -> zlen pk = pPK P ->
  S_verify P pk m sig false -> verify P sig m pk = Ok b -> b = false.
Proof. intros HP Bs Bm Bp Lp HS H. exact (verify_spec_unique P sig m pk b false HP Bs Bm Bp Lp H HS). Qed.

(** total form: never a panic; out of sampler fuel, or exactly the specification's decision *)
Corollary verify_decision P sig m pk :
  std P -> Forall is_byte sig -> Forall is_byte m -> Forall is_byte pk -> zlen pk = pPK P ->
  verify P sig m pk = OutOfFuel \/
  exists b, verify P sig m pk = Ok b /\ S_verify P pk m sig b /\ forall b', S_verify P pk m sig b' -> b' = b.
Proof.
  intros HP Bs Bm Bp Lp.
  destruct (verify_cases P sig m pk HP Bs Bm Bp Lp) as [E | (b & E & HS)]; [left; exact E | right].
  exists b. split; [exact E|]. split; [exact HS|]. intros b' HS'. exact (S_verify_functional P pk m sig b' b HS' HS).
Qed.

(** ** The literal form of Alg. 8's last line: when the two samplers produce A^ and c, the decision is
       [ ||z||_inf < gamma1 - beta ] and [ c~ = c~' ] *)
Theorem S_verify_alg8 P pk m sig ctilde z h A c w b :
  zlen sig = pSIG P -> S_sigDecode P sig = Some (ctilde, z, h) ->
  S_expandA P (fst (S_pkDecode (pK P) pk)) A -> S_SampleInBall (pTAU P) ctilde c ->
  S_wapprox A c z (snd (S_pkDecode (pK P) pk)) w ->
  (S_verify P pk m sig b <->
   (b = true <->
    S_norm_lt z (pGAMMA1 P - pBETA P) = true /\
    ctilde = S_shake 136 (S_shake 136 (S_shake 136 pk (Z.to_nat (pTR P)) ++ m) 64
                          ++ S_w1Encode (pG88 P) (S_UseHint (pG88 P) h w)) (Z.to_nat (pCT P)))).
Proof.
  intros El Ed HA Hc Hw. unfold S_verify. cbv zeta. apply Z.eqb_eq in El. rewrite El, Ed.
  destruct (S_norm_lt z (pGAMMA1 P - pBETA P)); cbn [negb].
  - split.
    + intros (A' & c' & w' & HA' & Hc' & Hw' & Hb).
      pose proof (S_expandA_unique _ _ _ _ HA HA') as <-.
      pose proof (S_SampleInBall_unique _ _ _ _ Hc Hc') as <-.
      assert (Lt : length (snd (S_pkDecode (pK P) pk)) = length A).
      { rewrite S_pkDecode_t1_length. destruct HA as [LA _]. congruence. }
      pose proof (S_wapprox_unique _ _ _ _ _ _ Lt Hw Hw') as <-.
      rewrite Hb. tauto.
    + intros Hb. exists A, c, w. repeat (split; [assumption|]). rewrite Hb. tauto.
  - split; [intros ->; split; [discriminate | intros [H _]; discriminate]|].
    intros Hb. destruct b; [|reflexivity]. destruct (proj1 Hb eq_refl) as [H _]. discriminate.
Qed.

(** * 6. The API level *)

(** Dilithium 3.1: PublicKey::verify(msg, sig) decides Verify(pk, msg, sig) *)
Theorem dil_verify_spec P pk msg sig b :
  std P -> Forall is_byte sig -> Forall is_byte msg -> Forall is_byte pk -> zlen pk = pPK P ->
  dil_verify P pk msg sig = Ok b -> S_verify P pk msg sig b.
Proof. intros HP Bs Bm Bp Lp H. rewrite dil_verify_eq in H. exact (verify_spec P sig msg pk b HP Bs Bm Bp Lp H). Qed.

(** ML-DSA.Verify (FIPS 204 Alg. 3): a context longer than 255 bytes is rejected; otherwise the decision is
    Verify_internal on M' = 0 || |ctx| || ctx || M  ([frame_pure], see PFrame.frame_pure_shape) *)
Theorem ml_verify_spec P pk msg sig ctx b :
  std P -> Forall is_byte sig -> Forall is_byte msg -> Forall is_byte pk -> zlen pk = pPK P -> ctx_is_bytes ctx ->
  ml_verify P pk msg sig ctx = Ok b ->
  if ctx_too_long ctx then b = false else S_verify P pk (frame_pure ctx msg) sig b.
Proof.
  intros HP Bs Bm Bp Lp Bc H. destruct (ctx_too_long ctx) eqn:Hc.
  - rewrite (ml_verify_ctx_gate P pk msg sig ctx Hc) in H. apply Ok_inj in H. auto.
  - rewrite (ml_verify_eq P pk msg sig ctx Hc) in H.
    exact (verify_spec P sig (frame_pure ctx msg) pk b HP Bs (frame_pure_bytes ctx msg Bc Bm) Bp Lp H).
Qed.

(** HashML-DSA.Verify (Alg. 5): the same on M' = 1 || |ctx| || ctx || OID || PH(M)  ([frame_hash]) *)
Theorem ml_prehash_verify_spec P pk msg sig ctx ph b :
  std P -> Forall is_byte sig -> Forall is_byte pk -> zlen pk = pPK P -> ctx_is_bytes ctx ->
  ml_prehash_verify P pk msg sig ctx ph = Ok b ->
  if ctx_too_long ctx then b = false else S_verify P pk (frame_hash ph ctx msg) sig b.
Proof.
  intros HP Bs Bp Lp Bc H. rewrite ml_prehash_verify_frames in H.
  destruct (ctx_too_long ctx) eqn:Hc.
  - rewrite orb_true_r in H. apply Ok_inj in H. auto.
  - rewrite orb_false_r in H. destruct (Z.eqb_spec (zlen sig) (pSIG P)) as [El|El]; cbn [negb] in H.
    + exact (verify_spec P sig (frame_hash ph ctx msg) pk b HP Bs (frame_hash_bytes ph ctx msg Bc) Bp Lp H).
    + apply Ok_inj in H. subst b. apply S_verify_bad_length. exact El.
Qed.

(** the API wrappers: out of sampler fuel, or the specification's decision (no panic) *)
Corollary dil_verify_decision P pk msg sig :
  std P -> Forall is_byte sig -> Forall is_byte msg -> Forall is_byte pk -> zlen pk = pPK P ->
  dil_verify P pk msg sig = OutOfFuel \/
  exists b, dil_verify P pk msg sig = Ok b /\ S_verify P pk msg sig b.
Proof. intros HP Bs Bm Bp Lp. rewrite dil_verify_eq. exact (verify_cases P sig msg pk HP Bs Bm Bp Lp). Qed.

Corollary ml_verify_decision P pk msg sig ctx :
  std P -> Forall is_byte sig -> Forall is_byte msg -> Forall is_byte pk -> zlen pk = pPK P -> ctx_is_bytes ctx ->
  ctx_too_long ctx = false ->
  ml_verify P pk msg sig ctx = OutOfFuel \/
  exists b, ml_verify P pk msg sig ctx = Ok b /\ S_verify P pk (frame_pure ctx msg) sig b.
Proof.
  intros HP Bs Bm Bp Lp Bc Hc. rewrite (ml_verify_eq P pk msg sig ctx Hc).
  exact (verify_cases P sig (frame_pure ctx msg) pk HP Bs (frame_pure_bytes ctx msg Bc Bm) Bp Lp).
Qed.

Print Assumptions verify_spec.
Print Assumptions verify_spec_unique.
Print Assumptions verify_accepts_spec_valid.
Print Assumptions verify_rejects_spec_invalid.
Print Assumptions verify_decision.
Print Assumptions S_verify_alg8.
Print Assumptions dil_verify_spec.
Print Assumptions ml_verify_spec.
Print Assumptions ml_prehash_verify_spec.
Print Assumptions dil_verify_decision.
Print Assumptions ml_verify_decision.
