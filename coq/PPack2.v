(** Proofs for the coefficient codecs, part 2: z (gamma1 = 2^19 and 2^17) and t0.
    Same theorem set as PPack.v (X_pack_spec, X_unpack_spec, X_unpack_pack, X_unpack_total,
    X_pack_unpack, X_pack_splice, X_pack_fips, X_unpack_fips) for X in z19, z17, t0. *)
From DV Require Import Base MPoly PPack.

Local Ltac Zify.zify_post_hook ::= Z.div_mod_to_equations.

(** * z, gamma1 = 2^19 : 20 bits, BitPack(z, gamma1 - 1, gamma1) *)
Definition G19 : Z := 524288.
Definition z19_rng (c : Z) : Prop := -524288 < c <= 524288.

Lemma z19_pack_eq c0 c1 rest : z_pack_bytes G19 (c0 :: c1 :: rest) =
  do t0 <- i32_sub G19 c0; do t1 <- i32_sub G19 c1;
  do r <- z_pack_bytes G19 rest;
  Ok (u8 t0 :: u8 (sar t0 8)
      :: Z.lor (u8 (sar t0 16)) (u8 (shl32 t1 4))
      :: u8 (sar t1 4) :: u8 (sar t1 12) :: r).
Proof. reflexivity. Qed.

Lemma z19_unpack_eq n b0 b1 b2 b3 b4 rest : z_unpack_list G19 (S n) (b0 :: b1 :: b2 :: b3 :: b4 :: rest) =
  do r0 <- i32_sub G19 (Z.land (Z.land (Z.lor (Z.lor b0 (Z.shiftl b1 8)) (Z.shiftl b2 16)) 1048575) 1048575);
  do r1 <- i32_sub G19 (Z.lor (Z.lor (sar b2 4) (Z.shiftl b3 4)) (Z.shiftl b4 12));
  do r <- z_unpack_list G19 n rest;
  Ok (r0 :: r1 :: r).
Proof. reflexivity. Qed.

Lemma z19_pack_group t0 t1 : 0 <= t0 < 1048576 -> 0 <= t1 < 1048576 ->
  [u8 t0; u8 (sar t0 8); Z.lor (u8 (sar t0 16)) (u8 (shl32 t1 4)); u8 (sar t1 4); u8 (sar t1 12)]
  = bytes_of_int 5 (pack_int 20 [t0; t1]).
Proof.
  intros. rewrite !lor_u8. rewrite !sar_div by lia.
  rewrite !shl32_mul by (pow_norm; lia). lor_norm.
  rewrite !u8_mod. cbn [bytes_of_int pack_int]. pow_norm. list_eq lia.
Qed.

(** the two values the decoder computes, before [gamma1 - _]: field 0 is masked twice, field 1 is
    not masked at all; it is b2/16 + 16*b3 + 4096*b4 < 2^20 for bytes, so the mask would be the identity *)
Lemma z19_unpack_fields b0 b1 b2 b3 b4 : is_byte b0 -> is_byte b1 -> is_byte b2 -> is_byte b3 -> is_byte b4 ->
  [Z.land (Z.land (Z.lor (Z.lor b0 (Z.shiftl b1 8)) (Z.shiftl b2 16)) 1048575) 1048575;
   Z.lor (Z.lor (sar b2 4) (Z.shiftl b3 4)) (Z.shiftl b4 12)]
  = unpack_int 20 2 (int_of_bytes [b0; b1; b2; b3; b4]).
Proof.
  unfold is_byte; intros. rewrite !sar_div by lia. lor_norm.
  change 1048575 with (Z.ones 20). rewrite !Z.land_ones by lia.
  cbn [unpack_int int_of_bytes pack_int]. pow_norm. list_eq lia.
Qed.

Lemma fields_bound bits n x fs : 0 <= bits -> fs = unpack_int bits n x -> Forall (in_bits bits) fs.
Proof. intros Hb ->. apply unpack_int_range. exact Hb. Qed.

Theorem z19_pack_spec_gen n a : Forall z19_rng a -> length a = (2 * n)%nat ->
  z_pack_bytes G19 a = Ok (S_bitpack 20 (map (bp_shift G19) a)).
Proof.
  revert a; induction n as [|n IH]; intros a Hr Hl.
  - destruct a; [reflexivity | discriminate].
  - destruct a as [|c0 [|c1 rest]]; cbn [length] in Hl; try lia.
    inv_forall. unfold z19_rng in *. rewrite z19_pack_eq. unfold G19 at 1 2.
    rewrite !i32_sub_ok by lia. cbn [bind].
    rewrite IH by (auto; lia). cbn [bind map].
    match goal with |- context [S_bitpack 20 (?x0 :: ?x1 :: ?r)] =>
      change (x0 :: x1 :: r) with ([524288 - c0; 524288 - c1] ++ r) end.
    rewrite (S_bitpack_group 20 5); [| lia | unfold in_bits; pow_norm; fa_by lia | reflexivity].
    rewrite <- z19_pack_group by lia. reflexivity.
Qed.

Theorem z19_unpack_list_spec n b : Forall is_byte b -> (5 * n <= length b)%nat ->
  z_unpack_list G19 n b = Ok (map (bp_shift G19) (S_bitunpack 20 (2 * n) b)).
Proof.
  revert b; induction n as [|n IH]; intros b Hr Hl.
  - reflexivity.
  - destruct b as [|b0 [|b1 [|b2 [|b3 [|b4 rest]]]]]; cbn [length] in Hl; try lia.
    inv_forall. rewrite z19_unpack_eq.
    pose proof (z19_unpack_fields b0 b1 b2 b3 b4 Hc Hc0 Hc1 Hc2 Hc3) as F.
    pose proof (fields_bound 20 _ _ _ ltac:(lia) F) as B. inv_forall.
    unfold in_bits in *. change (2 ^ 20) with 1048576 in *. unfold G19 at 1 2.
    rewrite !i32_sub_ok by lia. cbn [bind].
    rewrite IH by (auto; lia). cbn [bind].
    replace (2 * S n)%nat with (2 + 2 * n)%nat by lia.
    change (b0 :: b1 :: b2 :: b3 :: b4 :: rest) with ([b0; b1; b2; b3; b4] ++ rest).
    rewrite (S_bitunpack_group 20 2); [| lia | fa_solve | reflexivity].
    rewrite map_app. rewrite <- F. reflexivity.
Qed.

Theorem z19_pack_spec a : Forall z19_rng a -> length a = 256%nat ->
  z_pack_bytes G19 a = Ok (S_bitpack 20 (map (bp_shift G19) a)) /\
  length (S_bitpack 20 (map (bp_shift G19) a)) = 640%nat.
Proof.
  intros Hr Hl. split; [apply (z19_pack_spec_gen 128); assumption|].
  apply (gen_pack_length 20 256); [reflexivity|]. rewrite map_length. exact Hl.
Qed.

Theorem z19_unpack_spec b : Forall is_byte b -> (640 <= length b)%nat ->
  z_unpack G19 b = Ok (map (bp_shift G19) (S_bitunpack 20 256 b)).
Proof. intros Hb Hl. apply (z19_unpack_list_spec 128); assumption. Qed.

Lemma z19_enc_rng c : z19_rng c -> in_bits 20 (bp_shift G19 c).
Proof. unfold z19_rng, in_bits, bp_shift, G19. pow_norm. lia. Qed.
Lemma z19_dec_rng v : in_bits 20 v -> z19_rng (bp_shift G19 v).
Proof. unfold z19_rng, in_bits, bp_shift, G19. pow_norm. lia. Qed.

Theorem z19_unpack_pack a b : Forall z19_rng a -> length a = 256%nat ->
  z_pack_bytes G19 a = Ok b -> z_unpack G19 b = Ok a.
Proof.
  apply gen_unpack_pack with (bits := 20) (ncoef := 256%nat) (kbytes := 640%nat) (enc := bp_shift G19) (dec := bp_shift G19);
    try (intros; apply z19_pack_spec; assumption); try exact z19_unpack_spec;
    try apply bp_shift_invol; try exact z19_enc_rng; lia.
Qed.

Theorem z19_unpack_total b : Forall is_byte b -> (640 <= length b)%nat ->
  exists a, z_unpack G19 b = Ok a /\ length a = 256%nat /\ Forall z19_rng a.
Proof.
  apply gen_unpack_total with (bits := 20) (ncoef := 256%nat) (kbytes := 640%nat) (dec := bp_shift G19);
    try exact z19_unpack_spec; try exact z19_dec_rng; lia.
Qed.

Theorem z19_pack_unpack a b : Forall is_byte b -> length b = 640%nat ->
  z_unpack G19 b = Ok a -> z_pack_bytes G19 a = Ok b.
Proof.
  apply gen_pack_unpack with (bits := 20) (ncoef := 256%nat) (kbytes := 640%nat) (enc := bp_shift G19) (dec := bp_shift G19) (rng := z19_rng);
    try (intros; apply z19_pack_spec; assumption); try exact z19_unpack_spec;
    try apply bp_shift_invol; try exact z19_dec_rng; lia.
Qed.

Theorem z19_pack_splice r a : Forall z19_rng a -> length a = 256%nat -> (640 <= length r)%nat ->
  exists r', z_pack G19 r a = Ok r' /\ length r' = length r /\
             firstn 640 r' = S_bitpack 20 (map (bp_shift G19) a) /\
             forall i, (640 <= i)%nat -> nth_error r' i = nth_error r i.
Proof.
  intros Hr Hl Hlr. destruct (z19_pack_spec a Hr Hl) as [Hp Hlen].
  exact (pack_splice_codec (z_pack_bytes G19) r a _ _ Hp Hlen Hlr).
Qed.

(** * z, gamma1 = 2^17 : 18 bits, BitPack(z, gamma1 - 1, gamma1) *)
Definition G17 : Z := 131072.
Definition z17_rng (c : Z) : Prop := -131072 < c <= 131072.

Lemma z17_pack_eq c0 c1 c2 c3 rest : z_pack_bytes G17 (c0 :: c1 :: c2 :: c3 :: rest) =
  do t0 <- i32_sub G17 c0; do t1 <- i32_sub G17 c1; do t2 <- i32_sub G17 c2; do t3 <- i32_sub G17 c3;
  do r <- z_pack_bytes G17 rest;
  Ok (u8 t0 :: u8 (sar t0 8)
      :: Z.lor (u8 (sar t0 16)) (u8 (shl32 t1 2))
      :: u8 (sar t1 6)
      :: Z.lor (u8 (sar t1 14)) (u8 (shl32 t2 4))
      :: u8 (sar t2 4)
      :: Z.lor (u8 (sar t2 12)) (u8 (shl32 t3 6))
      :: u8 (sar t3 2) :: u8 (sar t3 10) :: r).
Proof. reflexivity. Qed.

Lemma z17_unpack_eq n b0 b1 b2 b3 b4 b5 b6 b7 b8 rest :
  z_unpack_list G17 (S n) (b0 :: b1 :: b2 :: b3 :: b4 :: b5 :: b6 :: b7 :: b8 :: rest) =
  do r0 <- i32_sub G17 (Z.land (Z.lor (Z.lor b0 (Z.shiftl b1 8)) (Z.shiftl b2 16)) 262143);
  do r1 <- i32_sub G17 (Z.land (Z.lor (Z.lor (sar b2 2) (Z.shiftl b3 6)) (Z.shiftl b4 14)) 262143);
  do r2 <- i32_sub G17 (Z.land (Z.lor (Z.lor (sar b4 4) (Z.shiftl b5 4)) (Z.shiftl b6 12)) 262143);
  do r3 <- i32_sub G17 (Z.land (Z.lor (Z.lor (sar b6 6) (Z.shiftl b7 2)) (Z.shiftl b8 10)) 262143);
  do r <- z_unpack_list G17 n rest;
  Ok (r0 :: r1 :: r2 :: r3 :: r).
Proof. reflexivity. Qed.

Lemma z17_pack_group t0 t1 t2 t3 :
  0 <= t0 < 262144 -> 0 <= t1 < 262144 -> 0 <= t2 < 262144 -> 0 <= t3 < 262144 ->
  [u8 t0; u8 (sar t0 8); Z.lor (u8 (sar t0 16)) (u8 (shl32 t1 2)); u8 (sar t1 6);
   Z.lor (u8 (sar t1 14)) (u8 (shl32 t2 4)); u8 (sar t2 4);
   Z.lor (u8 (sar t2 12)) (u8 (shl32 t3 6)); u8 (sar t3 2); u8 (sar t3 10)]
  = bytes_of_int 9 (pack_int 18 [t0; t1; t2; t3]).
Proof.
  intros. rewrite !lor_u8. rewrite !sar_div by lia.
  rewrite !shl32_mul by (pow_norm; lia). lor_norm.
  rewrite !u8_mod. cbn [bytes_of_int pack_int]. pow_norm. list_eq lia.
Qed.

Lemma z17_unpack_fields b0 b1 b2 b3 b4 b5 b6 b7 b8 :
  is_byte b0 -> is_byte b1 -> is_byte b2 -> is_byte b3 -> is_byte b4 ->
  is_byte b5 -> is_byte b6 -> is_byte b7 -> is_byte b8 ->
  [Z.land (Z.lor (Z.lor b0 (Z.shiftl b1 8)) (Z.shiftl b2 16)) 262143;
   Z.land (Z.lor (Z.lor (sar b2 2) (Z.shiftl b3 6)) (Z.shiftl b4 14)) 262143;
   Z.land (Z.lor (Z.lor (sar b4 4) (Z.shiftl b5 4)) (Z.shiftl b6 12)) 262143;
   Z.land (Z.lor (Z.lor (sar b6 6) (Z.shiftl b7 2)) (Z.shiftl b8 10)) 262143]
  = unpack_int 18 4 (int_of_bytes [b0; b1; b2; b3; b4; b5; b6; b7; b8]).
Proof.
  unfold is_byte; intros. rewrite !sar_div by lia. lor_norm.
  change 262143 with (Z.ones 18). rewrite !Z.land_ones by lia.
  cbn [unpack_int int_of_bytes pack_int]. pow_norm. list_eq lia.
Qed.

Theorem z17_pack_spec_gen n a : Forall z17_rng a -> length a = (4 * n)%nat ->
  z_pack_bytes G17 a = Ok (S_bitpack 18 (map (bp_shift G17) a)).
Proof.
  revert a; induction n as [|n IH]; intros a Hr Hl.
  - destruct a; [reflexivity | discriminate].
  - destruct a as [|c0 [|c1 [|c2 [|c3 rest]]]]; cbn [length] in Hl; try lia.
    inv_forall. unfold z17_rng in *. rewrite z17_pack_eq. unfold G17 at 1 2 3 4.
    rewrite !i32_sub_ok by lia. cbn [bind].
    rewrite IH by (auto; lia). cbn [bind map].
    match goal with |- context [S_bitpack 18 (?x0 :: ?x1 :: ?x2 :: ?x3 :: ?r)] =>
      change (x0 :: x1 :: x2 :: x3 :: r) with ([131072 - c0; 131072 - c1; 131072 - c2; 131072 - c3] ++ r) end.
    rewrite (S_bitpack_group 18 9); [| lia | unfold in_bits; pow_norm; fa_by lia | reflexivity].
    rewrite <- z17_pack_group by lia. reflexivity.
Qed.

Theorem z17_unpack_list_spec n b : Forall is_byte b -> (9 * n <= length b)%nat ->
  z_unpack_list G17 n b = Ok (map (bp_shift G17) (S_bitunpack 18 (4 * n) b)).
Proof.
  revert b; induction n as [|n IH]; intros b Hr Hl.
  - reflexivity.
  - destruct b as [|b0 [|b1 [|b2 [|b3 [|b4 [|b5 [|b6 [|b7 [|b8 rest]]]]]]]]]; cbn [length] in Hl; try lia.
    inv_forall. rewrite z17_unpack_eq.
    pose proof (z17_unpack_fields b0 b1 b2 b3 b4 b5 b6 b7 b8 Hc Hc0 Hc1 Hc2 Hc3 Hc4 Hc5 Hc6 Hc7) as F.
    pose proof (fields_bound 18 _ _ _ ltac:(lia) F) as B. inv_forall.
    unfold in_bits in *. change (2 ^ 18) with 262144 in *. unfold G17 at 1 2 3 4.
    rewrite !i32_sub_ok by lia. cbn [bind].
    rewrite IH by (auto; lia). cbn [bind].
    replace (4 * S n)%nat with (4 + 4 * n)%nat by lia.
    change (b0 :: b1 :: b2 :: b3 :: b4 :: b5 :: b6 :: b7 :: b8 :: rest)
      with ([b0; b1; b2; b3; b4; b5; b6; b7; b8] ++ rest).
    rewrite (S_bitunpack_group 18 4); [| lia | fa_solve | reflexivity].
    rewrite map_app. rewrite <- F. reflexivity.
Qed.

Theorem z17_pack_spec a : Forall z17_rng a -> length a = 256%nat ->
  z_pack_bytes G17 a = Ok (S_bitpack 18 (map (bp_shift G17) a)) /\
  length (S_bitpack 18 (map (bp_shift G17) a)) = 576%nat.
Proof.
  intros Hr Hl. split; [apply (z17_pack_spec_gen 64); assumption|].
  apply (gen_pack_length 18 256); [reflexivity|]. rewrite map_length. exact Hl.
Qed.

Theorem z17_unpack_spec b : Forall is_byte b -> (576 <= length b)%nat ->
  z_unpack G17 b = Ok (map (bp_shift G17) (S_bitunpack 18 256 b)).
Proof. intros Hb Hl. apply (z17_unpack_list_spec 64); assumption. Qed.

Lemma z17_enc_rng c : z17_rng c -> in_bits 18 (bp_shift G17 c).
Proof. unfold z17_rng, in_bits, bp_shift, G17. pow_norm. lia. Qed.
Lemma z17_dec_rng v : in_bits 18 v -> z17_rng (bp_shift G17 v).
Proof. unfold z17_rng, in_bits, bp_shift, G17. pow_norm. lia. Qed.

Theorem z17_unpack_pack a b : Forall z17_rng a -> length a = 256%nat ->
  z_pack_bytes G17 a = Ok b -> z_unpack G17 b = Ok a.
Proof.
  apply gen_unpack_pack with (bits := 18) (ncoef := 256%nat) (kbytes := 576%nat) (enc := bp_shift G17) (dec := bp_shift G17);
    try (intros; apply z17_pack_spec; assumption); try exact z17_unpack_spec;
    try apply bp_shift_invol; try exact z17_enc_rng; lia.
Qed.

Theorem z17_unpack_total b : Forall is_byte b -> (576 <= length b)%nat ->
  exists a, z_unpack G17 b = Ok a /\ length a = 256%nat /\ Forall z17_rng a.
Proof.
  apply gen_unpack_total with (bits := 18) (ncoef := 256%nat) (kbytes := 576%nat) (dec := bp_shift G17);
    try exact z17_unpack_spec; try exact z17_dec_rng; lia.
Qed.

Theorem z17_pack_unpack a b : Forall is_byte b -> length b = 576%nat ->
  z_unpack G17 b = Ok a -> z_pack_bytes G17 a = Ok b.
Proof.
  apply gen_pack_unpack with (bits := 18) (ncoef := 256%nat) (kbytes := 576%nat) (enc := bp_shift G17) (dec := bp_shift G17) (rng := z17_rng);
    try (intros; apply z17_pack_spec; assumption); try exact z17_unpack_spec;
    try apply bp_shift_invol; try exact z17_dec_rng; lia.
Qed.

Theorem z17_pack_splice r a : Forall z17_rng a -> length a = 256%nat -> (576 <= length r)%nat ->
  exists r', z_pack G17 r a = Ok r' /\ length r' = length r /\
             firstn 576 r' = S_bitpack 18 (map (bp_shift G17) a) /\
             forall i, (576 <= i)%nat -> nth_error r' i = nth_error r i.
Proof.
  intros Hr Hl Hlr. destruct (z17_pack_spec a Hr Hl) as [Hp Hlen].
  exact (pack_splice_codec (z_pack_bytes G17) r a _ _ Hp Hlen Hlr).
Qed.

(** * t0 : 13 bits, BitPack(t0, 2^12 - 1, 2^12) *)
Definition t0_rng (c : Z) : Prop := -4096 < c <= 4096.

Lemma t0_pack_eq c0 c1 c2 c3 c4 c5 c6 c7 rest :
  t0_pack_bytes (c0 :: c1 :: c2 :: c3 :: c4 :: c5 :: c6 :: c7 :: rest) =
  do t0 <- i32_sub 4096 c0; do t1 <- i32_sub 4096 c1; do t2 <- i32_sub 4096 c2; do t3 <- i32_sub 4096 c3;
  do t4 <- i32_sub 4096 c4; do t5 <- i32_sub 4096 c5; do t6 <- i32_sub 4096 c6; do t7 <- i32_sub 4096 c7;
  do r <- t0_pack_bytes rest;
  Ok (u8 t0
      :: Z.lor (u8 (sar t0 8)) (u8 (shl32 t1 5))
      :: u8 (sar t1 3)
      :: Z.lor (u8 (sar t1 11)) (u8 (shl32 t2 2))
      :: Z.lor (u8 (sar t2 6)) (u8 (shl32 t3 7))
      :: u8 (sar t3 1)
      :: Z.lor (u8 (sar t3 9)) (u8 (shl32 t4 4))
      :: u8 (sar t4 4)
      :: Z.lor (u8 (sar t4 12)) (u8 (shl32 t5 1))
      :: Z.lor (u8 (sar t5 7)) (u8 (shl32 t6 6))
      :: u8 (sar t6 2)
      :: Z.lor (u8 (sar t6 10)) (u8 (shl32 t7 3))
      :: u8 (sar t7 5) :: r).
Proof. reflexivity. Qed.

Lemma t0_unpack_eq n b0 b1 b2 b3 b4 b5 b6 b7 b8 b9 b10 b11 b12 rest :
  t0_unpack_list (S n) (b0 :: b1 :: b2 :: b3 :: b4 :: b5 :: b6 :: b7 :: b8 :: b9 :: b10 :: b11 :: b12 :: rest) =
  do r0 <- i32_sub 4096 (Z.land (Z.lor b0 (Z.shiftl b1 8)) 8191);
  do r1 <- i32_sub 4096 (Z.land (Z.lor (Z.lor (sar b1 5) (Z.shiftl b2 3)) (Z.shiftl b3 11)) 8191);
  do r2 <- i32_sub 4096 (Z.land (Z.lor (sar b3 2) (Z.shiftl b4 6)) 8191);
  do r3 <- i32_sub 4096 (Z.land (Z.lor (Z.lor (sar b4 7) (Z.shiftl b5 1)) (Z.shiftl b6 9)) 8191);
  do r4 <- i32_sub 4096 (Z.land (Z.lor (Z.lor (sar b6 4) (Z.shiftl b7 4)) (Z.shiftl b8 12)) 8191);
  do r5 <- i32_sub 4096 (Z.land (Z.lor (sar b8 1) (Z.shiftl b9 7)) 8191);
  do r6 <- i32_sub 4096 (Z.land (Z.lor (Z.lor (sar b9 6) (Z.shiftl b10 2)) (Z.shiftl b11 10)) 8191);
  do r7 <- i32_sub 4096 (Z.land (Z.lor (sar b11 3) (Z.shiftl b12 5)) 8191);
  do r <- t0_unpack_list n rest;
  Ok (r0 :: r1 :: r2 :: r3 :: r4 :: r5 :: r6 :: r7 :: r).
Proof. reflexivity. Qed.


(** *** digit extraction that keeps the goals small: the 13-bit / 13-byte group is too big for a
    direct [lia] on the nested divisions, so each output digit is first localised to the two or
    three input digits it overlaps *)
Fixpoint digits_from (bits : Z) (n : nat) (k : Z) (x : Z) : list Z :=
  match n with
  | O => []
  | S n' => (x / 2 ^ k) mod 2 ^ bits :: digits_from bits n' (k + bits) x
  end.

Lemma unpack_int_from bits n k x : 0 <= bits -> 0 <= k ->
  unpack_int bits n (x / 2 ^ k) = digits_from bits n k x.
Proof.
  intros Hb. revert k; induction n as [|n IH]; intros k Hk; cbn [unpack_int digits_from]; [reflexivity|].
  f_equal. assert (0 < 2 ^ k) by (apply pow2_pos; lia). assert (0 < 2 ^ bits) by (apply pow2_pos; lia).
  rewrite Z.div_div by lia. rewrite <- Z.pow_add_r by lia. apply IH. lia.
Qed.

Lemma unpack_int_digits bits n x : 0 <= bits -> unpack_int bits n x = digits_from bits n 0 x.
Proof. intros. rewrite <- unpack_int_from by lia. change (2 ^ 0) with 1. rewrite Z.div_1_r. reflexivity. Qed.

Lemma pack_int_shift bits ts (i : nat) s k : 0 <= bits -> 0 <= s -> (i <= length ts)%nat ->
  Forall (in_bits bits) (firstn i ts) -> k = bits * Z.of_nat i + s ->
  pack_int bits ts / 2 ^ k = pack_int bits (skipn i ts) / 2 ^ s.
Proof.
  intros Hb Hs Hi Hr ->. rewrite <- (firstn_skipn i ts) at 1. rewrite pack_int_app by lia.
  pose proof (pack_int_range bits _ Hb Hr) as B. unfold zlen in *. rewrite firstn_length_le in * by exact Hi.
  rewrite Z.pow_add_r by lia.
  assert (Hp : 0 < 2 ^ (bits * Z.of_nat i)) by (apply pow2_pos; lia).
  assert (Hq : 0 < 2 ^ s) by (apply pow2_pos; lia).
  rewrite <- Z.div_div by lia.
  rewrite (Z.mul_comm (2 ^ (bits * Z.of_nat i))). rewrite Z.div_add by lia.
  rewrite (Z.div_small (pack_int bits (firstn i ts))) by lia. reflexivity.
Qed.

Lemma pack_int_cons3 bits a b c rest :
  pack_int bits (a :: b :: c :: rest) = a + 2 ^ bits * (b + 2 ^ bits * (c + 2 ^ bits * pack_int bits rest)).
Proof. reflexivity. Qed.

(** goal: [lhs = (pack_int B ts / 2^K) mod 2^W] with closed B, K *)
Ltac digit_goal :=
  lazymatch goal with
  | |- _ = (pack_int ?B ?ts / 2 ^ ?K) mod _ =>
    let K' := eval compute in K in
    let i := eval compute in (Z.to_nat (K' / B)) in
    let s := eval compute in (K' mod B) in
    rewrite (pack_int_shift B ts i s K);
    [ cbn [skipn];
      try (rewrite pack_int_cons3;
           match goal with |- context [pack_int B ?r] => generalize (pack_int B r); intro end);
      cbn [pack_int]; pow_norm; lia
    | lia | lia | cbn [length]; lia
    | cbn [firstn]; unfold in_bits; pow_norm; fa_by lia
    | reflexivity ]
  end.
Ltac digits_eq := repeat (apply (f_equal2 (@cons Z)); [digit_goal|]); reflexivity.

Lemma t0_pack_group t0 t1 t2 t3 t4 t5 t6 t7 :
  0 <= t0 < 8192 -> 0 <= t1 < 8192 -> 0 <= t2 < 8192 -> 0 <= t3 < 8192 ->
  0 <= t4 < 8192 -> 0 <= t5 < 8192 -> 0 <= t6 < 8192 -> 0 <= t7 < 8192 ->
  [u8 t0; Z.lor (u8 (sar t0 8)) (u8 (shl32 t1 5)); u8 (sar t1 3);
   Z.lor (u8 (sar t1 11)) (u8 (shl32 t2 2)); Z.lor (u8 (sar t2 6)) (u8 (shl32 t3 7)); u8 (sar t3 1);
   Z.lor (u8 (sar t3 9)) (u8 (shl32 t4 4)); u8 (sar t4 4);
   Z.lor (u8 (sar t4 12)) (u8 (shl32 t5 1)); Z.lor (u8 (sar t5 7)) (u8 (shl32 t6 6)); u8 (sar t6 2);
   Z.lor (u8 (sar t6 10)) (u8 (shl32 t7 3)); u8 (sar t7 5)]
  = bytes_of_int 13 (pack_int 13 [t0; t1; t2; t3; t4; t5; t6; t7]).
Proof.
  intros. rewrite !lor_u8. rewrite !sar_div by lia.
  rewrite !shl32_mul by (pow_norm; lia). lor_norm.
  rewrite !u8_mod. rewrite bytes_of_int_unpack, unpack_int_digits by lia.
  cbn [digits_from]. digits_eq.
Qed.

Lemma t0_unpack_fields b0 b1 b2 b3 b4 b5 b6 b7 b8 b9 b10 b11 b12 :
  is_byte b0 -> is_byte b1 -> is_byte b2 -> is_byte b3 -> is_byte b4 -> is_byte b5 -> is_byte b6 ->
  is_byte b7 -> is_byte b8 -> is_byte b9 -> is_byte b10 -> is_byte b11 -> is_byte b12 ->
  [Z.land (Z.lor b0 (Z.shiftl b1 8)) 8191;
   Z.land (Z.lor (Z.lor (sar b1 5) (Z.shiftl b2 3)) (Z.shiftl b3 11)) 8191;
   Z.land (Z.lor (sar b3 2) (Z.shiftl b4 6)) 8191;
   Z.land (Z.lor (Z.lor (sar b4 7) (Z.shiftl b5 1)) (Z.shiftl b6 9)) 8191;
   Z.land (Z.lor (Z.lor (sar b6 4) (Z.shiftl b7 4)) (Z.shiftl b8 12)) 8191;
   Z.land (Z.lor (sar b8 1) (Z.shiftl b9 7)) 8191;
   Z.land (Z.lor (Z.lor (sar b9 6) (Z.shiftl b10 2)) (Z.shiftl b11 10)) 8191;
   Z.land (Z.lor (sar b11 3) (Z.shiftl b12 5)) 8191]
  = unpack_int 13 8 (int_of_bytes [b0; b1; b2; b3; b4; b5; b6; b7; b8; b9; b10; b11; b12]).
Proof.
  unfold is_byte; intros. rewrite !sar_div by lia. lor_norm.
  change 8191 with (Z.ones 13). rewrite !Z.land_ones by lia.
  rewrite unpack_int_digits by lia. unfold int_of_bytes. cbn [digits_from]. digits_eq.
Qed.

Theorem t0_pack_spec_gen n a : Forall t0_rng a -> length a = (8 * n)%nat ->
  t0_pack_bytes a = Ok (S_bitpack 13 (map (bp_shift 4096) a)).
Proof.
  revert a; induction n as [|n IH]; intros a Hr Hl.
  - destruct a; [reflexivity | discriminate].
  - destruct a as [|c0 [|c1 [|c2 [|c3 [|c4 [|c5 [|c6 [|c7 rest]]]]]]]]; cbn [length] in Hl; try lia.
    inv_forall. unfold t0_rng in *. rewrite t0_pack_eq.
    rewrite !i32_sub_ok by lia. cbn [bind].
    rewrite IH by (auto; lia). cbn [bind map].
    match goal with |- context [S_bitpack 13 (?x0 :: ?x1 :: ?x2 :: ?x3 :: ?x4 :: ?x5 :: ?x6 :: ?x7 :: ?r)] =>
      change (x0 :: x1 :: x2 :: x3 :: x4 :: x5 :: x6 :: x7 :: r)
        with ([4096 - c0; 4096 - c1; 4096 - c2; 4096 - c3; 4096 - c4; 4096 - c5; 4096 - c6; 4096 - c7] ++ r) end.
    rewrite (S_bitpack_group 13 13); [| lia | unfold in_bits; pow_norm; fa_by lia | reflexivity].
    rewrite <- t0_pack_group by lia. reflexivity.
Qed.

Theorem t0_unpack_list_spec n b : Forall is_byte b -> (13 * n <= length b)%nat ->
  t0_unpack_list n b = Ok (map (bp_shift 4096) (S_bitunpack 13 (8 * n) b)).
Proof.
  revert b; induction n as [|n IH]; intros b Hr Hl.
  - reflexivity.
  - destruct b as [|b0 [|b1 [|b2 [|b3 [|b4 [|b5 [|b6 [|b7 [|b8 [|b9 [|b10 [|b11 [|b12 rest]]]]]]]]]]]]];
      cbn [length] in Hl; try lia.
    inv_forall. rewrite t0_unpack_eq.
    pose proof (t0_unpack_fields b0 b1 b2 b3 b4 b5 b6 b7 b8 b9 b10 b11 b12
                  Hc Hc0 Hc1 Hc2 Hc3 Hc4 Hc5 Hc6 Hc7 Hc8 Hc9 Hc10 Hc11) as F.
    pose proof (fields_bound 13 _ _ _ ltac:(lia) F) as B. inv_forall.
    unfold in_bits in *. change (2 ^ 13) with 8192 in *.
    rewrite !i32_sub_ok by lia. cbn [bind].
    rewrite IH by (auto; lia). cbn [bind].
    replace (8 * S n)%nat with (8 + 8 * n)%nat by lia.
    change (b0 :: b1 :: b2 :: b3 :: b4 :: b5 :: b6 :: b7 :: b8 :: b9 :: b10 :: b11 :: b12 :: rest)
      with ([b0; b1; b2; b3; b4; b5; b6; b7; b8; b9; b10; b11; b12] ++ rest).
    rewrite (S_bitunpack_group 13 8); [| lia | fa_solve | reflexivity].
    rewrite map_app. rewrite <- F. reflexivity.
Qed.

Theorem t0_pack_spec a : Forall t0_rng a -> length a = 256%nat ->
  t0_pack_bytes a = Ok (S_bitpack 13 (map (bp_shift 4096) a)) /\
  length (S_bitpack 13 (map (bp_shift 4096) a)) = 416%nat.
Proof.
  intros Hr Hl. split; [apply (t0_pack_spec_gen 32); assumption|].
  apply (gen_pack_length 13 256); [reflexivity|]. rewrite map_length. exact Hl.
Qed.

Theorem t0_unpack_spec b : Forall is_byte b -> (416 <= length b)%nat ->
  t0_unpack b = Ok (map (bp_shift 4096) (S_bitunpack 13 256 b)).
Proof. intros Hb Hl. apply (t0_unpack_list_spec 32); assumption. Qed.

Lemma t0_enc_rng c : t0_rng c -> in_bits 13 (bp_shift 4096 c).
Proof. unfold t0_rng, in_bits, bp_shift. pow_norm. lia. Qed.
Lemma t0_dec_rng v : in_bits 13 v -> t0_rng (bp_shift 4096 v).
Proof. unfold t0_rng, in_bits, bp_shift. pow_norm. lia. Qed.

Theorem t0_unpack_pack a b : Forall t0_rng a -> length a = 256%nat ->
  t0_pack_bytes a = Ok b -> t0_unpack b = Ok a.
Proof.
  apply gen_unpack_pack with (bits := 13) (ncoef := 256%nat) (kbytes := 416%nat) (enc := bp_shift 4096) (dec := bp_shift 4096);
    try (intros; apply t0_pack_spec; assumption); try exact t0_unpack_spec;
    try apply bp_shift_invol; try exact t0_enc_rng; lia.
Qed.

Theorem t0_unpack_total b : Forall is_byte b -> (416 <= length b)%nat ->
  exists a, t0_unpack b = Ok a /\ length a = 256%nat /\ Forall t0_rng a.
Proof.
  apply gen_unpack_total with (bits := 13) (ncoef := 256%nat) (kbytes := 416%nat) (dec := bp_shift 4096);
    try exact t0_unpack_spec; try exact t0_dec_rng; lia.
Qed.

Theorem t0_pack_unpack a b : Forall is_byte b -> length b = 416%nat ->
  t0_unpack b = Ok a -> t0_pack_bytes a = Ok b.
Proof.
  apply gen_pack_unpack with (bits := 13) (ncoef := 256%nat) (kbytes := 416%nat) (enc := bp_shift 4096) (dec := bp_shift 4096) (rng := t0_rng);
    try (intros; apply t0_pack_spec; assumption); try exact t0_unpack_spec;
    try apply bp_shift_invol; try exact t0_dec_rng; lia.
Qed.

Theorem t0_pack_splice r a : Forall t0_rng a -> length a = 256%nat -> (416 <= length r)%nat ->
  exists r', t0_pack r a = Ok r' /\ length r' = length r /\
             firstn 416 r' = S_bitpack 13 (map (bp_shift 4096) a) /\
             forall i, (416 <= i)%nat -> nth_error r' i = nth_error r i.
Proof.
  intros Hr Hl Hlr. destruct (t0_pack_spec a Hr Hl) as [Hp Hlen].
  exact (pack_splice_codec t0_pack_bytes r a _ _ Hp Hlen Hlr).
Qed.

(** * Restatement against the FIPS 204 functions themselves *)
Theorem z19_pack_fips a : Forall z19_rng a -> length a = 256%nat ->
  z_pack_bytes G19 a = Ok (BitPack a (G19 - 1) G19).
Proof.
  intros Hr Hl. rewrite BitPack_eq; [apply z19_pack_spec; assumption | | rewrite Hl; reflexivity].
  apply (Forall_map_intro z19_rng); [|exact Hr]. exact z19_enc_rng.
Qed.

Theorem z19_unpack_fips b : Forall is_byte b -> (640 <= length b)%nat ->
  z_unpack G19 b = Ok (BitUnpack b (G19 - 1) G19).
Proof.
  intros Hb Hl. unfold BitUnpack. rewrite BitUnpack_eq by exact Hb. apply z19_unpack_spec; assumption.
Qed.

Theorem z17_pack_fips a : Forall z17_rng a -> length a = 256%nat ->
  z_pack_bytes G17 a = Ok (BitPack a (G17 - 1) G17).
Proof.
  intros Hr Hl. rewrite BitPack_eq; [apply z17_pack_spec; assumption | | rewrite Hl; reflexivity].
  apply (Forall_map_intro z17_rng); [|exact Hr]. exact z17_enc_rng.
Qed.

Theorem z17_unpack_fips b : Forall is_byte b -> (576 <= length b)%nat ->
  z_unpack G17 b = Ok (BitUnpack b (G17 - 1) G17).
Proof.
  intros Hb Hl. unfold BitUnpack. rewrite BitUnpack_eq by exact Hb. apply z17_unpack_spec; assumption.
Qed.

Theorem t0_pack_fips a : Forall t0_rng a -> length a = 256%nat ->
  t0_pack_bytes a = Ok (BitPack a (2 ^ 12 - 1) (2 ^ 12)).
Proof.
  intros Hr Hl. rewrite BitPack_eq; [apply t0_pack_spec; assumption | | rewrite Hl; reflexivity].
  apply (Forall_map_intro t0_rng); [|exact Hr]. exact t0_enc_rng.
Qed.

Theorem t0_unpack_fips b : Forall is_byte b -> (416 <= length b)%nat ->
  t0_unpack b = Ok (BitUnpack b (2 ^ 12 - 1) (2 ^ 12)).
Proof.
  intros Hb Hl. unfold BitUnpack. rewrite BitUnpack_eq by exact Hb. apply t0_unpack_spec; assumption.
Qed.

Print Assumptions z19_pack_spec.
Print Assumptions z19_unpack_spec.
Print Assumptions z19_unpack_pack.
Print Assumptions z19_unpack_total.
Print Assumptions z19_pack_unpack.
Print Assumptions z19_pack_splice.
Print Assumptions z19_pack_fips.
Print Assumptions z19_unpack_fips.
Print Assumptions z17_pack_spec.
Print Assumptions z17_unpack_spec.
Print Assumptions z17_unpack_pack.
Print Assumptions z17_unpack_total.
Print Assumptions z17_pack_unpack.
Print Assumptions z17_pack_splice.
Print Assumptions z17_pack_fips.
Print Assumptions z17_unpack_fips.
Print Assumptions t0_pack_spec.
Print Assumptions t0_unpack_spec.
Print Assumptions t0_unpack_pack.
Print Assumptions t0_unpack_total.
Print Assumptions t0_pack_unpack.
Print Assumptions t0_pack_splice.
Print Assumptions t0_pack_fips.
Print Assumptions t0_unpack_fips.
