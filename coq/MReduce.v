(** L0 model of src/reduce.rs and src/params.rs constants. Definitions only. *)
From DV Require Import Base.

Definition Q : Z := 8380417.          (* params::Q = (1<<23) - (1<<13) + 1 *)
Definition QINV : Z := 58728449.      (* reduce::Q_INV *)
Definition NN : Z := 256.             (* params::N *)
Definition DD : Z := 13.              (* params::D *)

(** pub fn montgomery_reduce(a: i64) -> i32 *)
Definition montgomery_reduce (a : Z) : res Z :=
  let t := wrap 64 (i32_wrapping_mul (wrap 32 a) QINV) in   (* (a as i32).wrapping_mul(Q_INV) as i64 *)
  do d <- i64_sub a (i64_wrapping_mul t Q);                (* a as i64 - t.wrapping_mul(Q as i64) *)
  do s <- shr 64 d 32;                                       (* >> 32 *)
  Ok (wrap 32 s).                                            (* t as i32 *)

(** pub fn reduce32(a: i32) -> i32 *)
Definition reduce32 (a : Z) : res Z :=
  do u <- i32_add a 4194304;            (* a + (1 << 22) *)
  do t <- shr 32 u 23;
  i32_sub a (i32_wrapping_mul t Q).

(** pub fn caddq(a: i32) -> i32 *)
Definition caddq (a : Z) : res Z :=
  do s <- shr 32 a 31;
  i32_add a (Z.land s Q).
