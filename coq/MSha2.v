(** SHA-256 and SHA-512 (FIPS 180-4), used by the ML-DSA pre-hash wrappers (the crate calls the
    `sha2` crate; this is the model/specification side). Words are Z in [0, 2^w). *)
From DV Require Import Base.

Section Sha2.
  Variable w : Z.                      (* 32 or 64 *)
  Let M := Z.ones w.
  Definition addw (a b : Z) : Z := Z.land (a + b) M.
  Definition rotr (x n : Z) : Z := Z.lor (Z.shiftr x n) (Z.land (Z.shiftl x (w - n)) M).
  Definition notw (x : Z) : Z := Z.lxor x M.
  Definition ch (x y z : Z) := Z.lxor (Z.land x y) (Z.land (notw x) z).
  Definition maj (x y z : Z) := Z.lxor (Z.lxor (Z.land x y) (Z.land x z)) (Z.land y z).
  Variables (S0a S0b S0c S1a S1b S1c s0a s0b s0c s1a s1b s1c : Z).
  Definition bsig0 x := Z.lxor (Z.lxor (rotr x S0a) (rotr x S0b)) (rotr x S0c).
  Definition bsig1 x := Z.lxor (Z.lxor (rotr x S1a) (rotr x S1b)) (rotr x S1c).
  Definition ssig0 x := Z.lxor (Z.lxor (rotr x s0a) (rotr x s0b)) (Z.shiftr x s0c).
  Definition ssig1 x := Z.lxor (Z.lxor (rotr x s1a) (rotr x s1b)) (Z.shiftr x s1c).

  (** message schedule: [ws] holds the last 16 words, most recent first *)
  Fixpoint schedule (n : nat) (ws : list Z) (acc : list Z) : list Z :=
    match n with
    | O => rev acc
    | S n' =>
      match ws with
      | w1 :: w2 :: w3 :: w4 :: w5 :: w6 :: w7 :: w8 :: w9 :: w10 :: w11 :: w12 :: w13 :: w14 :: w15 :: w16 :: _ =>
        let nw := addw (addw (addw (ssig1 w2) w7) (ssig0 w15)) w16 in
        schedule n' (nw :: firstn 15 ws) (nw :: acc)
      | _ => rev acc
      end
    end.

  Definition round (st : list Z) (kw : Z * Z) : list Z :=
    match st with
    | [a; b; c; d; e; f; g; h] =>
      let t1 := addw (addw (addw (addw h (bsig1 e)) (ch e f g)) (fst kw)) (snd kw) in
      let t2 := addw (bsig0 a) (maj a b c) in
      [addw t1 t2; a; b; c; addw d t1; e; f; g]
    | _ => st
    end.

  Variable Kc : list Z.
  Definition be_word (bs : list Z) : Z := fold_left (fun acc b => acc * 256 + b) bs 0.
  Fixpoint words (nbytes : nat) (n : nat) (bs : list Z) : list Z :=
    match n with
    | O => []
    | S n' => be_word (firstn nbytes bs) :: words nbytes n' (skipn nbytes bs)
    end.

  Definition compress (st : list Z) (block : list Z) : list Z :=
    let wb := Z.to_nat (w / 8) in
    let w16 := words wb 16 block in
    let ws := w16 ++ schedule (length Kc - 16) (rev w16) [] in
    let st' := fold_left round (combine Kc ws) st in
    map (fun p => addw (fst p) (snd p)) (combine st st').

  Fixpoint blocks (n : nat) (bsz : nat) (st : list Z) (msg : list Z) : list Z :=
    match n with
    | O => st
    | S n' => blocks n' bsz (compress st (firstn bsz msg)) (skipn bsz msg)
    end.

  Fixpoint be_bytes (n : nat) (x : Z) : list Z :=
    match n with
    | O => []
    | S n' => be_bytes n' (Z.shiftr x 8) ++ [Z.land x 255]
    end.

  Definition digest (iv : list Z) (outwords : nat) (msg : list Z) : list Z :=
    let bsz := Z.to_nat (w * 16 / 8) in
    let lenbytes := Z.to_nat (w / 4) in        (* 8 for SHA-256, 16 for SHA-512 *)
    let l := length msg in
    let padzeros := Nat.modulo (bsz - Nat.modulo (l + 1 + lenbytes) bsz) bsz in
    let padded := msg ++ [128] ++ repeat 0 padzeros ++ be_bytes lenbytes (8 * Z.of_nat l) in
    let st := blocks (Nat.div (length padded) bsz) bsz iv padded in
    flat_map (be_bytes (Z.to_nat (w / 8))) (firstn outwords st).
End Sha2.

Definition K256 : list Z := [
 1116352408; 1899447441; 3049323471; 3921009573; 961987163; 1508970993; 2453635748; 2870763221;
 3624381080; 310598401; 607225278; 1426881987; 1925078388; 2162078206; 2614888103; 3248222580;
 3835390401; 4022224774; 264347078; 604807628; 770255983; 1249150122; 1555081692; 1996064986;
 2554220882; 2821834349; 2952996808; 3210313671; 3336571891; 3584528711; 113926993; 338241895;
 666307205; 773529912; 1294757372; 1396182291; 1695183700; 1986661051; 2177026350; 2456956037;
 2730485921; 2820302411; 3259730800; 3345764771; 3516065817; 3600352804; 4094571909; 275423344;
 430227734; 506948616; 659060556; 883997877; 958139571; 1322822218; 1537002063; 1747873779;
 1955562222; 2024104815; 2227730452; 2361852424; 2428436474; 2756734187; 3204031479; 3329325298].
Definition IV256 : list Z :=
 [1779033703; 3144134277; 1013904242; 2773480762; 1359893119; 2600822924; 528734635; 1541459225].

Definition K512 : list Z := [
 4794697086780616226; 8158064640168781261; 13096744586834688815; 16840607885511220156;
 4131703408338449720; 6480981068601479193; 10538285296894168987; 12329834152419229976;
 15566598209576043074; 1334009975649890238; 2608012711638119052; 6128411473006802146;
 8268148722764581231; 9286055187155687089; 11230858885718282805; 13951009754708518548;
 16472876342353939154; 17275323862435702243; 1135362057144423861; 2597628984639134821;
 3308224258029322869; 5365058923640841347; 6679025012923562964; 8573033837759648693;
 10970295158949994411; 12119686244451234320; 12683024718118986047; 13788192230050041572;
 14330467153632333762; 15395433587784984357; 489312712824947311; 1452737877330783856;
 2861767655752347644; 3322285676063803686; 5560940570517711597; 5996557281743188959;
 7280758554555802590; 8532644243296465576; 9350256976987008742; 10552545826968843579;
 11727347734174303076; 12113106623233404929; 14000437183269869457; 14369950271660146224;
 15101387698204529176; 15463397548674623760; 17586052441742319658; 1182934255886127544;
 1847814050463011016; 2177327727835720531; 2830643537854262169; 3796741975233480872;
 4115178125766777443; 5681478168544905931; 6601373596472566643; 7507060721942968483;
 8399075790359081724; 8693463985226723168; 9568029438360202098; 10144078919501101548;
 10430055236837252648; 11840083180663258601; 13761210420658862357; 14299343276471374635;
 14566680578165727644; 15097957966210449927; 16922976911328602910; 17689382322260857208;
 500013540394364858; 748580250866718886; 1242879168328830382; 1977374033974150939;
 2944078676154940804; 3659926193048069267; 4368137639120453308; 4836135668995329356;
 5532061633213252278; 6448918945643986474; 6902733635092675308; 7801388544844847127].
Definition IV512 : list Z :=
 [7640891576956012808; 13503953896175478587; 4354685564936845355; 11912009170470909681;
  5840696475078001361; 11170449401992604703; 2270897969802886507; 6620516959819538809].

Definition sha256 (msg : list Z) : list Z :=
  digest 32 2 13 22 6 11 25 7 18 3 17 19 10 K256 IV256 8 msg.
Definition sha512 (msg : list Z) : list Z :=
  digest 64 28 34 39 14 18 41 1 8 7 19 61 6 K512 IV512 8 msg.
