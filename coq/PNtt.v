(** Proofs for C13 (part 1): the number-theoretic transform of MNtt.v.
    - parametricity of the generic butterfly network (per layer, heterogeneous relation);
    - the model instance ([res Z], checked arithmetic) is related to a "linear form" instance
      ([list Z]: coefficient vector modulo Q of each wire as a function of the 256 inputs),
      by a relation that carries BOTH the no-overflow bound and the congruence;
    - the matrices of the two networks are closed terms, evaluated by [vm_compute];
    - [ntt_ok], [invntt_ok], [zetas_ok] and companions.
    The multiplication theorem (C13 (3)) is in PNtt2.v. *)
From Coq Require Import Setoid Morphisms.
From DV Require Import Base Gen MReduce MNtt MPoly PReduce.

Local Ltac Zify.zify_post_hook ::= Z.div_mod_to_equations.

(** * 0. Congruence modulo Q as a setoid *)
Definition eqm (x y : Z) : Prop := x mod Q = y mod Q.

#[global] Instance eqm_equiv : Equivalence eqm.
Proof.
  split; unfold eqm.
  - intros x; reflexivity.
  - intros x y H; symmetry; exact H.
  - intros x y z H1 H2; congruence.
Qed.
#[global] Instance eqm_add : Proper (eqm ==> eqm ==> eqm) Z.add.
Proof. intros a a' Ha b b' Hb. unfold eqm in *. rewrite Zplus_mod, Ha, Hb, <- Zplus_mod. reflexivity. Qed.
#[global] Instance eqm_sub : Proper (eqm ==> eqm ==> eqm) Z.sub.
Proof. intros a a' Ha b b' Hb. unfold eqm in *. rewrite Zminus_mod, Ha, Hb, <- Zminus_mod. reflexivity. Qed.
#[global] Instance eqm_mul : Proper (eqm ==> eqm ==> eqm) Z.mul.
Proof. intros a a' Ha b b' Hb. unfold eqm in *. rewrite Zmult_mod, Ha, Hb, <- Zmult_mod. reflexivity. Qed.

Lemma eqm_mod x : eqm (x mod Q) x.
Proof. unfold eqm. apply Z.mod_mod. unfold Q; lia. Qed.

Lemma eqm_sub0 x y : eqm x y <-> (x - y) mod Q = 0.
Proof. unfold eqm, Q. split; intros H; lia. Qed.

Lemma eqm_eq x y : x = y -> eqm x y.
Proof. intros ->; reflexivity. Qed.

(** * 1. List lemmas *)
Section F2.
  Context {A B : Type} (R : A -> B -> Prop).
  Lemma F2_firstn n : forall l1 l2, Forall2 R l1 l2 -> Forall2 R (firstn n l1) (firstn n l2).
  Proof.
    induction n as [|n IH]; intros l1 l2 H; [constructor|].
    destruct H; cbn [firstn]; constructor; auto.
  Qed.
  Lemma F2_skipn n : forall l1 l2, Forall2 R l1 l2 -> Forall2 R (skipn n l1) (skipn n l2).
  Proof.
    induction n as [|n IH]; intros l1 l2 H; [exact H|].
    destruct H; cbn [skipn]; [constructor| auto].
  Qed.
  Lemma F2_nth d1 d2 : forall l1 l2, Forall2 R l1 l2 ->
    forall i, (i < length l1)%nat -> R (nth i l1 d1) (nth i l2 d2).
  Proof.
    induction 1 as [|x y l1 l2 Hxy H IH]; intros i Hi; cbn [length] in Hi; [lia|].
    destruct i as [|i]; cbn [nth]; [exact Hxy| apply IH; lia].
  Qed.
  Lemma F2_length l1 l2 : Forall2 R l1 l2 -> length l1 = length l2.
  Proof. induction 1; cbn [length]; congruence. Qed.
End F2.

Lemma F2_impl {A B} (R R' : A -> B -> Prop) l1 l2 :
  (forall x y, R x y -> R' x y) -> Forall2 R l1 l2 -> Forall2 R' l1 l2.
Proof. intros H; induction 1; constructor; auto. Qed.

Lemma F2_map_r {A B C} (R : A -> C -> Prop) (f : B -> C) l1 l2 :
  Forall2 (fun x y => R x (f y)) l1 l2 -> Forall2 R l1 (map f l2).
Proof. induction 1; cbn [map]; constructor; auto. Qed.

Lemma F2_map_l {A B C} (R : C -> B -> Prop) (f : A -> C) l1 l2 :
  Forall2 (fun x y => R (f x) y) l1 l2 -> Forall2 R (map f l1) l2.
Proof. induction 1; cbn [map]; constructor; auto. Qed.

Lemma map2_map_r {T} (g : T -> T -> T) (m : T -> T) : forall lo hi,
  map2 g lo (map m hi) = map2 (fun x y => g x (m y)) lo hi.
Proof. induction lo as [|x lo IH]; intros [|y hi]; cbn [map map2]; f_equal; auto. Qed.

Lemma map_map2 {T} (g : T -> T -> T) (m : T -> T) : forall lo hi,
  map m (map2 g lo hi) = map2 (fun x y => m (g x y)) lo hi.
Proof. induction lo as [|x lo IH]; intros [|y hi]; cbn [map map2]; f_equal; auto. Qed.

Lemma map2_length {T} (g : T -> T -> T) : forall l1 l2, length l1 = length l2 ->
  length (map2 g l1 l2) = length l1.
Proof. induction l1 as [|x l1 IH]; intros [|y l2]; cbn [map2 length]; intros H; try lia. rewrite IH; lia. Qed.

(** * 2. Parametricity of one layer of the network (relation may change across the layer) *)
Section Param.
  Context {T1 T2 : Type}.
  Variables (R R' : T1 -> T2 -> Prop).

  Lemma F2_map2 (g1 : T1 -> T1 -> T1) (g2 : T2 -> T2 -> T2) :
    (forall x1 x2 y1 y2, R x1 x2 -> R y1 y2 -> R' (g1 x1 y1) (g2 x2 y2)) ->
    forall lo1 lo2, Forall2 R lo1 lo2 -> forall hi1 hi2, Forall2 R hi1 hi2 ->
    Forall2 R' (map2 g1 lo1 hi1) (map2 g2 lo2 hi2).
  Proof.
    intros Hg lo1 lo2 Hlo. induction Hlo as [|x1 x2 lo1 lo2 Hx Hlo IH]; intros hi1 hi2 Hhi.
    - constructor.
    - destruct Hhi as [|y1 y2 hi1 hi2 Hy Hhi]; cbn [map2]; constructor; auto.
  Qed.

  Variables (add1 sub1 : T1 -> T1 -> T1) (mulz1 : Z -> T1 -> T1).
  Variables (add2 sub2 : T2 -> T2 -> T2) (mulz2 : Z -> T2 -> T2).

  Definition bf_rel (bf1 : Z -> list T1 -> list T1 -> list T1) (bf2 : Z -> list T2 -> list T2 -> list T2) :=
    forall k lo1 lo2 hi1 hi2, Forall2 R lo1 lo2 -> Forall2 R hi1 hi2 ->
      Forall2 R' (bf1 k lo1 hi1) (bf2 k lo2 hi2).

  Lemma blocks_param bf1 bf2 : bf_rel bf1 bf2 ->
    forall n len k step l1 l2, Forall2 R l1 l2 ->
      Forall2 R' (blocks bf1 n len k step l1) (blocks bf2 n len k step l2).
  Proof.
    intros Hbf. induction n as [|n IH]; intros len k step l1 l2 H; cbn [blocks]; [constructor|].
    apply Forall2_app.
    - apply Hbf; repeat (apply F2_firstn || apply F2_skipn); exact H.
    - apply IH. apply F2_skipn. exact H.
  Qed.

  Lemma fwd_layer_param :
    (forall k x1 x2 y1 y2, R x1 x2 -> R y1 y2 ->
       R' (add1 x1 (mulz1 k y1)) (add2 x2 (mulz2 k y2)) /\ R' (sub1 x1 (mulz1 k y1)) (sub2 x2 (mulz2 k y2))) ->
    forall n len l1 l2, Forall2 R l1 l2 ->
      Forall2 R' (fwd_layer add1 sub1 mulz1 n len l1) (fwd_layer add2 sub2 mulz2 n len l2).
  Proof.
    intros Hbf n len l1 l2 H. unfold fwd_layer. apply blocks_param; [|exact H].
    intros k lo1 lo2 hi1 hi2 Hlo Hhi. unfold bf_fwd. rewrite !map2_map_r.
    apply Forall2_app; apply F2_map2; auto; intros; apply Hbf; auto.
  Qed.

  Lemma inv_layer_param :
    (forall k x1 x2 y1 y2, R x1 x2 -> R y1 y2 ->
       R' (add1 x1 y1) (add2 x2 y2) /\ R' (mulz1 k (sub1 x1 y1)) (mulz2 k (sub2 x2 y2))) ->
    forall n len l1 l2, Forall2 R l1 l2 ->
      Forall2 R' (inv_layer add1 sub1 mulz1 n len l1) (inv_layer add2 sub2 mulz2 n len l2).
  Proof.
    intros Hbf n len l1 l2 H. unfold inv_layer. apply blocks_param; [|exact H].
    intros k lo1 lo2 hi1 hi2 Hlo Hhi. unfold bf_inv. rewrite !map_map2.
    apply Forall2_app; apply F2_map2; auto; intros; eapply Hbf; eauto.
  Qed.
End Param.

(** Plain parametricity of the two complete networks (one relation throughout). *)
Section ParamNet.
  Context {T1 T2 : Type} (R : T1 -> T2 -> Prop).
  Variables (add1 sub1 : T1 -> T1 -> T1) (mulz1 : Z -> T1 -> T1).
  Variables (add2 sub2 : T2 -> T2 -> T2) (mulz2 : Z -> T2 -> T2).
  Hypothesis Hadd : forall x1 x2 y1 y2, R x1 x2 -> R y1 y2 -> R (add1 x1 y1) (add2 x2 y2).
  Hypothesis Hsub : forall x1 x2 y1 y2, R x1 x2 -> R y1 y2 -> R (sub1 x1 y1) (sub2 x2 y2).
  Hypothesis Hmul : forall k x1 x2, R x1 x2 -> R (mulz1 k x1) (mulz2 k x2).

  Theorem ntt_net_param l1 l2 : Forall2 R l1 l2 ->
    Forall2 R (ntt_net add1 sub1 mulz1 l1) (ntt_net add2 sub2 mulz2 l2).
  Proof.
    intros H. unfold ntt_net.
    repeat (apply (fwd_layer_param R R); [intros; split; auto|]). exact H.
  Qed.

  Theorem invntt_net_param l1 l2 : Forall2 R l1 l2 ->
    Forall2 R (invntt_net add1 sub1 mulz1 l1) (invntt_net add2 sub2 mulz2 l2).
  Proof.
    intros H. unfold invntt_net.
    repeat (apply (inv_layer_param R R); [intros; split; auto|]). exact H.
  Qed.
End ParamNet.

Lemma F2_True {A B} : forall (l1 : list A) (l2 : list B), length l1 = length l2 ->
  Forall2 (fun _ _ => True) l1 l2.
Proof. induction l1 as [|x l1 IH]; intros [|y l2] H; cbn [length] in H; try lia; constructor; auto. Qed.

Lemma ntt_net_length {T} (add sub : T -> T -> T) mulz l : length l = 256%nat ->
  length (ntt_net add sub mulz l) = 256%nat.
Proof.
  intros H.
  assert (H0 : Forall2 (fun _ _ => True) l (repeat tt 256)) by (apply F2_True; rewrite repeat_length; exact H).
  apply (ntt_net_param _ add sub mulz (fun _ _ => tt) (fun _ _ => tt) (fun _ _ => tt)) in H0; auto.
  rewrite (F2_length _ _ _ H0). reflexivity.
Qed.

Lemma invntt_net_length {T} (add sub : T -> T -> T) mulz l : length l = 256%nat ->
  length (invntt_net add sub mulz l) = 256%nat.
Proof.
  intros H.
  assert (H0 : Forall2 (fun _ _ => True) l (repeat tt 256)) by (apply F2_True; rewrite repeat_length; exact H).
  apply (invntt_net_param _ add sub mulz (fun _ _ => tt) (fun _ _ => tt) (fun _ _ => tt)) in H0; auto.
  rewrite (F2_length _ _ _ H0). reflexivity.
Qed.

Lemma F2_of_nth {A B} (R : A -> B -> Prop) d1 d2 : forall l1 l2, length l1 = length l2 ->
  (forall i, (i < length l1)%nat -> R (nth i l1 d1) (nth i l2 d2)) -> Forall2 R l1 l2.
Proof.
  induction l1 as [|x l1 IH]; intros [|y l2] L H; cbn [length] in *; try lia; constructor.
  - apply (H 0%nat). lia.
  - apply IH; [lia|]. intros i Hi. apply (H (S i)). lia.
Qed.

(** * 3. Linear forms: vectors of coefficients modulo Q *)
Fixpoint dot (t a : list Z) : Z :=
  match t, a with
  | x :: t', y :: a' => x * y + dot t' a'
  | _, _ => 0
  end.

Definition addq (x y : Z) : Z := let s := x + y in if s <? Q then s else s - Q.
Definition subq (x y : Z) : Z := let s := x - y in if s <? 0 then s + Q else s.
Definition scale (s : Z) (t : list Z) : list Z := map (fun c => (s * c) mod Q) t.

Lemma addq_eqm x y : eqm (addq x y) (x + y).
Proof. unfold addq, eqm. cbv zeta. destruct (x + y <? Q); [reflexivity|]. unfold Q; lia. Qed.
Lemma subq_eqm x y : eqm (subq x y) (x - y).
Proof. unfold subq, eqm. cbv zeta. destruct (x - y <? 0); [|reflexivity]. unfold Q; lia. Qed.

Lemma dot_add : forall t u a, length t = length u -> eqm (dot (map2 addq t u) a) (dot t a + dot u a).
Proof.
  induction t as [|x t IH]; intros [|y u] [|c a] H; cbn [map2 dot length] in *; try reflexivity; try lia.
  rewrite IH by lia. rewrite addq_eqm. apply eqm_eq. ring.
Qed.
Lemma dot_sub : forall t u a, length t = length u -> eqm (dot (map2 subq t u) a) (dot t a - dot u a).
Proof.
  induction t as [|x t IH]; intros [|y u] [|c a] H; cbn [map2 dot length] in *; try reflexivity; try lia.
  rewrite IH by lia. rewrite subq_eqm. apply eqm_eq. ring.
Qed.
Lemma dot_scale s : forall t a, eqm (dot (scale s t) a) (s * dot t a).
Proof.
  unfold scale. induction t as [|x t IH]; intros [|c a]; cbn [map dot]; try (apply eqm_eq; ring).
  rewrite IH. rewrite eqm_mod. apply eqm_eq. ring.
Qed.
Lemma scale_length s t : length (scale s t) = length t.
Proof. apply map_length. Qed.

(** unit vectors *)
Fixpoint units (n : nat) : list (list Z) :=
  match n with
  | O => []
  | S n' => (1 :: repeat 0 n') :: map (cons 0) (units n')
  end.

Lemma dot_zeros n : forall a, dot (repeat 0 n) a = 0.
Proof. induction n as [|n IH]; intros [|c a]; cbn [repeat dot]; auto. rewrite IH; lia. Qed.

Lemma units_spec : forall a, Forall2 (fun z t => length t = length a /\ dot t a = z) a (units (length a)).
Proof.
  induction a as [|c a IH]; cbn [length units]; constructor.
  - cbn [length dot]. rewrite repeat_length, dot_zeros. split; lia.
  - apply F2_map_r. eapply F2_impl; [|exact IH].
    cbn beta. intros z t [H1 H2]. cbn [length dot]. split; lia.
Qed.

(** * 4. Constants of the linear instances *)
Definition WINV : Z := 8265825.        (* 2^-32 mod Q *)
Lemma winv_ok : (WINV * 2 ^ 32) mod Q = 1. Proof. reflexivity. Qed.

Definition zf (k : Z) : Z := (zeta k * WINV) mod Q.
Definition zi (k : Z) : Z := (- zeta k * WINV) mod Q.
Definition addL : list Z -> list Z -> list Z := map2 addq.
Definition subL : list Z -> list Z -> list Z := map2 subq.
Definition mulL_fwd (k : Z) : list Z -> list Z := scale (zf k).
Definition mulL_inv (k : Z) : list Z -> list Z := scale (zi k).

Lemma mont_eqm r a : cong Q (r * 2 ^ 32) a -> eqm r (a * WINV).
Proof.
  intros H. change (eqm (r * 2 ^ 32) a) in H. rewrite <- H.
  replace (r * 2 ^ 32 * WINV) with (r * (WINV * 2 ^ 32)) by ring.
  assert (E : eqm (WINV * 2 ^ 32) 1) by reflexivity.
  rewrite E. apply eqm_eq; ring.
Qed.

Lemma zeta_bound k : - 4190208 <= zeta k <= 4190208.
Proof.
  assert (H : forallb (fun z => (-4190208 <=? z) && (z <=? 4190208)) ZETAS = true) by (vm_compute; reflexivity).
  rewrite forallb_forall in H. unfold zeta.
  destruct (nth_in_or_default (Z.to_nat k) ZETAS 0) as [Hin | ->]; [|lia].
  apply H in Hin. lia.
Qed.

Lemma mul_bound z y c d : - c <= z <= c -> - d <= y <= d -> - (c * d) <= z * y <= c * d.
Proof. intros Hz Hy. nia. Qed.

(** * 5. The relation between the model wire and its linear form *)
Definition Rel (b : list Z) (B : Z) (x : res Z) (t : list Z) : Prop :=
  exists z, x = Ok z /\ - B < z < B /\ length t = length b /\ eqm z (dot t b).

Lemma Rel_weaken b B B' x t : B <= B' -> Rel b B x t -> Rel b B' x t.
Proof. intros HB (z & E & Bz & L & C). exists z. repeat split; auto; lia. Qed.

(** the Montgomery product by a (possibly negated) table entry *)
Lemma mont_zeta_mul (z y : Z) : - 4190208 <= z <= 4190208 -> - 2 ^ 31 <= y <= 2 ^ 31 ->
  exists r, montgomery_reduce (i64_wrapping_mul z y) = Ok r /\ eqm r (z * WINV * y) /\ - Q < r < Q.
Proof.
  intros Hz Hy. change (2 ^ 31) with 2147483648 in Hy.
  pose proof (mul_bound z y 4190208 2147483648 Hz Hy) as Hp.
  unfold i64_wrapping_mul. rewrite wrap_id by (try rewrite two63; lia).
  destruct (mont_ok (z * y)) as (r & E & C & Br).
  { change (2 ^ 31) with 2147483648. unfold Q. lia. }
  exists r. repeat split; try apply Br; auto.
  rewrite (mont_eqm _ _ C). apply eqm_eq; ring.
Qed.

Lemma fwd_bf_rel b B : B + Q <= 2 ^ 31 ->
  forall k x1 t1 y1 u1, Rel b B x1 t1 -> Rel b B y1 u1 ->
    Rel b (B + Q) (lift2 i32_add x1 (mulz_fwd k y1)) (addL t1 (mulL_fwd k u1)) /\
    Rel b (B + Q) (lift2 i32_sub x1 (mulz_fwd k y1)) (subL t1 (mulL_fwd k u1)).
Proof.
  intros HB k x1 t1 y1 u1 (x & -> & Bx & Lx & Cx) (y & -> & By & Ly & Cy).
  change (2 ^ 31) with 2147483648 in HB.
  destruct (mont_zeta_mul (zeta k) y (zeta_bound k)) as (r & E & Cr & Br).
  { change (2 ^ 31) with 2147483648. unfold Q in *. lia. }
  unfold mulz_fwd, lift2, i32_add, i32_sub. cbn [bind]. rewrite E. cbn [bind].
  rewrite !chk_s_ok by (rewrite two31; unfold Q in *; lia).
  unfold addL, subL, mulL_fwd, zf.
  split.
  - exists (x + r). repeat split; try (unfold Q in *; lia).
    + rewrite map2_length; rewrite ?scale_length; congruence.
    + rewrite dot_add by (rewrite scale_length; congruence).
      rewrite dot_scale, eqm_mod, Cx, Cr, Cy. apply eqm_eq; ring.
  - exists (x - r). repeat split; try (unfold Q in *; lia).
    + rewrite map2_length; rewrite ?scale_length; congruence.
    + rewrite dot_sub by (rewrite scale_length; congruence).
      rewrite dot_scale, eqm_mod, Cx, Cr, Cy. apply eqm_eq; ring.
Qed.

Lemma inv_bf_rel b B : Q <= B -> B + B <= 2 ^ 31 ->
  forall k x1 t1 y1 u1, Rel b B x1 t1 -> Rel b B y1 u1 ->
    Rel b (B + B) (lift2 i32_add x1 y1) (addL t1 u1) /\
    Rel b (B + B) (mulz_inv k (lift2 i32_sub x1 y1)) (mulL_inv k (subL t1 u1)).
Proof.
  intros HB0 HB k x1 t1 y1 u1 (x & -> & Bx & Lx & Cx) (y & -> & By & Ly & Cy).
  change (2 ^ 31) with 2147483648 in HB. unfold Q in HB0.
  pose proof (zeta_bound k) as Hz.
  destruct (mont_zeta_mul (- zeta k) (x - y)) as (r & E & Cr & Br); [lia| change (2 ^ 31) with 2147483648; lia |].
  unfold mulz_inv, lift2, i32_add, i32_sub, i32_neg. cbn [bind].
  rewrite !chk_s_ok by (rewrite two31; lia). cbn [bind].
  rewrite E.
  unfold addL, subL, mulL_inv, zi.
  split.
  - exists (x + y). repeat split; try lia.
    + rewrite map2_length; congruence.
    + rewrite dot_add by congruence. rewrite Cx, Cy. reflexivity.
  - exists r. repeat split.
    + unfold Q in *; lia.
    + unfold Q in *; lia.
    + rewrite scale_length, map2_length; congruence.
    + rewrite dot_scale, eqm_mod, dot_sub by congruence. rewrite Cr, Cx, Cy. reflexivity.
Qed.

Lemma fwd_layer_rel b B n len l1 l2 : B + Q <= 2 ^ 31 ->
  Forall2 (Rel b B) l1 l2 ->
  Forall2 (Rel b (B + Q)) (fwd_layer (lift2 i32_add) (lift2 i32_sub) mulz_fwd n len l1)
                          (fwd_layer addL subL mulL_fwd n len l2).
Proof. intros HB. apply fwd_layer_param. intros; apply fwd_bf_rel; auto. Qed.

Lemma inv_layer_rel b B n len l1 l2 : Q <= B -> B + B <= 2 ^ 31 ->
  Forall2 (Rel b B) l1 l2 ->
  Forall2 (Rel b (B + B)) (inv_layer (lift2 i32_add) (lift2 i32_sub) mulz_inv n len l1)
                          (inv_layer addL subL mulL_inv n len l2).
Proof. intros HB0 HB. apply inv_layer_param. intros; apply inv_bf_rel; auto. Qed.

Definition Rel' (b : list Z) (B : Z) (z : Z) (t : list Z) : Prop :=
  - B < z < B /\ length t = length b /\ eqm z (dot t b).

Lemma sequence_rel b B xs M : Forall2 (Rel b B) xs M ->
  exists r, sequence xs = Ok r /\ Forall2 (Rel' b B) r M.
Proof.
  induction 1 as [|x t xs M (z & -> & H) _ (r & E & IH)]; cbn [sequence].
  - exists []. split; [reflexivity | constructor].
  - rewrite E. cbn [bind]. exists (z :: r). split; [reflexivity|]. constructor; auto.
Qed.

Lemma Rel_init b B a M : Forall (fun x => - B < x < B) a ->
  Forall2 (fun z t => length t = length b /\ eqm z (dot t b)) a M ->
  Forall2 (Rel b B) (map Ok a) M.
Proof.
  intros Ha H. induction H as [|z t a M (L & C) H IH]; cbn [map]; constructor.
  - exists z. inversion Ha; subst. auto.
  - apply IH. inversion Ha; auto.
Qed.

(** * 6. Specification-level definitions *)
(** Horner evaluation: eval [a0;a1;...] w = a0 + a1 w + a2 w^2 + ... *)
Definition eval (a : list Z) (w : Z) : Z := fold_right (fun c acc => c + w * acc) 0 a.

Definition bit (i b : Z) : Z := if Z.testbit i b then 1 else 0.
(** 8-bit bit reversal *)
Definition brv8 (i : Z) : Z :=
  128 * bit i 0 + 64 * bit i 1 + 32 * bit i 2 + 16 * bit i 3 + 8 * bit i 4 + 4 * bit i 5 + 2 * bit i 6 + bit i 7.
(** the i-th evaluation point of the transform: 1753^(2 brv8(i) + 1) mod Q *)
Definition root (i : nat) : Z := 1753 ^ (2 * brv8 (Z.of_nat i) + 1) mod Q.

(** [x; x w; x w^2; ...] modulo Q *)
Fixpoint pows (w : Z) (n : nat) (x : Z) : list Z :=
  match n with
  | O => []
  | S n' => x :: pows w n' ((x * w) mod Q)
  end.

Lemma dot_pows w : forall a x, eqm (dot (pows w (length a) x) a) (x * eval a w).
Proof.
  induction a as [|c a IH]; intros x; cbn [length pows dot eval fold_right].
  - apply eqm_eq; ring.
  - fold (eval a w). rewrite IH, eqm_mod. apply eqm_eq; ring.
Qed.
Lemma pows_length w : forall n x, length (pows w n x) = n.
Proof. induction n as [|n IH]; intros x; cbn [pows length]; auto. Qed.

(** the Vandermonde matrix of the 256 roots, modulo Q *)
Definition V : list (list Z) := map (fun i => pows (root i) 256 1) (seq 0 256).

(** Fast (table-based) computation of the same matrix, for [vm_compute] only. *)
Definition froot_in (tab : list Z) (i : nat) : Z := nth (Z.to_nat (2 * brv8 (Z.of_nat i) + 1)) tab 0.
Definition Vf : list (list Z) :=
  let tab := pows 1753 512 1 in map (fun i => pows (froot_in tab i) 256 1) (seq 0 256).

Lemma nth_pows w : forall n e x, (e < n)%nat -> 0 <= x < Q ->
  nth e (pows w n x) 0 = (x * w ^ Z.of_nat e) mod Q.
Proof.
  induction n as [|n IH]; intros e x He Hx; [lia|]. cbn [pows].
  destruct e as [|e]; cbn [nth].
  - change (Z.of_nat 0) with 0. rewrite Z.pow_0_r, Z.mul_1_r, Z.mod_small; auto.
  - rewrite IH; [| lia | apply Z.mod_pos_bound; unfold Q; lia].
    rewrite Nat2Z.inj_succ, Z.pow_succ_r by lia.
    rewrite Zmult_mod_idemp_l. f_equal. ring.
Qed.

Lemma brv8_range i : 0 <= brv8 i <= 255.
Proof. unfold brv8, bit. repeat match goal with |- context [Z.testbit ?a ?b] => destruct (Z.testbit a b) end; lia. Qed.

Lemma froot_ok i : froot_in (pows 1753 512 1) i = root i.
Proof.
  unfold froot_in, root. pose proof (brv8_range (Z.of_nat i)) as Hb.
  rewrite nth_pows; [| lia | unfold Q; lia].
  rewrite Z2Nat.id by lia. rewrite Z.mul_1_l. reflexivity.
Qed.

Lemma Vf_ok : Vf = V.
Proof. unfold Vf, V. cbv zeta. apply map_ext. intros i. rewrite froot_ok. reflexivity. Qed.

(** The matrix of the forward network IS the Vandermonde matrix (closed computation). *)
Lemma fwd_matrix_f : ntt_net addL subL mulL_fwd (units 256) = Vf.
Proof. vm_cast_no_check (eq_refl Vf). Time Qed.

Lemma fwd_matrix : ntt_net addL subL mulL_fwd (units 256) = V.
Proof. rewrite fwd_matrix_f. apply Vf_ok. Qed.

Lemma V_row i d : (i < 256)%nat -> nth i V d = pows (root i) 256 1.
Proof.
  intros Hi. unfold V. rewrite (nth_indep _ d (pows (root 0%nat) 256 1)) by (rewrite map_length, seq_length; exact Hi).
  rewrite (map_nth (fun i => pows (root i) 256 1)). rewrite seq_nth by exact Hi. reflexivity.
Qed.

Lemma F2_Forall_l {A B} (R : A -> B -> Prop) (P : A -> Prop) l1 l2 :
  (forall x y, R x y -> P x) -> Forall2 R l1 l2 -> Forall P l1.
Proof. intros H; induction 1; constructor; eauto. Qed.

Lemma ntt_unfold a : length a = 256%nat ->
  ntt a = sequence (ntt_net (lift2 i32_add) (lift2 i32_sub) mulz_fwd (map Ok a)).
Proof. intros H. unfold ntt, zlen. rewrite H. reflexivity. Qed.

(** * 7. C13 (1): forward transform *)
Lemma ntt_net_rel b B l1 l2 M : B + 8 * Q <= 2 ^ 31 ->
  Forall2 (Rel b B) l1 l2 -> ntt_net addL subL mulL_fwd l2 = M ->
  Forall2 (Rel b (B + 8 * Q)) (ntt_net (lift2 i32_add) (lift2 i32_sub) mulz_fwd l1) M.
Proof.
  intros HB H0 <-. assert (HQ : 0 < Q) by (unfold Q; lia).
  change (2 ^ 31) with 2147483648 in HB.
  assert (HL : forall B', B' + Q <= B + 8 * Q -> B' + Q <= 2 ^ 31)
    by (intros B' HB'; change (2 ^ 31) with 2147483648; lia).
  unfold ntt_net.
  apply (fwd_layer_rel _ _ 1 128) in H0; [|apply HL; lia]. apply (fwd_layer_rel _ _ 2 64) in H0; [|apply HL; lia].
  apply (fwd_layer_rel _ _ 4 32) in H0; [|apply HL; lia]. apply (fwd_layer_rel _ _ 8 16) in H0; [|apply HL; lia].
  apply (fwd_layer_rel _ _ 16 8) in H0; [|apply HL; lia]. apply (fwd_layer_rel _ _ 32 4) in H0; [|apply HL; lia].
  apply (fwd_layer_rel _ _ 64 2) in H0; [|apply HL; lia]. apply (fwd_layer_rel _ _ 128 1) in H0; [|apply HL; lia].
  eapply F2_impl; [|exact H0]. intros x t. apply Rel_weaken. lia.
Qed.

Theorem ntt_ok_gen a B :
  length a = 256%nat -> B + 8 * Q <= 2 ^ 31 -> Forall (fun x => - B < x < B) a ->
  exists r, ntt a = Ok r /\ length r = 256%nat /\
    Forall (fun x => - (B + 8 * Q) < x < B + 8 * Q) r /\
    forall i, (i < 256)%nat -> (nth i r 0 - eval a (root i)) mod Q = 0.
Proof.
  intros La HB Ha. rewrite ntt_unfold by exact La.
  assert (H0 : Forall2 (Rel a B) (map Ok a) (units (length a))).
  { apply Rel_init; [exact Ha|]. eapply F2_impl; [|apply units_spec].
    cbn beta. intros z t [L E]. split; [exact L | apply eqm_eq; auto]. }
  rewrite La in H0.
  pose proof (ntt_net_rel a B _ _ V HB H0 fwd_matrix) as H1.
  apply sequence_rel in H1 as (r & E & H).
  exists r. split; [exact E|].
  assert (Lr : length r = 256%nat).
  { rewrite (F2_length _ _ _ H). unfold V. rewrite map_length, seq_length. reflexivity. }
  split; [exact Lr|]. split.
  - eapply F2_Forall_l; [|exact H]. cbn beta. intros x y (Bx & _). exact Bx.
  - intros i Hi. apply eqm_sub0.
    pose proof (F2_nth _ 0 [] _ _ H i ltac:(lia)) as (_ & _ & C).
    rewrite V_row in C by exact Hi. rewrite C.
    rewrite <- La at 1. rewrite dot_pows. apply eqm_eq; ring.
Qed.

Theorem ntt_ok a :
  length a = 256%nat -> Forall (fun x => - Q < x < Q) a ->
  exists r, ntt a = Ok r /\ length r = 256%nat /\
    Forall (fun x => - 9 * Q < x < 9 * Q) r /\
    forall i, (i < 256)%nat -> (nth i r 0 - eval a (root i)) mod Q = 0.
Proof.
  intros La Ha. destruct (ntt_ok_gen a Q La) as (r & E & L & Br & C); [unfold Q; lia | exact Ha |].
  exists r. repeat split; auto.
Qed.

(** * 8. C13 (2): inverse transform *)
Definition FS : Z := (FF * WINV) mod Q.
Definition R32 : Z := 4193792.          (* 2^32 mod Q *)
Lemma R32_ok : R32 = 2 ^ 32 mod Q. Proof. reflexivity. Qed.

Lemma invntt_net_rel b B l1 l2 : Q <= B -> 256 * B <= 2 ^ 31 ->
  Forall2 (Rel b B) l1 l2 ->
  Forall2 (Rel b (256 * B)) (invntt_net (lift2 i32_add) (lift2 i32_sub) mulz_inv l1)
                            (invntt_net addL subL mulL_inv l2).
Proof.
  intros HQ HB H0. change (2 ^ 31) with 2147483648 in HB.
  assert (HL : forall B', B' + B' <= 256 * B -> B' + B' <= 2 ^ 31)
    by (intros B' HB'; change (2 ^ 31) with 2147483648; lia).
  assert (HQ0 : 0 < Q) by (unfold Q; lia).
  unfold invntt_net.
  apply (inv_layer_rel _ _ 128 1) in H0; [| lia | apply HL; lia]. apply (inv_layer_rel _ _ 64 2) in H0; [| lia | apply HL; lia].
  apply (inv_layer_rel _ _ 32 4) in H0; [| lia | apply HL; lia]. apply (inv_layer_rel _ _ 16 8) in H0; [| lia | apply HL; lia].
  apply (inv_layer_rel _ _ 8 16) in H0; [| lia | apply HL; lia]. apply (inv_layer_rel _ _ 4 32) in H0; [| lia | apply HL; lia].
  apply (inv_layer_rel _ _ 2 64) in H0; [| lia | apply HL; lia]. apply (inv_layer_rel _ _ 1 128) in H0; [| lia | apply HL; lia].
  eapply F2_impl; [|exact H0]. intros x t. apply Rel_weaken. lia.
Qed.

(** the final scaling by F = 2^64/256 (a Montgomery product) *)
Lemma final_scale_rel b B r M : B <= 2 ^ 31 -> Forall2 (Rel' b B) r M ->
  exists r2, mapM (fun x => montgomery_reduce (i64_wrapping_mul FF x)) r = Ok r2 /\
             Forall2 (Rel' b Q) r2 (map (scale FS) M).
Proof.
  intros HB. induction 1 as [|x t r M (Bx & L & C) _ (r2 & E & IH)]; cbn [mapM map].
  - exists []. split; [reflexivity|constructor].
  - destruct (mont_zeta_mul FF x) as (y & Ey & Cy & By); [unfold FF; lia | lia |].
    rewrite Ey, E. cbn [bind]. exists (y :: r2). split; [reflexivity|].
    constructor; [|exact IH]. split; [exact By|]. split; [rewrite scale_length; exact L|].
    unfold FS. rewrite dot_scale, eqm_mod, Cy, C. reflexivity.
Qed.

Lemma invntt_unfold a : length a = 256%nat ->
  invntt_tomont a =
  (do r <- sequence (invntt_net (lift2 i32_add) (lift2 i32_sub) mulz_inv (map Ok a));
   mapM (fun x => montgomery_reduce (i64_wrapping_mul FF x)) r).
Proof. intros H. unfold invntt_tomont, zlen. rewrite H. reflexivity. Qed.

Lemma invntt_rel b B a M : length a = 256%nat -> Q <= B -> 256 * B <= 2 ^ 31 ->
  Forall (fun x => - B < x < B) a ->
  Forall2 (fun z t => length t = length b /\ eqm z (dot t b)) a M ->
  exists r, invntt_tomont a = Ok r /\
    Forall2 (Rel' b Q) r (map (scale FS) (invntt_net addL subL mulL_inv M)).
Proof.
  intros La HQ HB Ha H0. rewrite invntt_unfold by exact La.
  apply (Rel_init b B a M Ha) in H0.
  apply (invntt_net_rel b B _ _ HQ HB) in H0.
  apply sequence_rel in H0 as (r & E & H).
  rewrite E. cbn [bind]. apply (final_scale_rel b (256 * B)); auto.
Qed.

(** inverse network (with final scaling) composed with the forward matrix = 2^32 * identity (mod Q) *)
Lemma inv_matrix_f : map (scale FS) (invntt_net addL subL mulL_inv Vf) = map (scale R32) (units 256).
Proof. vm_cast_no_check (eq_refl (map (scale R32) (units 256))). Time Qed.

Lemma inv_matrix : map (scale FS) (invntt_net addL subL mulL_inv V) = map (scale R32) (units 256).
Proof. rewrite <- Vf_ok. exact inv_matrix_f. Qed.

Lemma units_length n : length (units n) = n.
Proof. induction n as [|n IH]; cbn [units length]; [reflexivity|]. rewrite map_length, IH. reflexivity. Qed.

Theorem invntt_ok_gen a B :
  length a = 256%nat -> Q <= B -> 256 * B <= 2 ^ 31 -> Forall (fun x => - B < x < B) a ->
  exists r, invntt_tomont a = Ok r /\ length r = 256%nat /\
    Forall (fun x => - Q < x < Q) r /\
    forall b, length b = 256%nat ->
      (forall i, (i < 256)%nat -> (nth i a 0 - eval b (root i)) mod Q = 0) ->
      forall j, (j < 256)%nat -> (nth j r 0 - 2 ^ 32 * nth j b 0) mod Q = 0.
Proof.
  intros La HQ HB Ha.
  (* existence and bounds: run the relation with the trivial linear forms (the inputs themselves) *)
  assert (H0 : Forall2 (fun z t => length t = length a /\ eqm z (dot t a)) a (units (length a))).
  { eapply F2_impl; [|apply units_spec]. cbn beta. intros z t [L E]. split; [exact L | apply eqm_eq; auto]. }
  destruct (invntt_rel a B a _ La HQ HB Ha H0) as (r & E & H).
  exists r. split; [exact E|].
  assert (Lr : length r = 256%nat).
  { rewrite (F2_length _ _ _ H). rewrite map_length. apply invntt_net_length.
    rewrite units_length. exact La. }
  split; [exact Lr|]. split.
  - eapply F2_Forall_l; [|exact H]. cbn beta. intros x y (Bx & _). exact Bx.
  - intros b Lb Hb j Hj.
    assert (H1 : Forall2 (fun z t => length t = length b /\ eqm z (dot t b)) a V).
    { apply (F2_of_nth _ 0 []).
      - unfold V. rewrite map_length, seq_length. exact La.
      - intros i Hi. rewrite La in Hi. rewrite V_row by exact Hi. split.
        + rewrite pows_length. symmetry; exact Lb.
        + rewrite <- Lb at 1. rewrite dot_pows. apply eqm_sub0.
          rewrite Z.mul_1_l. apply Hb. exact Hi. }
    destruct (invntt_rel b B a _ La HQ HB Ha H1) as (r' & E' & H').
    rewrite E in E'. injection E' as <-.
    rewrite inv_matrix in H'.
    pose proof (F2_nth _ 0 [] _ _ H' j ltac:(lia)) as (_ & _ & C).
    assert (HU : Forall2 (fun z t => eqm (dot t b) (R32 * z)) b (map (scale R32) (units (length b)))).
    { apply F2_map_r. eapply F2_impl; [|apply units_spec]. cbn beta. intros z t [L Ez].
      rewrite dot_scale, Ez. reflexivity. }
    rewrite Lb in HU.
    pose proof (F2_nth _ 0 [] _ _ HU j ltac:(lia)) as C2.
    apply eqm_sub0. rewrite C, C2.
    assert (E32 : eqm R32 (2 ^ 32)) by reflexivity.
    rewrite E32. reflexivity.
Qed.

Theorem invntt_ok a :
  length a = 256%nat -> Forall (fun x => - Q < x < Q) a ->
  exists r, invntt_tomont a = Ok r /\ length r = 256%nat /\
    Forall (fun x => - Q < x < Q) r /\
    forall b, length b = 256%nat ->
      (forall i, (i < 256)%nat -> (nth i a 0 - eval b (root i)) mod Q = 0) ->
      forall j, (j < 256)%nat -> (nth j r 0 - 2 ^ 32 * nth j b 0) mod Q = 0.
Proof. intros La Ha. apply (invntt_ok_gen a Q); auto; unfold Q; lia. Qed.

(** * 9. C13 (4): the constants *)
(** centred representative, in [-(Q-1)/2, (Q-1)/2] *)
Definition centred (x : Z) : Z := let m := x mod Q in if m <=? Q / 2 then m else m - Q.

Lemma in_range_nat (P : nat -> bool) lo n :
  forallb P (seq lo n) = true -> forall i, (lo <= i < lo + n)%nat -> P i = true.
Proof. intros H i Hi. rewrite forallb_forall in H. apply H. apply in_seq. exact Hi. Qed.

Theorem zetas_ok k : 1 <= k < 256 -> zeta k = centred (2 ^ 32 * 1753 ^ brv8 k).
Proof.
  intros Hk.
  assert (H : forallb (fun i => zeta (Z.of_nat i) =? centred (2 ^ 32 * 1753 ^ brv8 (Z.of_nat i))) (seq 1 255) = true)
    by (vm_cast_no_check (eq_refl true)).
  pose proof (in_range_nat _ _ _ H (Z.to_nat k) ltac:(lia)) as E. cbn beta in E.
  rewrite Z2Nat.id in E by lia. apply Z.eqb_eq. exact E.
Qed.

(* Q is odd, Q / 2 = (Q - 1) / 2 = 4190208: this is the interval (-Q/2, Q/2) of the reals *)
Lemma centred_range x : - (Q / 2) <= centred x <= Q / 2.
Proof. unfold centred. cbv zeta. change (Q / 2) with 4190208. destruct (Z.leb_spec (x mod Q) 4190208); unfold Q in *; lia. Qed.

Lemma centred_eqm x : eqm (centred x) x.
Proof. unfold centred, eqm. cbv zeta. destruct (x mod Q <=? Q / 2); unfold Q; lia. Qed.

(** entry 0 is unused by both transforms (k ranges over 1..255) *)
Lemma zeta_0 : zeta 0 = 0. Proof. reflexivity. Qed.

Theorem FF_ok : FF = 41978 /\ (FF * 256 - 2 ^ 64) mod Q = 0.
Proof. split; reflexivity. Qed.

Theorem FF_ok' : FF = (2 ^ 64 * 8347681) mod Q /\ (256 * 8347681) mod Q = 1.
Proof. split; reflexivity. Qed.

Theorem QINV_ok : (Q * QINV) mod 2 ^ 32 = 1.
Proof. reflexivity. Qed.

(** fast modular power, for the closed computations only *)
Lemma root_pow256 i : (i < 256)%nat -> root i ^ 256 mod Q = Q - 1.
Proof.
  intros Hi.
  assert (H : forallb (fun i => nth 256 (pows (froot_in (pows 1753 512 1) i) 257 1) 0 =? Q - 1) (seq 0 256) = true)
    by (vm_cast_no_check (eq_refl true)).
  pose proof (in_range_nat _ _ _ H i ltac:(lia)) as E. cbn beta in E.
  apply Z.eqb_eq in E. rewrite froot_ok in E. rewrite nth_pows in E; [| lia | unfold Q; lia].
  rewrite Z.mul_1_l in E. exact E.
Qed.

Fixpoint nodupb (l : list Z) : bool :=
  match l with
  | [] => true
  | x :: l' => negb (existsb (Z.eqb x) l') && nodupb l'
  end.
Lemma nodupb_ok l : nodupb l = true -> NoDup l.
Proof.
  induction l as [|x l IH]; cbn [nodupb]; intros H; constructor.
  - apply andb_prop in H as [H _]. intros Hin.
    assert (E : existsb (Z.eqb x) l = true) by (apply existsb_exists; exists x; split; [exact Hin | apply Z.eqb_refl]).
    rewrite E in H. discriminate.
  - apply IH. apply andb_prop in H as [_ H]. exact H.
Qed.

Theorem roots_nodup : NoDup (map root (seq 0 256)).
Proof.
  rewrite (map_ext root (froot_in (pows 1753 512 1))) by (intros; symmetry; apply froot_ok).
  apply nodupb_ok. vm_compute. reflexivity.
Qed.

Theorem roots_distinct i j : (i < 256)%nat -> (j < 256)%nat -> root i = root j -> i = j.
Proof.
  intros Hi Hj E. pose proof roots_nodup as H.
  rewrite (NoDup_nth _ 0) in H. rewrite map_length, seq_length in H.
  apply H; auto.
  rewrite !(nth_indep _ 0 (root 0%nat)) by (rewrite map_length, seq_length; assumption).
  rewrite !map_nth, !seq_nth by assumption. exact E.
Qed.

Lemma root_range i : 0 <= root i < Q.
Proof. unfold root. apply Z.mod_pos_bound. unfold Q; lia. Qed.

(** * 10. Non-vacuity: concrete runs of the model *)
Example ntt_example :
  exists r, ntt (map Z.of_nat (seq 0 256)) = Ok r /\
            firstn 6 r = [-356594; 4949942; 13884114; 7227518; -4303253; 903461].
Proof. eexists. split; vm_compute; reflexivity. Qed.

(** outputs above Q do occur (the 9Q bound is not replaceable by Q) *)
Example ntt_example_large :
  exists r, ntt (map Z.of_nat (seq 0 256)) = Ok r /\ nth 2 r 0 = 13884114 /\ Q < 13884114.
Proof. eexists. split; [vm_compute; reflexivity|]. split; vm_compute; reflexivity. Qed.

(** round trip on a concrete vector: invntt_tomont (ntt a) = 2^32 * a mod Q, centred *)
Example roundtrip_example :
  exists h r, ntt (map Z.of_nat (seq 0 256)) = Ok h /\ mapM MReduce.reduce32 h = Ok r /\
    exists r2, invntt_tomont r = Ok r2 /\
    firstn 4 r2 = map (fun c => centred (2 ^ 32 * c)) [0; 1; 2; 3].
Proof. eexists. eexists. split; [vm_compute; reflexivity|]. split; [vm_compute; reflexivity|].
  eexists. split; vm_compute; reflexivity. Qed.

(** the checked build does panic just outside the domain: all coefficients 2^31 - 1 *)
Example ntt_panics : ntt (repeat 2147483647 256) = Panic.
Proof. vm_compute. reflexivity. Qed.

(** the inverse transform is proved safe for inputs below 2^23 (256 * 2^23 = 2^31); this is sharp *)
Example invntt_edge_ok : exists r, invntt_tomont (repeat 8388607 256) = Ok r.
Proof. eexists. vm_compute. reflexivity. Qed.
Example invntt_edge_panics : invntt_tomont (repeat 8388608 256) = Panic.
Proof. vm_compute. reflexivity. Qed.

Print Assumptions ntt_ok_gen.
Print Assumptions ntt_ok.
Print Assumptions invntt_ok_gen.
Print Assumptions invntt_ok.
Print Assumptions zetas_ok.
Print Assumptions FF_ok.
Print Assumptions root_pow256.
Print Assumptions roots_distinct.
Print Assumptions ntt_net_param.
Print Assumptions invntt_net_param.
