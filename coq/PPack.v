(** Proofs for the coefficient codecs (bit packing) of MPoly.v against the FIPS 204
    SimpleBitPack / BitPack / SimpleBitUnpack / BitUnpack functions.
    Part 1: specification, generic lemmas, t1, eta (2 and 4), w1 (6 and 4 bits).  Part 2 (PPack2.v): z, t0.

    Specification (section A):
      [S_bitpack bits vals]   = the [len*bits/8] low bytes of  sum_i vals_i * 2^(bits*i)      (integer form)
      [S_bitunpack bits n b]  = the n low base-2^bits digits of  sum_j b_j * 256^j
      [SimpleBitPack], [BitPack], [SimpleBitUnpack], [BitUnpack] : bit-list form, as in FIPS 204;
      [S_bitpack_bits_eq], [S_bitunpack_bits_eq] : the two forms agree.
    Per codec X (section B), with [X_rng] the coefficient range and [bp_shift b c = b - c]:
      X_pack_spec    encoder = [S_bitpack] of the shifted coefficients, and its length (32*bits)
      X_unpack_spec  decoder = [bp_shift] of [S_bitunpack], on ANY byte string of at least 32*bits bytes
      X_unpack_pack  decoder (encoder a) = a
      X_unpack_total decoder is total, result has 256 coefficients in the decoded range
      X_pack_unpack  encoder (decoder b) = b for b of the exact length (t1 here; z, t0 in part 2)
      X_pack_splice  [X_pack r a] overwrites the first 32*bits bytes of r and nothing else
      X_pack_fips / X_unpack_fips  the same statements against the bit-list functions of the standard *)
From DV Require Import Base MPoly.

Local Ltac Zify.zify_post_hook ::= Z.div_mod_to_equations.

(** * A. Specification *)

(** ** Integer form: little-endian base-2^bits digits *)
Fixpoint pack_int (bits : Z) (vals : list Z) : Z :=
  match vals with
  | [] => 0
  | v :: r => v + 2 ^ bits * pack_int bits r
  end.

Fixpoint unpack_int (bits : Z) (n : nat) (x : Z) : list Z :=
  match n with
  | O => []
  | S n' => x mod 2 ^ bits :: unpack_int bits n' (x / 2 ^ bits)
  end.

Fixpoint bytes_of_int (n : nat) (x : Z) : list Z :=
  match n with
  | O => []
  | S n' => x mod 256 :: bytes_of_int n' (x / 256)
  end.

Definition int_of_bytes (b : list Z) : Z := pack_int 8 b.

(** SimpleBitPack / BitPack on the already shifted values (w_i, resp. b - w_i) *)
Definition S_bitpack (bits : Z) (vals : list Z) : list Z :=
  bytes_of_int (Z.to_nat (zlen vals * bits / 8)) (pack_int bits vals).

(** SimpleBitUnpack / BitUnpack before the final shift: n fields of [bits] bits *)
Definition S_bitunpack (bits : Z) (n : nat) (b : list Z) : list Z :=
  unpack_int bits n (int_of_bytes b).

Definition in_bits (bits : Z) (v : Z) : Prop := 0 <= v < 2 ^ bits.

(** pack_int is the sum of vals_i * 2^(bits*i) *)
Lemma pack_int_sum bits vals : 0 <= bits ->
  pack_int bits vals =
  fold_right Z.add 0 (map (fun p => snd p * 2 ^ (bits * Z.of_nat (fst p))) (combine (seq 0 (length vals)) vals)).
Proof.
  intros Hb.
  assert (G : forall k, fold_right Z.add 0 (map (fun p => snd p * 2 ^ (bits * Z.of_nat (fst p)))
                (combine (seq k (length vals)) vals)) = 2 ^ (bits * Z.of_nat k) * pack_int bits vals).
  { induction vals as [|v r IH]; intros k; cbn [length seq combine map fold_right pack_int fst snd].
    - rewrite Z.mul_0_r. reflexivity.
    - rewrite IH. replace (bits * Z.of_nat (S k)) with (bits * Z.of_nat k + bits) by lia.
      rewrite Z.pow_add_r by lia. ring. }
  rewrite G. rewrite Z.mul_0_r. change (2 ^ 0) with 1. ring.
Qed.

Lemma bytes_of_int_unpack n x : bytes_of_int n x = unpack_int 8 n x.
Proof. revert x; induction n as [|n IH]; intros x; cbn [bytes_of_int unpack_int]; [reflexivity|]. rewrite IH. reflexivity. Qed.

Lemma unpack_int_length bits n x : length (unpack_int bits n x) = n.
Proof. revert x; induction n as [|n IH]; intros x; cbn [unpack_int length]; auto. Qed.

Lemma bytes_of_int_length n x : length (bytes_of_int n x) = n.
Proof. rewrite bytes_of_int_unpack. apply unpack_int_length. Qed.

Lemma unpack_int_range bits n x : 0 <= bits -> Forall (in_bits bits) (unpack_int bits n x).
Proof.
  intros Hb. revert x; induction n as [|n IH]; intros x; cbn [unpack_int]; constructor; auto.
  unfold in_bits. apply Z.mod_pos_bound. apply pow2_pos; lia.
Qed.

Lemma pack_int_range bits vals : 0 <= bits -> Forall (in_bits bits) vals ->
  0 <= pack_int bits vals < 2 ^ (bits * zlen vals).
Proof.
  intros Hb H. unfold zlen. induction H as [|v r Hv Hr IH]; cbn [pack_int length].
  - rewrite Z.mul_0_r. change (2 ^ 0) with 1. lia.
  - replace (bits * Z.of_nat (S (length r))) with (bits + bits * Z.of_nat (length r)) by lia.
    rewrite Z.pow_add_r by lia. unfold in_bits in Hv.
    assert (0 < 2 ^ bits) by (apply pow2_pos; lia). nia.
Qed.

Lemma pack_int_app bits a b : 0 <= bits ->
  pack_int bits (a ++ b) = pack_int bits a + 2 ^ (bits * zlen a) * pack_int bits b.
Proof.
  intros Hb. unfold zlen. induction a as [|v r IH]; cbn [pack_int app length].
  - rewrite Z.mul_0_r. change (2 ^ 0) with 1. ring.
  - rewrite IH. replace (bits * Z.of_nat (S (length r))) with (bits + bits * Z.of_nat (length r)) by lia.
    rewrite Z.pow_add_r by lia. ring.
Qed.

(** the low n digits only depend on x modulo 2^(bits*n); a multiple of it can be added freely *)
Lemma unpack_int_app bits n m x y : 0 <= bits -> 0 <= x < 2 ^ (bits * Z.of_nat n) ->
  unpack_int bits (n + m) (x + 2 ^ (bits * Z.of_nat n) * y) = unpack_int bits n x ++ unpack_int bits m y.
Proof.
  intros Hb. revert x; induction n as [|n IH]; intros x Hx.
  - rewrite Z.mul_0_r in *. change (2 ^ 0) with 1 in *. cbn [Nat.add unpack_int app].
    replace (x + 1 * y) with y by lia. reflexivity.
  - replace (bits * Z.of_nat (S n)) with (bits + bits * Z.of_nat n) in * by lia.
    rewrite Z.pow_add_r in * by lia.
    assert (Hp : 0 < 2 ^ bits) by (apply pow2_pos; lia).
    assert (Hq : 0 < 2 ^ (bits * Z.of_nat n)) by (apply pow2_pos; lia).
    cbn [Nat.add unpack_int app].
    set (P := 2 ^ bits) in *. set (R := 2 ^ (bits * Z.of_nat n)) in *.
    replace (x + P * R * y) with (x + (R * y) * P) by ring.
    rewrite Z.mod_add by lia. rewrite Z.div_add by lia.
    rewrite IH; [reflexivity|].
    split; [apply Z.div_pos; lia|]. apply Z.div_lt_upper_bound; lia.
Qed.

Lemma unpack_pack_int bits vals : 0 <= bits -> Forall (in_bits bits) vals ->
  unpack_int bits (length vals) (pack_int bits vals) = vals.
Proof.
  intros Hb H. induction H as [|v r Hv Hr IH]; cbn [pack_int length unpack_int]; [reflexivity|].
  assert (Hp : 0 < 2 ^ bits) by (apply pow2_pos; lia). unfold in_bits in Hv.
  rewrite (Z.mul_comm (2 ^ bits)). rewrite Z.mod_add, Z.div_add by lia.
  rewrite Z.mod_small, Z.div_small by lia. cbn [Z.add]. rewrite IH. reflexivity.
Qed.

Lemma pack_unpack_int bits n x : 0 <= bits ->
  pack_int bits (unpack_int bits n x) = x mod 2 ^ (bits * Z.of_nat n).
Proof.
  intros Hb. revert x; induction n as [|n IH]; intros x; cbn [unpack_int pack_int].
  - rewrite Z.mul_0_r. change (2 ^ 0) with 1. rewrite Z.mod_1_r. reflexivity.
  - rewrite IH. replace (bits * Z.of_nat (S n)) with (bits + bits * Z.of_nat n) by lia.
    rewrite Z.pow_add_r by lia.
    assert (Hp : 0 < 2 ^ bits) by (apply pow2_pos; lia).
    assert (Hq : 0 < 2 ^ (bits * Z.of_nat n)) by (apply pow2_pos; lia).
    rewrite Z.rem_mul_r by lia. reflexivity.
Qed.

(** ** Spec-level round trips *)
Lemma S_bitpack_length bits vals : length (S_bitpack bits vals) = Z.to_nat (zlen vals * bits / 8).
Proof. apply bytes_of_int_length. Qed.

Lemma S_bitpack_bytes bits vals : Forall is_byte (S_bitpack bits vals).
Proof. unfold S_bitpack. rewrite bytes_of_int_unpack. apply (unpack_int_range 8); lia. Qed.

Lemma S_bitunpack_length bits n b : length (S_bitunpack bits n b) = n.
Proof. apply unpack_int_length. Qed.

Lemma S_bitunpack_range bits n b : 0 <= bits -> Forall (in_bits bits) (S_bitunpack bits n b).
Proof. intros; apply unpack_int_range; auto. Qed.

Lemma is_byte_in_bits b : Forall is_byte b -> Forall (in_bits 8) b.
Proof. apply Forall_impl. intros a H. exact H. Qed.

Theorem S_unpack_pack bits vals k : 0 <= bits -> Forall (in_bits bits) vals ->
  zlen vals * bits = 8 * k ->
  S_bitunpack bits (length vals) (S_bitpack bits vals) = vals.
Proof.
  intros Hb Hv Hk. unfold S_bitunpack, S_bitpack, int_of_bytes.
  rewrite bytes_of_int_unpack, pack_unpack_int by lia.
  replace (zlen vals * bits / 8) with k by lia.
  pose proof (pack_int_range bits vals Hb Hv) as Hr.
  assert (0 <= k) by (unfold zlen in Hk; lia).
  rewrite Z2Nat.id by lia.
  replace (8 * k) with (bits * zlen vals) by lia.
  rewrite Z.mod_small by exact Hr. apply unpack_pack_int; auto.
Qed.

Theorem S_pack_unpack bits n b : 0 <= bits -> Forall is_byte b ->
  Z.of_nat n * bits = 8 * zlen b ->
  S_bitpack bits (S_bitunpack bits n b) = b.
Proof.
  intros Hb Hv Hk. unfold S_bitunpack, S_bitpack, int_of_bytes.
  unfold zlen at 1. rewrite unpack_int_length, pack_unpack_int by lia.
  replace (Z.of_nat n * bits / 8) with (zlen b) by lia.
  pose proof (pack_int_range 8 b ltac:(lia) (is_byte_in_bits b Hv)) as Hr.
  replace (bits * Z.of_nat n) with (8 * zlen b) by lia.
  rewrite Z.mod_small by exact Hr. unfold zlen. rewrite Nat2Z.id.
  rewrite bytes_of_int_unpack. apply unpack_pack_int; [lia|]. apply is_byte_in_bits; auto.
Qed.

(** ** chunking: a group of g fields occupying exactly k bytes *)
Lemma S_bitpack_group bits k grp rest : 0 <= bits -> Forall (in_bits bits) grp ->
  zlen grp * bits = 8 * Z.of_nat k ->
  S_bitpack bits (grp ++ rest) = bytes_of_int k (pack_int bits grp) ++ S_bitpack bits rest.
Proof.
  intros Hb Hg Hk. unfold S_bitpack. rewrite pack_int_app by lia.
  unfold zlen in *. rewrite app_length, Nat2Z.inj_add.
  replace ((Z.of_nat (length grp) + Z.of_nat (length rest)) * bits / 8)
    with (Z.of_nat k + Z.of_nat (length rest) * bits / 8) by lia.
  assert (0 <= Z.of_nat (length rest) * bits / 8) by (apply Z.div_pos; lia).
  rewrite Z2Nat.inj_add, Nat2Z.id by lia.
  rewrite !bytes_of_int_unpack.
  pose proof (pack_int_range bits grp Hb Hg) as Hr. unfold zlen in Hr.
  replace (bits * Z.of_nat (length grp)) with (8 * Z.of_nat k) in * by lia.
  apply unpack_int_app; [lia| exact Hr].
Qed.

Lemma S_bitunpack_group bits g n grp rest : 0 <= bits -> Forall is_byte grp ->
  Z.of_nat g * bits = 8 * zlen grp ->
  S_bitunpack bits (g + n) (grp ++ rest) = unpack_int bits g (int_of_bytes grp) ++ S_bitunpack bits n rest.
Proof.
  intros Hb Hg Hk. unfold S_bitunpack, int_of_bytes. rewrite pack_int_app by lia.
  pose proof (pack_int_range 8 grp ltac:(lia) (is_byte_in_bits grp Hg)) as Hr.
  replace (8 * zlen grp) with (bits * Z.of_nat g) in * by lia.
  apply unpack_int_app; [lia| exact Hr].
Qed.

(** BitPack stores b - w *)
Definition bp_shift (b c : Z) : Z := b - c.
Lemma bp_shift_invol b c : bp_shift b (bp_shift b c) = c.
Proof. unfold bp_shift; lia. Qed.

(** ** Bit-list form, as written in FIPS 204 (Algorithms 9, 12, 16, 17) *)
Definition bitlen (b : Z) : nat := Z.to_nat (Z.log2 b + 1).          (* bitlen b, b > 0 *)

Fixpoint IntegerToBits (x : Z) (alpha : nat) : list bool :=          (* Algorithm 9 *)
  match alpha with
  | O => []
  | S a => Z.odd x :: IntegerToBits (x / 2) a                        (* y[i] = x' mod 2; x' = x' / 2 *)
  end.

Definition bit (b : bool) : Z := if b then 1 else 0.
(** value of a bit string, little endian: sum y[i] * 2^i *)
Fixpoint bits_value (y : list bool) : Z :=
  match y with
  | [] => 0
  | b :: r => bit b + 2 * bits_value r
  end.
(** Algorithm 12: z[i/8] += y[i] * 2^(i mod 8), i.e. byte j is the value of bits 8j .. 8j+7 *)
Fixpoint BitsToBytes_n (n : nat) (y : list bool) : list Z :=
  match n with
  | O => []
  | S n' => bits_value (firstn 8 y) :: BitsToBytes_n n' (skipn 8 y)
  end.
Definition BitsToBytes (y : list bool) : list Z := BitsToBytes_n (Nat.div (length y + 7) 8) y.

Definition SimpleBitPack (w : list Z) (b : Z) : list Z :=            (* Algorithm 16 *)
  BitsToBytes (concat (map (fun wi => IntegerToBits wi (bitlen b)) w)).
Definition BitPack (w : list Z) (a b : Z) : list Z :=                (* Algorithm 17 *)
  BitsToBytes (concat (map (fun wi => IntegerToBits (b - wi) (bitlen (a + b))) w)).

Lemma IntegerToBits_length x alpha : length (IntegerToBits x alpha) = alpha.
Proof. revert x; induction alpha as [|a IH]; intros x; cbn [IntegerToBits length]; auto. Qed.

Lemma bits_value_range y : 0 <= bits_value y < 2 ^ Z.of_nat (length y).
Proof.
  induction y as [|b r IH]; cbn [bits_value length].
  - change (2 ^ Z.of_nat 0) with 1. lia.
  - rewrite Nat2Z.inj_succ, Z.pow_succ_r by lia. destruct b; unfold bit; lia.
Qed.

Lemma bits_value_app a b : bits_value (a ++ b) = bits_value a + 2 ^ Z.of_nat (length a) * bits_value b.
Proof.
  induction a as [|x r IH]; cbn [bits_value app length].
  - change (2 ^ Z.of_nat 0) with 1. lia.
  - rewrite IH, Nat2Z.inj_succ, Z.pow_succ_r by lia. ring.
Qed.

Lemma bits_value_I2B x alpha : bits_value (IntegerToBits x alpha) = x mod 2 ^ Z.of_nat alpha.
Proof.
  revert x; induction alpha as [|a IH]; intros x; cbn [IntegerToBits bits_value].
  - change (2 ^ Z.of_nat 0) with 1. rewrite Z.mod_1_r. reflexivity.
  - rewrite IH, Nat2Z.inj_succ, Z.pow_succ_r by lia.
    assert (Hp : 0 < 2 ^ Z.of_nat a) by (apply pow2_pos; lia).
    rewrite Z.rem_mul_r by lia. rewrite Zmod_odd. unfold bit. reflexivity.
Qed.

Lemma bits_value_concat alpha w : Forall (in_bits (Z.of_nat alpha)) w ->
  bits_value (concat (map (fun wi => IntegerToBits wi alpha) w)) = pack_int (Z.of_nat alpha) w.
Proof.
  intros H. induction H as [|v r Hv Hr IH]; cbn [map concat pack_int bits_value]; [reflexivity|].
  rewrite bits_value_app, IntegerToBits_length, bits_value_I2B, IH.
  rewrite Z.mod_small by exact Hv. reflexivity.
Qed.

Lemma concat_I2B_length alpha (w : list Z) (f : Z -> Z) :
  length (concat (map (fun wi => IntegerToBits (f wi) alpha) w)) = (length w * alpha)%nat.
Proof.
  induction w as [|v r IH]; cbn [map concat length]; [reflexivity|].
  rewrite app_length, IntegerToBits_length, IH. lia.
Qed.

(** consecutive c-bit fields of a bit string are the base-2^c digits of its value *)
Fixpoint bits_chunks (c n : nat) (y : list bool) : list Z :=
  match n with
  | O => []
  | S n' => bits_value (firstn c y) :: bits_chunks c n' (skipn c y)
  end.

Lemma bits_chunks_eq c n y : bits_chunks c n y = unpack_int (Z.of_nat c) n (bits_value y).
Proof.
  revert y; induction n as [|n IH]; intros y; cbn [bits_chunks unpack_int]; [reflexivity|].
  pose proof (bits_value_app (firstn c y) (skipn c y)) as E. rewrite firstn_skipn in E.
  pose proof (bits_value_range (firstn c y)) as RA.
  assert (Hp : 0 < 2 ^ Z.of_nat c) by (apply pow2_pos; lia).
  assert (C : (length (firstn c y) = c) \/ (skipn c y = [] /\ (length (firstn c y) <= c)%nat)).
  { destruct (Nat.le_gt_cases c (length y)) as [Hge|Hlt].
    - left. apply firstn_length_le. exact Hge.
    - right. split; [apply skipn_all2; lia| rewrite firstn_length; lia]. }
  assert (Hm : bits_value (firstn c y) = bits_value y mod 2 ^ Z.of_nat c /\
               bits_value (skipn c y) = bits_value y / 2 ^ Z.of_nat c).
  { rewrite E. destruct C as [C|[C L]].
    - rewrite C in *. rewrite (Z.mul_comm (2 ^ Z.of_nat c)).
      rewrite Z.mod_add, Z.div_add by lia. rewrite Z.mod_small, Z.div_small by lia. lia.
    - rewrite C in *. cbn [bits_value] in *.
      assert (2 ^ Z.of_nat (length (firstn c y)) <= 2 ^ Z.of_nat c) by (apply Z.pow_le_mono_r; lia).
      rewrite Z.mul_0_r, Z.add_0_r. rewrite Z.mod_small, Z.div_small by lia. lia. }
  destruct Hm as [-> Hd]. rewrite IH, Hd. reflexivity.
Qed.

Lemma BitsToBytes_n_chunks n y : BitsToBytes_n n y = bits_chunks 8 n y.
Proof. revert y; induction n as [|n IH]; intros y; cbn [BitsToBytes_n bits_chunks]; [reflexivity|]. rewrite IH. reflexivity. Qed.

Lemma BitsToBytes_n_eq n y : BitsToBytes_n n y = bytes_of_int n (bits_value y).
Proof. rewrite BitsToBytes_n_chunks, bits_chunks_eq, bytes_of_int_unpack. reflexivity. Qed.

(** the bit-list definition and the integer definition agree (whole number of bytes) *)
Theorem S_bitpack_bits_eq alpha vals : Forall (in_bits (Z.of_nat alpha)) vals ->
  ((length vals * alpha) mod 8 = 0)%nat ->
  BitsToBytes (concat (map (fun wi => IntegerToBits wi alpha) vals)) = S_bitpack (Z.of_nat alpha) vals.
Proof.
  intros Hr Hm. unfold BitsToBytes, S_bitpack.
  rewrite BitsToBytes_n_eq, bits_value_concat by exact Hr.
  rewrite (concat_I2B_length alpha vals (fun x => x)). f_equal.
  unfold zlen. apply Nat2Z.inj. rewrite Z2Nat.id by (apply Z.div_pos; lia).
  rewrite Nat2Z.inj_div, Nat2Z.inj_add, Nat2Z.inj_mul.
  assert (Hz : (Z.of_nat (length vals) * Z.of_nat alpha) mod 8 = 0).
  { rewrite <- Nat2Z.inj_mul. change 8 with (Z.of_nat 8). rewrite <- Nat2Z.inj_mod. rewrite Hm. reflexivity. }
  change (Z.of_nat 7) with 7. change (Z.of_nat 8) with 8. lia.
Qed.

Corollary SimpleBitPack_eq w b : Forall (in_bits (Z.of_nat (bitlen b))) w ->
  ((length w * bitlen b) mod 8 = 0)%nat ->
  SimpleBitPack w b = S_bitpack (Z.of_nat (bitlen b)) w.
Proof. apply S_bitpack_bits_eq. Qed.

Corollary BitPack_eq w a b : Forall (in_bits (Z.of_nat (bitlen (a + b)))) (map (bp_shift b) w) ->
  ((length w * bitlen (a + b)) mod 8 = 0)%nat ->
  BitPack w a b = S_bitpack (Z.of_nat (bitlen (a + b))) (map (bp_shift b) w).
Proof.
  intros Hr Hm. unfold BitPack. rewrite <- S_bitpack_bits_eq; [| exact Hr | rewrite map_length; exact Hm].
  rewrite map_map. reflexivity.
Qed.

(** ** the decoding direction (Algorithms 10, 13, 18, 19) *)
Definition BytesToBits (z : list Z) : list bool := concat (map (fun b => IntegerToBits b 8) z).   (* Algorithm 13 *)
Definition BitsToInteger (y : list bool) (alpha : nat) : Z := bits_value (firstn alpha y).        (* Algorithm 10 *)
(** fields i = 0 .. n-1 (n = 256 in the standard): w_i = BitsToInteger(z[i*c .. i*c + c - 1], c) *)
Definition SimpleBitUnpack_n (n : nat) (v : list Z) (b : Z) : list Z :=                           (* Algorithm 18 *)
  let c := bitlen b in let z := BytesToBits v in
  map (fun i => BitsToInteger (skipn (i * c) z) c) (seq 0 n).
Definition BitUnpack_n (n : nat) (v : list Z) (a b : Z) : list Z :=                               (* Algorithm 19 *)
  let c := bitlen (a + b) in let z := BytesToBits v in
  map (fun i => b - BitsToInteger (skipn (i * c) z) c) (seq 0 n).
Definition SimpleBitUnpack := SimpleBitUnpack_n 256.
Definition BitUnpack := BitUnpack_n 256.

Lemma skipn_add {A} (a b : nat) (l : list A) : skipn a (skipn b l) = skipn (b + a) l.
Proof.
  revert l; induction b as [|b IH]; intros l; [reflexivity|].
  destruct l as [|x l]; [rewrite !skipn_nil; reflexivity|]. cbn [Nat.add skipn]. apply IH.
Qed.

Lemma bits_chunks_seq c n k z :
  bits_chunks c n (skipn (k * c) z) = map (fun i => BitsToInteger (skipn (i * c) z) c) (seq k n).
Proof.
  revert k; induction n as [|n IH]; intros k; cbn [bits_chunks seq map]; [reflexivity|].
  unfold BitsToInteger at 1. f_equal. rewrite skipn_add.
  replace (k * c + c)%nat with (S k * c)%nat by lia. apply IH.
Qed.

Lemma BytesToBits_value v : Forall is_byte v -> bits_value (BytesToBits v) = int_of_bytes v.
Proof. intros H. apply (bits_value_concat 8). apply is_byte_in_bits. exact H. Qed.

Theorem S_bitunpack_bits_eq (c n : nat) v : Forall is_byte v ->
  map (fun i => BitsToInteger (skipn (i * c) (BytesToBits v)) c) (seq 0 n) = S_bitunpack (Z.of_nat c) n v.
Proof.
  intros H. rewrite <- bits_chunks_seq. cbn [Nat.mul skipn].
  rewrite bits_chunks_eq, BytesToBits_value by exact H. reflexivity.
Qed.

Corollary SimpleBitUnpack_eq n v b : Forall is_byte v ->
  SimpleBitUnpack_n n v b = S_bitunpack (Z.of_nat (bitlen b)) n v.
Proof. apply S_bitunpack_bits_eq. Qed.

Corollary BitUnpack_eq n v a b : Forall is_byte v ->
  BitUnpack_n n v a b = map (bp_shift b) (S_bitunpack (Z.of_nat (bitlen (a + b))) n v).
Proof.
  intros H. rewrite <- S_bitunpack_bits_eq by exact H. rewrite map_map. reflexivity.
Qed.

(** * B. The model codecs *)

(** ** arithmetic reading of the bit operations *)
Lemma lor_mul_add x y k : 0 <= k -> 0 <= x < 2 ^ k -> Z.lor x (y * 2 ^ k) = x + y * 2 ^ k.
Proof.
  intros Hk Hx.
  rewrite <- Z.lxor_lor, <- Z.add_nocarry_lxor; auto.
  all: apply Z.bits_inj'; intros n Hn; rewrite Z.land_spec, Z.bits_0;
    destruct (Z.ltb_spec n k) as [Hlt|Hge];
    [ rewrite Z.mul_pow2_bits_low by lia; apply andb_false_r
    | replace (Z.testbit x n) with false; [reflexivity|];
      symmetry; destruct (Z.eq_dec x 0) as [->|Hnz]; [apply Z.bits_0|];
      apply Z.bits_above_log2; [lia|]; apply Z.log2_lt_pow2; try lia;
      apply Z.lt_le_trans with (2 ^ k); [lia| apply Z.pow_le_mono_r; lia] ].
Qed.

Lemma lor_shl_add x y k : 0 <= k -> 0 <= x < 2 ^ k -> Z.lor x (Z.shiftl y k) = x + y * 2 ^ k.
Proof. intros. rewrite Z.shiftl_mul_pow2 by lia. apply lor_mul_add; auto. Qed.

Lemma u8_mod x : u8 x = x mod 256.
Proof. unfold u8. change 255 with (Z.ones 8). rewrite Z.land_ones by lia. reflexivity. Qed.
Lemma sar_div x k : 0 <= k -> sar x k = x / 2 ^ k.
Proof. intros. unfold sar. apply Z.shiftr_div_pow2; lia. Qed.
Lemma shl32_mul x k : 0 <= k -> - 2147483648 <= x * 2 ^ k < 2147483648 -> shl32 x k = x * 2 ^ k.
Proof. intros Hk Hx. unfold shl32. rewrite Z.shiftl_mul_pow2 by lia. apply wrap_id; [lia|]. change (2 ^ (32 - 1)) with 2147483648. lia. Qed.
Lemma shl8_mul x k : 0 <= k -> shl8 x k = (x * 2 ^ k) mod 256.
Proof. intros. unfold shl8. rewrite Z.shiftl_mul_pow2 by lia. change 255 with (Z.ones 8). rewrite Z.land_ones by lia. reflexivity. Qed.
Lemma lor_u8 a b : Z.lor (u8 a) (u8 b) = u8 (Z.lor a b).
Proof. unfold u8. symmetry. apply Z.land_lor_distr_l. Qed.

Ltac pow_norm :=
  repeat match goal with
  | |- context [2 ^ ?k] =>
    lazymatch k with
    | Zpos _ => idtac | Z0 => idtac end;
    let v := eval compute in (2 ^ k) in change (2 ^ k) with v
  end.


Ltac list_eq tac := repeat (apply (f_equal2 (@cons Z)); [tac|]); reflexivity.

Ltac fa_solve := repeat (apply Forall_cons; [assumption|]); apply Forall_nil.
Ltac inv_forall :=
  repeat match goal with
  | H : Forall _ (_ :: _) |- _ => apply Forall_cons_iff in H; let H1 := fresh "Hc" in destruct H as [H1 H]
  end.

Lemma lor_mod_add x y k : 0 <= k <= 8 -> 0 <= x < 2 ^ k ->
  Z.lor x ((y * 2 ^ k) mod 256) = (x + y * 2 ^ k) mod 256.
Proof.
  intros Hk Hx.
  assert (E : 256 = 2 ^ (8 - k) * 2 ^ k) by (rewrite <- Z.pow_add_r by lia; replace (8 - k + k) with 8 by lia; reflexivity).
  assert (Hp : 0 < 2 ^ k) by (apply pow2_pos; lia).
  assert (Hq : 0 < 2 ^ (8 - k)) by (apply pow2_pos; lia).
  rewrite E. rewrite Z.mul_mod_distr_r by lia. rewrite lor_mul_add by lia.
  set (P := 2 ^ k) in *. set (Q := 2 ^ (8 - k)) in *.
  pose proof (Z.div_mod y Q ltac:(lia)) as Hd. pose proof (Z.mod_pos_bound y Q ltac:(lia)) as Hb.
  set (m := y mod Q) in *. set (d := y / Q) in *.
  replace (x + y * P) with ((x + m * P) + d * (Q * P)) by (rewrite Hd; ring).
  rewrite Z.mod_add by lia. rewrite Z.mod_small; [reflexivity|]. nia.
Qed.

Ltac lor_norm :=
  repeat match goal with
  | |- context [Z.lor ?x ((?y * 2 ^ ?k) mod 256)] =>
    lazymatch x with context [Z.lor] => fail | _ => idtac end;
    rewrite (lor_mod_add x y k) by (pow_norm; lia)
  | |- context [Z.lor ?x (?y * 2 ^ ?k)] =>
    lazymatch x with context [Z.lor] => fail | _ => idtac end;
    rewrite (lor_mul_add x y k) by (pow_norm; lia)
  | |- context [Z.lor ?x (Z.shiftl ?y ?k)] =>
    lazymatch x with context [Z.lor] => fail | _ => idtac end;
    rewrite (lor_shl_add x y k) by (pow_norm; lia)
  end.

Ltac fa_by tac := repeat (apply Forall_cons; [tac|]); apply Forall_nil.


Lemma i32_sub_ok a b : -2147483648 <= a - b < 2147483648 -> i32_sub a b = Ok (a - b).
Proof. intros. unfold i32_sub. apply chk_s_ok. change (2 ^ (32 - 1)) with 2147483648. lia. Qed.

Lemma lor_shr_shl_add x y j k : 0 <= j -> 0 <= k -> 0 <= x < 2 ^ (j + k) ->
  Z.lor (Z.shiftr x j) (Z.shiftl y k) = x / 2 ^ j + y * 2 ^ k.
Proof.
  intros Hj Hk Hx. rewrite Z.shiftr_div_pow2 by lia. apply lor_shl_add; [lia|].
  assert (0 < 2 ^ j) by (apply pow2_pos; lia). rewrite Z.pow_add_r in Hx by lia.
  split; [apply Z.div_pos; lia|]. apply Z.div_lt_upper_bound; lia.
Qed.

(** generic consequences of "encoder = spec" and "decoder = spec" *)
Lemma Ok_inj {A} (x y : A) : Ok x = Ok y -> x = y.
Proof. intros H; injection H; auto. Qed.

Lemma gen_pack_length bits (ncoef kbytes : nat) (vals : list Z) :
  Z.of_nat ncoef * bits = 8 * Z.of_nat kbytes ->
  length vals = ncoef -> length (S_bitpack bits vals) = kbytes.
Proof.
  intros Hk Hl. rewrite S_bitpack_length. unfold zlen. rewrite Hl.
  rewrite Hk. rewrite Z.mul_comm, Z.div_mul by lia. apply Nat2Z.id.
Qed.

Lemma Forall_map_intro {A B} (P : A -> Prop) (Q : B -> Prop) (f : A -> B) l :
  (forall x, P x -> Q (f x)) -> Forall P l -> Forall Q (map f l).
Proof. intros H F. induction F; cbn [map]; constructor; auto. Qed.

Lemma gen_unpack_pack bits (ncoef kbytes : nat) (enc dec : Z -> Z) (rng : Z -> Prop)
  (packf unpackf : list Z -> res (list Z)) :
  0 <= bits ->
  Z.of_nat ncoef * bits = 8 * Z.of_nat kbytes ->
  (forall c, rng c -> in_bits bits (enc c)) ->
  (forall c, dec (enc c) = c) ->
  (forall a, Forall rng a -> length a = ncoef -> packf a = Ok (S_bitpack bits (map enc a))) ->
  (forall b, Forall is_byte b -> (kbytes <= length b)%nat ->
             unpackf b = Ok (map dec (S_bitunpack bits ncoef b))) ->
  forall a b, Forall rng a -> length a = ncoef -> packf a = Ok b -> unpackf b = Ok a.
Proof.
  intros Hbits Hk enc_rng dec_enc pack_spec unpack_spec a b Hr Hl Hp.
  rewrite pack_spec in Hp by assumption. apply Ok_inj in Hp; subst b.
  assert (Hlm : length (map enc a) = ncoef) by (rewrite map_length; exact Hl).
  rewrite unpack_spec; [| apply S_bitpack_bytes | rewrite (gen_pack_length bits ncoef kbytes) by assumption; lia].
  f_equal. rewrite <- Hlm at 1.
  rewrite (S_unpack_pack bits (map enc a) (Z.of_nat kbytes)); auto.
  - rewrite map_map. rewrite <- (map_id a) at 2. apply map_ext. exact dec_enc.
  - apply (Forall_map_intro rng); assumption.
  - unfold zlen. rewrite Hlm. exact Hk.
Qed.

Lemma gen_unpack_total bits (ncoef kbytes : nat) (dec : Z -> Z) (drng : Z -> Prop)
  (unpackf : list Z -> res (list Z)) :
  0 <= bits ->
  (forall v, in_bits bits v -> drng (dec v)) ->
  (forall b, Forall is_byte b -> (kbytes <= length b)%nat ->
             unpackf b = Ok (map dec (S_bitunpack bits ncoef b))) ->
  forall b, Forall is_byte b -> (kbytes <= length b)%nat ->
  exists a, unpackf b = Ok a /\ length a = ncoef /\ Forall drng a.
Proof.
  intros Hbits dec_rng unpack_spec b Hb Hl.
  eexists. split; [apply unpack_spec; assumption|]. split.
  - rewrite map_length. apply S_bitunpack_length.
  - apply (Forall_map_intro (in_bits bits)); [assumption|]. apply S_bitunpack_range. exact Hbits.
Qed.

Lemma gen_pack_unpack bits (ncoef kbytes : nat) (enc dec : Z -> Z) (rng : Z -> Prop)
  (packf unpackf : list Z -> res (list Z)) :
  0 <= bits ->
  Z.of_nat ncoef * bits = 8 * Z.of_nat kbytes ->
  (forall v, enc (dec v) = v) ->
  (forall v, in_bits bits v -> rng (dec v)) ->
  (forall a, Forall rng a -> length a = ncoef -> packf a = Ok (S_bitpack bits (map enc a))) ->
  (forall b, Forall is_byte b -> (kbytes <= length b)%nat ->
             unpackf b = Ok (map dec (S_bitunpack bits ncoef b))) ->
  forall a b, Forall is_byte b -> length b = kbytes -> unpackf b = Ok a -> packf a = Ok b.
Proof.
  intros Hbits Hk enc_dec dec_rng pack_spec unpack_spec a b Hb Hl Hu.
  rewrite unpack_spec in Hu by (auto; lia). apply Ok_inj in Hu; subst a.
  rewrite pack_spec.
  - f_equal. rewrite map_map. rewrite (map_ext _ (fun v => v)) by exact enc_dec. rewrite map_id.
    apply S_pack_unpack; auto. unfold zlen. rewrite Hl. exact Hk.
  - apply (Forall_map_intro (in_bits bits)); [assumption|]. apply S_bitunpack_range. exact Hbits.
  - rewrite map_length. apply S_bitunpack_length.
Qed.

(** ** splice at offset 0: overwrite a prefix, keep the rest *)
Lemma splice0_ok {A} (r b : list A) : (length b <= length r)%nat ->
  splice r 0 b = Ok (b ++ skipn (length b) r).
Proof.
  intros H. unfold splice, zlen.
  destruct (Z.leb_spec 0 0); [|lia]. destruct (Z.leb_spec (0 + Z.of_nat (length b)) (Z.of_nat (length r))); [|lia].
  cbn [andb]. change (Z.to_nat 0) with O. cbn [firstn app]. rewrite Z.add_0_l, Nat2Z.id. reflexivity.
Qed.

Lemma splice0_panic {A} (r b : list A) : (length r < length b)%nat -> splice r 0 b = Panic.
Proof.
  intros H. unfold splice, zlen.
  destruct (Z.leb_spec (0 + Z.of_nat (length b)) (Z.of_nat (length r))); [lia|].
  rewrite andb_false_r. reflexivity.
Qed.

Lemma overwrite_props {A} (r b : list A) : (length b <= length r)%nat ->
  length (b ++ skipn (length b) r) = length r /\
  firstn (length b) (b ++ skipn (length b) r) = b /\
  forall i, (length b <= i)%nat -> nth_error (b ++ skipn (length b) r) i = nth_error r i.
Proof.
  intros H. split; [|split].
  - rewrite app_length, skipn_length. lia.
  - rewrite firstn_app, Nat.sub_diag, firstn_all. cbn [firstn]. apply app_nil_r.
  - intros i Hi. rewrite nth_error_app2 by exact Hi.
    rewrite <- (firstn_skipn (length b) r) at 2.
    rewrite nth_error_app2; rewrite firstn_length_le by exact H; [reflexivity | exact Hi].
Qed.

(** every [X_pack r a] is [do b <- X_pack_bytes a; splice r 0 b] *)
Lemma pack_splice_gen (packf : list Z -> res (list Z)) (r a b : list Z) :
  packf a = Ok b -> (length b <= length r)%nat ->
  exists r', (do b <- packf a; splice r 0 b) = Ok r' /\ length r' = length r /\
             firstn (length b) r' = b /\
             forall i, (length b <= i)%nat -> nth_error r' i = nth_error r i.
Proof.
  intros Hp Hl. rewrite Hp. cbn [bind]. rewrite splice0_ok by exact Hl.
  eexists; split; [reflexivity|]. apply overwrite_props. exact Hl.
Qed.

Lemma pack_splice_codec (packf : list Z -> res (list Z)) (r a bytes : list Z) (k : nat) :
  packf a = Ok bytes -> length bytes = k -> (k <= length r)%nat ->
  exists r', (do b <- packf a; splice r 0 b) = Ok r' /\ length r' = length r /\
             firstn k r' = bytes /\
             forall i, (k <= i)%nat -> nth_error r' i = nth_error r i.
Proof. intros Hp Hl Hr. subst k. apply pack_splice_gen; assumption. Qed.

(** * t1 : 10 bits, SimpleBitPack(t1, 2^10 - 1) *)
Definition t1_rng (c : Z) : Prop := 0 <= c < 1024.

Lemma t1_pack_group c0 c1 c2 c3 : t1_rng c0 -> t1_rng c1 -> t1_rng c2 -> t1_rng c3 ->
  [u8 (sar c0 0); u8 (Z.lor (sar c0 8) (shl32 c1 2)); u8 (Z.lor (sar c1 6) (shl32 c2 4));
        u8 (Z.lor (sar c2 4) (shl32 c3 6)); u8 (sar c3 2)] = bytes_of_int 5 (pack_int 10 [c0;c1;c2;c3]).
Proof.
  unfold t1_rng; intros.
  rewrite !sar_div by lia. rewrite !shl32_mul by (pow_norm; lia).
  rewrite !lor_mul_add by (pow_norm; lia).
  rewrite !u8_mod. cbn [bytes_of_int pack_int]. pow_norm.
  list_eq lia.
Qed.

Lemma t1_unpack_group b0 b1 b2 b3 b4 : is_byte b0 -> is_byte b1 -> is_byte b2 -> is_byte b3 -> is_byte b4 ->
  [Z.land (Z.lor (sar b0 0) (Z.shiftl b1 8)) 1023; Z.land (Z.lor (sar b1 2) (Z.shiftl b2 6)) 1023;
   Z.land (Z.lor (sar b2 4) (Z.shiftl b3 4)) 1023; Z.land (Z.lor (sar b3 6) (Z.shiftl b4 2)) 1023]
  = unpack_int 10 4 (int_of_bytes [b0;b1;b2;b3;b4]).
Proof.
  unfold is_byte; intros.
  rewrite !sar_div by lia. rewrite !lor_shl_add by (pow_norm; lia).
  change 1023 with (Z.ones 10). rewrite !Z.land_ones by lia.
  cbn [unpack_int int_of_bytes pack_int]. pow_norm.
  list_eq lia.
Qed.

Theorem t1_pack_spec_gen n a : Forall t1_rng a -> length a = (4 * n)%nat ->
  t1_pack_bytes a = Ok (S_bitpack 10 a).
Proof.
  revert a; induction n as [|n IH]; intros a Hr Hl.
  - destruct a; [reflexivity | discriminate].
  - destruct a as [|c0 [|c1 [|c2 [|c3 rest]]]]; cbn [length] in Hl; try lia.
    inv_forall. cbn [t1_pack_bytes]. rewrite IH by (auto; lia). cbn [bind].
    change (c0 :: c1 :: c2 :: c3 :: rest) with ([c0; c1; c2; c3] ++ rest).
    rewrite (S_bitpack_group 10 5); [| lia | fa_solve | reflexivity].
    rewrite <- t1_pack_group by assumption. reflexivity.
Qed.

Theorem t1_unpack_list_spec n b : Forall is_byte b -> (5 * n <= length b)%nat ->
  t1_unpack_list n b = Ok (S_bitunpack 10 (4 * n) b).
Proof.
  revert b; induction n as [|n IH]; intros b Hr Hl.
  - reflexivity.
  - destruct b as [|b0 [|b1 [|b2 [|b3 [|b4 rest]]]]]; cbn [length] in Hl; try lia.
    inv_forall. cbn [t1_unpack_list]. rewrite IH by (auto; lia). cbn [bind].
    replace (4 * S n)%nat with (4 + 4 * n)%nat by lia.
    change (b0 :: b1 :: b2 :: b3 :: b4 :: rest) with ([b0; b1; b2; b3; b4] ++ rest).
    rewrite (S_bitunpack_group 10 4); [| lia | fa_solve | reflexivity].
    rewrite <- t1_unpack_group by assumption. reflexivity.
Qed.

Theorem t1_pack_spec a : Forall t1_rng a -> length a = 256%nat ->
  t1_pack_bytes a = Ok (S_bitpack 10 a) /\ length (S_bitpack 10 a) = 320%nat.
Proof.
  intros Hr Hl. split; [apply (t1_pack_spec_gen 64); assumption|].
  rewrite S_bitpack_length. unfold zlen. rewrite Hl. reflexivity.
Qed.

Theorem t1_unpack_spec b : Forall is_byte b -> (320 <= length b)%nat ->
  t1_unpack b = Ok (S_bitunpack 10 256 b).
Proof. intros Hb Hl. apply (t1_unpack_list_spec 64); assumption. Qed.

Lemma t1_pack_spec' a : Forall t1_rng a -> length a = 256%nat ->
  t1_pack_bytes a = Ok (S_bitpack 10 (map (fun c => c) a)).
Proof. intros. rewrite map_id. apply t1_pack_spec; assumption. Qed.
Lemma t1_unpack_spec' b : Forall is_byte b -> (320 <= length b)%nat ->
  t1_unpack b = Ok (map (fun c => c) (S_bitunpack 10 256 b)).
Proof. intros. rewrite map_id. apply t1_unpack_spec; assumption. Qed.

Theorem t1_unpack_pack a b : Forall t1_rng a -> length a = 256%nat ->
  t1_pack_bytes a = Ok b -> t1_unpack b = Ok a.
Proof.
  apply gen_unpack_pack with (bits := 10) (ncoef := 256%nat) (kbytes := 320%nat) (enc := fun c => c) (dec := fun c => c);
    auto using t1_pack_spec', t1_unpack_spec'; lia.
Qed.

Theorem t1_unpack_total b : Forall is_byte b -> (320 <= length b)%nat ->
  exists a, t1_unpack b = Ok a /\ length a = 256%nat /\ Forall t1_rng a.
Proof.
  apply gen_unpack_total with (bits := 10) (ncoef := 256%nat) (kbytes := 320%nat) (dec := fun c => c); auto using t1_unpack_spec'; lia.
Qed.

Theorem t1_pack_unpack a b : Forall is_byte b -> length b = 320%nat ->
  t1_unpack b = Ok a -> t1_pack_bytes a = Ok b.
Proof.
  apply gen_pack_unpack with (bits := 10) (ncoef := 256%nat) (kbytes := 320%nat) (enc := fun c => c) (dec := fun c => c) (rng := t1_rng);
    auto using t1_pack_spec', t1_unpack_spec'; lia.
Qed.

Theorem t1_pack_splice r a : Forall t1_rng a -> length a = 256%nat -> (320 <= length r)%nat ->
  exists r', t1_pack r a = Ok r' /\ length r' = length r /\ firstn 320 r' = S_bitpack 10 a /\
             forall i, (320 <= i)%nat -> nth_error r' i = nth_error r i.
Proof.
  intros Hr Hl Hlr. destruct (t1_pack_spec a Hr Hl) as [Hp Hlen].
  destruct (pack_splice_gen t1_pack_bytes r a _ Hp) as (r' & E & L & F & N); [lia|].
  rewrite Hlen in *. exists r'. auto.
Qed.

(** * eta = 4 : 4 bits, BitPack(w, 4, 4) *)
Definition eta4_rng (c : Z) : Prop := -4 <= c <= 4.
Definition eta4_drng (c : Z) : Prop := -11 <= c <= 4.

Lemma eta4_pack_eq c0 c1 rest : eta_pack_bytes 4 (c0 :: c1 :: rest) =
  do t0 <- i32_sub 4 c0; do t1 <- i32_sub 4 c1;
  do r <- eta_pack_bytes 4 rest;
  Ok (Z.lor (u8 t0) (shl8 (u8 t1) 4) :: r).
Proof. reflexivity. Qed.

Lemma eta4_unpack_eq n b0 rest : eta_unpack_list 4 (S n) (b0 :: rest) =
  do r0 <- i32_sub 4 (Z.land b0 15);
  do r1 <- i32_sub 4 (sar b0 4);
  do r <- eta_unpack_list 4 n rest;
  Ok (r0 :: r1 :: r).
Proof. reflexivity. Qed.

Lemma eta4_pack_group t0 t1 : 0 <= t0 <= 8 -> 0 <= t1 <= 8 ->
  [Z.lor (u8 t0) (shl8 (u8 t1) 4)] = bytes_of_int 1 (pack_int 4 [t0; t1]).
Proof.
  intros. rewrite !u8_mod, shl8_mul by lia. rewrite lor_mod_add by (pow_norm; lia).
  cbn [bytes_of_int pack_int]. pow_norm. list_eq lia.
Qed.

Theorem eta4_pack_spec_gen n a : Forall eta4_rng a -> length a = (2 * n)%nat ->
  eta_pack_bytes 4 a = Ok (S_bitpack 4 (map (bp_shift 4) a)).
Proof.
  revert a; induction n as [|n IH]; intros a Hr Hl.
  - destruct a; [reflexivity | discriminate].
  - destruct a as [|c0 [|c1 rest]]; cbn [length] in Hl; try lia.
    inv_forall. unfold eta4_rng in *. rewrite eta4_pack_eq. rewrite !i32_sub_ok by lia. cbn [bind].
    rewrite IH by (auto; lia). cbn [bind map].
    change (bp_shift 4 c0 :: bp_shift 4 c1 :: map (bp_shift 4) rest)
      with ([4 - c0; 4 - c1] ++ map (bp_shift 4) rest).
    rewrite (S_bitpack_group 4 1); [| lia | unfold in_bits; pow_norm; fa_by lia | reflexivity].
    rewrite <- eta4_pack_group by lia. reflexivity.
Qed.

Lemma eta4_unpack_group b0 : is_byte b0 ->
  [4 - Z.land b0 15; 4 - sar b0 4] = map (bp_shift 4) (unpack_int 4 2 (int_of_bytes [b0])).
Proof.
  unfold is_byte; intros. rewrite sar_div by lia.
  change 15 with (Z.ones 4). rewrite !Z.land_ones by lia.
  cbn [unpack_int int_of_bytes pack_int map]. unfold bp_shift. pow_norm. list_eq lia.
Qed.

Theorem eta4_unpack_list_spec n b : Forall is_byte b -> (n <= length b)%nat ->
  eta_unpack_list 4 n b = Ok (map (bp_shift 4) (S_bitunpack 4 (2 * n) b)).
Proof.
  revert b; induction n as [|n IH]; intros b Hr Hl.
  - reflexivity.
  - destruct b as [|b0 rest]; cbn [length] in Hl; try lia.
    inv_forall. rewrite eta4_unpack_eq.
    assert (B0 : 0 <= Z.land b0 15 < 16).
    { change 15 with (Z.ones 4). rewrite Z.land_ones by lia. pow_norm. lia. }
    assert (B1 : 0 <= sar b0 4 < 16).
    { rewrite sar_div by lia. unfold is_byte in Hc. pow_norm. lia. }
    rewrite !i32_sub_ok by lia. cbn [bind].
    rewrite IH by (auto; lia). cbn [bind].
    replace (2 * S n)%nat with (2 + 2 * n)%nat by lia.
    change (b0 :: rest) with ([b0] ++ rest).
    rewrite (S_bitunpack_group 4 2); [| lia | fa_solve | reflexivity].
    rewrite map_app. rewrite <- eta4_unpack_group by assumption. reflexivity.
Qed.

Theorem eta4_pack_spec a : Forall eta4_rng a -> length a = 256%nat ->
  eta_pack_bytes 4 a = Ok (S_bitpack 4 (map (bp_shift 4) a)) /\
  length (S_bitpack 4 (map (bp_shift 4) a)) = 128%nat.
Proof.
  intros Hr Hl. split; [apply (eta4_pack_spec_gen 128); assumption|].
  apply (gen_pack_length 4 256); [reflexivity|]. rewrite map_length. exact Hl.
Qed.

Theorem eta4_unpack_spec b : Forall is_byte b -> (128 <= length b)%nat ->
  eta_unpack 4 b = Ok (map (bp_shift 4) (S_bitunpack 4 256 b)).
Proof. intros Hb Hl. apply (eta4_unpack_list_spec 128); assumption. Qed.

Theorem eta4_unpack_pack a b : Forall eta4_rng a -> length a = 256%nat ->
  eta_pack_bytes 4 a = Ok b -> eta_unpack 4 b = Ok a.
Proof.
  apply gen_unpack_pack with (bits := 4) (ncoef := 256%nat) (kbytes := 128%nat) (enc := bp_shift 4) (dec := bp_shift 4);
    try (intros; apply eta4_pack_spec; assumption); try exact eta4_unpack_spec;
    try apply bp_shift_invol; try lia.
  unfold eta4_rng, in_bits, bp_shift. pow_norm. lia.
Qed.

Theorem eta4_unpack_total b : Forall is_byte b -> (128 <= length b)%nat ->
  exists a, eta_unpack 4 b = Ok a /\ length a = 256%nat /\ Forall eta4_drng a.
Proof.
  apply gen_unpack_total with (bits := 4) (ncoef := 256%nat) (kbytes := 128%nat) (dec := bp_shift 4);
    try exact eta4_unpack_spec; try lia.
  unfold eta4_drng, in_bits, bp_shift. pow_norm. lia.
Qed.

Theorem eta4_pack_splice r a : Forall eta4_rng a -> length a = 256%nat -> (128 <= length r)%nat ->
  exists r', eta_pack 4 r a = Ok r' /\ length r' = length r /\
             firstn 128 r' = S_bitpack 4 (map (bp_shift 4) a) /\
             forall i, (128 <= i)%nat -> nth_error r' i = nth_error r i.
Proof.
  intros Hr Hl Hlr. destruct (eta4_pack_spec a Hr Hl) as [Hp Hlen].
  exact (pack_splice_codec (eta_pack_bytes 4) r a _ _ Hp Hlen Hlr).
Qed.

(** * w1, 4 bits *)
Definition w14_rng (c : Z) : Prop := 0 <= c < 16.

Lemma w14_pack_eq c0 c1 rest : w1_pack_bytes false (c0 :: c1 :: rest) =
  do r <- w1_pack_bytes false rest; Ok (u8 (Z.lor c0 (shl32 c1 4)) :: r).
Proof. reflexivity. Qed.

Lemma w14_pack_group c0 c1 : w14_rng c0 -> w14_rng c1 ->
  [u8 (Z.lor c0 (shl32 c1 4))] = bytes_of_int 1 (pack_int 4 [c0; c1]).
Proof.
  unfold w14_rng; intros. rewrite !shl32_mul by (pow_norm; lia). lor_norm.
  rewrite !u8_mod. cbn [bytes_of_int pack_int]. pow_norm. list_eq lia.
Qed.

Theorem w14_pack_spec_gen n a : Forall w14_rng a -> length a = (2 * n)%nat ->
  w1_pack_bytes false a = Ok (S_bitpack 4 a).
Proof.
  revert a; induction n as [|n IH]; intros a Hr Hl.
  - destruct a; [reflexivity | discriminate].
  - destruct a as [|c0 [|c1 rest]]; cbn [length] in Hl; try lia.
    inv_forall. rewrite w14_pack_eq. rewrite IH by (auto; lia). cbn [bind].
    change (c0 :: c1 :: rest) with ([c0; c1] ++ rest).
    rewrite (S_bitpack_group 4 1); [| lia | fa_solve | reflexivity].
    rewrite <- w14_pack_group by assumption. reflexivity.
Qed.

Theorem w14_pack_spec a : Forall w14_rng a -> length a = 256%nat ->
  w1_pack_bytes false a = Ok (S_bitpack 4 a) /\ length (S_bitpack 4 a) = 128%nat.
Proof.
  intros Hr Hl. split; [apply (w14_pack_spec_gen 128); assumption|].
  apply (gen_pack_length 4 256); [reflexivity| exact Hl].
Qed.

Theorem w14_pack_splice r a : Forall w14_rng a -> length a = 256%nat -> (128 <= length r)%nat ->
  exists r', w1_pack false r a = Ok r' /\ length r' = length r /\ firstn 128 r' = S_bitpack 4 a /\
             forall i, (128 <= i)%nat -> nth_error r' i = nth_error r i.
Proof.
  intros Hr Hl Hlr. destruct (w14_pack_spec a Hr Hl) as [Hp Hlen].
  exact (pack_splice_codec (w1_pack_bytes false) r a _ _ Hp Hlen Hlr).
Qed.

(** * w1, 6 bits *)
Definition w16_rng (c : Z) : Prop := 0 <= c < 64.

(** the values that occur (w1 <= 43 for gamma2 = (q-1)/88) are in range *)
Lemma w16_rng_44 c : 0 <= c < 44 -> w16_rng c.
Proof. unfold w16_rng; lia. Qed.

Lemma w16_pack_eq c0 c1 c2 c3 rest : w1_pack_bytes true (c0 :: c1 :: c2 :: c3 :: rest) =
  do r <- w1_pack_bytes true rest;
  Ok (Z.lor (u8 c0) (u8 (shl32 c1 6)) :: Z.lor (u8 (sar c1 2)) (u8 (shl32 c2 4))
      :: Z.lor (u8 (sar c2 4)) (u8 (shl32 c3 2)) :: r).
Proof. reflexivity. Qed.

Lemma w16_pack_group c0 c1 c2 c3 : w16_rng c0 -> w16_rng c1 -> w16_rng c2 -> w16_rng c3 ->
  [Z.lor (u8 c0) (u8 (shl32 c1 6)); Z.lor (u8 (sar c1 2)) (u8 (shl32 c2 4));
   Z.lor (u8 (sar c2 4)) (u8 (shl32 c3 2))] = bytes_of_int 3 (pack_int 6 [c0; c1; c2; c3]).
Proof.
  unfold w16_rng; intros. rewrite !lor_u8. rewrite !sar_div by lia.
  rewrite !shl32_mul by (pow_norm; lia). lor_norm.
  rewrite !u8_mod. cbn [bytes_of_int pack_int]. pow_norm. list_eq lia.
Qed.

Theorem w16_pack_spec_gen n a : Forall w16_rng a -> length a = (4 * n)%nat ->
  w1_pack_bytes true a = Ok (S_bitpack 6 a).
Proof.
  revert a; induction n as [|n IH]; intros a Hr Hl.
  - destruct a; [reflexivity | discriminate].
  - destruct a as [|c0 [|c1 [|c2 [|c3 rest]]]]; cbn [length] in Hl; try lia.
    inv_forall. rewrite w16_pack_eq. rewrite IH by (auto; lia). cbn [bind].
    change (c0 :: c1 :: c2 :: c3 :: rest) with ([c0; c1; c2; c3] ++ rest).
    rewrite (S_bitpack_group 6 3); [| lia | fa_solve | reflexivity].
    rewrite <- w16_pack_group by assumption. reflexivity.
Qed.

Theorem w16_pack_spec a : Forall w16_rng a -> length a = 256%nat ->
  w1_pack_bytes true a = Ok (S_bitpack 6 a) /\ length (S_bitpack 6 a) = 192%nat.
Proof.
  intros Hr Hl. split; [apply (w16_pack_spec_gen 64); assumption|].
  apply (gen_pack_length 6 256); [reflexivity| exact Hl].
Qed.

Theorem w16_pack_splice r a : Forall w16_rng a -> length a = 256%nat -> (192 <= length r)%nat ->
  exists r', w1_pack true r a = Ok r' /\ length r' = length r /\ firstn 192 r' = S_bitpack 6 a /\
             forall i, (192 <= i)%nat -> nth_error r' i = nth_error r i.
Proof.
  intros Hr Hl Hlr. destruct (w16_pack_spec a Hr Hl) as [Hp Hlen].
  exact (pack_splice_codec (w1_pack_bytes true) r a _ _ Hp Hlen Hlr).
Qed.

(** * eta = 2 : 3 bits, BitPack(w, 2, 2) *)
Definition eta2_rng (c : Z) : Prop := -2 <= c <= 2.
Definition eta2_drng (c : Z) : Prop := -5 <= c <= 2.

Lemma eta2_pack_eq c0 c1 c2 c3 c4 c5 c6 c7 rest :
  eta_pack_bytes 2 (c0 :: c1 :: c2 :: c3 :: c4 :: c5 :: c6 :: c7 :: rest) =
  do t0 <- i32_sub 2 c0; do t1 <- i32_sub 2 c1; do t2 <- i32_sub 2 c2; do t3 <- i32_sub 2 c3;
  do t4 <- i32_sub 2 c4; do t5 <- i32_sub 2 c5; do t6 <- i32_sub 2 c6; do t7 <- i32_sub 2 c7;
  do r <- eta_pack_bytes 2 rest;
  Ok (Z.lor (Z.lor (sar (u8 t0) 0) (shl8 (u8 t1) 3)) (shl8 (u8 t2) 6)
      :: Z.lor (Z.lor (Z.lor (sar (u8 t2) 2) (shl8 (u8 t3) 1)) (shl8 (u8 t4) 4)) (shl8 (u8 t5) 7)
      :: Z.lor (Z.lor (sar (u8 t5) 1) (shl8 (u8 t6) 2)) (shl8 (u8 t7) 5) :: r).
Proof. reflexivity. Qed.

Lemma eta2_unpack_eq n b0 b1 b2 rest : eta_unpack_list 2 (S n) (b0 :: b1 :: b2 :: rest) =
  do r0 <- i32_sub 2 (Z.land b0 7);
  do r1 <- i32_sub 2 (Z.land (sar b0 3) 7);
  do r2 <- i32_sub 2 (Z.land (Z.lor (sar b0 6) (shl8 b1 2)) 7);
  do r3 <- i32_sub 2 (Z.land (sar b1 1) 7);
  do r4 <- i32_sub 2 (Z.land (sar b1 4) 7);
  do r5 <- i32_sub 2 (Z.land (Z.lor (sar b1 7) (shl8 b2 1)) 7);
  do r6 <- i32_sub 2 (Z.land (sar b2 2) 7);
  do r7 <- i32_sub 2 (Z.land (sar b2 5) 7);
  do r <- eta_unpack_list 2 n rest;
  Ok (r0 :: r1 :: r2 :: r3 :: r4 :: r5 :: r6 :: r7 :: r).
Proof. reflexivity. Qed.

Lemma eta2_pack_group t0 t1 t2 t3 t4 t5 t6 t7 :
  0 <= t0 <= 4 -> 0 <= t1 <= 4 -> 0 <= t2 <= 4 -> 0 <= t3 <= 4 ->
  0 <= t4 <= 4 -> 0 <= t5 <= 4 -> 0 <= t6 <= 4 -> 0 <= t7 <= 4 ->
  [Z.lor (Z.lor (sar (u8 t0) 0) (shl8 (u8 t1) 3)) (shl8 (u8 t2) 6);
   Z.lor (Z.lor (Z.lor (sar (u8 t2) 2) (shl8 (u8 t3) 1)) (shl8 (u8 t4) 4)) (shl8 (u8 t5) 7);
   Z.lor (Z.lor (sar (u8 t5) 1) (shl8 (u8 t6) 2)) (shl8 (u8 t7) 5)]
  = bytes_of_int 3 (pack_int 3 [t0; t1; t2; t3; t4; t5; t6; t7]).
Proof.
  intros. rewrite !u8_mod. rewrite !Z.mod_small by lia.
  rewrite !sar_div, !shl8_mul by lia. lor_norm.
  cbn [bytes_of_int pack_int]. pow_norm. list_eq lia.
Qed.

Lemma land7 x : Z.land x 7 = x mod 8.
Proof. change 7 with (Z.ones 3). rewrite Z.land_ones by lia. reflexivity. Qed.

Lemma eta2_unpack_group b0 b1 b2 : is_byte b0 -> is_byte b1 -> is_byte b2 ->
  [2 - Z.land b0 7; 2 - Z.land (sar b0 3) 7; 2 - Z.land (Z.lor (sar b0 6) (shl8 b1 2)) 7;
   2 - Z.land (sar b1 1) 7; 2 - Z.land (sar b1 4) 7; 2 - Z.land (Z.lor (sar b1 7) (shl8 b2 1)) 7;
   2 - Z.land (sar b2 2) 7; 2 - Z.land (sar b2 5) 7]
  = map (bp_shift 2) (unpack_int 3 8 (int_of_bytes [b0; b1; b2])).
Proof.
  unfold is_byte; intros. rewrite !sar_div, !shl8_mul by lia. lor_norm. rewrite !land7.
  cbn [unpack_int int_of_bytes pack_int map]. unfold bp_shift. pow_norm. list_eq lia.
Qed.

Theorem eta2_pack_spec_gen n a : Forall eta2_rng a -> length a = (8 * n)%nat ->
  eta_pack_bytes 2 a = Ok (S_bitpack 3 (map (bp_shift 2) a)).
Proof.
  revert a; induction n as [|n IH]; intros a Hr Hl.
  - destruct a; [reflexivity | discriminate].
  - destruct a as [|c0 [|c1 [|c2 [|c3 [|c4 [|c5 [|c6 [|c7 rest]]]]]]]]; cbn [length] in Hl; try lia.
    inv_forall. unfold eta2_rng in *. rewrite eta2_pack_eq. rewrite !i32_sub_ok by lia. cbn [bind].
    rewrite IH by (auto; lia). cbn [bind map].
    match goal with |- context [S_bitpack 3 (?x0 :: ?x1 :: ?x2 :: ?x3 :: ?x4 :: ?x5 :: ?x6 :: ?x7 :: ?r)] =>
      change (x0 :: x1 :: x2 :: x3 :: x4 :: x5 :: x6 :: x7 :: r)
        with ([2 - c0; 2 - c1; 2 - c2; 2 - c3; 2 - c4; 2 - c5; 2 - c6; 2 - c7] ++ r) end.
    rewrite (S_bitpack_group 3 3); [| lia | unfold in_bits; pow_norm; fa_by lia | reflexivity].
    rewrite <- eta2_pack_group by lia. reflexivity.
Qed.

Theorem eta2_unpack_list_spec n b : Forall is_byte b -> (3 * n <= length b)%nat ->
  eta_unpack_list 2 n b = Ok (map (bp_shift 2) (S_bitunpack 3 (8 * n) b)).
Proof.
  revert b; induction n as [|n IH]; intros b Hr Hl.
  - reflexivity.
  - destruct b as [|b0 [|b1 [|b2 rest]]]; cbn [length] in Hl; try lia.
    inv_forall. rewrite eta2_unpack_eq.
    assert (B : forall x, 0 <= Z.land x 7 < 8) by (intros; rewrite land7; lia).
    rewrite !i32_sub_ok by (match goal with |- context [Z.land ?x 7] => pose proof (B x) end; lia).
    cbn [bind]. rewrite IH by (auto; lia). cbn [bind].
    replace (8 * S n)%nat with (8 + 8 * n)%nat by lia.
    change (b0 :: b1 :: b2 :: rest) with ([b0; b1; b2] ++ rest).
    rewrite (S_bitunpack_group 3 8); [| lia | fa_solve | reflexivity].
    rewrite map_app. rewrite <- eta2_unpack_group by assumption. reflexivity.
Qed.

Theorem eta2_pack_spec a : Forall eta2_rng a -> length a = 256%nat ->
  eta_pack_bytes 2 a = Ok (S_bitpack 3 (map (bp_shift 2) a)) /\
  length (S_bitpack 3 (map (bp_shift 2) a)) = 96%nat.
Proof.
  intros Hr Hl. split; [apply (eta2_pack_spec_gen 32); assumption|].
  apply (gen_pack_length 3 256); [reflexivity|]. rewrite map_length. exact Hl.
Qed.

Theorem eta2_unpack_spec b : Forall is_byte b -> (96 <= length b)%nat ->
  eta_unpack 2 b = Ok (map (bp_shift 2) (S_bitunpack 3 256 b)).
Proof. intros Hb Hl. apply (eta2_unpack_list_spec 32); assumption. Qed.

Theorem eta2_unpack_pack a b : Forall eta2_rng a -> length a = 256%nat ->
  eta_pack_bytes 2 a = Ok b -> eta_unpack 2 b = Ok a.
Proof.
  apply gen_unpack_pack with (bits := 3) (ncoef := 256%nat) (kbytes := 96%nat) (enc := bp_shift 2) (dec := bp_shift 2);
    try (intros; apply eta2_pack_spec; assumption); try exact eta2_unpack_spec;
    try apply bp_shift_invol; try lia.
  unfold eta2_rng, in_bits, bp_shift. pow_norm. lia.
Qed.

Theorem eta2_unpack_total b : Forall is_byte b -> (96 <= length b)%nat ->
  exists a, eta_unpack 2 b = Ok a /\ length a = 256%nat /\ Forall eta2_drng a.
Proof.
  apply gen_unpack_total with (bits := 3) (ncoef := 256%nat) (kbytes := 96%nat) (dec := bp_shift 2);
    try exact eta2_unpack_spec; try lia.
  unfold eta2_drng, in_bits, bp_shift. pow_norm. lia.
Qed.

Theorem eta2_pack_splice r a : Forall eta2_rng a -> length a = 256%nat -> (96 <= length r)%nat ->
  exists r', eta_pack 2 r a = Ok r' /\ length r' = length r /\
             firstn 96 r' = S_bitpack 3 (map (bp_shift 2) a) /\
             forall i, (96 <= i)%nat -> nth_error r' i = nth_error r i.
Proof.
  intros Hr Hl Hlr. destruct (eta2_pack_spec a Hr Hl) as [Hp Hlen].
  exact (pack_splice_codec (eta_pack_bytes 2) r a _ _ Hp Hlen Hlr).
Qed.

(** * Restatement against the FIPS 204 functions themselves *)
Theorem t1_pack_fips a : Forall t1_rng a -> length a = 256%nat ->
  t1_pack_bytes a = Ok (SimpleBitPack a (2 ^ 10 - 1)).
Proof.
  intros Hr Hl. rewrite SimpleBitPack_eq; [apply t1_pack_spec; assumption | exact Hr | rewrite Hl; reflexivity].
Qed.

Theorem t1_unpack_fips b : Forall is_byte b -> (320 <= length b)%nat ->
  t1_unpack b = Ok (SimpleBitUnpack b (2 ^ 10 - 1)).
Proof.
  intros Hb Hl. unfold SimpleBitUnpack. rewrite SimpleBitUnpack_eq by exact Hb.
  apply t1_unpack_spec; assumption.
Qed.

Theorem w16_pack_fips a : Forall w16_rng a -> length a = 256%nat ->
  w1_pack_bytes true a = Ok (SimpleBitPack a 43).      (* (q-1)/(2*gamma2) - 1 = 43 *)
Proof.
  intros Hr Hl. rewrite SimpleBitPack_eq; [apply w16_pack_spec; assumption | exact Hr | rewrite Hl; reflexivity].
Qed.

Theorem w14_pack_fips a : Forall w14_rng a -> length a = 256%nat ->
  w1_pack_bytes false a = Ok (SimpleBitPack a 15).     (* (q-1)/(2*gamma2) - 1 = 15 *)
Proof.
  intros Hr Hl. rewrite SimpleBitPack_eq; [apply w14_pack_spec; assumption | exact Hr | rewrite Hl; reflexivity].
Qed.

Theorem eta2_pack_fips a : Forall eta2_rng a -> length a = 256%nat ->
  eta_pack_bytes 2 a = Ok (BitPack a 2 2).
Proof.
  intros Hr Hl. rewrite BitPack_eq; [apply eta2_pack_spec; assumption | | rewrite Hl; reflexivity].
  apply (Forall_map_intro eta2_rng); [|exact Hr].
  intros c Hc. change (Z.of_nat (bitlen (2 + 2))) with 3. unfold eta2_rng, in_bits, bp_shift in *. pow_norm. lia.
Qed.

Theorem eta2_unpack_fips b : Forall is_byte b -> (96 <= length b)%nat ->
  eta_unpack 2 b = Ok (BitUnpack b 2 2).
Proof.
  intros Hb Hl. unfold BitUnpack. rewrite BitUnpack_eq by exact Hb. apply eta2_unpack_spec; assumption.
Qed.

Theorem eta4_pack_fips a : Forall eta4_rng a -> length a = 256%nat ->
  eta_pack_bytes 4 a = Ok (BitPack a 4 4).
Proof.
  intros Hr Hl. rewrite BitPack_eq; [apply eta4_pack_spec; assumption | | rewrite Hl; reflexivity].
  apply (Forall_map_intro eta4_rng); [|exact Hr].
  intros c Hc. change (Z.of_nat (bitlen (4 + 4))) with 4. unfold eta4_rng, in_bits, bp_shift in *. pow_norm. lia.
Qed.

Theorem eta4_unpack_fips b : Forall is_byte b -> (128 <= length b)%nat ->
  eta_unpack 4 b = Ok (BitUnpack b 4 4).
Proof.
  intros Hb Hl. unfold BitUnpack. rewrite BitUnpack_eq by exact Hb. apply eta4_unpack_spec; assumption.
Qed.

Print Assumptions S_bitpack_bits_eq.
Print Assumptions S_bitunpack_bits_eq.
Print Assumptions S_unpack_pack.
Print Assumptions S_pack_unpack.
Print Assumptions pack_splice_gen.
Print Assumptions t1_pack_spec.
Print Assumptions t1_unpack_spec.
Print Assumptions t1_unpack_pack.
Print Assumptions t1_unpack_total.
Print Assumptions t1_pack_unpack.
Print Assumptions t1_pack_splice.
Print Assumptions t1_pack_fips.
Print Assumptions t1_unpack_fips.
Print Assumptions eta4_pack_spec.
Print Assumptions eta4_unpack_spec.
Print Assumptions eta4_unpack_pack.
Print Assumptions eta4_unpack_total.
Print Assumptions eta4_pack_splice.
Print Assumptions eta4_pack_fips.
Print Assumptions eta4_unpack_fips.
Print Assumptions eta2_pack_spec.
Print Assumptions eta2_unpack_spec.
Print Assumptions eta2_unpack_pack.
Print Assumptions eta2_unpack_total.
Print Assumptions eta2_pack_splice.
Print Assumptions eta2_pack_fips.
Print Assumptions eta2_unpack_fips.
Print Assumptions w14_pack_spec.
Print Assumptions w14_pack_splice.
Print Assumptions w14_pack_fips.
Print Assumptions w16_pack_spec.
Print Assumptions w16_pack_splice.
Print Assumptions w16_pack_fips.
