(** The model's reduction kernels ARE the translator's reading of /repo/src/reduce.rs (GenK.v, regenerated on every
    run). If the source text of montgomery_reduce / reduce32 / caddq changes meaning, one of these stops checking,
    and with it the source-level statements of C14 (PSrcReduce.v). *)
From DV Require Import Base GenK MReduce.

Ltac res_step :=
  match goal with
  | |- context [bind ?m _] =>
      lazymatch m with Ok _ => fail | bind _ _ => fail | _ => idtac end;
      destruct m as [?| |]; cbn [bind]
  end.
Ltac res_eq := intros; repeat res_step; try reflexivity.

Lemma src_montgomery_reduce_ok : forall a, src_montgomery_reduce a = montgomery_reduce a.
Proof. intros; reflexivity. Qed.
Lemma src_reduce32_ok : forall a, src_reduce32 a = reduce32 a.
Proof. intros; reflexivity. Qed.
Lemma src_caddq_ok : forall a, src_caddq a = caddq a.
Proof. intros; reflexivity. Qed.
