(** C02 — Any alteration of signature, message, context, mode or key is rejected.
    Rejection of altered data is a strong-unforgeability statement: its truth rests on SHAKE-256 collision
    resistance and SelfTargetMSIS, which no proof assistant can establish. This file holds the STRUCTURAL part
    that is provable and on which the argument stands (names end in _partial where the full property would need
    the cryptographic assumption): the length gate (truncation/extension), acceptance only through the strict
    decoder, comparison of ALL challenge bytes, and dependence of the verdict on nothing but the decoded
    triple. The negatives themselves (every single-bit flip, every altered message/context/mode/key) are
    evaluated on the crate and the model by the check (see evidence). *)
From DV Require Import Base MReduce MParams MPoly MPolyvec MPacking MSign MApi PNorm PSignStruct.

Theorem C02_truncated_or_extended_rejected : forall (P : params) (sig m pk : list Z),
  zlen sig <> pSIG P -> verify P sig m pk = Ok false.
Proof. exact verify_length_gate. Qed.
Print Assumptions C02_truncated_or_extended_rejected.

Theorem C02_acceptance_partial :
  forall (P : params) (sig m pk : list Z), verify P sig m pk = Ok true ->
  zlen sig = pSIG P /\
  exists rho t1 c z h,
    unpack_pk P (repeatZ 0 32) (zvec (pK P)) pk = Ok (rho, t1) /\
    unpack_sig P (repeatZ 0 (pCT P)) (zvec (pL P)) (zvec (pK P)) sig = Ok (c, z, h, true) /\
    exists cn, l_chknorm P z (pGAMMA1 P - pBETA P) = Ok cn /\ cn <= 0 /\
    exists c2, verify_tail P m pk rho t1 c z h c2 /\ c = c2.
Proof. exact verify_true_inv. Qed.
Print Assumptions C02_acceptance_partial.

(** the verdict depends on the signature bytes only through the length test and the decoded (c, z, h, ok) *)
Theorem C02_verdict_depends_on_decoding : forall (P : params) (sig sig' m pk : list Z),
  (zlen sig =? pSIG P) = (zlen sig' =? pSIG P) ->
  unpack_sig P (repeatZ 0 (pCT P)) (zvec (pL P)) (zvec (pK P)) sig =
  unpack_sig P (repeatZ 0 (pCT P)) (zvec (pL P)) (zvec (pK P)) sig' ->
  verify P sig m pk = verify P sig' m pk.
Proof. exact verify_depends_on_decoding. Qed.
Print Assumptions C02_verdict_depends_on_decoding.

Theorem C02_any_challenge_byte_mismatch_rejected :
  forall (P : params) (sig m pk rho : list Z) (t1 : list (list Z)) (c : list Z) (z h : list (list Z)) (ok : bool) (c2 : list Z),
  unpack_pk P (repeatZ 0 32) (zvec (pK P)) pk = Ok (rho, t1) ->
  unpack_sig P (repeatZ 0 (pCT P)) (zvec (pL P)) (zvec (pK P)) sig = Ok (c, z, h, ok) ->
  verify_tail P m pk rho t1 c z h c2 -> c <> c2 ->
  forall b, verify P sig m pk = Ok b -> b = false.
Proof. exact verify_rejects_challenge_mismatch. Qed.
Print Assumptions C02_any_challenge_byte_mismatch_rejected.
