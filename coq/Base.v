(** Base: result monad, Rust machine-integer semantics, checked array access.
    Definitions are executable; small lemmas about them live here too. *)
From Coq Require Export ZArith List Lia Bool.
Export ListNotations.
Open Scope Z_scope.

(** * Result monad: [Panic] is a Rust panic (overflow in a checked build, index out of bounds,
      failed slice/length check); [OutOfFuel] only arises from loops that are unbounded in Rust. *)
Inductive res (A : Type) : Type :=
| Ok (a : A)
| Panic
| OutOfFuel.
Arguments Ok {A} a.
Arguments Panic {A}.
Arguments OutOfFuel {A}.

Definition bind {A B} (m : res A) (f : A -> res B) : res B :=
  match m with
  | Ok a => f a
  | Panic => Panic
  | OutOfFuel => OutOfFuel
  end.

Notation "'do' x <- m ; f" := (bind m (fun x => f))
  (at level 200, x name, m at level 100, f at level 200, right associativity).
Notation "'do' ' p <- m ; f" := (bind m (fun x => match x with p => f end))
  (at level 200, p pattern, m at level 100, f at level 200, right associativity).

Fixpoint mapM {A B} (f : A -> res B) (l : list A) : res (list B) :=
  match l with
  | [] => Ok []
  | x :: xs => do y <- f x; do ys <- mapM f xs; Ok (y :: ys)
  end.

Fixpoint map2M {A B C} (f : A -> B -> res C) (l1 : list A) (l2 : list B) : res (list C) :=
  match l1, l2 with
  | [], [] => Ok []
  | x :: xs, y :: ys => do z <- f x y; do zs <- map2M f xs ys; Ok (z :: zs)
  | _, _ => Panic
  end.

Fixpoint foldM {A S} (f : S -> A -> res S) (l : list A) (s : S) : res S :=
  match l with
  | [] => Ok s
  | x :: xs => do s' <- f s x; foldM f xs s'
  end.

(** * Machine integers. Values are mathematical integers; every Rust operator is a named
      function with Rust's semantics in a build with overflow checks ("dev" profile). *)
(** two's-complement truncation to n bits (signed) / n bits (unsigned); written with masks so that it runs fast *)
Definition wrap (n : Z) (x : Z) : Z :=
  let m := Z.land x (Z.ones n) in if m <? 2 ^ (n - 1) then m else m - 2 ^ n.
Definition uwrap (n : Z) (x : Z) : Z := Z.land x (Z.ones n).

Definition in_signed (n : Z) (x : Z) : bool := (- 2 ^ (n - 1) <=? x) && (x <? 2 ^ (n - 1)).
Definition in_unsigned (n : Z) (x : Z) : bool := (0 <=? x) && (x <? 2 ^ n).

Definition chk_s (n : Z) (x : Z) : res Z := if in_signed n x then Ok x else Panic.
Definition chk_u (n : Z) (x : Z) : res Z := if in_unsigned n x then Ok x else Panic.

Definition i32_add a b := chk_s 32 (a + b).
Definition i32_sub a b := chk_s 32 (a - b).
Definition i32_mul a b := chk_s 32 (a * b).
Definition i32_neg a := chk_s 32 (- a).
Definition i64_add a b := chk_s 64 (a + b).
Definition i64_sub a b := chk_s 64 (a - b).
Definition i64_mul a b := chk_s 64 (a * b).
Definition u32_add a b := chk_u 32 (a + b).
Definition u32_sub a b := chk_u 32 (a - b).
Definition u32_mul a b := chk_u 32 (a * b).
Definition usize_add a b := chk_u 64 (a + b).
Definition usize_sub a b := chk_u 64 (a - b).
Definition usize_mul a b := chk_u 64 (a * b).
Definition u16_add a b := chk_u 16 (a + b).
Definition u16_mul a b := chk_u 16 (a * b).

Definition i32_wrapping_mul a b := wrap 32 (a * b).
Definition i64_wrapping_mul a b := wrap 64 (a * b).

(** [<<] on a signed/unsigned value of width [n]: truncating; panics only if the amount >= width *)
Definition shl_s (n : Z) (a k : Z) : res Z :=
  if (0 <=? k) && (k <? n) then Ok (wrap n (a * 2 ^ k)) else Panic.
Definition shl_u (n : Z) (a k : Z) : res Z :=
  if (0 <=? k) && (k <? n) then Ok (uwrap n (a * 2 ^ k)) else Panic.
(** [>>]: arithmetic on signed, logical on unsigned (both floor division on the value) *)
Definition shr (n : Z) (a k : Z) : res Z :=
  if (0 <=? k) && (k <? n) then Ok (Z.shiftr a k) else Panic.

(** * Arrays are lists; every access is bounds-checked. *)
Definition get {A} (l : list A) (i : Z) : res A :=
  if i <? 0 then Panic else
  match nth_error l (Z.to_nat i) with
  | Some x => Ok x
  | None => Panic
  end.

Fixpoint set_nat {A} (l : list A) (i : nat) (v : A) : res (list A) :=
  match l, i with
  | [], _ => Panic
  | _ :: xs, O => Ok (v :: xs)
  | x :: xs, S i' => do r <- set_nat xs i' v; Ok (x :: r)
  end.
Definition set {A} (l : list A) (i : Z) (v : A) : res (list A) :=
  if i <? 0 then Panic else set_nat l (Z.to_nat i) v.

Definition zlen {A} (l : list A) : Z := Z.of_nat (length l).

(** [&l[a..]] *)
Definition slice_from {A} (l : list A) (a : Z) : res (list A) :=
  if (0 <=? a) && (a <=? zlen l) then Ok (skipn (Z.to_nat a) l) else Panic.
(** [&l[..b]] *)
Definition slice_to {A} (l : list A) (b : Z) : res (list A) :=
  if (0 <=? b) && (b <=? zlen l) then Ok (firstn (Z.to_nat b) l) else Panic.
(** [&l[a..b]] *)
Definition slice {A} (l : list A) (a b : Z) : res (list A) :=
  if (0 <=? a) && (a <=? b) && (b <=? zlen l)
  then Ok (firstn (Z.to_nat (b - a)) (skipn (Z.to_nat a) l)) else Panic.
(** write [src] over [l] at offset [off] (a [copy_from_slice] into [l[off..off+len src]]) *)
Definition splice {A} (l : list A) (off : Z) (src : list A) : res (list A) :=
  if (0 <=? off) && (off + zlen src <=? zlen l)
  then Ok (firstn (Z.to_nat off) l ++ src ++ skipn (Z.to_nat (off + zlen src)) l) else Panic.

Definition repeatZ {A} (x : A) (n : Z) : list A := repeat x (Z.to_nat n).

(** integer range [a, a+1, ..., b-1] *)
Definition zrange (a b : Z) : list Z := map (fun i => a + Z.of_nat i) (seq 0 (Z.to_nat (b - a))).

Definition byteb (x : Z) : bool := (0 <=? x) && (x <? 256).
Definition is_byte (x : Z) : Prop := 0 <= x < 256.

(** * Lemmas *)
Lemma bind_ok {A B} (m : res A) (f : A -> res B) b :
  bind m f = Ok b -> exists a, m = Ok a /\ f a = Ok b.
Proof. destruct m; simpl; intros H; try discriminate. eauto. Qed.

Lemma pow2_pos n : 0 <= n -> 0 < 2 ^ n.
Proof. intros; apply Z.pow_pos_nonneg; lia. Qed.

Lemma wrap_mod n x : 0 < n -> wrap n x = (x + 2 ^ (n - 1)) mod 2 ^ n - 2 ^ (n - 1).
Proof.
  intros Hn. unfold wrap. rewrite Z.land_ones by lia.
  assert (H2 : 2 ^ n = 2 * 2 ^ (n - 1)).
  { replace n with (Z.succ (n - 1)) at 1 by lia. rewrite Z.pow_succ_r by lia. reflexivity. }
  assert (Hp : 0 < 2 ^ (n - 1)) by (apply pow2_pos; lia).
  pose proof (Z.mod_pos_bound x (2 ^ n) ltac:(lia)) as Hb.
  pose proof (Z.div_mod x (2 ^ n) ltac:(lia)) as Hd.
  destruct (Z.ltb_spec (x mod 2 ^ n) (2 ^ (n - 1))) as [Hlt|Hge].
  - symmetry. replace (x + 2 ^ (n - 1)) with ((x mod 2 ^ n + 2 ^ (n - 1)) + (x / 2 ^ n) * 2 ^ n) by lia.
    rewrite Z.mod_add by lia. rewrite Z.mod_small by lia. lia.
  - symmetry. replace (x + 2 ^ (n - 1)) with ((x mod 2 ^ n - 2 ^ (n - 1)) + (x / 2 ^ n + 1) * 2 ^ n) by lia.
    rewrite Z.mod_add by lia. rewrite Z.mod_small by lia. lia.
Qed.

Lemma wrap_spec n x : 0 < n ->
  exists k, wrap n x = x + k * 2 ^ n /\ - 2 ^ (n - 1) <= wrap n x < 2 ^ (n - 1).
Proof.
  intros Hn. rewrite wrap_mod by exact Hn.
  assert (H2 : 2 ^ n = 2 * 2 ^ (n - 1)).
  { replace n with (Z.succ (n - 1)) at 1 by lia. rewrite Z.pow_succ_r by lia. reflexivity. }
  assert (Hp : 0 < 2 ^ (n - 1)) by (apply pow2_pos; lia).
  exists (- ((x + 2 ^ (n - 1)) / 2 ^ n)).
  pose proof (Z.div_mod (x + 2 ^ (n - 1)) (2 ^ n)) as Hdm.
  pose proof (Z.mod_pos_bound (x + 2 ^ (n - 1)) (2 ^ n)) as Hb.
  split; [| lia].
  rewrite Z.mul_opp_l.
  rewrite (Z.mul_comm _ (2 ^ n)).
  lia.
Qed.

Lemma wrap_id n x : 0 < n -> - 2 ^ (n - 1) <= x < 2 ^ (n - 1) -> wrap n x = x.
Proof.
  intros Hn Hx. rewrite wrap_mod by exact Hn.
  assert (H2 : 2 ^ n = 2 * 2 ^ (n - 1)).
  { replace n with (Z.succ (n - 1)) at 1 by lia. rewrite Z.pow_succ_r by lia. reflexivity. }
  rewrite Z.mod_small; lia.
Qed.

Lemma uwrap_mod n x : 0 <= n -> uwrap n x = x mod 2 ^ n.
Proof. intros. unfold uwrap. apply Z.land_ones. lia. Qed.

Lemma chk_s_ok n x : - 2 ^ (n - 1) <= x < 2 ^ (n - 1) -> chk_s n x = Ok x.
Proof.
  intros H. unfold chk_s, in_signed.
  destruct (Z.leb_spec (- 2 ^ (n - 1)) x); destruct (Z.ltb_spec x (2 ^ (n - 1))); simpl; auto; lia.
Qed.

Lemma chk_s_inv n x y : chk_s n x = Ok y -> y = x /\ - 2 ^ (n - 1) <= x < 2 ^ (n - 1).
Proof.
  unfold chk_s, in_signed.
  destruct (Z.leb_spec (- 2 ^ (n - 1)) x); destruct (Z.ltb_spec x (2 ^ (n - 1))); simpl;
    intros E; inversion E; lia.
Qed.

Lemma chk_s_panic n x : ~ (- 2 ^ (n - 1) <= x < 2 ^ (n - 1)) -> chk_s n x = Panic.
Proof.
  intros H. unfold chk_s, in_signed.
  destruct (Z.leb_spec (- 2 ^ (n - 1)) x); destruct (Z.ltb_spec x (2 ^ (n - 1))); simpl; auto; lia.
Qed.

Lemma chk_u_ok n x : 0 <= x < 2 ^ n -> chk_u n x = Ok x.
Proof.
  intros H. unfold chk_u, in_unsigned.
  destruct (Z.leb_spec 0 x); destruct (Z.ltb_spec x (2 ^ n)); simpl; auto; lia.
Qed.

Lemma mapM_ok {A B} (f : A -> res B) (g : A -> B) (l : list A) :
  (forall x, In x l -> f x = Ok (g x)) -> mapM f l = Ok (map g l).
Proof.
  induction l as [|x xs IH]; simpl; intros H; [reflexivity|].
  rewrite (H x) by auto. simpl. rewrite IH by auto. reflexivity.
Qed.

Lemma mapM_length {A B} (f : A -> res B) l r : mapM f l = Ok r -> length r = length l.
Proof.
  revert r; induction l as [|x xs IH]; simpl; intros r H.
  - inversion H; reflexivity.
  - apply bind_ok in H as (y & _ & H). apply bind_ok in H as (ys & Hys & H).
    inversion H; subst. simpl. f_equal. auto.
Qed.

Lemma map2M_ok {A B C} (f : A -> B -> res C) (g : A -> B -> C) l1 l2 :
  length l1 = length l2 ->
  (forall x y, In (x, y) (combine l1 l2) -> f x y = Ok (g x y)) ->
  map2M f l1 l2 = Ok (map (fun p => g (fst p) (snd p)) (combine l1 l2)).
Proof.
  revert l2; induction l1 as [|x xs IH]; intros [|y ys]; simpl; intros Hl H; try discriminate; auto.
  rewrite (H x y) by auto. simpl. rewrite IH; auto.
Qed.

Lemma shr_ok n a k : 0 <= k < n -> shr n a k = Ok (a / 2 ^ k).
Proof.
  intros H. unfold shr. rewrite Z.shiftr_div_pow2 by lia.
  destruct (Z.leb_spec 0 k); destruct (Z.ltb_spec k n); simpl; auto; lia.
Qed.
Lemma shl_s_ok n a k : 0 <= k < n -> shl_s n a k = Ok (wrap n (a * 2 ^ k)).
Proof.
  intros H. unfold shl_s.
  destruct (Z.leb_spec 0 k); destruct (Z.ltb_spec k n); simpl; auto; lia.
Qed.
Lemma shl_u_ok n a k : 0 <= k < n -> shl_u n a k = Ok (uwrap n (a * 2 ^ k)).
Proof.
  intros H. unfold shl_u.
  destruct (Z.leb_spec 0 k); destruct (Z.ltb_spec k n); simpl; auto; lia.
Qed.
