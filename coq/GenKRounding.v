(** The model's rounding kernels ARE the translator's reading of /repo/src/rounding.rs and rounding/lvl{2,3,5}.rs
    (GenK.v, regenerated on every run); lvl2 is the gamma2 = (q-1)/88 instance, lvl3 and lvl5 the (q-1)/32 one.
    The source-level statements of C15 (PSrcRounding.v) depend on this file. *)
From DV Require Import Base GenK MReduce MRounding GenKReduce.

Lemma src_power2round_ok : forall a, src_power2round a = power2round a.
Proof. intros; reflexivity. Qed.

Lemma src_lvl2_decompose_ok : forall a, src_lvl2_decompose a = decompose true a.
Proof. unfold src_lvl2_decompose, decompose, GAMMA2, Q. res_eq. Qed.
Lemma src_lvl3_decompose_ok : forall a, src_lvl3_decompose a = decompose false a.
Proof. unfold src_lvl3_decompose, decompose, GAMMA2, Q. res_eq. Qed.
Lemma src_lvl5_decompose_ok : forall a, src_lvl5_decompose a = decompose false a.
Proof. unfold src_lvl5_decompose, decompose, GAMMA2, Q. res_eq. Qed.

Lemma src_lvl2_make_hint_ok : forall a0 a1, src_lvl2_make_hint a0 a1 = make_hint true a0 a1.
Proof. intros; reflexivity. Qed.
Lemma src_lvl3_make_hint_ok : forall a0 a1, src_lvl3_make_hint a0 a1 = make_hint false a0 a1.
Proof. intros; reflexivity. Qed.
Lemma src_lvl5_make_hint_ok : forall a0 a1, src_lvl5_make_hint a0 a1 = make_hint false a0 a1.
Proof. intros; reflexivity. Qed.

Lemma src_lvl2_use_hint_ok : forall a h, src_lvl2_use_hint a h = use_hint true a h.
Proof. intros a h. unfold src_lvl2_use_hint, use_hint. rewrite src_lvl2_decompose_ok.
  destruct (decompose true a) as [[a0 a1]| |]; cbn [bind]; reflexivity. Qed.
Lemma src_lvl3_use_hint_ok : forall a h, src_lvl3_use_hint a h = use_hint false a h.
Proof. intros a h. unfold src_lvl3_use_hint, use_hint. rewrite src_lvl3_decompose_ok.
  destruct (decompose false a) as [[a0 a1]| |]; cbn [bind]; reflexivity. Qed.
Lemma src_lvl5_use_hint_ok : forall a h, src_lvl5_use_hint a h = use_hint false a h.
Proof. intros a h. unfold src_lvl5_use_hint, use_hint. rewrite src_lvl5_decompose_ok.
  destruct (decompose false a) as [[a0 a1]| |]; cbn [bind]; reflexivity. Qed.
