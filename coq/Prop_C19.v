(** C19 — Vector and matrix operations are exact component-wise lifts.
    Only property theorems here, closed by [exact] of lemmas proved in PLift.v. Vector lengths are
    pK P / pL P ((4,4), (6,5), (8,7) for the parameter sets). The right-hand sides are the polynomial
    operation mapped over the components ([mapM]/[map2M] propagate the first failure exactly as the loop). *)
From DV Require Import Base MReduce MRounding MParams MNtt MPoly MPolyvec PLift.

Theorem C19_unary_lifts : forall (P : params) (v : list (list Z)),
  (length v = Z.to_nat (pL P) -> l_reduce P v = mapM poly_reduce v /\ l_ntt P v = mapM poly_ntt v /\
                                  l_invntt_tomont P v = mapM poly_invntt_tomont v) /\
  (length v = Z.to_nat (pK P) -> k_reduce P v = mapM poly_reduce v /\ k_caddq P v = mapM poly_caddq v /\
                                  k_ntt P v = mapM poly_ntt v /\ k_invntt_tomont P v = mapM poly_invntt_tomont v /\
                                  k_shiftl P v = mapM poly_shiftl v).
Proof.
  intros P v; split; intros H; repeat split;
    first [ apply l_reduce_lift | apply l_ntt_lift | apply l_invntt_tomont_lift | apply k_reduce_lift
          | apply k_caddq_lift | apply k_ntt_lift | apply k_invntt_tomont_lift | apply k_shiftl_lift ]; exact H.
Qed.
Print Assumptions C19_unary_lifts.

Theorem C19_binary_lifts : forall (P : params) (w v : list (list Z)),
  (length w = Z.to_nat (pL P) -> length v = Z.to_nat (pL P) -> l_add P w v = map2M poly_add w v) /\
  (length w = Z.to_nat (pK P) -> length v = Z.to_nat (pK P) ->
     k_add P w v = map2M poly_add w v /\ k_sub P w v = map2M poly_sub w v /\
     k_use_hint P w v = map2M (poly_use_hint (pG88 P)) w v).
Proof.
  intros P w v; split; [intros; apply l_add_lift; assumption|].
  intros Hw Hv; repeat split; [apply k_add_lift | apply k_sub_lift | apply k_use_hint_lift]; assumption.
Qed.
Print Assumptions C19_binary_lifts.

Theorem C19_reduce_caddq_values : forall (P : params) (v : list (list Z)), length v = Z.to_nat (pK P) ->
  (coeffs_in (- 2 ^ 31) (2 ^ 31 - 2 ^ 22 - 1) v -> k_reduce P v = Ok (map (map reduce32_val) v)) /\
  ((forall a, In a v -> forall c, In c a -> - Q < c < Q) -> k_caddq P v = Ok (map (map (fun c => c mod Q)) v)).
Proof. intros P v H; split; intros H2; [apply k_reduce_exact | apply k_caddq_exact]; assumption. Qed.
Print Assumptions C19_reduce_caddq_values.

Theorem C19_pointwise_poly : forall (P : params) (r : list (list Z)) (a : list Z) (v : list (list Z)),
  (length r = Z.to_nat (pL P) -> length v = Z.to_nat (pL P) ->
     l_pointwise_poly_montgomery P r a v = mapM (poly_pointwise_montgomery a) v) /\
  (length r = Z.to_nat (pK P) -> length v = Z.to_nat (pK P) ->
     k_pointwise_poly_montgomery P r a v = mapM (poly_pointwise_montgomery a) v).
Proof.
  intros; split; intros; [apply l_pointwise_poly_montgomery_lift | apply k_pointwise_poly_montgomery_lift]; assumption.
Qed.
Print Assumptions C19_pointwise_poly.

(** row i of the matrix product = sum over j of pointwise products, starting from the j = 0 product *)
Theorem C19_matrix_vector : forall (P : params) (t : list (list Z)) (mat : list (list (list Z))) (v : list (list Z)),
  1 <= pL P -> length t = Z.to_nat (pK P) -> length mat = Z.to_nat (pK P) ->
  (forall row, In row mat -> length row = Z.to_nat (pL P)) -> length v = Z.to_nat (pL P) ->
  matrix_pointwise_montgomery P t mat v = mapM (fun row => row_ref row v) mat.
Proof. exact matrix_pointwise_montgomery_lift. Qed.
Print Assumptions C19_matrix_vector.

Theorem C19_power2round : forall (P : params) (v1 v0 : list (list Z)),
  length v1 = Z.to_nat (pK P) -> length v0 = Z.to_nat (pK P) ->
  k_power2round P v1 v0 = (do l <- mapM poly_power2round v1; Ok (map fst l, map snd l)).
Proof. exact k_power2round_lift. Qed.
Print Assumptions C19_power2round.

(** after vector decomposition the FIRST operand holds the HIGH parts and the second the LOW parts *)
Theorem C19_decompose_high_low : forall (P : params) (v1 v0 : list (list Z)) (lo hi : list Z -> list Z),
  length v1 = Z.to_nat (pK P) -> length v0 = Z.to_nat (pK P) ->
  (forall a, In a v1 -> poly_decompose (pG88 P) a = Ok (lo a, hi a)) ->
  k_decompose P v1 v0 = Ok (map hi v1, map lo v1).
Proof. exact k_decompose_high_low. Qed.
Print Assumptions C19_decompose_high_low.

(** hint creation returns the per-polynomial hints and the SUM of the per-polynomial counts *)
Theorem C19_make_hint : forall (P : params) (h v0 v1 : list (list Z)) (l : list (list Z * Z)),
  length h = Z.to_nat (pK P) -> 0 <= pK P <= 8388607 ->
  (forall a, In a v0 -> length a = 256%nat) ->
  map2M (poly_make_hint (pG88 P)) v0 v1 = Ok l -> length l = Z.to_nat (pK P) ->
  k_make_hint P h v0 v1 = Ok (map fst l, zsum (map snd l)) /\ 0 <= zsum (map snd l) <= 256 * pK P.
Proof. exact k_make_hint_256. Qed.
Print Assumptions C19_make_hint.

Theorem C19_pack_w1 : forall (P : params) (r : list Z) (a : list (list Z)),
  0 <= pK P -> length a = Z.to_nat (pK P) -> (forall p, In p a -> length p = 256%nat) ->
  pK P * pPOLYW1 P <= zlen r ->
  exists encs, mapM (w1_pack_bytes (pG88 P)) a = Ok encs /\ Forall (fun e => zlen e = pPOLYW1 P) encs /\
               k_pack_w1 P r a = Ok (concat encs ++ skipn (Z.to_nat (pK P * pPOLYW1 P)) r).
Proof. exact k_pack_w1_256. Qed.
Print Assumptions C19_pack_w1.

(** expanders: component i uses nonce + i / L*nonce + i / 256*i + j *)
Theorem C19_expanders : forall (P : params),
  (forall n v seed nonce, length v = Z.to_nat n -> 0 <= n -> 0 <= nonce -> nonce + n <= 65535 ->
     vec_uniform_eta P n v seed nonce = imapM (fun i a => poly_uniform_eta (pETA P) a seed (nonce + i)) 0 v) /\
  (forall v seed nonce, length v = Z.to_nat (pL P) -> 0 <= pL P -> 0 <= nonce -> pL P * nonce + pL P <= 65536 ->
     l_uniform_gamma1 P v seed nonce =
     mapM (fun i => poly_uniform_gamma1 (pGAMMA1 P) seed (pL P * nonce + i)) (zrange 0 (pL P))) /\
  (forall mat rho, 0 <= pK P <= 256 -> 0 <= pL P <= 256 -> length mat = Z.to_nat (pK P) ->
     (forall row, In row mat -> length row = Z.to_nat (pL P)) ->
     matrix_expand P mat rho =
     imapM (fun i row => imapM (fun j a => poly_uniform a rho (256 * i + j)) 0 row) 0 mat).
Proof.
  intros P; repeat split; intros.
  - apply vec_uniform_eta_lift; assumption.
  - apply l_uniform_gamma1_lift; assumption.
  - apply matrix_expand_lift; assumption.
Qed.
Print Assumptions C19_expanders.

Example C19_nonvacuous :
  k_add P_lvl2 [[1; 2]; [3; 4]; [5; 6]; [7; 8]] [[10; 20]; [30; 40]; [50; 60]; [70; 80]]
    = Ok [[11; 22]; [33; 44]; [55; 66]; [77; 88]] /\
  k_decompose P_lvl2 [[8380416]; [95232]; [190464]; [0]] [[7]; [7]; [7]; [7]]
    = Ok ([[0]; [0]; [1]; [0]], [[-1]; [95232]; [0]; [0]]).
Proof. vm_compute. repeat split. Qed.
