(** L0 model of src/rounding.rs and src/rounding/{lvl2,lvl3,lvl5}.rs. Definitions only.
    [g88 = true] is gamma2 = (q-1)/88 (lvl2); [false] is gamma2 = (q-1)/32 (lvl3 = lvl5). *)
From DV Require Import Base MReduce.

Definition GAMMA2 (g88 : bool) : Z := if g88 then 95232 else 261888.

(** pub fn power2round(a: i32) -> (i32, i32)   returns (a0, a1) *)
Definition power2round (a : Z) : res (Z * Z) :=
  do s <- i32_add a 4096;               (* a + (1 << (D-1)) *)
  do s <- i32_sub s 1;
  do a1 <- shr 32 s 13;
  do sh <- shl_s 32 a1 13;
  do a0 <- i32_sub a sh;
  Ok (a0, a1).

(** pub fn decompose(a: i32) -> (i32, i32)    returns (a0, a1) *)
Definition decompose (g88 : bool) (a : Z) : res (Z * Z) :=
  do s <- i32_add a 127;
  do a1 <- shr 32 s 7;
  do a1 <-
    (if g88 then
       do m <- i32_mul a1 11275; do m <- i32_add m 8388608; do a1 <- shr 32 m 24;
       do d <- i32_sub 43 a1; do sg <- shr 32 d 31;
       Ok (Z.lxor a1 (Z.land sg a1))
     else
       do m <- i32_mul a1 1025; do m <- i32_add m 2097152; do a1 <- shr 32 m 22;
       Ok (Z.land a1 15));
  do p <- i32_mul a1 2;
  do p <- i32_mul p (GAMMA2 g88);
  do a0 <- i32_sub a p;
  do e <- i32_sub 4190208 a0;            (* (Q - 1) / 2 - a0 *)
  do sg <- shr 32 e 31;
  do a0 <- i32_sub a0 (Z.land sg Q);
  Ok (a0, a1).

(** pub fn make_hint(a0: i32, a1: i32) -> i32 *)
Definition make_hint (g88 : bool) (a0 a1 : Z) : res Z :=
  let G := GAMMA2 g88 in
  do ng <- i32_neg G;
  if (G <? a0) || (a0 <? ng) || ((a0 =? ng) && negb (a1 =? 0)) then Ok 1 else Ok 0.

(** pub fn use_hint(a: i32, hint: i32) -> i32 *)
Definition use_hint (g88 : bool) (a hint : Z) : res Z :=
  do '(a0, a1) <- decompose g88 a;
  if hint =? 0 then Ok a1 else
  if g88 then
    if 0 <? a0 then (if a1 =? 43 then Ok 0 else i32_add a1 1)
    else (if a1 =? 0 then Ok 43 else i32_sub a1 1)
  else
    if 0 <? a0 then (do s <- i32_add a1 1; Ok (Z.land s 15))
    else (do s <- i32_sub a1 1; Ok (Z.land s 15)).
