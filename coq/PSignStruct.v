(** Structural (inversion) theorems about the signer and the verifier: what must have happened when
    [sign_attempt] / [sign_loop] / [signature_trace] / [verify] return a given answer.

    Nothing here looks inside Keccak, the NTT or the samplers: every proof walks through the monadic
    pipeline one [bind] at a time. *)
From DV Require Import Base Gen MReduce MRounding MParams MKeccak MNtt MPoly MPolyvec MPacking MSign MSha2 MApi
                       PReduce PLift PNorm PSample.

Local Ltac Zify.zify_post_hook ::= Z.div_mod_to_equations.

(** * 0. Small inversion helpers *)

Lemma chk_u_inv n x y : chk_u n x = Ok y -> y = x /\ 0 <= x < 2 ^ n.
Proof.
  unfold chk_u, in_unsigned.
  destruct (Z.leb_spec 0 x); destruct (Z.ltb_spec x (2 ^ n)); cbn [andb];
    intros E; inversion E; lia.
Qed.

Lemma u16_add_inv a b c : u16_add a b = Ok c -> c = a + b /\ 0 <= a + b <= 65535.
Proof. intros H. apply chk_u_inv in H. change (2 ^ 16) with 65536 in H. lia. Qed.

Ltac bind_inv H x Hx := apply bind_ok in H as (x & Hx & H).

(** * 1. One iteration of the signing loop *)

(** every intermediate value of one iteration, named *)
Record attempt_mid := {
  am_y    : list (list Z);   (* the mask vector y *)
  am_yhat : list (list Z);   (* NTT(y) *)
  am_w    : list (list Z);   (* w = A y, reduced, inverse NTT, caddq *)
  am_w1   : list (list Z);   (* high bits of w *)
  am_w0   : list (list Z);   (* low bits of w *)
  am_sigw : list Z;          (* sig buffer after packing w1 at the front *)
  am_sigc : list Z;          (* sig buffer after squeezing the challenge bytes at the front *)
  am_cp   : list Z;          (* challenge polynomial *)
  am_chat : list Z;          (* NTT(c) *)
  am_cs1  : list (list Z);   (* c o s1hat *)
  am_cs1i : list (list Z);   (* invntt(c o s1hat) *)
  am_zsum : list (list Z);   (* invntt(c o s1hat) + y, the input of l_reduce *)
  am_z    : list (list Z);   (* z *)
  am_c1   : Z;               (* answer of the z norm check *)
  am_cs2  : list (list Z);
  am_cs2i : list (list Z);
  am_w0s  : list (list Z);   (* w0 - c s2, the input of k_reduce *)
  am_w0r  : list (list Z);   (* reduced *)
  am_c2   : Z;
  am_ct0p : list (list Z);
  am_ct0i : list (list Z);   (* invntt(c o t0hat), the input of k_reduce *)
  am_ct0  : list (list Z);
  am_c3   : Z;
  am_w0h  : list (list Z);   (* w0 - c s2 + c t0 *)
  am_h    : list (list Z);
  am_n    : Z
}.

Section Attempt.
  Variable P : params.
  Variables (sig mu rhoprime : list Z) (mat : list (list (list Z))) (s1 s2 t0 : list (list Z)) (nonce : Z).

  (** from y to the z norm check: these steps run in every iteration that does not panic *)
  Definition stage_z (M : attempt_mid) : Prop :=
    l_uniform_gamma1 P (zvec (pL P)) rhoprime nonce = Ok (am_y M) /\
    l_ntt P (am_y M) = Ok (am_yhat M) /\
    (exists wa wb wc,
       matrix_pointwise_montgomery P (zvec (pK P)) mat (am_yhat M) = Ok wa /\
       k_reduce P wa = Ok wb /\ k_invntt_tomont P wb = Ok wc /\ k_caddq P wc = Ok (am_w M)) /\
    k_decompose P (am_w M) (zvec (pK P)) = Ok (am_w1 M, am_w0 M) /\
    k_pack_w1 P sig (am_w1 M) = Ok (am_sigw M) /\
    (exists w1b st0 st1 st2 st3,
       slice_to (am_sigw M) (pK P * pPOLYW1 P) = Ok w1b /\
       shake256_absorb kinit mu CRHBYTES = Ok st0 /\
       shake256_absorb st0 (am_sigw M) (pK P * pPOLYW1 P) = Ok st1 /\
       shake256_finalize st1 = Ok st2 /\
       shake256_squeeze (am_sigw M) (pCT P) st2 = Ok (am_sigc M, st3)) /\
    poly_challenge (pTAU P) (pCT P) (am_sigc M) = Ok (am_cp M) /\
    poly_ntt (am_cp M) = Ok (am_chat M) /\
    l_pointwise_poly_montgomery P (am_yhat M) (am_chat M) s1 = Ok (am_cs1 M) /\
    l_invntt_tomont P (am_cs1 M) = Ok (am_cs1i M) /\
    l_add P (am_cs1i M) (am_y M) = Ok (am_zsum M) /\
    l_reduce P (am_zsum M) = Ok (am_z M) /\
    l_chknorm P (am_z M) (pGAMMA1 P - pBETA P) = Ok (am_c1 M).

  (** the low-bits check *)
  Definition stage_w0 (M : attempt_mid) : Prop :=
    k_pointwise_poly_montgomery P (zvec (pK P)) (am_chat M) s2 = Ok (am_cs2 M) /\
    k_invntt_tomont P (am_cs2 M) = Ok (am_cs2i M) /\
    k_sub P (am_w0 M) (am_cs2i M) = Ok (am_w0s M) /\
    k_reduce P (am_w0s M) = Ok (am_w0r M) /\
    k_chknorm P (am_w0r M) (pGAMMA2 P - pBETA P) = Ok (am_c2 M).

  (** the c*t0 check *)
  Definition stage_ct0 (M : attempt_mid) : Prop :=
    k_pointwise_poly_montgomery P (am_cs2i M) (am_chat M) t0 = Ok (am_ct0p M) /\
    k_invntt_tomont P (am_ct0p M) = Ok (am_ct0i M) /\
    k_reduce P (am_ct0i M) = Ok (am_ct0 M) /\
    k_chknorm P (am_ct0 M) (pGAMMA2 P) = Ok (am_c3 M).

  (** the hint *)
  Definition stage_hint (M : attempt_mid) : Prop :=
    k_add P (am_w0r M) (am_ct0 M) = Ok (am_w0h M) /\
    k_make_hint P (am_ct0 M) (am_w0h M) (am_w1 M) = Ok (am_h M, am_n M).

  (** the decision tree of one iteration, in the order of the code:
      z norm, low bits, c*t0, hint count, then packing *)
  Definition attempt_outcome (M : attempt_mid) (a : attempt) : Prop :=
    stage_z M /\
    ((0 < am_c1 M /\ a = Retry 1 (am_sigc M)) \/
     (am_c1 M <= 0 /\ stage_w0 M /\
      ((0 < am_c2 M /\ a = Retry 2 (am_sigc M)) \/
       (am_c2 M <= 0 /\ stage_ct0 M /\
        ((0 < am_c3 M /\ a = Retry 3 (am_sigc M)) \/
         (am_c3 M <= 0 /\ stage_hint M /\
          ((pOMEGA P < am_n M /\ a = Retry 4 (am_sigc M)) \/
           (am_n M <= pOMEGA P /\
            exists s, pack_sig P (am_sigc M) None (am_z M) (am_h M) = Ok s /\ a = Done s)))))))).

  Definition dummy_mid : attempt_mid :=
    Build_attempt_mid [] [] [] [] [] [] [] [] [] [] [] [] [] 0 [] [] [] [] 0 [] [] [] 0 [] [] 0.

  Theorem sign_attempt_inv a :
    sign_attempt P sig mu rhoprime mat s1 s2 t0 nonce = Ok a ->
    exists M, attempt_outcome M a.
  Proof.
    intros H. unfold sign_attempt in H.
    bind_inv H y Hy. bind_inv H yhat Hyhat.
    bind_inv H wa Hwa. bind_inv H wb Hwb. bind_inv H wc Hwc. bind_inv H w Hw.
    bind_inv H w10 Hdec. destruct w10 as [w1 w0].
    bind_inv H sigw Hsigw. bind_inv H w1b Hw1b.
    bind_inv H st0 Hst0. bind_inv H st1 Hst1. bind_inv H st2 Hst2.
    bind_inv H sq Hsq. destruct sq as [sigc st3].
    bind_inv H cp Hcp. bind_inv H chat Hchat.
    bind_inv H cs1 Hcs1. bind_inv H cs1i Hcs1i. bind_inv H zs Hzsum. bind_inv H z Hz.
    bind_inv H c1 Hc1.
    assert (SZ : forall M', stage_z
      (Build_attempt_mid y yhat w w1 w0 sigw sigc cp chat cs1 cs1i zs z c1
         (am_cs2 M') (am_cs2i M') (am_w0s M') (am_w0r M') (am_c2 M') (am_ct0p M') (am_ct0i M')
         (am_ct0 M') (am_c3 M') (am_w0h M') (am_h M') (am_n M'))).
    { intros M'. unfold stage_z. cbn [am_y am_yhat am_w am_w1 am_w0 am_sigw am_sigc am_cp am_chat
        am_cs1 am_cs1i am_zsum am_z am_c1].
      repeat match goal with |- _ /\ _ => split end; try assumption.
      - exists wa, wb, wc. auto.
      - exists w1b, st0, st1, st2, st3. auto. }
    destruct (0 <? c1) eqn:E1.
    { apply Z.ltb_lt in E1. inversion H; subst a.
      eexists. split; [apply (SZ dummy_mid)|]. left. cbn. auto. }
    apply Z.ltb_ge in E1.
    bind_inv H cs2 Hcs2. bind_inv H cs2i Hcs2i. bind_inv H w0s Hw0s. bind_inv H w0r Hw0r.
    bind_inv H c2 Hc2.
    destruct (0 <? c2) eqn:E2.
    { apply Z.ltb_lt in E2. inversion H; subst a.
      exists (Build_attempt_mid y yhat w w1 w0 sigw sigc cp chat cs1 cs1i zs z c1
                cs2 cs2i w0s w0r c2 [] [] [] 0 [] [] 0).
      split; [apply (SZ (Build_attempt_mid [] [] [] [] [] [] [] [] [] [] [] [] [] 0
                cs2 cs2i w0s w0r c2 [] [] [] 0 [] [] 0))|].
      right. cbn. repeat split; auto. }
    apply Z.ltb_ge in E2.
    bind_inv H ct0p Hct0p. bind_inv H ct0i Hct0i. bind_inv H ct0 Hct0. bind_inv H c3 Hc3.
    destruct (0 <? c3) eqn:E3.
    { apply Z.ltb_lt in E3. inversion H; subst a.
      exists (Build_attempt_mid y yhat w w1 w0 sigw sigc cp chat cs1 cs1i zs z c1
                cs2 cs2i w0s w0r c2 ct0p ct0i ct0 c3 [] [] 0).
      split; [apply (SZ (Build_attempt_mid [] [] [] [] [] [] [] [] [] [] [] [] [] 0
                cs2 cs2i w0s w0r c2 ct0p ct0i ct0 c3 [] [] 0))|].
      right. cbn. repeat split; auto. right. repeat split; auto. }
    apply Z.ltb_ge in E3.
    bind_inv H w0h Hw0h. bind_inv H hn Hhn. destruct hn as [h n].
    exists (Build_attempt_mid y yhat w w1 w0 sigw sigc cp chat cs1 cs1i zs z c1
              cs2 cs2i w0s w0r c2 ct0p ct0i ct0 c3 w0h h n).
    split; [apply (SZ (Build_attempt_mid [] [] [] [] [] [] [] [] [] [] [] [] [] 0
              cs2 cs2i w0s w0r c2 ct0p ct0i ct0 c3 w0h h n))|].
    right. cbn. repeat split; auto. right. repeat split; auto. right. repeat split; auto.
    destruct (pOMEGA P <? n) eqn:E4.
    { apply Z.ltb_lt in E4. inversion H; subst a. left. auto. }
    apply Z.ltb_ge in E4. right. split; [exact E4|].
    bind_inv H s Hs. inversion H; subst a. exists s. auto.
  Qed.

  (** the converse: the decision tree determines the answer, so [attempt_outcome] is an exact
      description of [sign_attempt] on its non-panicking runs *)
  Theorem sign_attempt_complete M a :
    attempt_outcome M a -> sign_attempt P sig mu rhoprime mat s1 s2 t0 nonce = Ok a.
  Proof.
    intros (SZ & D). unfold sign_attempt.
    destruct SZ as (Hy & Hyhat & (wa & wb & wc & Hwa & Hwb & Hwc & Hw) & Hdec & Hsigw &
                    (w1b & st0 & st1 & st2 & st3 & Hw1b & Hst0 & Hst1 & Hst2 & Hsq) &
                    Hcp & Hchat & Hcs1 & Hcs1i & Hzs & Hz & Hc1).
    rewrite Hy; cbn [bind]. rewrite Hyhat; cbn [bind]. rewrite Hwa; cbn [bind]. rewrite Hwb; cbn [bind].
    rewrite Hwc; cbn [bind]. rewrite Hw; cbn [bind]. rewrite Hdec; cbn [bind]. rewrite Hsigw; cbn [bind].
    rewrite Hw1b; cbn [bind]. rewrite Hst0; cbn [bind]. rewrite Hst1; cbn [bind]. rewrite Hst2; cbn [bind].
    rewrite Hsq; cbn [bind]. rewrite Hcp; cbn [bind]. rewrite Hchat; cbn [bind]. rewrite Hcs1; cbn [bind].
    rewrite Hcs1i; cbn [bind]. rewrite Hzs; cbn [bind]. rewrite Hz; cbn [bind]. rewrite Hc1; cbn [bind].
    destruct D as [(G1 & ->) | (G1 & (Hcs2 & Hcs2i & Hw0s & Hw0r & Hc2) & D)].
    { apply Z.ltb_lt in G1. rewrite G1. reflexivity. }
    apply Z.ltb_ge in G1. rewrite G1.
    rewrite Hcs2; cbn [bind]. rewrite Hcs2i; cbn [bind]. rewrite Hw0s; cbn [bind]. rewrite Hw0r; cbn [bind].
    rewrite Hc2; cbn [bind].
    destruct D as [(G2 & ->) | (G2 & (Hct0p & Hct0i & Hct0 & Hc3) & D)].
    { apply Z.ltb_lt in G2. rewrite G2. reflexivity. }
    apply Z.ltb_ge in G2. rewrite G2.
    rewrite Hct0p; cbn [bind]. rewrite Hct0i; cbn [bind]. rewrite Hct0; cbn [bind]. rewrite Hc3; cbn [bind].
    destruct D as [(G3 & ->) | (G3 & (Hw0h & Hh) & D)].
    { apply Z.ltb_lt in G3. rewrite G3. reflexivity. }
    apply Z.ltb_ge in G3. rewrite G3.
    rewrite Hw0h; cbn [bind]. rewrite Hh; cbn [bind].
    destruct D as [(G4 & ->) | (G4 & s & Hs & ->)].
    { apply Z.ltb_lt in G4. rewrite G4. reflexivity. }
    apply Z.ltb_ge in G4. rewrite G4. rewrite Hs; cbn [bind]. reflexivity.
  Qed.

  (** ** A2: an accepted iteration *)
  Definition attempt_accepts (M : attempt_mid) (s : list Z) : Prop :=
    stage_z M /\ am_c1 M <= 0 /\
    stage_w0 M /\ am_c2 M <= 0 /\
    stage_ct0 M /\ am_c3 M <= 0 /\
    stage_hint M /\ am_n M <= pOMEGA P /\
    pack_sig P (am_sigc M) None (am_z M) (am_h M) = Ok s.

  Theorem sign_attempt_done s :
    sign_attempt P sig mu rhoprime mat s1 s2 t0 nonce = Ok (Done s) -> exists M, attempt_accepts M s.
  Proof.
    intros H. apply sign_attempt_inv in H as (M & SZ & D). exists M. unfold attempt_accepts.
    destruct D as [(_ & D) | (G1 & S2 & D)]; [discriminate|].
    destruct D as [(_ & D) | (G2 & S3 & D)]; [discriminate|].
    destruct D as [(_ & D) | (G3 & S4 & D)]; [discriminate|].
    destruct D as [(_ & D) | (G4 & s' & Hs & D)]; [discriminate|].
    inversion D; subst s'. tauto.
  Qed.

  Theorem sign_attempt_done_iff s :
    sign_attempt P sig mu rhoprime mat s1 s2 t0 nonce = Ok (Done s) <-> exists M, attempt_accepts M s.
  Proof.
    split; [apply sign_attempt_done|]. intros (M & SZ & G1 & S2 & G2 & S3 & G3 & S4 & G4 & Hs).
    apply (sign_attempt_complete M). split; [exact SZ|].
    right. split; [exact G1|]. split; [exact S2|].
    right. split; [exact G2|]. split; [exact S3|].
    right. split; [exact G3|]. split; [exact S4|].
    right. split; [exact G4|]. exists s. auto.
  Qed.

  (** ** A3: a rejected iteration. The cause is 1 (z norm), 2 (low bits), 3 (c*t0) or 4 (hint count);
      the corresponding test failed on the model's own intermediates and all earlier ones passed.
      The buffer handed to the next iteration is the one holding the packed w1 / challenge bytes. *)
  Definition attempt_rejects (M : attempt_mid) (cause : Z) : Prop :=
    stage_z M /\
    ((cause = 1 /\ 0 < am_c1 M) \/
     (cause = 2 /\ am_c1 M <= 0 /\ stage_w0 M /\ 0 < am_c2 M) \/
     (cause = 3 /\ am_c1 M <= 0 /\ stage_w0 M /\ am_c2 M <= 0 /\ stage_ct0 M /\ 0 < am_c3 M) \/
     (cause = 4 /\ am_c1 M <= 0 /\ stage_w0 M /\ am_c2 M <= 0 /\ stage_ct0 M /\ am_c3 M <= 0 /\
      stage_hint M /\ pOMEGA P < am_n M)).

  Theorem sign_attempt_retry cause sig' :
    sign_attempt P sig mu rhoprime mat s1 s2 t0 nonce = Ok (Retry cause sig') ->
    exists M, sig' = am_sigc M /\ attempt_rejects M cause.
  Proof.
    intros H. apply sign_attempt_inv in H as (M & SZ & D). exists M. unfold attempt_rejects.
    destruct D as [(F1 & D) | (G1 & S2 & D)]; [inversion D; subst; tauto|].
    destruct D as [(F2 & D) | (G2 & S3 & D)]; [inversion D; subst; tauto|].
    destruct D as [(F3 & D) | (G3 & S4 & D)]; [inversion D; subst; tauto|].
    destruct D as [(F4 & D) | (G4 & s' & Hs & D)]; [inversion D; subst|discriminate].
    split; [reflexivity|]. split; [exact SZ|]. right. right. right. tauto.
  Qed.

  Corollary sign_attempt_retry_cause cause sig' :
    sign_attempt P sig mu rhoprime mat s1 s2 t0 nonce = Ok (Retry cause sig') -> 1 <= cause <= 4.
  Proof.
    intros H. apply sign_attempt_retry in H as (M & _ & _ & D).
    destruct D as [(-> & _) | [(-> & _) | [(-> & _) | (-> & _)]]]; lia.
  Qed.
End Attempt.

(** * 2. The rejection loop *)

Section Loop.
  Variable P : params.
  Variables (mu rhoprime : list Z) (mat : list (list (list Z))) (s1 s2 t0 : list (list Z)).

  (** [retry_chain causes nonce sig sig_n]: starting with buffer [sig] and counter [nonce], the
      iterations number 0, 1, ..., |causes|-1 were all rejected, iteration k with cause [causes[k]] and
      counter [nonce + k]; each hands its buffer to the next one; the counter increment (a checked u16
      addition) did not overflow; [sig_n] is the buffer the next iteration starts from. *)
  Fixpoint retry_chain (causes : list Z) (nonce : Z) (sig sig_n : list Z) : Prop :=
    match causes with
    | [] => sig_n = sig
    | c :: cs =>
      exists sig', sign_attempt P sig mu rhoprime mat s1 s2 t0 nonce = Ok (Retry c sig') /\
                   0 <= nonce + 1 <= 65535 /\
                   retry_chain cs (nonce + 1) sig' sig_n
    end.

  (** ** A1, exact form *)
  Theorem sign_loop_inv fuel : forall sig nonce trace s trace',
    sign_loop P fuel sig mu rhoprime mat s1 s2 t0 nonce trace = Ok (s, trace') ->
    exists causes sig_n,
      trace' = trace ++ causes /\ (length causes < fuel)%nat /\
      retry_chain causes nonce sig sig_n /\
      sign_attempt P sig_n mu rhoprime mat s1 s2 t0 (nonce + Z.of_nat (length causes)) = Ok (Done s).
  Proof.
    induction fuel as [|f IH]; intros sig nonce trace s trace' H; [discriminate|].
    cbn [sign_loop] in H. bind_inv H a Ha. destruct a as [s'|c sig'].
    - inversion H; subst s' trace'. exists [], sig. rewrite app_nil_r. cbn [length retry_chain].
      rewrite Z.add_0_r. repeat split; auto. lia.
    - bind_inv H nonce' Hn. apply u16_add_inv in Hn as (-> & Hn).
      apply IH in H as (causes & sig_n & -> & Hlen & Hch & Hd).
      exists (c :: causes), sig_n. rewrite <- app_assoc. cbn [app length retry_chain].
      split; [reflexivity|]. split; [lia|]. split.
      + exists sig'. auto.
      + replace (nonce + Z.of_nat (S (length causes))) with (nonce + 1 + Z.of_nat (length causes)) by lia.
        exact Hd.
  Qed.

  (** the converse: a chain of rejections followed by an acceptance is what the loop returns, for
      every fuel that is large enough (so the answer does not depend on the fuel) *)
  Theorem sign_loop_complete causes : forall fuel sig sig_n nonce trace s,
    (length causes < fuel)%nat ->
    retry_chain causes nonce sig sig_n ->
    sign_attempt P sig_n mu rhoprime mat s1 s2 t0 (nonce + Z.of_nat (length causes)) = Ok (Done s) ->
    sign_loop P fuel sig mu rhoprime mat s1 s2 t0 nonce trace = Ok (s, trace ++ causes).
  Proof.
    induction causes as [|c cs IH]; intros fuel sig sig_n nonce trace s Hf Hch Hd.
    - cbn [retry_chain length] in *. subst sig_n. rewrite Z.add_0_r in Hd.
      destruct fuel as [|f]; [lia|]. cbn [sign_loop]. rewrite Hd. cbn [bind]. rewrite app_nil_r. reflexivity.
    - cbn [retry_chain length] in *. destruct Hch as (sig' & Ha & Hn & Hch).
      destruct fuel as [|f]; [lia|]. cbn [sign_loop]. rewrite Ha. cbn [bind].
      unfold u16_add. rewrite chk_u_ok by (change (2 ^ 16) with 65536; lia). cbn [bind].
      rewrite (IH f sig' sig_n (nonce + 1) (trace ++ [c]) s).
      + rewrite <- app_assoc. reflexivity.
      + lia.
      + exact Hch.
      + replace (nonce + 1 + Z.of_nat (length cs)) with (nonce + Z.of_nat (S (length cs))) by lia. exact Hd.
  Qed.

  Corollary sign_loop_fuel_irrelevant fuel fuel' sig nonce trace r r' :
    sign_loop P fuel sig mu rhoprime mat s1 s2 t0 nonce trace = Ok r ->
    sign_loop P fuel' sig mu rhoprime mat s1 s2 t0 nonce trace = Ok r' -> r = r'.
  Proof.
    destruct r as [s tr], r' as [s' tr']. intros H H'.
    destruct (Nat.le_ge_cases fuel fuel') as [L|L].
    - apply sign_loop_inv in H as (causes & sig_n & -> & Hl & Hch & Hd).
      rewrite (sign_loop_complete causes fuel' _ sig_n _ _ s) in H' by (try assumption; lia).
      inversion H'; reflexivity.
    - apply sign_loop_inv in H' as (causes & sig_n & -> & Hl & Hch & Hd).
      rewrite (sign_loop_complete causes fuel _ sig_n _ _ s') in H by (try assumption; lia).
      inversion H; reflexivity.
  Qed.

  (** ** the nonce schedule and the causes, read off a chain *)
  Lemma retry_chain_nth causes : forall nonce sig sig_n k c,
    retry_chain causes nonce sig sig_n -> nth_error causes k = Some c ->
    exists sig_k sig_k',
      sign_attempt P sig_k mu rhoprime mat s1 s2 t0 (nonce + Z.of_nat k) = Ok (Retry c sig_k').
  Proof.
    induction causes as [|c0 cs IH]; intros nonce sig sig_n k c Hch Hk.
    - destruct k; discriminate.
    - cbn [retry_chain] in Hch. destruct Hch as (sig' & Ha & Hn & Hch). destruct k as [|k].
      + cbn in Hk. inversion Hk; subst c0. rewrite Z.add_0_r. eauto.
      + cbn [nth_error] in Hk. destruct (IH _ _ _ _ _ Hch Hk) as (sk & sk' & E).
        exists sk, sk'. replace (nonce + Z.of_nat (S k)) with (nonce + 1 + Z.of_nat k) by lia. exact E.
  Qed.

  Lemma retry_chain_causes causes : forall nonce sig sig_n,
    retry_chain causes nonce sig sig_n -> Forall (fun c => 1 <= c <= 4) causes.
  Proof.
    induction causes as [|c cs IH]; intros nonce sig sig_n Hch; constructor.
    - destruct Hch as (sig' & Ha & _). exact (sign_attempt_retry_cause P _ _ _ _ _ _ _ _ _ _ Ha).
    - destruct Hch as (sig' & _ & _ & Hch). exact (IH _ _ _ Hch).
  Qed.

  Lemma retry_chain_nonce causes : forall nonce sig sig_n,
    retry_chain causes nonce sig sig_n -> causes <> [] ->
    0 <= nonce + 1 /\ nonce + Z.of_nat (length causes) <= 65535.
  Proof.
    induction causes as [|c cs IH]; intros nonce sig sig_n Hch Hne; [congruence|].
    destruct Hch as (sig' & _ & Hn & Hch). cbn [length]. destruct cs as [|c' cs'].
    - cbn [length]. lia.
    - assert (Hne' : c' :: cs' <> []) by discriminate.
      destruct (IH _ _ _ Hch Hne') as (B1 & B2). cbn [length] in *. lia.
  Qed.

  (** ** A1 as requested: the loop ran n rejected iterations and then one accepted one *)
  Theorem sign_loop_last fuel sig nonce trace s trace' :
    sign_loop P fuel sig mu rhoprime mat s1 s2 t0 nonce trace = Ok (s, trace') ->
    exists (n : nat) causes sig_n,
      trace' = trace ++ causes /\ length causes = n /\
      Forall (fun c => 1 <= c <= 4) causes /\
      sign_attempt P sig_n mu rhoprime mat s1 s2 t0 (nonce + Z.of_nat n) = Ok (Done s) /\
      (n < fuel)%nat /\
      (n = 0%nat \/ (0 <= nonce + 1 /\ nonce + Z.of_nat n <= 65535)) /\
      (forall k c, nth_error causes k = Some c ->
         exists sig_k sig_k',
           sign_attempt P sig_k mu rhoprime mat s1 s2 t0 (nonce + Z.of_nat k) = Ok (Retry c sig_k')).
  Proof.
    intros H. apply sign_loop_inv in H as (causes & sig_n & -> & Hl & Hch & Hd).
    exists (length causes), causes, sig_n.
    split; [reflexivity|]. split; [reflexivity|].
    split; [exact (retry_chain_causes _ _ _ _ Hch)|].
    split; [exact Hd|]. split; [exact Hl|]. split.
    - destruct causes as [|c cs]; [left; reflexivity|right].
      apply (retry_chain_nonce _ _ _ _ Hch). discriminate.
    - intros k c Hk. exact (retry_chain_nth _ _ _ _ _ _ Hch Hk).
  Qed.
End Loop.

(** * 3. The verifier *)

Section Verify.
  Variable P : params.

  (** the recomputation of the packed w1' from the decoded public key and signature: the part of
      [verify] between the norm check and the final hash, in the order of the code *)
  Definition verify_w1 (rho : list Z) (t1 : list (list Z)) (c : list Z) (z h : list (list Z)) : res (list Z) :=
    do cp <- poly_challenge (pTAU P) (pCT P) c;
    do mat <- matrix_expand P (zmat (pK P) (pL P)) rho;
    do zhat <- l_ntt P z;
    do w1 <- matrix_pointwise_montgomery P (zvec (pK P)) mat zhat;
    do chat <- poly_ntt cp;
    do t1s <- k_shiftl P t1;
    do t1h <- k_ntt P t1s;
    do ct1 <- k_pointwise_poly_montgomery P t1h chat t1h;
    do w1 <- k_sub P w1 ct1;
    do w1 <- k_reduce P w1;
    do w1 <- k_invntt_tomont P w1;
    do w1 <- k_caddq P w1;
    do w1 <- k_use_hint P w1 h;
    k_pack_w1 P (repeatZ 0 (pK P * pPOLYW1 P)) w1.

  (** the facts established by an accepting run, on top of the three gates *)
  Definition verify_tail (m pk rho : list Z) (t1 : list (list Z)) (c : list Z) (z h : list (list Z))
             (c2 : list Z) : Prop :=
    exists tr mu buf,
      shake256 (repeatZ 0 64) (pTR P) pk (pPK P) = Ok tr /\
      shake256_hash [firstn (Z.to_nat (pTR P)) tr; m] CRHBYTES = Ok mu /\
      verify_w1 rho t1 c z h = Ok buf /\
      shake256_hash [mu; buf] (pCT P) = Ok c2.

  (** ** the decision tree of [verify], in the order of the code:
      length gate, decoding (public key, then signature with its hint check), z norm, challenge *)
  Definition verify_outcome (sig m pk : list Z) (b : bool) : Prop :=
    (zlen sig <> pSIG P /\ b = false) \/
    (zlen sig = pSIG P /\
     exists rho t1 c z h ok,
       unpack_pk P (repeatZ 0 32) (zvec (pK P)) pk = Ok (rho, t1) /\
       unpack_sig P (repeatZ 0 (pCT P)) (zvec (pL P)) (zvec (pK P)) sig = Ok (c, z, h, ok) /\
       ((ok = false /\ b = false) \/
        (ok = true /\
         exists cn, l_chknorm P z (pGAMMA1 P - pBETA P) = Ok cn /\
           ((0 < cn /\ b = false) \/
            (cn <= 0 /\ exists c2, verify_tail m pk rho t1 c z h c2 /\
                                   b = if list_eq_dec Z.eq_dec c c2 then true else false))))).

  Theorem verify_inv sig m pk b : verify P sig m pk = Ok b -> verify_outcome sig m pk b.
  Proof.
    intros H. unfold verify in H. unfold verify_outcome.
    destruct (Z.eqb_spec (zlen sig) (pSIG P)) as [El|El]; cbn [negb] in H.
    2:{ left. inversion H. auto. }
    right. split; [exact El|].
    bind_inv H pkd Hpk. destruct pkd as [rho t1].
    bind_inv H sgd Hsig. destruct sgd as [[[c z] h] ok].
    exists rho, t1, c, z, h, ok. split; [exact Hpk|]. split; [exact Hsig|].
    destruct ok; cbn [negb] in H.
    2:{ left. inversion H. auto. }
    right. split; [reflexivity|].
    bind_inv H cn Hcn. exists cn. split; [exact Hcn|].
    destruct (0 <? cn) eqn:Ecn.
    { apply Z.ltb_lt in Ecn. left. inversion H. auto. }
    apply Z.ltb_ge in Ecn. right. split; [exact Ecn|].
    bind_inv H tr Htr. bind_inv H mu Hmu. bind_inv H cp Hcp. bind_inv H mat Hmat.
    bind_inv H zhat Hzhat. bind_inv H w1 Hw1. bind_inv H chat Hchat. bind_inv H t1s Ht1s.
    bind_inv H t1h Ht1h. bind_inv H ct1 Hct1. bind_inv H w1a Hw1a. bind_inv H w1b Hw1b.
    bind_inv H w1c Hw1c. bind_inv H w1d Hw1d. bind_inv H w1e Hw1e. bind_inv H buf Hbuf.
    bind_inv H c2 Hc2. exists c2. split.
    - exists tr, mu, buf. split; [exact Htr|]. split; [exact Hmu|]. split; [|exact Hc2].
      unfold verify_w1. rewrite Hcp; cbn [bind]. rewrite Hmat; cbn [bind]. rewrite Hzhat; cbn [bind].
      rewrite Hw1; cbn [bind]. rewrite Hchat; cbn [bind]. rewrite Ht1s; cbn [bind]. rewrite Ht1h; cbn [bind].
      rewrite Hct1; cbn [bind]. rewrite Hw1a; cbn [bind]. rewrite Hw1b; cbn [bind]. rewrite Hw1c; cbn [bind].
      rewrite Hw1d; cbn [bind]. rewrite Hw1e; cbn [bind]. exact Hbuf.
    - inversion H. reflexivity.
  Qed.

  (** the converse: the tree determines the answer *)
  Theorem verify_complete sig m pk b : verify_outcome sig m pk b -> verify P sig m pk = Ok b.
  Proof.
    unfold verify_outcome, verify. intros [(El & ->) | (El & rho & t1 & c & z & h & ok & Hpk & Hsig & D)].
    { destruct (Z.eqb_spec (zlen sig) (pSIG P)) as [E|E]; [contradiction|reflexivity]. }
    destruct (Z.eqb_spec (zlen sig) (pSIG P)) as [_|E]; [|contradiction]. cbn [negb].
    rewrite Hpk; cbn [bind]. rewrite Hsig; cbn [bind].
    destruct D as [(-> & ->) | (-> & cn & Hcn & D)]; [reflexivity|]. cbn [negb].
    rewrite Hcn; cbn [bind].
    destruct D as [(G & ->) | (G & c2 & (tr & mu & buf & Htr & Hmu & Hw & Hc2) & ->)].
    { apply Z.ltb_lt in G. rewrite G. reflexivity. }
    apply Z.ltb_ge in G. rewrite G.
    rewrite Htr; cbn [bind]. rewrite Hmu; cbn [bind].
    unfold verify_w1 in Hw.
    bind_inv Hw cp Hcp. bind_inv Hw mat Hmat.
    bind_inv Hw zhat Hzhat. bind_inv Hw w1 Hw1. bind_inv Hw chat Hchat. bind_inv Hw t1s Ht1s.
    bind_inv Hw t1h Ht1h. bind_inv Hw ct1 Hct1. bind_inv Hw w1a Hw1a. bind_inv Hw w1b Hw1b.
    bind_inv Hw w1c Hw1c. bind_inv Hw w1d Hw1d. bind_inv Hw w1e Hw1e.
    rewrite Hcp; cbn [bind]. rewrite Hmat; cbn [bind]. rewrite Hzhat; cbn [bind].
    rewrite Hw1; cbn [bind]. rewrite Hchat; cbn [bind]. rewrite Ht1s; cbn [bind]. rewrite Ht1h; cbn [bind].
    rewrite Hct1; cbn [bind]. rewrite Hw1a; cbn [bind]. rewrite Hw1b; cbn [bind]. rewrite Hw1c; cbn [bind].
    rewrite Hw1d; cbn [bind]. rewrite Hw1e; cbn [bind]. rewrite Hw; cbn [bind].
    rewrite Hc2; cbn [bind]. reflexivity.
  Qed.

  (** ** B1: the length gate *)
  Theorem verify_length_gate sig m pk : zlen sig <> pSIG P -> verify P sig m pk = Ok false.
  Proof. intros H. apply verify_complete. left. auto. Qed.

  (** ** B2: what an accepting run established *)
  Theorem verify_true_inv sig m pk :
    verify P sig m pk = Ok true ->
    zlen sig = pSIG P /\
    exists rho t1 c z h,
      unpack_pk P (repeatZ 0 32) (zvec (pK P)) pk = Ok (rho, t1) /\
      unpack_sig P (repeatZ 0 (pCT P)) (zvec (pL P)) (zvec (pK P)) sig = Ok (c, z, h, true) /\
      exists cn, l_chknorm P z (pGAMMA1 P - pBETA P) = Ok cn /\ cn <= 0 /\
      exists c2, verify_tail m pk rho t1 c z h c2 /\ c = c2.
  Proof.
    intros H. apply verify_inv in H.
    destruct H as [(_ & H) | (El & rho & t1 & c & z & h & ok & Hpk & Hsig & D)]; [discriminate|].
    split; [exact El|]. exists rho, t1, c, z, h. split; [exact Hpk|].
    destruct D as [(_ & D) | (-> & cn & Hcn & D)]; [discriminate|]. split; [exact Hsig|].
    exists cn. split; [exact Hcn|].
    destruct D as [(_ & D) | (G & c2 & T & D)]; [discriminate|]. split; [exact G|].
    exists c2. split; [exact T|].
    destruct (list_eq_dec Z.eq_dec c c2) as [E|E]; [exact E|discriminate].
  Qed.

  (** ** B3: rejections *)
  Theorem verify_rejects_bad_hints sig m pk rho t1 c z h :
    unpack_pk P (repeatZ 0 32) (zvec (pK P)) pk = Ok (rho, t1) ->
    unpack_sig P (repeatZ 0 (pCT P)) (zvec (pL P)) (zvec (pK P)) sig = Ok (c, z, h, false) ->
    verify P sig m pk = Ok false.
  Proof.
    intros Hpk Hsig. apply verify_complete.
    destruct (Z.eq_dec (zlen sig) (pSIG P)) as [E|E]; [right|left; auto].
    split; [exact E|]. exists rho, t1, c, z, h, false. auto.
  Qed.

  Theorem verify_rejects_big_z sig m pk rho t1 c z h ok cn :
    unpack_pk P (repeatZ 0 32) (zvec (pK P)) pk = Ok (rho, t1) ->
    unpack_sig P (repeatZ 0 (pCT P)) (zvec (pL P)) (zvec (pK P)) sig = Ok (c, z, h, ok) ->
    l_chknorm P z (pGAMMA1 P - pBETA P) = Ok cn -> 0 < cn ->
    verify P sig m pk = Ok false.
  Proof.
    intros Hpk Hsig Hcn G. apply verify_complete.
    destruct (Z.eq_dec (zlen sig) (pSIG P)) as [E|E]; [right|left; auto].
    split; [exact E|]. exists rho, t1, c, z, h, ok. split; [exact Hpk|]. split; [exact Hsig|].
    destruct ok; [right|left; auto]. split; [reflexivity|]. exists cn. auto.
  Qed.

  Theorem verify_rejects_challenge_mismatch sig m pk rho t1 c z h ok c2 :
    unpack_pk P (repeatZ 0 32) (zvec (pK P)) pk = Ok (rho, t1) ->
    unpack_sig P (repeatZ 0 (pCT P)) (zvec (pL P)) (zvec (pK P)) sig = Ok (c, z, h, ok) ->
    verify_tail m pk rho t1 c z h c2 -> c <> c2 ->
    forall b, verify P sig m pk = Ok b -> b = false.
  Proof.
    intros Hpk Hsig T Hne b H. apply verify_inv in H.
    destruct H as [(_ & H) | (El & rho' & t1' & c' & z' & h' & ok' & Hpk' & Hsig' & D)]; [exact H|].
    rewrite Hpk in Hpk'. rewrite Hsig in Hsig'. inversion Hpk'; inversion Hsig'; subst.
    destruct D as [(_ & D) | (-> & cn & Hcn & D)]; [exact D|].
    destruct D as [(_ & D) | (G & c2' & T' & D)]; [exact D|].
    destruct T as (tr & mu & buf & Htr & Hmu & Hw & Hc2).
    destruct T' as (tr' & mu' & buf' & Htr' & Hmu' & Hw' & Hc2').
    rewrite Htr in Htr'. inversion Htr'; subst tr'.
    rewrite Hmu in Hmu'. inversion Hmu'; subst mu'.
    rewrite Hw in Hw'. inversion Hw'; subst buf'.
    rewrite Hc2 in Hc2'. inversion Hc2'; subst c2'.
    destruct (list_eq_dec Z.eq_dec c' c2) as [E|E]; [contradiction|exact D].
  Qed.

  (** ** B4: the answer is a function of (sig, m, pk): no tape, no hidden state *)
  Lemma verify_fun sig m pk sig' m' pk' :
    sig = sig' -> m = m' -> pk = pk' -> verify P sig m pk = verify P sig' m' pk'.
  Proof. intros -> -> ->. reflexivity. Qed.

  (** ** the API wrappers repeat the length gate *)
  Theorem dil_verify_length_gate pk msg sig : zlen sig <> pSIG P -> dil_verify P pk msg sig = Ok false.
  Proof.
    intros H. unfold dil_verify. destruct (Z.eqb_spec (zlen sig) (pSIG P)); [contradiction|reflexivity].
  Qed.
  Theorem ml_verify_length_gate pk msg sig ctx : zlen sig <> pSIG P -> ml_verify P pk msg sig ctx = Ok false.
  Proof.
    intros H. unfold ml_verify. destruct (Z.eqb_spec (zlen sig) (pSIG P)); [contradiction|reflexivity].
  Qed.
  Theorem ml_prehash_verify_length_gate pk msg sig ctx ph :
    zlen sig <> pSIG P -> ml_prehash_verify P pk msg sig ctx ph = Ok false.
  Proof.
    intros H. unfold ml_prehash_verify. destruct (Z.eqb_spec (zlen sig) (pSIG P)); [contradiction|reflexivity].
  Qed.
  Theorem ml_verify_ctx_gate pk msg sig ctx : ctx_too_long ctx = true -> ml_verify P pk msg sig ctx = Ok false.
  Proof. intros H. unfold ml_verify. rewrite H. destruct (negb _); reflexivity. Qed.

  (** the wrappers add nothing else: on a signature of the right length they are [verify] *)
  Theorem dil_verify_eq pk msg sig : dil_verify P pk msg sig = verify P sig msg pk.
  Proof.
    unfold dil_verify. destruct (Z.eqb_spec (zlen sig) (pSIG P)) as [E|E]; cbn [negb]; [reflexivity|].
    symmetry. apply verify_length_gate. exact E.
  Qed.
  Theorem ml_verify_eq pk msg sig ctx : ctx_too_long ctx = false ->
    ml_verify P pk msg sig ctx = verify P sig (frame_pure ctx msg) pk.
  Proof.
    intros Hc. unfold ml_verify. rewrite Hc.
    destruct (Z.eqb_spec (zlen sig) (pSIG P)) as [E|E]; cbn [negb]; [reflexivity|].
    symmetry. apply verify_length_gate. exact E.
  Qed.
End Verify.

(** * 4. Shapes: every vector operation preserves the number of polynomials *)

Lemma set_nat_length {A} (l : list A) : forall i v r, set_nat l i v = Ok r -> length r = length l.
Proof.
  induction l as [|x xs IH]; intros i v r H; [discriminate|].
  destruct i as [|i]; cbn [set_nat] in H.
  - inversion H. reflexivity.
  - bind_inv H r' Hr. inversion H. cbn [length]. f_equal. exact (IH _ _ _ Hr).
Qed.

Lemma set_length {A} (l : list A) i v r : set l i v = Ok r -> length r = length l.
Proof. unfold set. destruct (i <? 0); [discriminate|]. apply set_nat_length. Qed.

Lemma foldM_invariant {A S} (I : S -> Prop) (f : S -> A -> res S) l :
  (forall s x s', I s -> f s x = Ok s' -> I s') ->
  forall s s', I s -> foldM f l s = Ok s' -> I s'.
Proof.
  intros Hf. induction l as [|x xs IH]; intros s s' Hs H; cbn [foldM] in H.
  - inversion H; subst. exact Hs.
  - bind_inv H s1 H1. exact (IH _ _ (Hf _ _ _ Hs H1) H).
Qed.

Lemma for_idx_length {A} n (f : Z -> A -> res A) v r : for_idx n f v = Ok r -> length r = length v.
Proof.
  unfold for_idx. apply (foldM_invariant (fun w => length w = length v)); [|reflexivity].
  intros s i s' Hs H. bind_inv H x Hx. bind_inv H y Hy. apply set_length in H. congruence.
Qed.

Lemma for_idx2_length {A B} n (f : A -> B -> res A) w v r : for_idx2 n f w v = Ok r -> length r = length w.
Proof.
  unfold for_idx2. apply (foldM_invariant (fun u => length u = length w)); [|reflexivity].
  intros s i s' Hs H. bind_inv H x Hx. bind_inv H y Hy. bind_inv H z Hz. apply set_length in H. congruence.
Qed.

Lemma vec_map_length n f v r : vec_map n f v = Ok r -> length r = length v.
Proof. apply for_idx_length. Qed.

Lemma zvec_length n : length (zvec n) = Z.to_nat n.
Proof. unfold zvec, repeatZ. apply repeat_length. Qed.

(** * 5. What a successful [reduce32] returns, with no hypothesis on the input *)

Lemma reduce32_ok_range a r : reduce32 a = Ok r -> -6291200 <= r <= 6283008.
Proof.
  unfold reduce32, i32_add, i32_sub, i32_wrapping_mul. intros H.
  bind_inv H u Hu. apply chk_s_inv in Hu as (-> & Hu). rewrite two31 in Hu.
  rewrite shr_ok in H by lia. cbn [bind] in H. change (2 ^ 23) with 8388608 in H.
  set (t := (a + 4194304) / 8388608) in *.
  assert (Bt : -256 <= t <= 255) by (unfold t; lia).
  rewrite (wrap_id 32 (t * Q)) in H by (try lia; rewrite two31; unfold Q; lia).
  apply chk_s_inv in H as (-> & _). unfold t, Q. lia.
Qed.

Definition small_coeffs (v : list (list Z)) : Prop :=
  forall a, In a v -> Forall (fun x => -1073741824 <= x <= 1073741823) a.

Lemma Forall2_In_r {A B} (R : A -> B -> Prop) l r : Forall2 R l r -> forall y, In y r -> exists x, In x l /\ R x y.
Proof.
  induction 1 as [|x y l r Hxy HF IH]; intros y' Hy'; [contradiction|].
  destruct Hy' as [<- | Hy'].
  - exists x. split; [left; reflexivity | exact Hxy].
  - destruct (IH _ Hy') as (x' & Hx' & Hr). exists x'. split; [right; exact Hx' | exact Hr].
Qed.

Lemma poly_reduce_ok_range a r : poly_reduce a = Ok r -> Forall (fun x => -6291200 <= x <= 6283008) r.
Proof.
  unfold poly_reduce. intros H. apply mapM_Forall2 in H. apply Forall_forall. intros y Hy.
  destruct (Forall2_In_r _ _ _ H y Hy) as (x & _ & E). exact (reduce32_ok_range _ _ E).
Qed.

(** outputs of [l_reduce]/[k_reduce] are inside chknorm's exact domain, whatever the input was *)
Lemma vec_reduce_small n v r : length v = Z.to_nat n -> vec_map n poly_reduce v = Ok r -> small_coeffs r.
Proof.
  intros Hl H. rewrite vec_map_mapM in H by exact Hl. apply mapM_Forall2 in H.
  intros b Hb. destruct (Forall2_In_r _ _ _ H b Hb) as (a & _ & E).
  apply poly_reduce_ok_range in E. eapply Forall_impl; [|exact E]. cbv beta. intros x Hx. lia.
Qed.

(** * 6. Reading the answers of the vector norm check *)

Lemma vec_chknorm_pass v b n c :
  small_coeffs v -> length v = Z.to_nat n ->
  vec_chknorm_loop (zrange 0 n) v b = Ok c -> c <= 0 ->
  forall a, In a v -> forall x, In x a -> Z.abs x < b.
Proof.
  intros Hs Hl H Hc. destruct v as [|a0 v']; [intros a []|].
  assert (Hn : 1 <= n) by (cbn [length] in Hl; lia).
  destruct (Z.le_gt_cases b 1047552) as [Hb|Hb].
  - apply (vec_chknorm_0_iff (a0 :: v') b n Hs Hb Hl ltac:(lia)).
    rewrite vec_chknorm_exact in H by (try assumption; lia). rewrite vec_chknorm_exact by (try assumption; lia).
    destruct (existsb _ (a0 :: v')); inversion H; subst; [lia | reflexivity].
  - rewrite vec_chknorm_big in H by (try assumption; lia). inversion H; subst. lia.
Qed.

Lemma vec_chknorm_fail v b n c :
  small_coeffs v -> b <= 1047552 -> length v = Z.to_nat n ->
  vec_chknorm_loop (zrange 0 n) v b = Ok c -> 0 < c ->
  c = 1 /\ exists a x, In a v /\ In x a /\ b <= Z.abs x.
Proof.
  intros Hs Hb Hl H Hc.
  destruct (Z.lt_ge_cases n 0) as [Hn|Hn].
  { rewrite vec_chknorm_empty in H by lia. inversion H; subst. lia. }
  rewrite vec_chknorm_exact in H by assumption.
  destruct (existsb (fun a => existsb (fun x => b <=? Z.abs x) a) v) eqn:E; inversion H; subst; [|lia].
  split; [reflexivity|]. apply existsb_exists in E as (a & Ha & E).
  apply existsb_exists in E as (x & Hx & E). apply Z.leb_le in E. eauto.
Qed.

Lemma vec_chknorm_big_coeff v b n a x :
  small_coeffs v -> b <= 1047552 -> length v = Z.to_nat n -> 0 <= n ->
  In a v -> In x a -> b <= Z.abs x ->
  vec_chknorm_loop (zrange 0 n) v b = Ok 1.
Proof.
  intros Hs Hb Hl Hn Ha Hx Hbx. rewrite vec_chknorm_exact by assumption.
  replace (existsb (fun a => existsb (fun x => b <=? Z.abs x) a) v) with true; [reflexivity|].
  symmetry. apply existsb_exists. exists a. split; [exact Ha|]. apply existsb_exists. exists x.
  split; [exact Hx | apply Z.leb_le; exact Hbx].
Qed.

(** * 7. The hint vector: its weight is the count the signer compares with OMEGA *)

Definition hint_weight (h : list (list Z)) : Z := zsum (map zsum h).
Definition hint_bits (h : list (list Z)) : Prop := forall a, In a h -> Forall (fun y => y = 0 \/ y = 1) a.

Lemma foldM_i32_add_sum h : forall s t, foldM (fun s x => i32_add s x) h s = Ok t -> t = s + zsum h.
Proof.
  induction h as [|x h IH]; intros s t H; cbn [foldM zsum fold_right] in *.
  - inversion H. lia.
  - bind_inv H s' Hs. unfold i32_add in Hs. apply chk_s_inv in Hs as (-> & _).
    apply IH in H. unfold zsum in H. lia.
Qed.

Lemma poly_make_hint_inv g88 a0 a1 h s :
  poly_make_hint g88 a0 a1 = Ok (h, s) -> Forall (fun y => y = 0 \/ y = 1) h /\ s = zsum h.
Proof.
  unfold poly_make_hint. intros H. bind_inv H h' Hh. bind_inv H s' Hs. inversion H; subst h' s'.
  split.
  - eapply map2M_Forall; [|exact Hh]. intros x y z. apply make_hint_bit.
  - apply foldM_i32_add_sum in Hs. lia.
Qed.

Lemma zsum_app a b : zsum (a ++ b) = zsum a + zsum b.
Proof. unfold zsum. induction a as [|x a IH]; cbn [app fold_right]; lia. Qed.

Lemma mh_core_inv g88 v0 v1 suf : forall pre s h n,
  foldM (mh_step g88 v0 v1) (map Z.of_nat (seq (length pre) (length suf))) (pre ++ suf, s) = Ok (h, n) ->
  exists hs, h = pre ++ hs /\ length hs = length suf /\ hint_bits hs /\ n = s + hint_weight hs.
Proof.
  induction suf as [|x suf IH]; intros pre s h n H.
  - cbn [length seq map foldM] in H. inversion H; subst. exists []. repeat split; try reflexivity.
    + intros a [].
    + unfold hint_weight. cbn. lia.
  - cbn [length seq map foldM] in H. bind_inv H st Hst. unfold mh_step in Hst.
    rewrite get_app_mid in Hst. cbn [bind] in Hst.
    bind_inv Hst a0 Ha0. bind_inv Hst a1 Ha1. bind_inv Hst hn Hhn. destruct hn as [hi ni].
    rewrite set_app_mid in Hst. cbn [bind] in Hst. bind_inv Hst s' Hs'. inversion Hst; subst st.
    unfold i32_add in Hs'. apply chk_s_inv in Hs' as (-> & _).
    apply poly_make_hint_inv in Hhn as (Hbits & ->).
    rewrite snoc_app in H. rewrite <- (snoc_length pre hi) in H.
    apply IH in H as (hs & -> & Hlen & Hb & ->).
    exists (hi :: hs). split; [rewrite <- app_assoc; reflexivity|]. split; [cbn [length]; lia|]. split.
    + intros a [<- | Ha]; [exact Hbits | exact (Hb a Ha)].
    + unfold hint_weight. cbn [map zsum fold_right]. unfold zsum. lia.
Qed.

Theorem k_make_hint_inv P h0 v0 v1 h n :
  length h0 = Z.to_nat (pK P) ->
  k_make_hint P h0 v0 v1 = Ok (h, n) ->
  length h = Z.to_nat (pK P) /\ hint_bits h /\ n = hint_weight h /\ 0 <= n.
Proof.
  intros Hl H. unfold k_make_hint in H.
  change (foldM (mh_step (pG88 P) v0 v1) (zrange 0 (pK P)) (h0, 0) = Ok (h, n)) in H.
  rewrite zrange0_seq, <- Hl in H.
  pose proof (mh_core_inv (pG88 P) v0 v1 h0 [] 0 h n) as C. cbn [length app] in C.
  destruct (C H) as (hs & -> & Hlen & Hb & ->). split; [lia|]. split; [exact Hb|]. split; [lia|].
  assert (G : forall l, hint_bits l -> 0 <= hint_weight l).
  { clear. unfold hint_weight. induction l as [|a l IH]; intros Hb; [cbn; lia|].
    cbn [map zsum fold_right].
    assert (0 <= zsum a).
    { assert (Fa := Hb a (or_introl eq_refl)). clear - Fa. induction Fa as [|y a Hy Fa IH]; [cbn; lia|].
      cbn [zsum fold_right]. unfold zsum in IH. lia. }
    assert (0 <= zsum (map zsum l)) by (apply IH; intros b Hb'; apply Hb; right; exact Hb').
    unfold zsum in *. lia. }
  pose proof (G hs Hb). lia.
Qed.

(** * 8. A4: an emitted signature respects the rejection bounds *)

Section Bounds.
  Variable P : params.
  Variables (sig mu rhoprime : list Z) (mat : list (list (list Z))) (s1 s2 t0 : list (list Z)) (nonce : Z).

  Lemma stage_z_shapes M : stage_z P sig mu rhoprime mat s1 nonce M ->
    length (am_y M) = Z.to_nat (pL P) /\ length (am_yhat M) = Z.to_nat (pL P) /\
    length (am_w M) = Z.to_nat (pK P) /\ length (am_w1 M) = Z.to_nat (pK P) /\
    length (am_w0 M) = Z.to_nat (pK P) /\
    length (am_zsum M) = Z.to_nat (pL P) /\ length (am_z M) = Z.to_nat (pL P).
  Proof.
    intros (Hy & Hyhat & (wa & wb & wc & Hwa & Hwb & Hwc & Hw) & Hdec & _ & _ & _ & _ &
            Hcs1 & Hcs1i & Hzs & Hz & _).
    unfold l_uniform_gamma1 in Hy. apply for_idx_length in Hy. rewrite zvec_length in Hy.
    apply vec_map_length in Hyhat.
    unfold matrix_pointwise_montgomery in Hwa. apply for_idx_length in Hwa. rewrite zvec_length in Hwa.
    apply vec_map_length in Hwb. apply vec_map_length in Hwc. apply vec_map_length in Hw.
    assert (Lw : length (am_w M) = Z.to_nat (pK P)) by congruence.
    rewrite k_decompose_lift in Hdec by (try exact Lw; apply zvec_length).
    bind_inv Hdec l Hl. apply mapM_length in Hl. inversion Hdec as [[E1 E0]].
    unfold l_pointwise_poly_montgomery in Hcs1. apply for_idx_length in Hcs1.
    apply vec_map_length in Hcs1i. unfold l_add in Hzs. apply for_idx2_length in Hzs.
    apply vec_map_length in Hz.
    repeat split; try congruence.
    - rewrite map_length. congruence.
    - rewrite map_length. congruence.
  Qed.

  Lemma stage_w0_shapes M : stage_z P sig mu rhoprime mat s1 nonce M -> stage_w0 P s2 M ->
    length (am_cs2i M) = Z.to_nat (pK P) /\ length (am_w0s M) = Z.to_nat (pK P) /\
    length (am_w0r M) = Z.to_nat (pK P).
  Proof.
    intros SZ (Hcs2 & Hcs2i & Hw0s & Hw0r & _).
    destruct (stage_z_shapes M SZ) as (_ & _ & _ & _ & L0 & _).
    unfold k_pointwise_poly_montgomery in Hcs2. apply for_idx_length in Hcs2. rewrite zvec_length in Hcs2.
    apply vec_map_length in Hcs2i. unfold k_sub in Hw0s. apply for_idx2_length in Hw0s.
    apply vec_map_length in Hw0r. repeat split; congruence.
  Qed.

  Lemma stage_ct0_shapes M : stage_z P sig mu rhoprime mat s1 nonce M -> stage_w0 P s2 M -> stage_ct0 P t0 M ->
    length (am_ct0i M) = Z.to_nat (pK P) /\ length (am_ct0 M) = Z.to_nat (pK P).
  Proof.
    intros SZ S2 (Hct0p & Hct0i & Hct0 & _).
    destruct (stage_w0_shapes M SZ S2) as (L1 & _).
    unfold k_pointwise_poly_montgomery in Hct0p. apply for_idx_length in Hct0p.
    apply vec_map_length in Hct0i. apply vec_map_length in Hct0. split; congruence.
  Qed.

  (** the three norm bounds and the hint count of an accepted iteration. No hypothesis on the
      parameter set: outputs of reduce32 are always inside the exact domain of chknorm, and a bound
      above (Q-1)/8 would have made the check fail. *)
  Theorem emitted_bounds M s :
    attempt_accepts P sig mu rhoprime mat s1 s2 t0 nonce M s ->
    (forall a, In a (am_z M) -> forall x, In x a -> Z.abs x < pGAMMA1 P - pBETA P) /\
    (forall a, In a (am_w0r M) -> forall x, In x a -> Z.abs x < pGAMMA2 P - pBETA P) /\
    (forall a, In a (am_ct0 M) -> forall x, In x a -> Z.abs x < pGAMMA2 P) /\
    length (am_z M) = Z.to_nat (pL P) /\ length (am_h M) = Z.to_nat (pK P) /\
    hint_bits (am_h M) /\ hint_weight (am_h M) = am_n M /\ 0 <= hint_weight (am_h M) <= pOMEGA P.
  Proof.
    intros (SZ & G1 & S2 & G2 & S3 & G3 & S4 & G4 & Hs).
    destruct (stage_z_shapes M SZ) as (_ & _ & _ & _ & _ & Lzs & Lz).
    destruct (stage_w0_shapes M SZ S2) as (_ & Lw0s & Lw0r).
    destruct (stage_ct0_shapes M SZ S2 S3) as (Lct0i & Lct0).
    destruct SZ as (_ & _ & _ & _ & _ & _ & _ & _ & _ & _ & _ & Hz & Hc1).
    destruct S2 as (_ & _ & _ & Hw0r & Hc2). destruct S3 as (_ & _ & Hct0 & Hc3).
    destruct S4 as (_ & Hh).
    split; [|split; [|split]].
    - exact (vec_chknorm_pass _ _ _ _ (vec_reduce_small _ _ _ Lzs Hz) Lz Hc1 G1).
    - exact (vec_chknorm_pass _ _ _ _ (vec_reduce_small _ _ _ Lw0s Hw0r) Lw0r Hc2 G2).
    - exact (vec_chknorm_pass _ _ _ _ (vec_reduce_small _ _ _ Lct0i Hct0) Lct0 Hc3 G3).
    - destruct (k_make_hint_inv P _ _ _ _ _ Lct0 Hh) as (Lh & Hb & Hn & Hn0).
      split; [exact Lz|]. split; [exact Lh|]. split; [exact Hb|]. split; [symmetry; exact Hn|]. lia.
  Qed.

  (** A4 as requested *)
  Corollary emitted_z_bound s :
    sign_attempt P sig mu rhoprime mat s1 s2 t0 nonce = Ok (Done s) ->
    exists sigc z h,
      pack_sig P sigc None z h = Ok s /\
      length z = Z.to_nat (pL P) /\ length h = Z.to_nat (pK P) /\
      (forall a, In a z -> forall x, In x a -> Z.abs x < pGAMMA1 P - pBETA P) /\
      hint_bits h /\ 0 <= hint_weight h <= pOMEGA P.
  Proof.
    intros H. apply sign_attempt_done in H as (M & A).
    destruct (emitted_bounds M s A) as (Bz & _ & _ & Lz & Lh & Hb & _ & Hw).
    exists (am_sigc M), (am_z M), (am_h M).
    destruct A as (_ & _ & _ & _ & _ & _ & _ & _ & Hs). auto 10.
  Qed.

  (** the rejected iterations, read the other way: cause 1/2/3 means a coefficient at or above the bound
      (for parameter sets whose bounds are inside the exact regime), cause 4 means too many hints *)
  Theorem rejected_reason M cause :
    norm_bounds_ok P ->
    attempt_rejects P sig mu rhoprime mat s1 s2 t0 nonce M cause ->
    (cause = 1 /\ exists a x, In a (am_z M) /\ In x a /\ pGAMMA1 P - pBETA P <= Z.abs x) \/
    (cause = 2 /\ exists a x, In a (am_w0r M) /\ In x a /\ pGAMMA2 P - pBETA P <= Z.abs x) \/
    (cause = 3 /\ exists a x, In a (am_ct0 M) /\ In x a /\ pGAMMA2 P <= Z.abs x) \/
    (cause = 4 /\ pOMEGA P < hint_weight (am_h M)).
  Proof.
    intros (B1 & B2 & B3) (SZ & D).
    destruct (stage_z_shapes M SZ) as (_ & _ & _ & _ & _ & Lzs & Lz).
    assert (Hz := SZ). destruct Hz as (_ & _ & _ & _ & _ & _ & _ & _ & _ & _ & _ & Hz & Hc1).
    destruct D as [(-> & F1) | [(-> & G1 & S2 & F2) | [(-> & G1 & S2 & G2 & S3 & F3) |
                   (-> & G1 & S2 & G2 & S3 & G3 & S4 & F4)]]].
    - left. split; [reflexivity|].
      exact (proj2 (vec_chknorm_fail _ _ _ _ (vec_reduce_small _ _ _ Lzs Hz) (proj2 B1) Lz Hc1 F1)).
    - right; left. split; [reflexivity|].
      destruct (stage_w0_shapes M SZ S2) as (_ & Lw0s & Lw0r). destruct S2 as (_ & _ & _ & Hw0r & Hc2).
      exact (proj2 (vec_chknorm_fail _ _ _ _ (vec_reduce_small _ _ _ Lw0s Hw0r) (proj2 B2) Lw0r Hc2 F2)).
    - right; right; left. split; [reflexivity|].
      destruct (stage_ct0_shapes M SZ S2 S3) as (Lct0i & Lct0). destruct S3 as (_ & _ & Hct0 & Hc3).
      exact (proj2 (vec_chknorm_fail _ _ _ _ (vec_reduce_small _ _ _ Lct0i Hct0) (proj2 B3) Lct0 Hc3 F3)).
    - right; right; right. split; [reflexivity|].
      destruct (stage_ct0_shapes M SZ S2 S3) as (Lct0i & Lct0). destruct S4 as (_ & Hh).
      destruct (k_make_hint_inv P _ _ _ _ _ Lct0 Hh) as (_ & _ & Hn & _). lia.
  Qed.
End Bounds.

(** * 9. The verifier, continued: what the decoder hands to the checks *)

Lemma slice_to_inv {A} (l : list A) n r : slice_to l n = Ok r -> r = firstn (Z.to_nat n) l /\ 0 <= n <= zlen l.
Proof.
  unfold slice_to. destruct (Z.leb_spec 0 n); destruct (Z.leb_spec n (zlen l)); cbn [andb];
    intros E; inversion E. split; [reflexivity | lia].
Qed.

Lemma splice_zero_full {A} (x : A) n src r :
  zlen src = n -> splice (repeatZ x n) 0 src = Ok r -> r = src.
Proof.
  intros Hn. unfold splice.
  destruct ((0 <=? 0) && (0 + zlen src <=? zlen (repeatZ x n))); [|discriminate].
  intros H. inversion H. change (Z.to_nat 0) with 0%nat. cbn [firstn app].
  rewrite skipn_all2; [apply app_nil_r|].
  unfold repeatZ. rewrite repeat_length. unfold zlen in *. lia.
Qed.

Section VerifyDecode.
  Variable P : params.

  (** the challenge bytes compared at the end are exactly the first pCT bytes of the signature, all
      of them, and the decoded z has L polynomials *)
  Theorem unpack_sig_shape z0 h0 sig c z h ok :
    unpack_sig P (repeatZ 0 (pCT P)) z0 h0 sig = Ok (c, z, h, ok) ->
    c = firstn (Z.to_nat (pCT P)) sig /\ zlen c = pCT P /\ length z = length z0.
  Proof.
    intros H. unfold unpack_sig in H.
    bind_inv H cc Hcc. bind_inv H c' Hc'. bind_inv H z' Hz'. bind_inv H hs Hhs.
    bind_inv H hk Hhk. destruct hk as [[h' k] ok'].
    apply slice_to_inv in Hcc as (-> & Hct).
    assert (Lc : zlen (firstn (Z.to_nat (pCT P)) sig) = pCT P).
    { unfold zlen in *. rewrite firstn_length. lia. }
    apply (splice_zero_full 0 _ _ _ Lc) in Hc'. subst c'.
    apply for_idx_length in Hz'.
    assert (E : c = firstn (Z.to_nat (pCT P)) sig /\ z = z').
    { destruct (negb ok').
      - inversion H. auto.
      - bind_inv H ok2 Hok2. inversion H. auto. }
    destruct E as (-> & ->). auto.
  Qed.

  (** B3, coefficient form: a decoded z with a coefficient at or above GAMMA1 - BETA is rejected *)
  Theorem verify_rejects_big_coeff sig m pk rho t1 c z h ok a x :
    unpack_pk P (repeatZ 0 32) (zvec (pK P)) pk = Ok (rho, t1) ->
    unpack_sig P (repeatZ 0 (pCT P)) (zvec (pL P)) (zvec (pK P)) sig = Ok (c, z, h, ok) ->
    small_coeffs z -> pGAMMA1 P - pBETA P <= 1047552 -> 0 <= pL P ->
    In a z -> In x a -> pGAMMA1 P - pBETA P <= Z.abs x ->
    verify P sig m pk = Ok false.
  Proof.
    intros Hpk Hsig Hs Hb HL Ha Hx Hbx.
    destruct (unpack_sig_shape _ _ _ _ _ _ _ Hsig) as (_ & _ & Lz). rewrite zvec_length in Lz.
    apply (verify_rejects_big_z P sig m pk rho t1 c z h ok 1 Hpk Hsig); [|lia].
    unfold l_chknorm. exact (vec_chknorm_big_coeff _ _ _ a x Hs Hb Lz HL Ha Hx Hbx).
  Qed.

  (** and conversely an accepted signature has a small z (given the decoder's output range) *)
  Theorem verify_true_z_bound sig m pk :
    verify P sig m pk = Ok true ->
    exists c z h, unpack_sig P (repeatZ 0 (pCT P)) (zvec (pL P)) (zvec (pK P)) sig = Ok (c, z, h, true) /\
      c = firstn (Z.to_nat (pCT P)) sig /\ zlen c = pCT P /\ length z = Z.to_nat (pL P) /\
      (small_coeffs z -> forall a, In a z -> forall x, In x a -> Z.abs x < pGAMMA1 P - pBETA P).
  Proof.
    intros H. apply verify_true_inv in H as (_ & rho & t1 & c & z & h & _ & Hsig & cn & Hcn & G & _).
    exists c, z, h. split; [exact Hsig|].
    destruct (unpack_sig_shape _ _ _ _ _ _ _ Hsig) as (Ec & Lc & Lz). rewrite zvec_length in Lz.
    split; [exact Ec|]. split; [exact Lc|]. split; [exact Lz|].
    intros Hs. exact (vec_chknorm_pass _ _ _ _ Hs Lz Hcn G).
  Qed.
End VerifyDecode.

(** * 10. A5: the whole signing function *)

Section Signature.
  Variable P : params.

  (** the derivation of the mask seed rho' (deterministic / randomized / ML-DSA hedged), as in the code *)
  Definition sign_rhoprime (rand : bool) (tape key mu : list Z) : res (list Z * list Z) :=
    if pMLDSA P then
      do '(rnd, tape') <- (if rand then draw tape SEEDBYTES else Ok (repeatZ 0 32, tape));
      do r <- shake256_hash [key; rnd; mu] CRHBYTES;
      Ok (r, tape')
    else if rand then draw tape CRHBYTES
    else do r <- shake256 (repeatZ 0 64) CRHBYTES (key ++ mu) (SEEDBYTES + CRHBYTES); Ok (r, tape).

  Record sign_ctx := {
    sc_rho : list Z; sc_tr : list Z; sc_key : list Z;
    sc_t0 : list (list Z); sc_s1 : list (list Z); sc_s2 : list (list Z);   (* as decoded from sk *)
    sc_mu : list Z; sc_rhoprime : list Z;
    sc_mat : list (list (list Z));
    sc_s1h : list (list Z); sc_s2h : list (list Z); sc_t0h : list (list Z)  (* NTT domain *)
  }.

  (** everything [signature] computes before entering the loop *)
  Definition sign_setup (msg sk : list Z) (rand : bool) (tape : list Z) (C : sign_ctx) (tape' : list Z) : Prop :=
    unpack_sk P (repeatZ 0 32) (repeatZ 0 (pTR P)) (repeatZ 0 32) (zvec (pK P)) (zvec (pL P)) (zvec (pK P)) sk
      = Ok (sc_rho C, sc_tr C, sc_key C, sc_t0 C, sc_s1 C, sc_s2 C) /\
    shake256_hash [firstn (Z.to_nat (pTR P)) (sc_tr C); msg] CRHBYTES = Ok (sc_mu C) /\
    sign_rhoprime rand tape (sc_key C) (sc_mu C) = Ok (sc_rhoprime C, tape') /\
    matrix_expand P (zmat (pK P) (pL P)) (sc_rho C) = Ok (sc_mat C) /\
    l_ntt P (sc_s1 C) = Ok (sc_s1h C) /\
    k_ntt P (sc_s2 C) = Ok (sc_s2h C) /\
    k_ntt P (sc_t0 C) = Ok (sc_t0h C).

  Theorem signature_trace_inv fuel sig msg sk rand tape s trace tape' :
    signature_trace P fuel sig msg sk rand tape = Ok (s, trace, tape') <->
    exists C, sign_setup msg sk rand tape C tape' /\
              sign_loop P fuel sig (sc_mu C) (sc_rhoprime C) (sc_mat C) (sc_s1h C) (sc_s2h C) (sc_t0h C) 0 []
              = Ok (s, trace).
  Proof.
    split.
    - intros H. unfold signature_trace in H.
      bind_inv H skd Hsk. destruct skd as [[[[[rho tr] key] t0] s1] s2].
      bind_inv H mu Hmu. bind_inv H rp Hrp. destruct rp as [rhoprime tp].
      bind_inv H mat Hmat. bind_inv H s1h Hs1h. bind_inv H s2h Hs2h. bind_inv H t0h Ht0h.
      bind_inv H st Hloop. destruct st as [s' trace']. inversion H; subst s' trace' tp.
      exists (Build_sign_ctx rho tr key t0 s1 s2 mu rhoprime mat s1h s2h t0h).
      split; [|exact Hloop]. unfold sign_setup. cbn [sc_rho sc_tr sc_key sc_t0 sc_s1 sc_s2 sc_mu sc_rhoprime
        sc_mat sc_s1h sc_s2h sc_t0h]. repeat split; assumption.
    - intros (C & (Hsk & Hmu & Hrp & Hmat & Hs1h & Hs2h & Ht0h) & Hloop). unfold signature_trace.
      rewrite Hsk; cbn [bind]. rewrite Hmu; cbn [bind].
      unfold sign_rhoprime in Hrp. rewrite Hrp; cbn [bind].
      rewrite Hmat; cbn [bind]. rewrite Hs1h; cbn [bind]. rewrite Hs2h; cbn [bind]. rewrite Ht0h; cbn [bind].
      rewrite Hloop; cbn [bind]. reflexivity.
  Qed.

  (** A5: the returned signature is the packing of a (z, h) that passed all four tests in the last
      iteration, run with the s1, s2, t0 decoded from the secret key; the trace lists the causes of
      the rejected iterations; iteration k used counter k. *)
  Theorem signature_structure fuel sig msg sk rand tape s trace tape' :
    signature_trace P fuel sig msg sk rand tape = Ok (s, trace, tape') ->
    exists C sig_n M,
      let n := Z.of_nat (length trace) in
      sign_setup msg sk rand tape C tape' /\
      (length trace < fuel)%nat /\ n <= 65535 /\
      Forall (fun c => 1 <= c <= 4) trace /\
      retry_chain P (sc_mu C) (sc_rhoprime C) (sc_mat C) (sc_s1h C) (sc_s2h C) (sc_t0h C) trace 0 sig sig_n /\
      sign_attempt P sig_n (sc_mu C) (sc_rhoprime C) (sc_mat C) (sc_s1h C) (sc_s2h C) (sc_t0h C) n = Ok (Done s) /\
      attempt_accepts P sig_n (sc_mu C) (sc_rhoprime C) (sc_mat C) (sc_s1h C) (sc_s2h C) (sc_t0h C) n M s.
  Proof.
    intros H. apply signature_trace_inv in H as (C & HS & Hloop).
    apply sign_loop_inv in Hloop as (causes & sig_n & E & Hl & Hch & Hd).
    cbn [app] in E. subst causes. rewrite Z.add_0_l in Hd.
    destruct (sign_attempt_done P _ _ _ _ _ _ _ _ _ Hd) as (M & A).
    exists C, sig_n, M. cbv zeta. split; [exact HS|]. split; [exact Hl|]. split.
    { destruct trace as [|c cs]; [cbn; lia|].
      assert (Hne : c :: cs <> []) by discriminate.
      pose proof (retry_chain_nonce _ _ _ _ _ _ _ _ _ _ _ Hch Hne). lia. }
    split; [exact (retry_chain_causes _ _ _ _ _ _ _ _ _ _ _ Hch)|].
    split; [exact Hch|]. split; [exact Hd|exact A].
  Qed.

  (** C06 in one statement: whatever [signature_trace] returns is the packing of a z with
      |z|_inf < GAMMA1 - BETA and of a 0/1 hint vector with at most OMEGA ones *)
  Theorem signature_respects_bounds fuel sig msg sk rand tape s trace tape' :
    signature_trace P fuel sig msg sk rand tape = Ok (s, trace, tape') ->
    exists sigc z h,
      pack_sig P sigc None z h = Ok s /\
      length z = Z.to_nat (pL P) /\ length h = Z.to_nat (pK P) /\
      (forall a, In a z -> forall x, In x a -> Z.abs x < pGAMMA1 P - pBETA P) /\
      hint_bits h /\ 0 <= hint_weight h <= pOMEGA P.
  Proof.
    intros H. apply signature_structure in H as (C & sig_n & M & _ & _ & _ & _ & _ & Hd & _).
    exact (emitted_z_bound P _ _ _ _ _ _ _ _ _ Hd).
  Qed.

  (** the public entry point is [signature_trace] with 1000 iterations of fuel, trace dropped *)
  Theorem signature_inv sig msg sk rand tape s tape' :
    signature P sig msg sk rand tape = Ok (s, tape') <->
    exists trace, signature_trace P SIGN_FUEL sig msg sk rand tape = Ok (s, trace, tape').
  Proof.
    unfold signature. split.
    - intros H. bind_inv H r Hr. destruct r as [[s0 trace] tp]. inversion H; subst. exists trace. exact Hr.
    - intros (trace & H). rewrite H. reflexivity.
  Qed.
End Signature.

(** * 11. The decoder's output range (so that the domain hypothesis of the norm check is met by
      every byte string), and dependence of the verdict on the decoding only *)

Lemma z_unpack_list_len18 n : forall l p, z_unpack_list 131072 n l = Ok p -> (9 * n <= length l)%nat.
Proof.
  induction n as [|n IH]; intros l p H; [lia|].
  cbn [z_unpack_list] in H. change (131072 =? 131072) with true in H. cbv iota in H.
  destruct l as [|b0 [|b1 [|b2 [|b3 [|b4 [|b5 [|b6 [|b7 [|b8 rest]]]]]]]]]; try discriminate.
  bind_inv H r0 H0. bind_inv H r1 H1. bind_inv H r2 H2. bind_inv H r3 H3. bind_inv H r Hr.
  apply IH in Hr. cbn [length]. lia.
Qed.

Lemma z_unpack_list_len20 n : forall l p, z_unpack_list 524288 n l = Ok p -> (5 * n <= length l)%nat.
Proof.
  induction n as [|n IH]; intros l p H; [lia|].
  cbn [z_unpack_list] in H. change (524288 =? 131072) with false in H. cbv iota in H.
  destruct l as [|b0 [|b1 [|b2 [|b3 [|b4 rest]]]]]; try discriminate.
  bind_inv H r0 H0. bind_inv H r1 H1. bind_inv H r Hr.
  apply IH in Hr. cbn [length]. lia.
Qed.

Theorem z_unpack_range g1 l p :
  g1 = 131072 \/ g1 = 524288 -> Forall is_byte l -> z_unpack g1 l = Ok p ->
  Forall (fun x => - g1 < x <= g1) p.
Proof.
  intros Hg Hb H. unfold z_unpack in H. destruct Hg as [-> | ->].
  - change (131072 =? 131072) with true in H. cbv iota in H.
    destruct (z_unpack18 64 l Hb (z_unpack_list_len18 _ _ _ H)) as (p' & E & _ & R).
    rewrite E in H. inversion H; subst. exact R.
  - change (524288 =? 131072) with false in H. cbv iota in H.
    destruct (z_unpack20 128 l Hb (z_unpack_list_len20 _ _ _ H)) as (p' & E & _ & R).
    rewrite E in H. inversion H; subst. exact R.
Qed.

Lemma slice_from_inv {A} (l : list A) a r : slice_from l a = Ok r -> r = skipn (Z.to_nat a) l.
Proof. unfold slice_from. destruct ((0 <=? a) && (a <=? zlen l)); intros E; inversion E. reflexivity. Qed.

Section VerifyDecode2.
  Variable P : params.

  Theorem unpack_sig_z_range c0 h0 sig c z h ok :
    pGAMMA1 P = 131072 \/ pGAMMA1 P = 524288 -> Forall is_byte sig ->
    unpack_sig P c0 (zvec (pL P)) h0 sig = Ok (c, z, h, ok) ->
    forall a, In a z -> Forall (fun x => - pGAMMA1 P < x <= pGAMMA1 P) a.
  Proof.
    intros Hg Hb H. unfold unpack_sig in H.
    bind_inv H cc Hcc. bind_inv H c' Hc'. bind_inv H z' Hz'. bind_inv H hs Hhs.
    bind_inv H hk Hhk. destruct hk as [[h' k] ok'].
    assert (E : z = z').
    { destruct (negb ok').
      - inversion H. auto.
      - bind_inv H ok2 Hok2. inversion H. auto. }
    subst z'. clear H Hhk Hhs Hc' Hcc.
    rewrite for_idx_index in Hz' by apply zvec_length. apply mapM_Forall2 in Hz'.
    intros a Ha. destruct (Forall2_In_r _ _ _ Hz' a Ha) as (i & _ & Hi).
    bind_inv Hi s Hs. apply slice_from_inv in Hs. subst s.
    exact (z_unpack_range _ _ _ Hg (Forall_skipn' _ _ _ Hb) Hi).
  Qed.

  Corollary unpack_sig_z_small c0 h0 sig c z h ok :
    pGAMMA1 P = 131072 \/ pGAMMA1 P = 524288 -> Forall is_byte sig ->
    unpack_sig P c0 (zvec (pL P)) h0 sig = Ok (c, z, h, ok) -> small_coeffs z.
  Proof.
    intros Hg Hb H a Ha. pose proof (unpack_sig_z_range _ _ _ _ _ _ _ Hg Hb H a Ha) as R.
    eapply Forall_impl; [|exact R]. cbv beta. intros x Hx. destruct Hg as [E|E]; rewrite E in Hx; lia.
  Qed.

  (** C03 for byte strings, no side hypothesis on the decoded vector:
      acceptance implies |z|_inf < GAMMA1 - BETA, the hint section well-formed, the challenge equal on
      all pCT bytes *)
  Theorem verify_true_strict sig m pk :
    pGAMMA1 P = 131072 \/ pGAMMA1 P = 524288 -> Forall is_byte sig ->
    verify P sig m pk = Ok true ->
    zlen sig = pSIG P /\
    exists rho t1 c z h c2,
      unpack_pk P (repeatZ 0 32) (zvec (pK P)) pk = Ok (rho, t1) /\
      unpack_sig P (repeatZ 0 (pCT P)) (zvec (pL P)) (zvec (pK P)) sig = Ok (c, z, h, true) /\
      length z = Z.to_nat (pL P) /\
      (forall a, In a z -> forall x, In x a -> Z.abs x < pGAMMA1 P - pBETA P) /\
      verify_tail P m pk rho t1 c z h c2 /\
      c = firstn (Z.to_nat (pCT P)) sig /\ zlen c = pCT P /\ c = c2.
  Proof.
    intros Hg Hb H. apply verify_true_inv in H as (El & rho & t1 & c & z & h & Hpk & Hsig & cn & Hcn & G & c2 & T & E).
    split; [exact El|]. exists rho, t1, c, z, h, c2.
    destruct (unpack_sig_shape _ _ _ _ _ _ _ _ Hsig) as (Ec & Lc & Lz). rewrite zvec_length in Lz.
    split; [exact Hpk|]. split; [exact Hsig|]. split; [exact Lz|]. split.
    - exact (vec_chknorm_pass _ _ _ _ (unpack_sig_z_small _ _ _ _ _ _ _ Hg Hb Hsig) Lz Hcn G).
    - auto.
  Qed.

  (** a decoded coefficient at or above the bound is rejected, for every byte string *)
  Theorem verify_rejects_big_coeff_bytes sig m pk rho t1 c z h ok a x :
    pGAMMA1 P = 131072 \/ pGAMMA1 P = 524288 -> Forall is_byte sig ->
    pGAMMA1 P - pBETA P <= 1047552 -> 0 <= pL P ->
    unpack_pk P (repeatZ 0 32) (zvec (pK P)) pk = Ok (rho, t1) ->
    unpack_sig P (repeatZ 0 (pCT P)) (zvec (pL P)) (zvec (pK P)) sig = Ok (c, z, h, ok) ->
    In a z -> In x a -> pGAMMA1 P - pBETA P <= Z.abs x ->
    verify P sig m pk = Ok false.
  Proof.
    intros Hg Hb Hbd HL Hpk Hsig Ha Hx Hbx.
    exact (verify_rejects_big_coeff P sig m pk rho t1 c z h ok a x Hpk Hsig
             (unpack_sig_z_small _ _ _ _ _ _ _ Hg Hb Hsig) Hbd HL Ha Hx Hbx).
  Qed.

  (** the verdict depends on the signature only through its length test and its decoding *)
  Theorem verify_depends_on_decoding sig sig' m pk :
    (zlen sig =? pSIG P) = (zlen sig' =? pSIG P) ->
    unpack_sig P (repeatZ 0 (pCT P)) (zvec (pL P)) (zvec (pK P)) sig
    = unpack_sig P (repeatZ 0 (pCT P)) (zvec (pL P)) (zvec (pK P)) sig' ->
    verify P sig m pk = verify P sig' m pk.
  Proof. intros H1 H2. unfold verify. rewrite H1, H2. reflexivity. Qed.
End VerifyDecode2.

(** the six parameter sets are inside the exact regime of the norm check (PNorm) *)
Theorem six_sets_bounds_ok :
  Forall norm_bounds_ok [P_lvl2; P_lvl3; P_lvl5; P_ml44; P_ml65; P_ml87].
Proof.
  destruct norm_bounds_instances as (A & B & C & D & E & F).
  repeat (apply Forall_cons; [assumption|]). apply Forall_nil.
Qed.

Print Assumptions sign_attempt_inv.
Print Assumptions sign_attempt_complete.
Print Assumptions sign_attempt_done_iff.
Print Assumptions sign_attempt_retry.
Print Assumptions sign_loop_inv.
Print Assumptions sign_loop_complete.
Print Assumptions sign_loop_last.
Print Assumptions emitted_bounds.
Print Assumptions emitted_z_bound.
Print Assumptions rejected_reason.
Print Assumptions signature_trace_inv.
Print Assumptions signature_structure.
Print Assumptions signature_respects_bounds.
Print Assumptions verify_inv.
Print Assumptions verify_complete.
Print Assumptions verify_length_gate.
Print Assumptions verify_true_inv.
Print Assumptions verify_rejects_bad_hints.
Print Assumptions verify_rejects_big_z.
Print Assumptions verify_rejects_big_coeff.
Print Assumptions verify_rejects_challenge_mismatch.
Print Assumptions verify_true_z_bound.
Print Assumptions unpack_sig_shape.
Print Assumptions unpack_sig_z_range.
Print Assumptions verify_true_strict.
Print Assumptions verify_rejects_big_coeff_bytes.
Print Assumptions verify_depends_on_decoding.
Print Assumptions dil_verify_eq.
Print Assumptions ml_verify_eq.
