(** Proofs for C13 (part 2): multiplication in Z_q[X]/(X^256+1) through the transform.
    [mul_ok]: invntt_tomont (ntt a .* ntt b) = negacyclic schoolbook product of a and b (mod Q),
    with no overflow anywhere, for all a, b with coefficients in (-Q, Q). *)
From Coq Require Import Setoid Morphisms.
From DV Require Import Base Gen MReduce MNtt MPoly PReduce PNtt.

Local Ltac Zify.zify_post_hook ::= Z.div_mod_to_equations.

(** * 1. Schoolbook polynomial arithmetic on coefficient lists (low degree first) *)
Fixpoint padd (p q : list Z) : list Z :=
  match p, q with
  | [], _ => q
  | _, [] => p
  | x :: p', y :: q' => (x + y) :: padd p' q'
  end.

Fixpoint psub (p q : list Z) : list Z :=
  match p, q with
  | [], _ => map Z.opp q
  | _, [] => p
  | x :: p', y :: q' => (x - y) :: psub p' q'
  end.

(** full product in Z[X]: (x + X a') * b = x*b + X * (a' * b) *)
Fixpoint pmul (a b : list Z) : list Z :=
  match a with
  | [] => []
  | x :: a' => padd (map (Z.mul x) b) (0 :: pmul a' b)
  end.

(** reduction modulo X^256 + 1: the part of degree >= 256 is folded back with a minus sign *)
Definition negacyclic_mul (a b : list Z) : list Z :=
  let p := pmul a b in psub (firstn 256 p) (skipn 256 p).

(** * 2. Evaluation is a ring homomorphism (exact, over Z) *)
Lemma eval_cons c a w : eval (c :: a) w = c + w * eval a w.
Proof. reflexivity. Qed.
Lemma eval_nil w : eval [] w = 0.
Proof. reflexivity. Qed.

Lemma eval_padd w : forall p q, eval (padd p q) w = eval p w + eval q w.
Proof.
  induction p as [|x p IH]; intros [|y q]; cbn [padd]; rewrite ?eval_cons, ?eval_nil, ?IH; ring.
Qed.
Lemma eval_opp w : forall q, eval (map Z.opp q) w = - eval q w.
Proof. induction q as [|y q IH]; cbn [map]; rewrite ?eval_cons, ?eval_nil, ?IH; ring. Qed.
Lemma eval_psub w : forall p q, eval (psub p q) w = eval p w - eval q w.
Proof.
  induction p as [|x p IH]; intros [|y q]; cbn [psub]; rewrite ?eval_opp, ?eval_cons, ?eval_nil, ?IH; ring.
Qed.
Lemma eval_smul w x : forall b, eval (map (Z.mul x) b) w = x * eval b w.
Proof. induction b as [|y b IH]; cbn [map]; rewrite ?eval_cons, ?eval_nil, ?IH; ring. Qed.
Lemma eval_pmul w : forall a b, eval (pmul a b) w = eval a w * eval b w.
Proof.
  induction a as [|x a IH]; intros b; cbn [pmul]; rewrite ?eval_nil; [ring|].
  rewrite eval_padd, eval_smul, !eval_cons, IH. ring.
Qed.
Lemma eval_app w : forall l1 l2, eval (l1 ++ l2) w = eval l1 w + w ^ Z.of_nat (length l1) * eval l2 w.
Proof.
  induction l1 as [|x l1 IH]; intros l2; cbn [app length].
  - rewrite eval_nil. change (Z.of_nat 0) with 0. rewrite Z.pow_0_r. ring.
  - rewrite !eval_cons, IH, Nat2Z.inj_succ, Z.pow_succ_r by lia. ring.
Qed.

Lemma eval_negacyclic a b w : eqm (w ^ 256) (-1) ->
  eqm (eval (negacyclic_mul a b) w) (eval a w * eval b w).
Proof.
  intros Hw. unfold negacyclic_mul. cbv zeta. rewrite eval_psub, <- eval_pmul.
  set (p := pmul a b).
  rewrite <- (firstn_skipn 256 p) at 3. rewrite eval_app.
  destruct (Nat.le_gt_cases (length p) 256) as [Hle|Hgt].
  - rewrite (skipn_all2 p) by exact Hle. rewrite eval_nil. apply eqm_eq; ring.
  - rewrite firstn_length_le by lia. change (Z.of_nat 256) with 256. rewrite Hw. apply eqm_eq; ring.
Qed.

Lemma eval_scale s w : forall l, eqm (eval (scale s l) w) (s * eval l w).
Proof.
  unfold scale. induction l as [|c l IH]; cbn [map]; rewrite ?eval_cons, ?eval_nil.
  - apply eqm_eq; ring.
  - rewrite IH, eqm_mod. apply eqm_eq; ring.
Qed.

Lemma nth_scale s : forall l j, nth j (scale s l) 0 = (s * nth j l 0) mod Q.
Proof.
  unfold scale. induction l as [|c l IH]; intros [|j]; cbn [map nth]; auto;
    rewrite Z.mul_0_r; reflexivity.
Qed.

(** * 3. Lengths *)
Lemma padd_length : forall p q, length (padd p q) = Nat.max (length p) (length q).
Proof. induction p as [|x p IH]; intros [|y q]; cbn [padd length]; try lia. rewrite IH. lia. Qed.
Lemma psub_length : forall p q, length (psub p q) = Nat.max (length p) (length q).
Proof.
  induction p as [|x p IH]; intros [|y q]; cbn [psub]; rewrite ?map_length; cbn [length]; rewrite ?IH; lia.
Qed.
Lemma pmul_length : forall a b, a <> [] -> b <> [] -> length (pmul a b) = (length a + length b - 1)%nat.
Proof.
  induction a as [|x a IH]; intros b Ha Hb; [congruence|].
  cbn [pmul]. rewrite padd_length, map_length. cbn [length].
  assert (Lb : (1 <= length b)%nat) by (destruct b; [congruence | cbn [length]; lia]).
  destruct a as [|x' a'].
  - cbn [pmul length]. lia.
  - rewrite IH by (auto; discriminate). cbn [length]. lia.
Qed.
Lemma negacyclic_mul_length a b : length a = 256%nat -> length b = 256%nat ->
  length (negacyclic_mul a b) = 256%nat.
Proof.
  intros La Lb. unfold negacyclic_mul. cbv zeta.
  assert (L : length (pmul a b) = 511%nat).
  { rewrite pmul_length; [rewrite La, Lb; reflexivity | |]; intros ->; discriminate. }
  rewrite psub_length, firstn_length, skipn_length, L. reflexivity.
Qed.

(** * 4. Pointwise Montgomery product of two transformed polynomials *)
Lemma pointwise_ok : forall ah bh, length ah = length bh ->
  Forall (fun x => - 9 * Q < x < 9 * Q) ah -> Forall (fun x => - 9 * Q < x < 9 * Q) bh ->
  exists p, poly_pointwise_montgomery ah bh = Ok p /\ length p = length ah /\
    Forall (fun x => - Q < x < Q) p /\
    forall i, (i < length ah)%nat -> eqm (nth i p 0) (nth i ah 0 * nth i bh 0 * WINV).
Proof.
  unfold poly_pointwise_montgomery.
  induction ah as [|x ah IH]; intros [|y bh] L Ha Hb; cbn [length] in L; try lia.
  - exists []. cbn [map2M length]. repeat split; auto. intros i Hi. lia.
  - inversion Ha as [|? ? Hx Ha']; inversion Hb as [|? ? Hy Hb']; subst.
    destruct (IH bh ltac:(lia) Ha' Hb') as (p & E & Lp & Bp & Cp).
    cbn [map2M]. rewrite E. unfold i64_mul.
    assert (Hxy : - (75423752 * 75423752) <= x * y <= 75423752 * 75423752)
      by (apply mul_bound; unfold Q in *; lia).
    rewrite chk_s_ok by (rewrite two63; lia). cbn [bind].
    destruct (mont_ok (x * y)) as (r & Er & Cr & Br).
    { change (2 ^ 31) with 2147483648. unfold Q. lia. }
    rewrite Er. cbn [bind]. exists (r :: p). split; [reflexivity|].
    split; [cbn [length]; lia|]. split; [constructor; auto|].
    intros [|i] Hi; cbn [nth].
    + apply mont_eqm. exact Cr.
    + apply Cp. cbn [length] in Hi. lia.
Qed.

(** * 5. C13 (3): multiplication *)
Theorem mul_ok a b :
  length a = 256%nat -> length b = 256%nat ->
  Forall (fun x => - Q < x < Q) a -> Forall (fun x => - Q < x < Q) b ->
  exists ah bh p r,
    ntt a = Ok ah /\ ntt b = Ok bh /\ poly_pointwise_montgomery ah bh = Ok p /\
    invntt_tomont p = Ok r /\ length r = 256%nat /\
    Forall (fun x => - Q < x < Q) r /\
    forall j, (j < 256)%nat -> (nth j r 0 - nth j (negacyclic_mul a b) 0) mod Q = 0.
Proof.
  intros La Lb Ha Hb.
  destruct (ntt_ok a La Ha) as (ah & Ea & Lah & Bah & Cah).
  destruct (ntt_ok b Lb Hb) as (bh & Eb & Lbh & Bbh & Cbh).
  destruct (pointwise_ok ah bh ltac:(congruence) Bah Bbh) as (p & Ep & Lp & Bp & Cp).
  destruct (invntt_ok p ltac:(congruence) Bp) as (r & Er & Lr & Br & Cr).
  exists ah, bh, p, r. repeat split; auto.
  intros j Hj.
  assert (E1 : eqm (WINV * 2 ^ 32) 1) by reflexivity.
  pose (c := scale WINV (negacyclic_mul a b)).
  assert (Lc : length c = 256%nat) by (unfold c; rewrite scale_length; apply negacyclic_mul_length; auto).
  specialize (Cr c Lc).
  assert (Hc : forall i, (i < 256)%nat -> (nth i p 0 - eval c (root i)) mod Q = 0).
  { intros i Hi. apply eqm_sub0. rewrite Cp by lia.
    pose proof (proj2 (eqm_sub0 _ _) (Cah i Hi)) as Ca'. pose proof (proj2 (eqm_sub0 _ _) (Cbh i Hi)) as Cb'.
    rewrite Ca', Cb'.
    unfold c. rewrite eval_scale, eval_negacyclic.
    - apply eqm_eq; ring.
    - unfold eqm. rewrite (root_pow256 i Hi). reflexivity. }
  specialize (Cr Hc j Hj). apply eqm_sub0 in Cr. apply eqm_sub0.
  rewrite Cr. unfold c. rewrite nth_scale, eqm_mod.
  rewrite Z.mul_assoc, (Z.mul_comm (2 ^ 32)), E1. apply eqm_eq; ring.
Qed.

Print Assumptions mul_ok.

(** * 6. [negacyclic_mul] is the textbook formula
      c_k = sum_{i+j=k} a_i b_j - sum_{i+j=k+256} a_i b_j   (coefficients outside 0..255 are 0) *)
Definition conv (a b : list Z) (k : nat) : Z :=
  fold_right Z.add 0 (map (fun i => nth i a 0 * nth (k - i) b 0) (seq 0 (S k))).

Lemma nth_nil k : nth k (@nil Z) 0 = 0.
Proof. destruct k; reflexivity. Qed.
Lemma nth_padd : forall p q k, nth k (padd p q) 0 = nth k p 0 + nth k q 0.
Proof.
  induction p as [|x p IH]; intros [|y q] [|k]; cbn [padd nth]; rewrite ?nth_nil, ?IH; ring.
Qed.
Lemma nth_opp : forall q k, nth k (map Z.opp q) 0 = - nth k q 0.
Proof. induction q as [|y q IH]; intros [|k]; cbn [map nth]; rewrite ?IH; ring. Qed.
Lemma nth_psub : forall p q k, nth k (psub p q) 0 = nth k p 0 - nth k q 0.
Proof.
  induction p as [|x p IH]; intros [|y q] [|k]; cbn [psub]; rewrite ?nth_opp; cbn [nth]; rewrite ?nth_nil, ?IH; ring.
Qed.
Lemma nth_smul x : forall b k, nth k (map (Z.mul x) b) 0 = x * nth k b 0.
Proof. induction b as [|y b IH]; intros [|k]; cbn [map nth]; rewrite ?IH; ring. Qed.
Lemma sum_zero {A} (f : A -> Z) l : (forall i, f i = 0) -> fold_right Z.add 0 (map f l) = 0.
Proof. intros H. induction l as [|i l IH]; cbn [map fold_right]; rewrite ?H, ?IH; reflexivity. Qed.

Lemma nth_pmul : forall a b k, nth k (pmul a b) 0 = conv a b k.
Proof.
  induction a as [|x a IH]; intros b k; cbn [pmul].
  - rewrite nth_nil. unfold conv. symmetry. apply sum_zero. intros i. rewrite nth_nil. ring.
  - rewrite nth_padd, nth_smul. unfold conv. cbn [seq map fold_right nth].
    rewrite Nat.sub_0_r. f_equal.
    rewrite <- seq_shift, map_map.
    destruct k as [|k]; [reflexivity|]. cbn [nth]. rewrite IH. unfold conv. reflexivity.
Qed.

Lemma nth_firstn_lt {A} (d : A) : forall n k l, (k < n)%nat -> nth k (firstn n l) d = nth k l d.
Proof.
  induction n as [|n IH]; intros k l Hk; [lia|].
  destruct l as [|x l]; [reflexivity|]. destruct k as [|k]; cbn [firstn nth]; [reflexivity|]. apply IH. lia.
Qed.
Lemma nth_skipn_add {A} (d : A) : forall n k l, nth k (skipn n l) d = nth (n + k) l d.
Proof.
  induction n as [|n IH]; intros k l; [reflexivity|].
  destruct l as [|x l]; cbn [skipn Nat.add nth]; [destruct k; reflexivity|]. apply IH.
Qed.

Theorem negacyclic_mul_coeff a b k : (k < 256)%nat ->
  nth k (negacyclic_mul a b) 0 = conv a b k - conv a b (256 + k).
Proof.
  intros Hk. unfold negacyclic_mul. cbv zeta.
  rewrite nth_psub, nth_firstn_lt by exact Hk. rewrite nth_skipn_add, !nth_pmul. reflexivity.
Qed.

(** * 7. Non-vacuity: concrete products through the model *)
(** X^255 * X = X^256 = -1 in the ring (specification side) *)
Example negacyclic_example :
  negacyclic_mul (repeat 0 255 ++ [1]) (0 :: 1 :: repeat 0 254) = -1 :: repeat 0 255.
Proof. vm_compute. reflexivity. Qed.

Example mul_example :
  let a := map Z.of_nat (seq 0 256) in let b := map (fun i => Z.of_nat i * 3 - 100) (seq 0 256) in
  exists ah bh p r, ntt a = Ok ah /\ ntt b = Ok bh /\ poly_pointwise_montgomery ah bh = Ok p /\
    invntt_tomont p = Ok r /\
    firstn 3 (map (fun x => x mod Q) r) = firstn 3 (map (fun x => x mod Q) (negacyclic_mul a b)).
Proof.
  cbv zeta. eexists. eexists. eexists. eexists.
  split; [vm_compute; reflexivity|]. split; [vm_compute; reflexivity|].
  split; [vm_compute; reflexivity|]. split; [vm_compute; reflexivity|]. vm_compute. reflexivity.
Qed.

Print Assumptions negacyclic_mul_coeff.
