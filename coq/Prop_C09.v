(** C09 — Randomness discipline: right amount, only where specified, used only as the specification's input.
    Only property theorems here, closed by [exact] of lemmas proved in PTape.v. Randomness is the model's explicit
    tape; [draw tape n] takes n bytes. PROVED: which operations draw, exactly how many bytes, in what order, and that
    the drawn bytes enter only as the seed (key generation), rnd (hedged ML-DSA) or rho' (randomized Dilithium).
    NOT provable in any model: that the real bytes are fresh output of an OS-seeded CSPRNG (rand 0.7.3 / OS) and the
    consequent pairwise distinctness; the check records the requests through the RNG tap and reports statistics. *)
From DV Require Import Base MParams MSign MApi PTape.

Theorem C09_seeded_keygen_draws_nothing : forall (P : params) (pk sk xi tape pk' sk' tape' : list Z),
  keypair P pk sk (Some xi) tape = Ok (pk', sk', tape') -> tape' = tape.
Proof. exact keypair_seeded_no_draw. Qed.
Print Assumptions C09_seeded_keygen_draws_nothing.

Theorem C09_unseeded_keygen_draws_32 : forall (P : params) (pk sk tape : list Z),
  keypair P pk sk None tape =
  (if zlen tape <? 32 then Panic else keypair P pk sk (Some (firstn 32 tape)) (skipn 32 tape)).
Proof. exact keypair_unseeded_eq. Qed.
Print Assumptions C09_unseeded_keygen_draws_32.

Theorem C09_deterministic_signing_draws_nothing : forall (P : params) (sig msg sk tape s tape' : list Z),
  signature P sig msg sk false tape = Ok (s, tape') -> tape' = tape.
Proof. exact signature_deterministic_no_draw. Qed.
Print Assumptions C09_deterministic_signing_draws_nothing.

(** randomized signing draws exactly rand_bytes P = 32 (ML-DSA: rnd) or 64 (Dilithium: rho' itself) and is a
    function of those bytes only *)
Theorem C09_randomized_signing_draws_exactly : forall (P : params) (sig msg sk tape : list Z),
  signature P sig msg sk true tape =
  (do '(r, tape') <- draw tape (rand_bytes P); do s <- signature_with P sig msg sk (Some r); Ok (s, tape')).
Proof. exact signature_random_draw. Qed.
Print Assumptions C09_randomized_signing_draws_exactly.

Theorem C09_api_hedged_draws_32 : forall (P : params) (sk msg : list Z) (ctx : option (list Z)) (tape : list Z),
  pMLDSA P = true -> ctx_too_long ctx = false ->
  ml_sign P sk msg ctx true tape =
  (if zlen tape <? 32 then Panic
   else do s <- signature_with P (repeatZ 0 (pSIG P)) (frame_pure ctx msg) sk (Some (firstn 32 tape));
        Ok (Some s, skipn 32 tape)).
Proof. exact ml_sign_hedged_draws_32. Qed.
Print Assumptions C09_api_hedged_draws_32.

Theorem C09_refused_context_draws_nothing : forall (P : params) (sk msg : list Z) (ctx : option (list Z)) (hedged : bool) (tape : list Z),
  ctx_too_long ctx = true -> ml_sign P sk msg ctx hedged tape = Ok (None, tape).
Proof. exact ml_sign_ctx_too_long. Qed.
Print Assumptions C09_refused_context_draws_nothing.

(** any call sequence: consumption is the sum of the per-operation amounts (0 / 32 / 64), in call order *)
Theorem C09_history_consumption : forall (ops : list op) (tape : list Z) (outs : list output) (tape' : list Z),
  run tape ops = Ok (outs, tape') ->
  total_draws ops <= zlen tape /\ tape' = skipn (Z.to_nat (total_draws ops)) tape /\ length outs = length ops.
Proof. exact run_tape. Qed.
Print Assumptions C09_history_consumption.

(** the outputs of a history are a function of the bytes drawn (replaying the recorded bytes reproduces them) *)
Theorem C09_replay : forall (ops : list op) (t1 t2 : list Z),
  total_draws ops <= zlen t1 -> total_draws ops <= zlen t2 ->
  firstn (Z.to_nat (total_draws ops)) t1 = firstn (Z.to_nat (total_draws ops)) t2 ->
  forget_tape (run t1 ops) = forget_tape (run t2 ops).
Proof. exact run_replay. Qed.
Print Assumptions C09_replay.
