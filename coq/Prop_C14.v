(** C14 — Modular reduction kernels are correct on their whole documented domain.
    This file holds only the property theorems, each closed by [exact] of a lemma proved in PReduce.v. *)
From DV Require Import Base MReduce GenK PReduce PSrcReduce.

Theorem C14_montgomery_reduce : forall a : Z,
  - 2 ^ 31 * Q <= a < 2 ^ 31 * Q ->
  exists r, montgomery_reduce a = Ok r /\ (r * 2 ^ 32) mod Q = a mod Q /\ - Q < r < Q.
Proof. exact mont_ok. Qed.
Print Assumptions C14_montgomery_reduce.

Theorem C14_reduce32 : forall a : Z,
  - 2 ^ 31 <= a <= 2 ^ 31 - 2 ^ 22 - 1 ->
  exists r, reduce32 a = Ok r /\ r mod Q = a mod Q /\ -6283009 <= r <= 6283008.
Proof. exact reduce32_ok. Qed.
Print Assumptions C14_reduce32.

Theorem C14_reduce32_domain_edge : forall a : Z,
  2 ^ 31 - 2 ^ 22 <= a < 2 ^ 31 -> reduce32 a = Panic.
Proof. exact reduce32_panics. Qed.
Print Assumptions C14_reduce32_domain_edge.

Theorem C14_caddq : forall a : Z, - Q < a < Q -> caddq a = Ok (a mod Q).
Proof. exact caddq_ok. Qed.
Print Assumptions C14_caddq.

Theorem C14_qinv : (Q * QINV) mod 2 ^ 32 = 1.
Proof. exact qinv_ok. Qed.
Print Assumptions C14_qinv.

(** The same, stated about the text of /repo/src/reduce.rs as the translator reads it on this run (GenK.v). *)
Theorem C14_source_montgomery_reduce : forall a : Z, - 2 ^ 31 * Q <= a < 2 ^ 31 * Q ->
  exists r, src_montgomery_reduce a = Ok r /\ (r * 2 ^ 32) mod Q = a mod Q /\ - Q < r < Q.
Proof. exact src_mont_ok. Qed.
Print Assumptions C14_source_montgomery_reduce.

Theorem C14_source_reduce32 : forall a : Z, - 2 ^ 31 <= a <= 2 ^ 31 - 2 ^ 22 - 1 ->
  exists r, src_reduce32 a = Ok r /\ r mod Q = a mod Q /\ -6283009 <= r <= 6283008.
Proof. exact src_reduce32_spec. Qed.
Print Assumptions C14_source_reduce32.

Theorem C14_source_caddq : forall a : Z, - Q < a < Q -> src_caddq a = Ok (a mod Q).
Proof. exact src_caddq_spec. Qed.
Print Assumptions C14_source_caddq.

(** Non-vacuity: the hypotheses are inhabited and the functions compute (repository vector a = 23,
    both domain edges). *)
Example C14_nonvacuous :
  montgomery_reduce 23 = Ok (-2635616) /\
  montgomery_reduce (- 2 ^ 31 * Q) = Ok 0 /\
  montgomery_reduce (2 ^ 31 * Q - 1) = Ok 114592 /\
  reduce32 (2 ^ 31 - 2 ^ 22 - 1) = Ok 6283008 /\ reduce32 (- 2 ^ 31) = Ok (-2096896) /\
  caddq (-1) = Ok 8380416.
Proof. vm_compute. repeat split. Qed.
