(** C11 — Key containers serialize and deserialize losslessly.
    Only property theorems here, closed by [exact] of lemmas proved in PContainer.v. A container is its byte string;
    [Panic] is the refusal ([try_into().expect("")] / slice bounds) of a wrong length. *)
From DV Require Import Base MParams MSign MApi PContainer.

Theorem C11_single_keys : forall (P : params) (b r : list Z),
  (sk_from_bytes P b = Ok r <-> zlen b = pSK P /\ r = b) /\
  (pk_from_bytes P b = Ok r <-> zlen b = pPK P /\ r = b).
Proof. intros; split; [apply sk_from_bytes_ok_iff | apply pk_from_bytes_ok_iff]. Qed.
Print Assumptions C11_single_keys.

Theorem C11_wrong_length_refused : forall (P : params) (b : list Z),
  (zlen b <> pSK P -> sk_from_bytes P b = Panic) /\ (zlen b <> pPK P -> pk_from_bytes P b = Panic).
Proof. intros; split; [apply sk_from_bytes_wrong_len | apply pk_from_bytes_wrong_len]. Qed.
Print Assumptions C11_wrong_length_refused.

(** the pair is the secret key followed by the public key; any other total length is refused *)
Theorem C11_pair_layout : forall (P : params) (sk pk b : list Z),
  (zlen sk = pSK P -> zlen pk = pPK P -> kp_to_bytes P sk pk = Ok (sk ++ pk)) /\
  (0 <= pSK P -> 0 <= pPK P ->
   kp_from_bytes P b = (if zlen b =? pSK P + pPK P
                        then Ok (firstn (Z.to_nat (pSK P)) b, skipn (Z.to_nat (pSK P)) b) else Panic)).
Proof. intros; split; [apply kp_to_bytes_spec | apply kp_from_bytes_spec]. Qed.
Print Assumptions C11_pair_layout.

Theorem C11_roundtrips : forall (P : params) (sk pk b : list Z),
  (zlen sk = pSK P -> zlen pk = pPK P -> (do b <- kp_to_bytes P sk pk; kp_from_bytes P b) = Ok (sk, pk)) /\
  (0 <= pSK P -> 0 <= pPK P -> zlen b = pSK P + pPK P ->
   (do '(sk, pk) <- kp_from_bytes P b; kp_to_bytes P sk pk) = Ok b).
Proof. intros; split; [apply kp_roundtrip_from_to | apply kp_roundtrip_to_from]. Qed.
Print Assumptions C11_roundtrips.

Theorem C11_standard_sizes :
  (pSK P_lvl2, pPK P_lvl2, pSIG P_lvl2) = (2528, 1312, 2420) /\
  (pSK P_lvl3, pPK P_lvl3, pSIG P_lvl3) = (4000, 1952, 3293) /\
  (pSK P_lvl5, pPK P_lvl5, pSIG P_lvl5) = (4864, 2592, 4595) /\
  (pSK P_ml44, pPK P_ml44, pSIG P_ml44) = (2560, 1312, 2420) /\
  (pSK P_ml65, pPK P_ml65, pSIG P_ml65) = (4032, 1952, 3309) /\
  (pSK P_ml87, pPK P_ml87, pSIG P_ml87) = (4896, 2592, 4627).
Proof. exact container_sizes. Qed.
Print Assumptions C11_standard_sizes.

(** identical behaviour through a re-serialised container *)
Theorem C11_same_behaviour : forall (P : params) (sk sk' pk pk' msg sig : list Z) (ctx : option (list Z)),
  (sk_from_bytes P sk = Ok sk' -> dil_sign P sk' msg = dil_sign P sk msg) /\
  (pk_from_bytes P pk = Ok pk' -> ml_verify P pk' msg sig ctx = ml_verify P pk msg sig ctx).
Proof. intros; split; [apply dil_sign_reserialised | apply ml_verify_reserialised]. Qed.
Print Assumptions C11_same_behaviour.
