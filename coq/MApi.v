(** L0 model of the key containers and signing/verification wrappers:
    src/{dilithium2,dilithium3,dilithium5,ml_dsa_44,ml_dsa_65,ml_dsa_87}.rs. *)
From DV Require Import Base Gen MReduce MRounding MParams MKeccak MNtt MPoly MPolyvec MPacking MSign MSha2.

Section Api.
  Variable P : params.

  (** SecretKey::from_bytes / PublicKey::from_bytes: bytes.try_into().expect("") *)
  Definition sk_from_bytes (b : list Z) : res (list Z) := if zlen b =? pSK P then Ok b else Panic.
  Definition pk_from_bytes (b : list Z) : res (list Z) := if zlen b =? pPK P then Ok b else Panic.

  (** Keypair = (secret, public) *)
  Definition kp_generate (seed : option (list Z)) (tape : list Z) : res (list Z * list Z * list Z) :=
    do '(pk, sk, tape') <- keypair P (repeatZ 0 (pPK P)) (repeatZ 0 (pSK P)) seed tape;
    do s <- sk_from_bytes sk; do p <- pk_from_bytes pk;
    Ok (s, p, tape').
  Definition kp_to_bytes (sk pk : list Z) : res (list Z) :=
    do r <- splice (repeatZ 0 (pSK P + pPK P)) 0 sk;
    splice r (pSK P) pk.
  Definition kp_from_bytes (b : list Z) : res (list Z * list Z) :=
    do s <- slice_to b (pSK P); do s <- sk_from_bytes s;
    do p <- slice_from b (pSK P); do p <- pk_from_bytes p;
    Ok (s, p).

  (** Dilithium: SecretKey::sign(msg) -> Signature (deterministic); PublicKey::verify(msg, sig) *)
  Definition dil_sign (sk msg : list Z) : res (list Z) :=
    do '(s, _) <- signature P (repeatZ 0 (pSIG P)) msg sk false []; Ok s.
  Definition dil_verify (pk msg sig : list Z) : res bool :=
    if negb (zlen sig =? pSIG P) then Ok false else verify P sig msg pk.

  (** ML-DSA message framing *)
  Definition OID_SHA256 : list Z := [6; 9; 96; 134; 72; 1; 101; 3; 4; 2; 1].
  Definition OID_SHA512 : list Z := [6; 9; 96; 134; 72; 1; 101; 3; 4; 2; 3].
  Definition ctx_bytes (ctx : option (list Z)) : list Z := match ctx with Some x => x | None => [] end.
  Definition ctx_too_long (ctx : option (list Z)) : bool :=
    match ctx with Some x => 255 <? zlen x | None => false end.

  Definition frame_pure (ctx : option (list Z)) (msg : list Z) : list Z :=
    [0; u8 (zlen (ctx_bytes ctx))] ++ ctx_bytes ctx ++ msg.
  (** ph = false: SHA-256, true: SHA-512 *)
  Definition frame_hash (ph : bool) (ctx : option (list Z)) (msg : list Z) : list Z :=
    [1; u8 (zlen (ctx_bytes ctx))] ++ ctx_bytes ctx ++
    (if ph then OID_SHA512 ++ sha512 msg else OID_SHA256 ++ sha256 msg).

  (** SecretKey::sign(msg, ctx, hedged) -> Option<Signature> *)
  Definition ml_sign (sk msg : list Z) (ctx : option (list Z)) (hedged : bool) (tape : list Z)
    : res (option (list Z) * list Z) :=
    if ctx_too_long ctx then Ok (None, tape) else
    do '(s, tape') <- signature P (repeatZ 0 (pSIG P)) (frame_pure ctx msg) sk hedged tape;
    Ok (Some s, tape').
  Definition ml_prehash_sign (sk msg : list Z) (ctx : option (list Z)) (hedged ph : bool) (tape : list Z)
    : res (option (list Z) * list Z) :=
    if ctx_too_long ctx then Ok (None, tape) else
    do '(s, tape') <- signature P (repeatZ 0 (pSIG P)) (frame_hash ph ctx msg) sk hedged tape;
    Ok (Some s, tape').
  Definition ml_verify (pk msg sig : list Z) (ctx : option (list Z)) : res bool :=
    if negb (zlen sig =? pSIG P) then Ok false else
    if ctx_too_long ctx then Ok false else
    verify P sig (frame_pure ctx msg) pk.
  Definition ml_prehash_verify (pk msg sig : list Z) (ctx : option (list Z)) (ph : bool) : res bool :=
    if negb (zlen sig =? pSIG P) then Ok false else
    if ctx_too_long ctx then Ok false else
    verify P sig (frame_hash ph ctx msg) pk.
End Api.
