(** PRing: what the NTT-domain computations of the model MEAN, independently of key generation.

    The specification's NTT of a polynomial [a] (256 coefficients) is the vector of its values at the 256 roots
    [root i] = zeta^(2 brv8(i) + 1) of X^256 + 1 modulo Q  ([ntt_dom]).  This file proves

      - [ntt_inj]          : the specification's NTT is injective modulo Q;
      - [invntt_fwd]       : the model's [invntt_tomont] is a right inverse too: NTT(invntt_tomont a) = 2^32 a,
                             with the SHARP output bound |r| <= 4211177 = Q/2 + 20969 (so that adding a small
                             polynomial stays inside (-Q, Q));
      - [row_ntt_ok]       : one row  sum_j  A_rj o NTT(v_j)  (pointwise Montgomery, accumulate, reduce, inverse);
      - [matvec_ntt_ok]    : the K-row loop  w = NTT^-1(A o NTT(v)),  stated as  NTT(w_r) = sum_j A_rj o NTT(v_j);
      - [ntt_surj], [row_ring_view] : the NTT is onto, and the same result read in R_q = Z_q[X]/(X^256+1):
                             w_r = sum_j A_rj * v_j (negacyclic products) whenever row = NTT(A).

    Montgomery bookkeeping: [poly_pointwise_montgomery] yields 2^-32 * product, [invntt_tomont] multiplies by 2^32. *)
From Coq Require Import Setoid Morphisms.
From DV Require Import Base Gen MReduce MParams MNtt MPoly MPolyvec PReduce PNtt PNtt2 PLift.
Local Ltac Zify.zify_post_hook ::= Z.div_mod_to_equations.

(** * 1. The specification's NTT *)
Definition ntt_dom (a : list Z) : list Z := map (fun i => eval a (root i) mod Q) (seq 0 256).

Lemma nth_map_seq (f : nat -> Z) n i : (i < n)%nat -> nth i (map f (seq 0 n)) 0 = f i.
Proof.
  intros Hi. rewrite (nth_indep _ 0 (f 0%nat)) by (rewrite map_length, seq_length; exact Hi).
  rewrite (map_nth f). rewrite seq_nth by exact Hi. reflexivity.
Qed.

Lemma ntt_dom_length a : length (ntt_dom a) = 256%nat.
Proof. unfold ntt_dom. rewrite map_length, seq_length. reflexivity. Qed.

Lemma ntt_dom_nth a i : (i < 256)%nat -> nth i (ntt_dom a) 0 = eval a (root i) mod Q.
Proof. intros Hi. unfold ntt_dom. apply (nth_map_seq (fun i => eval a (root i) mod Q)). exact Hi. Qed.

Lemma ntt_dom_range a : Forall (fun x => 0 <= x < Q) (ntt_dom a).
Proof.
  unfold ntt_dom. apply Forall_forall. intros x Hx. apply in_map_iff in Hx as (i & <- & _).
  apply Z.mod_pos_bound. unfold Q. lia.
Qed.

Lemma eqm_cancel32 x y : eqm (2 ^ 32 * x) (2 ^ 32 * y) -> eqm x y.
Proof.
  intros H. assert (E : eqm (WINV * 2 ^ 32) 1) by reflexivity.
  assert (E1 : eqm x (WINV * (2 ^ 32 * x))).
  { replace (WINV * (2 ^ 32 * x)) with ((WINV * 2 ^ 32) * x) by ring. rewrite E. apply eqm_eq; ring. }
  assert (E2 : eqm y (WINV * (2 ^ 32 * y))).
  { replace (WINV * (2 ^ 32 * y)) with ((WINV * 2 ^ 32) * y) by ring. rewrite E. apply eqm_eq; ring. }
  rewrite E1, E2, H. reflexivity.
Qed.

(** Injectivity of the specification's NTT modulo Q: run the (proved) inverse transform on the canonical
    representative of the common image; it returns 2^32 a_j and 2^32 b_j at once. *)
Theorem ntt_inj a b :
  length a = 256%nat -> length b = 256%nat ->
  (forall i, (i < 256)%nat -> eqm (eval a (root i)) (eval b (root i))) ->
  forall j, (j < 256)%nat -> eqm (nth j a 0) (nth j b 0).
Proof.
  intros La Lb H j Hj.
  destruct (invntt_ok (ntt_dom a) (ntt_dom_length a)) as (r & _ & _ & _ & C).
  { eapply Forall_impl; [|apply ntt_dom_range]. cbn beta. unfold Q. intros x Hx. lia. }
  pose proof (C a La) as Ca. pose proof (C b Lb) as Cb.
  assert (Ha : (nth j r 0 - 2 ^ 32 * nth j a 0) mod Q = 0).
  { apply Ca; [|exact Hj]. intros i Hi. rewrite ntt_dom_nth by exact Hi. apply eqm_sub0. apply eqm_mod. }
  assert (Hb : (nth j r 0 - 2 ^ 32 * nth j b 0) mod Q = 0).
  { apply Cb; [|exact Hj]. intros i Hi. rewrite ntt_dom_nth by exact Hi. apply eqm_sub0.
    rewrite eqm_mod. apply H. exact Hi. }
  apply eqm_sub0 in Ha, Hb. apply eqm_cancel32. rewrite <- Ha, <- Hb. reflexivity.
Qed.

Corollary ntt_dom_inj a b :
  length a = 256%nat -> length b = 256%nat -> ntt_dom a = ntt_dom b ->
  forall j, (j < 256)%nat -> eqm (nth j a 0) (nth j b 0).
Proof.
  intros La Lb H. apply ntt_inj; auto. intros i Hi.
  pose proof (ntt_dom_nth a i Hi) as Ea. pose proof (ntt_dom_nth b i Hi) as Eb.
  rewrite H in Ea. unfold eqm. congruence.
Qed.

(** two lists of 256 canonical representatives that agree modulo Q are equal *)
Lemma canon_eq a b :
  length a = 256%nat -> length b = 256%nat ->
  Forall (fun x => 0 <= x < Q) a -> Forall (fun x => 0 <= x < Q) b ->
  (forall j, (j < 256)%nat -> eqm (nth j a 0) (nth j b 0)) -> a = b.
Proof.
  intros La Lb Ha Hb H. apply (nth_ext _ _ 0 0); [congruence|].
  intros j Hj. rewrite La in Hj. specialize (H j Hj). unfold eqm in H.
  rewrite Forall_forall in Ha, Hb.
  assert (Ra : 0 <= nth j a 0 < Q) by (apply Ha, nth_In; lia).
  assert (Rb : 0 <= nth j b 0 < Q) by (apply Hb, nth_In; lia).
  rewrite !Z.mod_small in H by assumption. exact H.
Qed.

(** * 2. The inverse transform is also a right inverse (closed computation on the two linear networks) *)
Lemma fwd_inv_matrix :
  ntt_net addL subL mulL_fwd (map (scale FS) (invntt_net addL subL mulL_inv (units 256)))
  = map (scale R32) (units 256).
Proof. vm_cast_no_check (eq_refl (map (scale R32) (units 256))). Time Qed.
(** * 3. invntt_tomont: right inverse and sharp bound *)
Lemma F2_Forall_r {A B} (R : A -> B -> Prop) (Pa : A -> Prop) (Pb : B -> Prop) l1 l2 :
  (forall x y, Pa x -> R x y -> Pb y) -> Forall Pa l1 -> Forall2 R l1 l2 -> Forall Pb l2.
Proof.
  intros H Hl HR. induction HR as [|x y l1 l2 Hxy _ IH]; [constructor|].
  inversion Hl; subst. constructor; eauto.
Qed.

Lemma Ok_inj {A} (x y : A) : Ok x = Ok y -> x = y.
Proof. intros H. injection H. auto. Qed.

Definition SHARP : Z := 4211177.     (* Q/2 + (F * 256 * Q) / 2^32 + 1 *)

Lemma final_scale_sharp x : - (256 * Q) < x < 256 * Q ->
  forall y, montgomery_reduce (i64_wrapping_mul FF x) = Ok y -> Z.abs y <= SHARP.
Proof.
  intros Hx y E. unfold i64_wrapping_mul in E. unfold FF, Q in *.
  rewrite wrap_id in E by (try rewrite two63; lia).
  destruct (mont_half_bound (41978 * x)) as (r & Er & Br).
  { change (2 ^ 31) with 2147483648. unfold Q. lia. }
  rewrite Er in E. apply Ok_inj in E. subst y. unfold SHARP.
  assert (Ha : Z.abs (41978 * x) / 2 ^ 32 < 20969).
  { change (2 ^ 32) with 4294967296. apply Z.div_lt_upper_bound; lia. }
  change (Q / 2) with 4190208 in Br. lia.
Qed.

Theorem invntt_sharp a r :
  length a = 256%nat -> Forall (fun x => - Q < x < Q) a ->
  invntt_tomont a = Ok r -> Forall (fun x => Z.abs x <= SHARP) r.
Proof.
  intros La Ha E. rewrite invntt_unfold in E by exact La.
  assert (H0 : Forall2 (Rel a Q) (map Ok a) (units (length a))).
  { apply Rel_init; [exact Ha|]. eapply F2_impl; [|apply units_spec].
    cbn beta. intros z t [L Ez]. split; [exact L | apply eqm_eq; auto]. }
  apply (invntt_net_rel a Q) in H0; [| lia | unfold Q; change (2 ^ 31) with 2147483648; lia].
  apply sequence_rel in H0 as (r0 & E0 & H).
  rewrite E0 in E. cbn [bind] in E. apply mapM_Forall2 in E.
  eapply (F2_Forall_r _ (fun x => - (256 * Q) < x < 256 * Q)); [| |exact E].
  - cbn beta. intros x y Hx Hy. exact (final_scale_sharp x Hx y Hy).
  - eapply F2_Forall_l; [|exact H]. cbn beta. intros x t (Bx & _). exact Bx.
Qed.

(** NTT(invntt_tomont a) = 2^32 a, and the output is sharply bounded *)
Theorem invntt_fwd a :
  length a = 256%nat -> Forall (fun x => - Q < x < Q) a ->
  exists r, invntt_tomont a = Ok r /\ length r = 256%nat /\
    Forall (fun x => Z.abs x <= SHARP) r /\
    forall i, (i < 256)%nat -> eqm (eval r (root i)) (2 ^ 32 * nth i a 0).
Proof.
  intros La Ha.
  assert (H0 : Forall2 (fun z t => length t = length a /\ eqm z (dot t a)) a (units (length a))).
  { eapply F2_impl; [|apply units_spec]. cbn beta. intros z t [L E]. split; [exact L | apply eqm_eq; auto]. }
  destruct (invntt_rel a Q a _ La ltac:(lia) ltac:(unfold Q; change (2 ^ 31) with 2147483648; lia) Ha H0)
    as (r & E & H).
  rewrite La in H.
  exists r. split; [exact E|].
  assert (Lr : length r = 256%nat).
  { rewrite (F2_length _ _ _ H). rewrite map_length. apply invntt_net_length.
    apply units_length. }
  split; [exact Lr|]. split; [exact (invntt_sharp a r La Ha E)|].
  assert (Br : Forall (fun x => - Q < x < Q) r).
  { eapply F2_Forall_l; [|exact H]. cbn beta. intros x t (Bx & _). exact Bx. }
  assert (H1 : Forall2 (Rel a Q) (map Ok r) (map (scale FS) (invntt_net addL subL mulL_inv (units 256)))).
  { apply Rel_init; [exact Br|]. eapply F2_impl; [|exact H]. cbn beta. intros z t (_ & L & C). split; assumption. }
  pose proof (ntt_net_rel a Q _ _ _ ltac:(unfold Q; change (2 ^ 31) with 2147483648; lia) H1 fwd_inv_matrix) as H2.
  apply sequence_rel in H2 as (y & Ey & Hy).
  destruct (ntt_ok r Lr Br) as (y' & Ey' & _ & _ & Cy).
  rewrite ntt_unfold in Ey' by exact Lr. rewrite Ey in Ey'. apply Ok_inj in Ey'. subst y'.
  intros i Hi. specialize (Cy i Hi). apply eqm_sub0 in Cy. rewrite <- Cy.
  assert (Ly : length y = 256%nat).
  { rewrite (F2_length _ _ _ Hy). rewrite map_length. apply units_length. }
  pose proof (F2_nth _ 0 [] _ _ Hy i ltac:(lia)) as (_ & _ & C). rewrite C.
  assert (HU : Forall2 (fun z t => eqm (dot t a) (R32 * z)) a (map (scale R32) (units (length a)))).
  { apply F2_map_r. eapply F2_impl; [|apply units_spec]. cbn beta. intros z t [L Ez].
    rewrite dot_scale, Ez. reflexivity. }
  rewrite La in HU.
  pose proof (F2_nth _ 0 [] _ _ HU i ltac:(lia)) as C2. rewrite C2.
  assert (E32 : eqm R32 (2 ^ 32)) by reflexivity. rewrite E32. reflexivity.
Qed.
(** * 4. One row of the matrix-vector product in the NTT domain *)
Definition sumZ (l : list Z) : Z := fold_right Z.add 0 l.

(** coefficient [i] of  sum_j  row_j o NTT(v_j)  (the specification's value, an integer; read modulo Q) *)
Definition matrow_ntt (row v : list (list Z)) (i : nat) : Z :=
  sumZ (map (fun p => nth i (fst p) 0 * eval (snd p) (root i)) (combine row v)).

(** the same sum over already-transformed operands *)
Definition pwsum (uv : list (list Z * list Z)) (i : nat) : Z :=
  sumZ (map (fun p => nth i (fst p) 0 * nth i (snd p) 0) uv).

Lemma pwsum_nil i : pwsum [] i = 0.
Proof. reflexivity. Qed.
Lemma pwsum_cons a b rest i : pwsum ((a, b) :: rest) i = nth i a 0 * nth i b 0 + pwsum rest i.
Proof. reflexivity. Qed.
Lemma matrow_ntt_cons a row b v i :
  matrow_ntt (a :: row) (b :: v) i = nth i a 0 * eval b (root i) + matrow_ntt row v i.
Proof. reflexivity. Qed.

Definition pbnd (B : Z) (a : list Z) : Prop := length a = 256%nat /\ Forall (fun x => - B < x < B) a.
Definition prng (lo hi : Z) (a : list Z) : Prop := length a = 256%nat /\ Forall (fun x => lo <= x < hi) a.

Lemma pbnd_weaken B B' a : B <= B' -> pbnd B a -> pbnd B' a.
Proof. intros H [L F]. split; [exact L|]. eapply Forall_impl; [|exact F]. cbn beta. intros; lia. Qed.

Lemma prng_pbnd lo hi B a : - B < lo -> hi <= B -> prng lo hi a -> pbnd B a.
Proof. intros H1 H2 [L F]. split; [exact L|]. eapply Forall_impl; [|exact F]. cbn beta. intros; lia. Qed.

Lemma poly_add_nth A B : A + B <= 2 ^ 31 -> forall a b, length a = length b ->
  Forall (fun x => - A < x < A) a -> Forall (fun x => - B < x < B) b ->
  exists r, poly_add a b = Ok r /\ length r = length a /\
    Forall (fun x => - (A + B) < x < A + B) r /\
    forall i, nth i r 0 = nth i a 0 + nth i b 0.
Proof.
  intros HAB. change (2 ^ 31) with 2147483648 in HAB. unfold poly_add.
  induction a as [|x a IH]; intros [|y b] L Ha Hb; cbn [length] in L; try lia.
  - exists []. cbn [map2M]. repeat split; auto. intros [|i]; reflexivity.
  - inversion Ha as [|? ? Hx Ha']; inversion Hb as [|? ? Hy Hb']; subst.
    destruct (IH b ltac:(lia) Ha' Hb') as (r & E & Lr & Br & Cr).
    cbn [map2M]. unfold i32_add at 1. rewrite chk_s_ok by (rewrite two31; lia). cbn [bind].
    rewrite E. cbn [bind]. exists ((x + y) :: r). split; [reflexivity|].
    split; [cbn [length]; lia|]. split; [constructor; [lia|exact Br]|].
    intros [|i]; cbn [nth]; [reflexivity|apply Cr].
Qed.

Definition pair9 (p : list Z * list Z) : Prop := pbnd (9 * Q) (fst p) /\ pbnd (9 * Q) (snd p).

Lemma acc_ref_sem : forall rest W w,
  pbnd W w -> W + Z.of_nat (length rest) * Q <= 2 ^ 31 -> Forall pair9 rest ->
  exists r, acc_ref w rest = Ok r /\ pbnd (W + Z.of_nat (length rest) * Q) r /\
    forall i, (i < 256)%nat -> eqm (nth i r 0) (nth i w 0 + WINV * pwsum rest i).
Proof.
  induction rest as [|[a b] rest IH]; intros W w Hw HB Hr.
  - exists w. cbn [acc_ref length]. split; [reflexivity|]. split.
    + eapply pbnd_weaken; [|exact Hw]. lia.
    + intros i _. rewrite pwsum_nil. apply eqm_eq; ring.
  - inversion Hr as [|? ? [[La Ha] [Lb Hb]] Hr']; subst. cbn [fst snd] in *.
    destruct (pointwise_ok a b ltac:(congruence) Ha Hb) as (p & Ep & Lp & Bp & Cp).
    destruct Hw as [Lw Fw].
    assert (HL : Z.of_nat (length ((a, b) :: rest)) = Z.of_nat (length rest) + 1)
      by (cbn [length]; lia).
    rewrite HL in *.
    destruct (poly_add_nth W Q ltac:(unfold Q in *; lia) w p ltac:(congruence) Fw Bp) as (w' & Ew & Lw' & Bw' & Cw').
    destruct (IH (W + Q) w' ltac:(split; [congruence|exact Bw']) ltac:(lia) Hr') as (r & Er & Br & Cr).
    exists r. cbn [acc_ref]. rewrite Ep. cbn [bind]. rewrite Ew. cbn [bind]. split; [exact Er|]. split.
    + eapply pbnd_weaken; [|exact Br]. lia.
    + intros i Hi. rewrite (Cr i Hi), Cw'. rewrite (Cp i ltac:(lia)).
      rewrite pwsum_cons. apply eqm_eq; ring.
Qed.

Lemma row_ref_sem row vh :
  length row = length vh -> (1 <= length row)%nat -> Z.of_nat (length row) * Q <= 2 ^ 31 ->
  Forall (pbnd (9 * Q)) row -> Forall (pbnd (9 * Q)) vh ->
  exists r, row_ref row vh = Ok r /\ pbnd (Z.of_nat (length row) * Q) r /\
    forall i, (i < 256)%nat -> eqm (nth i r 0) (WINV * pwsum (combine row vh) i).
Proof.
  intros L L1 HB Hrow Hvh. unfold row_ref.
  assert (Hc : Forall pair9 (combine row vh)).
  { clear L1 HB. revert vh L Hvh. induction Hrow as [|a row Ha _ IH]; intros [|b vh] L Hvh; cbn [length] in L; try lia.
    - constructor.
    - inversion Hvh; subst. cbn [combine]. constructor; [split; assumption|]. apply IH; [lia|assumption]. }
  assert (Lc : length (combine row vh) = length row) by (rewrite combine_length; lia).
  destruct (combine row vh) as [|[a b] rest] eqn:Ec; [cbn [length] in Lc; lia|].
  inversion Hc as [|? ? [[La Ha] [Lb Hb]] Hr']; subst. cbn [fst snd] in *.
  destruct (pointwise_ok a b ltac:(congruence) Ha Hb) as (p & Ep & Lp & Bp & Cp).
  cbn [length] in Lc.
  destruct (acc_ref_sem rest Q p ltac:(split; [congruence|exact Bp]) ltac:(lia) Hr') as (r & Er & Br & Cr).
  exists r. rewrite Ep. cbn [bind]. split; [exact Er|]. split.
  - eapply pbnd_weaken; [|exact Br]. lia.
  - intros i Hi. rewrite (Cr i Hi). rewrite (Cp i ltac:(lia)).
    rewrite pwsum_cons. apply eqm_eq; ring.
Qed.

(** replacing the transformed operands by the values of the originals *)
Definition is_ntt_of (vh v : list Z) : Prop :=
  pbnd (9 * Q) vh /\ forall i, (i < 256)%nat -> eqm (nth i vh 0) (eval v (root i)).

Lemma pwsum_matrow i : forall row vh v, length row = length v -> Forall2 is_ntt_of vh v ->
  (i < 256)%nat -> eqm (pwsum (combine row vh) i) (matrow_ntt row v i).
Proof.
  intros row vh v L H Hi. revert row L.
  induction H as [|xh x vh v [_ Hx] _ IH]; intros [|a row] L; cbn [length] in L; try lia;
    try reflexivity.
  cbn [combine]. rewrite pwsum_cons, matrow_ntt_cons.
  rewrite (Hx i Hi), (IH row ltac:(lia)). reflexivity.
Qed.

Lemma poly_ntt_sem v : pbnd Q v -> exists vh, poly_ntt v = Ok vh /\ is_ntt_of vh v.
Proof.
  intros [L F]. destruct (ntt_ok v L F) as (vh & E & Lh & Bh & Ch).
  exists vh. split; [exact E|]. split; [split; assumption|].
  intros i Hi. apply eqm_sub0. apply Ch. exact Hi.
Qed.

Lemma reduce32_val_0 : reduce32_val 0 = 0.
Proof. reflexivity. Qed.

(** row product, reduction, inverse transform:  NTT(w) = sum_j row_j o NTT(v_j) *)
Theorem row_ntt_ok row vh v :
  length row = length v -> (1 <= length row <= 7)%nat ->
  Forall (prng 0 Q) row -> Forall2 is_ntt_of vh v ->
  exists a1 a2 w, row_ref row vh = Ok a1 /\ poly_reduce a1 = Ok a2 /\ poly_invntt_tomont a2 = Ok w /\
    length w = 256%nat /\ Forall (fun x => Z.abs x <= SHARP) w /\
    forall i, (i < 256)%nat -> eqm (eval w (root i)) (matrow_ntt row v i).
Proof.
  intros L L7 Hrow Hv.
  assert (Lvh : length vh = length v) by exact (F2_length _ _ _ Hv).
  assert (Hvh : Forall (pbnd (9 * Q)) vh).
  { eapply F2_Forall_l; [|exact Hv]. cbn beta. intros x y [H _]. exact H. }
  assert (Hrow9 : Forall (pbnd (9 * Q)) row).
  { eapply Forall_impl; [|exact Hrow]. intros a. apply prng_pbnd; unfold Q; lia. }
  destruct (row_ref_sem row vh ltac:(congruence) ltac:(lia)
              ltac:(unfold Q; change (2 ^ 31) with 2147483648; lia) Hrow9 Hvh) as (a1 & E1 & [L1 B1] & C1).
  assert (R1 : forall c, In c a1 -> - 2 ^ 31 <= c <= 2 ^ 31 - 2 ^ 22 - 1).
  { intros c Hc. rewrite Forall_forall in B1. specialize (B1 c Hc).
    change (2 ^ 31) with 2147483648. change (2 ^ 22) with 4194304. unfold Q in B1. lia. }
  pose proof (poly_reduce_exact a1 R1) as E2.
  set (a2 := map reduce32_val a1) in *.
  assert (L2 : length a2 = 256%nat) by (unfold a2; rewrite map_length; exact L1).
  assert (B2 : Forall (fun x => - Q < x < Q) a2).
  { unfold a2. apply Forall_forall. intros x Hx. apply in_map_iff in Hx as (c & <- & Hc).
    destruct (reduce32_val_spec c (R1 c Hc)) as [_ Hr]. unfold Q. lia. }
  assert (C2 : forall i, (i < 256)%nat -> eqm (nth i a2 0) (nth i a1 0)).
  { intros i Hi. unfold a2. rewrite <- reduce32_val_0 at 1. rewrite (map_nth reduce32_val).
    assert (Hc : In (nth i a1 0) a1) by (apply nth_In; lia).
    destruct (reduce32_val_spec _ (R1 _ Hc)) as [Hcg _]. exact Hcg. }
  destruct (invntt_fwd a2 L2 B2) as (w & E3 & Lw & Bw & Cw).
  exists a1, a2, w. repeat split; auto.
  intros i Hi. rewrite (Cw i Hi), (C2 i Hi), (C1 i Hi).
  rewrite (pwsum_matrow i row vh v L Hv Hi).
  assert (E : eqm (WINV * 2 ^ 32) 1) by reflexivity.
  replace (2 ^ 32 * (WINV * matrow_ntt row v i)) with ((WINV * 2 ^ 32) * matrow_ntt row v i) by ring.
  rewrite E. apply eqm_eq; ring.
Qed.

(** * 5. The K-row loop *)
Lemma mapM3_rows {A B C D} (f1 : A -> res B) (f2 : B -> res C) (f3 : C -> res D) (R : A -> D -> Prop) l :
  (forall x, In x l -> exists b c d, f1 x = Ok b /\ f2 b = Ok c /\ f3 c = Ok d /\ R x d) ->
  exists lb lc ld, mapM f1 l = Ok lb /\ mapM f2 lb = Ok lc /\ mapM f3 lc = Ok ld /\
    length lb = length l /\ length lc = length l /\ Forall2 R l ld.
Proof.
  induction l as [|x l IH]; intros H.
  - exists [], [], []. cbn [mapM length]. repeat split; auto.
  - destruct (H x (or_introl eq_refl)) as (b & c & d & E1 & E2 & E3 & HR).
    destruct (IH (fun y Hy => H y (or_intror Hy))) as (lb & lc & ld & F1 & F2 & F3 & L1 & L2 & HF).
    exists (b :: lb), (c :: lc), (d :: ld). cbn [mapM length].
    rewrite E1, F1, E2, F2, E3, F3. cbn [bind]. repeat split; auto.
Qed.

Definition row_spec (v : list (list Z)) (row : list (list Z)) (w : list Z) : Prop :=
  length w = 256%nat /\ Forall (fun x => Z.abs x <= SHARP) w /\
  forall i, (i < 256)%nat -> eqm (eval w (root i)) (matrow_ntt row v i).

(** w = NTT^-1(mat o NTT(v)):  the three vector loops of the model succeed and NTT(w_r) = sum_j mat_rj o NTT(v_j) *)
Theorem matvec_ntt_ok P t mat v vhat :
  1 <= pL P <= 7 ->
  length t = Z.to_nat (pK P) -> length mat = Z.to_nat (pK P) ->
  (forall row, In row mat -> length row = Z.to_nat (pL P) /\ Forall (prng 0 Q) row) ->
  length v = Z.to_nat (pL P) -> Forall (pbnd Q) v ->
  l_ntt P v = Ok vhat ->
  exists t1 t2 w,
    matrix_pointwise_montgomery P t mat vhat = Ok t1 /\ k_reduce P t1 = Ok t2 /\ k_invntt_tomont P t2 = Ok w /\
    Forall2 (row_spec v) mat w.
Proof.
  intros HL Lt Lm Hm Lv Hv Ev.
  rewrite l_ntt_lift in Ev by exact Lv.
  assert (Hvh : Forall2 is_ntt_of vhat v).
  { apply mapM_Forall2 in Ev. clear Lv. induction Ev as [|x y v vhat E _ IH]; [constructor|].
    inversion Hv; subst. constructor; [|apply IH; assumption].
    destruct (poly_ntt_sem x) as (vh & E' & H'); [assumption|]. rewrite E in E'. apply Ok_inj in E'. subst. exact H'. }
  assert (Lvh : length vhat = Z.to_nat (pL P)) by (rewrite (F2_length _ _ _ Hvh); exact Lv).
  rewrite (matrix_pointwise_montgomery_lift P t mat vhat) by (try assumption; try lia; intros row Hr; apply Hm; exact Hr).
  destruct (mapM3_rows (fun row => row_ref row vhat) poly_reduce poly_invntt_tomont (row_spec v) mat)
    as (t1 & t2 & w & E1 & E2 & E3 & L1 & L2 & HF).
  { intros row Hr. destruct (Hm row Hr) as [Lr Fr].
    destruct (row_ntt_ok row vhat v ltac:(congruence) ltac:(lia) Fr Hvh) as (a1 & a2 & wr & F1 & F2 & F3 & H).
    exists a1, a2, wr. repeat split; try assumption; apply H. }
  exists t1, t2, w. rewrite E1.
  rewrite k_reduce_lift by congruence. rewrite E2.
  rewrite k_invntt_tomont_lift by congruence. rewrite E3. repeat split; auto.
Qed.

(** * 6. Ring view: the same statements in R_q = Z_q[X]/(X^256 + 1) *)

(** the specification's NTT is onto: every vector of residues is the NTT of a polynomial with coefficients in [0,Q) *)
Theorem ntt_surj ah : length ah = 256%nat ->
  exists a, prng 0 Q a /\ forall i, (i < 256)%nat -> eqm (eval a (root i)) (nth i ah 0).
Proof.
  intros L. set (c := map (fun x => x mod Q) ah).
  assert (Lc : length c = 256%nat) by (unfold c; rewrite map_length; exact L).
  assert (Bc : Forall (fun x => - Q < x < Q) c).
  { unfold c. apply Forall_forall. intros x Hx. apply in_map_iff in Hx as (y & <- & _).
    pose proof (Z.mod_pos_bound y Q ltac:(unfold Q; lia)). lia. }
  destruct (invntt_fwd c Lc Bc) as (r & _ & Lr & _ & Cr).
  exists (scale WINV r). split; [split|].
  - rewrite scale_length. exact Lr.
  - unfold scale. apply Forall_forall. intros x Hx. apply in_map_iff in Hx as (y & <- & _).
    apply Z.mod_pos_bound. unfold Q; lia.
  - intros i Hi. rewrite eval_scale, (Cr i Hi).
    assert (E : eqm (WINV * 2 ^ 32) 1) by reflexivity.
    replace (WINV * (2 ^ 32 * nth i c 0)) with ((WINV * 2 ^ 32) * nth i c 0) by ring. rewrite E.
    unfold c. change 0 with (0 mod Q) at 1. rewrite (map_nth (fun x => x mod Q)). rewrite eqm_mod.
    apply eqm_eq; ring.
Qed.

Lemma eval_zeros n w : eval (repeat 0 n) w = 0.
Proof. induction n as [|n IH]; cbn [repeat]; [apply eval_nil|]. rewrite eval_cons, IH. ring. Qed.

Lemma root_neg1 i : (i < 256)%nat -> eqm (root i ^ 256) (-1).
Proof. intros Hi. unfold eqm. rewrite (root_pow256 i Hi). reflexivity. Qed.

(** sum_j A_j * v_j in R_q (negacyclic products, coefficient-wise sums; integer coefficients, read modulo Q) *)
Definition ring_dot (Arow v : list (list Z)) : list Z :=
  fold_right padd (repeat 0 256) (map (fun p => negacyclic_mul (fst p) (snd p)) (combine Arow v)).

Lemma ring_dot_length : forall Arow v,
  Forall (fun a => length a = 256%nat) Arow -> Forall (fun a => length a = 256%nat) v ->
  length (ring_dot Arow v) = 256%nat.
Proof.
  unfold ring_dot. induction Arow as [|a Arow IH]; intros [|b v] HA Hv; cbn [combine map fold_right];
    try apply repeat_length.
  inversion HA; inversion Hv; subst. rewrite padd_length, negacyclic_mul_length, IH by assumption. reflexivity.
Qed.

Lemma eval_ring_dot i : (i < 256)%nat -> forall Arow v,
  eqm (eval (ring_dot Arow v) (root i))
      (sumZ (map (fun p => eval (fst p) (root i) * eval (snd p) (root i)) (combine Arow v))).
Proof.
  intros Hi. unfold ring_dot.
  induction Arow as [|a Arow IH]; intros [|b v]; cbn [combine map fold_right sumZ fst snd];
    try (rewrite eval_zeros; reflexivity).
  rewrite eval_padd. rewrite (eval_negacyclic a b _ (root_neg1 i Hi)). rewrite IH. reflexivity.
Qed.

Definition ntt_of (A ah : list Z) : Prop :=
  length A = 256%nat /\ forall i, (i < 256)%nat -> eqm (nth i ah 0) (eval A (root i)).

Lemma matrow_ring i : (i < 256)%nat -> forall Arow row v, Forall2 ntt_of Arow row ->
  eqm (matrow_ntt row v i) (eval (ring_dot Arow v) (root i)).
Proof.
  intros Hi Arow row v H. rewrite (eval_ring_dot i Hi). revert v.
  induction H as [|A ah Arow row [_ HA] _ IH]; intros [|b v]; try reflexivity.
  rewrite matrow_ntt_cons. cbn [combine map sumZ fold_right fst snd].
  rewrite (HA i Hi). rewrite (IH v). reflexivity.
Qed.

(** if the row is the NTT of a coefficient-domain row A, the model's output is A . v in R_q *)
Theorem row_ring_view Arow row v w :
  Forall2 ntt_of Arow row -> Forall (fun a => length a = 256%nat) v -> row_spec v row w ->
  forall j, (j < 256)%nat -> eqm (nth j w 0) (nth j (ring_dot Arow v) 0).
Proof.
  intros HA Hv (Lw & _ & Cw).
  apply ntt_inj; [exact Lw | |].
  - apply ring_dot_length; [|exact Hv]. eapply F2_Forall_l; [|exact HA]. cbn beta. intros A ah [L _]. exact L.
  - intros i Hi. rewrite (Cw i Hi). apply matrow_ring; assumption.
Qed.

Print Assumptions ntt_inj.
Print Assumptions invntt_fwd.
Print Assumptions invntt_sharp.
Print Assumptions row_ntt_ok.
Print Assumptions matvec_ntt_ok.
Print Assumptions ntt_surj.
Print Assumptions row_ring_view.
