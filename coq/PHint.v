(** C16 / C03 (hint part) — the hint section of a signature is the specification's HintBitPack
    (FIPS 204 Alg. 20) and decoding (Alg. 21) is strict. About [pack_sig] / [unpack_sig] of MPacking.v. *)
From DV Require Import Base Gen MReduce MRounding MParams MKeccak MNtt MPoly MPolyvec MPacking.

Local Ltac Zify.zify_post_hook ::= Z.div_mod_to_equations.

(** * Part A: generic facts about [zrange], [get], [set], lists *)

Lemma zlen_nonneg {A} (a : list A) : 0 <= zlen a.
Proof. unfold zlen. lia. Qed.
Lemma zlen_app {A} (a b : list A) : zlen (a ++ b) = zlen a + zlen b.
Proof. unfold zlen. rewrite app_length. lia. Qed.
Lemma zlen_cons {A} (x : A) l : zlen (x :: l) = 1 + zlen l.
Proof. unfold zlen. cbn [length]. lia. Qed.
Lemma zlen_nil {A} : zlen (@nil A) = 0.
Proof. reflexivity. Qed.
Lemma to_nat_zlen {A} (a : list A) : Z.to_nat (zlen a) = length a.
Proof. unfold zlen. lia. Qed.
Lemma zlen_repeatZ {A} (x : A) n : 0 <= n -> zlen (repeatZ x n) = n.
Proof. intros H. unfold zlen, repeatZ. rewrite repeat_length. lia. Qed.

Lemma zrange_nil a b : b <= a -> zrange a b = [].
Proof. intros H. unfold zrange. replace (Z.to_nat (b - a)) with 0%nat by lia. reflexivity. Qed.

Lemma zrange_cons a b : a < b -> zrange a b = a :: zrange (a + 1) b.
Proof.
  intros H. unfold zrange.
  replace (Z.to_nat (b - a)) with (S (Z.to_nat (b - (a + 1)))) by lia.
  cbn [seq map]. f_equal; [lia|].
  rewrite <- seq_shift, map_map. apply map_ext. intros i. lia.
Qed.

Lemma In_zrange a b x : In x (zrange a b) <-> a <= x < b.
Proof.
  unfold zrange. rewrite in_map_iff. split.
  - intros (i & <- & Hi). apply in_seq in Hi. lia.
  - intros H. exists (Z.to_nat (x - a)). split; [lia|]. apply in_seq. lia.
Qed.

Lemma zrange_length a b : length (zrange a b) = Z.to_nat (b - a).
Proof. unfold zrange. rewrite map_length, seq_length. reflexivity. Qed.

Lemma skipn_succ {A} n (l : list A) x t : skipn n l = x :: t -> skipn (S n) l = t.
Proof.
  revert l; induction n as [|n IH]; intros l H.
  - simpl in H. subst l. reflexivity.
  - destruct l as [|y l]; [discriminate|]. simpl in H. apply IH in H. exact H.
Qed.

Lemma skipn_add {A} n m (l : list A) : skipn (n + m) l = skipn m (skipn n l).
Proof.
  revert l; induction n as [|n IH]; intros l; [reflexivity|].
  destruct l as [|y l]; simpl; [destruct m; reflexivity | apply IH].
Qed.

Lemma firstn_add {A} n m (l : list A) : firstn (n + m) l = firstn n l ++ firstn m (skipn n l).
Proof.
  revert l; induction n as [|n IH]; intros l; [reflexivity|].
  destruct l as [|y l]; simpl; [destruct m; reflexivity | f_equal; apply IH].
Qed.

Lemma nth_error_skipn {A} n (l : list A) x t : skipn n l = x :: t -> nth_error l n = Some x.
Proof.
  revert l; induction n as [|n IH]; intros l H.
  - simpl in H. subst l. reflexivity.
  - destruct l as [|y l]; [discriminate|]. simpl in *. apply IH. exact H.
Qed.

Lemma get_skipn {A} (l : list A) i x t : 0 <= i -> skipn (Z.to_nat i) l = x :: t -> get l i = Ok x.
Proof.
  intros Hi H. unfold get. destruct (Z.ltb_spec i 0); [lia|].
  rewrite (nth_error_skipn _ _ _ _ H). reflexivity.
Qed.

Lemma get_app_mid {A} (a : list A) x b : get (a ++ x :: b) (zlen a) = Ok x.
Proof.
  apply (get_skipn _ _ _ b); [apply zlen_nonneg|].
  rewrite to_nat_zlen, skipn_app, skipn_all, Nat.sub_diag. reflexivity.
Qed.

Lemma set_nat_app_mid {A} (a : list A) x b v : set_nat (a ++ x :: b) (length a) v = Ok (a ++ v :: b).
Proof.
  induction a as [|y a IH]; [reflexivity|]. cbn [app length set_nat]. rewrite IH. reflexivity.
Qed.

Lemma set_app_mid {A} (a : list A) x b v i : i = zlen a -> set (a ++ x :: b) i v = Ok (a ++ v :: b).
Proof.
  intros ->. unfold set. pose proof (zlen_nonneg a). destruct (Z.ltb_spec (zlen a) 0); [lia|].
  rewrite to_nat_zlen. apply set_nat_app_mid.
Qed.

(** pure update *)
Fixpoint upd {A} (l : list A) (n : nat) (v : A) : list A :=
  match l, n with
  | [], _ => []
  | _ :: xs, O => v :: xs
  | x :: xs, S n' => x :: upd xs n' v
  end.

Lemma upd_length {A} (l : list A) n v : length (upd l n v) = length l.
Proof. revert n; induction l as [|x l IH]; intros [|n]; simpl; auto. Qed.

Lemma set_nat_upd {A} (l : list A) n v : (n < length l)%nat -> set_nat l n v = Ok (upd l n v).
Proof.
  revert n; induction l as [|x l IH]; intros [|n] H; simpl in *; try lia; [reflexivity|].
  rewrite IH by lia. reflexivity.
Qed.

Lemma set_upd {A} (l : list A) i v : 0 <= i < zlen l -> set l i v = Ok (upd l (Z.to_nat i) v).
Proof.
  intros H. unfold set. destruct (Z.ltb_spec i 0); [lia|]. apply set_nat_upd. unfold zlen in H. lia.
Qed.

Lemma nth_upd {A} (l : list A) n v m d :
  nth m (upd l n v) d = if (n =? m)%nat && (n <? length l)%nat then v else nth m l d.
Proof.
  revert n m; induction l as [|x l IH]; intros n m.
  - simpl. rewrite andb_false_r. reflexivity.
  - destruct n as [|n], m as [|m]; simpl; try reflexivity.
    rewrite IH. reflexivity.
Qed.

Lemma foldM_app {A S} (f : S -> A -> res S) l1 l2 s :
  foldM f (l1 ++ l2) s = do s' <- foldM f l1 s; foldM f l2 s'.
Proof.
  revert s; induction l1 as [|x l1 IH]; intros s; [reflexivity|].
  cbn [app foldM]. destruct (f s x); cbn [bind]; auto.
Qed.

Lemma forallb_zero_repeat (l : list Z) : forallb (Z.eqb 0) l = true -> l = repeat 0 (length l).
Proof.
  induction l as [|x l IH]; [reflexivity|]. cbn [forallb length repeat]. intros H.
  apply andb_true_iff in H as [Hx Hl]. apply Z.eqb_eq in Hx. subst x. f_equal. auto.
Qed.

Lemma forallb_repeat_zero n : forallb (Z.eqb 0) (repeat 0 n) = true.
Proof. induction n; simpl; auto. Qed.

(** * Part B: specification (FIPS 204 Alg. 20 HintBitPack / Alg. 21 HintBitUnpack) *)

(** [zn l i] = l[i] (0 outside) *)
Definition zn (l : list Z) (i : Z) : Z := nth (Z.to_nat i) l 0.

(** positions of the non-zero coefficients of one polynomial, ascending *)
Definition S_pos (h : list Z) : list Z := filter (fun j => negb (zn h j =? 0)) (zrange 0 256).

(** the polynomial with ones exactly at the listed positions *)
Definition S_ind (row : list Z) : list Z :=
  map (fun j => if existsb (Z.eqb j) row then 1 else 0) (zrange 0 256).

(** number of non-zero coefficients *)
Definition nonzero (x : Z) : bool := negb (x =? 0).
Definition hweight (h : list (list Z)) : Z := zlen (filter nonzero (concat h)).

(** running totals after each polynomial *)
Fixpoint S_totals (ps : list (list Z)) (acc : Z) : list Z :=
  match ps with
  | [] => []
  | p :: r => (acc + zlen p) :: S_totals r (acc + zlen p)
  end.

(** Alg. 20: W + (length h) bytes *)
Definition S_hint_pack (W : Z) (h : list (list Z)) : list Z :=
  let ps := map S_pos h in
  let flat := concat ps in
  flat ++ repeatZ 0 (W - zlen flat) ++ S_totals ps 0.

(** strictly increasing, every element above [prev] when given *)
Fixpoint incr_from (prev : option Z) (l : list Z) : bool :=
  match l with
  | [] => true
  | x :: r => (match prev with Some p => p <? x | None => true end) && incr_from (Some x) r
  end.
Definition incr (l : list Z) : bool := incr_from None l.

(** Alg. 21, the loop over the K counters: [rest] is y[k..W), [cnts] the remaining counter bytes.
    Returns the index lists of the polynomials and the unused tail of the index area. *)
Fixpoint S_rows (W : Z) (rest : list Z) (cnts : list Z) (k : Z) : option (list (list Z) * list Z) :=
  match cnts with
  | [] => Some ([], rest)
  | cnt :: r =>
    if (cnt <? k) || (W <? cnt) then None else
    let n := Z.to_nat (cnt - k) in
    let row := firstn n rest in
    if incr row then
      match S_rows W (skipn n rest) r cnt with
      | Some (rows, rest') => Some (row :: rows, rest')
      | None => None
      end
    else None
  end.

Definition S_hint_unpack (W K : Z) (y : list Z) : option (list (list Z)) :=
  match S_rows W (firstn (Z.to_nat W) y) (firstn (Z.to_nat K) (skipn (Z.to_nat W) y)) 0 with
  | Some (rows, rest) => if forallb (Z.eqb 0) rest then Some (map S_ind rows) else None
  | None => None
  end.

(** well-formed hint vector: K polynomials of 256 coefficients in {0,1} *)
Definition binary_row (r : list Z) : Prop := length r = 256%nat /\ Forall (fun x => x = 0 \/ x = 1) r.
Definition hint_wf (K : Z) (h : list (list Z)) : Prop := zlen h = K /\ Forall binary_row h.

(** * Part C: facts about the specification functions *)

Lemma zn_of_nat l n : zn l (Z.of_nat n) = nth n l 0.
Proof. unfold zn. rewrite Nat2Z.id. reflexivity. Qed.

Lemma zn_map_zrange (f : Z -> Z) n j : 0 <= j < n -> zn (map f (zrange 0 n)) j = f j.
Proof.
  intros H. unfold zn, zrange. rewrite map_map.
  rewrite (nth_indep _ 0 (f (0 + Z.of_nat 0))) by (rewrite map_length, seq_length; lia).
  rewrite (map_nth (fun i => f (0 + Z.of_nat i))), seq_nth by lia. f_equal. lia.
Qed.

Lemma S_ind_length row : length (S_ind row) = 256%nat.
Proof. unfold S_ind. rewrite map_length, zrange_length. reflexivity. Qed.

Lemma zn_S_ind row j : 0 <= j < 256 -> zn (S_ind row) j = if existsb (Z.eqb j) row then 1 else 0.
Proof. intros H. unfold S_ind. rewrite zn_map_zrange by exact H. reflexivity. Qed.

Lemma existsb_eqb_In j row : existsb (Z.eqb j) row = true <-> In j row.
Proof.
  rewrite existsb_exists. split.
  - intros (x & Hx & E). apply Z.eqb_eq in E. subst. exact Hx.
  - intros H. exists j. split; [exact H | apply Z.eqb_refl].
Qed.

Lemma In_S_pos h j : In j (S_pos h) <-> 0 <= j < 256 /\ zn h j <> 0.
Proof.
  unfold S_pos. rewrite filter_In, In_zrange, negb_true_iff, Z.eqb_neq. reflexivity.
Qed.

(** strongly sorted (strictly) *)
Fixpoint ssorted (l : list Z) : Prop :=
  match l with
  | [] => True
  | x :: r => (forall y, In y r -> x < y) /\ ssorted r
  end.

Lemma ssorted_ext l1 l2 : ssorted l1 -> ssorted l2 -> (forall x, In x l1 <-> In x l2) -> l1 = l2.
Proof.
  revert l2; induction l1 as [|a l1 IH]; intros [|b l2] S1 S2 E.
  - reflexivity.
  - exfalso. apply (E b). left; reflexivity.
  - exfalso. apply (E a). left; reflexivity.
  - destruct S1 as [A1 S1], S2 as [A2 S2].
    assert (a = b).
    { destruct (proj1 (E a) (or_introl eq_refl)) as [Hb|Hb]; [auto|].
      destruct (proj2 (E b) (or_introl eq_refl)) as [Ha|Ha]; [auto|].
      apply A2 in Hb. apply A1 in Ha. lia. }
    subst b. f_equal. apply IH; auto.
    intros x. split; intros Hx.
    + destruct (proj1 (E x) (or_intror Hx)) as [Hb|Hb]; [|exact Hb]. apply A1 in Hx. lia.
    + destruct (proj2 (E x) (or_intror Hx)) as [Hb|Hb]; [|exact Hb]. apply A2 in Hx. lia.
Qed.

Lemma ssorted_filter f l : ssorted l -> ssorted (filter f l).
Proof.
  induction l as [|x l IH]; [auto|]. intros [A S]. cbn [filter].
  destruct (f x); [|auto]. split; [|auto].
  intros y Hy. apply filter_In in Hy. apply A. apply Hy.
Qed.

Lemma ssorted_zrange_aux n a : ssorted (zrange a (a + Z.of_nat n)).
Proof.
  revert a; induction n as [|n IH]; intros a.
  - rewrite zrange_nil by lia. exact I.
  - rewrite zrange_cons by lia. split.
    + intros y Hy. apply In_zrange in Hy. lia.
    + replace (a + Z.of_nat (S n)) with (a + 1 + Z.of_nat n) by lia. apply IH.
Qed.

Lemma ssorted_zrange a b : ssorted (zrange a b).
Proof.
  destruct (Z.le_gt_cases b a) as [H|H]; [rewrite zrange_nil by exact H; exact I|].
  replace b with (a + Z.of_nat (Z.to_nat (b - a))) by lia. apply ssorted_zrange_aux.
Qed.

Lemma S_pos_ssorted h : ssorted (S_pos h).
Proof. apply ssorted_filter, ssorted_zrange. Qed.

Lemma incr_from_ssorted p l :
  incr_from (Some p) l = true -> (forall y, In y l -> p < y) /\ ssorted l.
Proof.
  revert p; induction l as [|x l IH]; intros p H.
  - split; [intros y []| exact I].
  - cbn [incr_from] in H. apply andb_true_iff in H as [Hp Hl]. apply Z.ltb_lt in Hp.
    destruct (IH _ Hl) as [A S]. split.
    + intros y [<-|Hy]; [exact Hp|]. apply A in Hy. lia.
    + split; assumption.
Qed.

Lemma incr_ssorted l : incr l = true -> ssorted l.
Proof.
  destruct l as [|x l]; [intros; exact I|]. unfold incr. cbn [incr_from andb]. intros H.
  apply incr_from_ssorted in H. exact H.
Qed.

Lemma ssorted_incr_from p l : (forall y, In y l -> p < y) -> ssorted l -> incr_from (Some p) l = true.
Proof.
  revert p; induction l as [|x l IH]; intros p A S; [reflexivity|].
  cbn [incr_from]. destruct S as [Ax S]. apply andb_true_iff. split.
  - apply Z.ltb_lt. apply A. left; reflexivity.
  - apply IH; assumption.
Qed.

Lemma ssorted_incr l : ssorted l -> incr l = true.
Proof.
  destruct l as [|x l]; [reflexivity|]. intros [A S]. unfold incr. cbn [incr_from andb].
  apply ssorted_incr_from; assumption.
Qed.

Definition bytes (l : list Z) : Prop := Forall is_byte l.

(** Alg. 20 after Alg. 21 on one polynomial, and conversely *)
Lemma S_pos_ind row : incr row = true -> bytes row -> S_pos (S_ind row) = row.
Proof.
  intros Hi Hb. apply ssorted_ext; [apply S_pos_ssorted | apply incr_ssorted; exact Hi|].
  intros j. rewrite In_S_pos. split.
  - intros [Hj Hz]. rewrite zn_S_ind in Hz by exact Hj.
    destruct (existsb (Z.eqb j) row) eqn:E; [|contradiction]. apply existsb_eqb_In. exact E.
  - intros Hj. assert (Bj : 0 <= j < 256) by (exact (proj1 (Forall_forall _ _) Hb j Hj)).
    split; [exact Bj|]. rewrite zn_S_ind by exact Bj.
    apply existsb_eqb_In in Hj. rewrite Hj. discriminate.
Qed.

Lemma S_ind_pos h : binary_row h -> S_ind (S_pos h) = h.
Proof.
  intros [Hl Hb]. apply (nth_ext _ _ 0 0); [rewrite S_ind_length; auto|].
  intros n Hn. rewrite S_ind_length in Hn.
  rewrite <- !zn_of_nat. set (j := Z.of_nat n). assert (Bj : 0 <= j < 256) by lia.
  rewrite zn_S_ind by exact Bj.
  assert (Hv : zn h j = 0 \/ zn h j = 1).
  { unfold zn, j. rewrite Nat2Z.id. apply (proj1 (Forall_forall _ _) Hb). apply nth_In. lia. }
  destruct (existsb (Z.eqb j) (S_pos h)) eqn:E.
  - apply existsb_eqb_In, In_S_pos in E. lia.
  - destruct Hv as [Hv|Hv]; [auto|]. exfalso.
    assert (In j (S_pos h)) by (apply In_S_pos; lia).
    apply existsb_eqb_In in H. congruence.
Qed.

Lemma S_ind_binary row : binary_row (S_ind row).
Proof.
  split; [apply S_ind_length|]. unfold S_ind. apply Forall_forall. intros x Hx.
  apply in_map_iff in Hx as (j & <- & _). destruct (existsb (Z.eqb j) row); auto.
Qed.

Lemma S_pos_bytes h : bytes (S_pos h).
Proof. apply Forall_forall. intros j Hj. apply In_S_pos in Hj. exact (proj1 Hj). Qed.

(** the model's [hint_indices] is the specification's position list *)
Lemma hint_indices_filter h j :
  hint_indices h j = filter (fun t => negb (zn h (t - j) =? 0)) (zrange j (j + zlen h)).
Proof.
  revert j; induction h as [|x r IH]; intros j.
  - change (zlen (@nil Z)) with 0. rewrite zrange_nil by lia. reflexivity.
  - pose proof (zlen_nonneg r). rewrite zlen_cons, zrange_cons by lia. cbn [hint_indices filter].
    rewrite Z.sub_diag. change (zn (x :: r) 0) with x.
    replace (j + (1 + zlen r)) with (j + 1 + zlen r) by lia.
    rewrite IH.
    assert (E : filter (fun t => negb (zn (x :: r) (t - j) =? 0)) (zrange (j + 1) (j + 1 + zlen r))
              = filter (fun t => negb (zn r (t - (j + 1)) =? 0)) (zrange (j + 1) (j + 1 + zlen r))).
    { apply filter_ext_in. intros t Ht. apply In_zrange in Ht. unfold zn.
      replace (Z.to_nat (t - j)) with (S (Z.to_nat (t - (j + 1)))) by lia. reflexivity. }
    rewrite E. destruct (x =? 0); reflexivity.
Qed.

Lemma hint_indices_S_pos h : length h = 256%nat -> hint_indices h 0 = S_pos h.
Proof.
  intros Hl. rewrite hint_indices_filter. unfold S_pos.
  replace (0 + zlen h) with 256 by (unfold zlen; lia).
  apply filter_ext. intros t. rewrite Z.sub_0_r. reflexivity.
Qed.

Lemma hint_indices_length h j : length (hint_indices h j) = length (filter nonzero h).
Proof.
  revert j; induction h as [|x r IH]; intros j; [reflexivity|].
  cbn [hint_indices filter]. unfold nonzero at 1. destruct (x =? 0); cbn [negb length]; rewrite IH; reflexivity.
Qed.

Lemma hweight_S_pos h :
  Forall (fun r => length r = 256%nat) h -> hweight h = zlen (concat (map S_pos h)).
Proof.
  unfold hweight. induction h as [|r h IH]; intros Hf; [reflexivity|].
  inversion Hf as [|? ? Hr Hh]; subst. cbn [concat map]. rewrite filter_app, !zlen_app, IH by exact Hh.
  f_equal. rewrite <- hint_indices_S_pos by exact Hr. unfold zlen. rewrite hint_indices_length. reflexivity.
Qed.

(** * Part D: the model's decoding loops against the specification *)

Definition set_ones (hrow : list Z) (l : list Z) : list Z :=
  fold_left (fun r c => upd r (Z.to_nat c) 1) l hrow.

Lemma set_ones_length l hrow : length (set_ones hrow l) = length hrow.
Proof.
  revert hrow; induction l as [|c l IH]; intros hrow; [reflexivity|].
  unfold set_ones in *. cbn [fold_left]. rewrite IH. apply upd_length.
Qed.

Lemma u8_small x : 0 <= x <= 255 -> u8 x = x.
Proof.
  intros H. unfold u8. change 255 with (Z.ones 8). rewrite Z.land_ones by lia.
  change (2 ^ 8) with 256. apply Z.mod_small. lia.
Qed.

Section Row.
  Variable hs : list Z.
  Variable k : Z.
  Hypothesis Hk : 0 <= k.

  Lemma row_char : forall l j hrow prev tl,
    k <= j -> j + zlen l <= 256 ->
    skipn (Z.to_nat j) hs = l ++ tl ->
    (if k <? j then exists p, prev = Some p /\ get hs (j - 1) = Ok p else prev = None) ->
    length hrow = 256%nat -> bytes l ->
    exists hrow', unpack_hint_row hs hrow (zrange j (j + zlen l)) k = Ok (hrow', incr_from prev l)
       /\ length hrow' = 256%nat /\ (incr_from prev l = true -> hrow' = set_ones hrow l).
  Proof.
    induction l as [|x l IH]; intros j hrow prev tl Hkj Hj Hs Hprev Hlen Hb.
    - change (zlen (@nil Z)) with 0. rewrite zrange_nil by lia. exists hrow. cbn [unpack_hint_row incr_from]. auto.
    - pose proof (zlen_nonneg l) as Hl0. rewrite zlen_cons in *. rewrite zrange_cons by lia.
      inversion Hb as [|? ? Hx Hb']; subst.
      cbn [unpack_hint_row]. cbn [app] in Hs.
      rewrite (get_skipn hs j x (l ++ tl)) by (try lia; exact Hs). cbn [bind].
      assert (Hnext : skipn (Z.to_nat (j + 1)) hs = l ++ tl).
      { replace (Z.to_nat (j + 1)) with (S (Z.to_nat j)) by lia. apply (skipn_succ _ _ x). exact Hs. }
      assert (Hprev' : if k <? j + 1 then exists p, Some x = Some p /\ get hs (j + 1 - 1) = Ok p else Some x = None).
      { destruct (Z.ltb_spec k (j + 1)); [|lia]. exists x. split; [reflexivity|].
        replace (j + 1 - 1) with j by lia. apply (get_skipn hs j x (l ++ tl)); [lia | exact Hs]. }
      replace (j + (1 + zlen l)) with (j + 1 + zlen l) by lia.
      assert (Hset : set hrow x 1 = Ok (upd hrow (Z.to_nat x) 1)).
      { apply set_upd. unfold zlen. rewrite Hlen. unfold is_byte in Hx. lia. }
      assert (Hlen' : length (upd hrow (Z.to_nat x) 1) = 256%nat) by (rewrite upd_length; exact Hlen).
      destruct (IH (j + 1) (upd hrow (Z.to_nat x) 1) (Some x) tl ltac:(lia) ltac:(lia) Hnext Hprev' Hlen' Hb')
        as (hrow' & E & L & S).
      destruct (Z.ltb_spec k j) as [Hlt|Hge].
      + destruct Hprev as (p & -> & Hp).
        unfold usize_sub. rewrite chk_u_ok by (change (2 ^ 64) with 18446744073709551616; lia).
        cbn [bind]. rewrite Hp. cbn [bind incr_from].
        destruct (Z.leb_spec x p) as [Hle|Hgt].
        * exists hrow. destruct (Z.ltb_spec p x); [lia|]. cbn [andb]. split; [reflexivity|].
          split; [exact Hlen | discriminate].
        * destruct (Z.ltb_spec p x); [|lia]. cbn [andb]. rewrite Hset. cbn [bind].
          exists hrow'. split; [exact E|]. split; [exact L|]. exact S.
      + subst prev. cbn [bind incr_from andb]. rewrite Hset. cbn [bind].
        exists hrow'. split; [exact E|]. split; [exact L|]. exact S.
  Qed.
End Row.

Lemma Forall_firstn_skipn {A} (Q : A -> Prop) n (l : list A) :
  Forall Q l -> Forall Q (firstn n l) /\ Forall Q (skipn n l).
Proof. intros H. rewrite <- (firstn_skipn n l) in H. apply Forall_app in H. exact H. Qed.

Lemma all_zero_char hs : forall rest k post,
  0 <= k -> skipn (Z.to_nat k) hs = rest ++ post -> bytes rest ->
  all_zero_from hs (zrange k (k + zlen rest)) = Ok (forallb (Z.eqb 0) rest).
Proof.
  induction rest as [|x rest IH]; intros k post Hk Hs Hb.
  - change (zlen (@nil Z)) with 0. rewrite zrange_nil by lia. reflexivity.
  - pose proof (zlen_nonneg rest). rewrite zlen_cons, zrange_cons by lia.
    inversion Hb as [|? ? Hx Hb']; subst. cbn [app] in Hs.
    cbn [all_zero_from forallb]. rewrite (get_skipn hs k x (rest ++ post)) by (try lia; exact Hs).
    cbn [bind]. unfold is_byte in Hx.
    destruct (Z.ltb_spec 0 x); destruct (Z.eqb_spec 0 x); try lia; cbn [andb]; [reflexivity|].
    replace (k + (1 + zlen rest)) with (k + 1 + zlen rest) by lia.
    apply (IH (k + 1) post); [lia| |exact Hb'].
    replace (Z.to_nat (k + 1)) with (S (Z.to_nat k)) by lia. apply (skipn_succ _ _ x). exact Hs.
Qed.

Definition apply_rows (todo rows : list (list Z)) : list (list Z) :=
  map (fun p => set_ones (fst p) (snd p)) (combine todo rows).

Section Loop.
  Variable P : params.
  Let W := pOMEGA P.
  Hypothesis HW : 0 <= W <= 255.
  Variable hs : list Z.

  Lemma loop_char : forall cl a k rest done todo post ctail,
    0 <= k <= W ->
    skipn (Z.to_nat (W + a)) hs = cl ++ ctail ->
    skipn (Z.to_nat k) hs = rest ++ post -> zlen rest = W - k -> bytes rest ->
    zlen done = a -> length todo = length cl -> Forall (fun r => length r = 256%nat) todo ->
    match S_rows W rest cl k with
    | Some (rows, rest') =>
        unpack_hint_loop P hs (done ++ todo) (zrange a (a + zlen cl)) k
        = Ok (done ++ apply_rows todo rows, W - zlen rest', true)
        /\ skipn (Z.to_nat (W - zlen rest')) hs = rest' ++ post
    | None => exists h' k', unpack_hint_loop P hs (done ++ todo) (zrange a (a + zlen cl)) k = Ok (h', k', false)
    end.
  Proof.
    induction cl as [|cnt cl IH]; intros a k rest done todo post ctail Hk Hc Hr Hrl Hb Hd Ht Hf.
    - change (zlen (@nil Z)) with 0. rewrite zrange_nil by lia. cbn [S_rows unpack_hint_loop].
      destruct todo; [|discriminate]. unfold apply_rows. cbn [combine map].
      split; [|replace (W - zlen rest) with k by lia; exact Hr].
      f_equal. f_equal. f_equal. lia.
    - destruct todo as [|hrow todo]; [discriminate|].
      pose proof (zlen_nonneg cl) as Hcl0. pose proof (zlen_nonneg done) as Hd0.
      rewrite zlen_cons, zrange_cons by lia. cbn [app] in Hc.
      cbn [unpack_hint_loop]. fold W.
      rewrite (get_skipn hs (W + a) cnt (cl ++ ctail)) by (try lia; exact Hc). cbn [bind].
      rewrite u8_small by lia. cbn [S_rows].
      destruct ((cnt <? k) || (W <? cnt)) eqn:Ec.
      { exists (done ++ hrow :: todo), k. reflexivity. }
      apply orb_false_iff in Ec as [Ec1 Ec2]. apply Z.ltb_ge in Ec1, Ec2.
      subst a. rewrite get_app_mid. cbn [bind].
      set (n := Z.to_nat (cnt - k)).
      assert (Hn : (n <= length rest)%nat) by (unfold zlen in Hrl; lia).
      set (l := firstn n rest).
      assert (Hll : zlen l = cnt - k) by (unfold l, zlen; rewrite firstn_length; lia).
      destruct (Forall_firstn_skipn _ n rest Hb) as [Hbl Hbs]. fold l in Hbl.
      assert (Hs : skipn (Z.to_nat k) hs = l ++ (skipn n rest ++ post)).
      { rewrite app_assoc. unfold l. rewrite firstn_skipn. exact Hr. }
      inversion Hf as [|? ? Hrow Hf']; subst.
      destruct (row_char hs k ltac:(lia) l k hrow None (skipn n rest ++ post)
                  ltac:(lia) ltac:(lia) Hs ltac:(rewrite Z.ltb_irrefl; reflexivity) Hrow Hbl)
        as (hrow' & E & L & HS).
      replace (k + zlen l) with cnt in E by lia. rewrite E. cbn [bind].
      rewrite set_app_mid by reflexivity. cbn [bind]. fold (incr l).
      destruct (incr l) eqn:Ei.
      2:{ exists (done ++ hrow' :: todo), k. reflexivity. }
      rewrite (HS Ei).
      assert (Hc' : skipn (Z.to_nat (W + (zlen done + 1))) hs = cl ++ ctail).
      { replace (Z.to_nat (W + (zlen done + 1))) with (S (Z.to_nat (W + zlen done))) by lia.
        apply (skipn_succ _ _ cnt). exact Hc. }
      assert (Hr' : skipn (Z.to_nat cnt) hs = skipn n rest ++ post).
      { replace (Z.to_nat cnt) with (Z.to_nat k + n)%nat by lia.
        rewrite skipn_add, Hr, skipn_app. replace (n - length rest)%nat with 0%nat by lia. reflexivity. }
      assert (Hrl' : zlen (skipn n rest) = W - cnt) by (unfold zlen in *; rewrite skipn_length; lia).
      assert (Hd' : zlen (done ++ [set_ones hrow l]) = zlen done + 1) by (rewrite zlen_app, zlen_cons; reflexivity).
      specialize (IH (zlen done + 1) cnt (skipn n rest) (done ++ [set_ones hrow l]) todo post ctail
                     ltac:(lia) Hc' Hr' Hrl' Hbs Hd' ltac:(cbn [length] in Ht; lia) Hf').
      replace (zlen done + (1 + zlen cl)) with (zlen done + 1 + zlen cl) by lia.
      replace (done ++ set_ones hrow l :: todo) with ((done ++ [set_ones hrow l]) ++ todo)
        by (rewrite <- app_assoc; reflexivity).
      destruct (S_rows W (skipn n rest) cl cnt) as [[rows rest']|].
      + destruct IH as [IH1 IH2]. split; [|exact IH2]. rewrite IH1.
        unfold apply_rows. cbn [combine map fst snd]. rewrite <- app_assoc. reflexivity.
      + exact IH.
  Qed.
End Loop.

(** * Part E: the specification's Alg. 21 inverts Alg. 20 and accepts only canonical strings *)

Lemma firstn_app_exact {A} (a b : list A) n : n = length a -> firstn n (a ++ b) = a.
Proof. intros ->. rewrite firstn_app, firstn_all, Nat.sub_diag. cbn [firstn]. apply app_nil_r. Qed.
Lemma skipn_app_exact {A} (a b : list A) n : n = length a -> skipn n (a ++ b) = b.
Proof. intros ->. rewrite skipn_app, skipn_all, Nat.sub_diag. reflexivity. Qed.

Lemma Forall_concat_inv {A} (Q : A -> Prop) (ls : list (list A)) :
  Forall Q (concat ls) -> Forall (Forall Q) ls.
Proof.
  induction ls as [|l ls IH]; intros H; [constructor|]. cbn [concat] in H.
  apply Forall_app in H as [H1 H2]. constructor; auto.
Qed.

Lemma S_totals_length ps k : length (S_totals ps k) = length ps.
Proof. revert k; induction ps as [|p ps IH]; intros k; simpl; auto. Qed.

Lemma S_rows_sound W : forall cl rest k rows rest',
  0 <= k -> zlen rest = W - k ->
  S_rows W rest cl k = Some (rows, rest') ->
  rest = concat rows ++ rest' /\ S_totals rows k = cl /\
  Forall (fun r => incr r = true) rows /\ length rows = length cl.
Proof.
  induction cl as [|cnt cl IH]; intros rest k rows rest' Hk Hl H.
  - cbn [S_rows] in H. inversion H; subst. repeat split; constructor.
  - cbn [S_rows] in H. destruct ((cnt <? k) || (W <? cnt)) eqn:Ec; [discriminate|].
    apply orb_false_iff in Ec as [Ec1 Ec2]. apply Z.ltb_ge in Ec1, Ec2.
    set (n := Z.to_nat (cnt - k)) in *.
    assert (Hn : (n <= length rest)%nat) by (unfold zlen in Hl; lia).
    destruct (incr (firstn n rest)) eqn:Ei; [|discriminate].
    destruct (S_rows W (skipn n rest) cl cnt) as [[rows0 rest0]|] eqn:Er; [|discriminate].
    inversion H; subst rows rest'. clear H.
    apply IH in Er; [|lia| unfold zlen in *; rewrite skipn_length; lia].
    destruct Er as (E1 & E2 & E3 & E4). repeat split.
    + cbn [concat]. rewrite <- app_assoc, <- E1. symmetry. apply firstn_skipn.
    + cbn [S_totals].
      assert (Hz : k + zlen (firstn n rest) = cnt) by (unfold zlen; rewrite firstn_length; lia).
      rewrite Hz, E2. reflexivity.
    + constructor; assumption.
    + cbn [length]. rewrite E4. reflexivity.
Qed.

Lemma S_rows_complete W : forall ps k rest',
  0 <= k -> k + zlen (concat ps) <= W -> Forall (fun r => incr r = true) ps ->
  S_rows W (concat ps ++ rest') (S_totals ps k) k = Some (ps, rest').
Proof.
  induction ps as [|p ps IH]; intros k rest' Hk Hw Hf; [reflexivity|].
  inversion Hf as [|? ? Hp Hf']; subst. cbn [concat] in *. rewrite zlen_app in Hw.
  pose proof (zlen_nonneg p). pose proof (zlen_nonneg (concat ps)).
  cbn [S_totals S_rows].
  destruct (Z.ltb_spec (k + zlen p) k); [lia|]. destruct (Z.ltb_spec W (k + zlen p)); [lia|].
  cbn [orb]. replace (Z.to_nat (k + zlen p - k)) with (length p) by (unfold zlen; lia).
  rewrite <- app_assoc. rewrite firstn_app_exact, skipn_app_exact by reflexivity.
  rewrite Hp. rewrite IH by (try assumption; lia). reflexivity.
Qed.

Theorem S_unpack_canonical W K y h' :
  0 <= W -> 0 <= K -> W + K <= zlen y -> bytes y ->
  S_hint_unpack W K y = Some h' ->
  S_hint_pack W h' = firstn (Z.to_nat (W + K)) y /\ hweight h' <= W /\ hint_wf K h'.
Proof.
  intros HW HK Hy Hb H. unfold S_hint_unpack in H.
  set (body := firstn (Z.to_nat W) y) in *.
  set (cl := firstn (Z.to_nat K) (skipn (Z.to_nat W) y)) in *.
  destruct (S_rows W body cl 0) as [[rows rest]|] eqn:Er; [|discriminate].
  destruct (forallb (Z.eqb 0) rest) eqn:Ez; [|discriminate].
  inversion H; subst h'. clear H.
  assert (Hbl : zlen body = W) by (unfold body, zlen in *; rewrite firstn_length; lia).
  assert (Hcl : zlen cl = K) by (unfold cl, zlen in *; rewrite firstn_length, skipn_length; lia).
  apply S_rows_sound in Er; [|lia|lia]. destruct Er as (E1 & E2 & E3 & E4).
  assert (Hbb : bytes body) by (apply (Forall_firstn_skipn _ (Z.to_nat W) y Hb)).
  rewrite E1 in Hbb. apply Forall_app in Hbb as [Hbr _]. apply Forall_concat_inv in Hbr.
  assert (Hpi : map S_pos (map S_ind rows) = rows).
  { rewrite map_map. rewrite <- (map_id rows) at 2. apply map_ext_in. intros r Hr.
    apply S_pos_ind; [exact (proj1 (Forall_forall _ _) E3 r Hr) | exact (proj1 (Forall_forall _ _) Hbr r Hr)]. }
  assert (Hrest : zlen rest = W - zlen (concat rows)) by (rewrite E1, zlen_app in Hbl; lia).
  pose proof (zlen_nonneg rest) as Hr0.
  split; [|split].
  - unfold S_hint_pack. rewrite Hpi, E2.
    replace (repeatZ 0 (W - zlen (concat rows))) with rest.
    2:{ rewrite (forallb_zero_repeat rest Ez) at 1. unfold repeatZ. f_equal. unfold zlen in *. lia. }
    rewrite app_assoc, <- E1.
    replace (Z.to_nat (W + K)) with (Z.to_nat W + Z.to_nat K)%nat by lia.
    rewrite firstn_add. reflexivity.
  - rewrite hweight_S_pos, Hpi; [lia|]. apply Forall_forall. intros r Hr.
    apply in_map_iff in Hr as (r0 & <- & _). apply S_ind_length.
  - split.
    + unfold zlen in *. rewrite map_length, E4. exact Hcl.
    + apply Forall_forall. intros r Hr. apply in_map_iff in Hr as (r0 & <- & _). apply S_ind_binary.
Qed.

Theorem S_unpack_pack W K h :
  0 <= W -> hint_wf K h -> hweight h <= W -> S_hint_unpack W K (S_hint_pack W h) = Some h.
Proof.
  intros HW [HK Hwf] Hw.
  assert (H256 : Forall (fun r => length r = 256%nat) h).
  { apply Forall_forall. intros r Hr. exact (proj1 (proj1 (Forall_forall _ _) Hwf r Hr)). }
  rewrite hweight_S_pos in Hw by exact H256.
  unfold S_hint_unpack, S_hint_pack.
  set (ps := map S_pos h) in *. set (flat := concat ps) in *.
  pose proof (zlen_nonneg flat) as Hf0.
  assert (Hlen : length (flat ++ repeatZ 0 (W - zlen flat)) = Z.to_nat W).
  { rewrite app_length. unfold repeatZ. rewrite repeat_length. unfold zlen in *. lia. }
  rewrite app_assoc.
  rewrite firstn_app_exact, skipn_app_exact by (symmetry; exact Hlen).
  rewrite firstn_all2 by (rewrite S_totals_length; unfold ps; rewrite map_length; unfold zlen in HK; lia).
  subst flat. rewrite S_rows_complete; [| lia | lia |].
  2:{ apply Forall_forall. intros r Hr. unfold ps in Hr. apply in_map_iff in Hr as (r0 & <- & _).
      apply ssorted_incr, S_pos_ssorted. }
  unfold repeatZ. rewrite forallb_repeat_zero. f_equal.
  unfold ps. rewrite map_map. rewrite <- (map_id h) at 2. apply map_ext_in. intros r Hr.
  apply S_ind_pos. exact (proj1 (Forall_forall _ _) Hwf r Hr).
Qed.

(** two different accepted strings never decode to the same hint vector *)
Corollary S_unpack_injective W K y1 y2 h :
  0 <= W -> 0 <= K -> zlen y1 = W + K -> zlen y2 = W + K -> bytes y1 -> bytes y2 ->
  S_hint_unpack W K y1 = Some h -> S_hint_unpack W K y2 = Some h -> y1 = y2.
Proof.
  intros HW HK L1 L2 B1 B2 E1 E2.
  apply S_unpack_canonical in E1; try assumption; try lia.
  apply S_unpack_canonical in E2; try assumption; try lia.
  destruct E1 as [E1 _], E2 as [E2 _].
  rewrite firstn_all2 in E1 by (unfold zlen in *; lia).
  rewrite firstn_all2 in E2 by (unfold zlen in *; lia). congruence.
Qed.

(** only the first W + K bytes are read *)
Lemma S_hint_unpack_firstn W K y :
  0 <= W -> 0 <= K ->
  S_hint_unpack W K (firstn (Z.to_nat (W + K)) y) = S_hint_unpack W K y.
Proof.
  intros HW HK. unfold S_hint_unpack.
  rewrite firstn_firstn, skipn_firstn_comm, firstn_firstn.
  replace (Init.Nat.min (Z.to_nat W) (Z.to_nat (W + K))) with (Z.to_nat W) by lia.
  replace (Init.Nat.min (Z.to_nat K) (Z.to_nat (W + K) - Z.to_nat W)) with (Z.to_nat K) by lia.
  reflexivity.
Qed.

(** * Part F: the model's hint decoder = Alg. 21 *)

Lemma nth_set_ones l : forall hrow m,
  bytes l -> (m < length hrow)%nat ->
  nth m (set_ones hrow l) 0 = if existsb (Z.eqb (Z.of_nat m)) l then 1 else nth m hrow 0.
Proof.
  induction l as [|c l IH]; intros hrow m Hb Hm; [reflexivity|].
  inversion Hb as [|? ? Hc Hb']; subst. unfold is_byte in Hc.
  change (set_ones hrow (c :: l)) with (set_ones (upd hrow (Z.to_nat c) 1) l).
  rewrite IH by (try rewrite upd_length; assumption).
  cbn [existsb]. rewrite nth_upd.
  destruct (existsb (Z.eqb (Z.of_nat m)) l); [rewrite orb_true_r; reflexivity|].
  rewrite orb_false_r.
  destruct (Z.eqb_spec (Z.of_nat m) c); destruct (Nat.eqb_spec (Z.to_nat c) m); try lia; cbn [andb]; try reflexivity.
  destruct (Nat.ltb_spec (Z.to_nat c) (length hrow)); [reflexivity | lia].
Qed.

Lemma set_ones_zero row : bytes row -> set_ones (repeat 0 256) row = S_ind row.
Proof.
  intros Hb. apply (nth_ext _ _ 0 0); [rewrite set_ones_length, S_ind_length, repeat_length; reflexivity|].
  intros m Hm. rewrite set_ones_length, repeat_length in Hm.
  rewrite nth_set_ones by (try rewrite repeat_length; assumption).
  rewrite <- (zn_of_nat (S_ind row)), zn_S_ind by lia.
  rewrite nth_repeat. reflexivity.
Qed.

Definition zero_h (K : Z) : list (list Z) := repeatZ (repeat 0 256%nat) K.

Lemma apply_rows_zero : forall rows n,
  length rows = n -> Forall bytes rows ->
  apply_rows (repeat (repeat 0 256%nat) n) rows = map S_ind rows.
Proof.
  unfold apply_rows. induction rows as [|r rows IH]; intros n Hn Hb.
  - subst n. reflexivity.
  - destruct n as [|n]; [discriminate|]. inversion Hb; subst.
    cbn [repeat combine map fst snd]. rewrite set_ones_zero by assumption.
    f_equal. apply IH; auto.
Qed.

Section Decode.
  Variable P : params.
  Let W := pOMEGA P.
  Let K := pK P.

  (** the two hint loops of [unpack_sig] as one function of the hint bytes and the incoming h *)
  Definition hint_decode (hs : list Z) (h : list (list Z)) : res (list (list Z) * bool) :=
    do '(h', k, ok) <- unpack_hint_loop P hs h (zrange 0 (pK P)) 0;
    if negb ok then Ok (h', false) else
    do ok2 <- all_zero_from hs (zrange k (pOMEGA P));
    Ok (h', ok2).

  Lemma unpack_sig_hint_decode c z h sig :
    unpack_sig P c z h sig =
    (do cc <- slice_to sig (pCT P);
     do c' <- splice c 0 cc;
     do z' <- for_idx (pL P) (fun i _ => do s <- slice_from sig (pCT P + i * pPOLYZ P); z_unpack (pGAMMA1 P) s) z;
     do hs <- slice_from sig (pCT P + pL P * pPOLYZ P);
     do '(h', ok) <- hint_decode hs h;
     Ok (c', z', h', ok)).
  Proof.
    unfold unpack_sig, hint_decode.
    destruct (slice_to sig (pCT P)) as [cc| |]; cbn [bind]; try reflexivity.
    destruct (splice c 0 cc) as [c'| |]; cbn [bind]; try reflexivity.
    destruct (for_idx (pL P) _ z) as [z'| |]; cbn [bind]; try reflexivity.
    destruct (slice_from sig (pCT P + pL P * pPOLYZ P)) as [hs| |]; cbn [bind]; try reflexivity.
    destruct (unpack_hint_loop P hs h (zrange 0 (pK P)) 0) as [[[h' k] ok]| |]; cbn [bind]; try reflexivity.
    destruct ok; cbn [negb]; [|reflexivity].
    destruct (all_zero_from hs (zrange k (pOMEGA P))) as [ok2| |]; reflexivity.
  Qed.

  Hypothesis HW : 0 <= W <= 255.
  Hypothesis HK : 0 <= K.

  (** exact description for an arbitrary incoming h (K rows of 256 entries) *)
  Lemma hint_decode_char hs h0 :
    W + K <= zlen hs -> bytes hs ->
    zlen h0 = K -> Forall (fun r => length r = 256%nat) h0 ->
    match S_rows W (firstn (Z.to_nat W) hs) (firstn (Z.to_nat K) (skipn (Z.to_nat W) hs)) 0 with
    | Some (rows, rest) => hint_decode hs h0 = Ok (apply_rows h0 rows, forallb (Z.eqb 0) rest)
    | None => exists h', hint_decode hs h0 = Ok (h', false)
    end.
  Proof.
    intros Hl Hb Hh Hf.
    set (body := firstn (Z.to_nat W) hs). set (cl := firstn (Z.to_nat K) (skipn (Z.to_nat W) hs)).
    assert (Hbl : zlen body = W) by (unfold body, zlen in *; rewrite firstn_length; lia).
    assert (Hcl : zlen cl = K) by (unfold cl, zlen in *; rewrite firstn_length, skipn_length; lia).
    destruct (Forall_firstn_skipn _ (Z.to_nat W) hs Hb) as [Hbb _]. fold body in Hbb.
    pose proof (loop_char P HW hs cl 0 0 body [] h0 (skipn (Z.to_nat W) hs) (skipn (Z.to_nat K) (skipn (Z.to_nat W) hs))
                  ltac:(fold W; lia)) as HL.
    fold W in HL. rewrite Z.add_0_r in HL.
    specialize (HL ltac:(unfold cl; symmetry; apply firstn_skipn)
                   ltac:(unfold body; symmetry; apply firstn_skipn)
                   ltac:(lia) Hbb eq_refl ltac:(unfold zlen in *; lia) Hf).
    rewrite Hcl, Z.add_0_l in HL. cbn [app] in HL.
    unfold hint_decode. fold K. fold W.
    destruct (S_rows W body cl 0) as [[rows rest]|] eqn:Er.
    - destruct HL as [HL1 HL2]. rewrite HL1. cbn [bind negb].
      apply S_rows_sound in Er; [|lia|lia]. destruct Er as (E1 & _).
      assert (Hbr : bytes rest) by (rewrite E1 in Hbb; apply Forall_app in Hbb; apply Hbb).
      pose proof (zlen_nonneg rest) as Hr0.
      assert (Hrw : zlen rest <= W) by (rewrite E1, zlen_app in Hbl; pose proof (zlen_nonneg (concat rows)); lia).
      pose proof (all_zero_char hs rest (W - zlen rest) (skipn (Z.to_nat W) hs) ltac:(lia) HL2 Hbr) as HZ.
      replace (W - zlen rest + zlen rest) with W in HZ by lia.
      rewrite HZ. reflexivity.
    - destruct HL as (h' & k' & HL). rewrite HL. cbn [bind negb]. exists h'. reflexivity.
  Qed.

  (** No out-of-bounds: whatever the (byte) contents of the hint section — adversarial counters
      0..255, arbitrary indices — the decoder returns, it never panics *)
  Theorem hint_decode_total hs h0 :
    W + K <= zlen hs -> bytes hs ->
    zlen h0 = K -> Forall (fun r => length r = 256%nat) h0 ->
    exists h' ok, hint_decode hs h0 = Ok (h', ok).
  Proof.
    intros Hl Hb Hh Hf. pose proof (hint_decode_char hs h0 Hl Hb Hh Hf) as H.
    destruct (S_rows W _ _ 0) as [[rows rest]|].
    - eauto.
    - destruct H as (h' & H). eauto.
  Qed.

  Lemma zero_h_shape : zlen (zero_h K) = K /\ Forall (fun r => length r = 256%nat) (zero_h K).
  Proof.
    unfold zero_h. split; [apply zlen_repeatZ; exact HK|].
    apply Forall_forall. intros r Hr. unfold repeatZ in Hr. apply repeat_spec in Hr. subst r.
    apply repeat_length.
  Qed.

  (** Strictness: with a zero incoming vector the decoder accepts exactly when Alg. 21 does, with the
      same result *)
  Theorem unpack_hint_strict hs h' :
    W + K <= zlen hs -> bytes hs ->
    (hint_decode hs (zero_h K) = Ok (h', true) <-> S_hint_unpack W K hs = Some h').
  Proof.
    intros Hl Hb. destruct zero_h_shape as [Z1 Z2].
    pose proof (hint_decode_char hs (zero_h K) Hl Hb Z1 Z2) as H.
    unfold S_hint_unpack.
    set (body := firstn (Z.to_nat W) hs) in *. set (cl := firstn (Z.to_nat K) (skipn (Z.to_nat W) hs)) in *.
    assert (Hbl : zlen body = W) by (unfold body, zlen in *; rewrite firstn_length; lia).
    assert (Hcl : zlen cl = K) by (unfold cl, zlen in *; rewrite firstn_length, skipn_length; lia).
    destruct (S_rows W body cl 0) as [[rows rest]|] eqn:Er.
    - rewrite H.
      apply S_rows_sound in Er; [|lia|lia]. destruct Er as (E1 & _ & _ & E4).
      destruct (Forall_firstn_skipn _ (Z.to_nat W) hs Hb) as [Hbb _]. fold body in Hbb.
      rewrite E1 in Hbb. apply Forall_app in Hbb as [Hbr _]. apply Forall_concat_inv in Hbr.
      unfold zero_h, repeatZ. rewrite apply_rows_zero by (try exact Hbr; unfold zlen in Hcl; lia).
      destruct (forallb (Z.eqb 0) rest); split; intros E; inversion E; reflexivity.
    - destruct H as (h'' & H). rewrite H. split; discriminate.
  Qed.

  Corollary unpack_hint_strict_firstn hs h' :
    W + K <= zlen hs -> bytes hs ->
    (hint_decode hs (zero_h K) = Ok (h', true) <-> S_hint_unpack W K (firstn (Z.to_nat (W + K)) hs) = Some h').
  Proof. intros Hl Hb. rewrite S_hint_unpack_firstn by lia. apply unpack_hint_strict; assumption. Qed.

  (** rejection is total as well: the decoder returns [false] exactly when Alg. 21 returns ⊥ *)
  Corollary unpack_hint_reject hs :
    W + K <= zlen hs -> bytes hs ->
    ((exists h', hint_decode hs (zero_h K) = Ok (h', false)) <-> S_hint_unpack W K hs = None).
  Proof.
    intros Hl Hb. destruct zero_h_shape as [Z1 Z2].
    destruct (hint_decode_total hs (zero_h K) Hl Hb Z1 Z2) as (h' & ok & E).
    destruct ok.
    - pose proof (proj1 (unpack_hint_strict hs h' Hl Hb) E) as Hs. split.
      + intros (h'' & E'). congruence.
      + congruence.
    - split; [intros _ | eauto].
      destruct (S_hint_unpack W K hs) as [h''|] eqn:Es; [|reflexivity].
      apply (unpack_hint_strict hs h'' Hl Hb) in Es. congruence.
  Qed.

  (** Soundness: what the decoder accepts is a canonical encoding: re-encoding the result gives back
      the bytes, the weight bound holds and the result is a well-formed 0/1 vector *)
  Theorem unpack_hint_accept_canonical hs h' :
    W + K <= zlen hs -> bytes hs ->
    hint_decode hs (zero_h K) = Ok (h', true) ->
    S_hint_pack W h' = firstn (Z.to_nat (W + K)) hs /\ hweight h' <= W /\ hint_wf K h'.
  Proof.
    intros Hl Hb E. apply unpack_hint_strict in E; try assumption.
    apply S_unpack_canonical in E; try assumption; lia.
  Qed.

  (** no two different accepted hint sections decode to the same vector *)
  Corollary unpack_hint_accept_injective hs1 hs2 h' :
    zlen hs1 = W + K -> zlen hs2 = W + K -> bytes hs1 -> bytes hs2 ->
    hint_decode hs1 (zero_h K) = Ok (h', true) -> hint_decode hs2 (zero_h K) = Ok (h', true) -> hs1 = hs2.
  Proof.
    intros L1 L2 B1 B2 E1 E2.
    apply unpack_hint_strict in E1; try assumption; try lia.
    apply unpack_hint_strict in E2; try assumption; try lia.
    apply (S_unpack_injective W K hs1 hs2 h'); auto; lia.
  Qed.

  (** Completeness: the encoding of any well-formed vector of weight <= W is accepted and decodes to it *)
  Theorem unpack_hint_complete hs h :
    W + K <= zlen hs -> bytes hs ->
    hint_wf K h -> hweight h <= W ->
    firstn (Z.to_nat (W + K)) hs = S_hint_pack W h ->
    hint_decode hs (zero_h K) = Ok (h, true).
  Proof.
    intros Hl Hb Hwf Hw E. apply unpack_hint_strict_firstn; try assumption.
    rewrite E. apply S_unpack_pack; try assumption. lia.
  Qed.
End Decode.

Lemma S_totals_bounds ps : forall k,
  Forall (fun x => k <= x <= k + zlen (concat ps)) (S_totals ps k).
Proof.
  induction ps as [|p ps IH]; intros k; [constructor|].
  cbn [S_totals concat]. rewrite zlen_app.
  pose proof (zlen_nonneg p). pose proof (zlen_nonneg (concat ps)).
  constructor; [lia|].
  eapply Forall_impl; [|apply IH]. cbn beta. intros x Hx. lia.
Qed.

Lemma S_hint_pack_length W K h :
  0 <= W -> hint_wf K h -> hweight h <= W -> zlen (S_hint_pack W h) = W + K.
Proof.
  intros HW [Hk Hf] Hw. unfold S_hint_pack.
  assert (H256 : Forall (fun r => length r = 256%nat) h).
  { apply Forall_forall. intros r Hr. exact (proj1 (proj1 (Forall_forall _ _) Hf r Hr)). }
  rewrite hweight_S_pos in Hw by exact H256.
  rewrite !zlen_app, zlen_repeatZ by lia. unfold zlen at 3. rewrite S_totals_length, map_length.
  unfold zlen in Hk. lia.
Qed.

Lemma S_hint_pack_bytes W h :
  0 <= W <= 255 -> Forall (fun r => length r = 256%nat) h -> hweight h <= W -> bytes (S_hint_pack W h).
Proof.
  intros HW H256 Hw. rewrite hweight_S_pos in Hw by exact H256.
  unfold S_hint_pack. apply Forall_app. split; [|apply Forall_app; split].
  - apply Forall_forall. intros x Hx. apply in_concat in Hx as (r & Hr & Hx).
    apply in_map_iff in Hr as (r0 & <- & _). exact (proj1 (Forall_forall _ _) (S_pos_bytes r0) x Hx).
  - apply Forall_forall. intros x Hx. unfold repeatZ in Hx. apply repeat_spec in Hx. subst x.
    unfold is_byte. lia.
  - eapply Forall_impl; [|apply S_totals_bounds]. cbn beta. intros x Hx. unfold is_byte. lia.
Qed.

(** the round trip on exactly W + K bytes *)
Corollary hint_decode_pack P h :
  0 <= pOMEGA P <= 255 -> hint_wf (pK P) h -> hweight h <= pOMEGA P ->
  hint_decode P (S_hint_pack (pOMEGA P) h) (zero_h (pK P)) = Ok (h, true).
Proof.
  intros HW Hwf Hw. pose proof (zlen_nonneg h) as H0. assert (HK : 0 <= pK P) by (destruct Hwf; lia).
  pose proof (S_hint_pack_length (pOMEGA P) (pK P) h ltac:(lia) Hwf Hw) as Hlen.
  apply unpack_hint_complete; try assumption; try lia.
  - apply S_hint_pack_bytes; try assumption.
    apply Forall_forall. intros r Hr. destruct Hwf as [_ Hf]. exact (proj1 (proj1 (Forall_forall _ _) Hf r Hr)).
  - apply firstn_all2. unfold zlen in Hlen. lia.
Qed.

(** * Part G: the hint part of [pack_sig] = Alg. 20 *)

Section PackLoops.
  Variables idx W : Z.
  Hypothesis HW : 0 <= W <= 255.

  Definition inner_step : list Z * Z -> Z -> res (list Z * Z) :=
    fun '(sig, k) j => do s <- set sig (idx + k) (u8 j); Ok (s, k + 1).

  Lemma pack_inner : forall js A n B k,
    zlen A = idx + k -> (length js <= n)%nat -> bytes js ->
    foldM inner_step js (A ++ repeat 0 n ++ B, k)
    = Ok ((A ++ js) ++ repeat 0 (n - length js) ++ B, k + zlen js).
  Proof.
    induction js as [|j js IH]; intros A n B k HA Hn Hb.
    - cbn [foldM length]. rewrite app_nil_r, Nat.sub_0_r, Z.add_0_r. reflexivity.
    - destruct n as [|n]; [cbn [length] in Hn; lia|].
      inversion Hb as [|? ? Hj Hb']; subst. unfold is_byte in Hj.
      cbn [foldM]. unfold inner_step at 1. cbn [repeat app].
      rewrite set_app_mid by lia. cbn [bind]. rewrite u8_small by lia.
      replace (A ++ j :: repeat 0 n ++ B) with ((A ++ [j]) ++ repeat 0 n ++ B)
        by (rewrite <- app_assoc; reflexivity).
      rewrite IH; [| rewrite zlen_app, zlen_cons; change (zlen (@nil Z)) with 0; lia
                   | cbn [length] in Hn; lia | exact Hb'].
      rewrite zlen_cons. cbn [length Nat.sub].
      replace ((A ++ [j]) ++ js) with (A ++ j :: js) by (rewrite <- app_assoc; reflexivity).
      f_equal. f_equal. lia.
  Qed.

  Definition outer_step (h : list (list Z)) : list Z * Z -> Z -> res (list Z * Z) :=
    fun '(sig, k) i =>
      do hi <- get h i;
      do '(sig, k) <- foldM (fun '(sig, k) j => do s <- set sig (idx + k) (u8 j); Ok (s, k + 1))
                            (hint_indices hi 0) (sig, k);
      do sig <- set sig (idx + W + i) (u8 k);
      Ok (sig, k).

  Lemma outer_step_eq h sig k i :
    outer_step h (sig, k) i =
    (do hi <- get h i;
     do '(sig, k) <- foldM inner_step (hint_indices hi 0) (sig, k);
     do sig <- set sig (idx + W + i) (u8 k);
     Ok (sig, k)).
  Proof. reflexivity. Qed.

  Definition HI (hi : list Z) : list Z := hint_indices hi 0.

  Lemma pack_outer h : forall hl hdone a k A n T m B,
    h = hdone ++ hl -> zlen hdone = a -> zlen A = idx + k -> 0 <= k -> k + Z.of_nat n = W -> zlen T = a ->
    Forall bytes (map HI hl) -> k + zlen (concat (map HI hl)) <= W -> m = length hl ->
    foldM (outer_step h) (zrange a (a + zlen hl)) (A ++ repeat 0 n ++ T ++ repeat 0 m ++ B, k)
    = Ok (A ++ concat (map HI hl) ++ repeat 0 (n - length (concat (map HI hl))) ++
          T ++ S_totals (map HI hl) k ++ B,
          k + zlen (concat (map HI hl))).
  Proof.
    induction hl as [|hi hl IH]; intros hdone a k A n T m B Hh Hd HA Hk Hn HT Hf Hw Hm.
    - change (zlen (@nil (list Z))) with 0. rewrite zrange_nil by lia. subst m.
      cbn [foldM map concat S_totals repeat app length]. rewrite Nat.sub_0_r.
      change (zlen (@nil Z)) with 0. rewrite Z.add_0_r. reflexivity.
    - pose proof (zlen_nonneg hl) as Hl0. pose proof (zlen_nonneg hdone) as Hd0. subst m.
      assert (Hget : get h a = Ok hi) by (rewrite Hh, <- Hd; apply get_app_mid).
      rewrite map_cons in Hf, Hw. rewrite concat_cons, zlen_app in Hw. rewrite !map_cons, !concat_cons.
      inversion Hf as [|? ? Hpb Hf']; subst.
      rewrite zlen_cons, zrange_cons by lia. cbn [foldM]. rewrite outer_step_eq, Hget. cbn [bind].
      change (hint_indices hi 0) with (HI hi).
      remember (HI hi) as p eqn:Ep. remember (concat (map HI hl)) as q eqn:Eq.
      pose proof (zlen_nonneg p) as Hp0. pose proof (zlen_nonneg q) as Hq0.
      assert (Hpn : (length p <= n)%nat) by (unfold zlen in Hw, Hp0, Hq0; lia).
      rewrite (pack_inner p A n (T ++ repeat 0 (length (hi :: hl)) ++ B) k HA Hpn Hpb).
      cbn [bind length repeat].
      replace ((A ++ p) ++ repeat 0 (n - length p) ++ T ++ (0 :: repeat 0 (length hl)) ++ B)
        with (((A ++ p) ++ repeat 0 (n - length p) ++ T) ++ 0 :: repeat 0 (length hl) ++ B)
        by (rewrite <- !app_assoc; reflexivity).
      rewrite set_app_mid.
      2:{ rewrite !zlen_app. unfold zlen in *. rewrite repeat_length. lia. }
      cbn [bind]. rewrite u8_small by lia.
      replace (((A ++ p) ++ repeat 0 (n - length p) ++ T) ++ (k + zlen p) :: repeat 0 (length hl) ++ B)
        with ((A ++ p) ++ repeat 0 (n - length p) ++ (T ++ [k + zlen p]) ++ repeat 0 (length hl) ++ B)
        by (rewrite <- !app_assoc; reflexivity).
      replace (zlen hdone + (1 + zlen hl)) with (zlen hdone + 1 + zlen hl) by lia.
      rewrite (IH (hdone ++ [hi]) (zlen hdone + 1) (k + zlen p) (A ++ p) (n - length p)%nat (T ++ [k + zlen p]) (length hl) B).
      + f_equal. f_equal; [|rewrite zlen_app; lia].
        rewrite <- !app_assoc. do 3 f_equal. rewrite app_length.
        replace (n - length p - length q)%nat with (n - (length p + length q))%nat by lia.
        reflexivity.
      + rewrite <- app_assoc. reflexivity.
      + rewrite zlen_app, zlen_cons. change (zlen (@nil (list Z))) with 0. lia.
      + rewrite zlen_app. lia.
      + lia.
      + unfold zlen in *. lia.
      + rewrite zlen_app, zlen_cons. change (zlen (@nil Z)) with 0. lia.
      + exact Hf'.
      + lia.
      + reflexivity.
  Qed.
End PackLoops.

(** offset of the hint section inside a signature *)
Definition hint_off (P : params) : Z := pCT P + pL P * pPOLYZ P.

Lemma map_HI_S_pos h : Forall (fun r => length r = 256%nat) h -> map HI h = map S_pos h.
Proof.
  intros Hf. apply map_ext_in. intros r Hr. unfold HI. apply hint_indices_S_pos.
  exact (proj1 (Forall_forall _ _) Hf r Hr).
Qed.

Section Pack.
  Variable P : params.

  (** the steps of [pack_sig] after the z part *)
  Definition pack_sig_tail (sig : list Z) (h : list (list Z)) : res (list Z) :=
    let idx := pCT P + pL P * pPOLYZ P in
    do sig <- splice sig idx (repeatZ 0 (pOMEGA P + pK P));
    do '(sig, _) <- foldM (fun '(sig, k) i =>
                       do hi <- get h i;
                       do '(sig, k) <- foldM (fun '(sig, k) j => do s <- set sig (idx + k) (u8 j); Ok (s, k + 1))
                                             (hint_indices hi 0) (sig, k);
                       do sig <- set sig (idx + pOMEGA P + i) (u8 k);
                       Ok (sig, k)) (zrange 0 (pK P)) (sig, 0);
    Ok sig.

  Lemma pack_sig_split sig c z h :
    pack_sig P sig c z h =
    (do sig0 <- match c with
                | Some ch => do cc <- slice_to ch (pCT P); splice sig 0 cc
                | None => Ok sig
                end;
     do sig1 <- foldM (fun sig i => do a <- get z i; do b <- z_pack_bytes (pGAMMA1 P) a;
                                    splice sig (pCT P + i * pPOLYZ P) b) (zrange 0 (pL P)) sig0;
     pack_sig_tail sig1 h).
  Proof. reflexivity. Qed.

  Lemma pack_sig_tail_eq sig h :
    pack_sig_tail sig h =
    (do sig <- splice sig (hint_off P) (repeatZ 0 (pOMEGA P + pK P));
     do '(sig, _) <- foldM (outer_step (hint_off P) (pOMEGA P) h) (zrange 0 (pK P)) (sig, 0);
     Ok sig).
  Proof. reflexivity. Qed.

  (** The hint section written by [pack_sig] is Alg. 20's output; every other byte is as after the z step *)
  Theorem pack_sig_hint_spec sig1 h :
    0 <= pOMEGA P <= 255 -> 0 <= hint_off P -> zlen h = pK P -> Forall (fun r => length r = 256%nat) h -> hweight h <= pOMEGA P ->
    hint_off P + pOMEGA P + pK P <= zlen sig1 ->
    pack_sig_tail sig1 h =
    Ok (firstn (Z.to_nat (hint_off P)) sig1 ++ S_hint_pack (pOMEGA P) h ++
        skipn (Z.to_nat (hint_off P + pOMEGA P + pK P)) sig1).
  Proof.
    intros HW Hi HK Hf Hw Hl. pose proof (zlen_nonneg h) as Hh0.
    rewrite hweight_S_pos in Hw by exact Hf.
    rewrite pack_sig_tail_eq.
    generalize dependent (hint_off P). generalize dependent (pOMEGA P). generalize dependent (pK P).
    intros K HK W HW Hw idx Hi Hl.
    unfold splice. rewrite zlen_repeatZ by lia.
    destruct (Z.leb_spec 0 idx); [|lia]. destruct (Z.leb_spec (idx + (W + K)) (zlen sig1)); [|lia].
    cbn [andb bind].
    set (A := firstn (Z.to_nat idx) sig1). set (B := skipn (Z.to_nat (idx + (W + K))) sig1).
    assert (HA : zlen A = idx + 0) by (unfold A, zlen in *; rewrite firstn_length; lia).
    unfold repeatZ. replace (Z.to_nat (W + K)) with (Z.to_nat W + length h)%nat by (unfold zlen in HK; lia).
    rewrite repeat_app, <- app_assoc.
    replace K with (0 + zlen h) at 1 by lia.
    assert (Hfb : Forall bytes (map HI h)).
    { rewrite map_HI_S_pos by exact Hf. apply Forall_forall. intros r Hr.
      apply in_map_iff in Hr as (r0 & <- & _). apply S_pos_bytes. }
    rewrite <- map_HI_S_pos in Hw by exact Hf.
    pose proof (pack_outer idx W HW h h [] 0 0 A (Z.to_nat W) [] (length h) B eq_refl eq_refl HA ltac:(lia) ltac:(lia)
                  eq_refl Hfb ltac:(lia) eq_refl) as HO.
    cbn [app] in HO. cbn [app]. rewrite HO. cbn [bind]. f_equal.
    rewrite map_HI_S_pos by exact Hf.
    unfold S_hint_pack, repeatZ. rewrite <- !app_assoc. f_equal. f_equal. f_equal.
    - f_equal. unfold zlen. lia.
    - f_equal. unfold B. f_equal. lia.
  Qed.

  (** the same statement about [pack_sig] itself, given that the c and z steps succeed with [sig1] *)
  Corollary pack_sig_hint_spec_full sig c z h sig0 sig1 :
    match c with
    | Some ch => do cc <- slice_to ch (pCT P); splice sig 0 cc
    | None => Ok sig
    end = Ok sig0 ->
    foldM (fun sig i => do a <- get z i; do b <- z_pack_bytes (pGAMMA1 P) a;
                        splice sig (pCT P + i * pPOLYZ P) b) (zrange 0 (pL P)) sig0 = Ok sig1 ->
    0 <= pOMEGA P <= 255 -> 0 <= hint_off P ->
    zlen h = pK P -> Forall (fun r => length r = 256%nat) h -> hweight h <= pOMEGA P ->
    hint_off P + pOMEGA P + pK P <= zlen sig1 ->
    pack_sig P sig c z h =
    Ok (firstn (Z.to_nat (hint_off P)) sig1 ++ S_hint_pack (pOMEGA P) h ++
        skipn (Z.to_nat (hint_off P + pOMEGA P + pK P)) sig1).
  Proof.
    intros E0 E1 HW Hi HK Hf Hw Hl. rewrite pack_sig_split, E0. cbn [bind]. rewrite E1. cbn [bind].
    apply pack_sig_hint_spec; assumption.
  Qed.
End Pack.

(** * Part H: packaging, the six parameter sets, and the dirty-h example *)
From DV Require Import MSign.

Lemma zero_h_zvec K : zero_h K = zvec K.
Proof. reflexivity. Qed.

Definition hint_param_sets : list params := [P_lvl2; P_lvl3; P_lvl5; P_ml44; P_ml65; P_ml87].

(** the arithmetic side conditions of the theorems hold for all six parameter sets *)
Lemma hint_side_conditions P :
  In P hint_param_sets ->
  0 <= pOMEGA P <= 255 /\ 0 < pK P /\ 0 <= hint_off P /\ pOMEGA P + pK P <= 255 /\
  hint_off P + pOMEGA P + pK P = pSIG P.
Proof.
  intros H. repeat (destruct H as [<-|H]; [vm_compute; repeat split; discriminate|]). destruct H.
Qed.

(** C03 (hint part), bundled *)
Theorem hint_decode_strict_bundle P hs :
  0 <= pOMEGA P <= 255 -> 0 <= pK P ->
  pOMEGA P + pK P <= zlen hs -> bytes hs ->
  let W := pOMEGA P in let K := pK P in
  (* never panics, whatever the bytes *)
  (exists h' ok, hint_decode P hs (zero_h K) = Ok (h', ok)) /\
  (* accepts exactly what Alg. 21 accepts, with the same result *)
  (forall h', hint_decode P hs (zero_h K) = Ok (h', true) <->
              S_hint_unpack W K (firstn (Z.to_nat (W + K)) hs) = Some h') /\
  (* accepted strings are canonical encodings *)
  (forall h', hint_decode P hs (zero_h K) = Ok (h', true) ->
              S_hint_pack W h' = firstn (Z.to_nat (W + K)) hs /\ hweight h' <= W /\ hint_wf K h').
Proof.
  intros HW HK Hl Hb W K. split; [|split].
  - destruct (zero_h_shape P HK) as [Z1 Z2]. apply hint_decode_total; assumption.
  - intros h'. apply unpack_hint_strict_firstn; assumption.
  - intros h'. apply unpack_hint_accept_canonical; assumption.
Qed.

(** at the level of [unpack_sig] as the verifier calls it (zero incoming vector): an accepted
    signature carries a canonical hint section *)
Theorem unpack_sig_hint_canonical P c z sig c' z' h' :
  0 <= pOMEGA P <= 255 -> 0 <= pK P -> 0 <= hint_off P ->
  zlen sig = hint_off P + pOMEGA P + pK P -> bytes sig ->
  unpack_sig P c z (zvec (pK P)) sig = Ok (c', z', h', true) ->
  let hs := skipn (Z.to_nat (hint_off P)) sig in
  S_hint_unpack (pOMEGA P) (pK P) hs = Some h' /\
  S_hint_pack (pOMEGA P) h' = hs /\ hweight h' <= pOMEGA P /\ hint_wf (pK P) h'.
Proof.
  intros HW HK Hi Hl Hb E hs. rewrite unpack_sig_hint_decode in E.
  destruct (slice_to sig (pCT P)) as [cc| |]; cbn [bind] in E; try discriminate.
  destruct (splice c 0 cc) as [c1| |]; cbn [bind] in E; try discriminate.
  destruct (for_idx (pL P) _ z) as [z1| |]; cbn [bind] in E; try discriminate.
  fold (hint_off P) in E. unfold slice_from in E.
  destruct (Z.leb_spec 0 (hint_off P)); [|lia]. destruct (Z.leb_spec (hint_off P) (zlen sig)); [|lia].
  cbn [andb bind] in E. fold hs in E.
  destruct (hint_decode P hs (zvec (pK P))) as [[h1 ok]| |] eqn:Ed; cbn [bind] in E; try discriminate.
  inversion E; subst. clear E.
  assert (Hhl : zlen hs = pOMEGA P + pK P) by (unfold hs, zlen in *; rewrite skipn_length; lia).
  assert (Hhb : bytes hs) by (apply (Forall_firstn_skipn _ (Z.to_nat (hint_off P)) sig Hb)).
  rewrite <- zero_h_zvec in Ed.
  pose proof (unpack_hint_accept_canonical P HW HK hs h' ltac:(lia) Hhb Ed) as (C1 & C2 & C3).
  rewrite firstn_all2 in C1 by (unfold zlen in *; lia).
  split; [|auto]. apply unpack_hint_strict; try assumption. lia.
Qed.

(** Why the verifier must pass a zero vector: the decoder only ever SETS entries to 1
    ([hint_decode_char]: the result is [apply_rows h0 rows]), so anything already set in the incoming
    vector survives. Same all-zero signature bytes, two different incoming vectors, two different
    (both "accepted") results. *)
Definition dirty_h : list (list Z) :=
  (repeat 0 7 ++ [1] ++ repeat 0 248) :: repeat (repeat 0 256%nat) 3.

Example unpack_sig_dirty_h :
  let sig := repeatZ 0 (pSIG P_lvl2) in
  exists c z,
    unpack_sig P_lvl2 (repeatZ 0 32) (zvec 4) (zvec 4) sig = Ok (c, z, zvec 4, true) /\
    unpack_sig P_lvl2 (repeatZ 0 32) (zvec 4) dirty_h sig = Ok (c, z, dirty_h, true) /\
    dirty_h <> zvec 4.
Proof.
  vm_compute. eexists. eexists. split; [reflexivity|]. split; [reflexivity|]. discriminate.
Qed.

(** Non-vacuity / sanity of the specification functions on a small instance (W = 4, K = 2):
    h0 has ones at 3 and 200, h1 has a one at 0. *)
Definition ex_h : list (list Z) := [S_ind [3; 200]; S_ind [0]].
Example S_hint_examples :
  S_hint_pack 4 ex_h = [3; 200; 0; 0; 2; 3] /\
  S_hint_unpack 4 2 [3; 200; 0; 0; 2; 3] = Some ex_h /\
  S_hint_unpack 4 2 [200; 3; 0; 0; 2; 3] = None /\      (* indices not increasing *)
  S_hint_unpack 4 2 [3; 3; 0; 0; 2; 3] = None /\        (* repeated index *)
  S_hint_unpack 4 2 [3; 200; 0; 7; 2; 3] = None /\      (* non-zero padding *)
  S_hint_unpack 4 2 [3; 200; 0; 0; 3; 2] = None /\      (* running total decreases *)
  S_hint_unpack 4 2 [3; 200; 0; 0; 2; 5] = None /\      (* running total above W *)
  S_hint_unpack 4 2 [0; 0; 0; 0; 0; 1] = Some [S_ind []; S_ind [0]] /\  (* index 0 is a real index *)
  S_hint_unpack 4 2 [0; 0; 0; 0; 0; 2] = None /\
  hweight ex_h = 3 /\ hint_wf 2 ex_h.
Proof.
  do 10 (split; [vm_compute; reflexivity|]).
  split; [vm_compute; reflexivity|].
  unfold ex_h. repeat (apply Forall_cons; [apply S_ind_binary|]). apply Forall_nil.
Qed.

(** the model agrees on the same small instance (a crafted parameter record with W = 4, K = 2) *)
Definition P_tiny := {| pK := 2; pL := 0; pETA := 2; pTAU := 1; pBETA := 1; pGAMMA1 := 131072; pG88 := true;
                        pOMEGA := 4; pCT := 0; pTR := 32; pMLDSA := false |}.
Example hint_decode_examples :
  hint_decode P_tiny [3; 200; 0; 0; 2; 3] (zero_h 2) = Ok (ex_h, true) /\
  (exists h, hint_decode P_tiny [200; 3; 0; 0; 2; 3] (zero_h 2) = Ok (h, false)) /\
  (exists h, hint_decode P_tiny [3; 200; 0; 7; 2; 3] (zero_h 2) = Ok (h, false)) /\
  (exists h, hint_decode P_tiny [3; 200; 0; 0; 3; 2] (zero_h 2) = Ok (h, false)) /\
  (exists h, hint_decode P_tiny [3; 200; 0; 0; 2; 255] (zero_h 2) = Ok (h, false)) /\
  pack_sig_tail P_tiny [9; 9; 9; 9; 9; 9; 9] ex_h = Ok [3; 200; 0; 0; 2; 3; 9].
Proof.
  split; [vm_compute; reflexivity|].
  do 4 (split; [vm_compute; eexists; reflexivity|]). vm_compute. reflexivity.
Qed.

Print Assumptions pack_sig_hint_spec.
Print Assumptions pack_sig_hint_spec_full.
Print Assumptions hint_decode_total.
Print Assumptions unpack_hint_strict.
Print Assumptions unpack_hint_strict_firstn.
Print Assumptions unpack_hint_reject.
Print Assumptions unpack_hint_accept_canonical.
Print Assumptions unpack_hint_accept_injective.
Print Assumptions unpack_hint_complete.
Print Assumptions hint_decode_pack.
Print Assumptions S_unpack_canonical.
Print Assumptions S_unpack_pack.
Print Assumptions hint_decode_strict_bundle.
Print Assumptions unpack_sig_hint_canonical.
Print Assumptions hint_side_conditions.
Print Assumptions unpack_sig_dirty_h.
