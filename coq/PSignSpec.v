(** PSignSpec: property C05 -- signing is the specification's function of key, message and randomness.

    For the six parameter sets, every secret key of the right length whose decoded s2 is within +-eta (every key that
    key generation produces), every message M' and every mode,
        signature P sig0 M' sk rand tape = Ok (sig, tape')  ->  S_sign P sk M' rnd sig
    where [S_sign] transcribes CRYSTALS-Dilithium 3.1 Sign (P_lvl2/3/5) / FIPS 204 Algorithm 7 ML-DSA.Sign_internal
    (P_ml44/65/87) and rnd is [None] (deterministic) or [Some] of the bytes drawn from the tape.

    1. the specification: [S_ExpandMask], [S_w], [S_cmul], [S_attempt] (one iteration of the loop of Alg. 7, with the
       attempt counter explicit and its outcome: rejected, or the encoded signature), [S_sign] (the output of the first
       attempt that is not rejected), [S_attempt_functional], [S_sign_functional];
    2. scalar facts: [inf_norm_centered] (i), [lowbits_test_equiv] (ii), [hint_is_spec] (iv);
    3. [norm_cs] (iii): the centred coefficients of c * s in R_q are bounded by tau * eta;
    4. the meaning of the stages of one attempt, accepted or rejected ([stage_z], [stage_w0], [stage_ct0], [stage_hint]);
    5. [attempt_outcome_spec]: the code's outcome of one attempt is the specification's outcome;
    6. the loop, [sign_spec], and the corollaries [sign_spec_keygen], [sign_spec_deterministic],
       [sign_spec_randomized], [dil_sign_spec], [ml_sign_spec], [ml_prehash_sign_spec]. *)
From Coq Require Import Setoid Morphisms.
From DV Require Import Base Gen MReduce MRounding MParams MKeccak MNtt MPoly MPolyvec MPacking MSign MSha2 MApi
                       SKeccak PKeccak PSample PPack PPack2 PReduce PNtt PNtt2 PRounding PNorm PLift PTape PBridge
                       PSignStruct PFrame PHint PKeyCodec PTotal PRing PKeygen PTotalClosed PVerifySpec PSignTotal
                       PSignVerify.
Local Ltac Zify.zify_post_hook ::= Z.div_mod_to_equations.

(** * 0. Vectors of polynomials, index by index *)

Definition pzip (f : Z -> Z -> Z) (a b : list Z) : list Z := map (fun p => f (fst p) (snd p)) (combine a b).
Definition vzip (f : Z -> Z -> Z) (u v : list (list Z)) : list (list Z) :=
  map (fun p => pzip f (fst p) (snd p)) (combine u v).
Definition vmap (f : Z -> Z) (v : list (list Z)) : list (list Z) := map (map f) v.

(** coefficient k of row r *)
Definition vnth (v : list (list Z)) (r k : nat) : Z := nth k (nth r v []) 0.
(** n rows of 256 coefficients *)
Definition vshape (n : nat) (v : list (list Z)) : Prop := length v = n /\ Forall (fun a => length a = 256%nat) v.

Lemma vshape_row n v r : vshape n v -> (r < n)%nat -> length (nth r v []) = 256%nat.
Proof.
  intros (L & F) Hr. rewrite Forall_forall in F. apply F. apply nth_In. lia.
Qed.

Lemma vshape_nth_error n v r a : vshape n v -> nth_error v r = Some a -> (r < n)%nat /\ length a = 256%nat /\ nth r v [] = a.
Proof.
  intros (L & F) H. split; [rewrite <- L; apply nth_error_Some; congruence|].
  rewrite Forall_forall in F. split; [apply F; exact (nth_error_In _ _ H) | exact (nth_error_nth v r [] H)].
Qed.

Lemma vshape_get n v r : vshape n v -> (r < n)%nat -> nth_error v r = Some (nth r v []).
Proof. intros (L & _) Hr. apply nth_error_nth'. lia. Qed.

Lemma pzip_length f a b : length a = length b -> length (pzip f a b) = length a.
Proof. intros L. unfold pzip. rewrite map_length, combine_length. lia. Qed.

Lemma pzip_nth f : forall a b k, length a = length b -> (k < length a)%nat ->
  nth k (pzip f a b) 0 = f (nth k a 0) (nth k b 0).
Proof.
  unfold pzip. induction a as [|x a IH]; intros [|y b] k L Hk; cbn [length] in *; try lia.
  destruct k as [|k]; cbn [combine map nth fst snd]; [reflexivity|]. apply IH; lia.
Qed.

Lemma vzip_shape f n u v : vshape n u -> vshape n v -> vshape n (vzip f u v).
Proof.
  intros (Lu & Fu) (Lv & Fv). split.
  - unfold vzip. rewrite map_length, combine_length. lia.
  - unfold vzip. apply Forall_forall. intros x Hx. apply in_map_iff in Hx as ((a & b) & <- & Hab).
    cbn [fst snd]. rewrite Forall_forall in Fu, Fv. rewrite pzip_length.
    + exact (Fu a (in_combine_l _ _ _ _ Hab)).
    + rewrite (Fu a (in_combine_l _ _ _ _ Hab)), (Fv b (in_combine_r _ _ _ _ Hab)). reflexivity.
Qed.

Lemma nth_combine_d {A B} (da : A) (db : B) : forall (a : list A) (b : list B) r, length a = length b -> (r < length a)%nat ->
  nth r (combine a b) (da, db) = (nth r a da, nth r b db).
Proof.
  induction a as [|x a IH]; intros [|y b] r L Hr; cbn [length] in *; try lia.
  destruct r as [|r]; cbn [combine nth]; [reflexivity|]. apply IH; lia.
Qed.

Lemma vzip_nth f n u v r k : vshape n u -> vshape n v -> (r < n)%nat -> (k < 256)%nat ->
  vnth (vzip f u v) r k = f (vnth u r k) (vnth v r k).
Proof.
  intros Hu Hv Hr Hk. unfold vnth, vzip.
  assert (E : nth r (map (fun p => pzip f (fst p) (snd p)) (combine u v)) []
              = pzip f (nth r u []) (nth r v [])).
  { rewrite (nth_indep _ [] (pzip f (fst (@nil Z, @nil Z)) (snd (@nil Z, @nil Z))))
      by (rewrite map_length, combine_length; destruct Hu, Hv; lia).
    rewrite (map_nth (fun p => pzip f (fst p) (snd p))).
    rewrite nth_combine_d by (destruct Hu, Hv; lia). reflexivity. }
  rewrite E. pose proof (vshape_row n u r Hu Hr). pose proof (vshape_row n v r Hv Hr).
  apply pzip_nth; lia.
Qed.

Lemma vmap_shape f n v : vshape n v -> vshape n (vmap f v).
Proof.
  intros (L & F). split; [unfold vmap; rewrite map_length; exact L|].
  unfold vmap. apply Forall_forall. intros x Hx. apply in_map_iff in Hx as (a & <- & Ha).
  rewrite map_length. rewrite Forall_forall in F. exact (F a Ha).
Qed.

Lemma vmap_nth f n v r k : vshape n v -> (r < n)%nat -> (k < 256)%nat -> vnth (vmap f v) r k = f (vnth v r k).
Proof.
  intros Hv Hr Hk. unfold vnth, vmap.
  rewrite (nth_indep _ [] (map f [])) by (rewrite map_length; destruct Hv; lia).
  rewrite (map_nth (map f)).
  rewrite (nth_indep _ 0 (f 0)) by (rewrite map_length, (vshape_row n v r Hv Hr); exact Hk).
  apply (map_nth f).
Qed.

Lemma vshape_ext n u v : vshape n u -> vshape n v ->
  (forall r k, (r < n)%nat -> (k < 256)%nat -> vnth u r k = vnth v r k) -> u = v.
Proof.
  intros Hu Hv H. apply (nth_ext u v [] []); [destruct Hu, Hv; lia|].
  intros r Hr. assert (Hr' : (r < n)%nat) by (destruct Hu; lia).
  apply (nth_ext _ _ 0 0).
  - rewrite (vshape_row n u r Hu Hr'), (vshape_row n v r Hv Hr'). reflexivity.
  - intros k Hk. rewrite (vshape_row n u r Hu Hr') in Hk. exact (H r k Hr' Hk).
Qed.

Lemma S_norm_lt_iff n v B : vshape n v ->
  (S_norm_lt v B = true <-> forall r k, (r < n)%nat -> (k < 256)%nat -> Z.abs (vnth v r k) < B).
Proof.
  intros Hv. unfold S_norm_lt. split.
  - intros H r k Hr Hk. rewrite forallb_forall in H.
    assert (Ha : In (nth r v []) v) by (apply nth_In; destruct Hv; lia).
    pose proof (H _ Ha) as H1. rewrite forallb_forall in H1.
    apply Z.ltb_lt. apply H1. apply nth_In. rewrite (vshape_row n v r Hv Hr). exact Hk.
  - intros H. apply forallb_forall. intros a Ha. apply forallb_forall. intros x Hx. apply Z.ltb_lt.
    apply (In_nth _ _ []) in Ha as (r & Hr & <-). apply (In_nth _ _ 0) in Hx as (k & Hk & <-).
    assert (Hr' : (r < n)%nat) by (destruct Hv; lia).
    rewrite (vshape_row n v r Hv Hr') in Hk. exact (H r k Hr' Hk).
Qed.

Lemma bool_ext (a b : bool) : (a = true <-> b = true) -> a = b.
Proof. destruct a, b; intros [H1 H2]; try reflexivity; [symmetry; apply H1 | apply H2]; reflexivity. Qed.

Lemma S_norm_lt_ext n u v B : vshape n u -> vshape n v ->
  (forall r k, (r < n)%nat -> (k < 256)%nat -> (Z.abs (vnth u r k) < B <-> Z.abs (vnth v r k) < B)) ->
  S_norm_lt u B = S_norm_lt v B.
Proof.
  intros Hu Hv H. apply bool_ext. rewrite (S_norm_lt_iff n u B Hu), (S_norm_lt_iff n v B Hv).
  split; intros G r k Hr Hk; apply (H r k Hr Hk); exact (G r k Hr Hk).
Qed.

(** * 1. The specification *)

(** ExpandMask (FIPS 204 Alg. 34; Dilithium 3.1 ExpandMask): y_i = BitUnpack(H(rho'' || IntegerToBytes(L kappa + i, 2), 32 c),
    gamma1 - 1, gamma1) for i = 0..L-1, where kappa counts the attempts (the standard's counter advances by L). *)
Definition S_ExpandMask (P : params) (rpp : list Z) (kappa : Z) : list (list Z) :=
  map (fun i => BitUnpack (S_shake 136 (rpp ++ I2B2 (pL P * kappa + i)) (Z.to_nat (pPOLYZ P)))
                          (pGAMMA1 P - 1) (pGAMMA1 P))
      (zrange 0 (pL P)).

(** w = NTT^-1(A^ o NTT(y)), coefficients in [0, Q):  NTT(w_r) = sum_j A^[r,j] o NTT(y_j) *)
Definition S_w (A : list (list (list Z))) (y w : list (list Z)) : Prop :=
  length w = length A /\
  forall r row wr, nth_error A r = Some row -> nth_error w r = Some wr ->
    prng 0 Q wr /\ forall i, (i < 256)%nat -> eqm (eval wr (root i)) (matrow_ntt row y i).

(** <<c s>> = NTT^-1(NTT(c) o NTT(s)), the product in R_q with coefficients in [0, Q), component by component *)
Definition S_cmul (c : list Z) (s u : list (list Z)) : Prop :=
  length u = length s /\
  forall r sr ur, nth_error s r = Some sr -> nth_error u r = Some ur ->
    prng 0 Q ur /\ forall i, (i < 256)%nat -> eqm (eval ur (root i)) (eval c (root i) * eval sr (root i)).

(** what one pass through the loop of Alg. 7 yields *)
Inductive S_outcome := S_reject | S_output (sig : list Z).

(** One iteration of the loop of ML-DSA.Sign_internal (Alg. 7 lines 11-30) / Dilithium 3.1 Sign (Fig. 4 lines 12-24),
    attempt number kappa.  [cmod x Q] is x mod+- q. *)
Definition S_attempt (P : params) (A : list (list (list Z))) (s1 s2 t0 : list (list Z)) (mu rpp : list Z)
           (kappa : Z) (o : S_outcome) : Prop :=
  let g := pG88 P in
  let y := S_ExpandMask P rpp kappa in                                          (* y = ExpandMask(rho'', kappa) *)
  exists w c cs1 cs2 ct0,
    S_w A y w /\                                                                (* w = NTT^-1(A^ o NTT(y)) *)
    let w1 := vmap (S_highbits g) w in                                          (* w1 = HighBits(w) *)
    let ctilde := S_shake 136 (mu ++ S_w1Encode g w1) (Z.to_nat (pCT P)) in    (* c~ = H(mu || w1Encode(w1)) *)
    S_SampleInBall (pTAU P) ctilde c /\                                         (* c = SampleInBall(c~) *)
    S_cmul c s1 cs1 /\ S_cmul c s2 cs2 /\ S_cmul c t0 ct0 /\                    (* <<c s1>>, <<c s2>>, <<c t0>> *)
    let z := vzip (fun a b => cmod (a + b) Q) y cs1 in                          (* z = y + <<c s1>>  (mod+- q) *)
    let r := vzip Z.sub w cs2 in                                                (* w - <<c s2>> *)
    let r0 := vmap (S_lowbits g) r in                                           (* r0 = LowBits(w - <<c s2>>) *)
    let h := vzip (fun t x => S_make_hint g (- t) (x + t)) ct0 r in             (* h = MakeHint(-<<c t0>>, w - <<c s2>> + <<c t0>>) *)
    o = if S_norm_lt z (pGAMMA1 P - pBETA P) && S_norm_lt r0 (pGAMMA2 P - pBETA P)
        then if S_norm_lt (vmap (fun x => cmod x Q) ct0) (pGAMMA2 P) && (hint_weight h <=? pOMEGA P)
             then S_output (S_sigEncode P ctilde z h)                           (* sigEncode(c~, z mod+- q, h) *)
             else S_reject                                                      (* ||<<c t0>>|| >= gamma2 or too many hints *)
        else S_reject.                                                          (* ||z|| >= gamma1 - beta or ||r0|| >= gamma2 - beta *)

(** rho'' (Alg. 7 line 7): H(K || rnd || mu, 64) with rnd = 32 zero bytes in the deterministic variant;
    Dilithium 3.1: rho' = H(K || mu, 64), or 64 random bytes in the randomized variant. *)
Definition S_rhopp (P : params) (K : list Z) (rnd : option (list Z)) (mu : list Z) : list Z :=
  if pMLDSA P then S_shake 136 (K ++ (match rnd with Some r => r | None => repeatZ 0 32 end) ++ mu) 64
  else match rnd with Some r => r | None => S_shake 136 (K ++ mu) 64 end.

(** Sign: the output of the first attempt kappa = 0, 1, 2, ... that is not rejected.  [m] is the formatted message M'. *)
Definition S_sign (P : params) (sk m : list Z) (rnd : option (list Z)) (sig : list Z) : Prop :=
  match S_skDecode (pETA P) (pK P) (pL P) (pTR P) sk with
  | (rho, K, tr, s1, s2, t0) =>                                                 (* skDecode(sk) *)
    exists A, S_expandA P rho A /\                                              (* A^ = ExpandA(rho) *)
      let mu := S_shake 136 (tr ++ m) 64 in                                     (* mu = H(tr || M', 64) *)
      let rpp := S_rhopp P K rnd mu in                                          (* rho'' *)
      exists n : nat,
        (forall k, (k < n)%nat -> S_attempt P A s1 s2 t0 mu rpp (Z.of_nat k) S_reject) /\
        S_attempt P A s1 s2 t0 mu rpp (Z.of_nat n) (S_output sig)
  end.

(** ** the specification is functional *)

Lemma canon_rows_eq a b : prng 0 Q a -> prng 0 Q b ->
  (forall i, (i < 256)%nat -> eqm (eval a (root i)) (eval b (root i))) -> a = b.
Proof.
  intros (La & Fa) (Lb & Fb) H. apply canon_eq; try assumption. exact (ntt_inj a b La Lb H).
Qed.

Lemma S_w_unique A y w w' : S_w A y w -> S_w A y w' -> w = w'.
Proof.
  intros (L & H) (L' & H'). apply list_eq_nth_error; [congruence|].
  intros r wr wr' Hr Hr'.
  assert (Hlt : (r < length A)%nat) by (rewrite <- L; apply nth_error_Some; congruence).
  destruct (nth_error A r) as [row|] eqn:Hrow; [|apply nth_error_None in Hrow; lia].
  destruct (H r row wr Hrow Hr) as (R & C). destruct (H' r row wr' Hrow Hr') as (R' & C').
  apply canon_rows_eq; try assumption. intros i Hi. rewrite (C i Hi), (C' i Hi). reflexivity.
Qed.

Lemma S_cmul_unique c s u u' : S_cmul c s u -> S_cmul c s u' -> u = u'.
Proof.
  intros (L & H) (L' & H'). apply list_eq_nth_error; [congruence|].
  intros r ur ur' Hr Hr'.
  assert (Hlt : (r < length s)%nat) by (rewrite <- L; apply nth_error_Some; congruence).
  destruct (nth_error s r) as [sr|] eqn:Hsr; [|apply nth_error_None in Hsr; lia].
  destruct (H r sr ur Hsr Hr) as (R & C). destruct (H' r sr ur' Hsr Hr') as (R' & C').
  apply canon_rows_eq; try assumption. intros i Hi. rewrite (C i Hi), (C' i Hi). reflexivity.
Qed.

(** <<c s>> exists for every c and s (the NTT is onto) *)
Lemma S_cmul_exists c : forall s, exists u, S_cmul c s u.
Proof.
  induction s as [|sr s (u & L & H)].
  - exists []. split; [reflexivity|]. intros r sr ur Hs. destruct r; discriminate.
  - destruct (ntt_surj (map (fun i => eval c (root i) * eval sr (root i)) (seq 0 256))
                ltac:(rewrite map_length, seq_length; reflexivity)) as (a & Ra & Ca).
    exists (a :: u). split; [cbn [length]; congruence|].
    intros [|r] sr' ur Hs Hu; cbn [nth_error] in Hs, Hu.
    + injection Hs as <-. injection Hu as <-. split; [exact Ra|]. intros i Hi.
      rewrite (Ca i Hi). rewrite (nth_map_seq (fun i => eval c (root i) * eval sr (root i)) 256 i Hi). reflexivity.
    + exact (H r sr' ur Hs Hu).
Qed.

Lemma S_cmul_shape c s u : S_cmul c s u -> vshape (length s) u.
Proof.
  intros (L & H). split; [exact L|]. apply Forall_forall. intros a Ha. apply In_nth_error in Ha as (r & Hr).
  assert (Hlt : (r < length s)%nat) by (rewrite <- L; apply nth_error_Some; congruence).
  destruct (nth_error s r) as [sr|] eqn:Hsr; [|apply nth_error_None in Hsr; lia].
  exact (proj1 (proj1 (H r sr a Hsr Hr))).
Qed.

Lemma S_w_shape A y w : S_w A y w -> vshape (length A) w.
Proof.
  intros (L & H). split; [exact L|]. apply Forall_forall. intros a Ha. apply In_nth_error in Ha as (r & Hr).
  assert (Hlt : (r < length A)%nat) by (rewrite <- L; apply nth_error_Some; congruence).
  destruct (nth_error A r) as [row|] eqn:Hrow; [|apply nth_error_None in Hrow; lia].
  exact (proj1 (proj1 (H r row a Hrow Hr))).
Qed.

Theorem S_attempt_functional P A s1 s2 t0 mu rpp kappa o o' :
  S_attempt P A s1 s2 t0 mu rpp kappa o -> S_attempt P A s1 s2 t0 mu rpp kappa o' -> o = o'.
Proof.
  unfold S_attempt. cbv zeta.
  intros (w & c & cs1 & cs2 & ct0 & Hw & Hc & H1 & H2 & H0 & ->)
         (w' & c' & cs1' & cs2' & ct0' & Hw' & Hc' & H1' & H2' & H0' & ->).
  pose proof (S_w_unique _ _ _ _ Hw Hw') as <-.
  pose proof (S_SampleInBall_unique _ _ _ _ Hc Hc') as <-.
  pose proof (S_cmul_unique _ _ _ _ H1 H1') as <-.
  pose proof (S_cmul_unique _ _ _ _ H2 H2') as <-.
  pose proof (S_cmul_unique _ _ _ _ H0 H0') as <-.
  reflexivity.
Qed.

Theorem S_sign_functional P sk m rnd sig sig' : S_sign P sk m rnd sig -> S_sign P sk m rnd sig' -> sig = sig'.
Proof.
  unfold S_sign. destruct (S_skDecode (pETA P) (pK P) (pL P) (pTR P) sk) as [[[[[rho K] tr] s1] s2] t0].
  cbv zeta. intros (A & HA & n & Hrej & Hout) (A' & HA' & n' & Hrej' & Hout').
  pose proof (S_expandA_unique _ _ _ _ HA HA') as <-.
  destruct (Nat.lt_trichotomy n n') as [Hlt | [<- | Hgt]].
  - pose proof (S_attempt_functional _ _ _ _ _ _ _ _ _ _ Hout (Hrej' n Hlt)). discriminate.
  - pose proof (S_attempt_functional _ _ _ _ _ _ _ _ _ _ Hout Hout') as E. injection E as <-. reflexivity.
  - pose proof (S_attempt_functional _ _ _ _ _ _ _ _ _ _ Hout' (Hrej n' Hgt)). discriminate.
Qed.

(** * 2. Scalar facts about mod+- q and Decompose *)

Lemma cmod_eqm x y : eqm x y -> cmod x Q = cmod y Q.
Proof. unfold eqm, cmod. cbv zeta. intros ->. reflexivity. Qed.

Lemma cmod_small x : Z.abs x <= 4190208 -> cmod x Q = x.
Proof.
  intros H. unfold cmod. cbv zeta. change (Q / 2) with 4190208. unfold Q in *.
  destruct (Z.leb_spec (x mod 8380417) 4190208); lia.
Qed.

Lemma cmod_range x : Z.abs (cmod x Q) <= 4190208 /\ eqm (cmod x Q) x.
Proof.
  unfold cmod, eqm. cbv zeta. change (Q / 2) with 4190208. unfold Q in *.
  destruct (Z.leb_spec (x mod 8380417) 4190208); split; lia.
Qed.

(** (i) the code tests reduce32 outputs, the specification tests centred representatives: for bounds up to (q-1)/8
    the two tests agree *)
Lemma inf_norm_centered x B : -6291200 <= x <= 6283008 -> B <= 1047552 ->
  (Z.abs x < B <-> Z.abs (cmod x Q) < B).
Proof.
  intros Hx HB. unfold cmod. cbv zeta. change (Q / 2) with 4190208. unfold Q in *.
  destruct (Z.leb_spec (x mod 8380417) 4190208); lia.
Qed.

(** a passing coefficient is its own centred representative *)
Lemma pass_centered x B : B <= 1047552 -> Z.abs x < B -> cmod x Q = x.
Proof. intros HB Hx. apply cmod_small. lia. Qed.

Lemma gamma2_facts g : 0 < GAMMA2 g <= 261888 /\ ALPHA g = 2 * GAMMA2 g /\ Q - 1 = MM g * ALPHA g.
Proof. destruct g; unfold GAMMA2, ALPHA, MM, Q; cbn; lia. Qed.

(** (ii) the low-bits test.  a = w coefficient in [0,Q) with Decompose(a) = (w0, w1); e = a coefficient of c s2 with
    |e| <= beta.  The code tests |w0 - e|, the specification tests |LowBits(a - e)|; they agree, and when they pass,
    Decompose(a - e) = (w0 - e, w1)   (Dilithium, Lemma 2 / Lemma 3). *)
Lemma lowbits_test_equiv g a e beta B : 0 <= a < Q -> Z.abs e <= beta -> 0 < B -> B + beta <= GAMMA2 g ->
  let w0 := S_lowbits g a in let w1 := S_highbits g a in
  (Z.abs (w0 - e) < B <-> Z.abs (S_lowbits g (a - e)) < B) /\
  (Z.abs (w0 - e) < B -> S_decompose g (a - e) = (w0 - e, w1)).
Proof.
  intros Ha He HB HBb w0 w1.
  destruct (gamma2_facts g) as (HG & HAl & HQ).
  assert (Ed : D g a = (w0, w1)).
  { unfold w0, w1, S_lowbits, S_highbits. rewrite (S_decompose_D g a Ha). destruct (D g a); reflexivity. }
  destruct (D_facts g a w0 w1 Ha Ed) as (R1 & C & R0 & _).
  assert (Hv : 0 <= (a - e) mod Q < Q) by (apply Z.mod_pos_bound; unfold Q; lia).
  assert (Fwd : Z.abs (w0 - e) < B -> S_decompose g (a - e) = (w0 - e, w1)).
  { intros Hp. rewrite S_decompose_mod. apply D_char; try assumption; try lia.
    apply eqm_sub0. rewrite eqm_mod. apply eqm_sub0 in C. rewrite <- C. apply eqm_eq. ring. }
  split; [|exact Fwd]. split.
  - intros Hp. unfold S_lowbits. rewrite (Fwd Hp). exact Hp.
  - intros Hp. unfold S_lowbits in Hp. rewrite S_decompose_mod in Hp.
    destruct (D g ((a - e) mod Q)) as [r0 r1] eqn:Er. cbn [fst] in Hp.
    destruct (D_facts g _ r0 r1 Hv Er) as (S1 & C' & S0 & _).
    assert (E2 : D g a = (r0 + e, r1)).
    { apply D_char; try assumption; try lia.
      apply eqm_sub0. apply eqm_sub0 in C'. rewrite eqm_mod in C'.
      transitivity (a - e + e); [apply eqm_eq; ring|]. rewrite <- C'. apply eqm_eq. ring. }
    rewrite Ed in E2. injection E2 as E0 E1. lia.
Qed.

(** S_decompose, S_highbits, S_make_hint read their argument modulo q *)
Lemma S_decompose_eqm g x y : eqm x y -> S_decompose g x = S_decompose g y.
Proof. intros H. rewrite (S_decompose_mod g x), (S_decompose_mod g y). unfold eqm in H. rewrite H. reflexivity. Qed.

Lemma S_make_hint_eqm g z z' r r' : eqm z z' -> eqm r r' -> S_make_hint g z r = S_make_hint g z' r'.
Proof.
  intros Hz Hr. unfold S_make_hint, S_highbits.
  rewrite (S_decompose_eqm g r r' Hr), (S_decompose_eqm g (r + z) (r' + z')) by (rewrite Hz, Hr; reflexivity).
  reflexivity.
Qed.

(** (iv) the hint.  x = w0 - e passed the low-bits test, t = centred coefficient of c t0 passed the gamma2 test:
    the code's make_hint(x + t, w1) is the specification's MakeHint(-c t0, w - c s2 + c t0). *)
Lemma hint_is_spec g a e x t w1 B : S_decompose g (a - e) = (x, w1) -> Z.abs x < B -> B <= GAMMA2 g ->
  Z.abs t < GAMMA2 g ->
  make_hint g (x + t) w1 = Ok (S_make_hint g (- t) (a - e + t)).
Proof.
  intros Ed Hx HB Ht. destruct (gamma2_facts g) as (HG & HAl & _).
  replace (x + t) with (x - - t) by ring.
  apply make_hint_is_S_make_hint.
  - replace (a - e + t + - t) with (a - e) by ring. exact Ed.
  - lia.
Qed.

(** * 3. (iii) ||c s||_inf <= tau * eta *)

Definition sumabs (c : list Z) : Z := fold_right (fun x acc => Z.abs x + acc) 0 c.

Lemma sumabs_nonneg c : 0 <= sumabs c.
Proof. induction c as [|x c IH]; cbn [sumabs fold_right]; [lia|]. unfold sumabs in IH. lia. Qed.

Lemma sumabs_split n : forall c, sumabs (firstn n c) + sumabs (skipn n c) = sumabs c.
Proof.
  induction n as [|n IH]; intros [|x c]; cbn [firstn skipn sumabs fold_right]; try lia.
  specialize (IH c). unfold sumabs in IH. lia.
Qed.

Lemma sumabs_weight c : ternary c -> sumabs c = weight c.
Proof.
  intros T. induction T as [|x c Hx T IH]; [reflexivity|]. cbn [sumabs fold_right weight]. unfold sumabs in IH.
  rewrite IH. destruct Hx as [-> | [-> | ->]]; reflexivity.
Qed.

Section Conv.
  Variables (eta : Z) (b : list Z).
  Hypothesis Heta : 0 <= eta.
  Hypothesis Hb : forall j, Z.abs (nth j b 0) <= eta.

  (** coefficient m of the plain product only sees a_0 .. a_m *)
  Lemma pmul_low : forall a m, Z.abs (nth m (pmul a b) 0) <= eta * sumabs (firstn (S m) a).
  Proof.
    induction a as [|x a IH]; intros m.
    - cbn [pmul]. rewrite nth_nil. cbn. lia.
    - cbn [pmul]. rewrite nth_padd, nth_smul. cbn [firstn sumabs fold_right].
      pose proof (Hb m) as Bm. assert (Z.abs (x * nth m b 0) <= eta * Z.abs x) by (rewrite Z.abs_mul; nia).
      destruct m as [|m]; cbn [nth].
      + cbn [firstn fold_right]. lia.
      + specialize (IH m). unfold sumabs in IH. lia.
  Qed.

  Hypothesis Lb : (length b <= 256)%nat.

  (** coefficient 256 + m only sees a_(m+1) .. *)
  Lemma pmul_high : forall a m, Z.abs (nth (256 + m) (pmul a b) 0) <= eta * sumabs (skipn (S m) a).
  Proof.
    induction a as [|x a IH]; intros m.
    - cbn [pmul]. rewrite nth_nil. cbn. lia.
    - cbn [pmul]. rewrite nth_padd, nth_smul. rewrite (nth_overflow b) by lia. rewrite Z.mul_0_r, Z.add_0_l.
      cbn [skipn]. destruct m as [|m].
      + replace (256 + 0)%nat with (S 255) by lia. cbn [nth skipn].
        pose proof (pmul_low a 255) as H1. pose proof (sumabs_split 256 a) as H2.
        pose proof (sumabs_nonneg (skipn 256 a)). nia.
      + replace (256 + S m)%nat with (S (256 + m)) by lia. cbn [nth]. exact (IH m).
  Qed.

  Lemma negacyclic_coeff_bound a k : (k < 256)%nat ->
    Z.abs (nth k (negacyclic_mul a b) 0) <= eta * sumabs a.
  Proof.
    intros Hk. unfold negacyclic_mul. cbv zeta.
    rewrite nth_psub, nth_firstn_lt by exact Hk. rewrite nth_skipn_add.
    pose proof (pmul_low a k). pose proof (pmul_high a k). pose proof (sumabs_split (S k) a). lia.
  Qed.
End Conv.

(** the product in R_q of a challenge (ternary, tau non-zero coefficients) and a polynomial within +-eta has all its
    coefficients (as integers, the negacyclic convolution) within +- tau * eta *)
Theorem norm_cs c s tau eta k : ternary c -> weight c = tau -> 0 <= eta ->
  length s = 256%nat -> Forall (fun x => - eta <= x <= eta) s -> (k < 256)%nat ->
  Z.abs (nth k (negacyclic_mul c s) 0) <= tau * eta.
Proof.
  intros T W He Ls Fs Hk. rewrite <- W, <- (sumabs_weight c T), Z.mul_comm.
  apply negacyclic_coeff_bound; try assumption; [|lia].
  intros j. destruct (Nat.lt_ge_cases j (length s)) as [Hj|Hj].
  - rewrite Forall_forall in Fs. pose proof (Fs _ (nth_In s 0 Hj)). lia.
  - rewrite nth_overflow by lia. lia.
Qed.

(** ... and every vector with the same NTT as c * s agrees with it modulo q coefficient-wise *)
Lemma negacyclic_is_cmul c s u : length c = 256%nat -> length s = 256%nat -> length u = 256%nat ->
  (forall i, (i < 256)%nat -> eqm (eval u (root i)) (eval c (root i) * eval s (root i))) ->
  forall k, (k < 256)%nat -> eqm (nth k u 0) (nth k (negacyclic_mul c s) 0).
Proof.
  intros Lc Ls Lu H. apply ntt_inj; [exact Lu | apply negacyclic_mul_length; assumption|].
  intros i Hi. rewrite (H i Hi). symmetry. apply eval_negacyclic. exact (root_neg1 i Hi).
Qed.

(** * 4. The stages of one signing attempt, read in the specification's terms *)

Lemma pset_facts P : sign_pset_ok P ->
  1 <= pK P <= 8 /\ 1 <= pL P <= 7 /\ gamma1_ok P /\ 0 <= pCT P < 2 ^ 64 /\ 0 <= pOMEGA P <= 255 /\
  0 <= pTAU P <= 256 /\ 0 <= pBETA P /\ norm_bounds_ok P /\ pK P * pPOLYW1 P <= pSIG P /\
  0 < pGAMMA1 P <= 524288 /\ 0 < pGAMMA2 P <= 261888 /\ pGAMMA2 P = GAMMA2 (pG88 P).
Proof.
  intros ((HK & HL1 & HL7) & HK8 & Hg & HC & HO & HT & HB & NB & HW1 & _).
  repeat split; try lia; try assumption; try apply NB;
    try (destruct Hg as [E|E]; rewrite E; lia); try (unfold pGAMMA2; destruct (pG88 P); lia).
Qed.

Lemma S_decompose_range g a : 0 <= a < Q ->
  0 <= S_highbits g a < MM g /\ - GAMMA2 g <= S_lowbits g a <= GAMMA2 g.
Proof.
  intros Ha. unfold S_highbits, S_lowbits. rewrite (S_decompose_D g a Ha).
  destruct (D g a) as [a0 a1] eqn:E. destruct (D_facts g a a0 a1 Ha E) as (R1 & _ & R0 & _). cbn [fst snd]. lia.
Qed.

(** Decompose of one polynomial *)
Lemma decompose_row_ok g a : prng 0 Q a ->
  poly_decompose g a = Ok (map (S_lowbits g) a, map (S_highbits g) a).
Proof.
  intros (La & Fa). unfold poly_decompose.
  rewrite (mapM_ok (decompose g) (S_decompose g) a).
  - cbn [bind]. rewrite !map_map. reflexivity.
  - intros x Hx. rewrite Forall_forall in Fa.
    destruct (decompose_ok g x (Fa x Hx)) as (a0 & a1 & Ed & Es & _). rewrite Ed, Es. reflexivity.
Qed.

(** centred reading of a reduce32 output x that represents v modulo q *)
Lemma centred_scalar x v B : -6291200 <= x <= 6283008 -> B <= 1047552 -> eqm x v ->
  (Z.abs x < B <-> Z.abs (cmod v Q) < B) /\ (Z.abs x < B -> cmod v Q = x).
Proof.
  intros Hx HB E. rewrite <- (cmod_eqm x v E). split; [exact (inf_norm_centered x B Hx HB)|].
  intros Hp. exact (pass_centered x B HB Hp).
Qed.

(** the low-bits test, as the code sees it: x = reduce32(w0 - <<c s2>>), ecs = the coefficient of <<c s2>> *)
Lemma r0_scalar g a e' ecs x beta B : 0 <= a < Q -> Z.abs e' <= beta -> eqm ecs e' -> 0 < B -> B + beta <= GAMMA2 g ->
  -6291200 <= x <= 6283008 -> eqm x (S_lowbits g a - ecs) ->
  (Z.abs x < B <-> Z.abs (S_lowbits g (a - ecs)) < B) /\
  (Z.abs x < B -> S_decompose g (a - ecs) = (x, S_highbits g a)).
Proof.
  intros Ha He Ee HB HBb Hx Ex.
  destruct (gamma2_facts g) as (HG & _). destruct (S_decompose_range g a Ha) as (_ & R0).
  assert (HB' : B <= 1047552) by lia.
  assert (Ex' : eqm x (S_lowbits g a - e')) by (rewrite Ex, Ee; reflexivity).
  destruct (centred_scalar x _ B Hx HB' Ex') as (I1 & I2).
  rewrite (cmod_small (S_lowbits g a - e')) in I1, I2 by lia.
  destruct (lowbits_test_equiv g a e' beta B Ha He HB HBb) as (J1 & J2). cbv zeta in J1, J2.
  assert (Ed : S_decompose g (a - ecs) = S_decompose g (a - e')) by (apply S_decompose_eqm; rewrite Ee; reflexivity).
  assert (El : S_lowbits g (a - ecs) = S_lowbits g (a - e')) by (unfold S_lowbits; rewrite Ed; reflexivity).
  rewrite El, Ed. split.
  - rewrite I1. exact J1.
  - intros Hp. rewrite <- (I2 Hp). apply J2. apply I1. exact Hp.
Qed.

(** c o s in the NTT domain then the inverse transform, against the specification's <<c s>> *)
Lemma cmul_rows ch c sh sv p r u :
  is_ntt_of ch c -> Forall2 is_ntt_of sh sv ->
  mapM (poly_pointwise_montgomery ch) sh = Ok p -> mapM poly_invntt_tomont p = Ok r -> S_cmul c sv u ->
  vshape (length sv) r /\
  forall j k, (j < length sv)%nat -> (k < 256)%nat ->
    Z.abs (vnth r j k) <= SHARP /\ eqm (vnth r j k) (vnth u j k).
Proof.
  intros Hc Hs Ep Er Hu.
  assert (Lr : length r = length sv).
  { rewrite (mapM_length _ _ _ Er), (mapM_length _ _ _ Ep). exact (F2_length _ _ _ Hs). }
  pose proof (S_cmul_shape c sv u Hu) as Su. destruct Hu as (Lu & Hu).
  assert (Rows : forall j, (j < length sv)%nat ->
            length (nth j r []) = 256%nat /\ Forall (fun x => Z.abs x <= SHARP) (nth j r []) /\
            forall k, (k < 256)%nat -> eqm (nth k (nth j r []) 0) (nth k (nth j u []) 0)).
  { intros j Hj.
    assert (Hrj : nth_error r j = Some (nth j r [])) by (apply nth_error_nth'; lia).
    assert (Hsj : nth_error sv j = Some (nth j sv [])) by (apply nth_error_nth'; lia).
    assert (Huj : nth_error u j = Some (nth j u [])) by (apply nth_error_nth'; lia).
    destruct (cmul_vec_sem ch c sh sv p r Hc Hs Ep Er j _ _ Hrj Hsj) as (L & B & C).
    destruct (Hu j _ _ Hsj Huj) as ((L' & _) & C').
    split; [exact L|]. split; [exact B|].
    apply ntt_inj; [exact L | exact L' |]. intros i Hi. rewrite (C i Hi), (C' i Hi). reflexivity. }
  split.
  - split; [exact Lr|]. apply Forall_forall. intros a Ha. apply (In_nth _ _ []) in Ha as (j & Hj & <-).
    apply Rows. lia.
  - intros j k Hj Hk. destruct (Rows j Hj) as (L & B & C). unfold vnth. split; [|exact (C k Hk)].
    rewrite Forall_forall in B. apply B. apply nth_In. lia.
Qed.

(** the coefficients of <<c s>> are, modulo q, within +- tau * eta when s is within +- eta *)
Lemma cs_small c s u tau eta : length c = 256%nat -> ternary c -> weight c = tau -> 0 <= eta ->
  Forall (eta_poly eta) s -> S_cmul c s u ->
  forall r k, (r < length s)%nat -> (k < 256)%nat -> exists e, Z.abs e <= tau * eta /\ eqm (vnth u r k) e.
Proof.
  intros Lc T W He Fs (Lu & Hu) r k Hr Hk.
  assert (Hsr : nth_error s r = Some (nth r s [])) by (apply nth_error_nth'; lia).
  assert (Hur : nth_error u r = Some (nth r u [])) by (apply nth_error_nth'; lia).
  destruct (Hu r _ _ Hsr Hur) as ((L' & _) & C').
  rewrite Forall_forall in Fs. destruct (Fs _ (nth_error_In _ _ Hsr)) as (Ls & Bs).
  exists (nth k (negacyclic_mul c (nth r s [])) 0). split.
  - apply norm_cs; try assumption.
  - unfold vnth. exact (negacyclic_is_cmul c (nth r s []) (nth r u []) Lc Ls L' C' k Hk).
Qed.

(** the answers of the norm checks *)
Lemma chk_read (b : bool) c : Ok (if negb b then 1 else 0) = Ok c -> (0 < c -> b = false) /\ (c <= 0 -> b = true).
Proof. intros E. apply PRing.Ok_inj in E. subst c. destruct b; cbn [negb]; split; intros; (reflexivity || lia). Qed.

Lemma small_of_range v : (forall a, In a v -> Forall (fun x => -6291200 <= x <= 6283008) a) -> small_coeffs v.
Proof. intros H a Ha. eapply Forall_impl; [|exact (H a Ha)]. cbv beta. intros; lia. Qed.

(** a reduced vector: shape, range, congruence with its input *)
Lemma reduce_rows B n v r : B <= 2 ^ 31 - 2 ^ 22 -> vshape n v ->
  (forall j k, (j < n)%nat -> (k < 256)%nat -> - B < vnth v j k < B) ->
  mapM poly_reduce v = Ok r ->
  vshape n r /\ Forall (pbnd Q) r /\
  forall j k, (j < n)%nat -> (k < 256)%nat ->
    -6291200 <= vnth r j k <= 6283008 /\ eqm (vnth r j k) (vnth v j k).
Proof.
  intros HB Hv Bv E. pose proof (mapM_length _ _ _ E) as Lr. destruct Hv as (Lv & Fv).
  assert (Rows : forall j, (j < n)%nat ->
            pbnd Q (nth j r []) /\ Forall (fun x => -6291200 <= x <= 6283008) (nth j r []) /\
            forall k, (k < 256)%nat -> eqm (nth k (nth j r []) 0) (nth k (nth j v []) 0)).
  { intros j Hj.
    assert (Hrj : nth_error r j = Some (nth j r [])) by (apply nth_error_nth'; lia).
    destruct (mapM_nth_r _ _ _ _ _ E Hrj) as (a & Ha & Ea).
    rewrite (nth_error_nth v j [] Ha).
    assert (La : length a = 256%nat) by (rewrite Forall_forall in Fv; exact (Fv a (nth_error_In _ _ Ha))).
    assert (Pa : pbnd B a).
    { split; [exact La|]. apply Forall_forall. intros x Hx. apply (In_nth _ _ 0) in Hx as (k & Hk & <-).
      specialize (Bv j k Hj ltac:(lia)). unfold vnth in Bv. rewrite (nth_error_nth v j [] Ha) in Bv. exact Bv. }
    destruct (reduce_sem_inv B a _ HB Pa Ea) as (_ & Pr & C).
    split; [exact Pr|]. split; [exact (poly_reduce_ok_range _ _ Ea) | exact C]. }
  split; [|split].
  - split; [lia|]. apply Forall_forall. intros a Ha. apply (In_nth _ _ []) in Ha as (j & Hj & <-).
    apply Rows. lia.
  - apply Forall_forall. intros a Ha. apply (In_nth _ _ []) in Ha as (j & Hj & <-). apply Rows. lia.
  - intros j k Hj Hk. destruct (Rows j Hj) as ((L & _) & R & C). unfold vnth. split; [|exact (C k Hk)].
    rewrite Forall_forall in R. apply R. apply nth_In. lia.
Qed.

Lemma vshape_of_vec n (Pp : list Z -> Prop) v : (forall a, Pp a -> length a = 256%nat) -> vec n Pp v -> vshape (Z.to_nat n) v.
Proof. intros H (L & F). split; [exact L|]. eapply Forall_impl; [|exact F]. exact H. Qed.

Lemma row_Forall (Pp : Z -> Prop) n v r : vshape n v ->
  (forall r k, (r < n)%nat -> (k < 256)%nat -> Pp (vnth v r k)) -> (r < n)%nat -> Forall Pp (nth r v []).
Proof.
  intros Hv H Hr. apply Forall_forall. intros x Hx. apply (In_nth _ _ 0) in Hx as (k & Hk & <-).
  rewrite (vshape_row n v r Hv Hr) in Hk. exact (H r k Hr Hk).
Qed.

Lemma vnth_Forall (Pp : Z -> Prop) n v r k : vshape n v -> Forall (fun a => Forall Pp a) v ->
  (r < n)%nat -> (k < 256)%nat -> Pp (vnth v r k).
Proof.
  intros Hv F Hr Hk. rewrite Forall_forall in F.
  assert (Ha : In (nth r v []) v) by (apply nth_In; destruct Hv; lia).
  pose proof (F _ Ha) as Fa. rewrite Forall_forall in Fa. apply Fa. apply nth_In.
  rewrite (vshape_row n v r Hv Hr). exact Hk.
Qed.

(** vector addition / subtraction, index by index *)
Lemma add_rows A B n a b c : A + B <= 2 ^ 31 -> vshape n a -> vshape n b ->
  (forall r k, (r < n)%nat -> (k < 256)%nat -> - A < vnth a r k < A) ->
  (forall r k, (r < n)%nat -> (k < 256)%nat -> - B < vnth b r k < B) ->
  map2M poly_add a b = Ok c ->
  vshape n c /\ forall r k, (r < n)%nat -> (k < 256)%nat -> vnth c r k = vnth a r k + vnth b r k.
Proof.
  intros HAB Sa Sb Ba Bb E. destruct (map2M_length _ _ _ _ E) as (_ & Lc).
  assert (Rows : forall r, (r < n)%nat -> length (nth r c []) = 256%nat /\
            forall k, nth k (nth r c []) 0 = nth k (nth r a []) 0 + nth k (nth r b []) 0).
  { intros r Hr.
    assert (Hcr : nth_error c r = Some (nth r c [])) by (apply nth_error_nth'; destruct Sa; lia).
    destruct (map2M_nth_r _ _ _ _ _ _ E Hcr) as (a' & b' & Ha' & Hb' & E').
    rewrite (nth_error_nth a r [] Ha'), (nth_error_nth b r [] Hb').
    pose proof (vshape_row n a r Sa Hr) as La. pose proof (vshape_row n b r Sb Hr) as Lb.
    pose proof (row_Forall (fun x => - A < x < A) n a r Sa Ba Hr) as Fa.
    pose proof (row_Forall (fun x => - B < x < B) n b r Sb Bb Hr) as Fb.
    rewrite (nth_error_nth a r [] Ha') in La, Fa. rewrite (nth_error_nth b r [] Hb') in Lb, Fb.
    destruct (add_sem_inv A B a' b' _ HAB ltac:(congruence) Fa Fb E') as (L & _ & C).
    split; [congruence | exact C]. }
  split.
  - split; [destruct Sa; lia|]. apply Forall_forall. intros x Hx. apply (In_nth _ _ []) in Hx as (r & Hr & <-).
    apply Rows. destruct Sa; lia.
  - intros r k Hr Hk. unfold vnth. apply Rows. exact Hr.
Qed.

Lemma sub_rows A B n a b c : A + B <= 2 ^ 31 -> vshape n a -> vshape n b ->
  (forall r k, (r < n)%nat -> (k < 256)%nat -> - A < vnth a r k < A) ->
  (forall r k, (r < n)%nat -> (k < 256)%nat -> - B < vnth b r k < B) ->
  map2M poly_sub a b = Ok c ->
  vshape n c /\ forall r k, (r < n)%nat -> (k < 256)%nat -> vnth c r k = vnth a r k - vnth b r k.
Proof.
  intros HAB Sa Sb Ba Bb E. destruct (map2M_length _ _ _ _ E) as (_ & Lc).
  assert (Rows : forall r, (r < n)%nat -> length (nth r c []) = 256%nat /\
            forall k, nth k (nth r c []) 0 = nth k (nth r a []) 0 - nth k (nth r b []) 0).
  { intros r Hr.
    assert (Hcr : nth_error c r = Some (nth r c [])) by (apply nth_error_nth'; destruct Sa; lia).
    destruct (map2M_nth_r _ _ _ _ _ _ E Hcr) as (a' & b' & Ha' & Hb' & E').
    rewrite (nth_error_nth a r [] Ha'), (nth_error_nth b r [] Hb').
    pose proof (vshape_row n a r Sa Hr) as La. pose proof (vshape_row n b r Sb Hr) as Lb.
    pose proof (row_Forall (fun x => - A < x < A) n a r Sa Ba Hr) as Fa.
    pose proof (row_Forall (fun x => - B < x < B) n b r Sb Bb Hr) as Fb.
    rewrite (nth_error_nth a r [] Ha') in La, Fa. rewrite (nth_error_nth b r [] Hb') in Lb, Fb.
    destruct (sub_sem_inv A B a' b' _ HAB ltac:(congruence) Fa Fb E') as (L & _ & C).
    split; [congruence | exact C]. }
  split.
  - split; [destruct Sa; lia|]. apply Forall_forall. intros x Hx. apply (In_nth _ _ []) in Hx as (r & Hr & <-).
    apply Rows. destruct Sa; lia.
  - intros r k Hr Hk. unfold vnth. apply Rows. exact Hr.
Qed.

Section Stage.
  Variable P : params.
  Hypothesis HP : sign_pset_ok P.
  Variables (sig mu rp : list Z) (mat : list (list (list Z))) (s1h s2h t0h : list (list Z)) (nonce : Z).
  (** the coefficient-domain polynomials whose transforms the signer holds *)
  Variables (s1 s2 t0 : list (list Z)).
  Hypothesis Hsig : zlen sig = pSIG P.
  Hypothesis Lmu : zlen mu = 64.
  Hypothesis Bmu : Forall is_byte mu.
  Hypothesis Lrp : zlen rp = 64.
  Hypothesis Brp : Forall is_byte rp.
  Hypothesis Hmat : mat_ok P mat.
  Hypothesis Hs1 : Forall2 is_ntt_of s1h s1.
  Hypothesis Hs2 : Forall2 is_ntt_of s2h s2.
  Hypothesis Ht0 : Forall2 is_ntt_of t0h t0.
  Hypothesis Ls1 : length s1 = Z.to_nat (pL P).
  Hypothesis Ls2 : length s2 = Z.to_nat (pK P).
  Hypothesis Lt0 : length t0 = Z.to_nat (pK P).
  Hypothesis Hn0 : 0 <= nonce.
  Hypothesis Hn1 : pL P * nonce + pL P <= 65536.
  (** s2 is within +- eta, and beta = tau * eta *)
  Hypothesis Hs2eta : Forall (eta_poly (pETA P)) s2.
  Hypothesis Heta0 : 0 <= pETA P.
  Hypothesis Hbeta : pBETA P = pTAU P * pETA P.
  Variable M : attempt_mid.
  Hypothesis SZ : stage_z P sig mu rp mat s1h nonce M.

  Lemma Frp : firstn 64 rp = rp.
  Proof. apply firstn_all2. unfold zlen in Lrp. lia. Qed.
  Lemma Fmu : firstn 64 mu = mu.
  Proof. apply firstn_all2. unfold zlen in Lmu. lia. Qed.

  (** ** y = ExpandMask(rho'', kappa) *)
  Lemma sz_y : am_y M = S_ExpandMask P rp nonce /\ vshape (Z.to_nat (pL P)) (am_y M) /\
    forall r k, (r < Z.to_nat (pL P))%nat -> (k < 256)%nat -> - pGAMMA1 P < vnth (am_y M) r k <= pGAMMA1 P.
  Proof.
    destruct (pset_facts P HP) as (HK & HL & Hg & _).
    assert (Brp' : Forall is_byte (firstn 64 rp)) by (rewrite Frp; exact Brp).
    assert (Hy : l_uniform_gamma1 P (zvec (pL P)) rp nonce = Ok (am_y M)) by apply SZ.
    pose proof (l_uniform_gamma1_range P (zvec (pL P)) rp nonce _ Hg (PSignStruct.zvec_length _) ltac:(lia) Hn0 Hn1
                  ltac:(lia) Brp' Hy) as (Ly & Fy).
    rewrite (l_uniform_gamma1_ok' P (zvec (pL P)) rp nonce Hg (PSignStruct.zvec_length _) ltac:(lia) Hn0 Hn1
               ltac:(lia) Brp') in Hy.
    apply PRing.Ok_inj in Hy.
    split; [|split].
    - rewrite <- Hy. unfold S_ExpandMask. apply map_ext. intros i.
      set (n := pL P * nonce + i).
      pose proof (poly_uniform_gamma1_ok (pGAMMA1 P) rp n Hg ltac:(lia) Brp') as X. cbv zeta in X.
      destruct X as (E1 & _).
      pose proof (poly_uniform_gamma1_polyz (pGAMMA1 P) rp n Hg ltac:(lia) Brp') as E2.
      rewrite E1 in E2. apply PRing.Ok_inj in E2. rewrite E2.
      unfold xof_in. rewrite Frp. unfold I2B2.
      replace (polyz_bytes (pGAMMA1 P)) with (Z.to_nat (pPOLYZ P)); [reflexivity|].
      unfold polyz_bytes, pPOLYZ. destruct (pGAMMA1 P =? 131072); reflexivity.
    - split; [exact Ly|]. eapply Forall_impl; [|exact Fy]. cbn beta. intros p (Lp & _). exact Lp.
    - intros r k Hr Hk. rewrite Forall_forall in Fy.
      destruct (Fy (nth r (am_y M) []) ltac:(apply nth_In; lia)) as (Lp & Fp).
      rewrite Forall_forall in Fp. apply Fp. apply nth_In. lia.
  Qed.

  Lemma sz_y_pbnd : Forall (pbnd Q) (am_y M).
  Proof.
    destruct (pset_facts P HP) as (_ & _ & _ & _ & _ & _ & _ & _ & _ & HG1 & _).
    destruct sz_y as (_ & Sy & By). apply Forall_forall. intros a Ha. apply (In_nth _ _ []) in Ha as (r & Hr & <-).
    assert (Hr' : (r < Z.to_nat (pL P))%nat) by (destruct Sy; lia).
    split; [exact (vshape_row _ _ r Sy Hr')|].
    apply (row_Forall _ _ _ r Sy); [|exact Hr']. intros r' k Hr'' Hk. specialize (By r' k Hr'' Hk). unfold Q. lia.
  Qed.

  Lemma sz_yhat : Forall2 is_ntt_of (am_yhat M) (am_y M).
  Proof.
    assert (Hyh : l_ntt P (am_y M) = Ok (am_yhat M)) by apply SZ. destruct sz_y as (_ & (Ly & _) & _).
    rewrite l_ntt_lift in Hyh by exact Ly. exact (ntt_vec_sem _ _ sz_y_pbnd Hyh).
  Qed.

  (** ** w = NTT^-1(A^ o NTT(y)), canonical representative *)
  Lemma sz_w : S_w mat (am_y M) (am_w M).
  Proof.
    destruct (pset_facts P HP) as (HK & HL & _). destruct (as_mat P mat Hmat) as (Lm & Hm).
    destruct sz_y as (_ & (Ly & _) & _).
    destruct SZ as (_ & Hyh & (wa & wb & wc & Hwa & Hwb & Hwc & Hw) & _).
    destruct (matvec_ntt_ok P (zvec (pK P)) mat (am_y M) (am_yhat M) HL (PSignStruct.zvec_length _) Lm Hm Ly sz_y_pbnd Hyh)
      as (t1 & t2 & w' & E1 & E2 & E3 & HF).
    rewrite Hwa in E1. apply PRing.Ok_inj in E1. subst t1.
    rewrite Hwb in E2. apply PRing.Ok_inj in E2. subst t2.
    rewrite Hwc in E3. apply PRing.Ok_inj in E3. subst w'.
    assert (Lwc : length wc = Z.to_nat (pK P)) by (rewrite <- (F2_length _ _ _ HF); exact Lm).
    rewrite k_caddq_lift in Hw by exact Lwc.
    split; [rewrite (mapM_length _ _ _ Hw); congruence|].
    intros r row wr Hrow Hwr.
    destruct (mapM_nth_r _ _ _ _ _ Hw Hwr) as (c & Hc & Ec).
    destruct (F2_nth_error_r _ _ _ _ _ HF Hc) as (row' & Hrow' & (Lc & Bc & Cc)).
    rewrite Hrow in Hrow'. injection Hrow' as <-.
    assert (Pc : pbnd Q c).
    { split; [exact Lc|]. eapply Forall_impl; [|exact Bc]. cbn beta. unfold SHARP, Q. intros; lia. }
    destruct (caddq_sem_inv c wr Pc Ec) as (R & C). split; [exact R|].
    intros i Hi. rewrite (C (root i)). exact (Cc i Hi).
  Qed.

  (** ** (w1, w0) = (HighBits(w), LowBits(w)) *)
  Lemma sz_dec : vshape (Z.to_nat (pK P)) (am_w M) /\ Forall (prng 0 Q) (am_w M) /\
    am_w1 M = vmap (S_highbits (pG88 P)) (am_w M) /\ am_w0 M = vmap (S_lowbits (pG88 P)) (am_w M).
  Proof.
    destruct (as_mat P mat Hmat) as (Lm & _).
    pose proof sz_w as HW. pose proof (S_w_shape _ _ _ HW) as Sw. rewrite Lm in Sw.
    assert (Fw : Forall (prng 0 Q) (am_w M)).
    { apply Forall_forall. intros a Ha. apply In_nth_error in Ha as (r & Hr).
      destruct HW as (L & H).
      assert (Hlt : (r < length mat)%nat) by (rewrite <- L; apply nth_error_Some; congruence).
      destruct (nth_error mat r) as [row|] eqn:Hrow; [|apply nth_error_None in Hrow; lia].
      exact (proj1 (H r row a Hrow Hr)). }
    split; [exact Sw|]. split; [exact Fw|].
    assert (Hdec : k_decompose P (am_w M) (zvec (pK P)) = Ok (am_w1 M, am_w0 M)) by apply SZ.
    rewrite k_decompose_lift in Hdec by (apply Sw || apply PSignStruct.zvec_length).
    rewrite (mapM_ok (poly_decompose (pG88 P))
               (fun a => (map (S_lowbits (pG88 P)) a, map (S_highbits (pG88 P)) a)) (am_w M)) in Hdec.
    2:{ intros a Ha. rewrite Forall_forall in Fw. exact (decompose_row_ok _ a (Fw a Ha)). }
    cbn [bind] in Hdec. apply PRing.Ok_inj in Hdec. apply pair_equal_spec in Hdec as [E1 E0].
    rewrite map_map in E1, E0. cbn [fst snd] in E1, E0. split; [symmetry; exact E1 | symmetry; exact E0].
  Qed.

  Lemma sz_w_rng r k : (r < Z.to_nat (pK P))%nat -> (k < 256)%nat -> 0 <= vnth (am_w M) r k < Q.
  Proof.
    intros Hr Hk. destruct sz_dec as (Sw & Fw & _).
    apply (vnth_Forall (fun x => 0 <= x < Q) _ _ r k Sw); try assumption.
    eapply Forall_impl; [|exact Fw]. intros a (_ & Fa). exact Fa.
  Qed.

  Lemma sz_w1_rng : vec (pK P) (rng 0 (MM (pG88 P))) (am_w1 M).
  Proof.
    destruct sz_dec as (Sw & Fw & E1 & _). rewrite E1. split; [unfold vmap; rewrite map_length; apply Sw|].
    unfold vmap. apply Forall_map_in. intros a Ha. rewrite Forall_forall in Fw. destruct (Fw a Ha) as (La & Fa).
    split; [rewrite map_length; exact La|]. apply Forall_map_in. intros x Hx. rewrite Forall_forall in Fa.
    exact (proj1 (S_decompose_range (pG88 P) x (Fa x Hx))).
  Qed.

  (** ** c~ = H(mu || w1Encode(w1)) at the front of the buffer *)
  Lemma sz_sigw : am_sigw M = S_w1Encode (pG88 P) (am_w1 M) ++ skipn (Z.to_nat (pK P * pPOLYW1 P)) sig /\
    zlen (S_w1Encode (pG88 P) (am_w1 M)) = pK P * pPOLYW1 P /\ Forall is_byte (S_w1Encode (pG88 P) (am_w1 M)).
  Proof.
    destruct (pset_facts P HP) as (HK & _ & _ & _ & _ & _ & _ & _ & HW1 & _).
    destruct sz_w1_rng as (Lw1 & Fw1).
    assert (Hpk : k_pack_w1 P sig (am_w1 M) = Ok (am_sigw M)) by apply SZ.
    assert (Em : mapM (w1_pack_bytes (pG88 P)) (am_w1 M)
                 = Ok (map (fun a => SimpleBitPack a (MM (pG88 P) - 1)) (am_w1 M))).
    { apply mapM_ok. intros a Ha. rewrite Forall_forall in Fw1. apply w1_pack_bytes_fips. exact (Fw1 a Ha). }
    assert (F1 : Forall (fun e => zlen e = pPOLYW1 P) (map (fun a => SimpleBitPack a (MM (pG88 P) - 1)) (am_w1 M))).
    { apply Forall_map_in. intros a Ha. rewrite Forall_forall in Fw1. unfold pPOLYW1.
      apply w1_pack_bytes_fips. exact (Fw1 a Ha). }
    destruct (k_pack_w1_ok P sig (am_w1 M) _ ltac:(lia) Lw1 Em F1 ltac:(lia)) as (E & _ & Lc).
    rewrite Hpk in E. apply PRing.Ok_inj in E. split; [exact E|]. split; [exact Lc|].
    unfold S_w1Encode. apply PTotal.Forall_concat. apply Forall_map_in. intros a Ha.
    rewrite Forall_forall in Fw1. apply w1_pack_bytes_fips. exact (Fw1 a Ha).
  Qed.

  Lemma pCT_le_pSIG : pCT P <= pSIG P.
  Proof.
    destruct (pset_facts P HP) as (HK & HL & _ & HC & HO & _).
    unfold pSIG. assert (0 <= pPOLYZ P) by (unfold pPOLYZ; destruct (pGAMMA1 P =? 131072); lia). nia.
  Qed.

  Lemma sz_ct :
    firstn (Z.to_nat (pCT P)) (am_sigc M)
      = S_shake 136 (mu ++ S_w1Encode (pG88 P) (am_w1 M)) (Z.to_nat (pCT P)) /\
    zlen (am_sigc M) = pSIG P.
  Proof.
    destruct (pset_facts P HP) as (HK & HL & _ & HC & HO & _ & _ & _ & HW1 & _).
    destruct sz_sigw as (Esw & Lenc & Benc). pose proof pCT_le_pSIG as HCS.
    assert (HW0 : 0 <= pK P * pPOLYW1 P) by (unfold pPOLYW1; destruct (pG88 P); lia).
    assert (Lsw : zlen (am_sigw M) = zlen sig).
    { rewrite Esw, PHint.zlen_app, Lenc, PTotal.zlen_skipn by lia. lia. }
    assert (Ffst : firstn (Z.to_nat (pK P * pPOLYW1 P)) (am_sigw M) = S_w1Encode (pG88 P) (am_w1 M)).
    { rewrite Esw. apply PHint.firstn_app_exact. unfold zlen in Lenc. lia. }
    destruct SZ as (_ & _ & _ & _ & _ & (w1b & st0 & st1 & st2 & st3 & _ & H0 & H1 & H2 & H3) & _).
    pose proof (w1_hash_value mu (am_sigw M) (pK P * pPOLYW1 P) (pCT P) st0 st1 st2 (am_sigc M) st3 ltac:(lia)
                  ltac:(rewrite Fmu; exact Bmu)
                  ltac:(lia) ltac:(rewrite Ffst; exact Benc) ltac:(lia) ltac:(lia) H0 H1 H2 H3) as E.
    rewrite Ffst, Fmu in E.
    assert (Lsh : length (S_shake 136 (mu ++ S_w1Encode (pG88 P) (am_w1 M)) (Z.to_nat (pCT P))) = Z.to_nat (pCT P))
      by (apply PBridge.S_shake_length; lia).
    split.
    - rewrite E. apply PHint.firstn_app_exact. symmetry. exact Lsh.
    - rewrite E, PHint.zlen_app, PTotal.zlen_skipn by lia. unfold zlen at 1. rewrite Lsh. lia.
  Qed.

  (** ** c = SampleInBall(c~) *)
  Lemma sz_c : length (am_cp M) = 256%nat /\ ternary (am_cp M) /\ weight (am_cp M) = pTAU P /\
    S_SampleInBall (pTAU P) (S_shake 136 (mu ++ S_w1Encode (pG88 P) (am_w1 M)) (Z.to_nat (pCT P))) (am_cp M) /\
    is_ntt_of (am_chat M) (am_cp M).
  Proof.
    destruct (pset_facts P HP) as (HK & HL & _ & HC & HO & HT & _).
    destruct sz_ct as (Ect & Lsc). pose proof pCT_le_pSIG as HCS.
    assert (Hcp : poly_challenge (pTAU P) (pCT P) (am_sigc M) = Ok (am_cp M)) by apply SZ.
    assert (Hch : poly_ntt (am_cp M) = Ok (am_chat M)) by apply SZ.
    pose proof (poly_challenge_ok (pTAU P) (pCT P) (am_sigc M) (am_cp M) HT ltac:(lia)
                  ltac:(rewrite Ect; apply PTotal.S_shake_bytes) Hcp) as X.
    cbv zeta in X. rewrite Ect in X. destruct X as (Lc & Tc & Wc & Ec).
    split; [exact Lc|]. split; [exact Tc|]. split; [exact Wc|]. split.
    - exists (N_CHALLENGE (pTAU P)). split; [unfold N_CHALLENGE; lia | exact Ec].
    - exact (ntt_sem_inv _ _ (ternary_pbnd _ Lc Tc) Hch).
  Qed.

  (** ** z: the reduced sum, against y + <<c s1>> *)
  Lemma sz_z cs1 : S_cmul (am_cp M) s1 cs1 ->
    vshape (Z.to_nat (pL P)) (am_z M) /\
    forall r k, (r < Z.to_nat (pL P))%nat -> (k < 256)%nat ->
      -6291200 <= vnth (am_z M) r k <= 6283008 /\
      eqm (vnth (am_z M) r k) (vnth (am_y M) r k + vnth cs1 r k).
  Proof.
    intros Hu.
    destruct (pset_facts P HP) as (HK & HL & Hg & _ & _ & _ & _ & _ & _ & HG1 & _).
    destruct sz_y as (_ & Sy & By). destruct sz_c as (_ & _ & _ & _ & Hch).
    destruct (stage_z_shapes P sig mu rp mat s1h nonce M SZ) as (Ly & Lyh & _ & _ & _ & Lzs & Lz).
    destruct SZ as (_ & _ & _ & _ & _ & _ & _ & _ & Hcs1 & Hcs1i & Hzs & Hz & _).
    assert (Ls1h : length s1h = Z.to_nat (pL P)) by (rewrite (F2_length _ _ _ Hs1); exact Ls1).
    rewrite l_pointwise_poly_montgomery_lift in Hcs1 by assumption.
    pose proof (mapM_length _ _ _ Hcs1) as Lcs1.
    rewrite l_invntt_tomont_lift in Hcs1i by congruence.
    pose proof (mapM_length _ _ _ Hcs1i) as Lcs1i.
    rewrite l_add_lift in Hzs by congruence.
    rewrite l_reduce_lift in Hz by exact Lzs.
    destruct (cmul_rows _ _ _ _ _ _ _ Hch Hs1 Hcs1 Hcs1i Hu) as (Sa & Ca). rewrite Ls1 in Sa, Ca.
    destruct (add_rows (SHARP + 1) (pGAMMA1 P + 1) _ _ _ _
                ltac:(unfold SHARP; change (2 ^ 31) with 2147483648; lia) Sa Sy
                ltac:(intros r k Hr Hk; destruct (Ca r k Hr Hk); lia)
                ltac:(intros r k Hr Hk; specialize (By r k Hr Hk); lia) Hzs) as (Szs & Czs).
    destruct (reduce_rows (SHARP + 1 + (pGAMMA1 P + 1)) _ _ _
                ltac:(unfold SHARP; change (2 ^ 31) with 2147483648; change (2 ^ 22) with 4194304; lia) Szs
                ltac:(intros r k Hr Hk; rewrite (Czs r k Hr Hk); destruct (Ca r k Hr Hk); specialize (By r k Hr Hk); lia)
                Hz) as (Sz & _ & Cz).
    split; [exact Sz|]. intros r k Hr Hk. destruct (Cz r k Hr Hk) as (Rg & E). split; [exact Rg|].
    rewrite E, (Czs r k Hr Hk), (proj2 (Ca r k Hr Hk)). apply eqm_eq. ring.
  Qed.

  (** ** r0: the reduced difference, against LowBits(w) - <<c s2>> *)
  Lemma s2_r cs2 : stage_w0 P s2h M -> S_cmul (am_cp M) s2 cs2 ->
    vshape (Z.to_nat (pK P)) (am_w0r M) /\ Forall (pbnd Q) (am_w0r M) /\
    forall r k, (r < Z.to_nat (pK P))%nat -> (k < 256)%nat ->
      -6291200 <= vnth (am_w0r M) r k <= 6283008 /\
      eqm (vnth (am_w0r M) r k) (S_lowbits (pG88 P) (vnth (am_w M) r k) - vnth cs2 r k).
  Proof.
    intros S2 Hu.
    destruct (pset_facts P HP) as (HK & HL & Hg & _ & _ & _ & _ & _ & _ & HG1 & HG2 & EG).
    destruct sz_c as (_ & _ & _ & _ & Hch). destruct sz_dec as (Sw & Fw & E1 & E0).
    destruct (stage_z_shapes P sig mu rp mat s1h nonce M SZ) as (_ & _ & Lw & Lw1 & Lw0 & _).
    destruct (stage_w0_shapes P sig mu rp mat s1h s2h nonce M SZ S2) as (Lcs2i & Lw0s & Lw0r).
    destruct S2 as (Hcs2 & Hcs2i & Hw0s & Hw0r & _).
    assert (Ls2h : length s2h = Z.to_nat (pK P)) by (rewrite (F2_length _ _ _ Hs2); exact Ls2).
    rewrite k_pointwise_poly_montgomery_lift in Hcs2 by (exact Ls2h || apply PSignStruct.zvec_length).
    pose proof (mapM_length _ _ _ Hcs2) as Lcs2.
    rewrite k_invntt_tomont_lift in Hcs2i by congruence.
    rewrite k_sub_lift in Hw0s by congruence.
    rewrite k_reduce_lift in Hw0r by exact Lw0s.
    destruct (cmul_rows _ _ _ _ _ _ _ Hch Hs2 Hcs2 Hcs2i Hu) as (Sa & Ca). rewrite Ls2 in Sa, Ca.
    assert (S0 : vshape (Z.to_nat (pK P)) (am_w0 M)) by (rewrite E0; apply vmap_shape; exact Sw).
    assert (N0 : forall r k, (r < Z.to_nat (pK P))%nat -> (k < 256)%nat ->
               vnth (am_w0 M) r k = S_lowbits (pG88 P) (vnth (am_w M) r k)).
    { intros r k Hr Hk. rewrite E0. apply (vmap_nth _ _ _ r k Sw Hr Hk). }
    assert (B0 : forall r k, (r < Z.to_nat (pK P))%nat -> (k < 256)%nat ->
               - (pGAMMA2 P + 1) < vnth (am_w0 M) r k < pGAMMA2 P + 1).
    { intros r k Hr Hk. rewrite (N0 r k Hr Hk), EG.
      pose proof (proj2 (S_decompose_range (pG88 P) _ (sz_w_rng r k Hr Hk))). lia. }
    destruct (sub_rows (pGAMMA2 P + 1) (SHARP + 1) _ _ _ _
                ltac:(unfold SHARP; change (2 ^ 31) with 2147483648; lia) S0 Sa B0
                ltac:(intros r k Hr Hk; destruct (Ca r k Hr Hk); lia) Hw0s) as (Sws & Cws).
    destruct (reduce_rows (pGAMMA2 P + 1 + (SHARP + 1)) _ _ _
                ltac:(unfold SHARP; change (2 ^ 31) with 2147483648; change (2 ^ 22) with 4194304; lia) Sws
                ltac:(intros r k Hr Hk; rewrite (Cws r k Hr Hk); destruct (Ca r k Hr Hk); specialize (B0 r k Hr Hk); lia)
                Hw0r) as (Sr & Pr & Cr).
    split; [exact Sr|]. split; [exact Pr|]. intros r k Hr Hk. destruct (Cr r k Hr Hk) as (Rg & E).
    split; [exact Rg|].
    rewrite E, (Cws r k Hr Hk), (proj2 (Ca r k Hr Hk)), (N0 r k Hr Hk). reflexivity.
  Qed.

  (** ** c t0: the reduced product, against <<c t0>> *)
  Lemma s3_t ct0 : stage_w0 P s2h M -> stage_ct0 P t0h M -> S_cmul (am_cp M) t0 ct0 ->
    vshape (Z.to_nat (pK P)) (am_ct0 M) /\ Forall (pbnd Q) (am_ct0 M) /\
    forall r k, (r < Z.to_nat (pK P))%nat -> (k < 256)%nat ->
      -6291200 <= vnth (am_ct0 M) r k <= 6283008 /\ eqm (vnth (am_ct0 M) r k) (vnth ct0 r k).
  Proof.
    intros S2 S3 Hu.
    destruct sz_c as (_ & _ & _ & _ & Hch).
    destruct (stage_w0_shapes P sig mu rp mat s1h s2h nonce M SZ S2) as (Lcs2i & _).
    destruct (stage_ct0_shapes P sig mu rp mat s1h s2h t0h nonce M SZ S2 S3) as (Lct0i & Lct0).
    destruct S3 as (Hct0p & Hct0i & Hct0 & _).
    assert (Lt0h : length t0h = Z.to_nat (pK P)) by (rewrite (F2_length _ _ _ Ht0); exact Lt0).
    rewrite k_pointwise_poly_montgomery_lift in Hct0p by assumption.
    pose proof (mapM_length _ _ _ Hct0p) as Lct0p.
    rewrite k_invntt_tomont_lift in Hct0i by congruence.
    rewrite k_reduce_lift in Hct0 by exact Lct0i.
    destruct (cmul_rows _ _ _ _ _ _ _ Hch Ht0 Hct0p Hct0i Hu) as (Sa & Ca). rewrite Lt0 in Sa, Ca.
    destruct (reduce_rows (SHARP + 1) _ _ _
                ltac:(unfold SHARP; change (2 ^ 31) with 2147483648; change (2 ^ 22) with 4194304; lia) Sa
                ltac:(intros r k Hr Hk; destruct (Ca r k Hr Hk); lia) Hct0) as (Sr & Pr & Cr).
    split; [exact Sr|]. split; [exact Pr|]. intros r k Hr Hk. destruct (Cr r k Hr Hk) as (Rg & E).
    split; [exact Rg|]. rewrite E. exact (proj2 (Ca r k Hr Hk)).
  Qed.

  (** ** the hint, per coefficient: the code's make_hint on (w0 - c s2) + c t0 and w1 *)
  Lemma s4_h : stage_w0 P s2h M -> stage_ct0 P t0h M -> stage_hint P M ->
    vshape (Z.to_nat (pK P)) (am_h M) /\ hint_bits (am_h M) /\ hint_weight (am_h M) = am_n M /\
    forall r k, (r < Z.to_nat (pK P))%nat -> (k < 256)%nat ->
      make_hint (pG88 P) (vnth (am_w0r M) r k + vnth (am_ct0 M) r k) (vnth (am_w1 M) r k) = Ok (vnth (am_h M) r k).
  Proof.
    intros S2 S3 (Hw0h & Hh).
    destruct (pset_facts P HP) as (HK & _).
    destruct (S_cmul_exists (am_cp M) s2) as (cs2 & Hcs2). destruct (S_cmul_exists (am_cp M) t0) as (ct0 & Hct0).
    destruct (s2_r cs2 S2 Hcs2) as (Sr & Pr & _). destruct (s3_t ct0 S2 S3 Hct0) as (St & Pt & _).
    destruct sz_w1_rng as (Lw1 & Fw1).
    rewrite k_add_lift in Hw0h by (apply Sr || apply St).
    destruct (add_rows Q Q _ _ _ _ ltac:(unfold Q; change (2 ^ 31) with 2147483648; lia) Sr St
                ltac:(intros r k Hr Hk; apply (vnth_Forall (fun x => - Q < x < Q) _ _ r k Sr); try assumption;
                      eapply Forall_impl; [|exact Pr]; intros a (_ & Fa); exact Fa)
                ltac:(intros r k Hr Hk; apply (vnth_Forall (fun x => - Q < x < Q) _ _ r k St); try assumption;
                      eapply Forall_impl; [|exact Pt]; intros a (_ & Fa); exact Fa) Hw0h) as (Sh & Ch).
    assert (F0 : Forall len256 (am_w0h M)) by apply Sh.
    assert (F1 : Forall len256 (am_w1 M)).
    { eapply Forall_impl; [|exact Fw1]. intros a (La & _). exact La. }
    destruct (map2M_total (poly_make_hint (pG88 P)) len256 len256 (fun _ => True)) with (l1 := am_w0h M) (l2 := am_w1 M)
      as (l & El & Ll & _); try assumption; try (destruct Sh; congruence).
    { intros a b Ha Hb. destruct (poly_make_hint_total (pG88 P) a b Ha Hb) as (h & n & E & _).
      exists (h, n). split; [exact E | exact I]. }
    destruct (k_make_hint_256 P (am_ct0 M) (am_w0h M) (am_w1 M) l ltac:(apply St) ltac:(lia)
                ltac:(intros a Ha; rewrite Forall_forall in F0; exact (F0 a Ha)) El ltac:(destruct Sh; congruence)) as (E & _).
    rewrite Hh in E. apply PRing.Ok_inj in E. apply pair_equal_spec in E as [Eh _].
    destruct (k_make_hint_inv P _ _ _ _ _ ltac:(apply St) Hh) as (Lh & Hb & Hn & _).
    assert (Rows : forall r, (r < Z.to_nat (pK P))%nat -> length (nth r (am_h M) []) = 256%nat /\
              forall k, (k < 256)%nat ->
                make_hint (pG88 P) (nth k (nth r (am_w0h M) []) 0) (nth k (nth r (am_w1 M) []) 0)
                = Ok (nth k (nth r (am_h M) []) 0)).
    { intros r Hr.
      assert (Hhr : nth_error (map fst l) r = Some (nth r (am_h M) [])) by (rewrite <- Eh; apply nth_error_nth'; lia).
      rewrite nth_error_map in Hhr. destruct (nth_error l r) as [p|] eqn:Hp; [|discriminate].
      cbn [option_map] in Hhr. injection Hhr as Hhr.
      destruct (map2M_nth_r _ _ _ _ _ _ El Hp) as (a & b & Ha & Hb' & Ep).
      rewrite (nth_error_nth _ r [] Ha), (nth_error_nth _ r [] Hb'). destruct p as [h n]. cbn [fst] in Hhr.
      rewrite <- Hhr. rewrite Forall_forall in F0.
      exact (make_hint_sem_inv (pG88 P) a b h n (F0 a (nth_error_In _ _ Ha)) Ep). }
    split.
    { split; [exact Lh|]. apply Forall_forall. intros x Hx. apply (In_nth _ _ []) in Hx as (r & Hr & <-).
      apply Rows. lia. }
    split; [exact Hb|]. split; [symmetry; exact Hn|].
    intros r k Hr Hk. rewrite <- (Ch r k Hr Hk). unfold vnth. apply Rows; assumption.
  Qed.

  (** ** the four tests *)

  (** ||z|| < gamma1 - beta *)
  Lemma spec_b1 cs1 : S_cmul (am_cp M) s1 cs1 ->
    let z := vzip (fun a b => cmod (a + b) Q) (am_y M) cs1 in
    S_norm_lt z (pGAMMA1 P - pBETA P) = S_norm_lt (am_z M) (pGAMMA1 P - pBETA P) /\
    (S_norm_lt (am_z M) (pGAMMA1 P - pBETA P) = true -> z = am_z M).
  Proof.
    intros Hu z. destruct (sz_z cs1 Hu) as (Sz & Cz). destruct sz_y as (_ & Sy & _).
    pose proof (S_cmul_shape _ _ _ Hu) as Su. rewrite Ls1 in Su.
    pose proof (vzip_shape (fun a b => cmod (a + b) Q) _ _ _ Sy Su) as Szs. fold z in Szs.
    destruct (pset_facts P HP) as (_ & _ & _ & _ & _ & _ & _ & ((_ & NB1) & _) & _).
    assert (Pt : forall r k, (r < Z.to_nat (pL P))%nat -> (k < 256)%nat ->
              (Z.abs (vnth (am_z M) r k) < pGAMMA1 P - pBETA P <-> Z.abs (vnth z r k) < pGAMMA1 P - pBETA P) /\
              (Z.abs (vnth (am_z M) r k) < pGAMMA1 P - pBETA P -> vnth z r k = vnth (am_z M) r k)).
    { intros r k Hr Hk. destruct (Cz r k Hr Hk) as (Rg & E). unfold z.
      rewrite (vzip_nth _ _ _ _ r k Sy Su Hr Hk). exact (centred_scalar _ _ _ Rg NB1 E). }
    split.
    - apply (S_norm_lt_ext (Z.to_nat (pL P))); try assumption. intros r k Hr Hk. symmetry. apply Pt; assumption.
    - intros Hp. rewrite (S_norm_lt_iff _ _ _ Sz) in Hp. apply (vshape_ext (Z.to_nat (pL P))); try assumption.
      intros r k Hr Hk. apply Pt; auto.
  Qed.

  (** ||LowBits(w - c s2)|| < gamma2 - beta, and what passing means *)
  Lemma spec_b2 cs2 : stage_w0 P s2h M -> S_cmul (am_cp M) s2 cs2 ->
    let rr := vzip Z.sub (am_w M) cs2 in
    vshape (Z.to_nat (pK P)) rr /\
    S_norm_lt (vmap (S_lowbits (pG88 P)) rr) (pGAMMA2 P - pBETA P) = S_norm_lt (am_w0r M) (pGAMMA2 P - pBETA P) /\
    (S_norm_lt (am_w0r M) (pGAMMA2 P - pBETA P) = true ->
     forall r k, (r < Z.to_nat (pK P))%nat -> (k < 256)%nat ->
       vnth rr r k = vnth (am_w M) r k - vnth cs2 r k /\
       Z.abs (vnth (am_w0r M) r k) < pGAMMA2 P - pBETA P /\
       S_decompose (pG88 P) (vnth rr r k) = (vnth (am_w0r M) r k, vnth (am_w1 M) r k)).
  Proof.
    intros S2 Hu rr.
    destruct (pset_facts P HP) as (_ & _ & _ & _ & _ & HT & HB & (_ & (NB2 & _) & _) & _ & _ & HG2 & EG).
    destruct (s2_r cs2 S2 Hu) as (Sr & _ & Cr). destruct sz_dec as (Sw & _ & E1 & _).
    destruct sz_c as (Lc & Tc & Wc & _).
    pose proof (S_cmul_shape _ _ _ Hu) as Su. rewrite Ls2 in Su.
    pose proof (vzip_shape Z.sub _ _ _ Sw Su) as Srr. fold rr in Srr.
    pose proof (vmap_shape (S_lowbits (pG88 P)) _ _ Srr) as Sr0.
    assert (Pt : forall r k, (r < Z.to_nat (pK P))%nat -> (k < 256)%nat ->
              vnth rr r k = vnth (am_w M) r k - vnth cs2 r k /\
              (Z.abs (vnth (am_w0r M) r k) < pGAMMA2 P - pBETA P <->
               Z.abs (vnth (vmap (S_lowbits (pG88 P)) rr) r k) < pGAMMA2 P - pBETA P) /\
              (Z.abs (vnth (am_w0r M) r k) < pGAMMA2 P - pBETA P ->
               S_decompose (pG88 P) (vnth rr r k) = (vnth (am_w0r M) r k, vnth (am_w1 M) r k))).
    { intros r k Hr Hk. destruct (Cr r k Hr Hk) as (Rg & E).
      assert (Er : vnth rr r k = vnth (am_w M) r k - vnth cs2 r k) by (apply (vzip_nth Z.sub _ _ _ r k Sw Su Hr Hk)).
      split; [exact Er|].
      rewrite (vmap_nth _ _ _ r k Srr Hr Hk), Er.
      assert (Ew1 : vnth (am_w1 M) r k = S_highbits (pG88 P) (vnth (am_w M) r k))
        by (rewrite E1; apply (vmap_nth _ _ _ r k Sw Hr Hk)).
      rewrite Ew1.
      destruct (cs_small (am_cp M) s2 cs2 (pTAU P) (pETA P) Lc Tc Wc Heta0 Hs2eta Hu r k ltac:(lia) Hk) as (e' & He' & Ee').
      rewrite <- Hbeta in He'.
      exact (r0_scalar (pG88 P) _ e' _ _ (pBETA P) (pGAMMA2 P - pBETA P) (sz_w_rng r k Hr Hk) He' Ee' NB2
               ltac:(lia) Rg E). }
    split; [exact Srr|]. split.
    - apply (S_norm_lt_ext (Z.to_nat (pK P))); try assumption. intros r k Hr Hk. symmetry. apply Pt; assumption.
    - intros Hp r k Hr Hk. rewrite (S_norm_lt_iff _ _ _ Sr) in Hp. destruct (Pt r k Hr Hk) as (A1 & _ & A3).
      split; [exact A1|]. split; [exact (Hp r k Hr Hk) | exact (A3 (Hp r k Hr Hk))].
  Qed.

  (** ||c t0|| < gamma2 *)
  Lemma spec_b3 ct0 : stage_w0 P s2h M -> stage_ct0 P t0h M -> S_cmul (am_cp M) t0 ct0 ->
    S_norm_lt (vmap (fun x => cmod x Q) ct0) (pGAMMA2 P) = S_norm_lt (am_ct0 M) (pGAMMA2 P) /\
    (S_norm_lt (am_ct0 M) (pGAMMA2 P) = true ->
     forall r k, (r < Z.to_nat (pK P))%nat -> (k < 256)%nat ->
       Z.abs (vnth (am_ct0 M) r k) < pGAMMA2 P /\ eqm (vnth (am_ct0 M) r k) (vnth ct0 r k)).
  Proof.
    intros S2 S3 Hu.
    destruct (pset_facts P HP) as (_ & _ & _ & _ & _ & _ & _ & (_ & _ & (_ & NB3)) & _).
    destruct (s3_t ct0 S2 S3 Hu) as (St & _ & Ct).
    pose proof (S_cmul_shape _ _ _ Hu) as Su. rewrite Lt0 in Su.
    pose proof (vmap_shape (fun x => cmod x Q) _ _ Su) as Sc.
    split.
    - apply (S_norm_lt_ext (Z.to_nat (pK P))); try assumption. intros r k Hr Hk.
      rewrite (vmap_nth _ _ _ r k Su Hr Hk). destruct (Ct r k Hr Hk) as (Rg & E).
      symmetry. exact (proj1 (centred_scalar _ _ _ Rg NB3 E)).
    - intros Hp r k Hr Hk. rewrite (S_norm_lt_iff _ _ _ St) in Hp. split; [exact (Hp r k Hr Hk)|].
      exact (proj2 (Ct r k Hr Hk)).
  Qed.

  (** h = MakeHint(-c t0, w - c s2 + c t0) *)
  Lemma spec_h cs2 ct0 : stage_w0 P s2h M -> stage_ct0 P t0h M -> stage_hint P M ->
    S_cmul (am_cp M) s2 cs2 -> S_cmul (am_cp M) t0 ct0 ->
    S_norm_lt (am_w0r M) (pGAMMA2 P - pBETA P) = true -> S_norm_lt (am_ct0 M) (pGAMMA2 P) = true ->
    vzip (fun t x => S_make_hint (pG88 P) (- t) (x + t)) ct0 (vzip Z.sub (am_w M) cs2) = am_h M.
  Proof.
    intros S2 S3 S4 Hu2 Hu0 P2 P3.
    destruct (pset_facts P HP) as (_ & _ & _ & _ & _ & _ & HB & _ & _ & _ & HG2 & EG).
    destruct (spec_b2 cs2 S2 Hu2) as (Srr & _ & D2). specialize (D2 P2).
    destruct (spec_b3 ct0 S2 S3 Hu0) as (_ & D3). specialize (D3 P3).
    destruct (s4_h S2 S3 S4) as (Sh & _ & _ & Ch).
    pose proof (S_cmul_shape _ _ _ Hu0) as Su0. rewrite Lt0 in Su0.
    apply (vshape_ext (Z.to_nat (pK P))); [apply vzip_shape; assumption | exact Sh |].
    intros r k Hr Hk.
    rewrite (vzip_nth _ _ _ _ r k Su0 Srr Hr Hk).
    destruct (D2 r k Hr Hk) as (Er & Bx & Ed). destruct (D3 r k Hr Hk) as (Bt & Et).
    pose proof (hint_is_spec (pG88 P) (vnth (am_w M) r k) (vnth cs2 r k) _ (vnth (am_ct0 M) r k) _
                  (pGAMMA2 P - pBETA P) ltac:(rewrite <- Er; exact Ed) Bx ltac:(lia) ltac:(lia)) as E.
    rewrite (Ch r k Hr Hk) in E. apply PRing.Ok_inj in E. rewrite E, Er.
    apply S_make_hint_eqm.
    - replace (- vnth ct0 r k) with (0 - vnth ct0 r k) by ring.
      replace (- vnth (am_ct0 M) r k) with (0 - vnth (am_ct0 M) r k) by ring. rewrite Et. reflexivity.
    - rewrite Et. reflexivity.
  Qed.

  Lemma small_of_vnth n v : vshape n v ->
    (forall r k, (r < n)%nat -> (k < 256)%nat -> -6291200 <= vnth v r k <= 6283008 /\ True) -> small_coeffs v.
  Proof.
    intros Sv H a Ha. apply (In_nth _ _ []) in Ha as (r & Hr & <-).
    assert (Hr' : (r < n)%nat) by (destruct Sv; lia).
    apply (row_Forall _ n v r Sv); [|exact Hr']. intros r' k Hr'' Hk. destruct (H r' k Hr'' Hk). lia.
  Qed.

  (** ** (5) the code's outcome of this attempt is the specification's *)
  Definition S_of_attempt (a : attempt) : S_outcome :=
    match a with Done s => S_output s | Retry _ _ => S_reject end.

  Theorem outcome_of_mid a : attempt_outcome P sig mu rp mat s1h s2h t0h nonce M a ->
    S_attempt P mat s1 s2 t0 mu rp nonce (S_of_attempt a).
  Proof.
    intros (_ & D).
    destruct (pset_facts P HP) as (HK & HL & Hg & HC & HO & HT & HB & (NB1 & NB2 & NB3) & _).
    destruct (S_cmul_exists (am_cp M) s1) as (cs1 & Hu1).
    destruct (S_cmul_exists (am_cp M) s2) as (cs2 & Hu2).
    destruct (S_cmul_exists (am_cp M) t0) as (ct0 & Hu0).
    destruct sz_y as (Ey & Sy & _). destruct sz_dec as (Sw & _ & E1 & _).
    destruct sz_c as (_ & _ & _ & Hc & _). destruct sz_ct as (Ect & Lsc).
    destruct (spec_b1 cs1 Hu1) as (B1 & Z1). cbv zeta in B1, Z1.
    unfold S_attempt. cbv zeta. rewrite <- Ey.
    exists (am_w M), (am_cp M), cs1, cs2, ct0.
    split; [exact sz_w|]. rewrite <- E1. split; [exact Hc|]. split; [exact Hu1|]. split; [exact Hu2|].
    split; [exact Hu0|].
    rewrite B1.
    (* the z test *)
    assert (Hc1 : l_chknorm P (am_z M) (pGAMMA1 P - pBETA P) = Ok (am_c1 M)) by apply SZ.
    destruct (sz_z cs1 Hu1) as (Sz & Cz).
    rewrite (l_chknorm_exact P (am_z M) (pGAMMA1 P - pBETA P)
               (small_of_vnth _ _ Sz (fun r k Hr Hk => conj (proj1 (Cz r k Hr Hk)) I))
               ltac:(lia) (proj1 Sz) ltac:(lia)), existsb_norm in Hc1.
    destruct (chk_read _ _ Hc1) as (F1 & G1).
    destruct D as [(Hf & ->) | (Hg1 & S2 & D)].
    { rewrite (F1 Hf). reflexivity. }
    rewrite (G1 Hg1), Bool.andb_true_l.
    (* the low-bits test *)
    destruct (spec_b2 cs2 S2 Hu2) as (Srr & B2 & _). cbv zeta in Srr, B2. rewrite B2.
    destruct (s2_r cs2 S2 Hu2) as (Sr & _ & Cr).
    assert (Hc2 : k_chknorm P (am_w0r M) (pGAMMA2 P - pBETA P) = Ok (am_c2 M)) by apply S2.
    rewrite (k_chknorm_exact P (am_w0r M) (pGAMMA2 P - pBETA P)
               (small_of_vnth _ _ Sr (fun r k Hr Hk => conj (proj1 (Cr r k Hr Hk)) I))
               ltac:(lia) (proj1 Sr) ltac:(lia)), existsb_norm in Hc2.
    destruct (chk_read _ _ Hc2) as (F2 & G2).
    destruct D as [(Hf & ->) | (Hg2 & S3 & D)].
    { rewrite (F2 Hf). reflexivity. }
    rewrite (G2 Hg2).
    (* the c t0 test *)
    destruct (spec_b3 ct0 S2 S3 Hu0) as (B3 & _). rewrite B3.
    destruct (s3_t ct0 S2 S3 Hu0) as (St & _ & Ct).
    assert (Hc3 : k_chknorm P (am_ct0 M) (pGAMMA2 P) = Ok (am_c3 M)) by apply S3.
    rewrite (k_chknorm_exact P (am_ct0 M) (pGAMMA2 P)
               (small_of_vnth _ _ St (fun r k Hr Hk => conj (proj1 (Ct r k Hr Hk)) I))
               ltac:(lia) (proj1 St) ltac:(lia)), existsb_norm in Hc3.
    destruct (chk_read _ _ Hc3) as (F3 & G3).
    destruct D as [(Hf & ->) | (Hg3 & S4 & D)].
    { rewrite (F3 Hf). reflexivity. }
    rewrite (G3 Hg3), Bool.andb_true_l.
    (* the hint *)
    rewrite (spec_h cs2 ct0 S2 S3 S4 Hu2 Hu0 (G2 Hg2) (G3 Hg3)).
    destruct (s4_h S2 S3 S4) as (Sh & Hb & Hn & _). rewrite Hn.
    destruct D as [(Hf & ->) | (Hg4 & s & Hs & ->)].
    { replace (am_n M <=? pOMEGA P) with false by (symmetry; apply Z.leb_gt; lia). reflexivity. }
    replace (am_n M <=? pOMEGA P) with true by (symmetry; apply Z.leb_le; lia).
    rewrite (Z1 (G1 Hg1)).
    cbn [S_of_attempt]. f_equal. rewrite <- Ect.
    pose proof (G1 Hg1) as Pz. rewrite (S_norm_lt_iff _ _ _ Sz) in Pz.
    apply pack_sig_closed; try lia; try assumption.
    - split; [apply Sz|]. apply Forall_forall. intros a Ha. apply (In_nth _ _ []) in Ha as (r & Hr & <-).
      assert (Hr' : (r < Z.to_nat (pL P))%nat) by (destruct Sz; lia).
      split; [exact (vshape_row _ _ r Sz Hr')|].
      apply (row_Forall _ _ _ r Sz); [|exact Hr']. intros r' k Hr'' Hk. specialize (Pz r' k Hr'' Hk). lia.
    - split; [apply Sh|]. apply Forall_forall. intros a Ha. pose proof (Hb a Ha) as Ba.
      apply (In_nth _ _ []) in Ha as (r & Hr & <-).
      assert (Hr' : (r < Z.to_nat (pK P))%nat) by (destruct Sh; lia).
      split; [exact (vshape_row _ _ r Sh Hr')|]. eapply Forall_impl; [|exact Ba]. cbn beta. intros; lia.
  Qed.
End Stage.

(** * 5. One attempt of the code is one attempt of the specification *)

Theorem attempt_outcome_spec P sig mu rp mat s1h s2h t0h nonce s1 s2 t0 a :
  sign_pset_ok P -> zlen sig = pSIG P -> zlen mu = 64 -> Forall is_byte mu -> zlen rp = 64 -> Forall is_byte rp ->
  mat_ok P mat -> Forall2 is_ntt_of s1h s1 -> Forall2 is_ntt_of s2h s2 -> Forall2 is_ntt_of t0h t0 ->
  length s1 = Z.to_nat (pL P) -> length s2 = Z.to_nat (pK P) -> length t0 = Z.to_nat (pK P) ->
  0 <= nonce -> pL P * nonce + pL P <= 65536 ->
  Forall (eta_poly (pETA P)) s2 -> 0 <= pETA P -> pBETA P = pTAU P * pETA P ->
  sign_attempt P sig mu rp mat s1h s2h t0h nonce = Ok a ->
  S_attempt P mat s1 s2 t0 mu rp nonce (S_of_attempt a) /\
  match a with Retry _ sig' => zlen sig' = pSIG P | Done _ => True end.
Proof.
  intros HP Ls Lmu Bmu Lrp Brp Hmat H1 H2 H0 L1 L2 L0 Hn0 Hn1 He2 He0 Hb H.
  destruct (sign_attempt_inv P sig mu rp mat s1h s2h t0h nonce a H) as (M & HO).
  pose proof (proj1 HO) as SZ.
  split.
  - exact (outcome_of_mid P HP sig mu rp mat s1h s2h t0h nonce s1 s2 t0 Ls Lmu Bmu Lrp Brp Hmat H1 H2 H0 L1 L2 L0
             Hn0 Hn1 He2 He0 Hb M SZ a HO).
  - destruct a as [s|c sig']; [exact I|].
    destruct (sign_attempt_retry P sig mu rp mat s1h s2h t0h nonce c sig' H) as (M' & -> & (SZ' & _)).
    exact (proj2 (sz_ct P HP sig mu rp mat s1h nonce s1 s2 t0 Ls Lmu Bmu Lrp Brp Hmat L1 L2 L0 Hn0 Hn1 M' SZ')).
Qed.

(** * 6. The loop and the main theorem *)

Lemma chain_spec P mu rp mat s1h s2h t0h s1 s2 t0 :
  sign_pset_ok P -> zlen mu = 64 -> Forall is_byte mu -> zlen rp = 64 -> Forall is_byte rp ->
  mat_ok P mat -> Forall2 is_ntt_of s1h s1 -> Forall2 is_ntt_of s2h s2 -> Forall2 is_ntt_of t0h t0 ->
  length s1 = Z.to_nat (pL P) -> length s2 = Z.to_nat (pK P) -> length t0 = Z.to_nat (pK P) ->
  Forall (eta_poly (pETA P)) s2 -> 0 <= pETA P -> pBETA P = pTAU P * pETA P ->
  forall causes nonce sig sig_n, zlen sig = pSIG P -> 0 <= nonce ->
    pL P * (nonce + Z.of_nat (length causes)) <= 65536 ->
    retry_chain P mu rp mat s1h s2h t0h causes nonce sig sig_n ->
    zlen sig_n = pSIG P /\
    forall k, (k < length causes)%nat -> S_attempt P mat s1 s2 t0 mu rp (nonce + Z.of_nat k) S_reject.
Proof.
  intros HP Lmu Bmu Lrp Brp Hmat H1 H2 H0 L1 L2 L0 He2 He0 Hb.
  assert (HL : 1 <= pL P <= 7) by apply HP.
  induction causes as [|c cs IH]; intros nonce sig sig_n Ls Hn0 Hn H; cbn [retry_chain length] in *.
  - subst sig_n. split; [exact Ls|]. intros k Hk. lia.
  - destruct H as (sig' & Ha & Hn' & Hch).
    destruct (attempt_outcome_spec P sig mu rp mat s1h s2h t0h nonce s1 s2 t0 _ HP Ls Lmu Bmu Lrp Brp Hmat H1 H2 H0
                L1 L2 L0 Hn0 ltac:(nia) He2 He0 Hb Ha) as (A1 & A2). cbn [S_of_attempt] in A1.
    destruct (IH (nonce + 1) sig' sig_n A2 ltac:(lia) ltac:(nia) Hch) as (B1 & B2).
    split; [exact B1|]. intros [|k] Hk.
    + rewrite Z.add_0_r. exact A1.
    + replace (nonce + Z.of_nat (S k)) with (nonce + 1 + Z.of_nat k) by lia. apply B2. lia.
Qed.

(** rho'' in every mode *)
Lemma rhoprime_spec P rand tape key mu rp tape' :
  Forall is_byte key -> zlen key = 32 -> Forall is_byte mu -> zlen mu = 64 -> tape_ok P rand tape ->
  PSignStruct.sign_rhoprime P rand tape key mu = Ok (rp, tape') ->
  rp = S_rhopp P key (if rand then Some (firstn (Z.to_nat (rand_bytes P)) tape) else None) mu.
Proof.
  intros Bk Lk Bm Lm Ht H. unfold PSignStruct.sign_rhoprime in H. unfold tape_ok in Ht.
  unfold S_rhopp. unfold rand_bytes in *.
  destruct (pMLDSA P).
  - bind_inv H rt Hrt. destruct rt as [rnd tp]. bind_inv H r Hr. apply PRing.Ok_inj in H.
    apply pair_equal_spec in H as [H _]. subst rp.
    assert (Ernd : rnd = match (if rand then Some (firstn (Z.to_nat SEEDBYTES) tape) else None) with
                         | Some r => r | None => repeatZ 0 32 end /\ Forall is_byte rnd).
    { destruct rand.
      - destruct (Ht eq_refl) as (Hl & Hb). unfold draw in Hrt.
        destruct (zlen tape <? SEEDBYTES); [discriminate|]. apply PRing.Ok_inj in Hrt.
        apply pair_equal_spec in Hrt as [Hrt _]. subst rnd. split; [reflexivity | exact Hb].
      - apply PRing.Ok_inj in Hrt. apply pair_equal_spec in Hrt as [Hrt _]. subst rnd. split; [reflexivity|].
        unfold repeatZ. apply PTotal.Forall_repeat. unfold is_byte. lia. }
    destruct Ernd as (Ernd & Brnd).
    rewrite (shake256_hash_ok [key; rnd; mu] CRHBYTES ltac:(repeat constructor; assumption)
               ltac:(unfold CRHBYTES; change (2 ^ 64) with 18446744073709551616; lia)) in Hr.
    apply PRing.Ok_inj in Hr. subst r. change (Z.to_nat CRHBYTES) with 64%nat.
    cbn [concat]. rewrite app_nil_r, <- Ernd. reflexivity.
  - destruct rand.
    + destruct (Ht eq_refl) as (Hl & Hb). unfold draw in H.
      destruct (Z.ltb_spec (zlen tape) CRHBYTES) as [?|Hge]; [discriminate|]. apply PRing.Ok_inj in H.
      apply pair_equal_spec in H as [H _]. subst rp. reflexivity.
    + bind_inv H r Hr. apply PRing.Ok_inj in H. apply pair_equal_spec in H as [H _]. subst rp.
      replace (SEEDBYTES + CRHBYTES) with (zlen (key ++ mu)) in Hr by (rewrite PHint.zlen_app, Lk, Lm; reflexivity).
      unfold CRHBYTES in Hr.
      rewrite shake256_ok in Hr; [| apply Forall_app; split; assumption | change (2 ^ 64) with 18446744073709551616; lia].
      apply PRing.Ok_inj in Hr. subst r. reflexivity.
Qed.

Lemma std_beta P : std P -> 0 <= pETA P <= 4 /\ pBETA P = pTAU P * pETA P.
Proof. intros [H|[H|[H|[H|[H|H]]]]]; subst P; cbn; lia. Qed.

(** ** C05: signing returns the specification's signature *)
Theorem sign_spec P sk sig0 m rand tape sig tape' :
  std P -> Forall is_byte sk -> zlen sk = pSK P ->
  (match S_skDecode (pETA P) (pK P) (pL P) (pTR P) sk with
   | (_, _, _, _, s2, _) => Forall (eta_poly (pETA P)) s2 end) ->       (* s2 within +- eta *)
  Forall is_byte m -> zlen sig0 = pSIG P -> tape_ok P rand tape ->
  signature P sig0 m sk rand tape = Ok (sig, tape') ->
  S_sign P sk m (if rand then Some (firstn (Z.to_nat (rand_bytes P)) tape) else None) sig.
Proof.
  intros HP Bsk Lsk Hs2 Bm Lsig0 Htape Hsg.
  pose proof (std_sign_pset_ok P HP) as HPS.
  destruct (std_vf P HP) as (HK & HL & Hg & HC & HO & HB & HTR & HT).
  destruct (std_kg P HP) as (_ & _ & He & _ & _ & _).
  destruct (std_beta P HP) as (He4 & Hbeta).
  unfold S_sign.
  destruct (S_skDecode (pETA P) (pK P) (pL P) (pTR P) sk) as [[[[[rho key] tr] s1] s2] t0] eqn:Esk.
  destruct (S_skDecode_range (pETA P) (pK P) (pL P) (pTR P) sk rho key tr s1 s2 t0 He ltac:(lia) ltac:(lia) ltac:(lia) Bsk
              ltac:(rewrite Lsk; unfold pSK, SEEDBYTES, POLYT0; rewrite polyeta_eq; lia) Esk)
    as ((Lrho & Lkey & Ltr) & (Brho & Bkey & Btr) & (Ls1 & Ls2 & Lt0) & F1 & F2 & F0).
  (* the signer *)
  apply signature_inv in Hsg as (trace & Hsg).
  destruct (signature_structure P SIGN_FUEL sig0 m sk rand tape sig trace tape' Hsg)
    as (C & sig_n & M & HSU & Hfuel & Hn & _ & Hch & Hdone & _).
  cbv zeta in *.
  destruct HSU as (Usk & Umu & Urp & Umat & Us1 & Us2 & Ut0).
  rewrite (unpack_sk_spec P _ _ _ _ _ _ sk ltac:(lia) ltac:(lia) He ltac:(lia) Bsk ltac:(lia)) in Usk;
    try (rewrite PTotal.zlen_repeatZ by lia; reflexivity); try (unfold zlen; rewrite PSignStruct.zvec_length; lia).
  rewrite Esk in Usk. cbv beta iota in Usk. apply PRing.Ok_inj in Usk.
  repeat (apply pair_equal_spec in Usk; destruct Usk as [Usk ?]).
  destruct C as [c_rho c_tr c_key c_t0 c_s1 c_s2 c_mu c_rp c_mat c_s1h c_s2h c_t0h].
  cbn [sc_rho sc_tr sc_key sc_t0 sc_s1 sc_s2 sc_mu sc_rhoprime sc_mat sc_s1h sc_s2h sc_t0h] in *.
  subst c_rho c_tr c_key c_t0 c_s1 c_s2.
  (* mu *)
  assert (Ftr : firstn (Z.to_nat (pTR P)) tr = tr) by (apply firstn_all2; unfold zlen in Ltr; lia).
  rewrite Ftr in Umu.
  rewrite (shake256_hash_ok [tr; m] CRHBYTES ltac:(repeat constructor; assumption)
             ltac:(unfold CRHBYTES; change (2 ^ 64) with 18446744073709551616; lia)) in Umu.
  cbn [concat] in Umu. rewrite app_nil_r in Umu. change (Z.to_nat CRHBYTES) with 64%nat in Umu.
  apply PRing.Ok_inj in Umu.
  assert (Lmu : zlen c_mu = 64) by (rewrite <- Umu; unfold zlen; rewrite PBridge.S_shake_length by lia; reflexivity).
  assert (Bmu : Forall is_byte c_mu) by (rewrite <- Umu; apply PTotal.S_shake_bytes).
  (* rho'' *)
  destruct (rhoprime_shape P rand tape key c_mu c_rp tape' Bkey Lkey Bmu Lmu Htape Urp) as (Lrp & Brp).
  pose proof (rhoprime_spec P rand tape key c_mu c_rp tape' Bkey Lkey Bmu Lmu Htape Urp) as Erp.
  (* A^ *)
  pose proof (expand_shape_holds P rho c_mat Umat) as Hmat.
  assert (Frho : firstn 32 rho = rho) by (apply (PKeyCodec.firstn_exact 32); exact Lrho).
  destruct (expandA_ok P rho c_mat ltac:(lia) ltac:(lia) ltac:(lia) ltac:(rewrite Frho; exact Brho) Umat) as [Lm Hmat'].
  rewrite Frho in Hmat'.
  assert (HA : S_expandA P rho c_mat).
  { split; [exact Lm|]. intros r row Hr. destruct (Hmat' r row Hr) as [Lr Hp]. split; [exact Lr|].
    intros s0 p Hs0. apply (Hp s0 p Hs0). }
  (* the transforms of the key *)
  assert (Hdr : forall a, polyOK (eta_drng (pETA P)) a -> pbnd Q a).
  { intros a (La & Fa). split; [exact La|]. eapply Forall_impl; [|exact Fa]. cbv beta. unfold eta_drng, Q.
    intros x Hx. destruct He as [E|E]; rewrite E in Hx; cbn in Hx; lia. }
  assert (Q1 : Forall (pbnd Q) s1) by (eapply Forall_impl; [exact Hdr | exact F1]).
  assert (Q2 : Forall (pbnd Q) s2) by (eapply Forall_impl; [exact Hdr | exact F2]).
  assert (Q0 : Forall (pbnd Q) t0).
  { eapply Forall_impl; [|exact F0]. intros a (La & Fa). split; [exact La|].
    eapply Forall_impl; [|exact Fa]. cbn beta. unfold t0_rng, Q. intros; lia. }
  assert (L1 : length s1 = Z.to_nat (pL P)) by (unfold zlen in Ls1; lia).
  assert (L2 : length s2 = Z.to_nat (pK P)) by (unfold zlen in Ls2; lia).
  assert (L0 : length t0 = Z.to_nat (pK P)) by (unfold zlen in Lt0; lia).
  rewrite l_ntt_lift in Us1 by exact L1. pose proof (ntt_vec_sem _ _ Q1 Us1) as N1.
  rewrite k_ntt_lift in Us2 by exact L2. pose proof (ntt_vec_sem _ _ Q2 Us2) as N2.
  rewrite k_ntt_lift in Ut0 by exact L0. pose proof (ntt_vec_sem _ _ Q0 Ut0) as N0.
  (* the loop *)
  assert (Hfl : Z.of_nat (length trace) < 1000) by (change SIGN_FUEL with 1000%nat in Hfuel; lia).
  destruct (chain_spec P c_mu c_rp c_mat c_s1h c_s2h c_t0h s1 s2 t0 HPS Lmu Bmu Lrp Brp Hmat N1 N2 N0 L1 L2 L0
              Hs2 ltac:(lia) Hbeta trace 0 sig0 sig_n Lsig0 ltac:(lia) ltac:(nia) Hch) as (Lsn & Hrej).
  destruct (attempt_outcome_spec P sig_n c_mu c_rp c_mat c_s1h c_s2h c_t0h (Z.of_nat (length trace)) s1 s2 t0 _
              HPS Lsn Lmu Bmu Lrp Brp Hmat N1 N2 N0 L1 L2 L0 ltac:(lia) ltac:(nia) Hs2 ltac:(lia) Hbeta Hdone)
    as (Hacc & _).
  cbn [S_of_attempt] in Hacc.
  exists c_mat. split; [exact HA|]. cbv zeta. rewrite Umu, <- Erp.
  exists (length trace). split; [|exact Hacc].
  intros k Hk. exact (Hrej k Hk).
Qed.

(** * 7. Corollaries *)

(** the hypothesis on the key: bytes, right length, decoded s2 within +- eta *)
Definition sk_ok (P : params) (sk : list Z) : Prop :=
  Forall is_byte sk /\ zlen sk = pSK P /\
  match S_skDecode (pETA P) (pK P) (pL P) (pTR P) sk with
  | (_, _, _, _, s2, _) => Forall (eta_poly (pETA P)) s2 end.

Corollary sign_spec' P sk sig0 m rand tape sig tape' :
  std P -> sk_ok P sk -> Forall is_byte m -> zlen sig0 = pSIG P -> tape_ok P rand tape ->
  signature P sig0 m sk rand tape = Ok (sig, tape') ->
  S_sign P sk m (if rand then Some (firstn (Z.to_nat (rand_bytes P)) tape) else None) sig.
Proof. intros HP (B & L & E). exact (sign_spec P sk sig0 m rand tape sig tape' HP B L E). Qed.

(** every key in the specification's KeyGen relation (C04: every key that key generation produces) qualifies *)
Lemma keygen_sk_ok P xi pk sk : std P -> S_keygen P xi pk sk -> zlen sk = pSK P -> sk_ok P sk.
Proof.
  intros HP HS Lsk. destruct (keygen_bytes P xi pk sk HP HS) as (_ & Bsk).
  destruct (keygen_relation P xi pk sk HP HS) as (rho & key & tr & A & s1 & s2 & t1 & t0 & _ & Esk & _ & _ & _ & H2 & _).
  split; [exact Bsk|]. split; [exact Lsk|]. rewrite Esk. exact H2.
Qed.

Theorem sign_spec_keygen P xi pk sk sig0 m rand tape sig tape' :
  std P -> S_keygen P xi pk sk -> zlen sk = pSK P -> Forall is_byte m -> zlen sig0 = pSIG P -> tape_ok P rand tape ->
  signature P sig0 m sk rand tape = Ok (sig, tape') ->
  S_sign P sk m (if rand then Some (firstn (Z.to_nat (rand_bytes P)) tape) else None) sig.
Proof.
  intros HP HS Lsk. exact (sign_spec' P sk sig0 m rand tape sig tape' HP (keygen_sk_ok P xi pk sk HP HS Lsk)).
Qed.

(** seeded key generation of the library, then signing *)
Theorem sign_spec_keypair P xi pk0 sk0 tp pk sk tp' sig0 m rand tape sig tape' :
  std P -> Forall is_byte xi -> zlen xi = 32 -> zlen pk0 = pPK P -> zlen sk0 = pSK P ->
  keypair P pk0 sk0 (Some xi) tp = Ok (pk, sk, tp') ->
  Forall is_byte m -> zlen sig0 = pSIG P -> tape_ok P rand tape ->
  signature P sig0 m sk rand tape = Ok (sig, tape') ->
  S_sign P sk m (if rand then Some (firstn (Z.to_nat (rand_bytes P)) tape) else None) sig.
Proof.
  intros HP Bxi Lxi Lpk0 Lsk0 Hkp.
  destruct (keygen_spec P xi pk0 sk0 tp pk sk tp' HP Bxi Lxi Lpk0 Lsk0 Hkp) as (HS & _ & Lsk & _).
  exact (sign_spec_keygen P xi pk sk sig0 m rand tape sig tape' HP HS Lsk).
Qed.

(** ** deterministic signing: rnd absent.  ML-DSA: rho'' = H(K || 0^32 || mu); Dilithium: rho' = H(K || mu). *)
Theorem sign_spec_deterministic P sk sig0 m tape sig tape' :
  std P -> sk_ok P sk -> Forall is_byte m -> zlen sig0 = pSIG P ->
  signature P sig0 m sk false tape = Ok (sig, tape') ->
  S_sign P sk m None sig /\ tape' = tape.
Proof.
  intros HP Hsk Bm Ls H. split.
  - exact (sign_spec' P sk sig0 m false tape sig tape' HP Hsk Bm Ls ltac:(intros E; discriminate E) H).
  - exact (signature_deterministic_no_draw P sig0 m sk tape sig tape' H).
Qed.

Lemma S_rhopp_deterministic_mldsa P K mu : pMLDSA P = true ->
  S_rhopp P K None mu = S_shake 136 (K ++ repeatZ 0 32 ++ mu) 64.
Proof. intros H. unfold S_rhopp. rewrite H. reflexivity. Qed.
Lemma S_rhopp_deterministic_dilithium P K mu : pMLDSA P = false -> S_rhopp P K None mu = S_shake 136 (K ++ mu) 64.
Proof. intros H. unfold S_rhopp. rewrite H. reflexivity. Qed.
Lemma S_rhopp_hedged_mldsa P K rnd mu : pMLDSA P = true -> S_rhopp P K (Some rnd) mu = S_shake 136 (K ++ rnd ++ mu) 64.
Proof. intros H. unfold S_rhopp. rewrite H. reflexivity. Qed.
Lemma S_rhopp_randomized_dilithium P K r mu : pMLDSA P = false -> S_rhopp P K (Some r) mu = r.
Proof. intros H. unfold S_rhopp. rewrite H. reflexivity. Qed.

(** ** hedged ML-DSA / randomized Dilithium: the specification's signature for the bytes drawn
       (32 bytes used as rnd, resp. 64 bytes used as rho'), which are exactly the bytes taken from the tape *)
Theorem sign_spec_randomized P sk sig0 m tape sig tape' :
  std P -> sk_ok P sk -> Forall is_byte m -> zlen sig0 = pSIG P ->
  Forall is_byte (firstn (Z.to_nat (rand_bytes P)) tape) ->
  signature P sig0 m sk true tape = Ok (sig, tape') ->
  let drawn := firstn (Z.to_nat (rand_bytes P)) tape in
  S_sign P sk m (Some drawn) sig /\ zlen drawn = rand_bytes P /\ tape' = skipn (Z.to_nat (rand_bytes P)) tape.
Proof.
  intros HP Hsk Bm Ls Bt H drawn.
  destruct (signature_random_consumes P sig0 m sk tape sig tape' H) as (Hl & Et & _).
  split; [|split; [|exact Et]].
  - exact (sign_spec' P sk sig0 m true tape sig tape' HP Hsk Bm Ls ltac:(intros _; split; assumption) H).
  - unfold drawn. apply zlen_firstn_le. destruct (rand_bytes_cases P) as [E|E]; rewrite E in *; lia.
Qed.

(** ** the API level *)

(** Dilithium 3.1: SecretKey::sign(msg) = Sign(sk, msg), deterministic *)
Theorem dil_sign_spec P sk msg s :
  std P -> sk_ok P sk -> Forall is_byte msg -> dil_sign P sk msg = Ok s -> S_sign P sk msg None s.
Proof.
  intros HP Hsk Bm H. unfold dil_sign in H. bind_inv H r Hr. destruct r as [s' t']. apply PRing.Ok_inj in H. subst s'.
  exact (proj1 (sign_spec_deterministic P sk _ msg [] s t' HP Hsk Bm (sig_buffer_len P HP) Hr)).
Qed.

(** ML-DSA.Sign (FIPS 204 Alg. 2) = ML-DSA.Sign_internal(sk, M', rnd) with M' = 0 || |ctx| || ctx || M;
    rnd = the 32 bytes drawn (hedged) or absent (deterministic: 32 zero bytes) *)
Theorem ml_sign_spec P sk msg ctx hedged tape s tape' :
  std P -> sk_ok P sk -> Forall is_byte msg -> ctx_is_bytes ctx -> tape_ok P hedged tape ->
  ml_sign P sk msg ctx hedged tape = Ok (Some s, tape') ->
  S_sign P sk (frame_pure ctx msg) (if hedged then Some (firstn (Z.to_nat (rand_bytes P)) tape) else None) s.
Proof.
  intros HP Hsk Bm Bc Ht H. unfold ml_sign in H.
  destruct (ctx_too_long ctx) eqn:Hc; [discriminate|].
  bind_inv H r Hr. destruct r as [s' t']. apply PRing.Ok_inj in H.
  apply pair_equal_spec in H as [H1 H2]. injection H1 as ->. subst t'.
  exact (sign_spec' P sk _ (frame_pure ctx msg) hedged tape s tape' HP Hsk (frame_pure_bytes ctx msg Bc Bm)
           (sig_buffer_len P HP) Ht Hr).
Qed.

(** HashML-DSA.Sign (Alg. 4): M' = 1 || |ctx| || ctx || OID || PH(M) *)
Theorem ml_prehash_sign_spec P sk msg ctx hedged ph tape s tape' :
  std P -> sk_ok P sk -> ctx_is_bytes ctx -> tape_ok P hedged tape ->
  ml_prehash_sign P sk msg ctx hedged ph tape = Ok (Some s, tape') ->
  S_sign P sk (frame_hash ph ctx msg) (if hedged then Some (firstn (Z.to_nat (rand_bytes P)) tape) else None) s.
Proof.
  intros HP Hsk Bc Ht H. unfold ml_prehash_sign in H.
  destruct (ctx_too_long ctx) eqn:Hc; [discriminate|].
  bind_inv H r Hr. destruct r as [s' t']. apply PRing.Ok_inj in H.
  apply pair_equal_spec in H as [H1 H2]. injection H1 as ->. subst t'.
  exact (sign_spec' P sk _ (frame_hash ph ctx msg) hedged tape s tape' HP Hsk (frame_hash_bytes ph ctx msg Bc)
           (sig_buffer_len P HP) Ht Hr).
Qed.

(** the signature is unique: any two runs on the same key, message and randomness return the same bytes, and any
    implementation satisfying the specification returns the same bytes as this one *)
Corollary sign_spec_unique P sk sig0 m rand tape sig tape' sig' :
  std P -> sk_ok P sk -> Forall is_byte m -> zlen sig0 = pSIG P -> tape_ok P rand tape ->
  signature P sig0 m sk rand tape = Ok (sig, tape') ->
  S_sign P sk m (if rand then Some (firstn (Z.to_nat (rand_bytes P)) tape) else None) sig' -> sig' = sig.
Proof.
  intros HP Hsk Bm Ls Ht H H'.
  exact (S_sign_functional P sk m _ sig' sig H' (sign_spec' P sk sig0 m rand tape sig tape' HP Hsk Bm Ls Ht H)).
Qed.

Print Assumptions S_attempt_functional.
Print Assumptions S_sign_functional.
Print Assumptions inf_norm_centered.
Print Assumptions lowbits_test_equiv.
Print Assumptions hint_is_spec.
Print Assumptions norm_cs.
Print Assumptions outcome_of_mid.
Print Assumptions attempt_outcome_spec.
Print Assumptions sign_spec.
Print Assumptions sign_spec_keygen.
Print Assumptions sign_spec_keypair.
Print Assumptions sign_spec_deterministic.
Print Assumptions sign_spec_randomized.
Print Assumptions dil_sign_spec.
Print Assumptions ml_sign_spec.
Print Assumptions ml_prehash_sign_spec.
Print Assumptions sign_spec_unique.
