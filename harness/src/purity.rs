//! Purity probe for C10: a deterministic list of operations over all six parameter sets is evaluated
//! (a) each in isolation, in order, on the main thread; (b) shuffled, interleaved with other keys and
//! schemes, on `threads` barrier-started threads, `rounds` times. Every result of (b) must equal (a).
use crystals_dilithium as cd;
use std::sync::{Arc, Barrier};

#[derive(Clone)]
pub enum Op {
    Keygen(usize, Vec<u8>),
    Sign(usize, Vec<u8>, Vec<u8>),          // set, sk, msg (deterministic)
    Verify(usize, Vec<u8>, Vec<u8>, Vec<u8>), // set, sig, msg, pk
}

fn xorshift(s: &mut u64) -> u64 {
    *s ^= *s << 13;
    *s ^= *s >> 7;
    *s ^= *s << 17;
    *s
}

macro_rules! per_set {
    ($set:expr, $f:ident, $($arg:expr),*) => {
        match $set {
            0 => $f!(cd::sign::lvl2, cd::params::lvl2, $($arg),*),
            1 => $f!(cd::sign::lvl3, cd::params::lvl3, $($arg),*),
            2 => $f!(cd::sign::lvl5, cd::params::lvl5, $($arg),*),
            3 => $f!(cd::sign::ml_dsa_44, cd::params::ml_dsa_44, $($arg),*),
            4 => $f!(cd::sign::ml_dsa_65, cd::params::ml_dsa_65, $($arg),*),
            _ => $f!(cd::sign::ml_dsa_87, cd::params::ml_dsa_87, $($arg),*),
        }
    };
}
macro_rules! kg { ($s:path, $p:path, $seed:expr) => {{ use $s as s; use $p as p;
    let mut pk = vec![0u8; p::PUBLICKEYBYTES]; let mut sk = vec![0u8; p::SECRETKEYBYTES];
    s::keypair(&mut pk, &mut sk, Some($seed)); let mut r = pk; r.extend_from_slice(&sk); r }}; }
macro_rules! sg { ($s:path, $p:path, $sk:expr, $msg:expr) => {{ use $s as s; use $p as p;
    let mut sig = vec![0xA5u8; p::SIGNBYTES]; s::signature(&mut sig, $msg, $sk, false); sig }}; }
macro_rules! vf { ($s:path, $p:path, $sig:expr, $msg:expr, $pk:expr) => {{ use $s as s; #[allow(unused_imports)] use $p as p;
    vec![s::verify($sig, $msg, $pk) as u8] }}; }

pub fn eval(op: &Op) -> Vec<u8> {
    match op {
        Op::Keygen(set, seed) => per_set!(*set, kg, seed),
        Op::Sign(set, sk, msg) => per_set!(*set, sg, sk, msg),
        Op::Verify(set, sig, msg, pk) => per_set!(*set, vf, sig, msg, pk),
    }
}

fn pk_len(set: usize) -> usize {
    [1312, 1952, 2592, 1312, 1952, 2592][set]
}

/// returns (operations, evaluations under interleaving, mismatches, first mismatching op index or -1)
pub fn run(seed: u64, nkeys: usize, threads: usize, rounds: usize) -> (i64, i64, i64, i64) {
    let mut s = seed | 1;
    let mut ops: Vec<Op> = Vec::new();
    for k in 0..nkeys {
        let set = (xorshift(&mut s) % 6) as usize;
        let kseed: Vec<u8> = (0..32).map(|_| xorshift(&mut s) as u8).collect();
        let kp = eval(&Op::Keygen(set, kseed.clone()));
        let (pk, sk) = (kp[..pk_len(set)].to_vec(), kp[pk_len(set)..].to_vec());
        ops.push(Op::Keygen(set, kseed));
        for j in 0..2 {
            let mlen = [0usize, 1, 33, 104, 200][(xorshift(&mut s) % 5) as usize];
            let msg: Vec<u8> = (0..mlen).map(|_| xorshift(&mut s) as u8).collect();
            let sig = eval(&Op::Sign(set, sk.clone(), msg.clone()));
            ops.push(Op::Sign(set, sk.clone(), msg.clone()));
            ops.push(Op::Verify(set, sig.clone(), msg.clone(), pk.clone()));
            let mut bad = sig.clone();
            let i = (xorshift(&mut s) as usize) % (bad.len() * 8);
            bad[i / 8] ^= 1 << (i % 8);
            ops.push(Op::Verify(set, bad, msg.clone(), pk.clone()));
            // the sibling scheme of the same shape must reject
            if j == 0 {
                let sib = (set + 3) % 6;
                if sig.len() == [2420, 3293, 4595, 2420, 3309, 4627][sib] {
                    ops.push(Op::Verify(sib, sig.clone(), msg.clone(), pk.clone()));
                }
            }
        }
        let _ = k;
    }
    let isolated: Vec<Vec<u8>> = ops.iter().map(eval).collect();
    let ops = Arc::new(ops);
    let isolated = Arc::new(isolated);
    let mut evals = 0i64;
    let mut mism = 0i64;
    let mut first = -1i64;
    for round in 0..rounds {
        let barrier = Arc::new(Barrier::new(threads));
        let mut handles = Vec::new();
        for t in 0..threads {
            let (ops, isolated, barrier) = (ops.clone(), isolated.clone(), barrier.clone());
            let mut st = seed ^ ((round as u64) << 32) ^ (t as u64 + 1).wrapping_mul(0x9E3779B97F4A7C15);
            handles.push(std::thread::spawn(move || {
                let n = ops.len();
                let mut order: Vec<usize> = (0..n).collect();
                for i in (1..n).rev() {
                    let j = (xorshift(&mut st) as usize) % (i + 1);
                    order.swap(i, j);
                }
                barrier.wait();
                let mut bad = Vec::new();
                for &i in order.iter() {
                    if eval(&ops[i]) != isolated[i] {
                        bad.push(i as i64);
                    }
                }
                (n as i64, bad)
            }));
        }
        for h in handles {
            let (n, bad) = h.join().unwrap();
            evals += n;
            mism += bad.len() as i64;
            if first < 0 && !bad.is_empty() {
                first = bad[0];
            }
        }
    }
    (ops.len() as i64, evals, mism, first)
}
