//! History probe for C10: a list of operations with EXPECTED results (FNV-1a 64 digests computed by an independent
//! reference outside this process) is run (a) in order on one thread — so every operation sees the history left by all
//! earlier ones, including thread-local and process-wide state — and (b) shuffled on several barrier-started threads.
//! Returns the number of results that differ from the expectation and the index of the first one, for (a) and (b).
use crate::Arg;
use crystals_dilithium as cd;
use std::sync::{Arc, Barrier};

#[derive(Clone)]
pub struct Op {
    pub kind: i64,
    pub set: usize,
    pub b: Vec<Vec<u8>>,
    pub ctx: Option<Vec<u8>>,
    pub mode: i64,
    pub expect: u64,
}

pub fn fnv(data: &[u8]) -> u64 {
    let mut h: u64 = 0xcbf29ce484222325;
    for x in data {
        h ^= *x as u64;
        h = h.wrapping_mul(0x100000001b3);
    }
    h
}

macro_rules! low {
    ($s:path, $p:path, $op:expr) => {{
        use $p as p;
        use $s as s;
        match $op.kind {
            0 => {
                let mut pk = vec![0u8; p::PUBLICKEYBYTES];
                let mut sk = vec![0u8; p::SECRETKEYBYTES];
                s::keypair(&mut pk, &mut sk, Some(&$op.b[0]));
                pk.extend_from_slice(&sk);
                pk
            }
            1 => {
                let mut sig = vec![0x3Cu8; p::SIGNBYTES];
                s::signature(&mut sig, &$op.b[1], &$op.b[0], false);
                sig
            }
            2 => vec![s::verify(&$op.b[0], &$op.b[1], &$op.b[2]) as u8],
            // ---- noise operations (no expectation; they only leave history behind) ----
            5 => {   // randomized / hedged signing with the real RNG
                let mut sig = vec![0x3Cu8; p::SIGNBYTES];
                s::signature(&mut sig, &$op.b[1], &$op.b[0], true);
                sig
            }
            6 => {   // unseeded key generation
                let mut pk = vec![0u8; p::PUBLICKEYBYTES];
                let mut sk = vec![0u8; p::SECRETKEYBYTES];
                s::keypair(&mut pk, &mut sk, None);
                pk
            }
            7 => {   // malformed call: public key one byte short (panics inside verification)
                let pk = &$op.b[2];
                vec![s::verify(&$op.b[0], &$op.b[1], &pk[..pk.len() - 1]) as u8]
            }
            10 => {  // right-length secret key with corrupted CONTENT (out-of-range eta codes, extreme t0): signs or panics
                let mut sig = vec![0u8; p::SIGNBYTES];
                let mut sk = $op.b[0].clone();
                for b in sk.iter_mut().skip(96).take(200) { *b = 0xFF; }
                let n = sk.len();
                for b in sk.iter_mut().skip(n - 64) { *b = 0xFF; }
                s::signature(&mut sig, &$op.b[1], &sk, false);
                sig
            }
            _ => {   // malformed call: secret key one byte short (panics inside signing)
                let mut sig = vec![0u8; p::SIGNBYTES];
                let sk = &$op.b[0];
                s::signature(&mut sig, &$op.b[1], &sk[..sk.len() - 1], false);
                sig
            }
        }
    }};
}
macro_rules! dil {
    ($m:path, $op:expr) => {{
        use $m as api;
        match $op.kind {
            3 => api::SecretKey::from_bytes(&$op.b[0]).sign(&$op.b[1]).to_vec(),
            _ => vec![api::PublicKey::from_bytes(&$op.b[0]).verify(&$op.b[1], &$op.b[2]) as u8],
        }
    }};
}
macro_rules! ml {
    ($m:path, $op:expr) => {{
        use $m as api;
        let ctx = $op.ctx.as_deref();
        let ph = || if $op.mode == 2 { cd::PH::SHA512 } else { cd::PH::SHA256 };
        match $op.kind {
            3 | 9 => {   // 9 = hedged (noise operation)
                let hedged = $op.kind == 9;
                let sk = api::SecretKey::from_bytes(&$op.b[0]);
                let r = if $op.mode == 0 { sk.sign(&$op.b[1], ctx, hedged) } else { sk.prehash_sign(&$op.b[1], ctx, hedged, ph()) };
                match r { Some(s) => s.to_vec(), None => vec![] }
            }
            _ => {
                let pk = api::PublicKey::from_bytes(&$op.b[0]);
                let r = if $op.mode == 0 { pk.verify(&$op.b[1], &$op.b[2], ctx) } else { pk.prehash_verify(&$op.b[1], &$op.b[2], ctx, ph()) };
                vec![r as u8]
            }
        }
    }};
}

pub const NOISE: u64 = u64::MAX;

/// true when the operation's result equals its expectation; noise operations (expectation NOISE) run under catch_unwind
/// and always count as agreeing
pub fn agrees(op: &Op) -> bool {
    if op.expect == NOISE {
        let _ = std::panic::catch_unwind(|| eval(op));
        true
    } else {
        eval(op) == op.expect
    }
}

pub fn eval(op: &Op) -> u64 {
    let out: Vec<u8> = if op.kind <= 2 || (5..=8).contains(&op.kind) || op.kind == 10 {
        match op.set {
            0 => low!(cd::sign::lvl2, cd::params::lvl2, op),
            1 => low!(cd::sign::lvl3, cd::params::lvl3, op),
            2 => low!(cd::sign::lvl5, cd::params::lvl5, op),
            3 => low!(cd::sign::ml_dsa_44, cd::params::ml_dsa_44, op),
            4 => low!(cd::sign::ml_dsa_65, cd::params::ml_dsa_65, op),
            _ => low!(cd::sign::ml_dsa_87, cd::params::ml_dsa_87, op),
        }
    } else {
        match op.set {
            0 => dil!(cd::dilithium2, op),
            1 => dil!(cd::dilithium3, op),
            2 => dil!(cd::dilithium5, op),
            3 => ml!(cd::ml_dsa_44, op),
            4 => ml!(cd::ml_dsa_65, op),
            _ => ml!(cd::ml_dsa_87, op),
        }
    };
    fnv(&out)
}

fn bytes(a: &Arg) -> Vec<u8> {
    match a { Arg::Bytes(v) => v.clone(), _ => panic!("history: bytes expected") }
}
fn int(a: &Arg) -> i64 {
    match a { Arg::Int(v) => *v as i64, _ => panic!("history: int expected") }
}

/// args: threads rounds seed, then per op: kind set mode ctx(bytes | int 0 = None) expect(8 bytes) nbytes b1..bn
pub fn run(a: &[Arg]) -> Vec<i64> {
    let threads = int(&a[0]) as usize;
    let rounds = int(&a[1]) as usize;
    let seed = int(&a[2]) as u64;
    let mut ops = Vec::new();
    let mut i = 3;
    while i < a.len() {
        let kind = int(&a[i]); let set = int(&a[i + 1]) as usize; let mode = int(&a[i + 2]);
        let ctx = match &a[i + 3] { Arg::Bytes(v) => Some(v.clone()), _ => None };
        let e = bytes(&a[i + 4]);
        let expect = u64::from_le_bytes([e[0], e[1], e[2], e[3], e[4], e[5], e[6], e[7]]);
        let n = int(&a[i + 5]) as usize;
        let b: Vec<Vec<u8>> = (0..n).map(|k| bytes(&a[i + 6 + k])).collect();
        i += 6 + n;
        ops.push(Op { kind, set, b, ctx, mode, expect });
    }
    // (a) in order, one thread, repeated twice (second pass sees the whole first pass as history)
    let mut seq_bad = 0i64; let mut seq_first = -1i64;
    for pass in 0..2 {
        for (k, op) in ops.iter().enumerate() {
            if !agrees(op) {
                seq_bad += 1;
                if seq_first < 0 { seq_first = (pass * ops.len() + k) as i64; }
            }
        }
    }
    // (b) shuffled on threads
    let ops = Arc::new(ops);
    let mut par_bad = 0i64; let mut par_first = -1i64; let mut evals = 0i64;
    for round in 0..rounds {
        let barrier = Arc::new(Barrier::new(threads));
        let mut hs = Vec::new();
        for t in 0..threads {
            let (ops, barrier) = (ops.clone(), barrier.clone());
            let mut st = (seed ^ ((round as u64) << 32) ^ (t as u64 + 1).wrapping_mul(0x9E3779B97F4A7C15)) | 1;
            hs.push(std::thread::spawn(move || {
                let n = ops.len();
                let mut order: Vec<usize> = (0..n).collect();
                for i in (1..n).rev() {
                    st ^= st << 13; st ^= st >> 7; st ^= st << 17;
                    order.swap(i, (st as usize) % (i + 1));
                }
                barrier.wait();
                let mut bad = Vec::new();
                for &i in order.iter() {
                    if !agrees(&ops[i]) { bad.push(i as i64); }
                }
                (n as i64, bad)
            }));
        }
        for h in hs {
            let (n, bad) = h.join().unwrap();
            evals += n;
            par_bad += bad.len() as i64;
            if par_first < 0 && !bad.is_empty() { par_first = bad[0]; }
        }
    }
    vec![ops.len() as i64, seq_bad, seq_first, evals, par_bad, par_first]
}
