//! dvh: runs the real crate on a stream of cases (same line protocol as the model runner).
//! Input : <id> <fn> <copy> <arg>...     args: decimal int | x<hex> | i<int,int,...>
//! Output: <id> ok <val>... | <id> panic | <id> unknown
use std::io::{BufRead, Write};
use std::panic::{catch_unwind, AssertUnwindSafe};

mod dispatch;
mod purity;
mod history;

#[derive(Clone, Debug)]
pub enum Arg {
    Int(i128),
    Bytes(Vec<u8>),
    Ints(Vec<i128>),
}

pub enum Out {
    Int(i128),
    Bytes(Vec<u8>),
    Ints(Vec<i128>),
}

fn parse_arg(s: &str) -> Arg {
    if let Some(h) = s.strip_prefix('x') {
        let b = h.as_bytes();
        let mut v = Vec::with_capacity(b.len() / 2);
        for i in 0..b.len() / 2 {
            let hi = (b[2 * i] as char).to_digit(16).unwrap() as u8;
            let lo = (b[2 * i + 1] as char).to_digit(16).unwrap() as u8;
            v.push(hi * 16 + lo);
        }
        Arg::Bytes(v)
    } else if let Some(l) = s.strip_prefix('i') {
        if l.is_empty() {
            Arg::Ints(vec![])
        } else {
            Arg::Ints(l.split(',').map(|t| t.parse::<i128>().unwrap()).collect())
        }
    } else {
        Arg::Int(s.parse::<i128>().unwrap())
    }
}

fn fmt_out(o: &Out, s: &mut String) {
    use std::fmt::Write;
    match o {
        Out::Int(v) => write!(s, "{}", v).unwrap(),
        Out::Bytes(b) => {
            s.push('x');
            for x in b {
                write!(s, "{:02x}", x).unwrap();
            }
        }
        Out::Ints(l) => {
            s.push('i');
            for (k, x) in l.iter().enumerate() {
                if k > 0 {
                    s.push(',');
                }
                write!(s, "{}", x).unwrap();
            }
        }
    }
}

fn main() {
    std::panic::set_hook(Box::new(|_| {}));
    let stdin = std::io::stdin();
    let stdout = std::io::stdout();
    let mut out = std::io::BufWriter::new(stdout.lock());
    for line in stdin.lock().lines() {
        let line = line.unwrap();
        if line.is_empty() || line.starts_with('#') {
            continue;
        }
        let mut it = line.split(' ').filter(|t| !t.is_empty());
        let id = it.next().unwrap().to_string();
        let f = it.next().unwrap().to_string();
        let copy = it.next().unwrap().to_string();
        let args: Vec<Arg> = it.map(parse_arg).collect();
        // "<fn>~d": the same operation with its OUTPUT objects pre-filled with old values (results must not depend on them)
        let (f, dirty) = match f.strip_suffix("~d") { Some(b) => (b.to_string(), true), None => (f, false) };
        dispatch::DIRTY.with(|d| d.set(dirty));
        let r = catch_unwind(AssertUnwindSafe(|| dispatch::dispatch(&f, &copy, &args)));
        dispatch::DIRTY.with(|d| d.set(false));
        let mut s = String::new();
        s.push_str(&id);
        match r {
            Ok(Some(outs)) => {
                s.push_str(" ok");
                for o in &outs {
                    s.push(' ');
                    fmt_out(o, &mut s);
                }
            }
            Ok(None) => s.push_str(" unknown"),
            Err(_) => s.push_str(" panic"),
        }
        writeln!(out, "{}", s).unwrap();
        out.flush().unwrap();
    }
}
