//! Dispatch table: real crate function for each (fn, copy). Mirrors coq/extract/dispatch.ml.
#![allow(clippy::all)]
use crate::{Arg, Out};
use crystals_dilithium as cd;
use cd::poly::Poly;

fn int(a: &Arg) -> i128 {
    match a {
        Arg::Int(v) => *v,
        _ => panic!("harness: expected int"),
    }
}
fn bytes(a: &Arg) -> &[u8] {
    match a {
        Arg::Bytes(v) => v,
        _ => panic!("harness: expected bytes"),
    }
}
fn ints(a: &Arg) -> &[i128] {
    match a {
        Arg::Ints(v) => v,
        _ => panic!("harness: expected ints"),
    }
}
fn i32s(a: &Arg) -> Option<Vec<i32>> {
    ints(a).iter().map(|x| i32::try_from(*x).ok()).collect()
}
fn poly(a: &Arg) -> Option<Poly> {
    let v = i32s(a)?;
    if v.len() != 256 {
        return None;
    }
    let mut p = Poly::default();
    p.coeffs.copy_from_slice(&v);
    Some(p)
}
thread_local! { pub static DIRTY: std::cell::Cell<bool> = std::cell::Cell::new(false); }
/// A polynomial to be used as an OUTPUT object: all-zero normally; when the case's function name carries the suffix "~d"
/// (dirty-output variant) it holds arbitrary non-zero old values, as a reused work object would.
fn np() -> Poly {
    let mut p = Poly::default();
    if DIRTY.with(|d| d.get()) {
        for (i, c) in p.coeffs.iter_mut().enumerate() { *c = 1234567 - (i as i32) * 7919; }
    }
    p
}
fn opoly(p: &Poly) -> Out {
    Out::Ints(p.coeffs.iter().map(|x| *x as i128).collect())
}
fn oint<T: Into<i128>>(v: T) -> Out {
    Out::Int(v.into())
}
fn obytes(b: &[u8]) -> Out {
    Out::Bytes(b.to_vec())
}
fn octx(a: &Arg) -> Option<&[u8]> {
    match a {
        Arg::Bytes(v) => Some(v),
        _ => None,
    }
}

// ---------------------------------------------------------------- per polyvec level (lvl2, lvl3, lvl5)
macro_rules! vec_level {
    ($modname:ident, $pv:path, $K:expr, $L:expr) => {
        mod $modname {
            use super::*;
            use $pv as pv;
            pub const K: usize = $K;
            pub const L: usize = $L;
            pub fn nk() -> pv::Polyveck { let mut v = pv::Polyveck::default(); for p in v.vec.iter_mut() { *p = np(); } v }
            pub fn nl() -> pv::Polyvecl { let mut v = pv::Polyvecl::default(); for p in v.vec.iter_mut() { *p = np(); } v }
            pub fn veck(a: &Arg) -> Option<pv::Polyveck> {
                let v = i32s(a)?;
                if v.len() != K * 256 {
                    return None;
                }
                let mut r = pv::Polyveck::default();
                for i in 0..K {
                    r.vec[i].coeffs.copy_from_slice(&v[i * 256..(i + 1) * 256]);
                }
                Some(r)
            }
            pub fn vecl(a: &Arg) -> Option<pv::Polyvecl> {
                let v = i32s(a)?;
                if v.len() != L * 256 {
                    return None;
                }
                let mut r = pv::Polyvecl::default();
                for i in 0..L {
                    r.vec[i].coeffs.copy_from_slice(&v[i * 256..(i + 1) * 256]);
                }
                Some(r)
            }
            pub fn ok(v: &pv::Polyveck) -> Out {
                Out::Ints(v.vec.iter().flat_map(|p| p.coeffs.iter().map(|x| *x as i128)).collect())
            }
            pub fn ol(v: &pv::Polyvecl) -> Out {
                Out::Ints(v.vec.iter().flat_map(|p| p.coeffs.iter().map(|x| *x as i128)).collect())
            }
            pub fn dispatch(f: &str, a: &[Arg]) -> Option<Vec<Out>> {
                Some(match f {
                    "matrix_expand" => {
                        let mut m = [pv::Polyvecl::default(); K];
                        pv::matrix_expand(&mut m, bytes(&a[0]));
                        vec![Out::Ints(m.iter().flat_map(|r| r.vec.iter().flat_map(|p| p.coeffs.iter().map(|x| *x as i128))).collect())]
                    }
                    "matrix_pointwise" | "matrix_pointwise_dirty" => {
                        let v = i32s(&a[0])?;
                        if v.len() != K * L * 256 {
                            return None;
                        }
                        let mut m = [pv::Polyvecl::default(); K];
                        for i in 0..K {
                            for j in 0..L {
                                let o = (i * L + j) * 256;
                                m[i].vec[j].coeffs.copy_from_slice(&v[o..o + 256]);
                            }
                        }
                        let vv = vecl(&a[1])?;
                        // _dirty: the output vector holds arbitrary old values on entry (a reused work buffer)
                        let mut t = if f == "matrix_pointwise_dirty" { veck(&a[2])? } else { nk() };
                        pv::matrix_pointwise_montgomery(&mut t, &m, &vv);
                        vec![ok(&t)]
                    }
                    "l_pointwise_acc" | "l_pointwise_acc_dirty" => {
                        let (u, v) = (vecl(&a[0])?, vecl(&a[1])?);
                        let mut w = np();
                        if f == "l_pointwise_acc_dirty" { w.coeffs.copy_from_slice(&i32s(&a[2])?[..256]); }
                        pv::l_pointwise_acc_montgomery(&mut w, &u, &v);
                        vec![opoly(&w)]
                    }
                    "l_uniform_eta" => {
                        let mut v = nl();
                        pv::l_uniform_eta(&mut v, bytes(&a[0]), u16::try_from(int(&a[1])).ok()?);
                        vec![ol(&v)]
                    }
                    "k_uniform_eta" => {
                        let mut v = nk();
                        pv::k_uniform_eta(&mut v, bytes(&a[0]), u16::try_from(int(&a[1])).ok()?);
                        vec![ok(&v)]
                    }
                    "l_uniform_gamma1" => {
                        let mut v = nl();
                        pv::l_uniform_gamma1(&mut v, bytes(&a[0]), u16::try_from(int(&a[1])).ok()?);
                        vec![ol(&v)]
                    }
                    "l_reduce" => { let mut v = vecl(&a[0])?; pv::l_reduce(&mut v); vec![ol(&v)] }
                    "k_reduce" => { let mut v = veck(&a[0])?; pv::k_reduce(&mut v); vec![ok(&v)] }
                    "k_caddq" => { let mut v = veck(&a[0])?; pv::k_caddq(&mut v); vec![ok(&v)] }
                    "l_ntt" => { let mut v = vecl(&a[0])?; pv::l_ntt(&mut v); vec![ol(&v)] }
                    "k_ntt" => { let mut v = veck(&a[0])?; pv::k_ntt(&mut v); vec![ok(&v)] }
                    "l_invntt" => { let mut v = vecl(&a[0])?; pv::l_invntt_tomont(&mut v); vec![ol(&v)] }
                    "k_invntt" => { let mut v = veck(&a[0])?; pv::k_invntt_tomont(&mut v); vec![ok(&v)] }
                    "k_shiftl" => { let mut v = veck(&a[0])?; pv::k_shiftl(&mut v); vec![ok(&v)] }
                    "l_add" => { let mut w = vecl(&a[0])?; let v = vecl(&a[1])?; pv::l_add(&mut w, &v); vec![ol(&w)] }
                    "k_add" => { let mut w = veck(&a[0])?; let v = veck(&a[1])?; pv::k_add(&mut w, &v); vec![ok(&w)] }
                    "k_sub" => { let mut w = veck(&a[0])?; let v = veck(&a[1])?; pv::k_sub(&mut w, &v); vec![ok(&w)] }
                    "l_pointwise_poly" => {
                        let p = poly(&a[0])?; let v = vecl(&a[1])?;
                        let mut r = nl();
                        pv::l_pointwise_poly_montgomery(&mut r, &p, &v);
                        vec![ol(&r)]
                    }
                    "k_pointwise_poly" => {
                        let p = poly(&a[0])?; let v = veck(&a[1])?;
                        let mut r = nk();
                        pv::k_pointwise_poly_montgomery(&mut r, &p, &v);
                        vec![ok(&r)]
                    }
                    "l_chknorm" => { let v = vecl(&a[0])?; vec![oint(pv::l_chknorm(&v, i32::try_from(int(&a[1])).ok()?))] }
                    "k_chknorm" => { let v = veck(&a[0])?; vec![oint(pv::k_chknorm(&v, i32::try_from(int(&a[1])).ok()?))] }
                    "k_power2round" => {
                        let mut v1 = veck(&a[0])?; let mut v0 = veck(&a[1])?;
                        pv::k_power2round(&mut v1, &mut v0);
                        vec![ok(&v1), ok(&v0)]
                    }
                    "k_decompose" => {
                        let mut v1 = veck(&a[0])?; let mut v0 = veck(&a[1])?;
                        pv::k_decompose(&mut v1, &mut v0);
                        vec![ok(&v1), ok(&v0)]
                    }
                    "k_make_hint" => {
                        let v0 = veck(&a[0])?; let v1 = veck(&a[1])?;
                        let mut h = nk();
                        let s = pv::k_make_hint(&mut h, &v0, &v1);
                        vec![ok(&h), oint(s)]
                    }
                    "k_use_hint" => { let mut x = veck(&a[0])?; let h = veck(&a[1])?; pv::k_use_hint(&mut x, &h); vec![ok(&x)] }
                    "k_pack_w1" => {
                        let mut r = bytes(&a[0]).to_vec(); let x = veck(&a[1])?;
                        pv::k_pack_w1(&mut r, &x);
                        vec![obytes(&r)]
                    }
                    _ => return None,
                })
            }
        }
    };
}
vec_level!(v2, cd::polyvec::lvl2, 4, 4);
vec_level!(v3, cd::polyvec::lvl3, 6, 5);
vec_level!(v5, cd::polyvec::lvl5, 8, 7);

// ---------------------------------------------------------------- per rounding level
macro_rules! rounding_level {
    ($f:expr, $a:expr, $m:path) => {{
        use $m as r;
        match $f {
            "decompose" => { let (a0, a1) = r::decompose(i32::try_from(int(&$a[0])).ok()?); Some(vec![oint(a0), oint(a1)]) }
            "make_hint" => Some(vec![oint(r::make_hint(i32::try_from(int(&$a[0])).ok()?, i32::try_from(int(&$a[1])).ok()?))]),
            "use_hint" => Some(vec![oint(r::use_hint(i32::try_from(int(&$a[0])).ok()?, i32::try_from(int(&$a[1])).ok()?))]),
            _ => None,
        }
    }};
}

// ---------------------------------------------------------------- per poly set (6 copies)
macro_rules! poly_set {
    ($f:expr, $a:expr, $m:path, $scripted256:expr) => {{
        use $m as p;
        match $f {
            "poly_decompose" => {
                let mut a1 = poly(&$a[0])?; let mut a0 = np();
                p::decompose(&mut a1, &mut a0);
                Some(vec![opoly(&a1), opoly(&a0)])
            }
            "poly_make_hint" => {
                let a0 = poly(&$a[0])?; let a1 = poly(&$a[1])?; let mut h = np();
                let s = p::make_hint(&mut h, &a0, &a1);
                Some(vec![opoly(&h), oint(s)])
            }
            "poly_use_hint" => { let mut x = poly(&$a[0])?; let h = poly(&$a[1])?; p::use_hint(&mut x, &h); Some(vec![opoly(&x)]) }
            "poly_use_hint_ip" => { let mut x = poly(&$a[0])?; let h = poly(&$a[1])?; p::use_hint_ip(&mut x, &h); Some(vec![opoly(&x)]) }
            "rej_eta" => {
                let mut v = i32s(&$a[0])?;
                let alen = usize::try_from(int(&$a[1])).ok()?;
                let buf = bytes(&$a[2]);
                let buflen = usize::try_from(int(&$a[3])).ok()?;
                let c = p::rej_eta(&mut v, alen, buf, buflen);
                Some(vec![Out::Ints(v.iter().map(|x| *x as i128).collect()), Out::Int(c as i128)])
            }
            "uniform_eta" => { let mut x = np(); p::uniform_eta(&mut x, bytes(&$a[0]), u16::try_from(int(&$a[1])).ok()?); Some(vec![opoly(&x)]) }
            "uniform_eta_tap" => {
                let mut x = np();
                cd::verif_hooks::xof_script(Some(bytes(&$a[0]).to_vec()));
                let r = std::panic::catch_unwind(std::panic::AssertUnwindSafe(|| p::uniform_eta(&mut x, &[0u8; 64], 0)));
                cd::verif_hooks::xof_script(None);
                if r.is_err() { panic!("tap") }
                Some(vec![opoly(&x)])
            }
            "uniform_gamma1" => { let mut x = np(); p::uniform_gamma1(&mut x, bytes(&$a[0]), u16::try_from(int(&$a[1])).ok()?); Some(vec![opoly(&x)]) }
            "challenge" => { let mut x = np(); p::challenge(&mut x, bytes(&$a[0])); Some(vec![opoly(&x)]) }
            "challenge_tap" => {
                let mut x = np();
                cd::verif_hooks::xof_script(Some(bytes(&$a[0]).to_vec()));
                let r = std::panic::catch_unwind(std::panic::AssertUnwindSafe(|| p::challenge(&mut x, &[0u8; 64])));
                cd::verif_hooks::xof_script(None);
                if r.is_err() { panic!("tap") }
                Some(vec![opoly(&x)])
            }
            "eta_pack" => { let mut r = bytes(&$a[0]).to_vec(); let x = poly(&$a[1])?; p::eta_pack(&mut r, &x); Some(vec![obytes(&r)]) }
            "eta_unpack" => { let mut x = np(); p::eta_unpack(&mut x, bytes(&$a[0])); Some(vec![opoly(&x)]) }
            "z_pack" => { let mut r = bytes(&$a[0]).to_vec(); let x = poly(&$a[1])?; p::z_pack(&mut r, &x); Some(vec![obytes(&r)]) }
            "z_unpack" => { let mut x = np(); p::z_unpack(&mut x, bytes(&$a[0])); Some(vec![opoly(&x)]) }
            "w1_pack" => { let mut r = bytes(&$a[0]).to_vec(); let x = poly(&$a[1])?; p::w1_pack(&mut r, &x); Some(vec![obytes(&r)]) }
            _ => None,
        }
    }};
}

// ---------------------------------------------------------------- per packing/sign/api set (6 copies)
macro_rules! full_set {
    ($modname:ident, $vl:ident, $pack:path, $sign:path, $par:path, $trbytes:expr) => {
        mod $modname {
            use super::*;
            use super::$vl as vl;
            use $pack as pk_;
            use $sign as sg_;
            use $par as par;
            pub fn dispatch(f: &str, a: &[Arg]) -> Option<Vec<Out>> {
                Some(match f {
                    "pack_pk" => {
                        let mut pk = bytes(&a[0]).to_vec(); let t1 = vl::veck(&a[2])?;
                        pk_::pack_pk(&mut pk, bytes(&a[1]), &t1);
                        vec![obytes(&pk)]
                    }
                    "unpack_pk" => {
                        let mut rho = [0u8; 32]; let mut t1 = Default::default();
                        pk_::unpack_pk(&mut rho, &mut t1, bytes(&a[0]));
                        vec![obytes(&rho), vl::ok(&t1)]
                    }
                    "pack_sk" => {
                        let mut sk = bytes(&a[0]).to_vec();
                        let (t0, s1, s2) = (vl::veck(&a[4])?, vl::vecl(&a[5])?, vl::veck(&a[6])?);
                        pk_::pack_sk(&mut sk, bytes(&a[1]), bytes(&a[2]), bytes(&a[3]), &t0, &s1, &s2);
                        vec![obytes(&sk)]
                    }
                    "unpack_sk" => {
                        let mut rho = [0u8; 32]; let mut tr = [0u8; $trbytes]; let mut key = [0u8; 32];
                        let (mut t0, mut s1, mut s2) = (Default::default(), Default::default(), Default::default());
                        pk_::unpack_sk(&mut rho, &mut tr, &mut key, &mut t0, &mut s1, &mut s2, bytes(&a[0]));
                        vec![obytes(&rho), obytes(&tr), obytes(&key), vl::ok(&t0), vl::ol(&s1), vl::ok(&s2)]
                    }
                    "pack_sig" => {
                        let mut sig = bytes(&a[0]).to_vec();
                        let z = vl::vecl(&a[2])?; let h = vl::veck(&a[3])?;
                        pk_::pack_sig(&mut sig, octx(&a[1]), &z, &h);
                        vec![obytes(&sig)]
                    }
                    "unpack_sig" => {
                        let mut c = vec![0u8; par::SIGNBYTES - vl::L * par::POLYZ_PACKEDBYTES - par::POLYVECH_PACKEDBYTES];
                        let mut z = Default::default(); let mut h = vl::veck(&a[1])?;
                        let ok = pk_::unpack_sig(&mut c, &mut z, &mut h, bytes(&a[0]));
                        vec![obytes(&c), vl::ol(&z), vl::ok(&h), oint(ok as i32)]
                    }
                    "keypair" => {
                        let mut pk = vec![0u8; par::PUBLICKEYBYTES]; let mut sk = vec![0u8; par::SECRETKEYBYTES];
                        sg_::keypair(&mut pk, &mut sk, Some(bytes(&a[0])));
                        vec![obytes(&pk), obytes(&sk)]
                    }
                    "keypair_rand" => {
                        let mut pk = vec![0u8; par::PUBLICKEYBYTES]; let mut sk = vec![0u8; par::SECRETKEYBYTES];
                        let tape = bytes(&a[0]).to_vec();
                        let n = tape.len();
                        cd::verif_hooks::rng_script(Some(tape));
                        cd::verif_hooks::rng_take_log();
                        let r = std::panic::catch_unwind(std::panic::AssertUnwindSafe(|| sg_::keypair(&mut pk, &mut sk, None)));
                        cd::verif_hooks::rng_script(None);
                        let used: usize = cd::verif_hooks::rng_take_log().iter().map(|x| x.len()).sum();
                        if r.is_err() { panic!("keypair") }
                        vec![obytes(&pk), obytes(&sk), oint((n - used) as i64)]
                    }
                    "signature" => {
                        let mut sig = bytes(&a[0]).to_vec();
                        let tape = bytes(&a[4]).to_vec();
                        let n = tape.len();
                        cd::verif_hooks::rng_script(Some(tape));
                        cd::verif_hooks::rng_take_log();
                        let r = std::panic::catch_unwind(std::panic::AssertUnwindSafe(||
                            sg_::signature(&mut sig, bytes(&a[1]), bytes(&a[2]), int(&a[3]) != 0)));
                        cd::verif_hooks::rng_script(None);
                        let used: usize = cd::verif_hooks::rng_take_log().iter().map(|x| x.len()).sum();
                        if r.is_err() { panic!("signature") }
                        vec![obytes(&sig), oint((n - used) as i64)]
                    }
                    "verify" => vec![oint(sg_::verify(bytes(&a[0]), bytes(&a[1]), bytes(&a[2])) as i32)],
                    // every single-bit flip of the signature: number accepted, first accepted bit index (or -1)
                    "verify_flips" => {
                        let mut sig = bytes(&a[0]).to_vec();
                        let (m, pk) = (bytes(&a[1]), bytes(&a[2]));
                        let mut acc = 0i64; let mut first = -1i64;
                        for i in 0..sig.len() * 8 {
                            sig[i / 8] ^= 1 << (i % 8);
                            if sg_::verify(&sig, m, pk) { acc += 1; if first < 0 { first = i as i64; } }
                            sig[i / 8] ^= 1 << (i % 8);
                        }
                        vec![oint(acc), oint(first), oint(sg_::verify(&sig, m, pk) as i32)]
                    }
                    // every single-bit flip of the PUBLIC KEY: number accepted, first accepted bit index (or -1)
                    "verify_pk_flips" => {
                        let sig = bytes(&a[0]); let m = bytes(&a[1]);
                        let mut pk = bytes(&a[2]).to_vec();
                        let mut acc = 0i64; let mut first = -1i64;
                        for i in 0..pk.len() * 8 {
                            pk[i / 8] ^= 1 << (i % 8);
                            if sg_::verify(sig, m, &pk) { acc += 1; if first < 0 { first = i as i64; } }
                            pk[i / 8] ^= 1 << (i % 8);
                        }
                        vec![oint(acc), oint(first), oint(sg_::verify(sig, m, &pk) as i32)]
                    }
                    // honest-path volume: n key generations (and one signature + verification every `every` keys) under
                    // catch_unwind; returns panics, first panicking seed, sign/verify failures
                    "keygen_volume" => {
                        let mut st = (int(&a[0]) as u64) | 1;
                        let n = int(&a[1]) as usize; let every = (int(&a[2]) as usize).max(1);
                        let mut next = move || { st ^= st << 13; st ^= st >> 7; st ^= st << 17; st };
                        let mut pan = 0i64; let mut first: Vec<u8> = vec![]; let mut bad = 0i64;
                        for i in 0..n {
                            let seed: Vec<u8> = (0..32).map(|_| next() as u8).collect();
                            let r = std::panic::catch_unwind(|| {
                                let mut pk = vec![0u8; par::PUBLICKEYBYTES]; let mut sk = vec![0u8; par::SECRETKEYBYTES];
                                sg_::keypair(&mut pk, &mut sk, Some(&seed));
                                if i % every == 0 {
                                    let mut sig = vec![0u8; par::SIGNBYTES];
                                    sg_::signature(&mut sig, &seed, &sk, false);
                                    sg_::verify(&sig, &seed, &pk)
                                } else { true }
                            });
                            match r {
                                Ok(true) => {}
                                Ok(false) => bad += 1,
                                Err(_) => { pan += 1; if first.is_empty() { first = seed.clone(); } }
                            }
                        }
                        vec![oint(pan), obytes(&first), oint(bad)]
                    }
                    // search: key from seed; messages i (4 bytes LE) for i < n, signed deterministically; returns the first
                    // message whose signature carries exactly `target` hints (last counter byte), with pk and signature
                    // search: first message i < n (4 bytes LE, deterministic signing under the key from `seed`) whose signature has a
                    // polynomial WITHOUT any hint (two equal consecutive counters, or a first counter of 0)
                    "hint_empty_row_search" => {
                        let n = int(&a[1]) as u32;
                        let mut pk = vec![0u8; par::PUBLICKEYBYTES]; let mut sk = vec![0u8; par::SECRETKEYBYTES];
                        sg_::keypair(&mut pk, &mut sk, Some(bytes(&a[0])));
                        let mut sig = vec![0u8; par::SIGNBYTES];
                        let mut found: i64 = -1;
                        let cnt0 = par::SIGNBYTES - vl::K;
                        for i in 0..n {
                            sg_::signature(&mut sig, &i.to_le_bytes(), &sk, false);
                            let mut prev = 0u8; let mut empty = false;
                            for r in 0..vl::K { let c = sig[cnt0 + r]; if c == prev { empty = true; } prev = c; }
                            if empty { found = i as i64; break; }
                        }
                        vec![oint(found), obytes(&pk), obytes(&sig)]
                    }
                    "hint_weight_search" => {
                        let n = int(&a[1]) as u32; let target = int(&a[2]) as u8;
                        let mut pk = vec![0u8; par::PUBLICKEYBYTES]; let mut sk = vec![0u8; par::SECRETKEYBYTES];
                        sg_::keypair(&mut pk, &mut sk, Some(bytes(&a[0])));
                        let mut sig = vec![0u8; par::SIGNBYTES];
                        let mut found: i64 = -1; let mut maxw = 0u8;
                        for i in 0..n {
                            let m = i.to_le_bytes();
                            sg_::signature(&mut sig, &m, &sk, false);
                            let w = sig[par::SIGNBYTES - 1];
                            if w > maxw { maxw = w; }
                            if w == target { found = i as i64; break; }
                        }
                        vec![oint(found), oint(maxw as i64), obytes(&pk), obytes(&sig)]
                    }
                    // key generation into caller buffers of any size and content (the slice API only requires "at least" the
                    // standard sizes): returns both whole buffers
                    "keypair_buf" => {
                        let mut pk = bytes(&a[0]).to_vec(); let mut sk = bytes(&a[1]).to_vec();
                        sg_::keypair(&mut pk, &mut sk, Some(bytes(&a[2])));
                        vec![obytes(&pk), obytes(&sk)]
                    }
                    // corpus search (run offline on the unmodified crate): seeds seed0+i whose t = A*s1 + s2 has a coefficient equal to
                    // `target` (0 or q-1), read back from the generated key as t1*2^13 + t0; returns the first such index or -1
                    "t_value_search" => {
                        let n = int(&a[1]) as u64; let target = int(&a[2]) as i64;
                        let base = bytes(&a[0]).to_vec();
                        let mut found: i64 = -1; let mut fseed: Vec<u8> = vec![];
                        for i in 0..n {
                            let mut seed = base.clone();
                            seed[..8].copy_from_slice(&i.to_le_bytes());
                            let mut pk = vec![0u8; par::PUBLICKEYBYTES]; let mut sk = vec![0u8; par::SECRETKEYBYTES];
                            sg_::keypair(&mut pk, &mut sk, Some(&seed));
                            let mut rho = [0u8; 32]; let mut t1 = vl::nk();
                            pk_::unpack_pk(&mut rho, &mut t1, &pk);
                            let mut tr = [0u8; $trbytes]; let mut key = [0u8; 32];
                            let (mut t0, mut s1, mut s2) = (vl::nk(), vl::nl(), vl::nk());
                            pk_::unpack_sk(&mut rho, &mut tr, &mut key, &mut t0, &mut s1, &mut s2, &sk);
                            let mut hit = false;
                            for r in 0..vl::K { for c in 0..256 {
                                if (t1.vec[r].coeffs[c] as i64) * 8192 + (t0.vec[r].coeffs[c] as i64) == target { hit = true; }
                            } }
                            if hit { found = i as i64; fseed = seed; break; }
                        }
                        vec![oint(found), obytes(&fseed)]
                    }
                    "keypair_digest" => {
                        let mut pk = vec![0u8; par::PUBLICKEYBYTES]; let mut sk = vec![0u8; par::SECRETKEYBYTES];
                        sg_::keypair(&mut pk, &mut sk, Some(bytes(&a[0])));
                        pk.extend_from_slice(&sk);
                        let mut d = [0u8; 32];
                        cd::fips202::shake256(&mut d, 32, &pk, pk.len());
                        vec![obytes(&d)]
                    }
                    // volume self-check: n messages signed into ONE reused (never cleared) buffer and verified; a fresh key
                    // every `per_key` messages. Returns failures, index and message of the first failure, max attempts unknown.
                    "selfcheck" => {
                        let mut st = (int(&a[0]) as u64) | 1;
                        let n = int(&a[1]) as usize; let per_key = int(&a[2]) as usize; let rand = int(&a[3]) != 0;
                        let mut next = move || { st ^= st << 13; st ^= st >> 7; st ^= st << 17; st };
                        let mut pk = vec![0u8; par::PUBLICKEYBYTES]; let mut sk = vec![0u8; par::SECRETKEYBYTES];
                        let mut sig = vec![0x5Au8; par::SIGNBYTES];
                        let mut fails = 0i64; let mut first: i64 = -1; let mut fmsg: Vec<u8> = vec![]; let mut fseed: Vec<u8> = vec![];
                        let mut sbad = 0i64; let mut sfirst: i64 = -1; let mut smsg: Vec<u8> = vec![]; let mut sseed: Vec<u8> = vec![]; let mut swhy = 0i64;
                        let ct = par::SIGNBYTES - vl::L * par::POLYZ_PACKEDBYTES - par::POLYVECH_PACKEDBYTES;
                        let zbits: usize = if par::POLYZ_PACKEDBYTES == 576 { 18 } else { 20 };
                        let g1: i64 = 1 << (zbits - 1);
                        let zbound: i64 = g1 - par::BETA as i64;
                        let mut seed = vec![0u8; 32];
                        for i in 0..n {
                            if i % per_key == 0 {
                                for b in seed.iter_mut() { *b = next() as u8; }
                                sg_::keypair(&mut pk, &mut sk, Some(&seed));
                            }
                            let mlen = [0usize, 1, 8, 33, 72, 73, 104, 105, 200][(next() % 9) as usize];
                            let msg: Vec<u8> = (0..mlen).map(|_| next() as u8).collect();
                            sg_::signature(&mut sig, &msg, &sk, rand);
                            if !sg_::verify(&sig, &msg, &pk) {
                                fails += 1;
                                if first < 0 { first = i as i64; fmsg = msg.clone(); fseed = seed.clone(); }
                            }
                            // independent structural decode of the emitted bytes: ||z|| < gamma1-beta, canonical hints, weight <= omega
                            let mut why = 0i64;
                            for k in 0..vl::L * 256 {
                                let bit = k * zbits; let base = ct + bit / 8;
                                let mut acc: u64 = 0;
                                for b in 0..4 { if base + b < sig.len() { acc |= (sig[base + b] as u64) << (8 * b); } }
                                let v = ((acc >> (bit % 8)) & ((1u64 << zbits) - 1)) as i64;
                                if (g1 - v).abs() >= zbound { why = 1; }
                            }
                            let ho = ct + vl::L * par::POLYZ_PACKEDBYTES;
                            let om = par::OMEGA;
                            let mut idx = 0usize;
                            for r in 0..vl::K {
                                let c = sig[ho + om + r] as usize;
                                if c < idx || c > om { why = 2; break; }
                                for j in idx..c { if j > idx && sig[ho + j] <= sig[ho + j - 1] { why = 2; } }
                                idx = c;
                            }
                            if why == 0 { for j in idx..om { if sig[ho + j] != 0 { why = 2; } } }
                            if why != 0 {
                                sbad += 1;
                                if sfirst < 0 { sfirst = i as i64; smsg = msg.clone(); sseed = seed.clone(); swhy = why; }
                            }
                        }
                        vec![oint(fails), oint(first), obytes(&fseed), obytes(&fmsg), oint(sbad), oint(swhy), obytes(&sseed), obytes(&smsg)]
                    }
                    // unseeded key generation with the real RNG; the tap only records what was drawn
                    "keypair_live" => {
                        let mut pk = vec![0u8; par::PUBLICKEYBYTES]; let mut sk = vec![0u8; par::SECRETKEYBYTES];
                        cd::verif_hooks::rng_script(None);
                        cd::verif_hooks::rng_take_log();
                        sg_::keypair(&mut pk, &mut sk, None);
                        let log = cd::verif_hooks::rng_take_log();
                        let lens: Vec<i128> = log.iter().map(|x| x.len() as i128).collect();
                        vec![obytes(&pk), obytes(&sk), Out::Ints(lens), obytes(&log.concat())]
                    }
                    // signing with the real RNG (rand = 1) or none (rand = 0); returns the request log
                    "signature_live" => {
                        let mut sig = vec![0u8; par::SIGNBYTES];
                        cd::verif_hooks::rng_script(None);
                        cd::verif_hooks::rng_take_log();
                        sg_::signature(&mut sig, bytes(&a[0]), bytes(&a[1]), int(&a[2]) != 0);
                        let log = cd::verif_hooks::rng_take_log();
                        let lens: Vec<i128> = log.iter().map(|x| x.len() as i128).collect();
                        vec![obytes(&sig), Out::Ints(lens), obytes(&log.concat())]
                    }
                    // draws made by seeded key generation and verification (must be none)
                    // freshness across OS threads: `threads` barrier-started fresh threads each make `per` unseeded key
                    // generations and `per` randomized/hedged signatures of one message under one key; returns the number of
                    // outputs and of DISTINCT outputs (a per-thread generator cloned from a shared seed repeats across threads)
                    "rng_threads" => {
                        let threads = int(&a[0]) as usize; let per = int(&a[1]) as usize;
                        let sk = std::sync::Arc::new(bytes(&a[2]).to_vec());
                        let barrier = std::sync::Arc::new(std::sync::Barrier::new(threads));
                        let mut hs = Vec::new();
                        for _ in 0..threads {
                            let (sk, barrier) = (sk.clone(), barrier.clone());
                            hs.push(std::thread::spawn(move || {
                                barrier.wait();
                                let mut ks = Vec::new(); let mut ss = Vec::new();
                                for _ in 0..per {
                                    let mut pk = vec![0u8; par::PUBLICKEYBYTES]; let mut s2 = vec![0u8; par::SECRETKEYBYTES];
                                    sg_::keypair(&mut pk, &mut s2, None);
                                    ks.push(crate::history::fnv(&pk));
                                    let mut sig = vec![0u8; par::SIGNBYTES];
                                    sg_::signature(&mut sig, b"one message", &sk, true);
                                    ss.push(crate::history::fnv(&sig));
                                }
                                (ks, ss)
                            }));
                        }
                        let mut ks = Vec::new(); let mut ss = Vec::new();
                        for h in hs { let (k, s) = h.join().unwrap(); ks.extend(k); ss.extend(s); }
                        let (nk, ns) = (ks.len(), ss.len());
                        ks.sort(); ks.dedup(); ss.sort(); ss.dedup();
                        vec![oint(nk as i64), oint(ks.len() as i64), oint(ns as i64), oint(ss.len() as i64)]
                    }
                    // schedule probe: two keys, LONG messages (hashing the message widens any check-then-use window on shared
                    // state), `threads` barrier-started threads alternately hammering key A and key B; every verification of a
                    // genuine signature must return true. args: threads iters msglen -> [verifications, failures]
                    "verify_race" => {
                        let threads = int(&a[0]) as usize; let iters = int(&a[1]) as usize; let mlen = int(&a[2]) as usize;
                        let mut keys = Vec::new();
                        for k in 0..2u8 {
                            let mut pk = vec![0u8; par::PUBLICKEYBYTES]; let mut sk = vec![0u8; par::SECRETKEYBYTES];
                            sg_::keypair(&mut pk, &mut sk, Some(&[k + 1; 32]));
                            let msg: Vec<u8> = (0..mlen).map(|i| (i as u8).wrapping_mul(31).wrapping_add(k)).collect();
                            let mut sig = vec![0u8; par::SIGNBYTES];
                            sg_::signature(&mut sig, &msg, &sk, false);
                            keys.push((pk, msg, sig));
                        }
                        let keys = std::sync::Arc::new(keys);
                        let barrier = std::sync::Arc::new(std::sync::Barrier::new(threads));
                        let mut hs = Vec::new();
                        for t in 0..threads {
                            let (keys, barrier) = (keys.clone(), barrier.clone());
                            hs.push(std::thread::spawn(move || {
                                barrier.wait();
                                let mut bad = 0i64;
                                for i in 0..iters {
                                    // even threads stay on one key (cache hits), odd threads alternate (cache replacement)
                                    let k = if t % 2 == 0 { 0 } else { i % 2 };
                                    let (pk, msg, sig) = &keys[k];
                                    if !sg_::verify(sig, msg, pk) { bad += 1; }
                                }
                                bad
                            }));
                        }
                        let mut bad = 0i64;
                        for h in hs { bad += h.join().unwrap(); }
                        vec![oint((threads * iters) as i64), oint(bad)]
                    }
                    // schedule probe for signing: reference signatures of `iters` messages computed on one thread, then `threads`
                    // barrier-started threads re-sign all of them deterministically; every result must equal the reference
                    "sign_race" => {
                        let threads = int(&a[0]) as usize; let iters = int(&a[1]) as usize;
                        let mut pk = vec![0u8; par::PUBLICKEYBYTES]; let mut sk = vec![0u8; par::SECRETKEYBYTES];
                        sg_::keypair(&mut pk, &mut sk, Some(bytes(&a[2])));
                        let mut refs = Vec::new();
                        for i in 0..iters {
                            let mut sig = vec![0u8; par::SIGNBYTES];
                            sg_::signature(&mut sig, &(i as u32).to_le_bytes(), &sk, false);
                            refs.push(sig);
                        }
                        let (sk, refs) = (std::sync::Arc::new(sk), std::sync::Arc::new(refs));
                        let barrier = std::sync::Arc::new(std::sync::Barrier::new(threads));
                        let mut hs = Vec::new();
                        for t in 0..threads {
                            let (sk, refs, barrier) = (sk.clone(), refs.clone(), barrier.clone());
                            hs.push(std::thread::spawn(move || {
                                barrier.wait();
                                let mut bad = 0i64; let mut first = -1i64;
                                for k in 0..iters {
                                    let i = (k + t * 7) % iters;
                                    let mut sig = vec![0u8; par::SIGNBYTES];
                                    sg_::signature(&mut sig, &(i as u32).to_le_bytes(), &sk, false);
                                    if sig != refs[i] { bad += 1; if first < 0 { first = i as i64; } }
                                }
                                (bad, first)
                            }));
                        }
                        let mut bad = 0i64; let mut first = -1i64;
                        for h in hs { let (b, f) = h.join().unwrap(); bad += b; if first < 0 { first = f; } }
                        vec![oint((threads * iters) as i64), oint(bad), oint(first)]
                    }
                    "draws_seeded" => {
                        let mut pk = vec![0u8; par::PUBLICKEYBYTES]; let mut sk = vec![0u8; par::SECRETKEYBYTES];
                        cd::verif_hooks::rng_script(None);
                        cd::verif_hooks::rng_take_log();
                        sg_::keypair(&mut pk, &mut sk, Some(bytes(&a[0])));
                        let n1 = cd::verif_hooks::rng_take_log().len();
                        let mut sig = vec![0u8; par::SIGNBYTES];
                        sg_::signature(&mut sig, bytes(&a[1]), &sk, false);
                        let n2 = cd::verif_hooks::rng_take_log().len();
                        let v = sg_::verify(&sig, bytes(&a[1]), &pk);
                        let n3 = cd::verif_hooks::rng_take_log().len();
                        vec![oint(n1 as i64), oint(n2 as i64), oint(n3 as i64), oint(v as i32)]
                    }
                    _ => return None,
                })
            }
        }
    };
}
full_set!(s_lvl2, v2, cd::packing::lvl2, cd::sign::lvl2, cd::params::lvl2, 32);
full_set!(s_lvl3, v3, cd::packing::lvl3, cd::sign::lvl3, cd::params::lvl3, 32);
full_set!(s_lvl5, v5, cd::packing::lvl5, cd::sign::lvl5, cd::params::lvl5, 32);
full_set!(s_ml44, v2, cd::packing::ml_dsa_44, cd::sign::ml_dsa_44, cd::params::ml_dsa_44, 64);
full_set!(s_ml65, v3, cd::packing::ml_dsa_65, cd::sign::ml_dsa_65, cd::params::ml_dsa_65, 64);
full_set!(s_ml87, v5, cd::packing::ml_dsa_87, cd::sign::ml_dsa_87, cd::params::ml_dsa_87, 64);

// ---------------------------------------------------------------- containers and wrappers
macro_rules! containers {
    ($f:expr, $a:expr, $m:path) => {{
        use $m as api;
        match $f {
            "sk_roundtrip" => Some(vec![obytes(&api::SecretKey::from_bytes(bytes(&$a[0])).to_bytes())]),
            "pk_roundtrip" => Some(vec![obytes(&api::PublicKey::from_bytes(bytes(&$a[0])).to_bytes())]),
            "kp_roundtrip" => {
                let kp = api::Keypair::from_bytes(bytes(&$a[0]));
                Some(vec![obytes(&kp.secret.to_bytes()), obytes(&kp.public.to_bytes()), obytes(&kp.to_bytes())])
            }
            "kp_generate" => {
                let kp = api::Keypair::generate(Some(bytes(&$a[0])));
                Some(vec![obytes(&kp.secret.to_bytes()), obytes(&kp.public.to_bytes()), obytes(&kp.to_bytes())])
            }
            // seeded generation through the API wrapper with the request log: (secret, public, number of RNG requests)
            "kp_generate_log" => {
                cd::verif_hooks::rng_script(None);
                cd::verif_hooks::rng_take_log();
                let kp = api::Keypair::generate(Some(bytes(&$a[0])));
                let n = cd::verif_hooks::rng_take_log().len();
                Some(vec![obytes(&kp.secret.to_bytes()), obytes(&kp.public.to_bytes()), oint(n as i64)])
            }
            "kp_generate_rand" => {
                let tape = bytes(&$a[0]).to_vec();
                let n = tape.len();
                cd::verif_hooks::rng_script(Some(tape));
                cd::verif_hooks::rng_take_log();
                let r = std::panic::catch_unwind(std::panic::AssertUnwindSafe(|| api::Keypair::generate(None)));
                cd::verif_hooks::rng_script(None);
                let used: usize = cd::verif_hooks::rng_take_log().iter().map(|x| x.len()).sum();
                match r {
                    Ok(kp) => Some(vec![obytes(&kp.secret.to_bytes()), obytes(&kp.public.to_bytes()), oint((n - used) as i64)]),
                    Err(_) => panic!("generate"),
                }
            }
            _ => None,
        }
    }};
}
macro_rules! dil_api {
    ($f:expr, $a:expr, $m:path) => {{
        use $m as api;
        match $f {
            "api_sign" => {
                let sk = api::SecretKey::from_bytes(bytes(&$a[0]));
                Some(vec![obytes(&sk.sign(bytes(&$a[1])))])
            }
            "api_verify" => {
                let pk = api::PublicKey::from_bytes(bytes(&$a[0]));
                Some(vec![oint(pk.verify(bytes(&$a[1]), bytes(&$a[2])) as i32)])
            }
            // one key OBJECT used under key A, then overwritten in place with key B (the fields are public) and used again:
            // args skA pkA skB pkB msg sigA sigB -> [verify before (A), verify after (B), signature after == fresh object's]
            "obj_reuse" => {
                let mut kp = api::Keypair::from_bytes(&[bytes(&$a[0]), bytes(&$a[1])].concat());
                let v0 = kp.verify(bytes(&$a[4]), bytes(&$a[5]));
                let _ = kp.sign(bytes(&$a[4]));
                kp.secret.bytes.copy_from_slice(bytes(&$a[2]));
                kp.public.bytes.copy_from_slice(bytes(&$a[3]));
                let v1 = kp.verify(bytes(&$a[4]), bytes(&$a[6]));
                let s1 = kp.sign(bytes(&$a[4]));
                let fresh = api::SecretKey::from_bytes(bytes(&$a[2])).sign(bytes(&$a[4]));
                let mut pk = api::PublicKey::from_bytes(bytes(&$a[1]));
                let w0 = pk.verify(bytes(&$a[4]), bytes(&$a[5]));
                pk.bytes.copy_from_slice(bytes(&$a[3]));
                let w1 = pk.verify(bytes(&$a[4]), bytes(&$a[6]));
                Some(vec![oint((v0 && w0) as i32), oint((v1 && w1) as i32), oint((s1[..] == fresh[..]) as i32)])
            }
            "kp_api_sign" => {
                let kp = api::Keypair::from_bytes(bytes(&$a[0]));
                Some(vec![obytes(&kp.sign(bytes(&$a[1])))])
            }
            "kp_api_verify" => {
                let kp = api::Keypair::from_bytes(bytes(&$a[0]));
                Some(vec![oint(kp.verify(bytes(&$a[1]), bytes(&$a[2])) as i32)])
            }
            _ => containers!($f, $a, $m),
        }
    }};
}
fn ph(a: &Arg) -> cd::PH {
    if int(a) != 0 { cd::PH::SHA512 } else { cd::PH::SHA256 }
}
macro_rules! ml_api {
    ($f:expr, $a:expr, $m:path) => {{
        use $m as api;
        match $f {
            "obj_reuse" => {
                let mut kp = api::Keypair::from_bytes(&[bytes(&$a[0]), bytes(&$a[1])].concat());
                let v0 = kp.verify(bytes(&$a[4]), bytes(&$a[5]), None);
                let _ = kp.sign(bytes(&$a[4]), None, false);
                kp.secret.bytes.copy_from_slice(bytes(&$a[2]));
                kp.public.bytes.copy_from_slice(bytes(&$a[3]));
                let v1 = kp.verify(bytes(&$a[4]), bytes(&$a[6]), None);
                let s1 = kp.sign(bytes(&$a[4]), None, false).unwrap();
                let fresh = api::SecretKey::from_bytes(bytes(&$a[2])).sign(bytes(&$a[4]), None, false).unwrap();
                let mut pk = api::PublicKey::from_bytes(bytes(&$a[1]));
                let w0 = pk.verify(bytes(&$a[4]), bytes(&$a[5]), None);
                pk.bytes.copy_from_slice(bytes(&$a[3]));
                let w1 = pk.verify(bytes(&$a[4]), bytes(&$a[6]), None);
                Some(vec![oint((v0 && w0) as i32), oint((v1 && w1) as i32), oint((s1[..] == fresh[..]) as i32)])
            }
            "ml_sign" | "ml_prehash_sign" => {
                let sk = api::SecretKey::from_bytes(bytes(&$a[0]));
                let pre = $f == "ml_prehash_sign";
                let tape = bytes(&$a[if pre { 5 } else { 4 }]).to_vec();
                let n = tape.len();
                cd::verif_hooks::rng_script(Some(tape));
                cd::verif_hooks::rng_take_log();
                let r = std::panic::catch_unwind(std::panic::AssertUnwindSafe(|| {
                    if pre {
                        sk.prehash_sign(bytes(&$a[1]), octx(&$a[2]), int(&$a[3]) != 0, ph(&$a[4]))
                    } else {
                        sk.sign(bytes(&$a[1]), octx(&$a[2]), int(&$a[3]) != 0)
                    }
                }));
                cd::verif_hooks::rng_script(None);
                let used: usize = cd::verif_hooks::rng_take_log().iter().map(|x| x.len()).sum();
                match r {
                    Ok(Some(s)) => Some(vec![oint(1), obytes(&s), oint((n - used) as i64)]),
                    Ok(None) => Some(vec![oint(0), obytes(&[]), oint((n - used) as i64)]),
                    Err(_) => panic!("sign"),
                }
            }
            "ml_verify" => {
                let pk = api::PublicKey::from_bytes(bytes(&$a[0]));
                Some(vec![oint(pk.verify(bytes(&$a[1]), bytes(&$a[2]), octx(&$a[3])) as i32)])
            }
            // the same through the Keypair wrappers (deterministic signing only: no tape needed)
            "kp_ml_sign" => {
                let kp = api::Keypair::from_bytes(bytes(&$a[0]));
                let r = if int(&$a[3]) == 0 { kp.sign(bytes(&$a[1]), octx(&$a[2]), false) }
                        else { kp.prehash_sign(bytes(&$a[1]), octx(&$a[2]), false, ph(&Arg::Int(int(&$a[3]) - 1))) };
                match r { Some(s) => Some(vec![oint(1), obytes(&s)]), None => Some(vec![oint(0), obytes(&[])]) }
            }
            "kp_ml_verify" => {
                let kp = api::Keypair::from_bytes(bytes(&$a[0]));
                let r = if int(&$a[4]) == 0 { kp.verify(bytes(&$a[1]), bytes(&$a[2]), octx(&$a[3])) }
                        else { kp.prehash_verify(bytes(&$a[1]), bytes(&$a[2]), octx(&$a[3]), ph(&Arg::Int(int(&$a[4]) - 1))) };
                Some(vec![oint(r as i32)])
            }
            "ml_prehash_verify" => {
                let pk = api::PublicKey::from_bytes(bytes(&$a[0]));
                Some(vec![oint(pk.prehash_verify(bytes(&$a[1]), bytes(&$a[2]), octx(&$a[3]), ph(&$a[4])) as i32)])
            }
            _ => containers!($f, $a, $m),
        }
    }};
}


fn _copy_for_sweep(c: &str) -> &str { c }

fn cks(h: i64, v: i64) -> i64 {
    (h * 1000003 + (v & 0x3FFFFFFF)) % 2147483647
}

fn ref_decompose(a: i64, g: i64) -> (i64, i64) {
    const Q: i64 = 8380417;
    let rp = a.rem_euclid(Q);
    let al = 2 * g;
    let mut r0 = rp % al;
    if r0 > al / 2 { r0 -= al; }
    if rp - r0 == Q - 1 { (r0 - 1, 0) } else { (r0, (rp - r0) / al) }
}

/// Exhaustive sweep of a scalar function over [lo, hi): checksum of outputs (compared with the model's),
/// number of panics, number of inputs on which the property's own predicate fails, first such input.
fn sweep(fnid: i128, copy: &str, fixed: i64, lo: i64, hi: i64) -> Option<Vec<Out>> {
    const Q: i64 = 8380417;
    let g: i64 = if copy == "lvl2" { 95232 } else { 261888 };
    let m: i64 = (Q - 1) / (2 * g);
    let mut h = 7i64; let mut pan = 0i64; let mut bad = 0i64; let mut first = i64::MIN;
    for a in lo..hi {
        let r = std::panic::catch_unwind(|| -> Vec<i64> {
            let x = a as i32;
            match (fnid, copy) {
                (0, _) => { let (a0, a1) = cd::rounding::power2round(x); vec![a0 as i64, a1 as i64] }
                (1, "lvl2") => { let (a0, a1) = cd::rounding::lvl2::decompose(x); vec![a0 as i64, a1 as i64] }
                (1, "lvl3") => { let (a0, a1) = cd::rounding::lvl3::decompose(x); vec![a0 as i64, a1 as i64] }
                (1, _) => { let (a0, a1) = cd::rounding::lvl5::decompose(x); vec![a0 as i64, a1 as i64] }
                (2, _) => vec![cd::reduce::caddq(x) as i64],
                (3, _) => vec![cd::reduce::reduce32(x) as i64],
                (4, "lvl2") => vec![cd::rounding::lvl2::use_hint(x, fixed as i32) as i64],
                (4, "lvl3") => vec![cd::rounding::lvl3::use_hint(x, fixed as i32) as i64],
                (4, _) => vec![cd::rounding::lvl5::use_hint(x, fixed as i32) as i64],
                (5, "lvl2") => vec![cd::rounding::lvl2::make_hint(x, fixed as i32) as i64],
                (5, "lvl3") => vec![cd::rounding::lvl3::make_hint(x, fixed as i32) as i64],
                (_, _) => vec![cd::rounding::lvl5::make_hint(x, fixed as i32) as i64],
            }
        });
        match r {
            Ok(vs) => {
                for v in &vs { h = cks(h, v + 1073741824); }
                let ok = match fnid {
                    0 => a == vs[1] * 8192 + vs[0] && -4096 < vs[0] && vs[0] <= 4096,
                    1 => (vs[0], vs[1]) == ref_decompose(a, g),
                    2 => vs[0] == a.rem_euclid(Q),
                    3 => (vs[0] - a).rem_euclid(Q) == 0 && vs[0].abs() <= 6283009,
                    4 => { let (r0, r1) = ref_decompose(a, g);
                           let e = if fixed == 0 { r1 } else if r0 > 0 { (r1 + 1).rem_euclid(m) } else { (r1 - 1).rem_euclid(m) };
                           vs[0] == e }
                    _ => { let r = (fixed * 2 * g + a).rem_euclid(Q);
                           vs[0] == (if ref_decompose(r, g).1 == fixed { 0 } else { 1 }) }
                };
                if !ok { bad += 1; if first == i64::MIN { first = a; } }
            }
            Err(_) => { pan += 1; h = cks(h, 1); }
        }
    }
    Some(vec![oint(h), oint(pan), oint(bad), oint(if first == i64::MIN { -1 } else { first })])
}

fn shake_hist(rate128: bool, a: &[Arg]) -> Option<Vec<Out>> {
    use cd::fips202 as f;
    let mut st = f::KeccakState::default();
    let mut outs = Vec::new();
    let mut i = 0;
    while i < a.len() {
        let op = int(&a[i]);
        i += 1;
        match op {
            0 => { let b = bytes(&a[i]); i += 1; if rate128 { f::shake128_absorb(&mut st, b, b.len()) } else { f::shake256_absorb(&mut st, b, b.len()) } }
            1 => { if rate128 { f::shake128_finalize(&mut st) } else { f::shake256_finalize(&mut st) } }
            2 => {
                if rate128 { return None; }
                let n = usize::try_from(int(&a[i])).ok()?; i += 1;
                let mut o = vec![0u8; n];
                f::shake256_squeeze(&mut o, n, &mut st);
                outs.push(Out::Bytes(o));
            }
            3 => {
                let n = usize::try_from(int(&a[i])).ok()?; i += 1;
                let rate = if rate128 { f::SHAKE128_RATE } else { f::SHAKE256_RATE };
                let mut o = vec![0u8; n * rate];
                if rate128 { f::shake128_squeezeblocks(&mut o, n, &mut st) } else { f::shake256_squeezeblocks(&mut o, n, &mut st) }
                outs.push(Out::Bytes(o));
            }
            4 => { if rate128 { return None; } let b = bytes(&a[i]); i += 1; f::shake256_absorb_once(&mut st, b, b.len()); }
            5 => st.init(),
            6 => {
                let seed = bytes(&a[i]); let nonce = u16::try_from(int(&a[i + 1])).ok()?; i += 2;
                if rate128 { f::shake128_stream_init(&mut st, seed, nonce) } else { f::shake256_stream_init(&mut st, seed, nonce) }
            }
            _ => return None,
        }
    }
    Some(outs)
}

pub fn dispatch(f: &str, copy: &str, a: &[Arg]) -> Option<Vec<Out>> {
    // An argument that does not fit the Rust parameter type cannot be passed at all: "unknown".
    let r = match f {
        "montgomery_reduce" => Some(vec![oint(cd::reduce::montgomery_reduce(i64::try_from(int(&a[0])).ok()?))]),
        "reduce32" => Some(vec![oint(cd::reduce::reduce32(i32::try_from(int(&a[0])).ok()?))]),
        "caddq" => Some(vec![oint(cd::reduce::caddq(i32::try_from(int(&a[0])).ok()?))]),
        "power2round" => { let (a0, a1) = cd::rounding::power2round(i32::try_from(int(&a[0])).ok()?); Some(vec![oint(a0), oint(a1)]) }
        "decompose" | "make_hint" | "use_hint" => match copy {
            "lvl2" => rounding_level!(f, a, cd::rounding::lvl2),
            "lvl3" => rounding_level!(f, a, cd::rounding::lvl3),
            "lvl5" => rounding_level!(f, a, cd::rounding::lvl5),
            _ => None,
        },
        "ntt_ntt" => { let mut v = i32s(&a[0])?; if v.len() != 256 { return None; } cd::ntt::ntt(&mut v); Some(vec![Out::Ints(v.iter().map(|x| *x as i128).collect())]) }
        "ntt_invntt" => { let mut v = i32s(&a[0])?; if v.len() != 256 { return None; } cd::ntt::invntt_tomont(&mut v); Some(vec![Out::Ints(v.iter().map(|x| *x as i128).collect())]) }
        "poly_ntt" => { let mut p = poly(&a[0])?; cd::poly::ntt(&mut p); Some(vec![opoly(&p)]) }
        "poly_invntt" => { let mut p = poly(&a[0])?; cd::poly::invntt_tomont(&mut p); Some(vec![opoly(&p)]) }
        "poly_reduce" => { let mut p = poly(&a[0])?; cd::poly::reduce(&mut p); Some(vec![opoly(&p)]) }
        "poly_caddq" => { let mut p = poly(&a[0])?; cd::poly::caddq(&mut p); Some(vec![opoly(&p)]) }
        "poly_add" => { let (x, y) = (poly(&a[0])?, poly(&a[1])?); Some(vec![opoly(&cd::poly::add(&x, &y))]) }
        "poly_add_ip" => { let (mut x, y) = (poly(&a[0])?, poly(&a[1])?); cd::poly::add_ip(&mut x, &y); Some(vec![opoly(&x)]) }
        "poly_sub" => { let (x, y) = (poly(&a[0])?, poly(&a[1])?); Some(vec![opoly(&cd::poly::sub(&x, &y))]) }
        "poly_sub_ip" => { let (mut x, y) = (poly(&a[0])?, poly(&a[1])?); cd::poly::sub_ip(&mut x, &y); Some(vec![opoly(&x)]) }
        "poly_shiftl" => { let mut p = poly(&a[0])?; cd::poly::shiftl(&mut p); Some(vec![opoly(&p)]) }
        "poly_pointwise" => { let (x, y) = (poly(&a[0])?, poly(&a[1])?); let mut c = np(); cd::poly::pointwise_montgomery(&mut c, &x, &y); Some(vec![opoly(&c)]) }
        "poly_pointwise_dirty" => { let (x, y) = (poly(&a[0])?, poly(&a[1])?); let mut c = poly(&a[2])?; cd::poly::pointwise_montgomery(&mut c, &x, &y); Some(vec![opoly(&c)]) }
        "poly_power2round" => { let mut a1 = poly(&a[0])?; let mut a0 = np(); cd::poly::power2round(&mut a1, &mut a0); Some(vec![opoly(&a1), opoly(&a0)]) }
        "chknorm" => { let p = poly(&a[0])?; Some(vec![oint(cd::poly::chknorm(&p, i32::try_from(int(&a[1])).ok()?))]) }
        "rej_uniform" => {
            let mut v = i32s(&a[0])?;
            let alen = usize::try_from(int(&a[1])).ok()?;
            let buflen = usize::try_from(int(&a[3])).ok()?;
            let c = cd::poly::rej_uniform(&mut v, alen, bytes(&a[2]), buflen);
            Some(vec![Out::Ints(v.iter().map(|x| *x as i128).collect()), Out::Int(c as i128)])
        }
        "uniform" => { let mut p = np(); cd::poly::uniform(&mut p, bytes(&a[0]), u16::try_from(int(&a[1])).ok()?); Some(vec![opoly(&p)]) }
        "uniform_tap" => {
            let mut p = np();
            cd::verif_hooks::xof_script(Some(bytes(&a[0]).to_vec()));
            let r = std::panic::catch_unwind(std::panic::AssertUnwindSafe(|| cd::poly::uniform(&mut p, &[0u8; 32], 0)));
            cd::verif_hooks::xof_script(None);
            if r.is_err() { panic!("tap") }
            Some(vec![opoly(&p)])
        }
        "t1_pack" => { let mut r = bytes(&a[0]).to_vec(); let p = poly(&a[1])?; cd::poly::t1_pack(&mut r, &p); Some(vec![obytes(&r)]) }
        "t1_unpack" => { let mut p = np(); cd::poly::t1_unpack(&mut p, bytes(&a[0])); Some(vec![opoly(&p)]) }
        "t0_pack" => { let mut r = bytes(&a[0]).to_vec(); let p = poly(&a[1])?; cd::poly::t0_pack(&mut r, &p); Some(vec![obytes(&r)]) }
        "t0_unpack" => { let mut p = np(); cd::poly::t0_unpack(&mut p, bytes(&a[0])); Some(vec![opoly(&p)]) }
        "shake256" => {
            let n = usize::try_from(int(&a[0])).ok()?;
            let mut o = vec![0u8; n];
            let inp = bytes(&a[1]);
            cd::fips202::shake256(&mut o, n, inp, inp.len());
            Some(vec![obytes(&o)])
        }
        // one-shot with an input buffer LONGER than inlen (the callee must read inlen bytes only)
        "shake256_inlen" => {
            let n = usize::try_from(int(&a[0])).ok()?;
            let mut o = vec![0u8; n];
            let inp = bytes(&a[1]);
            let inlen = usize::try_from(int(&a[2])).ok()?;
            cd::fips202::shake256(&mut o, n, inp, inlen);
            Some(vec![obytes(&o)])
        }
        // montgomery_reduce over the contiguous i64 window [lo, hi) with the property's predicate evaluated on every input:
        // r*2^32 = a (mod q) and -q < r < q; returns (inputs, panics, violations, first violating input or 0)
        "mont_sweep" => {
            const Q: i128 = 8380417;
            let lo = i64::try_from(int(&a[0])).ok()?; let hi = i64::try_from(int(&a[1])).ok()?;
            let mut pan = 0i64; let mut bad = 0i64; let mut first: i128 = 0;
            let mut x = lo;
            while x < hi {
                match std::panic::catch_unwind(|| cd::reduce::montgomery_reduce(x)) {
                    Ok(r) => {
                        let r = r as i128;
                        if !((r * 4294967296 - x as i128).rem_euclid(Q) == 0 && -Q < r && r < Q) { bad += 1; if first == 0 { first = x as i128; } }
                    }
                    Err(_) => { pan += 1; if first == 0 { first = x as i128; } }
                }
                x += 1;
            }
            Some(vec![oint((hi - lo) as i128), oint(pan), oint(bad), oint(first)])
        }
        "sweep" => {
            let id = ints(&a[0])[0];
            sweep(id, _copy_for_sweep(copy), int(&a[1]) as i64, int(&a[2]) as i64, int(&a[3]) as i64)
        }
        "history" => Some(crate::history::run(a).into_iter().map(|v| oint(v)).collect()),
        "purity" => {
            let (n, e, m, f) = crate::purity::run(int(&a[0]) as u64, int(&a[1]) as usize, int(&a[2]) as usize, int(&a[3]) as usize);
            Some(vec![oint(n), oint(e), oint(m), oint(f)])
        }
        "shake256_hist" => shake_hist(false, a),
        "shake128_hist" => shake_hist(true, a),
        "keccakf" => {
            let v = ints(&a[0]);
            let mut s: Vec<u64> = Vec::new();
            for x in v { s.push(u64::try_from(*x).ok()?); }
            cd::fips202::keccakf1600_statepermute(&mut s);
            Some(vec![Out::Ints(s.iter().map(|x| *x as i128).collect())])
        }
        _ => None,
    };
    if r.is_some() {
        return r;
    }
    let r = match copy {
        "lvl2" => poly_set!(f, a, cd::poly::lvl2, ()),
        "lvl3" => poly_set!(f, a, cd::poly::lvl3, ()),
        "lvl5" => poly_set!(f, a, cd::poly::lvl5, ()),
        "ml_dsa_44" => poly_set!(f, a, cd::poly::ml_dsa_44, ()),
        "ml_dsa_65" => poly_set!(f, a, cd::poly::ml_dsa_65, ()),
        "ml_dsa_87" => poly_set!(f, a, cd::poly::ml_dsa_87, ()),
        _ => None,
    };
    if r.is_some() {
        return r;
    }
    let r = match copy {
        "lvl2" => v2::dispatch(f, a),
        "lvl3" => v3::dispatch(f, a),
        "lvl5" => v5::dispatch(f, a),
        _ => None,
    };
    if r.is_some() {
        return r;
    }
    let r = match copy {
        "lvl2" => s_lvl2::dispatch(f, a),
        "lvl3" => s_lvl3::dispatch(f, a),
        "lvl5" => s_lvl5::dispatch(f, a),
        "ml_dsa_44" => s_ml44::dispatch(f, a),
        "ml_dsa_65" => s_ml65::dispatch(f, a),
        "ml_dsa_87" => s_ml87::dispatch(f, a),
        _ => None,
    };
    if r.is_some() {
        return r;
    }
    match copy {
        "dilithium2" => dil_api!(f, a, cd::dilithium2),
        "dilithium3" => dil_api!(f, a, cd::dilithium3),
        "dilithium5" => dil_api!(f, a, cd::dilithium5),
        "ml_dsa_44" => ml_api!(f, a, cd::ml_dsa_44),
        "ml_dsa_65" => ml_api!(f, a, cd::ml_dsa_65),
        "ml_dsa_87" => ml_api!(f, a, cd::ml_dsa_87),
        _ => None,
    }
}
