//! Dispatch table: real crate function for each (fn, copy). Grown together with coq/extract/dispatch.ml.
use crate::{Arg, Out};
use crystals_dilithium as cd;

fn int(a: &Arg) -> i128 {
    match a {
        Arg::Int(v) => *v,
        _ => panic!("harness: expected int"),
    }
}

pub fn dispatch(f: &str, _copy: &str, a: &[Arg]) -> Option<Vec<Out>> {
    Some(match f {
        // An argument that does not fit the Rust parameter type cannot be passed at all: "unknown".
        "montgomery_reduce" => {
            let v = i64::try_from(int(&a[0])).ok()?;
            vec![Out::Int(cd::reduce::montgomery_reduce(v) as i128)]
        }
        "reduce32" => {
            let v = i32::try_from(int(&a[0])).ok()?;
            vec![Out::Int(cd::reduce::reduce32(v) as i128)]
        }
        "caddq" => {
            let v = i32::try_from(int(&a[0])).ok()?;
            vec![Out::Int(cd::reduce::caddq(v) as i128)]
        }
        _ => return None,
    })
}
